#!/bin/bash
# usage: tools/benign_parallel.sh [workers] [dir]  — apply every behaviour-preserving change <dir>/*.diff (default
# /verif/benign) to a scratch copy of /repo and run ALL quick checks against it in a scratch copy of /verif;
# every VIOLATION is a false alarm (or shows that the change was not behaviour-preserving).  One line per change.
N=${1:-4}
DIR=${2:-/verif/benign}
ROOT=/root/work/benpar
export GOFLAGS=-mod=mod GOPROXY=off GOSUMDB=off GOTOOLCHAIN=local
rm -rf $ROOT; mkdir -p $ROOT
ids=($(ls $DIR/*.diff | xargs -n1 basename | sed 's/\.diff$//'))
PROPS="${PROPS:-C01 C02 C03 C04 C05 C06 C07 C08 C09 C10 C11 C12 C13 C14 C15 C16 C17 C18 C19 C20}"
for w in $(seq 0 $((N-1))); do
  d=$ROOT/$w; mkdir -p $d
  git clone -q /repo $d/repo
  rsync -a --exclude replays --exclude '.build/run.*' --exclude .git /verif/ $d/verif/
  sed -i "s#=> /repo#=> $d/repo#" $d/verif/harness/go.mod
  (
    i=0
    for id in "${ids[@]}"; do
      if [ $((i % N)) -eq $w ]; then
        cd $d/repo
        if ! git apply $DIR/$id.diff 2>/dev/null; then echo "$id PATCH-FAILED"; git reset -q --hard HEAD; git clean -fdq; i=$((i+1)); continue; fi
        if ! go build ./... >/dev/null 2>&1; then echo "$id DOES-NOT-BUILD"; git reset -q --hard HEAD; git clean -fdq; i=$((i+1)); continue; fi
        alarms=""
        for prop in $PROPS; do
          out=$(cd $d/verif && VERIF_REPO=$d/repo ./check $prop --tier quick 2>&1)
          if echo "$out" | grep -q "^VIOLATION\|^ERROR"; then
            alarms="$alarms\n   $prop: $(echo "$out" | grep -m1 '^VIOLATION\|^ERROR' | cut -c1-300)"
          fi
        done
        if [ -z "$alarms" ]; then echo "$id clean"; else echo -e "$id ALARMS:$alarms"; fi
        git reset -q --hard HEAD; git clean -fdq
      fi
      i=$((i+1))
    done
  ) &
done
wait
rm -rf $ROOT
