#!/bin/bash
# usage: tools/try_benign_gen.sh <patch>...  — for each behaviour-preserving patch: regenerate the translated
# definitions from a scratch copy of /repo with the patch and re-check the equality proofs (Props.Gen*, Props.C19Gen)
export GOFLAGS=-mod=mod GOPROXY=off GOSUMDB=off GOTOOLCHAIN=local
B=/root/work/bg; rm -rf $B; mkdir -p $B
git clone -q /repo $B/repo
rsync -a /verif/lean/ $B/lean/
(cd /verif/harness && go build -o $B/extract ./cmd/extract) || exit 2
for p in "$@"; do
  (cd $B/repo && git checkout -q -- . && git apply "$p") || { echo "$(basename $p): PATCH-FAILED"; continue; }
  $B/extract -repo $B/repo -out $B/lean/Generated/Facts.lean >/dev/null 2>&1
  out=$(cd $B/lean && lake build Props.GenMisc Props.GenLoaders Props.GenHeads Props.GenTraverse Props.GenJoin Props.GenJoinTail Props.GenIterator Props.GenAppend Props.GenFetcher Props.GenCapstoneJoin Props.GenCapstoneValues Props.GenCapstoneIter Props.GenCapstoneAppend Props.GenCapstoneBounded Props.GenNewLog Props.GenCapstoneLoad Props.GenViews Props.GenCapstoneViews Props.GenCapstoneSystem Props.GenCapstoneRebuild Props.C19Gen 2>&1 | grep "error" | head -3 | cut -c1-200 | tr '\n' '|')
  if [ -z "$out" ]; then echo "$(basename $p): proofs hold"; else echo "$(basename $p): BROKEN $out"; fi
done
rm -rf $B
