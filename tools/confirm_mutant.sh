#!/bin/bash
# usage: tools/confirm_mutant.sh <id> <worktree>  — confirm a seeded change in its scratch worktree and store it under seeded/<id>
set -u
id="$1"; wt="$2"; lid=$(echo "$id" | tr 'A-Z' 'a-z' | sed 's/-.*//')
export GOFLAGS=-mod=mod GOPROXY=off GOSUMDB=off GOTOOLCHAIN=local
cd "$wt" || exit 2
demo=$(ls test/verif_demo_*_test.go | head -1)
tname=$(grep -o 'func TestVerifDemo[A-Za-z0-9_]*' "$demo" | head -1 | sed 's/func //')
git apply -R --check patch.diff 2>/dev/null || { echo "worktree does not have the patch applied"; }
b=$(go build ./... 2>&1 | tail -3)
s1=$(go test -vet=off -count=1 -skip "^${tname}\$" ./... 2>&1 | grep -E "^(ok|FAIL|---)" | tr '\n' ' ')
d1=$(go test -vet=off -count=1 -run "^${tname}\$" ./test/ 2>&1 | grep -E "^(ok|FAIL|--- FAIL)" | head -2 | tr '\n' ' ')
git apply -R patch.diff
d0=$(go test -vet=off -count=1 -run "^${tname}\$" ./test/ 2>&1 | grep -E "^(ok|FAIL|--- FAIL)" | head -2 | tr '\n' ' ')
git apply patch.diff
echo "build:[$b] suite-with-change:[$s1] demo-with-change:[$d1] demo-without:[$d0]"
mkdir -p /verif/seeded/$id
cp patch.diff /verif/seeded/$id/patch.diff
cp "$demo" /verif/seeded/$id/
cp NOTES.md /verif/seeded/$id/NOTES.md 2>/dev/null
cat > /verif/seeded/$id/confirm.txt <<EOT
confirmed $(date -u +%FT%TZ) in $wt
build: [$b]
existing suite with the change (demo skipped): $s1
demo $tname with the change: $d1
demo $tname without the change: $d0
EOT
