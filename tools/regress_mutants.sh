#!/bin/bash
# re-run every seeded change against the check of its property; prints one line per change
cd /verif
for d in seeded/*/; do
  id=$(basename $d); prop=${id:0:3}
  out=$(tools/try_mutant.sh /verif/${d}patch.diff $prop 2>&1)
  if echo "$out" | grep -q "^VIOLATION property=$prop"; then echo "$id caught: $(echo "$out" | grep -m1 '^VIOLATION' | cut -c1-150)"; else echo "$id MISSED: $(echo "$out" | tail -2 | tr '\n' ' ' | cut -c1-200)"; fi
done
