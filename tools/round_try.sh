#!/bin/bash
# usage: tools/round_try.sh <suffix> <id>...  — confirm each scratch worktree /tmp/mut/<id>, then run its property's quick check against it
cd /verif
for id in "$@"; do
  prop=${id:0:3}
  c=$(tools/confirm_mutant.sh $id /tmp/mut/$id 2>&1 | tail -1)
  out=$(tools/try_mutant.sh /verif/seeded/$id/patch.diff $prop 2>&1)
  if echo "$out" | grep -q "^VIOLATION property=$prop"; then r="caught: $(echo "$out" | grep -m1 '^VIOLATION' | cut -c1-160)"; else r="MISSED: $(echo "$out" | tail -3 | tr '\n' ' ' | cut -c1-240)"; fi
  echo "$id | $c | $r"
done
