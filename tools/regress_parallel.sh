#!/bin/bash
# usage: tools/regress_parallel.sh [workers]  — re-run every seeded change against the check of its property in
# scratch copies of /repo and /verif (outside both, removed at the end); one line per change on stdout
N=${1:-4}
ROOT=/root/work/par
export GOFLAGS=-mod=mod GOPROXY=off GOSUMDB=off GOTOOLCHAIN=local
rm -rf $ROOT; mkdir -p $ROOT
ids=($(ls /verif/seeded))
for w in $(seq 0 $((N-1))); do
  d=$ROOT/$w; mkdir -p $d
  git clone -q /repo $d/repo
  rsync -a --exclude replays --exclude '.build/run.*' --exclude .git /verif/ $d/verif/
  sed -i "s#=> /repo#=> $d/repo#" $d/verif/harness/go.mod
  (
    i=0
    for id in "${ids[@]}"; do
      if [ $((i % N)) -eq $w ]; then
        prop=${id:0:3}
        cd $d/repo
        if ! git apply /verif/seeded/$id/patch.diff 2>/dev/null; then
          if ! patch -p1 --fuzz=3 -s < /verif/seeded/$id/patch.diff >/dev/null 2>&1; then
            echo "$id PATCH-FAILED"; git reset -q --hard HEAD; git clean -fdq; i=$((i+1)); continue
          fi
        fi
        if ! go build ./... >/dev/null 2>&1; then echo "$id DOES-NOT-BUILD"; git reset -q --hard HEAD; git clean -fdq; i=$((i+1)); continue; fi
        out=$(cd $d/verif && VERIF_REPO=$d/repo ./check $prop --tier quick 2>&1)
        if echo "$out" | grep -q "^VIOLATION property=$prop"; then
          echo "$id caught: $(echo "$out" | grep -m1 '^VIOLATION' | cut -c1-150)"
        else
          echo "$id MISSED: $(echo "$out" | tail -2 | tr '\n' ' ' | cut -c1-200)"
        fi
        git reset -q --hard HEAD; git clean -fdq
      fi
      i=$((i+1))
    done
  ) &
done
wait
rm -rf $ROOT
