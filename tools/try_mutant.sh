#!/bin/bash
# usage: tools/try_mutant.sh <patch.diff> <prop> [<prop>...]   — apply to /repo, run quick checks, revert
set -u
patch="$1"; shift
cd /repo || exit 2
if ! git diff --quiet; then echo "/repo not clean"; exit 2; fi
# evidence and generated files written while the change is applied are not about /repo: keep the current ones aside
keep=$(mktemp -d /root/work/keep.XXXXXX); cp -a /verif/evidence "$keep/evidence"; cp -a /verif/lean/Generated "$keep/Generated"
if ! git apply "$patch" 2>/dev/null; then
  if ! patch -p1 --fuzz=3 -s < "$patch"; then echo "PATCH FAILED"; git reset -q --hard HEAD; git clean -fdq; exit 2; fi
fi
export GOFLAGS=-mod=mod GOPROXY=off GOSUMDB=off GOTOOLCHAIN=local
if ! go build ./... ; then echo "MUTANT DOES NOT BUILD"; git reset -q --hard HEAD; git clean -fdq; exit 2; fi
cd /verif
for p in "$@"; do
  out=$(./check "$p" --tier "${TIER:-quick}" 2>&1); rc=$?
  echo "== $p rc=$rc"; echo "$out" | grep -E "^(VIOLATION|KNOWN-FINDING|OK|ERROR)" | cut -c1-260 | head -${LINES_MAX:-4}
done
cd /repo && git reset -q --hard HEAD && git clean -fdq >/dev/null 2>&1
# the evidence written while the change was applied is not evidence about /repo: restore the committed files
rm -rf /verif/evidence /verif/lean/Generated; mv "$keep/evidence" /verif/evidence; mv "$keep/Generated" /verif/lean/Generated; rmdir "$keep"
git status --short | head -3
