#!/bin/bash
# usage: tools/try_scratch.sh <id>...   — like try_mutant.sh, but against scratch copies of /repo and /verif (outside
# both, removed at the end), so that it can run beside a sweep that uses /repo.  For each seeded/<id>/patch.diff:
# apply to the scratch repo, run the quick check of its property in the scratch /verif, print its verdict lines.
export GOFLAGS=-mod=mod GOPROXY=off GOSUMDB=off GOTOOLCHAIN=local
d=/root/work/scr.$$; rm -rf $d; mkdir -p $d
git clone -q /repo $d/repo
rsync -a --exclude replays --exclude '.build/run.*' --exclude .git /verif/ $d/verif/
sed -i "s#=> /repo#=> $d/repo#" $d/verif/harness/go.mod
for id in "$@"; do
  prop=${id:0:3}
  cd $d/repo
  if ! git apply /verif/seeded/$id/patch.diff 2>/dev/null; then echo "== $id PATCH-FAILED"; git reset -q --hard HEAD; continue; fi
  if ! go build ./... >/dev/null 2>&1; then echo "== $id DOES-NOT-BUILD"; git reset -q --hard HEAD; git clean -fdq; continue; fi
  out=$(cd $d/verif && VERIF_REPO=$d/repo ./check $prop --tier ${TIER:-quick} 2>&1)
  echo "== $id"
  echo "$out" | grep -E '^(VIOLATION|OK|ERROR|KNOWN)' | sed -E 's/replay=[^ ]+ //' | cut -c1-220 | head -${LINES_MAX:-6} | awk '{print "   " $0}'
  git reset -q --hard HEAD; git clean -fdq
done
rm -rf $d
