import Driver.Core
import Model.Store
/-!
# Driver.Crash — replay of the `crash` stream (C17)

`W i E a next refs` / `W i M a heads` / `X i a` : block writes and removals in store order;
`R kind id at state heads` : an identifier returned to a caller when the store had `at` events, with the
log's entries and heads at that moment; `L kind id upto res entries heads` : what loading `id` from the
store rebuilt after `upto` events gives.
-/
open Model

namespace Driver

structure KSt where
  store : List String := []
  writes : List Entry := []
  rets : Std.HashMap String (List String × List String × Bool) := {}
  lineNo : Nat := 0
  hist : String := ""
  diffs : Nat := 0
  specFails : Nat := 0
  checks : Std.HashMap String Nat := {}
  out : Array String := #[]
deriving Inhabited

def KSt.emit (s : KSt) (m : String) : KSt := { s with out := s.out.push m }
def KSt.count (s : KSt) (k : String) : KSt := { s with checks := s.checks.insert k (s.checks.getD k 0 + 1) }
def KSt.spec (s : KSt) (name : String) (ok : Bool) (detail : String) : KSt :=
  let s := s.count s!"spec:C17:{name}"
  if ok then s else
    { (s.emit s!"SPEC line={s.lineNo} hist={s.hist} C17 {name} FAIL {detail}") with specFails := s.specFails + 1 }

/-- end of a case: the model predicate on the whole write sequence -/
def KSt.finishCase (s : KSt) : KSt :=
  if s.writes.isEmpty then s else
  s.spec "prefixClosed" (prefixClosedB s.writes) s!"{s.writes.length} writes"

def handleCrash (s : KSt) (line : String) : KSt :=
  let s := { s with lineNo := s.lineNo + 1 }
  match line.splitOn " " with
  | "H" :: idx :: _ =>
    let s := s.finishCase
    { s with store := [], writes := [], rets := {}, hist := idx }
  | ["W", _, "E", a, nx, rf] =>
    let links := parseList nx ++ parseList rf
    let s := s.spec "closedAtWrite" (links.all (fun l => s.store.contains l)) s!"block {a} links {nx} {rf}"
    let e : Entry := { hash := strBytes a, logId := [], next := (parseList nx).map strBytes,
                       refs := (parseList rf).map strBytes, clock := { id := [], time := 0 } }
    { s with store := if s.store.contains a then s.store else s.store ++ [a], writes := s.writes ++ [e] }
  | ["W", _, "M", a, hs] =>
    let s := s.spec "manifestHeadsInStore" ((parseList hs).all (fun l => s.store.contains l)) s!"manifest {a}"
    { s with store := if s.store.contains a then s.store else s.store ++ [a] }
  | ["W", _, "?", a] => { s with store := s.store ++ [a] }
  | ["X", _, a] =>
    -- a removal: nothing still in the store may name the removed block
    let refd := s.writes.any (fun e => s.store.contains (String.fromUTF8! (ByteArray.mk (e.hash.map (·.toUInt8)).toArray)) &&
      (e.next ++ e.refs).contains (strBytes a))
    let s := s.spec "removalKeepsClosure" (!refd) s!"removed {a}"
    { s with store := s.store.filter (· != a) }
  | ["R", _, a, _, state, heads, pf] =>
    { s with rets := s.rets.insert a (parseList state, parseList heads, pf == "1") }
  | ["LF", a, diffs, joinRes] =>
    -- the loaded entries equal, field by field, the entries `Append` returned, and a peer can merge the
    -- loaded log ("loads to exactly the log state at the moment it was produced")
    let s := s.spec "loadedIdentical" (diffs == "-") s!"{a}: {diffs}"
    s.spec "loadedMergeable" (joinRes == "ok") s!"{a}: a peer's Join of the loaded log: {joinRes}"
  | ["L", kind, a, upto, res, ents, heads] =>
    match s.rets[a]? with
    | none => s
    | some (st, hd, part) =>
      if part then
        -- published by a log truncated by a size-bounded merge: the unbounded load gives at least its state
        -- (a truncated log may hold entries that are not below its heads, so only the heads are demanded)
        let got := parseList ents
        if kind != "mh" then s else
        s.spec "returnedLoadsHeads" (res == "ok" && hd.all (fun x => got.contains x)) s!"{kind} {a} at {upto}: {res} {ents} expected ⊇ heads {",".intercalate hd}"
      else
      let s := s.spec "returnedLoads" (res == "ok" && parseList ents == st) s!"{kind} {a} at {upto}: {res} {ents} expected {",".intercalate st}"
      if kind == "mh" then s.spec "returnedHeads" (res != "ok" || parseList heads == hd) s!"{kind} {a} at {upto}" else s
  | _ => s

end Driver
