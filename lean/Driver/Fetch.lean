import Driver.Core
import Model.Fetcher
/-!
# Driver.Fetch — replay of the `fetch` stream

* Trace validation: every observed `D` / `K` line must be an enabled event of `Model.Fetcher`
  (`fstep ≠ none`), the model must be terminated when the implementation returned, and the model's
  result list after the same events must equal the implementation's, in order (`DIFF` lines).  A
  `K x none` for a retrievable block is only possible after the timeout: the driver then inserts the
  (unobservable) `cancel` event if a timeout was configured.
* The loaders: `Model.Loaders` applied to the model's fetch result must give the loaded log (`DIFF`).
* Specifications on the implementation's output (`SPEC` lines):
  C11 requestOnce / neverExcluded / resultsNodup / resultSound / faultyResult (= `reachX`) /
      terminates / withinTimeout;
  C09 fetchComplete (= `reach`), loadComplete (+ heads and values of the loaded log are well-formed);
  C10 limitedSuperset (the proved admission property on the raw result), limitedOk(n,k) on the loaded log.
-/
open Model

namespace Driver

structure FOp where
  kind : String := ""
  n : Int := -1
  k : Nat := 0
  timeoutMs : Int := 0
  sort : SortKind := .lww
  roots : List Hash := []
  excl : List Hash := []
  faults : List Hash := []
  slow : List Hash := []
  cfg : FCfg := { store := [], length := -1, excluded := fun _ => false }
  st : Option FState := none       -- `none` after a rejected event
  dispatched : List Hash := []
  cancelInferred : Bool := false
  outcomeBad : Bool := false

structure FSt where
  uni : Std.HashMap String Entry := {}
  names : Std.HashMap Hash String := {}
  store : List Entry := []
  sort : SortKind := .lww
  op : Option FOp := none
  lineNo : Nat := 0
  hist : String := ""
  diffs : Nat := 0
  specFails : Nat := 0
  checks : Std.HashMap String Nat := {}
  out : Array String := #[]
  /-- the result list of the last `FetchAll` (for the progress reports) -/
  lastResult : List String := []

namespace FSt
def emit (s : FSt) (m : String) : FSt := { s with out := s.out.push m }
def count (s : FSt) (k : String) : FSt := { s with checks := s.checks.insert k (s.checks.getD k 0 + 1) }
def diff (s : FSt) (what model impl : String) : FSt :=
  { (s.emit s!"DIFF line={s.lineNo} hist={s.hist} {what} model={model} impl={impl}") with diffs := s.diffs + 1 }
def spec (s : FSt) (prop name : String) (ok : Bool) (detail : String := "") : FSt :=
  let s := s.count s!"spec:{prop}:{name}"
  if ok then s else
    { (s.emit s!"SPEC line={s.lineNo} hist={s.hist} {prop} {name} FAIL {detail}") with specFails := s.specFails + 1 }
def ent (s : FSt) (a : String) : Entry :=
  if a == "undef" then { hash := [], logId := [], next := [], refs := [], clock := { id := [], time := 0 } } else
  match s.uni[a]? with
  | some e => e
  | none => { hash := strBytes ("?" ++ a), logId := [], next := [], refs := [], clock := { id := [], time := 0 } }
def h (s : FSt) (a : String) : Hash := (s.ent a).hash
def hs (s : FSt) (as : List String) : List Hash := as.map s.h
def ents (s : FSt) (as : List String) : List Entry := as.map s.ent
def showH (s : FSt) (l : List Hash) : String :=
  ",".intercalate (l.map (fun x => if x == [] then "undef" else (s.names[x]?).getD "?"))
end FSt

def kv (toks : List String) (key : String) : String :=
  match toks.find? (·.startsWith (key ++ "=")) with
  | some t => (t.drop (key.length + 1)).toString
  | none => ""

def cntGtB (l : List Entry) (t : Int) : Nat := (l.filter (fun r => decide (r.clock.time > t))).length

/-- the loader's ordering (ascending less-function) -/
def loaderLt (kind : String) (k : SortKind) : Entry → Entry → Bool :=
  if kind == "mh" then beforeAsc k else if kind == "eh" then beforeAsc .lww else clockAsc

/-- C10 `limitedOk(n,k)`: all supplied entries plus the most recent others, `min (max n k) size` in all -/
def limitedExpected (lt : Entry → Entry → Bool) (n : Int) (supplied A : List Entry) : List Hash :=
  let k : Int := supplied.length
  let cnt : Int := min (max n k) A.length
  let others := A.filter (fun a => !has supplied a.hash)
  -- an entry supplied twice counts twice in `k` (the caller supplied k starting entries) but is one entry
  -- of the result: the remaining places go to the most recent others
  let ds := dedupHashes (hashes supplied) []
  ds ++ hashes (lastN (cnt - ds.length) (goSort lt others))

def fetchLen (kind : String) (n : Int) (k : Nat) : Int :=
  if kind == "ent" then (if n > -1 then max n k else -1) else n

/-- when the implementation has returned with hashes still queued, a configured timeout must have fired
    (the dispatch loop leaves on the ended context): insert the unobservable `cancel` -/
def settleAtReturn (op : FOp) (st : FState) : FState × Bool :=
  if !decide (terminated st) && op.timeoutMs > 0 && !st.cancelled && st.inProgress.isEmpty then
    match fstep op.cfg st .cancel with
    | some st' => (st', true)
    | none => (st, false)
  else (st, false)

def handleFetch (s : FSt) (line : String) : FSt :=
  let s := { s with lineNo := s.lineNo + 1 }
  let t := line.splitOn " "
  match t with
  | "H" :: idx :: _seed :: rest =>
    let sk := match rest.find? (·.startsWith "sort=") with
      | some x => parseSort (x.drop 5).toString
      | none => .lww
    { s with uni := {}, names := {}, store := [], sort := sk, hist := idx, op := none }
  | ["U", a, cidS] =>
    let e : Entry := { hash := strBytes cidS, logId := [], next := [], refs := [], clock := { id := [], time := 0 } }
    { s with uni := s.uni.insert a e, names := s.names.insert e.hash a }
  | ["E", a, cidS, logId, clk, time, nx, rf] =>
    let e : Entry := { hash := strBytes cidS, logId := strBytes logId, next := s.hs (parseList nx),
                       refs := s.hs (parseList rf), clock := { id := strBytes clk, time := toInt! time } }
    { s with uni := s.uni.insert a e, names := s.names.insert e.hash a, store := s.store ++ [e] }
  | "F" :: _op :: rest =>
    let kind := kv rest "kind"
    let n := toInt! (kv rest "n")
    let k := (kv rest "k").toNat!
    let roots := s.hs (parseList (kv rest "roots"))
    let excl := s.hs (parseList (kv rest "excl"))
    let fl := (parseList (kv rest "faults")).map (fun x => x.splitOn ":")
    let faults := fl.filterMap (fun p => p.head?.map s.h)
    let slow := fl.filterMap (fun p => if p.getLast? == some "slow" then p.head?.map s.h else none)
    -- only the loaders that forward ShouldExclude see the predicate (the harness only sets it for those)
    let cfg : FCfg := { store := s.store.filter (fun e => !faults.contains e.hash),
                        length := fetchLen kind n k, excluded := fun x => excl.contains x }
    let op : FOp := { kind := kind, n := n, k := k, timeoutMs := toInt! (kv rest "timeout"),
                      sort := parseSort (kv rest "sort"), roots := roots, excl := excl, faults := faults, slow := slow,
                      cfg := cfg, st := some (finit cfg roots) }
    (s.count s!"op:{kind}").count (if n < 0 then "len:all" else "len:bounded") |> fun s => { s with op := some op }
  | ["D", a] =>
    match s.op with
    | none => s.emit s!"WARN line={s.lineNo} event outside an operation"
    | some op =>
      let x := s.h a
      let op := { op with dispatched := op.dispatched ++ [x] }
      match op.st with
      | none => { s with op := some op }
      | some st =>
        let s := s.count "trace:dispatch"
        match fstep op.cfg st (.dispatch x) with
        | some st' => { s with op := some { op with st := some st' } }
        | none =>
          (s.diff "trace.dispatch-not-enabled" s!"queue={s.showH st.queue} cancelled={st.cancelled}" a)
            |> fun s => { s with op := some { op with st := none } }
  | ["K", a, g] =>
    match s.op with
    | none => s.emit s!"WARN line={s.lineNo} event outside an operation"
    | some op =>
      match op.st with
      | none => s
      | some st =>
        let x := s.h a
        let s := s.count "trace:complete"
        let stored := get? op.cfg.store x
        if g == "got" then
          match stored with
          | none => (s.diff "trace.complete-got-unretrievable" "none" a) |> fun s => { s with op := some { op with st := none } }
          | some _ =>
            match fstep op.cfg st (.complete x stored) with
            | some st' => { s with op := some { op with st := some st' } }
            | none => (s.diff "trace.complete-not-enabled" s!"inProgress={s.showH st.inProgress}" a)
                        |> fun s => { s with op := some { op with st := none } }
        else
          -- an empty completion of a retrievable block needs the timeout to have fired
          let (st, op, s) :=
            if stored.isSome && !st.cancelled then
              if op.timeoutMs > 0 then
                match fstep op.cfg st .cancel with
                | some st' => (st', { op with cancelInferred := true }, s.count "trace:cancel-inferred")
                | none => (st, op, s)
              else (st, op, s.diff "trace.complete-none-retrievable-no-timeout" "got" a)
            else (st, op, s)
          match fstep op.cfg st (.complete x none) with
          | some st' => { s with op := some { op with st := some st' } }
          | none => (s.diff "trace.complete-not-enabled" s!"inProgress={s.showH st.inProgress}" a)
                      |> fun s => { s with op := some { op with st := none } }
  | ["G", l] =>
    match s.op with
    | none => s
    | some op =>
      let req := s.hs ((parseList l).filter (· != "M"))
      let s := s.spec "C11" "requestOnce" (nodupH req) l
      let s := s.spec "C11" "neverExcluded" (req.all (fun x => x != [] && !op.excl.contains x)) l
      -- every block request is a dispatch and conversely
      let a := sortStrs (req.map (s.showH [·]))
      let b := sortStrs (op.dispatched.map (s.showH [·]))
      let s := s.count "cmp:requests"
      if a == b then s else s.diff "requests-vs-dispatches" (",".intercalate b) (",".intercalate a)
  | ["PG", l] =>
    -- C11: every admitted entry is reported on the progress channel exactly once, and nothing else
    s.spec "C11" "progressOncePerEntry" (sortStrs (parseList l) == sortStrs s.lastResult)
      s!"progress={l} result={",".intercalate s.lastResult}"
  | ["R", outcome, l] =>
    let s := { s with lastResult := parseList l }
    match s.op with
    | none => s
    | some op =>
      let s := s.spec "C11" "terminates" (outcome == "ok") outcome
      if outcome != "ok" then { s with op := some { op with outcomeBad := true } } else
      let R := s.ents (parseList l)
      let rh := hashes R
      -- model = implementation
      let (op, s) := match op.st with
        | none => (op, s)
        | some st =>
          let (st', inf) := settleAtReturn op st
          ({ op with st := some st', cancelInferred := op.cancelInferred || inf },
           if inf then s.count "trace:cancel-inferred-at-return" else s)
      let s := match op.st with
        | none => s
        | some st =>
          let s := s.count "cmp:result"
          let s := if decide (terminated st) then s
                   else s.diff "trace.model-not-terminated" s!"queue={s.showH st.queue} inProgress={s.showH st.inProgress}" "returned"
          if hashes st.results == rh then s else s.diff "result" (s.showH (hashes st.results)) l
      -- specifications on the implementation's result
      let timedOut := op.cancelInferred || op.dispatched.any (fun x => op.slow.contains x)
      let A := reachX op.cfg op.roots
      let clean := op.faults.isEmpty && op.excl.isEmpty && !timedOut
      let s := s.spec "C11" "resultsNodup" (nodupH rh) l
      let s := s.spec "C11" "resultSound" (subsetH rh (hashes A)) l
      let s := if op.n < 0 && !timedOut then s.spec "C11" "faultyResult" (sameSetH rh (hashes A)) s!"expected {s.showH (hashes A)} got {l}" else s
      let s := if op.n < 0 && clean then
          s.spec "C09" "fetchComplete" (sameSetH rh (hashes (reach s.store op.roots)) && nodupH rh) l else s
      let s := if op.n ≥ 0 && clean then
          s.spec "C10" "limitedSuperset"
            (A.all (fun a => rh.contains a.hash || decide (op.n ≤ (cntGtB R a.clock.time : Int))))
            s!"n={op.n} expected⊇newest of {s.showH (hashes A)} got {l}" else s
      s
  | ["LR", outcome, idT, entsT, headsT, valsT] =>
    match s.op with
    | none => s
    | some op =>
      let s := s.spec "C11" "terminates" (outcome != "hang" && outcome != "panic") outcome
      let iE := parseList ((entsT.drop 5).toString)
      let iH := parseList ((headsT.drop 6).toString)
      let iV := parseList ((valsT.drop 5).toString)
      let iId := (idT.drop 3).toString
      let src := op.roots.filterMap (fun x => get? s.store x)
      let (op, s) := match op.st with
        | none => (op, s)
        | some st =>
          let (st', inf) := settleAtReturn op st
          ({ op with st := some st', cancelInferred := op.cancelInferred || inf },
           if inf then s.count "trace:cancel-inferred-at-return" else s)
      -- model loader on the model's fetch result
      let s := match op.st with
        | none => s
        | some st =>
          let s := if decide (terminated st) then s
                   else s.diff "trace.model-not-terminated" s!"queue={s.showH st.queue} inProgress={s.showH st.inProgress}" "returned"
          let fetched := st.results
          let id := strBytes "X"
          let lg : Option Log :=
            if op.kind == "mh" then some (loadManifest [] op.sort op.sort id op.roots fetched op.n)
            else if op.kind == "eh" then some (loadEntryHash [] op.sort id fetched op.n)
            else if op.kind == "json" then some (loadJSON [] op.sort id fetched op.n)
            else loadEntries [] op.sort src fetched op.n
          let s := s.count "cmp:load"
          match lg with
          | none => if outcome == "panic" then s else s.diff "load" "panic(empty result)" outcome
          | some l =>
            if outcome != "ok" then s.diff "load" "ok" outcome else
            let s := if sameSetH (hashes l.entries) (s.hs iE) && l.entries.length == iE.length then s
                     else s.diff "load.entries" (s.showH (hashes l.entries)) (",".intercalate iE)
            let s := if hashes (sortedHeads l) == s.hs iH then s else s.diff "load.heads" (s.showH (hashes (sortedHeads l))) (",".intercalate iH)
            let s := if hashes (values l) == s.hs iV then s else s.diff "load.values" (s.showH (hashes (values l))) (",".intercalate iV)
            if l.id == strBytes iId then s else s.diff "load.id" "X" iId
      if outcome != "ok" then { s with op := some { op with outcomeBad := true } } else
      -- specifications on the loaded log
      let timedOut := op.cancelInferred || op.dispatched.any (fun x => op.slow.contains x)
      let clean := op.faults.isEmpty && op.excl.isEmpty && !timedOut
      let A := reachX op.cfg op.roots
      let E := s.ents iE
      let eh := hashes E
      let s := s.spec "C11" "resultsNodup" (nodupH eh) entsT
      let s := s.spec "C11" "resultSound" (subsetH eh (hashes A ++ hashes src)) entsT
      let s := if op.n < 0 && clean then
          let s := s.spec "C09" "loadComplete" (sameSetH eh (hashes (reach s.store op.roots))) entsT
          let s := s.spec "C09" "loadHeads" (headsOk E (s.ents iH)) headsT
          let s := s.spec "C09" "loadValues" (valuesOk op.sort E (s.ents iV)) valsT
          s.spec "C09" "loadId" (iId == "X") idT
        else s
      let s := if op.n ≥ 0 && clean then
          let supplied := if op.kind == "eh" || op.kind == "ent" then src else []
          let exp := limitedExpected (loaderLt op.kind op.sort) op.n supplied A
          let s := s.spec "C10" "limitedCount"
            (decide ((iE.length : Int) = min (max op.n op.k) A.length)) s!"n={op.n} k={op.k} size={A.length} got={iE.length}"
          s.spec "C10" (if op.kind == "ent" then "limitedOkEnt" else "limitedOk") (sameSetH eh exp) s!"kind={op.kind} n={op.n} k={op.k} expected={s.showH exp} got={entsT}"
        else s
      s
  | ["T", el, to] =>
    match s.op with
    | none => s
    | some _ =>
      let e := toInt! el
      let tmo := toInt! to
      let s := if tmo > 0 then s.spec "C11" "withinTimeout" (decide (e ≤ tmo + 1500)) s!"elapsed={e}ms timeout={tmo}ms" else s
      { s with op := none }
  | _ => s    -- N / A / J lines of the log construction

end Driver
