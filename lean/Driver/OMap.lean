import Driver.Order
import Model.OMapRep
/-!
# Driver.OMap — replay of the `omap` stream: the real `entry.OrderedMap` against `Model.OMapRep`

`H n` case · `E name hashHex twinOf` pool entry · `S m keyHex name` Set · `G m keyHex name ok` Get · `U m keyHex name` UnsafeGet ·
`A m i name` At · `R m same` Reverse · `C m new` Copy · `M m other new` Merge · `F new [names]` NewOrderedMapFromEntries ·
`D i` the harness forgot map i · `O m len [keys] [slice] [gets]` observation of map m after an operation.

Two models are replayed: the representation (`Model.OMapRep`, every case) and — while the values put under one key
agree, as they do in the library where the key is the hash — the list of values with `omSet`/`omMerge`/`omFromList`
of `Model.Basic`, which is what the property theorems are about (`Props/OMapRefine` proves the two equal; here the
implementation is compared with both).
-/
open Model Model.OMapRep

namespace Driver.OMap

structure MSt where
  pool : Std.HashMap String Entry := {}
  tagName : Std.HashMap Nat String := {}
  maps : Array OMapRep.Rep := #[]
  /-- list-level model; `none` once two different values met under one key -/
  lists : Array (Option (List Entry)) := #[]
  keyed : Bool := true
  caseNo : Nat := 0
  lineNo : Nat := 0
  diffs : Nat := 0
  specFails : Nat := 0
  checks : Std.HashMap String Nat := {}
  out : Array String := #[]
deriving Inhabited

def MSt.emit (s : MSt) (m : String) : MSt := { s with out := s.out.push m }
def MSt.count (s : MSt) (k : String) (n : Nat := 1) : MSt := { s with checks := s.checks.insert k (s.checks.getD k 0 + n) }
def MSt.diff (s : MSt) (what model impl : String) : MSt :=
  { (s.emit s!"DIFF line={s.lineNo} case={s.caseNo} {what} model={model} impl={impl}") with diffs := s.diffs + 1 }

def nameOfE (s : MSt) (e : Entry) : String := s.tagName.getD e.tag "?"
def nameOfO (s : MSt) : Option Entry → String
  | some e => nameOfE s e
  | none => "-"

def parseNames (t : String) : List String :=
  let inner := ((t.drop 1).dropEnd 1).toString
  if inner.isEmpty then [] else inner.splitOn ","

def agree (l : List Entry) : Bool := l.all (fun a => l.all (fun b => a.hash != b.hash || a == b))

def freshMaps : Array OMapRep.Rep := #[OMapRep.empty, OMapRep.empty]

def handleOMap (s : MSt) (line : String) : MSt :=
  let s := { s with lineNo := s.lineNo + 1 }
  let idx (t : String) : Nat := t.toNat?.getD 0
  match line.splitOn " " with
  | ["H", n] =>
    { s with caseNo := idx n, pool := {}, tagName := {}, maps := freshMaps, lists := #[some [], some []], keyed := true }
  | ["E", name, hashHex, _twin] =>
    let tag := idx ((name.drop 1).toString)
    let e : Entry := { hash := Driver.hexBytes hashHex, logId := [], next := [], refs := [], clock := ⟨[4], tag⟩, tag := tag }
    { s with pool := s.pool.insert name e, tagName := s.tagName.insert tag name }
  | ["S", m, keyHex, name] =>
    match s.pool[name]?, s.maps[idx m]? with
    | some e, some o =>
      let k := Driver.hexBytes keyHex
      let lists := match s.lists[idx m]? with
        | some (some L) =>
          if k == e.hash && (match get? L e.hash with | some v => v == e | none => true)
          then s.lists.set! (idx m) (some (omSet L e)) else s.lists.set! (idx m) none
        | _ => s.lists
      ({ s with maps := s.maps.set! (idx m) (OMapRep.set o k e), lists := lists }).count "cmp:omap.set"
    | _, _ => s.diff "omap/unknown" name m
  | ["G", m, keyHex, name, ok] =>
    match s.maps[idx m]? with
    | some o =>
      let r := OMapRep.get o (Driver.hexBytes keyHex)
      let s := s.count "cmp:omap.get"
      let s := if nameOfO s r == name && (toString r.isSome) == ok then s else s.diff "omap/get" s!"{nameOfO s r}:{r.isSome}" s!"{name}:{ok}"
      match s.lists[idx m]? with
      | some (some L) =>
        let r2 := get? L (Driver.hexBytes keyHex)
        if nameOfO s r2 == name then s.count "cmp:omaplist.get" else s.diff "omaplist/get" (nameOfO s r2) name
      | _ => s
    | none => s.diff "omap/unknown" m m
  | ["U", m, keyHex, name] =>
    match s.maps[idx m]? with
    | some o =>
      let r := OMapRep.get o (Driver.hexBytes keyHex)
      let s := s.count "cmp:omap.unsafeget"
      if nameOfO s r == name then s else s.diff "omap/unsafeget" (nameOfO s r) name
    | none => s.diff "omap/unknown" m m
  | ["A", m, i, name] =>
    match s.maps[idx m]? with
    | some o =>
      let r := OMapRep.atIdx o (idx i)
      let s := s.count "cmp:omap.at"
      let s := if nameOfO s r == name then s else s.diff "omap/at" (nameOfO s r) name
      match s.lists[idx m]? with
      | some (some L) =>
        if nameOfO s L[idx i]? == name then s.count "cmp:omaplist.at" else s.diff "omaplist/at" (nameOfO s L[idx i]?) name
      | _ => s
    | none => s.diff "omap/unknown" m m
  | ["R", m, same] =>
    match s.maps[idx m]? with
    | some o =>
      let s := if same == "true" then s else s.diff "omap/reverse.receiver" "true" same
      let lists := match s.lists[idx m]? with
        | some (some L) => s.lists.set! (idx m) (some L.reverse)
        | _ => s.lists
      ({ s with maps := s.maps.set! (idx m) (OMapRep.reverse o), lists := lists }).count "cmp:omap.reverse"
    | none => s.diff "omap/unknown" m m
  | ["C", m, _new] =>
    match s.maps[idx m]? with
    | some o => ({ s with maps := s.maps.push (OMapRep.copy o), lists := s.lists.push ((s.lists[idx m]?).getD none) }).count "cmp:omap.copy"
    | none => s.diff "omap/unknown" m m
  | ["M", m, other, _new] =>
    match s.maps[idx m]?, s.maps[idx other]? with
    | some a, some b =>
      let l := match (s.lists[idx m]?).getD none, (s.lists[idx other]?).getD none with
        | some la, some lb => if agree (la ++ lb) then some (omMerge la lb) else none
        | _, _ => none
      ({ s with maps := s.maps.push (OMapRep.merge a b), lists := s.lists.push l }).count "cmp:omap.merge"
    | _, _ => s.diff "omap/unknown" m other
  | ["F", _new, names] =>
    let es : List (Option Entry) := (parseNames names).map (fun n => s.pool[n]?)
    let defined := es.filterMap id
    let l := if agree defined then some (omFromList defined) else none
    ({ s with maps := s.maps.push (OMapRep.fromEntries es), lists := s.lists.push l }).count "cmp:omap.fromEntries"
  | "PANIC" :: kind :: _ => s.diff "omap/panic" "no panic" kind
  | ["D", i] =>
    { s with maps := s.maps.eraseIdxIfInBounds (idx i), lists := s.lists.eraseIdxIfInBounds (idx i) }
  | ["O", m, len, keys, slice, gets] =>
    match s.maps[idx m]? with
    | some o =>
      let s := s.count "cmp:omap.observe"
      let ik := (parseNames keys).map Driver.hexBytes
      let s := if o.keys == ik then s else s.diff "omap/keys" (toString o.keys.length) keys
      let ms := (OMapRep.slice o).map (nameOfO s)
      let s := if ms == parseNames slice then s else s.diff "omap/slice" (",".intercalate ms) slice
      let s := if toString (OMapRep.len o) == len then s else s.diff "omap/len" (toString (OMapRep.len o)) len
      let mg := o.keys.map (fun k => let r := OMapRep.get o k; s!"{nameOfO s r}:{r.isSome}")
      let s := if mg == parseNames gets then s else s.diff "omap/gets" (",".intercalate mg) gets
      match s.lists[idx m]? with
      | some (some L) =>
        let ls := L.map (nameOfE s)
        if ls == parseNames slice then s.count "cmp:omaplist.slice" else s.diff "omaplist/slice" (",".intercalate ls) slice
      | _ => s
    | none => s.diff "omap/unknown" m m
  | _ => s

end Driver.OMap
