import Model.Keystore
import Std.Data.HashMap
/-!
# Driver.Keys — replay of the `keys` stream (C20)

The model (`Model.Keystore`, capacity 128, `norm := dsKey`) performs every operation of the trace on the
same keystore number; key bytes, public keys and signatures are oracles taken from the trace (`K`/`I`
lines carry the generated key bytes, `P` lines the public keys, `S` lines signatures the harness computed
itself over the messages IT thinks are signed).  Compared (`DIFF`): `datastore.NewKey` vs `dsKey`, the
answers of `GetKey` / `HasKey`, the four fields of every identity, the datastore content under the user
id and the identity id after `CreateIdentity`, entry signatures.

Independently of the model, the C20 statements are evaluated on the implementation's own answers
(`SPEC`), with the driver's bookkeeping of what the implementation reported as created:
created ⇒ present and identical in every keystore; nothing created under the datastore key ⇒ absent;
an identity re-created for a user id is identical; the three signature checks really passed.
In cases marked `wf=0` the harness re-creates existing ids (outside hypothesis H): only the model
comparison applies there — it exercises the LRU transcription, because stale caches become visible.
-/
open Model Model.Keys

namespace Driver.Keys

instance : Inhabited Env := ⟨{ cap := 128, norm := dsKey }⟩
instance : Inhabited State := ⟨State.init⟩

structure KSt where
  env : Env := { cap := 128, norm := dsKey }
  st : State := State.init
  wfCase : Bool := true
  pubC : Std.HashMap (List Nat) (List Nat) := {}
  pubU : Std.HashMap (List Nat) (List Nat) := {}
  sigs : Std.HashMap (List Nat × List Nat) (List Nat) := {}
  /-- the model's identity per user id -/
  identM : Std.HashMap (List Nat) Identity := {}
  /-- implementation: datastore key ↦ raw key (hex) reported when it was created -/
  implKeys : Std.HashMap (List Nat) String := {}
  /-- implementation: user id ↦ identity fields -/
  implIdent : Std.HashMap String String := {}
  lineNo : Nat := 0
  hist : String := ""
  diffs : Nat := 0
  specFails : Nat := 0
  checks : Std.HashMap String Nat := {}
  out : Array String := #[]
deriving Inhabited

def KSt.emit (s : KSt) (m : String) : KSt := { s with out := s.out.push m }
def KSt.count (s : KSt) (k : String) : KSt := { s with checks := s.checks.insert k (s.checks.getD k 0 + 1) }
def KSt.diff (s : KSt) (what model impl : String) : KSt :=
  { (s.emit s!"DIFF line={s.lineNo} hist={s.hist} {what} model={model} impl={impl}") with diffs := s.diffs + 1 }
def KSt.cmp (s : KSt) (what model impl : String) : KSt :=
  let s := s.count s!"cmp:{what}"
  if model == impl then s else s.diff what model impl
def KSt.spec (s : KSt) (name : String) (ok : Bool) (detail : String := "") : KSt :=
  let s := s.count s!"spec:C20:{name}"
  if ok then s else
    { (s.emit s!"SPEC line={s.lineNo} hist={s.hist} C20 {name} FAIL {detail}") with specFails := s.specFails + 1 }

def hexValC (c : Char) : Nat :=
  if c.isDigit then c.toNat - '0'.toNat else if 'a' ≤ c ∧ c ≤ 'f' then c.toNat - 'a'.toNat + 10 else 0

def unhex (t : String) : List Nat :=
  if t == "-" then [] else
  let rec go : List Char → List Nat
    | a :: b :: r => (hexValC a * 16 + hexValC b) :: go r
    | _ => []
  go t.toList

def toHex (b : List Nat) : String :=
  if b.isEmpty then "-" else String.ofList ((hexEnc b).map Char.ofNat)

def KSt.crypto (s : KSt) : Crypto :=
  { pubC := fun k => s.pubC.getD k [], pubU := fun k => s.pubU.getD k [],
    sign := fun k m => s.sigs.getD (k, m) [], verify := fun _ _ _ => false }

def hasStr : HasRes → String
  | .yes => "true" | .no => "false" | .err => "err"
def keyStr : Option Key → String
  | none => "err" | some k => toHex k
def identStr (i : Identity) : String := s!"{toHex i.id} {toHex i.publicKey} {toHex i.sigId} {toHex i.sigPub}"

def handleKeys (s : KSt) (line : String) : KSt :=
  let s := { s with lineNo := s.lineNo + 1 }
  match line.splitOn " " with
  | "H" :: h :: _ :: _ :: wf :: _ =>
    { s with st := State.init, wfCase := wf == "wf=1", pubC := {}, pubU := {}, sigs := {}, identM := {},
             implKeys := {}, implIdent := {}, hist := h }
  | ["N", id, nk] => s.cmp "norm" (toHex (dsKey (unhex id))) nk
  | ["P", k, pc, pu] =>
    let k := unhex k
    { s with pubC := s.pubC.insert k (unhex pc), pubU := s.pubU.insert k (unhex pu) }
  | ["S", k, m, sg] => { s with sigs := s.sigs.insert (unhex k, unhex m) (unhex sg) }
  | ["KF", _ks, _id] => s.count "cmp:create-outage"   -- a refused creation changes nothing (the reads that follow are compared)
  | ["KF", ks, id, _] => s.diff "create-outage" "err" s!"acknowledged ks={ks} id={id}"
  | ["K", ks, id, key] =>
    let i := ks.toNat!
    let idb := unhex id
    if key == "err" then s.diff "create" "ok" "err" else
    let nk := s.env.norm idb
    let fresh := wfStep s.env s.st (.create i idb (unhex key))
    -- a wf=1 case must only create fresh ids: generation precondition, on the model's and on the
    -- implementation's bookkeeping
    let s := if s.wfCase then s.cmp "create-fresh" (toString fresh) "true" else s
    let s := if s.wfCase then s.spec "create_on_fresh_id" (!s.implKeys.contains nk) id else s
    let s := { s with implKeys := s.implKeys.insert nk key }
    { s with st := (step s.env s.crypto s.st (.create i idb (unhex key))).2 }
  | ["G", ks, id, res] =>
    let i := ks.toNat!
    let idb := unhex id
    let (o, st') := step s.env s.crypto s.st (.get i idb)
    let s := { s with st := st' }
    let s := match o with
      | .key r =>
        -- (only possible outside H) the cache answered with a key the datastore no longer holds
        let s := if r != st'.store.get (s.env.norm idb) then s.count "seen:stale-cache-read" else s
        s.cmp "get" (keyStr r) res
      | _ => s
    if s.wfCase then
      match s.implKeys[s.env.norm idb]? with
      | some k => s.spec "created_present:get" (res == k) s!"ks={ks} id={id} created={k} got={res}"
      | none => s.spec "never_created_absent:get" (res == "err") s!"ks={ks} id={id} got={res}"
    else s
  | ["A", ks, id, res] =>
    let i := ks.toNat!
    let idb := unhex id
    let (o, st') := step s.env s.crypto s.st (.has i idb)
    let s := { s with st := st' }
    let s := match o with
      | .has r => s.cmp "has" (hasStr r) res
      | _ => s
    if s.wfCase then
      match s.implKeys[s.env.norm idb]? with
      | some _ => s.spec "created_present:has" (res == "true") s!"ks={ks} id={id} got={res}"
      | none => s.spec "never_created_absent:has" (res == "err") s!"ks={ks} id={id} got={res}"
    else s
  | ["R", ks] => { s with st := (step s.env s.crypto s.st (.restart ks.toNat!)).2 }
  | ["I", ks, uid, "err"] =>
    let s := s.spec "identity_created" false s!"ks={ks} uid={uid}"
    s.diff "identity" "ok" "err"
  | ["I", ks, uid, ku, ki, id, pub, sigId, sigPub, v1, v2, v3] =>
    let i := ks.toNat!
    let uidb := unhex uid
    let (o, st') := step s.env s.crypto s.st (.createIdentity i uidb (unhex ku) (unhex ki))
    let s := { s with st := st' }
    let impl := s!"{id} {pub} {sigId} {sigPub}"
    let s := match o with
      | .ident _ (some m) =>
        let s := s.cmp "identity" (identStr m) impl
        { s with identM := s.identM.insert uidb m }
      | _ => s.diff "identity" "none" impl
    -- the datastore after the call: model vs what the harness read back
    let s := s.cmp "store(uid)" (keyStr (st'.store.get (s.env.norm uidb))) ku
    let s := s.cmp "store(id)" (keyStr (st'.store.get (s.env.norm (unhex id)))) ki
    -- implementation bookkeeping: keys made by get-or-create count as created; existing ones must not change
    let keep (s : KSt) (nk : List Nat) (k : String) (what : String) : KSt :=
      match s.implKeys[nk]? with
      | some k0 => s.spec "created_present:identity-key" (k0 == k) s!"{what} uid={uid} created={k0} now={k}"
      | none => { s with implKeys := s.implKeys.insert nk k }
    let s := keep s (s.env.norm uidb) ku "user-key"
    let s := keep s (s.env.norm (unhex id)) ki "id-key"
    let s := match s.implIdent[uid]? with
      | some prev => s.spec "identity_deterministic" (prev == impl) s!"uid={uid} first={prev} now={impl}"
      | none => { s with implIdent := s.implIdent.insert uid impl }
    let s := s.spec "id_signature_verifies" (v1 == "1") s!"uid={uid}"
    let s := s.spec "pubkey_signature_verifies" (v2 == "1" && v3 == "1") s!"uid={uid} denoted={v2} stored={v3}"
    s
  | ["E", ks, uid, data, sg, v] =>
    let i := ks.toNat!
    let s := s.spec "entry_signature_verifies" (v == "1") s!"ks={ks} uid={uid} sig={sg}"
    match s.identM[unhex uid]? with
    | none => s.diff "entry" "no-identity" uid
    | some m =>
      let (o, st') := step s.env s.crypto s.st (.signEntry i m.id (unhex data))
      let s := { s with st := st' }
      match o with
      | .sig (some r) => s.cmp "entry" (toHex r) sg
      | _ => s.cmp "entry" "err" sg
  | "X" :: what => s.diff "panic" "none" (" ".intercalate what)
  | _ => s

end Driver.Keys
