import Model.Spec
import Std.Data.HashMap
/-!
# Driver.Core — replay of the `core` stream on the model

For every trace line the model performs the same operation and its observation is compared with the
implementation's (`DIFF` lines).  Independently, the specification predicates of `Model.Spec` are
evaluated on the implementation's observation (`SPEC` lines) — that is the failing-input search.
-/
open Model

namespace Driver

def strBytes (s : String) : Bytes := s.toUTF8.toList.map (·.toNat)

structure Rep where
  log : Log
  writer : Bytes
  /-- clock ids (= writer public keys) the replica's access controller refuses -/
  deny : List Bytes := []
  /-- the controller also refuses reserved payloads ('!…'), whoever wrote them -/
  denyBang : Bool := false
  /-- hashes whose entry OBJECT in this replica is an invalid variant (tampered copy) -/
  invalid : List Hash := []
  /-- hashes whose entry object here has had its (unsigned) identity stripped: refused by a controller that
      decides by identity, acceptable to the permissive default controller -/
  noIdent : List Hash := []
  hasWrongId : Bool := false
  /-- not causally closed any more (bounded join / limited load, or merged from such a replica) -/
  partialLog : Bool := false
  /-- tie history and the replica came out of a loader: the relative order of tied entries then depends on
      the block arrival order, so order-dependent observations are compared as sets -/
  orderFree : Bool := false
  /-- last implementation observation: entries (sorted by alias), values -/
  lastE : List String := []
  lastV : List String := []
  lastH : List String := []
deriving Inhabited

structure St where
  uni : Std.HashMap String Entry := {}
  store : List Entry := []            -- every entry ever defined (the block store)
  reps : Array (Option Rep) := #[]
  shared : Bool := false
  acl : Bool := false
  keyed : Bool := false
  /-- entries with a reserved payload ('!…'): refused by controllers with the bang rule -/
  banged : List Hash := []
  sort : SortKind := .lww
  lineNo : Nat := 0
  hist : String := ""
  diffs : Nat := 0
  specFails : Nat := 0
  checks : Std.HashMap String Nat := {}
  out : Array String := #[]
  pendingPC : Option (Nat × Int × List Entry × List Entry × Bytes × Entry) := none
  inExchange : Bool := false
  lastOp : String := "init"
  pendingJoinN : Option (Nat × List Hash) := none
  pendingLoad : Option (Nat × Nat × String) := none
deriving Inhabited

def St.emit (s : St) (m : String) : St := { s with out := s.out.push m }
def St.count (s : St) (k : String) : St := { s with checks := s.checks.insert k (s.checks.getD k 0 + 1) }
def St.diff (s : St) (what model impl : String) : St :=
  { (s.emit s!"DIFF line={s.lineNo} hist={s.hist} {s.lastOp}/{what} model={model} impl={impl}") with diffs := s.diffs + 1 }
def St.known (s : St) (prop key detail : String) : St :=
  (s.count s!"known:{prop}:{key}").emit s!"KNOWN {prop} {key} line={s.lineNo} hist={s.hist} {detail}"

/-- pairs (a, b) that appear in this order in `old` and in the opposite order in `new` -/
def swappedPairs (old new : List Hash) : List (Hash × Hash) :=
  let idx (l : List Hash) (h : Hash) : Option Nat := l.findIdx? (· == h)
  let rec go : List Hash → List (Hash × Hash)
    | [] => []
    | a :: rest =>
      (rest.filterMap (fun b =>
        match idx new a, idx new b with
        | some i, some j => if j < i then some (a, b) else none
        | _, _ => none)) ++ go rest
  go old

def St.spec (s : St) (prop name : String) (ok : Bool) (detail : String := "") : St :=
  let s := s.count s!"spec:{prop}:{name}"
  if ok then s else
    { (s.emit s!"SPEC line={s.lineNo} hist={s.hist} {prop} {name} FAIL {detail}") with specFails := s.specFails + 1 }

def parseList (t : String) : List String := if t == "-" || t == "*" then [] else t.splitOn ","

def parseSort (t : String) : SortKind :=
  if t == "hash" then .byHash else if t == "fww" then .fww else .lww

def St.ent (s : St) (a : String) : Entry :=
  match s.uni[a]? with
  | some e => e
  | none => { hash := strBytes ("?" ++ a), logId := [], next := [], refs := [], clock := { id := [], time := 0 } }

def St.ents (s : St) (as : List String) : List Entry := as.map s.ent
def St.hs (s : St) (as : List String) : List Hash := as.map (fun a => (s.ent a).hash)

def St.rep? (s : St) (i : Nat) : Option Rep := (s.reps[i]?).join
def St.setRep (s : St) (i : Nat) (r : Rep) : St :=
  let reps := if i < s.reps.size then s.reps else s.reps ++ Array.replicate (i + 1 - s.reps.size) none
  { s with reps := reps.set! i (some r) }

def showH (s : St) (hs : List Hash) : String :=
  -- reverse lookup for diagnostics only
  let m := s.uni.fold (fun (acc : List (Hash × String)) a e => (e.hash, a) :: acc) []
  ",".intercalate (hs.map (fun h => match m.find? (fun p => p.1 == h) with | some p => p.2 | none => "?"))

def sortStrs (l : List String) : List String := (l.toArray.qsort (· < ·)).toList

def toInt! (t : String) : Int := t.toInt?.getD 0

/-- compare a model hash list with implementation aliases, as lists or as sets -/
def St.cmpList (s : St) (what : String) (model : List Hash) (impl : List String) (asSet : Bool := false) : St :=
  let ih := s.hs impl
  let s := s.count s!"cmp:{what}"
  let ok := if asSet then sameSetH model ih && model.length == ih.length else model == ih
  if ok then s else s.diff what (showH s model) (",".intercalate impl)

def optHash (s : St) (t : String) : Option Hash := if t == "-" then none else some (s.ent t).hash

def handle (s : St) (line : String) : St :=
  let s := { s with lineNo := s.lineNo + 1 }
  let t := line.splitOn " "
  match t with
  | "H" :: idx :: _seed :: rest =>
    let shared := rest.any (· == "shared=true")
    let acl := rest.any (· == "acl=true")
    let sk := match rest.find? (·.startsWith "sort=") with
      | some x => parseSort (x.drop 5).toString
      | none => .lww
    { s with uni := {}, store := [], reps := #[], shared := shared, acl := acl, sort := sk, hist := idx, inExchange := false,
             keyed := rest.any (· == "keyed=true"), banged := [] }
  | ["U", a, cidS] =>
    { s with uni := s.uni.insert a { hash := strBytes cidS, logId := [], next := [], refs := [], clock := { id := [], time := 0 } } }
  | ["E", a, cidS, logId, clk, time, nx, rf] =>
    let e : Entry := { hash := strBytes cidS, logId := strBytes logId, next := s.hs (parseList nx),
                       refs := s.hs (parseList rf), clock := { id := strBytes clk, time := toInt! time } }
    { s with uni := s.uni.insert a e, store := s.store ++ [e] }
  | "N" :: r :: logId :: clk :: sk :: deny :: t0L =>
    let t0 := match t0L with | t :: _ => toInt! t | [] => 0
    let l : Log := { id := strBytes logId, entries := [], heads := [], nextIdx := [],
                     clock := { id := strBytes clk, time := t0 }, sortFn := parseSort sk }
    s.setRep r.toNat! { log := l, writer := strBytes clk, deny := (parseList deny).map strBytes,
                        denyBang := (parseList deny).contains "bang" }
  | "A" :: r :: pc :: a :: bangL =>
    let bang := bangL == ["bang"]
    let s := { s with lastOp := "append" }
    match s.rep? r.toNat! with
    | none => s.diff "append-unknown-replica" r ""
    | some rep =>
      if a == "!err" then s.diff "append" "ok" "err" else
      if a == "!denied" then
        -- C06: a denied append leaves entries and heads unchanged (the clock has already advanced)
        let s := s.count "cmp:append.denied"
        let s := if rep.deny.contains rep.log.clock.id || (rep.denyBang && bang) then s else s.diff "append.denied" "ok" "denied"
        s.setRep r.toNat! { rep with log := { rep.log with clock := (appendPlan rep.log (toInt! pc)).clock } }
      else
      let s := if rep.deny.contains rep.log.clock.id || (rep.denyBang && bang) then s.diff "append.denied" "denied" "ok" else s
      let ie := s.ent a
      let s := if bang then { s with banged := ie.hash :: s.banged } else s
      let plan := appendPlan rep.log (toInt! pc)
      let s := s.count "cmp:append"
      let s := if plan.next == ie.next || (rep.orderFree && sameSetH plan.next ie.next) then s
               else s.diff "append.next" (showH s plan.next) (showH s ie.next)
      let s := if plan.refs == ie.refs || rep.orderFree then s else s.diff "append.refs" (showH s plan.refs) (showH s ie.refs)
      let s := if plan.clock == ie.clock then s else s.diff "append.clock" (toString plan.clock.time) (toString ie.clock.time)
      let s := if ie.logId == rep.log.id then s else s.diff "append.logId" "" ""
      let (_, l') := append rep.log (toInt! pc) ie.hash
      -- C04 on the implementation's own view: deferred until the following O line (needs new heads)
      let implE := s.ents rep.lastE
      let implH := implE.filter (fun e => !referenced implE e.hash)
      let s := { s with pendingPC := some (r.toNat!, toInt! pc, implE, implH, rep.writer, ie) }
      s.setRep r.toNat! { rep with log := l' }
  | "T" :: r :: src :: inv :: wid :: nidL =>
    let nid := match nidL with | x :: _ => x | [] => "-"
    let s := { s with lastOp := "tamper" }
    match s.rep? src.toNat! with
    | none => s.diff "tamper-unknown-src" src ""
    | some sr =>
      let widH := s.hs (parseList wid)
      let fix (e : Entry) : Entry := if widH.contains e.hash then { e with logId := strBytes "Z" } else e
      let l' : Log := { sr.log with entries := sr.log.entries.map fix, heads := sr.log.heads.map fix,
                                    clock := { id := sr.log.clock.id, time := maxTime sr.log.heads 0 } }
      s.setRep r.toNat! { sr with log := l', invalid := sr.invalid ++ s.hs (parseList inv), noIdent := sr.noIdent ++ s.hs (parseList nid), deny := [], denyBang := false,
                                  hasWrongId := sr.hasWrongId || !widH.isEmpty, partialLog := true, lastE := [], lastV := [] }
  | ["S", r, clk] =>
    let s := { s with lastOp := "setid" }
    match s.rep? r.toNat! with
    | none => s
    | some rep => s.setRep r.toNat! { rep with log := setIdentity rep.log (strBytes clk), writer := strBytes clk }
  | ["J", r, r2, size, res, nid] =>
    let s := { s with lastOp := if toInt! size > -1 then "joinN" else "join" }
    match s.rep? r.toNat!, s.rep? r2.toNat! with
    | some a, some b0 =>
      -- which objects of the source carry no identity is an observation of the harness on the source itself
      -- (made just before the call), not bookkeeping of the driver
      let b := { b0 with noIdent := s.hs (parseList nid) }
      if res == "panic" then s.diff "join" "no-panic" "panic" |>.spec "C16" "joinNoPanic" false s!"join {r} {r2} {size}" else
      if res == "hang" then (s.diff "join" "returns" "hang").spec "C06" "joinReturns" false s!"join {r} {r2} {size} did not return" else
      if r == r2 then (if res == "ok" then s else s.diff "join.self" "ok" res) else
      let sz := toInt! size
      match join a.log b.log.id b.log.entries b.log.heads sz
          (fun e => !a.deny.contains e.clock.id && !(a.denyBang && s.banged.contains e.hash) && !b.invalid.contains e.hash && (a.deny.isEmpty || !b.noIdent.contains e.hash)) with
      | .err =>
        if res == "err" then s.count "cmp:join.rejected" else
        -- C06 on the implementation's own answer: the join returned without error although the source holds,
        -- among the entries the destination lacks, one that is denied, forged or carries no identity
        let implA := s.ents a.lastE   -- the destination as last observed on the implementation
        let bad (e : Entry) : Bool := !has a.log.entries e.hash && !has implA e.hash &&
          (a.deny.contains e.clock.id || (a.denyBang && s.banged.contains e.hash) || b.invalid.contains e.hash || (!a.deny.isEmpty && b.noIdent.contains e.hash))
        let offenders := (b.log.entries.filter bad).map (·.hash)
        (s.diff "join.result" "err" res).spec "C06" "unauthorisedRefused" (res != "ok" || offenders.isEmpty)
          (s!"join {r} {r2} {size} returned {res}; offending entries: " ++ showH s offenders)
      | .ok l' =>
        let s := if res == "ok" then s else s.diff "join.result" "ok" res
        -- C06: entries produced by Append are mergeable — when the destination denies nobody and the
        -- source holds no tampered entry, the merge must succeed (under every codec configuration)
        let s := if a.deny.isEmpty && b.invalid.isEmpty && !b.hasWrongId then  -- (stripped identities are fine for the default controller)
            s.spec "C06" "appendedMergeable" (res == "ok") s!"join {r} {r2} {size} -> {res} (keyed={s.keyed})" else s
        let total := (omFromList (a.log.entries ++ b.log.entries)).length
        let cut := sz > -1 && sz < total && a.log.id == b.log.id
        -- C16: the bounded join must keep the last min(n,total) values of the unbounded join
        let s := if sz > -1 && a.log.id == b.log.id && !a.partialLog && !b.partialLog then
            match join a.log b.log.id b.log.entries b.log.heads (-1) with
            | .ok full =>
              let v := values full
              let keep := if sz < v.length then v.drop (v.length - sz.toNat) else v
              { s with pendingJoinN := some (r.toNat!, hashes keep) }
            | .err => s
          else s
        -- C06: everything that was added is valid, authorised and carries the log's id
        let added := l'.entries.filter (fun e => !has a.log.entries e.hash)
        let s := s.spec "C06" "admittedValid" (added.all (fun e =>
          !a.deny.contains e.clock.id && !(a.denyBang && s.banged.contains e.hash) && !b.invalid.contains e.hash && (a.deny.isEmpty || !b.noIdent.contains e.hash) && e.logId == a.log.id))
          (s!"join {r} {r2}: " ++ showH s ((added.filter (fun e => !( !a.deny.contains e.clock.id && !(a.denyBang && s.banged.contains e.hash) && !b.invalid.contains e.hash && (a.deny.isEmpty || !b.noIdent.contains e.hash) && e.logId == a.log.id))).map (·.hash)))
        s.setRep r.toNat! { a with log := l', invalid := a.invalid.filter (fun h => has l'.entries h),
                                   noIdent := a.noIdent.filter (fun h => has l'.entries h) ++ (b.noIdent.filter (fun h => has l'.entries h && !has a.log.entries h)),
                                   partialLog := a.partialLog || cut || ((b.partialLog || b.hasWrongId) && a.log.id == b.log.id),
                                   orderFree := a.orderFree || (b.orderFree && a.log.id == b.log.id) }
    | _, _ => s.diff "join-unknown-replica" r r2
  | ["L", r, kind, src, n, sk, clk, res] =>
    let s := { s with lastOp := (if toInt! n > -1 then "loadN:" else "load:") ++ kind }
    if r == "-" then
      -- the implementation refused; the model must refuse too (only `eh` on a log that is not single-headed,
      -- or publishing an empty log)
      match s.rep? src.toNat! with
      | none => s
      | some sr =>
        let expectErr := (kind == "eh" && (sortedHeads sr.log).length != 1) || (kind == "mh" && sr.log.heads.length == 0)
          || (kind == "ent" && sr.log.heads.length == 0 && res == "panic")
        if expectErr then s.count "cmp:load.refused" else
          -- C09/C10: what a replica publishes can be loaded back (the refusals above are the only ones)
          (s.diff "load" "ok" res).spec (if toInt! n > -1 then "C10" else "C09") "loadSucceeds" false s!"{kind} of replica {src} (limit {n}): {res}"
    else
    match s.rep? src.toNat! with
    | none => s.diff "load-unknown-src" src ""
    | some sr =>
      let nI := toInt! n
      let k := parseSort sk
      let cid := strBytes clk
      let heads := sortedHeads sr.log
      let roots := heads.map (·.hash)
      let fetched := reach s.store (if kind == "json" || kind == "mh" then jsonHeads sr.log else roots)
      let lg : Option Log :=
        if kind == "mh" then some (loadManifest cid k k sr.log.id (jsonHeads sr.log) fetched nI)
        else if kind == "eh" then some (loadEntryHash cid k sr.log.id fetched nI)
        else if kind == "json" then some (loadJSON cid k sr.log.id fetched nI)
        -- in-memory copies through `NewLog` (entries and, except `cpG`, heads handed over)
        else if kind == "json0" then some (loadJSON cid k sr.log.id [] nI)
        else if kind == "cpE" then some (newLog sr.log.id cid k sr.log.entries heads)
        -- `cpV` hands over the linearisation (for a trimmed log not every entry is reachable from the heads)
        else if kind == "cpV" then some (newLog sr.log.id cid k (values sr.log) heads)
        else if kind == "cpG" then some (newLog sr.log.id cid k sr.log.entries [])
        else loadEntries cid k heads fetched nI
      match lg with
      | none => s.diff "load" "panic(empty result)" res
      | some l' =>
        let cut := nI > -1 && nI < fetched.length
        let s := if nI == -1 && !sr.partialLog && kind != "json0" then { s with pendingLoad := some (r.toNat!, src.toNat!, kind) } else s
        -- an in-memory copy shares the source's entry OBJECTS (stripped identities travel with them); a load
        -- reads fresh objects from the store
        let isCopy := kind == "cpE" || kind == "cpG" || kind == "cpV"
        s.setRep r.toNat! { log := l', writer := cid, partialLog := sr.partialLog || cut, orderFree := s.shared,
                            noIdent := if isCopy then sr.noIdent else [] }
  | ["I", r, lte, lt, gte, gt, am, res, closed, outs] =>
    let s := { s with lastOp := "iter" }
    match s.rep? r.toNat! with
    | none => s
    | some rep =>
      let o : IterOpts := {
        lte := if lte == "*" then none else some (s.hs (parseList lte))
        lt := if lt == "*" then none else some (s.hs (parseList lt))
        gte := optHash s gte
        gt := optHash s gt
        amount := if am == "-" then none else some (toInt! am) }
      let s := s.count "cmp:iter"
      let s := s.spec "C15" "noPanic" (res != "panic") line
      -- C15 "always ends": the consumer of an unbuffered channel that writes to the log between receives
      let s := s.spec "C15" "ends" (res != "hang") line
      -- C13: a consumer that has not drained its iteration must not block a writer on the same log (the iteration
      -- works on what it read under the lock; the lock is not held while entries are delivered)
      let s := s.spec "C13" "deliveryOutsideLock" (res != "hang") line
      match iterator rep.log o with
      | .errLTE => if res == "err:lte" then s else s.diff "iter.result" "err:lte" res
      | .errLT => if res == "err:lt" then s else s.diff "iter.result" "err:lt" res
      | .ok out cl =>
        let s := if res == "ok" then s else s.diff "iter.result" "ok" res
        -- C15 on the implementation's own output, against the traversal-free specification
        let implE := s.ents rep.lastE
        let s :=
          if res == "ok" && !rep.partialLog && !rep.orderFree && rep.log.sortFn != .fww && strictTotalOn rep.log.sortFn implE then
            let upper : List Hash := match o.lte with
              | some cs => cs
              | none => match o.lt with
                | some cs => (match cs.getLast? with
                    | some c => (match get? implE c with | some e => e.next | none => [])
                    | none => hashes (implE.filter (fun e => !referenced implE e.hash)))
                | none => hashes (implE.filter (fun e => !referenced implE e.hash))
            let lowerOk := match (match o.gte with | some h => some h | none => o.gt) with
              | some g => (hashes (pastOf implE upper)).contains g
              | none => true
            if !lowerOk then s else
            -- both lower bounds at once is outside C15's quantifier ("inclusive or exclusive"): no range claim is
            -- evaluated; model = implementation still is (`iter.out`), and `iter_range_gte_gt` says what both do
            if o.gte.isSome && o.gt.isSome then s.count "cmp:iter.gte+gt" else
            let exp := hashes (iterSpec rep.log.sortFn implE upper o.gte o.gt o.amount)
            let got := s.hs (parseList outs)
            let amountNoLower := o.amount.isSome && o.gte.isNone && o.gt.isNone && (o.amount.getD 0) ≥ 0
            if o.amount == some 0 then s.spec "C15" "amountZero" (got.isEmpty) line
            else if amountNoLower && !unrelatedRoots implE upper then
              -- related / repeated upper bounds: at most `amount`, a prefix of the full emission
              let full := hashes (iterSpec rep.log.sortFn implE upper none none none)
              s.spec "C15" "rangePrefix" (decide (got.length ≤ (o.amount.getD 0).toNat) && got == full.take got.length) line
            else s.spec "C15" "range" (got == exp) line
          else s
        let s := if res == "ok" then s.spec "C15" "closed" (closed == "1") line else s
        let s := if (closed == "1") == cl then s else s.diff "iter.closed" (toString cl) closed
        if rep.orderFree then s else s.cmpList "iter.out" (out.map (·.hash)) (parseList outs)
  | ["O", r, len, ents, heads, raw, vals, clk, snapH, snapV, jsonH] =>
    match s.rep? r.toNat! with
    | none => s.diff "observe-unknown-replica" r ""
    | some rep =>
      let l := rep.log
      let iE := parseList ents
      let iV := parseList vals
      let s := s.cmpList "entries" (hashes l.entries) iE (asSet := true)
      let s := if toString l.entries.length == len then s else s.diff "len" (toString l.entries.length) len
      let s := s.cmpList "heads" (hashes (sortedHeads l)) (parseList heads) (asSet := rep.orderFree)
      let s := s.cmpList "rawheads" (hashes l.heads) (parseList raw) (asSet := true)
      let s := s.cmpList "values" (hashes (values l)) iV (asSet := rep.orderFree)
      let s := s.cmpList "snapshot.heads" (hashes l.heads) (parseList snapH) (asSet := true)
      let s := s.cmpList "snapshot.values" (hashes (values l)) (parseList snapV) (asSet := rep.orderFree)
      let s := s.cmpList "json.heads" (jsonHeads l) (parseList jsonH) (asSet := rep.orderFree)
      let s := if toString l.clock.time == clk then s else s.diff "clock" (toString l.clock.time) clk
      -- specification predicates on the implementation's observation
      let E := s.ents iE
      let H := s.ents (parseList heads)
      let V := s.ents iV
      let sto := strictTotalOn l.sortFn E
      -- first-write-wins reverses clock time as well: it is not a causality-respecting ordering, so the
      -- linearisation claims (C03/C05/C01 values) are not evaluated for it; model = impl still is
      let causalOrd := l.sortFn != .fww
      let s := if rep.partialLog then s else
        if !causalOrd then
          let s := s.spec "C02" "headsOk" (headsOk E H) s!"replica {r}"
          let s := s.spec "C05" "entriesKept" (rep.lastE.all (fun a => iE.contains a)) s!"replica {r}"
          s
        else
        let s := s.spec "C02" "headsOk" (headsOk E H) s!"replica {r}"
        let s := s.spec "C02" "rawHeadsOk" (headsOk E (s.ents (parseList raw))) s!"replica {r}"
        let s := s.spec "C03" "closed" (closedOk E) s!"replica {r}"
        let s := s.spec "C03" "valuesPermCausal" (sameSetH (hashes V) (hashes E) && nodupH (hashes V) && causalOk V) s!"replica {r}"
        let s := if sto then s.spec "C03" "valuesSorted" (sortedAsc l.sortFn V) s!"replica {r}" else s
        -- C05: append-only between successive observations of the same replica
        let s := s.spec "C05" "entriesKept" (rep.lastE.all (fun a => iE.contains a)) s!"replica {r}"
        let s := s.spec "C05" "lenMonotone" (decide (rep.lastE.length ≤ iE.length)) s!"replica {r}"
        let s := if sto then s.spec "C05" "valuesSubseq" (isSubseq (s.hs rep.lastV) (s.hs iV)) s!"replica {r}" else
          -- ties under the default ordering: the subsequence claim is still evaluated; a failure whose
          -- swapped pairs are all ties (equal clock id and time) is the known finding `lww-tie-order`
          if isSubseq (s.hs rep.lastV) (s.hs iV) then s.count "spec:C05:valuesSubseqTie" else
            let missing := (s.hs rep.lastV).filter (fun h => !(s.hs iV).contains h)
            let sw := swappedPairs (s.hs rep.lastV) (s.hs iV)
            let find (h : Hash) := E.find? (fun e => e.hash == h)
            let allTies := sw.all (fun (a, b) => match find a, find b with
              | some x, some y => x.clock.id == y.clock.id && x.clock.time == y.clock.time
              | _, _ => false)
            if missing.isEmpty && !sw.isEmpty && allTies && l.sortFn == .lww then
              s.known "C05" "lww-tie-order" s!"replica {r}: {sw.length} tied pair(s) changed relative order"
            else s.spec "C05" "valuesSubseq" false s!"replica {r} (tie history)"
        s
      -- C09: an unbounded load gives the source log back (implementation against implementation)
      let s := match s.pendingLoad with
        | some (nr, sr, kind) =>
          if nr == r.toNat! then
            let s := { s with pendingLoad := none }
            match s.rep? sr with
            | none => s
            | some srcRep =>
              let s := s.spec "C09" "sameEntries" (srcRep.lastE == iE) s!"{kind} from replica {sr}"
              let s := s.spec "C09" "sameHeads" (srcRep.lastH == sortStrs (parseList raw)) s!"{kind} from replica {sr}"
              -- (also under first-write-wins: a rebuilt log lists what its source lists, whatever the ordering)
              if sto && !rep.orderFree && srcRep.log.sortFn == rep.log.sortFn then
                s.spec "C09" "sameValues" (srcRep.lastV == iV) s!"{kind} from replica {sr}" else s
          else s
        | none => s
      -- C16 for the bounded join that preceded this observation
      let s := match s.pendingJoinN with
        | some (pr, keep) =>
          if pr == r.toNat! then
            let s := { s with pendingJoinN := none }
            let s := s.spec "C16" "joinNEntries" (sameSetH (hashes E) keep && (hashes E).length == keep.length) s!"replica {r}"
            s.spec "C16" "joinNHeads" (headsOk E H) s!"replica {r}"
          else s
        | none => s
      -- C04 for the append that preceded this observation
      let s := match s.pendingPC with
        | some (pr, pc, pE, pH, wid, e) =>
          if pr == r.toNat! then
            let s := { s with pendingPC := none }
            if rep.partialLog then s else
            s.spec "C04" "appendOk" (appendOk pE pH wid pc e H) s!"replica {r} pc {pc}"
          else s
        | none => s
      s.setRep r.toNat! { rep with lastE := iE, lastV := iV, lastH := sortStrs (parseList raw) }
  | ["Z", r] =>
    -- forget a replica (it was only built to be compared with its source)
    if r.toNat! < s.reps.size then { s with reps := s.reps.set! r.toNat! none } else s
  | ["G", r, a, has, ok, same] =>
    -- point look-ups (`Has`, `Get`) of a known entry against the model's entry map, and C05: what is
    -- retrievable by hash has the content first seen under that hash
    match s.rep? r.toNat! with
    | none => s
    | some rep =>
      let m := Model.has rep.log.entries (s.ent a).hash
      let s := s.count "cmp:lookup"
      let s := if toString m == has then s else s.diff "has" (toString m) has
      let s := if toString m == ok then s else s.diff "get" (toString m) ok
      s.spec "C05" "retrievedIdentical" (same != "differs") s!"replica {r} entry {a}"
  | ["Q", r, jn, inr, sent] =>
    -- nil arguments: a nil log to merge and nil iterator options are refused with an error, nothing is emitted
    let s := s.count "cmp:nil-args"
    let s := if jn == "err" then s else s.diff "join.nil" "err" jn
    let s := if inr == "err" && sent == "0" then s else s.diff "iter.nil" "err 0" s!"{inr} {sent}"
    s.spec "C15" "noPanic" (inr != "panic") s!"Iterator(nil) on replica {r}"
  | ["LP", n, got] =>
    -- a loader wrote through the caller's limit pointer: every later load with that variable is wrong
    s.spec "C10" "limitUntouched" false s!"limit variable {n} now holds {got}"
  | "EX" :: a :: whatL =>
    let what := " ".intercalate whatL
    -- an entry object read back from the store (or copied) whose links or clock differ from the entry
    -- first seen under that hash: read-back is not the inverse of writing (C08); with a link key the
    -- same-key reader did not recover the lists (C18)
    let s := s.spec "C08" "readBackLinks" false s!"{a} {what}"
    if s.keyed then s.spec "C18" "sameKeyRecovers" false s!"{a} {what}" else s
  | ["K", blocks, linked] =>
    let s := s.count "cmp:keyed-history"
    let s := s.spec "C08" "readBackLinks" true
    s.spec "C18" "noStoredLinks" (linked == "0") s!"{linked} of {blocks} entry blocks carry links"
  | ["X", "abort"] => s
  | ["X", "begin"] => { s with inExchange := true, lastOp := "exchange" }
  | ["X", "end"] =>
    -- C01: after a complete exchange all replicas of one id agree
    let reps := if s.acl then [] else s.reps.toList.filterMap id   -- with access control replicas legitimately differ
    let s := reps.foldl (fun (s : St) a => reps.foldl (fun (s : St) b =>
      if a.log.id == b.log.id && !a.partialLog && !b.partialLog then
        let s := s.spec "C01" "sameEntries" (a.lastE == b.lastE) ""
        let s := s.spec "C01" "sameHeads" (a.lastH == b.lastH) ""
        let E := s.ents a.lastE
        if strictTotalOn a.log.sortFn E && a.log.sortFn == b.log.sortFn && a.log.sortFn != .fww then s.spec "C01" "sameValues" (a.lastV == b.lastV) "" else s
      else s) s) s
    { s with inExchange := false }
  | _ => if line.trimAscii.isEmpty then s else s.emit s!"WARN line={s.lineNo} unparsed: {line}"

end Driver
