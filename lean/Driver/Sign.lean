import Driver.Order
import Model.Json
/-!
# Driver.Sign — replay of the `sign` stream (C07)

`E alias id payload next refs v clockId time add buf verify` : an entry made by the real
`CreateEntryWithIO`; `buf` = `entry.VerifToBuffer`.  The model recomputes `toBuffer` from the fields
and compares **byte for byte**; the fresh entry must verify.

`B id payload next refs v clockId time add buf` : signed bytes of an unsigned entry (byte-for-byte
comparison only).

`T alias kind id payload next refs v clockId time add buf keyFlag sigFlag verify` : a single-field
mutation of a copy and the answer of the real `Verify`.  Flags: 0 = untouched, 1 = replaced by a
value that does not belong to these bytes / this key, 2 = replaced by the other writer's key /
signature over the same content.
* correspondence: model bytes = implementation bytes for the mutated entry; and
  `Verify` passes ⇔ (model bytes of the mutated entry = model bytes of the original ∧ key and
  signature are consistent) — the prediction of the ideal-signature model (`DIFF` otherwise);
* specification, evaluated on the implementation's answers: a mutation that changes a signed field,
  the key or the signature must not verify (`SPEC … tamperDetected FAIL`), EXCEPT when key and
  signature are untouched and the entries have the same signed view — the strings differ only inside
  bytes that the UTF-8 decoder classifies as invalid — which is the known finding
  (`KNOWN C07 payload-invalid-utf8-collision … field=…`); an untouched copy must verify.

`TK alias kind verify` : the mutation of the preceding `T` line replayed on the same content created
through the link-encrypting codec (the entry still carries its sealed-link additional data) and verified
with that codec: same verdict as the ideal-signature model of the plain line.
-/
open Model Model.Json

namespace Driver

structure SSt where
  ents : Std.HashMap String Hashable := {}
  hist : String := ""
  lineNo : Nat := 0
  diffs : Nat := 0
  specFails : Nat := 0
  known : Nat := 0
  checks : Std.HashMap String Nat := {}
  out : Array String := #[]
  /-- the last `T` line: (alias, kind, predicted verdict of the ideal-signature model and
      "no signed field changed", both for the entry as `Entry.Copy` normalises it — next/refs without repeats —
      which is what the link-encrypting codec's `PreSign` signs) -/
  lastT : Option (String × String × Bool × Bool) := none
deriving Inhabited

def SSt.emit (s : SSt) (m : String) : SSt := { s with out := s.out.push m }
def SSt.count (s : SSt) (k : String) (n : Nat := 1) : SSt := { s with checks := s.checks.insert k (s.checks.getD k 0 + n) }
def SSt.diff (s : SSt) (what model impl : String) : SSt :=
  { (s.emit s!"DIFF line={s.lineNo} hist={s.hist} {what} model={model} impl={impl}") with diffs := s.diffs + 1 }
def SSt.spec (s : SSt) (name : String) (ok : Bool) (detail : String) : SSt :=
  let s := s.count s!"spec:C07:{name}"
  if ok then s else
    { (s.emit s!"SPEC line={s.lineNo} hist={s.hist} C07 {name} FAIL {detail}") with specFails := s.specFails + 1 }

def hexField (t : String) : Bytes := if t == "." || t == "-" then [] else hexBytes t
def hexListField (t : String) : List Bytes := if t == "-" then [] else (t.splitOn ",").map hexField
def kvField (t : String) : List (Bytes × Bytes) :=
  if t == "-" then [] else (t.splitOn ",").map (fun p =>
    match p.splitOn ":" with
    | [k, v] => (hexField k, hexField v)
    | _ => ([], []))

def showHex (b : Bytes) : String :=
  let d (n : Nat) : Char := Char.ofNat (hexDigit n)
  String.ofList (b.flatMap (fun x => [d (x / 16 % 16), d (x % 16)]))

def parseHashable (id payload next refs v cid time add : String) : Hashable :=
  { id := hexField id, payload := hexField payload, next := hexListField next, refs := hexListField refs,
    v := v.toNat!, clockId := hexField cid, clockTime := time.toInt?.getD 0, additional := kvField add }

/-- first index at which two byte strings differ (diagnostics) -/
def firstDiff : Bytes → Bytes → Nat → Nat
  | a :: as, b :: bs, i => if a == b then firstDiff as bs (i + 1) else i
  | _, _, i => i

def SSt.cmpBuf (s : SSt) (what : String) (m : Hashable) (buf : String) : SSt × Bytes :=
  let mb := toBuffer m
  let ib := hexBytes buf
  let s := s.count s!"cmp:{what}"
  if buf == "err" || buf == "panic" then (s.diff what "bytes" buf, mb)
  else if mb == ib then (s, mb)
  else
    let i := firstDiff mb ib 0
    (s.diff s!"{what}@{i}" (showHex ((mb.drop (i - min i 12)).take 40)) (showHex ((ib.drop (i - min i 12)).take 40)), mb)

def canon (h : Hashable) : Hashable := { h with additional := sortKV h.additional }

/-- names of the fields in which two entries differ -/
def changedFields (a b : Hashable) : List String :=
  (if a.id != b.id then ["id"] else []) ++ (if a.payload != b.payload then ["payload"] else []) ++
  (if a.next != b.next then ["next"] else []) ++ (if a.refs != b.refs then ["refs"] else []) ++
  (if a.v != b.v then ["v"] else []) ++ (if a.clockId != b.clockId then ["clockId"] else []) ++
  (if a.clockTime != b.clockTime then ["clockTime"] else []) ++
  (if sortKV a.additional != sortKV b.additional then ["additional"] else [])

def handleSign (s : SSt) (line : String) : SSt :=
  let s := { s with lineNo := s.lineNo + 1 }
  match line.splitOn " " with
  | "H" :: idx :: _ => { s with hist := idx, ents := {} }
  | ["X", _, outcome] => s.count s!"create:{outcome}"
  | ["B", id, payload, next, refs, v, cid, time, add, buf] =>
    (s.cmpBuf "toBuffer" (parseHashable id payload next refs v cid time add) buf).1
  | ["E", al, id, payload, next, refs, v, cid, time, add, buf, verify] =>
    let h := parseHashable id payload next refs v cid time add
    let (s, _) := s.cmpBuf "toBuffer" h buf
    let s := s.count "cmp:verify"
    let s := if verify == "ok" then s else s.diff "verify-fresh" "ok" verify
    let s := s.spec "signedEntryVerifies" (verify == "ok") al
    { s with ents := s.ents.insert al h }
  | ["T", al, kind, id, payload, next, refs, v, cid, time, add, buf, keyF, sigF, verify] =>
    match s.ents[al]? with
    | none => s.diff "unknown-entry" al ""
    | some orig =>
      let m := parseHashable id payload next refs v cid time add
      let (s, mb) := s.cmpBuf "toBuffer" m buf
      let ob := toBuffer orig
      let consistent := (keyF == "0" && sigF == "0") || (keyF == "2" && sigF == "2")
      let predicted := mb == ob && consistent
      let implOk := verify == "ok"
      let s := s.count "cmp:verify"
      let s := if predicted == implOk then s else s.diff s!"verify({kind})" (toString predicted) verify
      let s := if verify == "panic" then s.spec "verifyDoesNotPanic" false s!"{al} {kind}" else s
      -- specification on the implementation's answer
      let fields := changedFields orig m
      let mD := { m with next := m.next.eraseDups, refs := m.refs.eraseDups }
      let s := { s with lastT := some (al, kind, toBuffer mD == ob && consistent, (changedFields orig mD).isEmpty) }
      let untouched := fields.isEmpty && keyF == "0" && sigF == "0"
      let resigned := fields.isEmpty && keyF == "2" && sigF == "2"
      if untouched then s.spec "untamperedVerifies" implOk s!"{al} {kind}"
      else if resigned then s.count "resigned"
      else if !implOk then s.spec "tamperDetected" true ""
      else if keyF == "0" && sigF == "0" && signedView m == signedView orig then
        let s := s.count "known:payload-invalid-utf8-collision"
        let s := s.count s!"known-field:{",".intercalate fields}"
        { (s.emit s!"KNOWN C07 payload-invalid-utf8-collision line={s.lineNo} hist={s.hist} entry={al} kind={kind} field={",".intercalate fields}")
            with known := s.known + 1 }
      else s.spec "tamperDetected" false s!"{al} {kind} changed={",".intercalate fields} key={keyF} sig={sigF} verify={verify}"
  | ["TK", al, kind, verify] =>
    -- the same field mutation replayed on the entry created through the link-encrypting codec: the
    -- sealed links are a function of the other signed fields, so the verdict must be the plain one
    match s.lastT with
    | some (al', kind', predicted, unchanged) =>
      if al' != al || kind' != kind then s.diff "keyed-mutation-out-of-order" s!"{al'} {kind'}" s!"{al} {kind}" else
      let s := s.count "cmp:verify-keyed"
      let s := if verify == "panic" then s.spec "verifyDoesNotPanic" false s!"{al} {kind} (link key)" else s
      if unchanged then s.spec "untamperedVerifiesKeyed" (verify == "ok") s!"{al} {kind}"
      else if predicted then
        -- equal signed view although a field changed (the known UTF-8 collision of the plain codec): the
        -- keyed codec also derives its nonce from the raw bytes, so it may well detect it — either is fine
        s.count s!"keyed-collision:{verify}"
      else s.spec "tamperDetectedKeyed" (verify != "ok") s!"{al} {kind} verify={verify} (link-encrypting codec)"
    | none => s.diff "keyed-mutation-without-plain" "" al
  | _ => s

end Driver
