import Driver.Core
import Driver.Order
import Driver.Keys
import Driver.Sign
import Driver.Fetch
import Driver.Codec
import Driver.Conc
import Driver.Crash
import Driver.OMap
/-! `modeldriver <stream>`: reads a trace on stdin, replays it on the model, prints DIFF / SPEC lines
and a final `SUMMARY` line with the counts of comparisons and predicate evaluations. -/
open Driver

partial def coreLoop (h : IO.FS.Stream) (s : St) : IO St := do
  let line ← h.getLine
  if line.isEmpty then return s
  let line := if line.back == '\n' then (line.dropEnd 1).toString else line
  let s := handle s line
  for m in s.out do IO.println m
  coreLoop h { s with out := #[] }

partial def orderLoop (h : IO.FS.Stream) (s : OSt) : IO OSt := do
  let line ← h.getLine
  if line.isEmpty then return s
  let line := if line.back == '\n' then (line.dropEnd 1).toString else line
  let s := handleOrder s line
  for m in s.out do IO.println m
  orderLoop h { s with out := #[] }

partial def keysLoop (h : IO.FS.Stream) (s : Driver.Keys.KSt) : IO Driver.Keys.KSt := do
  let line ← h.getLine
  if line.isEmpty then return s
  let line := if line.back == '\n' then (line.dropEnd 1).toString else line
  let s := Driver.Keys.handleKeys s line
  for m in s.out do IO.println m
  keysLoop h { s with out := #[] }

partial def signLoop (h : IO.FS.Stream) (s : SSt) : IO SSt := do
  let line ← h.getLine
  if line.isEmpty then return s
  let line := if line.back == '\n' then (line.dropEnd 1).toString else line
  let s := handleSign s line
  for m in s.out do IO.println m
  signLoop h { s with out := #[] }

partial def fetchLoop (h : IO.FS.Stream) (s : FSt) : IO FSt := do
  let line ← h.getLine
  if line.isEmpty then return s
  let line := if line.back == '\n' then (line.dropEnd 1).toString else line
  let s := handleFetch s line
  for m in s.out do IO.println m
  fetchLoop h { s with out := #[] }

partial def codecLoop (h : IO.FS.Stream) (s : Driver.Codec.CSt) : IO Driver.Codec.CSt := do
  let line ← h.getLine
  if line.isEmpty then return s
  let line := if line.back == '\n' then (line.dropEnd 1).toString else line
  let s := Driver.Codec.handleLine s line
  for m in s.out do IO.println m
  codecLoop h { s with out := #[] }

partial def concLoop (h : IO.FS.Stream) (s : CSt) : IO CSt := do
  let line ← h.getLine
  if line.isEmpty then return s
  let line := if line.back == '\n' then (line.dropEnd 1).toString else line
  let s := handleConc s line
  for m in s.out do IO.println m
  concLoop h { s with out := #[] }

partial def crashLoop (h : IO.FS.Stream) (s : KSt) : IO KSt := do
  let line ← h.getLine
  if line.isEmpty then return s
  let line := if line.back == '\n' then (line.dropEnd 1).toString else line
  let s := handleCrash s line
  for m in s.out do IO.println m
  crashLoop h { s with out := #[] }

partial def omapLoop (h : IO.FS.Stream) (s : Driver.OMap.MSt) : IO Driver.OMap.MSt := do
  let line ← h.getLine
  if line.isEmpty then return s
  let line := if line.back == '\n' then (line.dropEnd 1).toString else line
  let s := Driver.OMap.handleOMap s line
  for m in s.out do IO.println m
  omapLoop h { s with out := #[] }

def main (args : List String) : IO UInt32 := do
  let stdin ← IO.getStdin
  match args with
  | ["core"] =>
    let s ← coreLoop stdin {}
    let cs := s.checks.toList.map (fun (k, v) => s!"{k}={v}")
    IO.println s!"SUMMARY lines={s.lineNo} diffs={s.diffs} specfails={s.specFails} {" ".intercalate cs}"
    return 0
  | ["omap"] =>
    let s ← omapLoop stdin {}
    let cs := s.checks.toList.map (fun (k, v) => s!"{k}={v}")
    IO.println s!"SUMMARY lines={s.lineNo} diffs={s.diffs} specfails={s.specFails} {" ".intercalate cs}"
    return 0
  | ["order"] =>
    let s ← orderLoop stdin {}
    let s := finishOrder s
    for m in s.out do IO.println m
    let cs := s.checks.toList.map (fun (k, v) => s!"{k}={v}")
    IO.println s!"SUMMARY lines={s.lineNo} diffs={s.diffs} specfails={s.specFails} {" ".intercalate cs}"
    return 0
  | ["keys"] =>
    let s ← keysLoop stdin {}
    let cs := s.checks.toList.map (fun (k, v) => s!"{k}={v}")
    IO.println s!"SUMMARY lines={s.lineNo} diffs={s.diffs} specfails={s.specFails} {" ".intercalate cs}"
    return 0
  | ["sign"] =>
    let s ← signLoop stdin {}
    let cs := s.checks.toList.map (fun (k, v) => s!"{k}={v}")
    IO.println s!"SUMMARY lines={s.lineNo} diffs={s.diffs} specfails={s.specFails} known={s.known} {" ".intercalate cs}"
    return 0
  | ["fetch"] =>
    let s ← fetchLoop stdin {}
    let cs := s.checks.toList.map (fun (k, v) => s!"{k}={v}")
    IO.println s!"SUMMARY lines={s.lineNo} diffs={s.diffs} specfails={s.specFails} {" ".intercalate cs}"
    return 0
  | ["codec"] =>
    let s ← codecLoop stdin {}
    let cs := (s.checks.toList.toArray.qsort (fun a b => a.1 < b.1)).toList.map (fun (k, v) => s!"{k}={v}")
    IO.println s!"SUMMARY lines={s.lineNo} diffs={s.diffs} specfails={s.specFails} {" ".intercalate cs}"
    return 0
  | ["conc"] =>
    let s ← concLoop stdin {}
    let cs := s.checks.toList.map (fun (k, v) => s!"{k}={v}")
    IO.println s!"SUMMARY lines={s.lineNo} diffs={s.diffs} specfails={s.specFails} {" ".intercalate cs}"
    return 0
  | ["crash"] =>
    let s ← crashLoop stdin {}
    let s := s.finishCase
    for m in s.out do IO.println m
    let cs := s.checks.toList.map (fun (k, v) => s!"{k}={v}")
    IO.println s!"SUMMARY lines={s.lineNo} diffs={s.diffs} specfails={s.specFails} {" ".intercalate cs}"
    return 0
  | _ =>
    IO.eprintln "usage: modeldriver core < trace"
    return 2
