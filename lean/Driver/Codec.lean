import Model.Codec
import Model.Spec
import Std.Data.HashMap
/-!
# Driver.Codec — replay of the `codec` stream (C08, C12, C18)

The harness drives the real encoders/decoders; for every line the model computes the same thing
(`DIFF` when they disagree) and the specification predicates are evaluated on the implementation's
own observation (`SPEC … FAIL`).

* `W` — model block (`writeEntry` / `storedView` + `cborEntry`) = real block, byte for byte.
* `J` — model decoder `decodeEntry` on the real block = what `cbornode.DecodeInto` produced.
* `R` — model `decodeRawEntry` (no key / same key / other key) = `FromMultihashWithIO`.
* `L`,`D` — malformed input: the library's intermediate value mapped by the model (`decodeJEntry`) to an
  outcome class = the class of the real `DecodeRawEntry`; whenever the (stricter) model decoder accepts
  the bytes, the library must have decoded them to the same value.
* `LD` — a stored log with poisoned blocks loads exactly `reach` of the decodable part.
The secretbox/SHA3 functions are an oracle built from the `N`/`S` lines (what the real code computed).
-/
open Model Model.Cbor Model.Codec

namespace Driver.Codec

structure CSt where
  lineNo : Nat := 0
  diffs : Nat := 0
  specFails : Nat := 0
  checks : Std.HashMap String Nat := {}
  out : Array String := #[]
  kind : String := ""
  caseNo : String := ""
  cidStr : Std.HashMap Bytes Bytes := {}
  cur : Option PEntry := none
  curRaw : Bytes := []
  curCid : String := ""
  curWriteOk : Bool := false
  lastRead : Option PEntry := none
  k1 : Bytes := []
  k2 : Bytes := []
  sealTab : List ((Bytes × Bytes × Bytes) × Bytes) := []
  nonceTab : List (Bytes × Bytes) := []
  curMan : Option JLog := none
  lastL : Option (Option (JEntry × Bool)) := none   -- none: no L line; some none: library error
  parseTab : List (Bytes × Option Bytes) := []
  lastL0 : Option (Option JEntryV0) := none
  store : List Entry := []
  bad : List Hash := []
deriving Inhabited

def CSt.emit (s : CSt) (m : String) : CSt := { s with out := s.out.push m }
def CSt.count (s : CSt) (k : String) (n : Nat := 1) : CSt := { s with checks := s.checks.insert k (s.checks.getD k 0 + n) }
def CSt.diff (s : CSt) (what model impl : String) : CSt :=
  { (s.emit s!"DIFF line={s.lineNo} case={s.caseNo} {what} model={model} impl={impl}") with diffs := s.diffs + 1 }
def CSt.spec (s : CSt) (prop name : String) (ok : Bool) (detail : String := "") : CSt :=
  let s := s.count s!"spec:{prop}:{name}"
  if ok then s else
    { (s.emit s!"SPEC line={s.lineNo} case={s.caseNo} {prop} {name} FAIL {detail}") with specFails := s.specFails + 1 }

def cut (s : String) (n : Nat) : String := (s.take n).toString

/-! ## parsing -/

def hexVal (c : Char) : Nat :=
  if c.isDigit then c.toNat - '0'.toNat else if 'a' ≤ c ∧ c ≤ 'f' then c.toNat - 'a'.toNat + 10 else 0

def hexB (s : String) : Bytes :=
  if s == "-" || s == "_" || s == "~" then [] else
  let rec go : List Char → List Nat
    | a :: b :: t => (hexVal a * 16 + hexVal b) :: go t
    | _ => []
  go s.toList

def showB (b : Bytes) : String :=
  if b.isEmpty then "-" else
  let d (n : Nat) : Char := if n < 10 then Char.ofNat (48 + n) else Char.ofNat (87 + n)
  String.ofList (b.flatMap (fun x => [d (x / 16), d (x % 16)]))

def parseLinks (s : String) : Option (List Bytes) :=
  if s == "~" then none else if s == "-" then some [] else some ((s.splitOn ",").map hexB)

def showLinks : Option (List Bytes) → String
  | none => "~"
  | some [] => "-"
  | some l => ",".intercalate (l.map (fun c => if c.isEmpty then "_" else showB c))

def parseClockP (s : String) : Option Clock :=
  if s == "~" then none else
  match s.splitOn ":" with
  | [a, t] => some { id := hexB a, time := t.toInt?.getD 0 }
  | _ => none

def parseJClock (s : String) : Option JClock :=
  (parseClockP s).map (fun c => { id := c.id, time := c.time })

def parseIdentityP (s : String) : Option PIdentity :=
  if s == "~" then none else
  match s.splitOn "|" with
  | [a, b, c, d] =>
    let sg : Option PSig := if d == "~" then none else
      match d.splitOn "/" with
      | [x, y] => some { id := hexB x, publicKey := hexB y }
      | _ => none
    some { id := hexB a, publicKey := hexB b, typ := hexB c, signatures := sg }
  | _ => none

def parseJIdentity (s : String) : Option JIdentity :=
  (parseIdentityP s).map fun i =>
    { id := i.id, publicKey := i.publicKey, typ := i.typ, signatures := i.signatures.map (fun x => { id := x.id, publicKey := x.publicKey }) }

def parseAdd (s : String) : List (Bytes × Bytes) :=
  if s == "-" then [] else
  (s.splitOn ";").filterMap fun kv =>
    match kv.splitOn "=" with
    | [k, v] => some (hexB k, hexB v)
    | _ => none

/-- v logId key sig next refs clock payload identity add hash -/
def parsePlain : List String → Option PEntry
  | [v, logId, key, sig, next, refs, clock, payload, identity, add, hash] =>
    some { v := v.toNat?.getD 0, logId := hexB logId, key := hexB key, sig := hexB sig, next := parseLinks next,
           refs := parseLinks refs, clock := parseClockP clock, payload := hexB payload, identity := parseIdentityP identity,
           add := parseAdd add, hash := if hash == "~" then none else some (hexB hash) }
  | _ => none

/-- v logId key sig next refs clock payload identity encLinks encNonce hashIsNil -/
def parseJ : List String → Option (JEntry × Bool)
  | [v, logId, key, sig, next, refs, clock, payload, identity, el, en, hn] =>
    some ({ v := v.toNat?.getD 0, logId := hexB logId, key := hexB key, sig := hexB sig, next := parseLinks next,
            refs := parseLinks refs, clock := parseJClock clock, payload := hexB payload, identity := parseJIdentity identity,
            encLinks := hexB el, encNonce := hexB en }, hn == "1")
  | _ => none

def showClock : Option Clock → String
  | none => "~"
  | some c => s!"{showB c.id}:{c.time}"

def showIdentity : Option PIdentity → String
  | none => "~"
  | some i =>
    let sg := match i.signatures with
      | none => "~"
      | some x => s!"{showB x.id}/{showB x.publicKey}"
    s!"{showB i.id}|{showB i.publicKey}|{showB i.typ}|{sg}"

/-- the fields of a plain entry that a reader can observe (additional data excepted) -/
def showPlain (e : PEntry) : String :=
  s!"{e.v} {showB e.logId} {showB e.key} {showB e.sig} {showLinks e.next} {showLinks e.refs} {showClock e.clock} {showB e.payload} {showIdentity e.identity} {(e.hash.map showB).getD "~"}"

def showOutcome (o : Outcome PEntry) : String :=
  match o with
  | .ok e => "ok " ++ showPlain e
  | .err .key => "err:key"
  | .err .sig => "err:sig"
  | .err .clock => "err:clock"
  | .err .identity => "err:identity"
  | .err .identitySig => "err:identity"
  | .err .decrypt => "err:decrypt"
  | .err .cbor => "err:cbor"
  | .err _ => "err:other"
  | .panic => "PANIC"

/-- nil and empty slices are not distinguished by `GetNext()` callers; the read-back comparison is
    exact except for that (a decoded `Key`/`Sig` is never nil, a written one may be) -/
def implPlainLine (fs : List String) : String :=
  match parsePlain fs with
  | some e => showPlain e
  | none => "unparsable"

/-! ## oracles -/

def CSt.crypto (s : CSt) : Crypto :=
  { sealBox := fun k n m => ((s.sealTab.find? (fun p => p.1 == (k, n, m))).map (·.2)).getD []
    openBox := fun k n ct => (s.sealTab.find? (fun p => p.1.1 == k && p.1.2.1 == n && p.2 == ct)).map (·.1.2.2)
    deriveNonce := fun r => ((s.nonceTab.find? (fun p => p.1 == r)).map (·.2)).getD [] }

def CSt.cidStrFn (s : CSt) : Bytes → Bytes := fun b => (s.cidStr[b]?).getD []

def CSt.linksKnown (s : CSt) (o : Option (List Bytes)) : Bool :=
  match o with
  | none => true
  | some l => l.all (fun c => s.cidStr.contains c)

def noEncLinksB (e : PEntry) : Bool :=
  (lookup addKeyLinks e.add).isNone || (lookup addKeyNonce e.add).isNone

def hasLinks (e : PEntry) : Bool := lenOpt e.next != 0 || lenOpt e.refs != 0

def keyOf (s : CSt) (tag : String) : Option Bytes :=
  if tag == "1" then some s.k1 else if tag == "2" then some s.k2 else none

/-! ## handlers -/

def handleW (s : CSt) (res cid raw : String) : CSt :=
  let rawB := hexB raw
  let s := { s with curRaw := rawB, curCid := cid, curWriteOk := res == "ok", lastRead := none }
  match s.cur with
  | none => s.diff "write-without-entry" "-" res
  | some e =>
    if s.kind == "lk" then
      let s := s.count "cmp:storedBlock"
      match storedView s.crypto s.cidStrFn (some s.k1) e with
      | .ok (.v2 j) =>
        let m := cborEntry j
        if res == "ok" && m == rawB then s else s.diff "storedBlock" (showB m) s!"{res} {raw}"
      | _ => s.diff "storedBlock" "not-ok" res
    else
      let s := s.count "cmp:writeBlock"
      match writeEntry s.cidStrFn e with
      | .ok m => if res == "ok" && m == rawB then s else s.diff "writeBlock" (showB m) s!"{res} {raw}"
      | .err _ => if res == "err" then s.count "cmp:writeErr" else s.diff "writeBlock" "err" res
      | .panic => if res == "PANIC" then s.count "cmp:writePanic" else s.diff "writeBlock" "PANIC" res

def handleJ (s : CSt) (fs : List String) : CSt :=
  match fs with
  | "ok" :: rest =>
    match parseJ rest with
    | none => s.diff "J-unparsable" "-" "-"
    | some (j, hn) =>
      let s := s.count "cmp:decodeBlock"
      let s := match decodeEntry s.curRaw with
        | some m => if m == j && hn then s else s.diff "decodeBlock" (cut (reprStr m) 300) (cut (" ".intercalate rest) 300)
        | none => s.diff "decodeBlock" "none" "ok"
      if s.kind == "lk" then
        match s.cur with
        | some e =>
          if hasLinks e then
            let s := s.spec "C18" "storedLinksEmpty" (j.next == some [] && j.refs == some []) s.curCid
            let s := s.spec "C18" "noTag42" (!hasTag42 (entryItem j)) s.curCid
            s.spec "C18" "encFieldsPresent" (!j.encLinks.isEmpty && !j.encNonce.isEmpty) s.curCid
          else s
        | none => s
      else s
  | _ => s.diff "decodeBlock" "ok" (" ".intercalate fs)

def handleR (s : CSt) (tag : String) (fs : List String) : CSt :=
  let implClass := fs.headD ""
  let implE := if implClass == "ok" then parsePlain (fs.drop 1) else none
  let hash := ((implE.bind (·.hash))).getD []
  let model := decodeRawEntry s.crypto (keyOf s tag) hash s.curRaw
  let modelS := showOutcome model
  let implS := if implClass == "ok" then "ok " ++ implPlainLine (fs.drop 1) else implClass
  let s := s.count s!"cmp:read{tag}"
  let s := if modelS == implS then s else s.diff s!"read{tag}" (cut modelS 400) (cut implS 400)
  let s := if tag == "0" || s.kind != "lk" then { s with lastRead := implE } else s
  -- additional data other than the encrypted-link pair is signed but never stored: not part of C08's
  -- field list, recorded for the report
  let s := match s.cur, implE with
    | some e, some g => if !e.add.isEmpty && g.add.isEmpty && noEncLinksB e then s.count "info:additionalDataNotStored" else s
    | _, _ => s
  if s.kind == "lk" then
    match s.cur with
    | some e =>
      if hasLinks e then
        if tag == "1" then
          s.spec "C18" "sameKeyRecovers"
            (match implE with
             | some g => g.next == e.next && g.refs == e.refs
             | none => false) s.curCid
        else if tag == "0" then
          s.spec "C18" "noKeyNoLinks"
            (match implE with
             | some g => lenOpt g.next == 0 && lenOpt g.refs == 0
             | none => true) s.curCid
        else
          s.spec "C18" "otherKeyError" (implClass != "ok") s.curCid
      else s
    | none => s
  else s

/-- `X`: identifier and block of the re-encoded decoded entry.  The model re-encodes the entry the
    implementation read back and must get the implementation's block; the property (same identifier)
    is asserted for the default codec, i.e. when the written entry carried no encrypted-link data
    (an entry with such data is re-written *without* it by `ToMultihashWithIO`, which never calls
    `PreSign`: the model predicts exactly that block) -/
def handleX (s : CSt) (cid raw : String) : CSt :=
  let defaultCodec := match s.cur with
    | some e => noEncLinksB e || e.v ≤ 1
    | none => true
  let s := if defaultCodec then s.spec "C08" "reencodeSameCid" (cid == s.curCid) s!"{cid} {s.curCid}"
           else s.count "info:reencodeOfEncryptedLinksEntry"
  match s.lastRead with
  | some g =>
    let s := s.count "cmp:reencodeBlock"
    match writeEntry s.cidStrFn g with
    | .ok m => if m == hexB raw then s else s.diff "reencodeBlock" (showB m) raw
    | _ => if cid == "err" then s else s.diff "reencodeBlock" "not-ok" "ok"
  | none => s

def handleN (s : CSt) (ref dn nonce : String) : CSt :=
  if ref == "~" then s else
  let s := { s with nonceTab := (hexB ref, hexB dn) :: s.nonceTab }
  let s := s.spec "C18" "nonceIsDerived" (dn == nonce) ref
  match s.cur with
  | some e =>
    let s := s.count "cmp:nonceRef"
    match nonceRef s.cidStrFn (copyEntry e) with
    | .ok m => if m == hexB ref then s else s.diff "nonceRef" (showB m) ref
    | _ => s.diff "nonceRef" "not-ok" ref
  | none => s

def handleS (s : CSt) (pt ct : String) : CSt :=
  if pt == "~" then s else
  match s.cur, s.nonceTab with
  | some e, (_, nonce) :: _ =>
    let s := { s with sealTab := ((s.k1, nonce, hexB pt), hexB ct) :: s.sealTab }
    let s := s.count "cmp:linksPlaintext"
    let m := cborEntry { next := uniqOpt e.next, refs := uniqOpt e.refs }
    if m == hexB pt then s else s.diff "linksPlaintext" (showB m) pt
  | _, _ => s

def handleLD (s : CSt) (tag roots : String) (res : List String) : CSt :=
  let good := s.store.filter (fun e => !s.bad.contains e.hash)
  let rootsL := (parseLinks roots).getD []
  let expect := sortStrs' ((reach good rootsL).map (fun e => showB e.hash))
  let s := s.count s!"cmp:load:{tag}"
  match res with
  | ["PANIC"] => s.spec "C12" "noPanic" false s!"load {tag}"
  | ["err"] => s.diff s!"load:{tag}" (",".intercalate expect) "err"
  | ["ok", l] =>
    let got := if l == "-" then [] else l.splitOn ","
    let s := s.spec "C12" "noPanic" true
    -- C12, second sentence: the undecodable blocks are skipped and everything reachable through the
    -- good ones is loaded (the expectation is computed from the stored good blocks only)
    let s := s.spec "C12" "loadsRemainingHistory" (expect.all (fun h => got.contains h))
      s!"load {tag}: {(expect.filter (fun h => !got.contains h)).length} of {expect.length} reachable good entries missing"
    if got == expect then s else s.diff s!"load:{tag}" (",".intercalate expect) l
  | _ => s.diff s!"load:{tag}" "?" (" ".intercalate res)
where
  sortStrs' (l : List String) : List String := (l.toArray.qsort (· < ·)).toList

def classOfJ (s : CSt) (hash : Bytes) (j : JEntry) : Outcome PEntry := decodeJEntry s.crypto none hash j

def handleD (s : CSt) (fs : List String) : CSt :=
  let implClass := fs.headD ""
  let s := s.spec "C12" "noPanic" (implClass != "PANIC") "DecodeRawEntry"
  if implClass == "PANIC" then s else
  let implE := if implClass == "ok" then parsePlain (fs.drop 1) else none
  let hash := (implE.bind (·.hash)).getD []
  let implS := if implClass == "ok" then "ok " ++ implPlainLine (fs.drop 1) else implClass
  match s.lastL with
  | none => s
  | some none =>
    let s := s.count "cmp:malformedClass"
    if implClass == "err:cbor" then s else s.diff "malformedClass" "err:cbor" implS
  | some (some (j, _)) =>
    let s := s.count "cmp:malformedClass"
    let modelS := showOutcome (classOfJ s hash j)
    if modelS == implS then s else s.diff "malformedClass" (cut modelS 300) (cut implS 300)

def handleL (s : CSt) (fs : List String) : CSt :=
  match fs with
  | ["PANIC"] => { (s.spec "C12" "noPanic" false "cbornode.DecodeInto") with lastL := some none }
  | ["err"] =>
    let s := { s with lastL := some none }
    -- the model decoder is stricter than the library: it must not accept what the library refuses
    match decodeEntry s.curRaw with
    | some j =>
      if s.linksKnown j.next && s.linksKnown j.refs then (s.count "cmp:strictDecode").diff "strictDecode" "some" "err" else s
    | none => s
  | "ok" :: rest =>
    match parseJ rest with
    | none => s.diff "L-unparsable" "-" "-"
    | some (j, hn) =>
      let s := { s with lastL := some (some (j, hn)) }
      match decodeEntry s.curRaw with
      | some m =>
        let s := s.count "cmp:strictDecode"
        if m == j && hn then s else s.diff "strictDecode" (cut (reprStr m) 300) (cut (" ".intercalate rest) 300)
      | none => s.count "info:libraryMoreLenient"
  | _ => s

def parseV0 : List String → Option JEntryV0
  | [h, id, payload, next, v, clock, key, sig] =>
    some { hash := if h == "~" then none else some (hexB h), id := hexB id, payload := hexB payload,
           next := parseLinks next, v := v.toNat?.getD 0, clock := parseJClock clock, key := hexB key, sig := hexB sig }
  | _ => none

def handleD0 (s : CSt) (fs : List String) : CSt :=
  let implClass := fs.headD ""
  let s := s.spec "C12" "noPanic" (implClass != "PANIC") "pb.DecodeRawEntry"
  if implClass == "PANIC" then s else
  let parse : Bytes → Option Bytes := fun b => ((s.parseTab.find? (fun p => p.1 == b)).bind (·.2))
  match s.lastL0 with
  | none => s
  | some none =>
    let s := s.count "cmp:v0Class"
    if implClass == "err" then s else s.diff "v0Class" "err" implClass
  | some (some j) =>
    let s := s.count "cmp:v0Class"
    match toPlainEntryV0 parse j, implClass with
    | .ok e, "ok" =>
      match parsePlain (fs.drop 1) with
      | some g =>
        let m := showPlain { e with hash := g.hash }
        if m == showPlain g then s else s.diff "v0Fields" m (showPlain g)
      | none => s.diff "v0Fields" "-" "unparsable"
    | .err _, "err" => s
    | .panic, _ => s.diff "v0Class" "PANIC" implClass
    | .ok _, c => s.diff "v0Class" "ok" c
    | .err _, c => s.diff "v0Class" "err" c

def handleLine (s : CSt) (line : String) : CSt :=
  let s := { s with lineNo := s.lineNo + 1 }
  match line.splitOn " " with
  | ["H", idx, kind] =>
    { s with kind := kind, caseNo := idx, cidStr := {}, cur := none, curRaw := [], sealTab := [], nonceTab := [], lastL := none,
             lastL0 := none, parseTab := [], store := [], bad := [], lastRead := none, curMan := none }
  | ["C", bin, str] => { s with cidStr := s.cidStr.insert (hexB bin) (hexB str) }
  | ["K", a, b] => { s with k1 := hexB a, k2 := hexB b }
  | "P" :: fs =>
    match parsePlain fs with
    | some e => { s with cur := some e }
    | none => s.diff "P-unparsable" "-" line
  | ["W", res, cid, raw] => handleW s res cid raw
  | "J" :: fs => handleJ s fs
  | "R" :: tag :: fs => handleR s tag fs
  | ["F", res] =>
    if s.kind == "lk" then s.spec "C18" "readBackFields" (res == "ok") res else s.spec "C08" "readBackFields" (res == "ok") res
  | ["X", cid, raw] => handleX s cid raw
  | ["T", name, want, got] => s.spec "C08" "pinnedVectorTEST" (want == got) s!"{name} {want} {got}"
  | ["N", ref, dn, nonce] => handleN s ref dn nonce
  | ["S", pt, ct] => handleS s pt ct
  | ["B", _, found, links] => s.spec "C18" "noLinkBytes" (found == "0" && links == "0") s!"found={found} links={links}"
  | ["V", res] =>
    let s := s.spec "C12" "noPanic" (res != "PANIC") "Verify"
    s.spec "C18" "verifyAfterRead" (res == "ok") res
  | ["G", join, len, expect, heads, l1, l0, l2, linked] =>
    let n (t : String) := t.toNat?.getD 1000000
    let s := s.spec "C12" "noPanic" (join != "PANIC" && l1 != "PANIC" && l0 != "PANIC" && l2 != "PANIC") "join/load"
    let s := s.spec "C18" "mergeWithKey" (join == "ok" && len == expect) s!"{join} {len} {expect}"
    let s := s.spec "C18" "loadWithKey" (l1 == expect) s!"{l1} {expect}"
    let s := s.spec "C18" "loadWithoutKey" (n l0 ≤ n heads && n l2 ≤ n heads) s!"{l0} {l2} {heads}"
    s.spec "C18" "noStoredLinks" (linked == "0") linked
  | ["M", id, heads] => { s with curMan := some { id := hexB id, heads := parseLinks heads } }
  | ["MW", res, cid, raw] =>
    let s := { s with curRaw := hexB raw, curCid := cid }
    match s.curMan with
    | some m =>
      let s := s.count "cmp:manifestBlock"
      if linksDefined m.heads then
        if res == "ok" && cborManifest m == hexB raw then s else s.diff "manifestBlock" (showB (cborManifest m)) s!"{res} {raw}"
      else if res == "err" then s else s.diff "manifestBlock" "err" res
    | none => s
  | ["MJ", "ok", id, heads] =>
    let j : JLog := { id := hexB id, heads := parseLinks heads }
    let s := s.count "cmp:manifestDecode"
    let s := match decodeManifest s.curRaw with
      | some m => if m == j then s else s.diff "manifestDecode" (cut (reprStr m) 200) line
      | none => s.diff "manifestDecode" "none" line
    s.spec "C08" "manifestReadBack" (s.curMan == some j) line
  | ["MJ", "err"] => s.spec "C08" "manifestReadBack" false "err"
  | ["I", _, raw] => { s with curRaw := hexB raw, lastL := none }
  | "L" :: fs => handleL s fs
  | "D" :: fs => handleD s fs
  | ["DK", res] => s.spec "C12" "noPanic" (res != "PANIC") "DecodeRawEntry with a link key"
  | ["A", res] => s.spec "C12" "noPanic" (res == "ok") s!"accessors {res}"
  | ["IM", _, raw] => { s with curRaw := hexB raw }
  | "LM" :: fs =>
    let s := s.spec "C12" "noPanic" (fs != ["PANIC"]) "DecodeRawJSONLog"
    match fs, decodeManifest s.curRaw with
    | ["ok", id, heads], some m =>
      let s := s.count "cmp:strictManifest"
      if m == ({ id := hexB id, heads := parseLinks heads } : JLog) then s else s.diff "strictManifest" (cut (reprStr m) 200) line
    | ["err"], some m =>
      if s.linksKnown m.heads then (s.count "cmp:strictManifest").diff "strictManifest" "some" "err" else s
    | _, _ => s
  | ["C0", str, "ok", bin] => { s with parseTab := (hexB str, some (hexB bin)) :: s.parseTab }
  | ["C0", str, "err"] => { s with parseTab := (hexB str, none) :: s.parseTab }
  | ["I0", _] => { s with lastL0 := none }
  | ["L0", "err"] => { s with lastL0 := some none }
  | "L0" :: "ok" :: fs =>
    match parseV0 fs with
    | some j => { s with lastL0 := some (some j) }
    | none => s.diff "L0-unparsable" "-" line
  | "D0" :: fs => handleD0 s fs
  | ["E", h, next, refs] =>
    let e : Entry := { hash := hexB h, logId := [], next := (parseLinks next).getD [], refs := (parseLinks refs).getD [],
                       clock := { id := [], time := 0 } }
    { s with store := s.store ++ [e] }
  | ["HD", _] => s
  | ["XP", l] =>
    let bad := if l == "-" then [] else (l.splitOn ",").map (fun x => hexB ((x.splitOn ":").headD ""))
    { s with bad := bad }
  | ["XJ", name, jr, same, peerRes] =>
    -- a merge across codec configurations (usually refused): never a panic, the source log's entries are
    -- left exactly as they were (C05) and the source is still mergeable by a peer of its own configuration
    let s := s.spec "C12" "noPanic" (jr != "PANIC") s!"cross-codec join {name}"
    let s := s.spec "C05" "sourceUntouched" (same == "true") s!"cross-codec join {name} ({jr}) changed the source log's entries"
    s.spec "C05" "sourceStillMergeable" (peerRes == "ok") s!"after cross-codec join {name}: a peer's join of the source: {peerRes}"
  | "LD" :: tag :: roots :: res => handleLD s tag roots res
  | ["LM2", res] => s.spec "C12" "noPanic" (res != "PANIC") "poisoned manifest"
  | ["Z", idx, res] => s.spec "C08" "crossProcessSameCid" (res == "same") s!"case {idx} {res}"
  | _ => s

end Driver.Codec
