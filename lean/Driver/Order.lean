import Driver.Core
/-!
# Driver.Order — replay of the `order` stream (C19)

`C a b lww fww hash compare clock` : signs returned by the real comparators (`e` = NoZeroes error,
which the model represents as 0).  `S kind rev in out` : `sorting.Sort`.
Besides model = implementation, the order laws are evaluated on the implementation's own answers
(antisymmetry over all observed pairs, transitivity over all observed triples).
-/
open Model

namespace Driver

structure OSt where
  uni : Std.HashMap String Entry := {}
  names : Array String := #[]
  pairNames : Std.HashMap String Unit := {}
  /-- implementation's signs: (a,b) ↦ (lww, hash, clock) -/
  signs : Std.HashMap (String × String) (Int × Int × Int) := {}
  lineNo : Nat := 0
  diffs : Nat := 0
  specFails : Nat := 0
  checks : Std.HashMap String Nat := {}
  out : Array String := #[]
deriving Inhabited

def OSt.emit (s : OSt) (m : String) : OSt := { s with out := s.out.push m }
def OSt.count (s : OSt) (k : String) (n : Nat := 1) : OSt := { s with checks := s.checks.insert k (s.checks.getD k 0 + n) }
def OSt.diff (s : OSt) (what model impl : String) : OSt :=
  { (s.emit s!"DIFF line={s.lineNo} {what} model={model} impl={impl}") with diffs := s.diffs + 1 }
def OSt.spec (s : OSt) (name : String) (ok : Bool) (detail : String) : OSt :=
  if ok then s else { (s.emit s!"SPEC line={s.lineNo} C19 {name} FAIL {detail}") with specFails := s.specFails + 1 }

def sgn (x : Int) : Int := if x < 0 then -1 else if x > 0 then 1 else 0
def tokSign (t : String) : Int := if t == "e" then 0 else t.toInt?.getD 0

def hexBytes (s : String) : Bytes :=
  let cs := s.toList
  let rec go : List Char → List Nat
    | a :: b :: t => (hexVal a * 16 + hexVal b) :: go t
    | _ => []
  go cs
where
  hexVal (c : Char) : Nat :=
    if c.isDigit then c.toNat - '0'.toNat else if 'a' ≤ c ∧ c ≤ 'f' then c.toNat - 'a'.toNat + 10 else 0

def handleOrder (s : OSt) (line : String) : OSt :=
  let s := { s with lineNo := s.lineNo + 1 }
  match line.splitOn " " with
  | ["E", a, cidS, idHex, time] =>
    let e : Entry := { hash := strBytes cidS, logId := [], next := [], refs := [],
                       clock := { id := hexBytes idHex, time := time.toInt?.getD 0 } }
    { s with uni := s.uni.insert a e, names := s.names.push a }
  | ["C", a, b, lww, fww, hsh, cmp, clk] =>
    match s.uni[a]?, s.uni[b]? with
    | some ea, some eb =>
      let s := s.count "cmp:pair"
      let chk (s : OSt) (what : String) (m : Int) (t : String) : OSt :=
        if sgn m == tokSign t then s else s.diff s!"{what}({a},{b})" (toString (sgn m)) t
      let s := chk s "lww" (cmpLWW ea eb) lww
      let s := chk s "fww" (cmpFWW ea eb) fww
      let s := chk s "hash" (cmpHash ea eb) hsh
      let s := chk s "compare" (clockCompare ea.clock eb.clock) cmp
      let s := chk s "clock" (clockCompare ea.clock eb.clock) clk
      -- laws on the implementation's answers that need one pair only
      let s := s.spec "fwwIsReverse" (tokSign fww == - tokSign lww) s!"{a} {b}"
      let s := if ea.clock.time < eb.clock.time then
          s.spec "timeRespected" (tokSign lww == -1 && tokSign hsh == -1 && tokSign clk == -1) s!"{a} {b}" else s
      let s := if a == b then s.spec "hashIrreflexive" (tokSign hsh == 0) a else s
      { s with signs := s.signs.insert (a, b) (tokSign lww, tokSign hsh, tokSign clk),
               pairNames := (s.pairNames.insert a ()).insert b () }
    | _, _ => s.diff "unknown-entry" a b
  | ["S", kind, rev, ins, outs] =>
    let inE := (parseList ins).filterMap (fun a => s.uni[a]?)
    let outH := (parseList outs).filterMap (fun a => (s.uni[a]?).map (·.hash))
    let lt : Entry → Entry → Bool :=
      if kind == "clock" then (if rev == "1" then fun a b => decide (clockCompare a.clock b.clock > 0) else clockAsc)
      else
        let k := parseSort kind
        if rev == "1" then before k else beforeAsc k
    let m := (goSort lt inE).map (·.hash)
    let s := s.count "cmp:sort"
    let s := if m == outH then s else s.diff s!"sort {kind} {rev}" (toString m.length) outs
    -- a permutation of the input
    let inH := inE.map (·.hash)
    s.spec "sortIsPermutation" (outH.length == inH.length && sameSetH outH inH) line
  | _ => s

/-- laws over all observed pairs / triples of the implementation's answers -/
def finishOrder (s : OSt) : OSt := Id.run do
  let mut s := s
  let names := s.names.filter (fun n => s.pairNames.contains n)
  let get (a b : String) := s.signs[(a, b)]?
  let mut pairs := 0
  let mut triples := 0
  for a in names do
    for b in names do
      match get a b, get b a with
      | some (l1, h1, c1), some (l2, h2, c2) =>
        pairs := pairs + 1
        let ea := s.uni[a]!
        let eb := s.uni[b]!
        let keyNe := ea.clock.id != eb.clock.id || ea.clock.time != eb.clock.time
        if h1 != -h2 then s := s.spec "hashAntisymmetric" false s!"{a} {b}"
        if c1 != -c2 then s := s.spec "clockAntisymmetric" false s!"{a} {b}"
        if keyNe && l1 != -l2 then s := s.spec "lwwAntisymmetric" false s!"{a} {b}"
        if ea.hash != eb.hash && h1 == 0 then s := s.spec "hashTotal" false s!"{a} {b}"
        if keyNe && l1 == 0 then s := s.spec "lwwTotal" false s!"{a} {b}"
      | _, _ => pure ()
  -- transitivity over triples for which all three pairs were observed
  for a in names do
    for b in names do
      match get a b with
      | none => pure ()
      | some (l1, h1, c1) =>
        if l1 ≤ 0 && h1 ≤ 0 && c1 ≤ 0 then pure () else
        for c in names do
          match get b c, get a c with
          | some (l2, h2, c2), some (l3, h3, c3) =>
            triples := triples + 1
            if h1 > 0 && h2 > 0 && !(h3 > 0) then s := s.spec "hashTransitive" false s!"{a} {b} {c}"
            if c1 > 0 && c2 > 0 && !(c3 > 0) then s := s.spec "clockTransitive" false s!"{a} {b} {c}"
            let ea := s.uni[a]!
            let eb := s.uni[b]!
            let ec := s.uni[c]!
            let kn (x y : Entry) := x.clock.id != y.clock.id || x.clock.time != y.clock.time
            if kn ea eb && kn eb ec && kn ea ec && l1 > 0 && l2 > 0 && !(l3 > 0) then
              s := s.spec "lwwTransitive" false s!"{a} {b} {c}"
          | _, _ => pure ()
  s := s.count "spec:pairsLaws" pairs
  s := s.count "spec:triplesLaws" triples
  return s

end Driver
