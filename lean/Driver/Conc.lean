import Model.Conc
import Driver.Core
/-!
# Driver.Conc — replay of the `conc` stream on the concurrent world (C13, C14)

The harness runs every operation in its own goroutine, parks it at every hook point and records the
schedule (`S tid from to`).  Here the same operations are the threads of a `Model.Conc.World`, the
same schedule is executed with `Model.Conc.step`, and

* DIFF: the model must reach the same point after every `S` line (so the lock structure of the code
  is the one of the transcribed programs), every append must produce the same `next` / clock, every
  read must observe the same data, every log must end in the same state;
* SPEC: the specification predicates are evaluated on the IMPLEMENTATION's observations: no
  deadlock, every append exactly once, appends on one log chained in lock order, every read and
  every final state structurally sound, a merge includes everything the source had when it started.
-/
open Model Model.Conc

namespace Driver

structure COp where
  tid : Nat
  kind : String
  log : Nat
  src : Nat
  arg : Int
  res : List String := []
deriving Inhabited

structure CSt where
  uni : Std.HashMap String Entry := {}
  logs : Array Log := #[]
  ops : Array COp := #[]
  world : Option World := none
  /-- (log, tid) of the appends in the order in which they got the lock -/
  lockOrder : Array (Nat × Nat) := #[]
  /-- index of the S line on which a thread finished / a merge left `join.enter` -/
  doneAt : Std.HashMap Nat Nat := {}
  joinStart : Std.HashMap Nat Nat := {}
  sNo : Nat := 0
  /-- identity in force per log (changed by a `setid` that has finished) and the identity in force when
      each append took the write lock: both hold the write lock, so the order of the `S` lines is the order -/
  curId : Std.HashMap Nat Bytes := {}
  appendId : Std.HashMap Nat Bytes := {}
  deadlock : Bool := false
  /-- the goroutines the watchdog was waiting for -/
  deadTids : List Nat := []
  /-- a goroutine moved although the lock it needs was held (`UX` line) -/
  lockIgnored : Bool := false
  finalO : Array (Nat × List String × List String × List String) := #[]
  lineNo : Nat := 0
  hist : String := ""
  diffs : Nat := 0
  specFails : Nat := 0
  checks : Std.HashMap String Nat := {}
  out : Array String := #[]

instance : Inhabited CSt := ⟨{}⟩

def CSt.emit (s : CSt) (m : String) : CSt := { s with out := s.out.push m }
def CSt.count (s : CSt) (k : String) : CSt := { s with checks := s.checks.insert k (s.checks.getD k 0 + 1) }
def CSt.diff (s : CSt) (what model impl : String) : CSt :=
  { (s.emit s!"DIFF line={s.lineNo} hist={s.hist} {what} model={model} impl={impl}") with diffs := s.diffs + 1 }
def CSt.spec (s : CSt) (prop name : String) (ok : Bool) (detail : String := "") : CSt :=
  let s := s.count s!"spec:{prop}:{name}"
  if ok then s else
    { (s.emit s!"SPEC line={s.lineNo} hist={s.hist} {prop} {name} FAIL {detail}") with specFails := s.specFails + 1 }

def CSt.ent (s : CSt) (a : String) : Entry :=
  match s.uni[a]? with
  | some e => e
  | none => { hash := strBytes ("?" ++ a), logId := [], next := [], refs := [], clock := { id := [], time := 0 } }
def CSt.ents (s : CSt) (as : List String) : List Entry := as.map s.ent
def CSt.hs (s : CSt) (as : List String) : List Hash := as.map (fun a => (s.ent a).hash)

def CSt.showH (s : CSt) (hs : List Hash) : String :=
  let m := s.uni.fold (fun (acc : List (Hash × String)) a e => (e.hash, a) :: acc) []
  ",".intercalate (hs.map (fun h => match m.find? (fun p => p.1 == h) with | some p => p.2 | none => "?"))

def CSt.cmpList (s : CSt) (what : String) (model : List Hash) (impl : List String) (asSet : Bool := false) : CSt :=
  let ih := s.hs impl
  let s := s.count s!"cmp:{(what.splitOn " ").headD what}"
  let ok := if asSet then sameSetH model ih && model.length == ih.length else model == ih
  if ok then s else s.diff what (s.showH model) (",".intercalate impl)

def hookName : Hook → String
  | .opStart => "op.start"
  | .appendEnter => "append.enter"
  | .appendLocked => "append.locked"
  | .appendPublish => "append.publish"
  | .joinEnter => "join.enter"
  | .joinHeadsRead => "join.heads-read"
  | .joinEntriesRead => "join.entries-read"
  | .joinLocked => "join.locked"
  | .joinPublish => "join.publish"
  | .iteratorLocked => "iterator.locked"

/-- run thread `t` until it is at a hook, finished or cannot move; `first` = execute the hook it is
    parked at.  Returns the world and what was reached. -/
def advanceT (t : Tid) : Nat → World → Bool → World × String
  | 0, w, _ => (w, "fuel")
  | f + 1, w, first =>
    match (w.thr t).rest with
    | [] => (w, "done")
    | .hook p :: _ =>
      if first then
        match step w t with
        | some w' => advanceT t f w' false
        | none => (w, "blocked")
      else (w, hookName p)
    | _ =>
      match step w t with
      | some w' => advanceT t f w' false
      | none => (w, "blocked")

def progOfOp (s : CSt) (o : COp) : List Instr :=
  let id := (s.logs.getD o.src default).id
  match o.kind with
  | "append" =>
    let h : Hash := match o.res with
      | a :: _ => if a.startsWith "!" then strBytes s!"?append{o.tid}" else (s.ent a).hash
      | [] => strBytes s!"?append{o.tid}"
    appendProg o.log o.arg h 0
  | "join" => if o.log == o.src then joinNoopProg else joinProg o.log o.src id o.arg
  | "joinr" => joinRefusedProg o.log o.src
  | "setid" =>
    let cid := match o.res with | _ :: c :: _ => strBytes c | _ => []
    setIdentityProg o.log cid
  | "iter" | "iterb" => iteratorProg o.log
  | "heads" | "rawheads" | "json" => headsProg o.log
  | "mh" => toMultihashProg o.log
  | _ => readerProg o.log

def CSt.ensureWorld (s : CSt) : CSt × World :=
  match s.world with
  | some w => (s, w)
  | none =>
    let progs := s.ops.map (progOfOp s)
    let logs := s.logs
    let w := mkWorld (fun i => logs.getD i default) (fun t => progs.getD t [])
    ({ s with world := some w }, w)

def headOfThread (w : World) (t : Tid) : String :=
  match (w.thr t).rest with
  | [] => "done"
  | .hook p :: _ => hookName p
  | _ => "mid"

/-- the final comparisons and specification checks of a case -/
def finishCase (s : CSt) : CSt :=
  let (s, w) := s.ensureWorld
  let s := s.spec "C14" "noDeadlock" (!s.deadlock) "watchdog: a goroutine neither parked nor finished"
  let s := s.spec "C13" "noDeadlock" (!s.deadlock) "watchdog: a goroutine neither parked nor finished"
  -- C15 "always ends": the goroutine that never came back is an iteration
  let s := s.spec "C15" "iterationEnds" (!(s.deadlock && s.ops.any (fun o => (o.kind == "iter" || o.kind == "iterb") && s.deadTids.contains o.tid)))
    "watchdog: an Iterator call neither returned nor reached its next step"
  let s := s.spec "C13" "lockExcludes" (!s.lockIgnored) "a goroutine moved although the lock it needs was held"
  if s.deadlock || s.lockIgnored then s else
  -- a size-bounded merge trims its log: what is claimed of logs that only grow (causal closure of
  -- every view, appends chained, merges including the whole source) is not evaluated in such cases;
  -- correspondence with the model, absence of deadlock and "every head is an entry" still are
  let bounded := s.ops.any (fun o => o.kind == "join" && o.arg > -1)
  -- every thread of the model has finished
  let s := s.ops.foldl (fun (s : CSt) o =>
    if (w.thr o.tid).rest.isEmpty then s else s.diff s!"unfinished tid={o.tid}" (headOfThread w o.tid) "done") s
  -- per operation
  let s := s.ops.foldl (fun (s : CSt) o =>
    let r := (w.thr o.tid).regs
    match o.kind, o.res with
    | "append", a :: _ =>
      if a.startsWith "!" then s.diff s!"append tid={o.tid}" "ok" a else
      let ie := s.ent a
      match r.out with
      | none => s.diff s!"append tid={o.tid}" "no-entry" a
      | some me =>
        let s := s.count "cmp:append"
        let s := if me.next == ie.next then s else s.diff s!"append.next tid={o.tid}" (s.showH me.next) (s.showH ie.next)
        let s := if me.refs == ie.refs then s else s.diff s!"append.refs tid={o.tid}" (s.showH me.refs) (s.showH ie.refs)
        let s := if me.clock == ie.clock then s else s.diff s!"append.clock tid={o.tid}" (toString me.clock.time) (toString ie.clock.time)
        -- C04 on the implementation's entry: the clock id is the public key of the identity in force
        -- when the append held the lock
        let s := match s.appendId[o.tid]? with
          | some cid => s.spec "C04" "clockIdIsWriter" (ie.clock.id == cid) s!"tid {o.tid} entry {a}"
          | none => s
        s
    | "join", a :: _ =>
      let s := s.count "cmp:join"
      if (a == "ok") == !r.failed then s else s.diff s!"join tid={o.tid}" (if r.failed then "err" else "ok") a
    | "joinr", a :: _ =>
      -- a merge whose candidates the access controller refuses: the error outcome, nothing changes
      let s := s.count "cmp:join.refused"
      let s := s.spec "C06" "refusedJoinErrors" (a == "err") s!"tid {o.tid}: {a}"
      if a == "err" then s else s.diff s!"joinr tid={o.tid}" "err" a
    | "setid", _ => s
    | "mh", a :: _ => if a == "ok" then s.count "cmp:mh" else s.diff s!"mh tid={o.tid}" "ok" a
    | "len", a :: _ =>
      let m := match r.obs with | o1 :: _ => toString o1.entries.length | [] => "?"
      let s := s.count "cmp:len"
      if m == a then s else s.diff s!"len tid={o.tid}" m a
    | kind, a :: rest =>
      let xs := parseList a
      let ys := match rest with | b :: _ => parseList b | [] => []
      let note := match rest with | _ :: n :: _ => n | _ => "-"
      let seen : Seen := match r.obs with | o1 :: _ => o1 | [] => default
      if kind == "values" then
        let s := s.cmpList s!"read.values tid={o.tid}" (hashes seen.values) xs
        let V := s.ents xs
        s.spec "C13" "readValuesOk" (nodupH (hashes V) && (bounded || (causalOk V && closedOk V))) s!"tid {o.tid}"
      else if kind == "entries" then
        let s := s.cmpList s!"read.entries tid={o.tid}" (hashes seen.entries) xs (asSet := true)
        let E := s.ents xs
        s.spec "C13" "readEntriesOk" (nodupH (hashes E) && (bounded || closedOk E)) s!"tid {o.tid}"
      else if kind == "snapshot" then
        let s := s.cmpList s!"read.snapshot.values tid={o.tid}" (hashes seen.values) xs
        let s := s.cmpList s!"read.snapshot.heads tid={o.tid}" (hashes seen.heads) ys (asSet := true)
        let V := s.ents xs
        let H := s.ents ys
        s.spec "C13" "readSnapshotOk" (note == "-" && nodupH (hashes V) && (bounded || (headsOk V H && causalOk V && closedOk V))) s!"tid {o.tid} {note}"
      else if kind == "iter" then
        let s := s.cmpList s!"read.iter tid={o.tid}" (hashes seen.values).reverse xs
        let V := (s.ents xs).reverse
        s.spec "C13" "readIterOk" (nodupH (hashes V) && (bounded || (causalOk V && closedOk V))) s!"tid {o.tid}"
      else if kind == "iterb" then
        -- iteration below a bound (an entry appended in the prelude; arg 1 = exclusive): no error, and
        -- exactly the causal past of the bound inside the log
        let V := (s.ents xs).reverse
        let s := s.spec "C13" "boundedIterReturns" (note != "err") s!"tid {o.tid}: the bounded iteration reported an error"
        let s := s.spec "C13" "readIterOk" (nodupH (hashes V) && (bounded || (causalOk V && closedOk V))) s!"tid {o.tid}"
        match ys with
        | [] => s
        | b :: _ =>
          if bounded || note == "err" then s else
          let fin := match s.finalO.find? (fun p => p.1 == o.log) with | some p => s.ents p.2.1 | none => []
          let be := s.ent b
          let roots := if o.arg == 1 then be.next else [be.hash]
          let exp := hashes (pastOf fin roots)
          s.spec "C13" "boundedIterRange" (sameSetH exp (hashes V)) s!"tid {o.tid}: expected {s.showH exp} got {a}"
      else if kind == "heads" || kind == "rawheads" || kind == "json" then
        let s := s.cmpList s!"read.{kind} tid={o.tid}" (hashes r.hs) xs (asSet := true)
        s.spec "C13" "readHeadsOk" (nodupH (s.hs xs)) s!"tid {o.tid}"
      else s
    | _, [] => s.diff s!"result tid={o.tid}" "some" "none") s
  -- per log: final state
  let s := s.finalO.foldl (fun (s : CSt) (l, ents, raw, vals) =>
    let m := w.logs l
    let s := s.cmpList s!"final.entries log={l}" (hashes m.entries) ents (asSet := true)
    let s := s.cmpList s!"final.heads log={l}" (hashes m.heads) raw (asSet := true)
    let s := s.cmpList s!"final.values log={l}" (hashes (values m)) vals
    let E := s.ents ents
    let H := s.ents raw
    let V := s.ents vals
    let s := s.spec "C14" "headsAreEntries" (H.all (fun h => has E h.hash)) s!"log {l}"
    if bounded then s else
    let s := s.spec "C13" "finalHeadsOk" (headsOk E H) s!"log {l}"
    -- C14: a union with a real state of the source has exactly its unreferenced entries as heads
    let s := s.spec "C14" "finalHeadsOfUnion" (headsOk E H) s!"log {l}: heads {",".intercalate raw}"
    let s := s.spec "C14" "finalClosed" (closedOk E) s!"log {l}"
    let s := s.spec "C13" "finalValuesOk" (valuesOk .lww E V) s!"log {l}"
    s) s
  if bounded then s else
  -- appends: exactly once, and chained in lock order
  let finalE (l : Nat) : List String := match s.finalO.find? (fun p => p.1 == l) with | some p => p.2.1 | none => []
  let aliasOf (tid : Nat) : Option String := match (s.ops.getD tid default).res with
    | a :: _ => if a.startsWith "!" then none else some a
    | [] => none
  let s := s.ops.foldl (fun (s : CSt) o =>
    if o.kind != "append" then s else
    match aliasOf o.tid with
    | none => s
    | some a => s.spec "C13" "appendOnce" ((finalE o.log).count a == 1) s!"tid {o.tid} entry {a}") s
  let order := s.lockOrder.toList
  let s := order.foldl (fun (s : CSt) (l, t2) =>
    match aliasOf t2 with
    | none => s
    | some a2 =>
      let E := s.ents (finalE l)
      let past := hashes (pastOf E [(s.ent a2).hash])
      let before := (order.takeWhile (fun p => p != (l, t2))).filter (fun p => p.1 == l)
      before.foldl (fun (s : CSt) (_, t1) =>
        match aliasOf t1 with
        | none => s
        | some a1 => s.spec "C13" "appendChain" (past.contains (s.ent a1).hash) s!"log {l}: {a1} (tid {t1}) not before {a2} (tid {t2})") s) s
  -- merges: everything appended to the source before the merge started is in the destination
  let s := s.ops.foldl (fun (s : CSt) o =>
    if o.kind != "join" || o.res.head? != some "ok" then s else
    match s.joinStart[o.tid]? with
    | none => s
    | some js =>
      s.ops.foldl (fun (s : CSt) a =>
        if a.kind == "append" && a.log == o.src then
          match s.doneAt[a.tid]?, aliasOf a.tid with
          | some d, some al =>
            if d < js then s.spec "C14" "joinIncludesSource" ((finalE o.log).contains al) s!"join tid {o.tid}: {al} missing in log {o.log}" else s
          | _, _ => s
        else s) s) s
  s

def handleConc (s : CSt) (line : String) : CSt :=
  let s := { s with lineNo := s.lineNo + 1 }
  let t := line.splitOn " "
  match t with
  | "H" :: idx :: _ =>
    { s with uni := {}, logs := #[], ops := #[], world := none, lockOrder := #[], doneAt := {}, joinStart := {},
             sNo := 0, curId := {}, appendId := {}, deadlock := false, deadTids := [], lockIgnored := false, finalO := #[], hist := idx }
  | ["N", l, logId, clk, sk] =>
    let lg : Log := { id := strBytes logId, entries := [], heads := [], nextIdx := [],
                      clock := { id := strBytes clk, time := 0 }, sortFn := parseSort sk }
    let i := l.toNat!
    let logs := if i < s.logs.size then s.logs else s.logs ++ Array.replicate (i + 1 - s.logs.size) default
    { s with logs := logs.set! i lg }
  | ["OP", tid, kind, l, src, arg] =>
    let o : COp := { tid := tid.toNat!, kind := kind, log := l.toNat!, src := if src == "-" then l.toNat! else src.toNat!, arg := toInt! arg }
    { s with ops := s.ops.push o }
  | ["U", a, cidS] =>
    { s with uni := s.uni.insert a { hash := strBytes cidS, logId := [], next := [], refs := [], clock := { id := [], time := 0 } } }
  | ["E", a, cidS, logId, clk, time, nx, rf] =>
    let e : Entry := { hash := strBytes cidS, logId := strBytes logId, next := s.hs (parseList nx),
                       refs := s.hs (parseList rf), clock := { id := strBytes clk, time := toInt! time } }
    { s with uni := s.uni.insert a e }
  | "R" :: tid :: _kind :: rest =>
    let i := tid.toNat!
    match s.ops[i]? with
    | some o => { s with ops := s.ops.set! i { o with res := rest } }
    | none => s.diff "result-unknown-op" tid ""
  | ["S", tid, frm, to] =>
    let (s, w) := s.ensureWorld
    let t := tid.toNat!
    let s := { s with sNo := s.sNo + 1 }
    let s := s.count "cmp:sched"
    let s := if frm == "blocked" || headOfThread w t == frm then s else s.diff s!"sched.from tid={t}" (headOfThread w t) frm
    let (w', reached) := advanceT t 64 w (frm != "blocked")
    let s := if reached == to then s else s.diff s!"sched.to tid={t} from={frm}" reached to
    let o := s.ops.getD t default
    let s := if to == "append.locked" then
        { s with lockOrder := s.lockOrder.push (o.log, t),
                 appendId := s.appendId.insert t (s.curId.getD o.log (s.logs.getD o.log default).clock.id) } else s
    let s := if to == "done" && o.kind == "setid" then
        match o.res with
        | _ :: c :: _ => { s with curId := s.curId.insert o.log (strBytes c) }
        | _ => s
      else s
    let s := if to == "done" then { s with doneAt := s.doneAt.insert t s.sNo } else s
    let s := if frm == "join.enter" then { s with joinStart := s.joinStart.insert t s.sNo } else s
    { s with world := some w' }
  | "D" :: rest => { s with deadlock := true, deadTids := (rest.flatMap (fun t => t.splitOn ",")).filterMap (·.toNat?) }
  | "UX" :: _ => { s with lockIgnored := true }
  | ["O", l, ents, raw, vals] =>
    { s with finalO := s.finalO.push (l.toNat!, parseList ents, parseList raw, parseList vals) }
  | ["X"] => finishCase s
  | _ => if line.trimAscii.isEmpty then s else s.emit s!"WARN line={s.lineNo} unparsed: {line}"

end Driver
