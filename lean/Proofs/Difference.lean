import Proofs.Append
/-!
# Proofs.Difference — `difference(entriesA, headsA, logB)` returns exactly the entries of A that are
not in B, for causally closed logs (worklist invariant + termination measure)
-/
namespace Model

/-! ## the inner push loop -/

def unmarked (L : List Hash) (t : List Hash) : Nat := L.countP (fun c => !t.contains c)

theorem unmarked_cons_le (L : List Hash) (t : List Hash) (c : Hash) : unmarked L (c :: t) ≤ unmarked L t := by
  unfold unmarked
  apply List.countP_mono_left
  intro x _ h
  simp only [Bool.not_eq_true', List.contains_eq_mem, List.mem_cons, decide_eq_false_iff_not, not_or] at h ⊢
  exact h.2

theorem unmarked_cons_lt (L : List Hash) (t : List Hash) (c : Hash) (hc : c ∈ L) (hn : c ∉ t) :
    unmarked L (c :: t) < unmarked L t := by
  unfold unmarked
  induction L with
  | nil => cases hc
  | cons x xs ih =>
    simp only [List.countP_cons]
    by_cases hx : x = c
    · subst hx
      have h1 : ((!(x :: t).contains x) = true) = False := by simp
      have h2 : ((!t.contains x) = true) := by simpa using hn
      have := unmarked_cons_le xs t x
      unfold unmarked at this
      simp only [h1, h2, if_true, if_false]; omega
    · have hm : c ∈ xs := by
        cases hc with
        | head => exact absurd rfl hx
        | tail _ hm => exact hm
      have := ih hm
      have hiff : ((!(c :: t).contains x) = true) ↔ ((!t.contains x) = true) := by
        simp only [Bool.not_eq_true', List.contains_eq_mem, List.mem_cons, decide_eq_false_iff_not, not_or]
        constructor
        · exact fun h => h.2
        · exact fun h => ⟨hx, h⟩
      by_cases h1 : (!t.contains x) = true
      · have h2 := hiff.mpr h1
        simp only [h1, h2, if_true]; omega
      · have h2 : ¬ ((!(c :: t).contains x) = true) := fun h => h1 (hiff.mp h)
        simp only [h1, h2]; omega

structure PushSpec (EB : List Entry) (cs : List Hash) (s0 t0 : List Hash) (r : List Hash × List Hash) : Prop where
  travMono : ∀ x ∈ t0, x ∈ r.2
  stackMono : ∀ x ∈ s0, x ∈ r.1
  marked : ∀ c ∈ cs, has EB c = false → c ∈ r.2
  stackNew : ∀ x ∈ r.1, x ∈ s0 ∨ (x ∈ cs ∧ has EB x = false)
  travNew : ∀ x ∈ r.2, x ∈ t0 ∨ x ∈ r.1

theorem diffPush_spec (EB : List Entry) : ∀ (cs : List Hash) (s0 t0 : List Hash),
    PushSpec EB cs s0 t0 (cs.foldl (diffPush EB) (s0, t0)) := by
  intro cs
  induction cs with
  | nil =>
    intro s0 t0
    exact { travMono := fun x h => h, stackMono := fun x h => h, marked := by simp,
            stackNew := fun x h => Or.inl h, travNew := fun x h => Or.inl h }
  | cons c cs ih =>
    intro s0 t0
    rw [List.foldl_cons]
    have hstep : diffPush EB (s0, t0) c = if (!(s0, t0).2.contains c && !has EB c) = true then (s0 ++ [c], c :: t0) else (s0, t0) := rfl
    rw [hstep]
    by_cases hcond : (!(s0, t0).2.contains c && !has EB c) = true
    · simp only [hcond, if_true]
      have hh : has EB c = false := by simp at hcond; exact hcond.2
      have P := ih (s0 ++ [c]) (c :: t0)
      exact {
        travMono := fun x h => P.travMono x (List.mem_cons_of_mem _ h)
        stackMono := fun x h => P.stackMono x (List.mem_append_left _ h)
        marked := by
          intro x hx hb
          cases hx with
          | head => exact P.travMono _ (by simp)
          | tail _ hm => exact P.marked x hm hb
        stackNew := by
          intro x hx
          rcases P.stackNew x hx with h1 | ⟨h1, h2⟩
          · rw [List.mem_append] at h1
            rcases h1 with h1 | h1
            · exact Or.inl h1
            · simp at h1; subst h1; exact Or.inr ⟨by simp, hh⟩
          · exact Or.inr ⟨List.mem_cons_of_mem _ h1, h2⟩
        travNew := by
          intro x hx
          rcases P.travNew x hx with h1 | h1
          · cases h1 with
            | head => exact Or.inr (P.stackMono _ (by simp))
            | tail _ hm => exact Or.inl hm
          · exact Or.inr h1 }
    · simp only [hcond]
      have P := ih s0 t0
      exact {
        travMono := P.travMono
        stackMono := P.stackMono
        marked := by
          intro x hx hb
          cases hx with
          | head =>
            have : (s0, t0).2.contains c = true := by
              simp only [Bool.and_eq_true, Bool.not_eq_true', not_and, Bool.not_eq_false] at hcond
              cases hcc : (s0, t0).2.contains c with
              | true => rfl
              | false => have := hcond hcc; rw [hb] at this; cases this
            exact P.travMono c (List.contains_iff_mem.mp this)
          | tail _ hm => exact P.marked x hm hb
        stackNew := by
          intro x hx
          rcases P.stackNew x hx with h1 | ⟨h1, h2⟩
          · exact Or.inl h1
          · exact Or.inr ⟨List.mem_cons_of_mem _ h1, h2⟩
        travNew := P.travNew }

/-- the measure does not grow through the push loop -/
theorem diffPush_measure (EB : List Entry) (L : List Hash) : ∀ (cs : List Hash) (s0 t0 : List Hash),
    (∀ c ∈ cs, c ∈ L) →
    (cs.foldl (diffPush EB) (s0, t0)).1.length + unmarked L (cs.foldl (diffPush EB) (s0, t0)).2
      ≤ s0.length + unmarked L t0 := by
  intro cs
  induction cs with
  | nil => intro s0 t0 _; exact Nat.le_refl _
  | cons c cs ih =>
    intro s0 t0 hL
    rw [List.foldl_cons]
    have hstep : diffPush EB (s0, t0) c = if (!(s0, t0).2.contains c && !has EB c) = true then (s0 ++ [c], c :: t0) else (s0, t0) := rfl
    rw [hstep]
    by_cases hcond : (!(s0, t0).2.contains c && !has EB c) = true
    · simp only [hcond, if_true]
      have hnt : c ∉ t0 := by
        simp only [Bool.and_eq_true, Bool.not_eq_true'] at hcond
        intro hm
        have := List.contains_iff_mem.mpr hm
        rw [hcond.1] at this; cases this
      have h1 := ih (s0 ++ [c]) (c :: t0) (fun x hx => hL x (List.mem_cons_of_mem _ hx))
      have h2 := unmarked_cons_lt L t0 c (hL c (by simp)) hnt
      simp only [List.length_append, List.length_singleton] at h1
      omega
    · simp only [hcond]
      exact ih s0 t0 (fun x hx => hL x (List.mem_cons_of_mem _ hx))

/-! ## the worklist invariant -/

/-- `h` would be processed when popped -/
def aliveH (EA EB : List Entry) (idB : Bytes) (h : Hash) : Prop :=
  ∃ eA, get? EA h = some eA ∧ has EB h = false ∧ eA.logId = idB

def doneH (EA EB : List Entry) (idB : Bytes) (res : List Entry) (h : Hash) : Prop :=
  (∃ r ∈ res, r.hash = h) ∨ ¬ aliveH EA EB idB h

structure DInv (EA EB : List Entry) (idB : Bytes) (roots : List Hash)
    (stack trav : List Hash) (res : List Entry) : Prop where
  sound : ∀ r ∈ res, r ∈ EA ∧ has EB r.hash = false ∧ r.logId = idB
  kids : ∀ r ∈ res, ∀ c ∈ r.next, has EB c = false → c ∈ trav
  travDone : ∀ h ∈ trav, h ∈ stack ∨ doneH EA EB idB res h
  rootsDone : ∀ h ∈ roots, h ∈ stack ∨ doneH EA EB idB res h
  nodup : (hashes res).Nodup

theorem doneH_mono {EA EB : List Entry} {idB : Bytes} {res res' : List Entry} {h : Hash}
    (hs : ∀ r ∈ res, r ∈ res') (hd : doneH EA EB idB res h) : doneH EA EB idB res' h := by
  rcases hd with ⟨r, hr, hh⟩ | hd
  · exact Or.inl ⟨r, hs r hr, hh⟩
  · exact Or.inr hd

theorem diffLoop_spec (EA EB : List Entry) (idB : Bytes) (roots : List Hash) :
    ∀ (fuel : Nat) (stack trav : List Hash) (res : List Entry),
      DInv EA EB idB roots stack trav res →
      stack.length + unmarked (EA.flatMap (·.next)) trav < fuel →
      ∃ trav', DInv EA EB idB roots [] trav' (diffLoop EA EB idB fuel stack trav res)
  | 0, _, _, _, _, h => by omega
  | fuel + 1, [], trav, res, I, _ => ⟨trav, by simpa [diffLoop] using I⟩
  | fuel + 1, h :: stack, trav, res, I, hm => by
    unfold diffLoop
    cases hg : get? EA h with
    | none =>
      simp only
      have hdead : ¬ aliveH EA EB idB h := by
        rintro ⟨eA, hgA, _⟩; rw [hg] at hgA; cases hgA
      refine diffLoop_spec EA EB idB roots fuel stack trav res ?_ (by simp at hm; omega)
      exact {
        sound := I.sound, kids := I.kids, nodup := I.nodup
        travDone := by
          intro x hx
          rcases I.travDone x hx with h1 | h1
          · cases h1 with
            | head => exact Or.inr (Or.inr hdead)
            | tail _ hm' => exact Or.inl hm'
          · exact Or.inr h1
        rootsDone := by
          intro x hx
          rcases I.rootsDone x hx with h1 | h1
          · cases h1 with
            | head => exact Or.inr (Or.inr hdead)
            | tail _ hm' => exact Or.inl hm'
          · exact Or.inr h1 }
    | some eA =>
      simp only
      by_cases hcond : (!has EB h && eA.logId == idB) = true
      · simp only [hcond, if_true]
        have hB : has EB h = false := by simp at hcond; exact hcond.1
        have hid : eA.logId = idB := by simp at hcond; exact hcond.2
        obtain ⟨heA, hhash⟩ := get?_mem hg
        obtain ⟨trav', htdef⟩ : ∃ t, t = (if trav.contains h then trav else h :: trav) := ⟨_, rfl⟩
        rw [← htdef]
        have htrav' : ∀ x, x ∈ trav' ↔ x = h ∨ x ∈ trav := by
          intro x
          rw [htdef]
          split
          · rename_i hc
            have := List.contains_iff_mem.mp hc
            constructor
            · exact Or.inr
            · rintro (h1 | h1)
              · subst h1; exact this
              · exact h1
          · simp
        have hunm : unmarked (EA.flatMap (·.next)) trav' ≤ unmarked (EA.flatMap (·.next)) trav := by
          rw [htdef]
          split
          · exact Nat.le_refl _
          · exact unmarked_cons_le _ _ _
        have P := diffPush_spec EB eA.next stack trav'
        have hmeas := diffPush_measure EB (EA.flatMap (·.next)) eA.next stack trav'
          (fun c hc => List.mem_flatMap.mpr ⟨eA, heA, hc⟩)
        have hres_sub : ∀ r ∈ res, r ∈ omSet res eA := fun r hr => subset_omSet hr
        have heA_res : ∃ r ∈ omSet res eA, r.hash = h := by
          cases hh : has res eA.hash with
          | true =>
            obtain ⟨r, hr, hrh⟩ := has_iff.mp hh
            exact ⟨r, subset_omSet hr, by rw [hrh, hhash]⟩
          | false => exact ⟨eA, mem_omSet.mpr (Or.inr ⟨rfl, hh⟩), hhash⟩
        refine diffLoop_spec EA EB idB roots fuel _ _ _ ?_ ?_
        · exact {
            sound := by
              intro r hr
              rcases mem_omSet.mp hr with h1 | ⟨h1, _⟩
              · exact I.sound r h1
              · subst h1; exact ⟨heA, by rw [hhash]; exact hB, hid⟩
            kids := by
              intro r hr c hc hb
              rcases mem_omSet.mp hr with h1 | ⟨h1, _⟩
              · exact P.travMono c ((htrav' c).mpr (Or.inr (I.kids r h1 c hc hb)))
              · subst h1; exact P.marked c hc hb
            travDone := by
              intro x hx
              rcases P.travNew x hx with h1 | h1
              · rcases (htrav' x).mp h1 with h2 | h2
                · subst h2; exact Or.inr (Or.inl heA_res)
                · rcases I.travDone x h2 with h3 | h3
                  · cases h3 with
                    | head => exact Or.inr (Or.inl heA_res)
                    | tail _ hm' => exact Or.inl (P.stackMono x hm')
                  · exact Or.inr (doneH_mono hres_sub h3)
              · exact Or.inl h1
            rootsDone := by
              intro x hx
              rcases I.rootsDone x hx with h3 | h3
              · cases h3 with
                | head => exact Or.inr (Or.inl heA_res)
                | tail _ hm' => exact Or.inl (P.stackMono x hm')
              · exact Or.inr (doneH_mono hres_sub h3)
            nodup := nodup_omSet I.nodup }
        · simp only [List.length_cons] at hm
          omega
      · simp only [hcond]
        have hdead : ¬ aliveH EA EB idB h := by
          rintro ⟨eA', hgA, hb, hi⟩
          rw [hg] at hgA
          have : eA = eA' := Option.some.inj hgA
          subst this
          apply hcond
          simp [hb, hi]
        refine diffLoop_spec EA EB idB roots fuel stack trav res ?_ (by simp at hm; omega)
        exact {
          sound := I.sound, kids := I.kids, nodup := I.nodup
          travDone := by
            intro x hx
            rcases I.travDone x hx with h1 | h1
            · cases h1 with
              | head => exact Or.inr (Or.inr hdead)
              | tail _ hm' => exact Or.inl hm'
            · exact Or.inr h1
          rootsDone := by
            intro x hx
            rcases I.rootsDone x hx with h1 | h1
            · cases h1 with
              | head => exact Or.inr (Or.inr hdead)
              | tail _ hm' => exact Or.inl hm'
            · exact Or.inr h1 }

/-- entries reachable from a root through entries that are all processed when popped -/
inductive AlivePath (EA EB : List Entry) (idB : Bytes) (roots : List Hash) : Entry → Prop
  | root {h : Hash} {e : Entry} : h ∈ roots → get? EA h = some e → has EB h = false → e.logId = idB →
      AlivePath EA EB idB roots e
  | step {e' e : Entry} {c : Hash} : AlivePath EA EB idB roots e' → c ∈ e'.next → get? EA c = some e →
      has EB c = false → e.logId = idB → AlivePath EA EB idB roots e

theorem alivePath_in_result {EA EB : List Entry} {idB : Bytes} {roots trav : List Hash} {res : List Entry}
    (hEA : (hashes EA).Nodup) (I : DInv EA EB idB roots [] trav res) {e : Entry}
    (hp : AlivePath EA EB idB roots e) : e ∈ res := by
  induction hp with
  | @root h e hr hg hb hi =>
    have halive : aliveH EA EB idB h := ⟨e, hg, hb, hi⟩
    rcases I.rootsDone h hr with h1 | h1
    · cases h1
    · rcases h1 with ⟨r, hr', hrh⟩ | h1
      · have : r = e := eq_of_hash_eq hEA (I.sound r hr').1 (get?_mem hg).1 (by rw [hrh, (get?_mem hg).2])
        exact this ▸ hr'
      · exact absurd halive h1
  | @step e' e c _ hc hg hb hi ih =>
    have halive : aliveH EA EB idB c := ⟨e, hg, hb, hi⟩
    have hct := I.kids e' ih c hc hb
    rcases I.travDone c hct with h1 | h1
    · cases h1
    · rcases h1 with ⟨r, hr', hrh⟩ | h1
      · have : r = e := eq_of_hash_eq hEA (I.sound r hr').1 (get?_mem hg).1 (by rw [hrh, (get?_mem hg).2])
        exact this ▸ hr'
      · exact absurd halive h1

/-- what `difference` returns, for any inputs: sound, duplicate-free, and complete for alive paths -/
theorem difference_general (EA HA : List Entry) (l : Log) (hEA : (hashes EA).Nodup) :
    (∀ r ∈ difference EA HA l, r ∈ EA ∧ has l.entries r.hash = false ∧ r.logId = l.id) ∧
    (hashes (difference EA HA l)).Nodup ∧
    (∀ e, AlivePath EA l.entries l.id (HA.map (·.hash)) e → e ∈ difference EA HA l) := by
  unfold difference
  split
  · rename_i hz
    refine ⟨by simp, by simp [hashes], ?_⟩
    intro e hp
    exfalso
    rcases hz with hz | hz
    · have : EA = [] := List.eq_nil_of_length_eq_zero hz
      cases hp with
      | root _ hg _ _ => rw [this] at hg; simp [get?] at hg
      | step _ _ hg _ _ => rw [this] at hg; simp [get?] at hg
    · have : HA = [] := List.eq_nil_of_length_eq_zero hz
      subst this
      induction hp with
      | root hr _ _ _ => simp at hr
      | step _ _ _ _ _ ih => exact ih
  · have I0 : DInv EA l.entries l.id (HA.map (·.hash)) (HA.map (·.hash)) [] [] := {
      sound := by simp, kids := by simp, travDone := by simp
      rootsDone := fun h hh => Or.inl hh, nodup := by simp [hashes] }
    have hf : (HA.map (·.hash)).length + unmarked (EA.flatMap (·.next)) [] < diffFuel EA HA := by
      unfold diffFuel unmarked
      have := List.countP_le_length (p := fun c => !([] : List Hash).contains c) (l := EA.flatMap (·.next))
      simp only [List.length_map]
      omega
    obtain ⟨trav', I⟩ := diffLoop_spec EA l.entries l.id (HA.map (·.hash)) _ _ _ _ I0 hf
    exact ⟨I.sound, I.nodup, fun e hp => alivePath_in_result hEA I hp⟩

end Model
