import Proofs.ConcLog
/-!
# Proofs.ConcJoin — what a merge has read from the other log (C14)

`past init evs n` is the state of a log after its first `n` events.  The ghost registers `hsAt`,
`esAt` say from which log and after how many of its events `hs` / `es` were read; `ReadsOK` says
that they really hold the heads / entries of that past state.  `JoinPos` follows a thread through
`joinProg` and shows that the heads were read no later than the entries.
-/
namespace Model.Conc
open Model

/-- the state of a log after its first (oldest) `n` events; `evs` is newest first -/
def past (init : Log) (evs : List Ev) (n : Nat) : Log := replay init (evs.drop (evs.length - n))

theorem past_cons (init : Log) (e : Ev) (evs : List Ev) {n : Nat} (h : n ≤ evs.length) :
    past init (e :: evs) n = past init evs n := by
  unfold past
  have : (e :: evs).length - n = (evs.length - n) + 1 := by simp only [List.length_cons]; omega
  rw [this, List.drop_succ_cons]

theorem past_full (init : Log) (evs : List Ev) : past init evs evs.length = replay init evs := by
  simp [past]

/-- later past states contain earlier ones when nothing removes entries -/
theorem past_grows (init : Log) (evs : List Ev) (hu : ∀ t op r, Ev.wr t op r ∈ evs → op.unbounded)
    {a b : Nat} (hab : a ≤ b) (hb : b ≤ evs.length) :
    ∀ x ∈ (past init evs a).entries, x ∈ (past init evs b).entries := by
  unfold past
  have hsplit : evs.drop (evs.length - b) = (evs.drop (evs.length - b)).take (b - a) ++ evs.drop (evs.length - a) := by
    have h1 := (List.take_append_drop (b - a) (evs.drop (evs.length - b))).symm
    rw [List.drop_drop] at h1
    have : evs.length - b + (b - a) = evs.length - a := by omega
    rw [this] at h1; exact h1
  intro x hx
  rw [hsplit]
  apply replay_grows _ _ _ _ x hx
  intro t op r hm
  exact hu t op r (List.mem_of_mem_drop (List.mem_of_mem_take hm))

/-! ## Thread-local view of a step -/

/-- the registers of thread `t` after it has executed `i` in `w` -/
def regsAfter (w : World) (t : Tid) : Instr → Regs
  | .readHeads l => { (w.thr t).regs with hs := (w.logs l).heads, hsAt := some (l, (w.ev l).length) }
  | .readEntries l => { (w.thr t).regs with es := (w.logs l).entries, esAt := some (l, (w.ev l).length) }
  | .observe l => { (w.thr t).regs with obs := (w.thr t).regs.obs ++ [seenOf (w.logs l)] }
  | .write l op => (applyW op (w.thr t).regs (w.logs l)).2
  | _ => (w.thr t).regs

theorem step_self {w w' : World} {t : Tid} (h : step w t = some w') :
    (w'.thr t = w.thr t ∧ w'.ev = w.ev) ∨
    ∃ i rest, (w.thr t).rest = i :: rest ∧ (w'.thr t).rest = rest ∧ (w'.thr t).regs = regsAfter w t i := by
  have hs := step_sound h
  cases hs with
  | lockAnnounce l rest hr hw hrd hp => exact Or.inl ⟨rfl, rfl⟩
  | hook p rest hr => exact Or.inr ⟨_, rest, hr, by simp, by simp [regsAfter]⟩
  | rlock l rest hr hw hp => exact Or.inr ⟨_, rest, hr, by simp, by simp [regsAfter]⟩
  | runlock l rest hr hm => exact Or.inr ⟨_, rest, hr, by simp, by simp [regsAfter]⟩
  | lockAcq l rest hr hw hrd hp => exact Or.inr ⟨_, rest, hr, by simp, by simp [regsAfter]⟩
  | unlock l rest hr hw => exact Or.inr ⟨_, rest, hr, by simp, by simp [regsAfter]⟩
  | readHeads l rest hr => exact Or.inr ⟨_, rest, hr, by simp, by simp [regsAfter]⟩
  | readEntries l rest hr => exact Or.inr ⟨_, rest, hr, by simp, by simp [regsAfter]⟩
  | observe l rest hr => exact Or.inr ⟨_, rest, hr, by simp, by simp [regsAfter]⟩
  | write l op rest hr => exact Or.inr ⟨_, rest, hr, by simp, by simp [regsAfter]⟩

theorem step_other {w w' : World} {t u : Tid} (h : step w t = some w') (hu : u ≠ t) : w'.thr u = w.thr u := by
  have hs := step_sound h
  cases hs <;> first | rfl | exact upd_other _ _ hu

/-- the event lists only grow, one event at a time -/
theorem step_ev {w w' : World} {t : Tid} (h : step w t = some w') (l : Lid) :
    w'.ev l = w.ev l ∨ ∃ e, w'.ev l = e :: w.ev l := by
  have hs := step_sound h
  cases hs with
  | lockAcq l' rest hr hw hrd hp =>
    by_cases hl : l = l'
    · subst hl; exact Or.inr ⟨_, upd_same _ _ _⟩
    · exact Or.inl (upd_other _ _ hl)
  | unlock l' rest hr hw =>
    by_cases hl : l = l'
    · subst hl; exact Or.inr ⟨_, upd_same _ _ _⟩
    · exact Or.inl (upd_other _ _ hl)
  | write l' op rest hr =>
    by_cases hl : l = l'
    · subst hl; exact Or.inr ⟨_, upd_same _ _ _⟩
    · exact Or.inl (upd_other _ _ hl)
  | _ => exact Or.inl rfl

/-- a newly recorded critical section is the stepping thread's `write`, with its registers -/
theorem step_ev_wr {w w' : World} {t : Tid} (h : step w t = some w') {l : Lid} {u : Tid} {op : WOp} {r : Regs}
    (hm : Ev.wr u op r ∈ w'.ev l) :
    Ev.wr u op r ∈ w.ev l ∨ (u = t ∧ r = (w.thr t).regs ∧ ∃ rest, (w.thr t).rest = .write l op :: rest) := by
  have hs := step_sound h
  cases hs with
  | lockAcq l' rest hr hw hrd hp =>
    by_cases hl : l = l'
    · subst hl; simp at hm; exact Or.inl hm
    · simp only [upd_other _ _ hl] at hm; exact Or.inl hm
  | unlock l' rest hr hw =>
    by_cases hl : l = l'
    · subst hl; simp at hm; exact Or.inl hm
    · simp only [upd_other _ _ hl] at hm; exact Or.inl hm
  | write l' op' rest hr =>
    by_cases hl : l = l'
    · subst hl
      simp only [upd_same, List.mem_cons] at hm
      rcases hm with h1 | h1
      · injection h1 with h1 h2 h3; subst h1; subst h2; subst h3
        exact Or.inr ⟨rfl, rfl, rest, hr⟩
      · exact Or.inl h1
    · simp only [upd_other _ _ hl] at hm; exact Or.inl hm
  | _ => exact Or.inl hm

/-! ## What the registers hold -/

/-- the heads / entries registers hold what the named log had after the named number of events -/
def RegsAt (init : Lid → Log) (ev : Lid → List Ev) (r : Regs) : Prop :=
  (∀ l n, r.hsAt = some (l, n) → n ≤ (ev l).length ∧ r.hs = (past (init l) (ev l) n).heads) ∧
  (∀ l n, r.esAt = some (l, n) → n ≤ (ev l).length ∧ r.es = (past (init l) (ev l) n).entries)

theorem regsAt_mono {init : Lid → Log} {ev ev' : Lid → List Ev} {r : Regs}
    (hev : ∀ l, ev' l = ev l ∨ ∃ e, ev' l = e :: ev l) (h : RegsAt init ev r) : RegsAt init ev' r := by
  constructor
  · intro l n hn
    obtain ⟨h1, h2⟩ := h.1 l n hn
    rcases hev l with he | ⟨e, he⟩
    · rw [he]; exact ⟨h1, h2⟩
    · rw [he, past_cons _ _ _ h1]; exact ⟨by simp only [List.length_cons]; omega, h2⟩
  · intro l n hn
    obtain ⟨h1, h2⟩ := h.2 l n hn
    rcases hev l with he | ⟨e, he⟩
    · rw [he]; exact ⟨h1, h2⟩
    · rw [he, past_cons _ _ _ h1]; exact ⟨by simp only [List.length_cons]; omega, h2⟩

theorem regsAt_congr {init : Lid → Log} {ev : Lid → List Ev} {r r' : Regs}
    (h1 : r'.hs = r.hs) (h2 : r'.es = r.es) (h3 : r'.hsAt = r.hsAt) (h4 : r'.esAt = r.esAt)
    (h : RegsAt init ev r) : RegsAt init ev r' := by
  unfold RegsAt; rw [h1, h2, h3, h4]; exact h

structure ReadsOK (w0 w : World) : Prop where
  thr : ∀ t, RegsAt w0.logs w.ev (w.thr t).regs
  evs : ∀ l t op r, Ev.wr t op r ∈ w.ev l → RegsAt w0.logs w.ev r

theorem regsAfter_at {w0 w : World} (hR : Rep w0.logs w) {t : Tid} (h : RegsAt w0.logs w.ev (w.thr t).regs)
    (i : Instr) : RegsAt w0.logs w.ev (regsAfter w t i) := by
  cases i with
  | readHeads l =>
    constructor
    · intro l' n hn
      simp only [regsAfter] at hn ⊢
      injection hn with hn; injection hn with h1 h2; subst h1; subst h2
      exact ⟨Nat.le_refl _, by rw [past_full, ← hR l]⟩
    · intro l' n hn; exact h.2 l' n hn
  | readEntries l =>
    constructor
    · intro l' n hn; exact h.1 l' n hn
    · intro l' n hn
      simp only [regsAfter] at hn ⊢
      injection hn with hn; injection hn with h1 h2; subst h1; subst h2
      exact ⟨Nat.le_refl _, by rw [past_full, ← hR l]⟩
  | observe l => exact regsAt_congr rfl rfl rfl rfl h
  | write l op =>
    obtain ⟨h1, h2, h3, h4, _⟩ := applyW_regs op (w.thr t).regs (w.logs l)
    exact regsAt_congr h1 h2 h3 h4 h
  | _ => exact h

theorem step_readsOK {w0 w w' : World} {t : Tid} (hR : Rep w0.logs w) (hO : ReadsOK w0 w)
    (h : step w t = some w') : ReadsOK w0 w' := by
  have hev := step_ev h
  constructor
  · intro u
    apply regsAt_mono hev
    by_cases hu : u = t
    · subst hu
      rcases step_self h with ⟨h1, _⟩ | ⟨i, rest, _, _, h3⟩
      · rw [h1]; exact hO.thr u
      · rw [h3]; exact regsAfter_at hR (hO.thr u) i
    · rw [step_other h hu]; exact hO.thr u
  · intro l u op r hm
    apply regsAt_mono hev
    rcases step_ev_wr h hm with h1 | ⟨_, h2, _⟩
    · exact hO.evs l u op r h1
    · rw [h2]; exact hO.thr t

theorem readsOK_init {w0 : World} (hI : Init w0) (hr : ∀ t, (w0.thr t).regs.hsAt = none ∧ (w0.thr t).regs.esAt = none) :
    ReadsOK w0 w0 := by
  constructor
  · intro t
    constructor
    · intro l n hn; rw [(hr t).1] at hn; cases hn
    · intro l n hn; rw [(hr t).2] at hn; cases hn
  · intro l t op r hm; rw [hI.ev l] at hm; cases hm


/-! ## Following a thread through `joinProg` -/

/-- the heads were read from `src` no later than the entries -/
def JoinAt (src : Lid) (r : Regs) : Prop :=
  ∃ a b, r.hsAt = some (src, a) ∧ r.esAt = some (src, b) ∧ a ≤ b

/-- how far thread-local state `th` has got in `prog = joinProg ..` and what it has read so far;
    `len` = number of events of the source log -/
def JoinPosAt (prog : List Instr) (src : Lid) (len : Nat) (th : Thread) : Prop :=
  ∃ n, th.rest = prog.drop n ∧
    (4 ≤ n → ∃ a, th.regs.hsAt = some (src, a) ∧ a ≤ len) ∧ (8 ≤ n → JoinAt src th.regs)

theorem joinPos_advance {dst src : Lid} {id : Bytes} {size : Int} {w : World} {t : Tid}
    {i : Instr} {rest : List Instr}
    (hp : JoinPosAt (joinProg dst src id size) src (w.ev src).length (w.thr t))
    (hr : (w.thr t).rest = i :: rest) :
    JoinPosAt (joinProg dst src id size) src (w.ev src).length { rest := rest, regs := regsAfter w t i } ∧
    (∀ l op, i = .write l op → JoinAt src (w.thr t).regs) := by
  obtain ⟨n, hn, h4, h8⟩ := hp
  rw [hr] at hn
  match n, hn, h4, h8 with
  | 0, hn, h4, h8 =>
    simp [joinProg] at hn; obtain ⟨rfl, rfl⟩ := hn
    exact ⟨⟨1, by simp [joinProg], fun h => absurd h (by omega), fun h => absurd h (by omega)⟩, fun _ _ h => by cases h⟩
  | 1, hn, h4, h8 =>
    simp [joinProg] at hn; obtain ⟨rfl, rfl⟩ := hn
    exact ⟨⟨2, by simp [joinProg], fun h => absurd h (by omega), fun h => absurd h (by omega)⟩, fun _ _ h => by cases h⟩
  | 2, hn, h4, h8 =>
    simp [joinProg] at hn; obtain ⟨rfl, rfl⟩ := hn
    exact ⟨⟨3, by simp [joinProg], fun h => absurd h (by omega), fun h => absurd h (by omega)⟩, fun _ _ h => by cases h⟩
  | 3, hn, h4, h8 =>
    simp [joinProg] at hn; obtain ⟨rfl, rfl⟩ := hn
    exact ⟨⟨4, by simp [joinProg], fun _ => ⟨_, by simp [regsAfter], Nat.le_refl _⟩, fun h => absurd h (by omega)⟩, fun _ _ h => by cases h⟩
  | 4, hn, h4, h8 =>
    simp [joinProg] at hn; obtain ⟨rfl, rfl⟩ := hn
    exact ⟨⟨5, by simp [joinProg], fun _ => by simpa [regsAfter] using h4 (by omega), fun h => absurd h (by omega)⟩, fun _ _ h => by cases h⟩
  | 5, hn, h4, h8 =>
    simp [joinProg] at hn; obtain ⟨rfl, rfl⟩ := hn
    exact ⟨⟨6, by simp [joinProg], fun _ => by simpa [regsAfter] using h4 (by omega), fun h => absurd h (by omega)⟩, fun _ _ h => by cases h⟩
  | 6, hn, h4, h8 =>
    simp [joinProg] at hn; obtain ⟨rfl, rfl⟩ := hn
    exact ⟨⟨7, by simp [joinProg], fun _ => by simpa [regsAfter] using h4 (by omega), fun h => absurd h (by omega)⟩, fun _ _ h => by cases h⟩
  | 7, hn, h4, h8 =>
    simp [joinProg] at hn; obtain ⟨rfl, rfl⟩ := hn
    obtain ⟨a, ha, hle⟩ := h4 (by omega)
    exact ⟨⟨8, by simp [joinProg], fun _ => ⟨a, by simp [regsAfter, ha], hle⟩,
      fun _ => ⟨a, (w.ev src).length, by simp [regsAfter, ha], by simp [regsAfter], hle⟩⟩, fun _ _ h => by cases h⟩
  | 8, hn, h4, h8 =>
    simp [joinProg] at hn; obtain ⟨rfl, rfl⟩ := hn
    exact ⟨⟨9, by simp [joinProg], fun _ => by simpa [regsAfter] using h4 (by omega), fun _ => by simpa [regsAfter, JoinAt] using h8 (by omega)⟩, fun _ _ h => by cases h⟩
  | 9, hn, h4, h8 =>
    simp [joinProg] at hn; obtain ⟨rfl, rfl⟩ := hn
    exact ⟨⟨10, by simp [joinProg], fun _ => by simpa [regsAfter] using h4 (by omega), fun _ => by simpa [regsAfter, JoinAt] using h8 (by omega)⟩, fun _ _ h => by cases h⟩
  | 10, hn, h4, h8 =>
    simp [joinProg] at hn; obtain ⟨rfl, rfl⟩ := hn
    exact ⟨⟨11, by simp [joinProg], fun _ => by simpa [regsAfter] using h4 (by omega), fun _ => by simpa [regsAfter, JoinAt] using h8 (by omega)⟩, fun _ _ h => by cases h⟩
  | 11, hn, h4, h8 =>
    simp [joinProg] at hn; obtain ⟨rfl, rfl⟩ := hn
    exact ⟨⟨12, by simp [joinProg], fun _ => by simpa [regsAfter] using h4 (by omega), fun _ => by simpa [regsAfter, JoinAt] using h8 (by omega)⟩, fun _ _ h => by cases h⟩
  | 12, hn, h4, h8 =>
    simp [joinProg] at hn; obtain ⟨rfl, rfl⟩ := hn
    exact ⟨⟨13, by simp [joinProg], fun _ => by simpa [regsAfter] using h4 (by omega), fun _ => by simpa [regsAfter, JoinAt] using h8 (by omega)⟩, fun _ _ h => by cases h⟩
  | 13, hn, h4, h8 =>
    simp [joinProg] at hn; obtain ⟨rfl, rfl⟩ := hn
    obtain ⟨_, _, e3, e4, _⟩ := applyW_regs (.join id size) (w.thr t).regs (w.logs dst)
    have h4' := h4 (by omega)
    have h8' := h8 (by omega)
    refine ⟨⟨14, by simp [joinProg], fun _ => ?_, fun _ => ?_⟩, fun _ _ _ => h8'⟩
    · simp only [regsAfter]; rw [e3]; exact h4'
    · simp only [regsAfter, JoinAt]; rw [e3, e4]; exact h8'
  | 14, hn, h4, h8 =>
    simp [joinProg] at hn; obtain ⟨rfl, rfl⟩ := hn
    exact ⟨⟨15, by simp [joinProg], fun _ => by simpa [regsAfter] using h4 (by omega), fun _ => by simpa [regsAfter, JoinAt] using h8 (by omega)⟩, fun _ _ h => by cases h⟩
  | n + 15, hn, _, _ => simp [joinProg] at hn


theorem joinPosAt_len {prog : List Instr} {src : Lid} {len len' : Nat} {th : Thread} (hl : len ≤ len')
    (h : JoinPosAt prog src len th) : JoinPosAt prog src len' th := by
  obtain ⟨n, h1, h2, h3⟩ := h
  exact ⟨n, h1, fun hn => by obtain ⟨a, ha, hle⟩ := h2 hn; exact ⟨a, ha, by omega⟩, h3⟩

theorem joinPosAt_congr {prog : List Instr} {src : Lid} {len : Nat} {th th' : Thread}
    (h1 : th'.rest = th.rest) (h2 : th'.regs = th.regs) (h : JoinPosAt prog src len th) :
    JoinPosAt prog src len th' := by
  unfold JoinPosAt; rw [h1, h2]; exact h

/-- thread `t` runs `joinProg dst src id size`: its position, and what its recorded critical
    sections had read -/
structure JoinInv (w : World) (t : Tid) (dst src : Lid) (id : Bytes) (size : Int) : Prop where
  pos : JoinPosAt (joinProg dst src id size) src (w.ev src).length (w.thr t)
  evs : ∀ l op r, Ev.wr t op r ∈ w.ev l → JoinAt src r

theorem ev_len_le {w w' : World} {u : Tid} (h : step w u = some w') (l : Lid) :
    (w.ev l).length ≤ (w'.ev l).length := by
  rcases step_ev h l with he | ⟨e, he⟩ <;> rw [he] <;> simp

theorem step_joinInv {w w' : World} {t u : Tid} {dst src : Lid} {id : Bytes} {size : Int}
    (hJ : JoinInv w t dst src id size) (h : step w u = some w') : JoinInv w' t dst src id size := by
  have hlen := ev_len_le h src
  by_cases hu : u = t
  · subst hu
    rcases step_self h with ⟨h1, h1e⟩ | ⟨i, rest, hr, h2, h3⟩
    · constructor
      · rw [h1]; exact joinPosAt_len hlen hJ.pos
      · intro l op r hm
        rw [h1e] at hm; exact hJ.evs l op r hm
    · obtain ⟨hadv, hwr⟩ := joinPos_advance hJ.pos hr
      constructor
      · exact joinPosAt_len hlen (joinPosAt_congr (th := { rest := rest, regs := regsAfter w u i }) h2 h3 hadv)
      · intro l op r hm
        rcases step_ev_wr h hm with h4 | ⟨_, hreg, rest', hr'⟩
        · exact hJ.evs l op r h4
        · rw [hr] at hr'; injection hr' with h5 _
          rw [hreg]; exact hwr l op h5
  · constructor
    · rw [step_other h (fun e => hu e.symm)]; exact joinPosAt_len hlen hJ.pos
    · intro l op r hm
      rcases step_ev_wr h hm with h4 | ⟨h5, _, _⟩
      · exact hJ.evs l op r h4
      · exact absurd h5.symm hu

theorem joinInv_init {w0 : World} {t : Tid} {dst src : Lid} {id : Bytes} {size : Int}
    (hev : ∀ l, w0.ev l = []) (hp : (w0.thr t).rest = joinProg dst src id size) :
    JoinInv w0 t dst src id size :=
  ⟨⟨0, by simp [hp], fun h => absurd h (by omega), fun h => absurd h (by omega)⟩,
   fun l op r hm => by rw [hev l] at hm; cases hm⟩

end Model.Conc
