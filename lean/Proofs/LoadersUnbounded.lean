import Model.Loaders
import Proofs.Sort
/-!
# Proofs.LoadersUnbounded — the four loaders of `Model.Loaders` without a length limit

With `n = -1` no loader trims: the loaded log's entry map is the fetched list (manifest, entry hash),
the fetched list sorted by clock (JSON), or the de-duplicated union of the supplied and the fetched
entries sorted by clock (entries).  In every case the *set of hashes* is that of the fetch result, and
the log id is the one the loader was given (the last entry's log id for `NewFromEntry`).
-/
namespace Model

theorem fhas_iff (E : List Entry) (h : Hash) : has E h = true ↔ h ∈ hashes E := by
  unfold has hashes
  simp only [List.any_eq_true, List.mem_map, beq_iff_eq]

theorem any_hash_iff (E : List Entry) (e : Entry) :
    E.any (fun r => r.hash == e.hash) = true ↔ e.hash ∈ hashes E := fhas_iff E e.hash

theorem hashes_append (a b : List Entry) : hashes (a ++ b) = hashes a ++ hashes b := by
  unfold hashes; simp

theorem mem_hashes_omSet (E : List Entry) (e : Entry) (h : Hash) :
    h ∈ hashes (omSet E e) ↔ h ∈ hashes E ∨ h = e.hash := by
  unfold omSet
  split
  · rename_i hc
    have := (any_hash_iff E e).mp hc
    constructor
    · exact Or.inl
    · rintro (h1 | h1)
      · exact h1
      · rw [h1]; exact this
  · rw [hashes_append, List.mem_append]
    simp [hashes]

theorem nodup_hashes_omSet (E : List Entry) (e : Entry) (hn : (hashes E).Nodup) : (hashes (omSet E e)).Nodup := by
  unfold omSet
  split
  · exact hn
  · rename_i hc
    have hni : e.hash ∉ hashes E := fun hm => hc ((any_hash_iff E e).mpr hm)
    rw [hashes_append, List.nodup_append]
    refine ⟨hn, by simp [hashes], ?_⟩
    intro a ha b hb hab
    simp [hashes] at hb
    rw [hab, hb] at ha
    exact hni ha

theorem mem_omSet_cases {E : List Entry} {e x : Entry} (hx : x ∈ omSet E e) : x ∈ E ∨ x = e := by
  unfold omSet at hx
  split at hx
  · exact Or.inl hx
  · rcases List.mem_append.mp hx with h | h
    · exact Or.inl h
    · exact Or.inr (List.mem_singleton.mp h)

theorem foldl_omSet_hashes : ∀ (l acc : List Entry) (h : Hash),
    h ∈ hashes (l.foldl omSet acc) ↔ h ∈ hashes acc ∨ h ∈ hashes l
  | [], acc, h => by simp [hashes]
  | e :: l, acc, h => by
    rw [List.foldl_cons, foldl_omSet_hashes l, mem_hashes_omSet]
    simp only [hashes, List.map_cons, List.mem_cons]
    constructor
    · rintro ((h1 | h1) | h1)
      · exact Or.inl h1
      · exact Or.inr (Or.inl h1)
      · exact Or.inr (Or.inr h1)
    · rintro (h1 | h1 | h1)
      · exact Or.inl (Or.inl h1)
      · exact Or.inl (Or.inr h1)
      · exact Or.inr h1

theorem foldl_omSet_hashes_nodup : ∀ (l acc : List Entry), (hashes acc).Nodup → (hashes (l.foldl omSet acc)).Nodup
  | [], _, hn => hn
  | e :: l, acc, hn => by
    rw [List.foldl_cons]
    exact foldl_omSet_hashes_nodup l _ (nodup_hashes_omSet acc e hn)

theorem foldl_omSet_mem : ∀ (l acc : List Entry) (x : Entry), x ∈ l.foldl omSet acc → x ∈ acc ∨ x ∈ l
  | [], _, _, hx => Or.inl hx
  | e :: l, acc, x, hx => by
    rw [List.foldl_cons] at hx
    rcases foldl_omSet_mem l _ x hx with h | h
    · rcases mem_omSet_cases h with h1 | h1
      · exact Or.inl h1
      · exact Or.inr (by rw [h1]; exact List.mem_cons_self)
    · exact Or.inr (List.mem_cons_of_mem _ h)

theorem foldl_omSet_id : ∀ (l acc : List Entry), (hashes (acc ++ l)).Nodup → l.foldl omSet acc = acc ++ l
  | [], acc, _ => by simp
  | e :: l, acc, hn => by
    have hni : e.hash ∉ hashes acc := by
      rw [hashes_append, List.nodup_append] at hn
      intro hm
      exact hn.2.2 _ hm e.hash (by simp [hashes]) rfl
    have hstep : omSet acc e = acc ++ [e] := by
      unfold omSet
      rw [if_neg]
      intro hc
      exact hni ((any_hash_iff acc e).mp hc)
    rw [List.foldl_cons, hstep, foldl_omSet_id l (acc ++ [e]) (by simpa using hn)]
    simp

/-- `NewOrderedMapFromEntries` of a list without repeated hashes is that list -/
theorem omFromList_id {l : List Entry} (hn : (hashes l).Nodup) : omFromList l = l := by
  unfold omFromList
  rw [foldl_omSet_id l [] (by simpa using hn)]
  simp

theorem mem_hashes_omFromList (l : List Entry) (h : Hash) : h ∈ hashes (omFromList l) ↔ h ∈ hashes l := by
  unfold omFromList
  rw [foldl_omSet_hashes]
  simp [hashes]

theorem omFromList_hashes_nodup (l : List Entry) : (hashes (omFromList l)).Nodup :=
  foldl_omSet_hashes_nodup l [] (by simp [hashes])

theorem mem_hashes_goSort (lt : Entry → Entry → Bool) (l : List Entry) (h : Hash) :
    h ∈ hashes (goSort lt l) ↔ h ∈ hashes l := by
  unfold hashes
  exact ((goSort_perm lt l).map _).mem_iff

theorem goSort_hashes_nodup (lt : Entry → Entry → Bool) {l : List Entry} (hn : (hashes l).Nodup) :
    (hashes (goSort lt l)).Nodup := by
  unfold hashes at *
  exact ((goSort_perm lt l).map _).nodup_iff.mpr hn

/-! ## the loaders with `n = -1` -/

theorem sortTrim_unbounded (lt : Entry → Entry → Bool) (l : List Entry) : sortTrim lt (-1) l = l := by
  unfold sortTrim; simp

theorem newLog_entries (id clockId : Bytes) (k : SortKind) (ents heads : List Entry) :
    (newLog id clockId k ents heads).entries = omFromList ents ∧ (newLog id clockId k ents heads).id = id :=
  ⟨rfl, rfl⟩

theorem loadManifest_unbounded (clockId : Bytes) (k k' : SortKind) (id : Bytes) (mheads : List Hash)
    {fetched : List Entry} (hn : (hashes fetched).Nodup) :
    (loadManifest clockId k k' id mheads fetched (-1)).entries = fetched ∧
    (loadManifest clockId k k' id mheads fetched (-1)).id = id := by
  unfold loadManifest
  simp only [sortTrim_unbounded]
  exact ⟨by rw [(newLog_entries _ _ _ _ _).1, omFromList_id hn], rfl⟩

theorem loadEntryHash_unbounded (clockId : Bytes) (k : SortKind) (id : Bytes)
    {fetched : List Entry} (hn : (hashes fetched).Nodup) :
    (loadEntryHash clockId k id fetched (-1)).entries = fetched ∧
    (loadEntryHash clockId k id fetched (-1)).id = id := by
  unfold loadEntryHash
  simp only [show ¬ ((-1 : Int) > -1) by decide, if_false, sortTrim_unbounded]
  exact ⟨by rw [(newLog_entries _ _ _ _ _).1, omFromList_id hn], rfl⟩

theorem loadJSON_unbounded (clockId : Bytes) (k : SortKind) (id : Bytes)
    {fetched : List Entry} (hn : (hashes fetched).Nodup) :
    (loadJSON clockId k id fetched (-1)).entries = goSort clockAsc fetched ∧
    (loadJSON clockId k id fetched (-1)).id = id := by
  unfold loadJSON
  simp only [show ¬ ((-1 : Int) > -1) by decide, if_false]
  exact ⟨by rw [(newLog_entries _ _ _ _ _).1, omFromList_id (goSort_hashes_nodup _ hn)], rfl⟩

theorem entryDifference_nil (a b : List Entry) (hsub : ∀ v ∈ b, has a v.hash = true) : entryDifference a b = [] := by
  unfold entryDifference
  have : ∀ (l : List Entry), (∀ v ∈ l, has a v.hash = true) →
      l.foldl (fun (acc : List Entry) v => if has a v.hash || has acc v.hash then acc else acc ++ [v]) [] = [] := by
    intro l
    induction l with
    | nil => intro _; rfl
    | cons v t ih =>
      intro h
      rw [List.foldl_cons, h v List.mem_cons_self]
      simp only [Bool.true_or, if_true]
      exact ih (fun x hx => h x (List.mem_cons_of_mem _ hx))
  exact this b hsub

/-- `NewFromEntry` without a limit: the union of the supplied and the fetched entries, once each, sorted by clock -/
theorem loadEntries_unbounded (clockId : Bytes) (k : SortKind) (source fetched : List Entry)
    (hne : source ≠ []) :
    ∃ l, loadEntries clockId k source fetched (-1) = some l ∧
      l.entries = goSort clockAsc (omFromList (source ++ fetched)) ∧
      (∀ h, h ∈ hashes l.entries ↔ h ∈ hashes source ∨ h ∈ hashes fetched) ∧
      (∃ last ∈ l.entries, l.id = last.logId) := by
  have hnd : (hashes (goSort clockAsc (omFromList (source ++ fetched)))).Nodup :=
    goSort_hashes_nodup _ (omFromList_hashes_nodup _)
  have hmemh : ∀ h, h ∈ hashes (goSort clockAsc (omFromList (source ++ fetched))) ↔
      h ∈ hashes source ∨ h ∈ hashes fetched := by
    intro h
    rw [mem_hashes_goSort, mem_hashes_omFromList, hashes_append, List.mem_append]
  have hdiff : entryDifference (goSort clockAsc (omFromList (source ++ fetched))) source = [] := by
    apply entryDifference_nil
    intro v hv
    rw [fhas_iff, hmemh]
    exact Or.inl (List.mem_map_of_mem hv)
  have hnonempty : goSort clockAsc (omFromList (source ++ fetched)) ≠ [] := by
    intro hnil
    cases source with
    | nil => exact hne rfl
    | cons v t =>
      have : v.hash ∈ hashes (goSort clockAsc (omFromList ((v :: t) ++ fetched))) :=
        (hmemh v.hash).mpr (Or.inl (by simp [hashes]))
      rw [hnil] at this
      simp [hashes] at this
  unfold loadEntries
  simp only [show ¬ ((-1 : Int) > -1) by decide, if_false, hdiff, List.nil_append, List.length_nil, List.drop_zero]
  cases hl : (goSort clockAsc (omFromList (source ++ fetched))).getLast? with
  | none => exact absurd (List.getLast?_eq_none_iff.mp hl) hnonempty
  | some lastE =>
    refine ⟨_, rfl, ?_, ?_, ?_⟩
    · rw [(newLog_entries _ _ _ _ _).1, omFromList_id hnd]
    · intro h
      rw [(newLog_entries _ _ _ _ _).1, omFromList_id hnd]
      exact hmemh h
    · refine ⟨lastE, ?_, rfl⟩
      rw [(newLog_entries _ _ _ _ _).1, omFromList_id hnd]
      exact List.mem_of_getLast? hl

end Model
