import Proofs.SortTrim
import Proofs.LoadersUnbounded
import Proofs.Append
import Proofs.OMap
/-!
# Proofs.LoadKeeping — `entryLastNKeeping`, the cut of the length-limited `NewFromEntry`

`lastNKeeping n S keep` scans the (sorted) list from its end: an entry whose hash is one of the supplied
ones is always kept, another entry is kept while the quota `n - d` (d = number of distinct supplied
hashes) lasts.  Here:

* `keepRev`: the scan as a structural recursion, `lastNKeeping_eq`;
* `mem_lastNKeeping`: for a duplicate-free `S`, `x` is kept iff it is supplied or among the newest
  `n - d` of the others;
* `lastNKeeping_length`;
* `lastNKeeping_cut_eq`: the cut does not see what the limited fetch left out (the analogue of
  `lastN_sort_eq` for the keeping variant).
-/
namespace Model

/-- the backward scan of `entryLastNKeeping` on the reversed list -/
def keepRev (K : Entry → Bool) : List Entry → Int → List Entry
  | [], _ => []
  | e :: es, q => if K e then e :: keepRev K es q
                  else if q > 0 then e :: keepRev K es (q - 1) else keepRev K es q

theorem keep_foldl (K : Entry → Bool) : ∀ (L acc : List Entry) (q : Int),
    (L.foldl (fun (acc : List Entry × Int) e =>
      if K e then (acc.1 ++ [e], acc.2)
      else if acc.2 > 0 then (acc.1 ++ [e], acc.2 - 1) else acc) (acc, q)).1 = acc ++ keepRev K L q
  | [], acc, q => by simp [keepRev]
  | e :: es, acc, q => by
    rw [List.foldl_cons]
    unfold keepRev
    by_cases hk : K e = true
    · simp only [hk, if_true]
      rw [keep_foldl K es]; simp
    · simp only [hk, if_false]
      by_cases hq : q > 0
      · simp only [hq, if_true]
        rw [keep_foldl K es]; simp
      · simp only [hq, if_false]
        exact keep_foldl K es acc q

/-- the predicate "the hash is one of the supplied ones" -/
def keptBy (keep : List Entry) (e : Entry) : Bool := (dedupHashes (keep.map (·.hash)) []).contains e.hash

theorem keptBy_iff (keep : List Entry) (e : Entry) : keptBy keep e = true ↔ e.hash ∈ hashes keep := by
  unfold keptBy
  rw [List.contains_iff_mem, mem_dedupHashes]
  simp [hashes]

theorem lastNKeeping_eq (n : Int) (S keep : List Entry) (h : ¬ n ≥ S.length) :
    lastNKeeping n S keep =
      (keepRev (keptBy keep) S.reverse (n - (dedupHashes (keep.map (·.hash)) []).length)).reverse := by
  unfold lastNKeeping
  rw [if_neg h]
  show ((S.reverse.foldl _ ([], _)).1).reverse = _
  have := keep_foldl (keptBy keep) S.reverse [] (n - (dedupHashes (keep.map (·.hash)) []).length)
  simp only [List.nil_append] at this
  unfold keptBy at this ⊢
  rw [this]

theorem keepRev_sublist (K : Entry → Bool) : ∀ (L : List Entry) (q : Int), (keepRev K L q).Sublist L
  | [], _ => by simp [keepRev]
  | e :: es, q => by
    unfold keepRev
    split
    · exact (keepRev_sublist K es q).cons_cons e
    · split
      · exact (keepRev_sublist K es (q - 1)).cons_cons e
      · exact (keepRev_sublist K es q).cons e

theorem mem_keepRev (K : Entry → Bool) : ∀ (L : List Entry) (q : Int) (x : Entry),
    x ∈ keepRev K L q ↔ x ∈ L ∧ (K x = true ∨ x ∈ (L.filter (fun e => !K e)).take q.toNat)
  | [], _, x => by simp [keepRev]
  | e :: es, q, x => by
    unfold keepRev
    by_cases hk : K e = true
    · simp only [hk, if_true, List.mem_cons, List.filter_cons, Bool.not_true, Bool.false_eq_true, if_false]
      rw [mem_keepRev K es q x]
      constructor
      · rintro (h | ⟨h1, h2⟩)
        · subst h; exact ⟨Or.inl rfl, Or.inl hk⟩
        · exact ⟨Or.inr h1, h2⟩
      · rintro ⟨h1 | h1, h2⟩
        · exact Or.inl h1
        · exact Or.inr ⟨h1, h2⟩
    · have hk' : K e = false := by cases h : K e <;> simp_all
      by_cases hq : q > 0
      · have hsucc : q.toNat = (q - 1).toNat + 1 := by omega
        rw [if_neg hk, if_pos hq]
        simp only [List.mem_cons, List.filter_cons, hk', Bool.not_false, if_true]
        rw [mem_keepRev K es (q - 1) x, hsucc, List.take_succ_cons, List.mem_cons]
        constructor
        · rintro (h | ⟨h1, h2⟩)
          · subst h; exact ⟨Or.inl rfl, Or.inr (Or.inl rfl)⟩
          · rcases h2 with h2 | h2
            · exact ⟨Or.inr h1, Or.inl h2⟩
            · exact ⟨Or.inr h1, Or.inr (Or.inr h2)⟩
        · rintro ⟨h1 | h1, h2⟩
          · exact Or.inl h1
          · rcases h2 with h2 | h2 | h2
            · exact Or.inr ⟨h1, Or.inl h2⟩
            · exact Or.inl h2
            · exact Or.inr ⟨h1, Or.inr h2⟩
      · have hz : q.toNat = 0 := by omega
        rw [if_neg hk, if_neg hq]
        simp only [List.mem_cons, hz, List.take_zero, List.not_mem_nil, or_false]
        rw [mem_keepRev K es q x, hz]
        simp only [List.take_zero, List.not_mem_nil, or_false]
        constructor
        · rintro ⟨h1, h2⟩; exact ⟨Or.inr h1, h2⟩
        · rintro ⟨h1 | h1, h2⟩
          · subst h1; rw [hk'] at h2; cases h2
          · exact ⟨h1, h2⟩

theorem keepRev_length (K : Entry → Bool) : ∀ (L : List Entry) (q : Int),
    (keepRev K L q).length = (L.filter K).length + min q.toNat (L.filter (fun e => !K e)).length
  | [], _ => by simp [keepRev]
  | e :: es, q => by
    unfold keepRev
    by_cases hk : K e = true
    · simp only [hk, if_true, List.length_cons, List.filter_cons, Bool.not_true, Bool.false_eq_true, if_false]
      rw [keepRev_length K es q]; omega
    · have hk' : K e = false := by cases h : K e <;> simp_all
      by_cases hq : q > 0
      · rw [if_neg hk, if_pos hq]
        simp only [List.length_cons, List.filter_cons, hk', Bool.not_false, if_true, Bool.false_eq_true, if_false]
        rw [keepRev_length K es (q - 1)]; omega
      · rw [if_neg hk, if_neg hq]
        simp only [List.filter_cons, hk', Bool.not_false, if_true, Bool.false_eq_true, if_false, List.length_cons]
        rw [keepRev_length K es q]; omega

/-- the first `m` of the reversed list are the last `m` of the list -/
theorem mem_take_reverse_iff (F : List Entry) (q : Int) (x : Entry) :
    x ∈ F.reverse.take q.toNat ↔ x ∈ lastN q F := by
  unfold lastN
  by_cases h0 : q ≤ 0
  · have : q.toNat = 0 := by omega
    simp [h0, this]
  · rw [if_neg h0]
    by_cases h1 : q ≥ F.length
    · rw [if_pos h1, List.take_of_length_le (by rw [List.length_reverse]; omega)]
      exact List.mem_reverse
    · rw [if_neg h1, List.take_reverse, List.mem_reverse]

theorem lastNKeeping_sublist (n : Int) (S keep : List Entry) : (lastNKeeping n S keep).Sublist S := by
  by_cases h : n ≥ S.length
  · unfold lastNKeeping; rw [if_pos h]; exact List.Sublist.refl _
  · rw [lastNKeeping_eq n S keep h]
    have := (keepRev_sublist (keptBy keep) S.reverse (n - (dedupHashes (keep.map (·.hash)) []).length)).reverse
    rwa [List.reverse_reverse] at this

/-- entries of a duplicate-free list whose hash is one of `H` (duplicate-free): at most `|H|` -/
theorem filter_hash_length_le {S : List Entry} (hS : (hashes S).Nodup) {H : List Hash}
    (p : Entry → Bool) (hp : ∀ e ∈ S, p e = true → e.hash ∈ H) :
    (S.filter p).length ≤ H.length := by
  have hnd : ((S.filter p).map (·.hash)).Nodup := by
    have : ((S.filter p).map (·.hash)).Sublist (hashes S) := (List.filter_sublist).map _
    exact hS.sublist this
  have := List.Nodup.length_le_of_subset hnd (fun h hh => by
    obtain ⟨e, he, rfl⟩ := List.mem_map.mp hh
    obtain ⟨h1, h2⟩ := List.mem_filter.mp he
    exact hp e h1 h2)
  simpa using this

theorem filter_hash_length_eq {S : List Entry} (hS : (hashes S).Nodup) {H : List Hash} (hH : H.Nodup)
    (p : Entry → Bool) (hp : ∀ e ∈ S, p e = true ↔ e.hash ∈ H) (hsub : ∀ h ∈ H, h ∈ hashes S) :
    (S.filter p).length = H.length := by
  apply Nat.le_antisymm (filter_hash_length_le hS p (fun e he h => (hp e he).mp h))
  have := List.Nodup.length_le_of_subset hH (l₂ := (S.filter p).map (·.hash)) (fun h hh => by
    obtain ⟨e, he, rfl⟩ := List.mem_map.mp (hsub h hh)
    exact List.mem_map.mpr ⟨e, List.mem_filter.mpr ⟨he, (hp e he).mpr hh⟩, rfl⟩)
  simpa using this

theorem length_filter_add (S : List Entry) (p : Entry → Bool) :
    (S.filter p).length + (S.filter (fun e => !p e)).length = S.length := by
  induction S with
  | nil => rfl
  | cons a t ih =>
    simp only [List.filter_cons]
    cases h : p a <;> simp [h] <;> omega

theorem kept_count {S : List Entry} (keep : List Entry) (hS : (hashes S).Nodup)
    (hsub : ∀ h ∈ hashes keep, h ∈ hashes S) :
    (S.filter (keptBy keep)).length = (dedupHashes (keep.map (·.hash)) []).length := by
  apply filter_hash_length_eq hS (dedupHashes_nodup _ [] List.nodup_nil)
  · intro e _
    unfold keptBy; exact List.contains_iff_mem
  · intro h hh
    apply hsub
    have := (mem_dedupHashes _ _ _).mp hh
    simpa [hashes] using this

/-- what `entryLastNKeeping` keeps of a duplicate-free list that holds the supplied entries -/
theorem mem_lastNKeeping (n : Int) {S : List Entry} (keep : List Entry) (hS : (hashes S).Nodup)
    (hsub : ∀ h ∈ hashes keep, h ∈ hashes S) (x : Entry) :
    x ∈ lastNKeeping n S keep ↔
      x ∈ S ∧ (keptBy keep x = true ∨
        x ∈ lastN (n - (dedupHashes (keep.map (·.hash)) []).length) (S.filter (fun e => !keptBy keep e))) := by
  by_cases h : n ≥ S.length
  · unfold lastNKeeping
    rw [if_pos h]
    constructor
    · intro hx
      refine ⟨hx, ?_⟩
      by_cases hk : keptBy keep x = true
      · exact Or.inl hk
      · right
        have hle := kept_count keep hS hsub
        have hadd := length_filter_add S (keptBy keep)
        have hmem : x ∈ S.filter (fun e => !keptBy keep e) := List.mem_filter.mpr ⟨hx, by simp [hk]⟩
        unfold lastN
        have hpos : 0 < (S.filter (fun e => !keptBy keep e)).length := List.length_pos_of_mem hmem
        rw [if_neg (by omega), if_pos (by omega)]
        exact hmem
    · exact fun hx => hx.1
  · rw [lastNKeeping_eq n S keep h, List.mem_reverse, mem_keepRev, List.mem_reverse,
      List.filter_reverse, mem_take_reverse_iff]

theorem lastNKeeping_length (n : Int) {S : List Entry} (keep : List Entry) (hS : (hashes S).Nodup)
    (hsub : ∀ h ∈ hashes keep, h ∈ hashes S) (hn : (keep.length : Int) ≤ n) :
    (lastNKeeping n S keep).length = min n.toNat S.length := by
  have hd : (dedupHashes (keep.map (·.hash)) []).length ≤ keep.length := by
    have hnd := dedupHashes_nodup (keep.map (·.hash)) [] List.nodup_nil
    have := List.Nodup.length_le_of_subset hnd (l₂ := keep.map (·.hash)) (fun h hh => by
      have := (mem_dedupHashes _ _ _).mp hh; simpa using this)
    simpa using this
  by_cases h : n ≥ S.length
  · unfold lastNKeeping; rw [if_pos h]; omega
  · rw [lastNKeeping_eq n S keep h, List.length_reverse, keepRev_length]
    have hK : (S.reverse.filter (keptBy keep)).length = (dedupHashes (keep.map (·.hash)) []).length := by
      rw [List.filter_reverse, List.length_reverse]
      exact kept_count keep hS hsub
    have hadd := length_filter_add S.reverse (keptBy keep)
    rw [List.length_reverse] at hadd
    omega

/-! ## the cut does not see what the limited fetch left out -/

/-- filtering a sorted list = sorting the filtered list -/
theorem filter_goSort {lt : Entry → Entry → Bool} {A S : List Entry} (hsto : STO lt (· ∈ A))
    (hasym : ∀ a b, a ∈ A → b ∈ A → lt a b = true → lt b a = false)
    (hS : S.Nodup) (hsub : ∀ a ∈ S, a ∈ A) (p : Entry → Bool) :
    (goSort lt S).filter p = goSort lt (S.filter p) := by
  have s1 : ((goSort lt S).filter p).Pairwise (fun a b => lt a b = true) :=
    (goSort_sorted hsto S hsub hS).sublist List.filter_sublist
  have s2 := goSort_sorted hsto (S.filter p) (fun a ha => hsub a (List.mem_filter.mp ha).1)
    (hS.sublist List.filter_sublist)
  have pp : ((goSort lt S).filter p).Perm (goSort lt (S.filter p)) :=
    ((goSort_perm lt S).filter p).trans (goSort_perm lt (S.filter p)).symm
  refine List.Perm.eq_of_pairwise ?_ s1 s2 pp
  intro a b ha hb hab hba
  have haA : a ∈ A := hsub a (mem_goSort.mp (List.mem_filter.mp ha).1)
  have hbA : b ∈ A := hsub b (List.mem_filter.mp (mem_goSort.mp hb)).1
  have := hasym a b haA hbA hab
  rw [this] at hba; cases hba

theorem mem_omFromList_of_inj {U l : List Entry} (hU : (hashes U).Nodup) (hl : ∀ a ∈ l, a ∈ U)
    (x : Entry) : x ∈ omFromList l ↔ x ∈ l := by
  constructor
  · intro hx
    unfold omFromList at hx
    rcases foldl_omSet_mem l [] x hx with h | h
    · cases h
    · exact h
  · intro hx
    have hh : x.hash ∈ hashes (omFromList l) := (mem_hashes_omFromList l x.hash).mpr (List.mem_map_of_mem hx)
    obtain ⟨y, hy, hyx⟩ := List.mem_map.mp hh
    have hyl : y ∈ l := by
      unfold omFromList at hy
      rcases foldl_omSet_mem l [] y hy with h | h
      · cases h
      · exact h
    have : y = x := eq_of_hash_eq hU (hl y hyl) (hl x hx) hyx
    rw [← this]; exact hy

theorem cntGt_le_length_filter (R : List Entry) (t : Int) (p : Entry → Bool) :
    cntGt R t ≤ cntGt (R.filter p) t + (R.filter (fun e => !p e)).length := by
  induction R with
  | nil => simp [cntGt]
  | cons r rs ih =>
    simp only [List.filter_cons]
    cases hp : p r <;> simp [hp, cntGt] <;> split <;> omega

theorem cntGt_mono_subset {R R' : List Entry} (hR : R.Nodup) (hsub : ∀ r ∈ R, r ∈ R') (t : Int) :
    cntGt R t ≤ cntGt R' t := by
  rw [cntGt_eq_filter, cntGt_eq_filter]
  apply List.Nodup.length_le_of_subset (hR.sublist List.filter_sublist)
  intro y hy
  obtain ⟨h1, h2⟩ := List.mem_filter.mp hy
  exact List.mem_filter.mpr ⟨hsub y h1, h2⟩

/-- The cut of the length-limited `NewFromEntry` gives the same list for the result `R` of any limited
    fetch (joined with the supplied entries) and for the whole closure `A`. -/
theorem lastNKeeping_cut_eq {lt : Entry → Entry → Bool} {A R src : List Entry} {N : Int}
    (hsto : STO lt (· ∈ A)) (hasym : ∀ a b, a ∈ A → b ∈ A → lt a b = true → lt b a = false)
    (htime : ∀ a b, a ∈ A → b ∈ A → a.clock.time < b.clock.time → lt a b = true)
    (hA : (hashes A).Nodup) (hR : R.Nodup) (hsub : ∀ r ∈ R, r ∈ A) (hsrc : ∀ e ∈ src, e ∈ A)
    (hcut : ∀ a ∈ A, a ∈ R ∨ N ≤ (cntGt R a.clock.time : Int)) :
    lastNKeeping N (goSort lt (omFromList (src ++ R))) src = lastNKeeping N (goSort lt A) src := by
  let R' := omFromList (src ++ R)
  have hAn : A.Nodup := nodup_of_map_nodup _ hA
  have hin : ∀ a ∈ src ++ R, a ∈ A := fun a ha => by
    rcases List.mem_append.mp ha with h | h
    · exact hsrc a h
    · exact hsub a h
  have hmemR' : ∀ x, x ∈ R' ↔ x ∈ src ∨ x ∈ R := fun x => by
    show x ∈ omFromList (src ++ R) ↔ _
    rw [mem_omFromList_of_inj hA hin x, List.mem_append]
  have hR'A : ∀ a ∈ R', a ∈ A := fun a ha => by
    rcases (hmemR' a).mp ha with h | h
    · exact hsrc a h
    · exact hsub a h
  have hR'h : (hashes R').Nodup := omFromList_hashes_nodup _
  have hR'n : R'.Nodup := nodup_of_map_nodup _ hR'h
  have hSR'h : (hashes (goSort lt R')).Nodup := goSort_hashes_nodup _ hR'h
  have hSAh : (hashes (goSort lt A)).Nodup := goSort_hashes_nodup _ hA
  have hsubR' : ∀ h ∈ hashes src, h ∈ hashes (goSort lt R') := fun h hh => by
    obtain ⟨e, he, rfl⟩ := List.mem_map.mp hh
    exact List.mem_map_of_mem (mem_goSort.mpr ((hmemR' e).mpr (Or.inl he)))
  have hsubA : ∀ h ∈ hashes src, h ∈ hashes (goSort lt A) := fun h hh => by
    obtain ⟨e, he, rfl⟩ := List.mem_map.mp hh
    exact List.mem_map_of_mem (mem_goSort.mpr (hsrc e he))
  -- a supplied hash names the supplied entry
  have hkept : ∀ x ∈ A, keptBy src x = true → x ∈ src := fun x hx hk => by
    obtain ⟨e, he, heq⟩ := List.mem_map.mp ((keptBy_iff src x).mp hk)
    have : e = x := eq_of_hash_eq hA (hsrc e he) hx heq
    rw [← this]; exact he
  let d := (dedupHashes (src.map (·.hash)) []).length
  let nk : Entry → Bool := fun e => !keptBy src e
  -- the others: newest `N - d`, the same for both
  have hothers : lastN (N - d) ((goSort lt R').filter nk) = lastN (N - d) ((goSort lt A).filter nk) := by
    rw [filter_goSort hsto hasym hR'n hR'A nk, filter_goSort hsto hasym hAn (fun _ h => h) nk]
    have hsto' : STO lt (· ∈ A.filter nk) :=
      ⟨fun a b c ha hb hc => hsto.trans a b c (List.mem_filter.mp ha).1 (List.mem_filter.mp hb).1 (List.mem_filter.mp hc).1,
       fun a b ha hb => hsto.total a b (List.mem_filter.mp ha).1 (List.mem_filter.mp hb).1⟩
    apply lastN_sort_eq hsto'
      (fun a b ha hb => hasym a b (List.mem_filter.mp ha).1 (List.mem_filter.mp hb).1)
      (fun a b ha hb => htime a b (List.mem_filter.mp ha).1 (List.mem_filter.mp hb).1)
      (hAn.sublist List.filter_sublist) (hR'n.sublist List.filter_sublist)
    · intro r hr
      obtain ⟨h1, h2⟩ := List.mem_filter.mp hr
      exact List.mem_filter.mpr ⟨hR'A r h1, h2⟩
    · intro a ha
      obtain ⟨haA, hnk⟩ := List.mem_filter.mp ha
      rcases hcut a haA with h1 | h1
      · exact Or.inl (List.mem_filter.mpr ⟨(hmemR' a).mpr (Or.inr h1), hnk⟩)
      · right
        have h2 := cntGt_mono_subset hR (fun r hr => (hmemR' r).mpr (Or.inr hr)) a.clock.time
        have h3 := cntGt_le_length_filter R' a.clock.time nk
        have h4 : (R'.filter (fun e => !nk e)).length ≤ d := by
          apply filter_hash_length_le hR'h
          intro e _ he
          have : keptBy src e = true := by simpa [nk] using he
          unfold keptBy at this; exact List.contains_iff_mem.mp this
        show N - (d : Int) ≤ _
        omega
  have hmem : ∀ x, x ∈ lastNKeeping N (goSort lt R') src ↔ x ∈ lastNKeeping N (goSort lt A) src := by
    intro x
    rw [mem_lastNKeeping N src hSR'h hsubR' x, mem_lastNKeeping N src hSAh hsubA x]
    show _ ∧ (_ ∨ x ∈ lastN (N - d) ((goSort lt R').filter nk)) ↔ _ ∧ (_ ∨ x ∈ lastN (N - d) ((goSort lt A).filter nk))
    rw [hothers]
    constructor
    · rintro ⟨h1, h2⟩
      exact ⟨mem_goSort.mpr (hR'A x (mem_goSort.mp h1)), h2⟩
    · rintro ⟨h1, h2⟩
      refine ⟨?_, h2⟩
      rcases h2 with h2 | h2
      · exact mem_goSort.mpr ((hmemR' x).mpr (Or.inl (hkept x (mem_goSort.mp h1) h2)))
      · rw [← hothers] at h2
        exact (List.mem_filter.mp ((lastN_sublist _ _).subset h2)).1
  have sA := goSort_sorted hsto A (fun _ h => h) hAn
  have sR := goSort_sorted hsto R' hR'A hR'n
  have ndA : (lastNKeeping N (goSort lt A) src).Nodup :=
    ((goSort_perm lt A).nodup_iff.mpr hAn).sublist (lastNKeeping_sublist _ _ _)
  have ndR : (lastNKeeping N (goSort lt R') src).Nodup :=
    ((goSort_perm lt R').nodup_iff.mpr hR'n).sublist (lastNKeeping_sublist _ _ _)
  have pp := (List.perm_ext_iff_of_nodup ndR ndA).mpr hmem
  refine List.Perm.eq_of_pairwise ?_ (sR.sublist (lastNKeeping_sublist _ _ _)) (sA.sublist (lastNKeeping_sublist _ _ _)) pp
  intro a b ha hb hab hba
  have haA : a ∈ A := hR'A a (mem_goSort.mp ((lastNKeeping_sublist _ _ _).subset ha))
  have hbA : b ∈ A := mem_goSort.mp ((lastNKeeping_sublist _ _ _).subset hb)
  have := hasym a b haA hbA hab
  rw [this] at hba; cases hba

end Model
