import Proofs.System
import Proofs.AppendRefs
/-!
# Proofs.RefsClosed — skip references stay inside the replica

Every skip reference (`refs`) of an entry a replica holds names an entry the replica holds too, in every
reachable system state.  `Append` takes its references from a traversal of its own entries; an unbounded
`Join` brings in the whole other replica.  Together with `Inv.closed` (closure under `next`) this is the
"closed under `next ++ refs`" hypothesis of the fetcher theorems (`C09.SourceInStore`).
-/
namespace Model

def RefsIn (l : Log) : Prop := ∀ e ∈ l.entries, ∀ r ∈ e.refs, r ∈ hashes l.entries

theorem refsIn_emptyLog (id cid : Bytes) (k : SortKind) : RefsIn (emptyLog id cid k) := by
  intro e he; cases he

theorem refsIn_append {U : List Entry} {l : Log} (I : Inv U l) (R : RefsIn l) (pc : Int) (h : Hash) (tag : Nat)
    (hfresh : h ∉ hashes U) : RefsIn (append l pc h tag).2 := by
  intro e he r hr
  rw [append_entries I pc h tag hfresh] at he ⊢
  unfold hashes
  rw [List.map_append, List.mem_append]
  left
  rcases List.mem_append.mp he with h1 | h1
  · exact R e h1 r hr
  · rw [List.mem_singleton] at h1
    subst h1
    exact ((appendPlan_refs I pc).1 r hr).1

theorem refsIn_join {U : List Entry} (hU : (hashes U).Nodup) {A B : Log} (IA : Inv U A) (IB : Inv U B)
    (hid : A.id = B.id) (RA : RefsIn A) (RB : RefsIn B) : RefsIn (joinU A B) := by
  intro e he r hr
  rw [joinU_entries] at he ⊢
  have key : ∀ E : List Entry, (∀ x ∈ E, x ∈ jEntries A B) → r ∈ hashes E → r ∈ hashes (jEntries A B) := by
    intro E hs hm
    unfold hashes at hm ⊢
    obtain ⟨y, hy, hyr⟩ := List.mem_map.mp hm
    exact List.mem_map.mpr ⟨y, hs y hy, hyr⟩
  rcases (mem_jEntries hU IA IB hid).mp he with h1 | h1
  · exact key A.entries (fun x hx => (mem_jEntries hU IA IB hid).mpr (Or.inl hx)) (RA e h1 r hr)
  · exact key B.entries (fun x hx => (mem_jEntries hU IA IB hid).mpr (Or.inr hx)) (RB e h1 r hr)

theorem refsIn_step {s s' : Sys} (I : SysInv s) (R : ∀ r l, s.logs r = some l → RefsIn l) {op : Op}
    (hstep : s.step op = some s') : ∀ r l, s'.logs r = some l → RefsIn l := by
  intro r0 l0 hl0
  cases op with
  | newLog id cid k =>
    simp only [Sys.step, Option.some.injEq] at hstep
    subst hstep
    dsimp only at hl0
    by_cases hr : r0 = s.n
    · subst hr
      rw [upd_same] at hl0; cases hl0
      exact refsIn_emptyLog id cid k
    · rw [upd_other _ _ _ _ hr] at hl0; exact R r0 l0 hl0
  | append r pc h tag =>
    simp only [Sys.step] at hstep
    cases hl : s.logs r with
    | none => rw [hl] at hstep; cases hstep
    | some l =>
      rw [hl] at hstep
      simp only at hstep
      by_cases hc : (hashes s.uni).contains h = true
      · rw [if_pos hc] at hstep; cases hstep
      · rw [if_neg hc] at hstep
        have hfresh : h ∉ hashes s.uni := fun hm => hc (List.contains_iff_mem.mpr hm)
        simp only [Option.some.injEq] at hstep
        subst hstep
        dsimp only at hl0
        by_cases hr : r0 = r
        · subst hr
          rw [upd_same] at hl0; cases hl0
          exact refsIn_append (I.inv r0 l hl) (R r0 l hl) pc h tag hfresh
        · rw [upd_other _ _ _ _ hr] at hl0; exact R r0 l0 hl0
  | join r r2 =>
    simp only [Sys.step] at hstep
    cases ha : s.logs r with
    | none => rw [ha] at hstep; simp at hstep
    | some a =>
      cases hb : s.logs r2 with
      | none => rw [ha, hb] at hstep; simp at hstep
      | some b =>
        rw [ha, hb] at hstep
        simp only at hstep
        by_cases hrr : r = r2
        · simp only [hrr, if_true, Option.some.injEq] at hstep
          subst hstep; exact R r0 l0 hl0
        · simp only [hrr, if_false] at hstep
          by_cases hid : a.id = b.id
          · rw [join_eq a b hid] at hstep
            simp only [hid, if_true, Option.some.injEq] at hstep
            subst hstep
            dsimp only at hl0
            by_cases hr : r0 = r
            · subst hr
              rw [upd_same] at hl0; cases hl0
              exact refsIn_join I.uni (I.inv r0 a ha) (I.inv r2 b hb) hid (R r0 a ha) (R r2 b hb)
            · rw [upd_other _ _ _ _ hr] at hl0; exact R r0 l0 hl0
          · rw [join_other_id a b.id b.entries b.heads (-1) _ hid] at hstep
            simp only [hid, if_false, Option.some.injEq] at hstep
            subst hstep
            dsimp only at hl0
            by_cases hr : r0 = r
            · subst hr
              rw [upd_same] at hl0; cases hl0
              exact R r0 _ ha
            · rw [upd_other _ _ _ _ hr] at hl0; exact R r0 l0 hl0
  | setIdentity r cid =>
    simp only [Sys.step] at hstep
    cases hl : s.logs r with
    | none => rw [hl] at hstep; cases hstep
    | some l =>
      rw [hl] at hstep
      simp only [Option.some.injEq] at hstep
      subst hstep
      dsimp only at hl0
      by_cases hr : r0 = r
      · subst hr
        rw [upd_same] at hl0; cases hl0
        exact R r0 l hl
      · rw [upd_other _ _ _ _ hr] at hl0; exact R r0 l0 hl0

  | rebuild src cid ents wh =>
    obtain ⟨l, hl, hg, rfl⟩ := rebuild_step hstep
    dsimp only at hl0
    by_cases hr : r0 = s.n
    · subst hr
      rw [upd_same] at hl0; cases hl0
      obtain ⟨_, _, hE, _, _⟩ := rebuild_spec I.uni (I.inv src l hl) cid wh hg
      intro e he r hr'
      have := R src l hl e ((hE e).mp he) r hr'
      unfold hashes at this ⊢
      obtain ⟨y, hy, hyr⟩ := List.mem_map.mp this
      exact List.mem_map.mpr ⟨y, (hE y).mpr hy, hyr⟩
    · rw [upd_other _ _ _ _ hr] at hl0; exact R r0 l0 hl0

theorem refsIn_run : ∀ (ops : List Op) {s s' : Sys}, SysInv s → (∀ r l, s.logs r = some l → RefsIn l) →
    s.run ops = some s' → ∀ r l, s'.logs r = some l → RefsIn l
  | [], s, s', _, R, h => by simp [Sys.run] at h; exact h ▸ R
  | op :: ops, s, s', I, R, h => by
    simp only [Sys.run] at h
    cases hs : s.step op with
    | none => rw [hs] at h; cases h
    | some s1 =>
      rw [hs] at h
      exact refsIn_run ops (sysInv_step I hs) (refsIn_step I R hs) h

/-- every replica of every reachable system holds the targets of all its skip references -/
theorem reachable_refsIn {s : Sys} (hr : Reachable s) {r : Nat} {l : Log} (hl : s.logs r = some l) : RefsIn l := by
  obtain ⟨ops, h⟩ := hr
  exact refsIn_run ops sysInv_init (fun r l h => by simp [Sys.init] at h) h r l hl

end Model
