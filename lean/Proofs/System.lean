import Proofs.Values
import Proofs.Rebuild
import Model.System
/-!
# Proofs.System — every reachable system satisfies the replica invariant, and each replica holds
exactly the appended entries it has (transitively) merged
-/
namespace Model

/-- the invariant is insensitive to a growing universe -/
theorem inv_mono_universe {U U' : List Entry} {l : Log} (hs : ∀ x ∈ U, x ∈ U') (I : Inv U l) : Inv U' l :=
  { I with inU := fun e he => hs e (I.inU e he) }

theorem inv_emptyLog (U : List Entry) (id cid : Bytes) (k : SortKind) : Inv U (emptyLog id cid k) where
  inU := by intro e he; cases he
  nodup := by simp [emptyLog, hashes]
  closed := by intro e he; cases he
  mono := by intro e he; cases he
  headsIn := by intro e he; cases he
  headsNodup := by simp [emptyLog, hashes]
  headsSpec := by intro e he; cases he
  headsUnref := by intro e he; cases he
  nextIdx := by
    intro h
    simp [emptyLog, namedBy]
  logId := by intro e he; cases he

theorem inv_setIdentity {U : List Entry} {l : Log} (I : Inv U l) (cid : Bytes) : Inv U (setIdentity l cid) :=
  { inU := I.inU, nodup := I.nodup, closed := I.closed, mono := I.mono, headsIn := I.headsIn,
    headsNodup := I.headsNodup, headsSpec := I.headsSpec, headsUnref := I.headsUnref,
    nextIdx := I.nextIdx, logId := I.logId }

structure SysInv (s : Sys) : Prop where
  uni : (hashes s.uni).Nodup
  inv : ∀ r l, s.logs r = some l → Inv s.uni l
  know : ∀ r l, s.logs r = some l → ∀ h, h ∈ s.know r ↔ h ∈ hashes l.entries
  fresh : ∀ r, s.n ≤ r → s.logs r = none

theorem upd_same {α : Type} (f : Nat → α) (i : Nat) (v : α) : upd f i v i = v := by simp [upd]
theorem upd_other {α : Type} (f : Nat → α) (i j : Nat) (v : α) (h : j ≠ i) : upd f i v j = f j := by simp [upd, h]

theorem sysInv_init : SysInv Sys.init where
  uni := by simp [Sys.init, hashes]
  inv := by intro r l h; simp [Sys.init] at h
  know := by intro r l h; simp [Sys.init] at h
  fresh := by intro r _; rfl

theorem append_entries {U : List Entry} {l : Log} (I : Inv U l) (pc : Int) (h : Hash) (tag : Nat)
    (hfresh : h ∉ hashes U) : (append l pc h tag).2.entries = l.entries ++ [(append l pc h tag).1] := by
  have hnotin : has l.entries h = false := by
    rw [has_false_iff]
    intro e he hh
    apply hfresh
    unfold hashes
    exact List.mem_map.mpr ⟨e, I.inU e he, hh⟩
  show omSet l.entries _ = _
  exact omSet_of_not_has hnotin

theorem append_hash (l : Log) (pc : Int) (h : Hash) (tag : Nat) : (append l pc h tag).1.hash = h := rfl


/-- what the guard of `Op.rebuild` says, and what the rebuilt replica is -/
theorem rebuild_guard {l : Log} {ents : List Entry}
    (hg : (ents.all (fun e => l.entries.contains e) && l.entries.all (fun e => ents.contains e)) = true) :
    (∀ e ∈ ents, e ∈ l.entries) ∧ (∀ e ∈ l.entries, e ∈ ents) := by
  simp only [Bool.and_eq_true, List.all_eq_true, List.contains_iff_mem] at hg
  exact hg

theorem rebuild_spec {U : List Entry} (hU : (hashes U).Nodup) {l : Log} (I : Inv U l) (cid : Bytes)
    {ents : List Entry} (wh : Bool)
    (hg : (ents.all (fun e => l.entries.contains e) && l.entries.all (fun e => ents.contains e)) = true) :
    let L := newLog l.id cid l.sortFn ents (if wh then l.heads else [])
    Inv U L ∧ L.id = l.id ∧ (∀ x, x ∈ L.entries ↔ x ∈ l.entries) ∧ (∀ x, x ∈ L.heads ↔ x ∈ l.heads) ∧ L.sortFn = l.sortFn := by
  obtain ⟨h1, h2⟩ := rebuild_guard hg
  have hset : ∀ h, h ∈ hashes ents ↔ h ∈ hashes l.entries := by
    intro h
    unfold hashes
    simp only [List.mem_map]
    exact ⟨fun ⟨e, he, hx⟩ => ⟨e, h1 e he, hx⟩, fun ⟨e, he, hx⟩ => ⟨e, h2 e he, hx⟩⟩
  have hheads : (if wh then l.heads else []) = [] ∨
      ((hashes (if wh then l.heads else [])).Nodup ∧ ∀ x, x ∈ (if wh then l.heads else []) ↔ x ∈ l.heads) := by
    cases wh
    · exact Or.inl rfl
    · exact Or.inr ⟨I.headsNodup, fun _ => Iff.rfl⟩
  obtain ⟨a, b, c, d⟩ := newLog_rebuilds hU I ents _ cid l.sortFn (fun e he => I.inU e (h1 e he)) hset hheads
  exact ⟨a, b, c, d, rfl⟩

/-- unfolding of a successful `rebuild` step -/
theorem rebuild_step {s s' : Sys} {src : Nat} {cid : Bytes} {ents : List Entry} {wh : Bool}
    (hstep : s.step (.rebuild src cid ents wh) = some s') :
    ∃ l, s.logs src = some l ∧
      (ents.all (fun e => l.entries.contains e) && l.entries.all (fun e => ents.contains e)) = true ∧
      s' = { s with logs := upd s.logs s.n (some (newLog l.id cid l.sortFn ents (if wh then l.heads else []))),
                    know := upd s.know s.n (s.know src), n := s.n + 1 } := by
  simp only [Sys.step] at hstep
  cases hl : s.logs src with
  | none => rw [hl] at hstep; cases hstep
  | some l =>
    rw [hl] at hstep
    simp only at hstep
    split at hstep
    · rename_i hg
      simp only [Option.some.injEq] at hstep
      exact ⟨l, rfl, hg, hstep.symm⟩
    · cases hstep

theorem sysInv_step {s s' : Sys} (I : SysInv s) {op : Op} (hstep : s.step op = some s') : SysInv s' := by
  cases op with
  | newLog id cid k =>
    simp only [Sys.step, Option.some.injEq] at hstep
    subst hstep
    exact {
      uni := I.uni
      inv := by
        intro r l hl
        dsimp only at hl ⊢
        by_cases hr : r = s.n
        · subst hr
          rw [upd_same] at hl
          cases hl
          exact inv_emptyLog _ _ _ _
        · rw [upd_other _ _ _ _ hr] at hl
          exact I.inv r l hl
      know := by
        intro r l hl h
        dsimp only at hl ⊢
        by_cases hr : r = s.n
        · subst hr
          rw [upd_same] at hl ⊢
          cases hl
          simp [emptyLog, hashes]
        · rw [upd_other _ _ _ _ hr] at hl ⊢
          exact I.know r l hl h
      fresh := by
        intro r hr
        dsimp only at hr ⊢
        rw [upd_other _ _ _ _ (by omega)]
        exact I.fresh r (by omega) }
  | append r pc h tag =>
    simp only [Sys.step] at hstep
    cases hl : s.logs r with
    | none => rw [hl] at hstep; cases hstep
    | some l =>
      rw [hl] at hstep
      simp only at hstep
      by_cases hc : (hashes s.uni).contains h = true
      · rw [if_pos hc] at hstep; cases hstep
      · rw [if_neg hc] at hstep
        have hfresh : h ∉ hashes s.uni := fun hm => hc (List.contains_iff_mem.mpr hm)
        simp only [Option.some.injEq] at hstep
        subst hstep
        have IL := I.inv r l hl
        exact {
          uni := by
            show (hashes (s.uni ++ [(append l pc h tag).1])).Nodup
            unfold hashes at *
            rw [List.map_append, List.nodup_append]
            refine ⟨I.uni, by simp, ?_⟩
            intro a ha b hb
            have hb' : b = h := by simpa [append_hash] using hb
            intro hab
            exact hfresh (by rw [← hb', ← hab]; exact ha)
          inv := by
            intro r' l' hl'
            dsimp only at hl' ⊢
            by_cases hr : r' = r
            · subst hr
              rw [upd_same] at hl'
              cases hl'
              exact inv_append IL pc h tag hfresh
            · rw [upd_other _ _ _ _ hr] at hl'
              exact inv_mono_universe (fun x hx => List.mem_append_left _ hx) (I.inv r' l' hl')
          know := by
            intro r' l' hl' x
            dsimp only at hl' ⊢
            by_cases hr : r' = r
            · subst hr
              rw [upd_same] at hl' ⊢
              cases hl'
              rw [append_entries IL pc h tag hfresh]
              unfold hashes
              rw [List.map_append, List.mem_append, List.mem_append]
              have := I.know r' l hl x
              unfold hashes at this
              rw [this]
              simp [append_hash]
            · rw [upd_other _ _ _ _ hr] at hl' ⊢
              exact I.know r' l' hl' x
          fresh := by
            intro r' hr'
            dsimp only at hr' ⊢
            have hne : r' ≠ r := by
              intro e; subst e
              have := I.fresh r' hr'
              rw [hl] at this; cases this
            rw [upd_other _ _ _ _ hne]
            exact I.fresh r' hr' }
  | join r r2 =>
    simp only [Sys.step] at hstep
    cases ha : s.logs r with
    | none => rw [ha] at hstep; simp at hstep
    | some a =>
      cases hb : s.logs r2 with
      | none => rw [ha, hb] at hstep; simp at hstep
      | some b =>
        rw [ha, hb] at hstep
        simp only at hstep
        by_cases hrr : r = r2
        · simp only [hrr, if_true, Option.some.injEq] at hstep
          subst hstep; exact I
        · simp only [hrr, if_false] at hstep
          by_cases hid : a.id = b.id
          · rw [join_eq a b hid] at hstep
            simp only [hid, if_true, Option.some.injEq] at hstep
            subst hstep
            have IA := I.inv r a ha
            have IB := I.inv r2 b hb
            exact {
              uni := I.uni
              inv := by
                intro r' l' hl'
                dsimp only at hl' ⊢
                by_cases hr : r' = r
                · subst hr
                  rw [upd_same] at hl'
                  cases hl'
                  exact inv_join I.uni IA IB hid
                · rw [upd_other _ _ _ _ hr] at hl'
                  exact I.inv r' l' hl'
              know := by
                intro r' l' hl' x
                dsimp only at hl' ⊢
                by_cases hr : r' = r
                · subst hr
                  rw [upd_same] at hl' ⊢
                  cases hl'
                  rw [List.mem_append, I.know r' a ha x, I.know r2 b hb x]
                  show _ ↔ x ∈ hashes (jEntries a b)
                  unfold hashes
                  simp only [List.mem_map]
                  constructor
                  · rintro (⟨e, he, hh⟩ | ⟨e, he, hh⟩)
                    · exact ⟨e, (mem_jEntries I.uni IA IB hid).mpr (Or.inl he), hh⟩
                    · exact ⟨e, (mem_jEntries I.uni IA IB hid).mpr (Or.inr he), hh⟩
                  · rintro ⟨e, he, hh⟩
                    rcases (mem_jEntries I.uni IA IB hid).mp he with h1 | h1
                    · exact Or.inl ⟨e, h1, hh⟩
                    · exact Or.inr ⟨e, h1, hh⟩
                · rw [upd_other _ _ _ _ hr] at hl' ⊢
                  exact I.know r' l' hl' x
              fresh := by
                intro r' hr'
                dsimp only at hr' ⊢
                have hne : r' ≠ r := by
                  intro e; subst e
                  have := I.fresh r' hr'
                  rw [ha] at this; cases this
                rw [upd_other _ _ _ _ hne]
                exact I.fresh r' hr' }
          · rw [join_other_id a b.id b.entries b.heads (-1) _ hid] at hstep
            simp only [hid, if_false, Option.some.injEq] at hstep
            subst hstep
            exact {
              uni := I.uni
              inv := by
                intro r' l' hl'
                dsimp only at hl' ⊢
                by_cases hr : r' = r
                · subst hr
                  rw [upd_same] at hl'
                  cases hl'
                  exact I.inv r' a ha
                · rw [upd_other _ _ _ _ hr] at hl'
                  exact I.inv r' l' hl'
              know := by
                intro r' l' hl' x
                dsimp only at hl' ⊢
                by_cases hr : r' = r
                · subst hr
                  rw [upd_same] at hl'
                  cases hl'
                  exact I.know r' a ha x
                · rw [upd_other _ _ _ _ hr] at hl'
                  exact I.know r' l' hl' x
              fresh := by
                intro r' hr'
                dsimp only at hr' ⊢
                have hne : r' ≠ r := by
                  intro e; subst e
                  have := I.fresh r' hr'
                  rw [ha] at this; cases this
                rw [upd_other _ _ _ _ hne]
                exact I.fresh r' hr' }
  | setIdentity r cid =>
    simp only [Sys.step] at hstep
    cases hl : s.logs r with
    | none => rw [hl] at hstep; cases hstep
    | some l =>
      rw [hl] at hstep
      simp only [Option.some.injEq] at hstep
      subst hstep
      exact {
        uni := I.uni
        inv := by
          intro r' l' hl'
          dsimp only at hl' ⊢
          by_cases hr : r' = r
          · subst hr
            rw [upd_same] at hl'
            cases hl'
            exact inv_setIdentity (I.inv r' l hl) cid
          · rw [upd_other _ _ _ _ hr] at hl'
            exact I.inv r' l' hl'
        know := by
          intro r' l' hl' x
          dsimp only at hl' ⊢
          by_cases hr : r' = r
          · subst hr
            rw [upd_same] at hl'
            cases hl'
            exact I.know r' l hl x
          · rw [upd_other _ _ _ _ hr] at hl'
            exact I.know r' l' hl' x
        fresh := by
          intro r' hr'
          dsimp only at hr' ⊢
          have hne : r' ≠ r := by
            intro e; subst e
            have := I.fresh r' hr'
            rw [hl] at this; cases this
          rw [upd_other _ _ _ _ hne]
          exact I.fresh r' hr' }
  | rebuild src cid ents wh =>
    simp only [Sys.step] at hstep
    cases hl : s.logs src with
    | none => rw [hl] at hstep; cases hstep
    | some l =>
      rw [hl] at hstep
      simp only at hstep
      split at hstep
      · rename_i hg
        simp only [Option.some.injEq] at hstep
        subst hstep
        obtain ⟨hInv, _, hE, _, _⟩ := rebuild_spec I.uni (I.inv src l hl) cid wh hg
        exact {
          uni := I.uni
          inv := by
            intro r l' hl'
            dsimp only at hl' ⊢
            by_cases hr : r = s.n
            · subst hr
              rw [upd_same] at hl'
              cases hl'
              exact hInv
            · rw [upd_other _ _ _ _ hr] at hl'
              exact I.inv r l' hl'
          know := by
            intro r l' hl' h
            dsimp only at hl' ⊢
            by_cases hr : r = s.n
            · subst hr
              rw [upd_same] at hl' ⊢
              cases hl'
              rw [I.know src l hl h]
              unfold hashes
              simp only [List.mem_map]
              exact ⟨fun ⟨e, he, hx⟩ => ⟨e, (hE e).mpr he, hx⟩, fun ⟨e, he, hx⟩ => ⟨e, (hE e).mp he, hx⟩⟩
            · rw [upd_other _ _ _ _ hr] at hl' ⊢
              exact I.know r l' hl' h
          fresh := by
            intro r hr
            dsimp only at hr ⊢
            rw [upd_other _ _ _ _ (by omega)]
            exact I.fresh r (by omega) }
      · cases hstep


theorem sysInv_run : ∀ (ops : List Op) {s s' : Sys}, SysInv s → s.run ops = some s' → SysInv s'
  | [], s, s', I, h => by simp [Sys.run] at h; exact h ▸ I
  | op :: ops, s, s', I, h => by
    simp only [Sys.run] at h
    cases hs : s.step op with
    | none => rw [hs] at h; cases h
    | some s1 =>
      rw [hs] at h
      exact sysInv_run ops (sysInv_step I hs) h

/-- every reachable system satisfies the invariant -/
theorem reachable_inv {s : Sys} (hr : Reachable s) : SysInv s := by
  obtain ⟨ops, h⟩ := hr
  exact sysInv_run ops sysInv_init h


/-- heads are a function of the entry set -/
theorem heads_fn_of_set {U : List Entry} {a b : Log} (Ia : Inv U a) (Ib : Inv U b)
    (hE : ∀ x, x ∈ a.entries ↔ x ∈ b.entries) : ∀ x, x ∈ a.heads ↔ x ∈ b.heads := by
  have hn : ∀ h, namedBy a.entries h ↔ namedBy b.entries h := by
    intro h
    constructor
    · exact namedBy_mono (fun e he => (hE e).mp he)
    · exact namedBy_mono (fun e he => (hE e).mpr he)
  intro x
  constructor
  · intro hx
    exact Ib.headsSpec x ((hE x).mp (Ia.headsIn x hx)) (fun h => Ia.headsUnref x hx ((hn _).mpr h))
  · intro hx
    exact Ia.headsSpec x ((hE x).mpr (Ib.headsIn x hx)) (fun h => Ib.headsUnref x hx ((hn _).mp h))

/-- one operation never removes an entry from any replica, and keeps id and ordering -/
theorem step_mono {s s' : Sys} (I : SysInv s) {op : Op} (hstep : s.step op = some s') :
    ∀ r l, s.logs r = some l → ∃ l', s'.logs r = some l' ∧ (∀ x ∈ l.entries, x ∈ l'.entries) ∧
      l'.sortFn = l.sortFn ∧ l'.id = l.id := by
  intro r0 l0 hl0
  cases op with
  | newLog id cid k =>
    simp only [Sys.step, Option.some.injEq] at hstep
    subst hstep
    dsimp only
    have hr : r0 ≠ s.n := by
      intro e; subst e
      have := I.fresh s.n (Nat.le_refl _)
      rw [hl0] at this; cases this
    exact ⟨l0, by rw [upd_other _ _ _ _ hr]; exact hl0, fun x hx => hx, rfl, rfl⟩
  | append r pc h tag =>
    simp only [Sys.step] at hstep
    cases hl : s.logs r with
    | none => rw [hl] at hstep; cases hstep
    | some l =>
      rw [hl] at hstep
      simp only at hstep
      by_cases hc : (hashes s.uni).contains h = true
      · rw [if_pos hc] at hstep; cases hstep
      · rw [if_neg hc] at hstep
        have hfresh : h ∉ hashes s.uni := fun hm => hc (List.contains_iff_mem.mpr hm)
        simp only [Option.some.injEq] at hstep
        subst hstep
        dsimp only
        by_cases hr : r0 = r
        · subst hr
          rw [hl] at hl0; cases hl0
          refine ⟨(append l0 pc h tag).2, by rw [upd_same], ?_, rfl, rfl⟩
          intro x hx
          rw [append_entries (I.inv r0 l0 hl) pc h tag hfresh]
          exact List.mem_append_left _ hx
        · exact ⟨l0, by rw [upd_other _ _ _ _ hr]; exact hl0, fun x hx => hx, rfl, rfl⟩
  | join r r2 =>
    simp only [Sys.step] at hstep
    cases ha : s.logs r with
    | none => rw [ha] at hstep; simp at hstep
    | some a =>
      cases hb : s.logs r2 with
      | none => rw [ha, hb] at hstep; simp at hstep
      | some b =>
        rw [ha, hb] at hstep
        simp only at hstep
        by_cases hrr : r = r2
        · simp only [hrr, if_true, Option.some.injEq] at hstep
          subst hstep; exact ⟨l0, hl0, fun x hx => hx, rfl, rfl⟩
        · simp only [hrr, if_false] at hstep
          by_cases hid : a.id = b.id
          · rw [join_eq a b hid] at hstep
            simp only [hid, if_true, Option.some.injEq] at hstep
            subst hstep
            dsimp only
            by_cases hr : r0 = r
            · subst hr
              rw [ha] at hl0; cases hl0
              refine ⟨joinU l0 b, by rw [upd_same], ?_, rfl, rfl⟩
              intro x hx
              exact (mem_jEntries I.uni (I.inv r0 l0 ha) (I.inv r2 b hb) hid).mpr (Or.inl hx)
            · exact ⟨l0, by rw [upd_other _ _ _ _ hr]; exact hl0, fun x hx => hx, rfl, rfl⟩
          · rw [join_other_id a b.id b.entries b.heads (-1) _ hid] at hstep
            simp only [hid, if_false, Option.some.injEq] at hstep
            subst hstep
            dsimp only
            by_cases hr : r0 = r
            · subst hr
              rw [ha] at hl0; cases hl0
              exact ⟨l0, by rw [upd_same], fun x hx => hx, rfl, rfl⟩
            · exact ⟨l0, by rw [upd_other _ _ _ _ hr]; exact hl0, fun x hx => hx, rfl, rfl⟩
  | setIdentity r cid =>
    simp only [Sys.step] at hstep
    cases hl : s.logs r with
    | none => rw [hl] at hstep; cases hstep
    | some l =>
      rw [hl] at hstep
      simp only [Option.some.injEq] at hstep
      subst hstep
      dsimp only
      by_cases hr : r0 = r
      · subst hr
        rw [hl] at hl0; cases hl0
        exact ⟨setIdentity l0 cid, by rw [upd_same], fun x hx => hx, rfl, rfl⟩
      · exact ⟨l0, by rw [upd_other _ _ _ _ hr]; exact hl0, fun x hx => hx, rfl, rfl⟩
  | rebuild src cid ents wh =>
    simp only [Sys.step] at hstep
    cases hl : s.logs src with
    | none => rw [hl] at hstep; cases hstep
    | some l =>
      rw [hl] at hstep
      simp only at hstep
      split at hstep
      · simp only [Option.some.injEq] at hstep
        subst hstep
        dsimp only
        have hr : r0 ≠ s.n := by
          intro e; subst e
          have := I.fresh s.n (Nat.le_refl _)
          rw [hl0] at this; cases this
        exact ⟨l0, by rw [upd_other _ _ _ _ hr]; exact hl0, fun x hx => hx, rfl, rfl⟩
      · cases hstep

end Model
