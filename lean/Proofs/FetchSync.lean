import Model.FetchSync
/-!
# Proofs.FetchSync — no lost wake-up, no deadlock, bounded runs of the fetcher's synchronisation
-/
namespace Model.FetchSync

def holdsMutex (p : DPC) : Bool := p == .top || p == .check || p == .final

structure Inv (s : FS) : Prop where
  conc_pos : 0 < s.conc
  sem : s.sem + s.nF = s.conc
  t : s.t = s.nF + s.nW
  mutex : s.mutexD = holdsMutex s.pc
  sig : s.signalled = true → parked s = true
  waitT : parked s = true → s.signalled = false → 0 < s.t
  topQ : s.pc = .top → s.q = 0 → s.t = 0
  fin : (s.pc = .final ∨ s.pc = .waitingF ∨ s.pc = .done) → s.gaveUp = false → s.t = 0 ∧ s.q = 0
  doneT : s.pc = .done → s.t = 0

theorem inv_init (conc q0 budget : Nat) (h : 0 < conc) : Inv (init conc q0 budget) := by
  constructor <;> simp [init, holdsMutex, parked] <;> omega

theorem inv_step {s s' : FS} {a : Act} (I : Inv s) (h : step s a = some s') : Inv s' := by
  obtain ⟨h1, h2, h3, h4, h5, h6, h7, h8, h9⟩ := I
  cases a with
  | enter k =>
    simp only [step] at h
    split at h <;> cases h
    rename_i hg
    obtain ⟨hw, hm, hk⟩ := hg
    have htpos : 0 < s.t := by omega
    have hnm : holdsMutex s.pc = false := by rw [← h4]; exact hm
    refine ⟨h1, h2, ?_, h4, ?_, ?_, ?_, ?_, ?_⟩ <;> dsimp only
    · omega
    · intro hs
      show parked s = true
      cases hsg : s.signalled with
      | true => exact h5 hsg
      | false => rw [hsg] at hs; simpa using hs
    · intro hp hs
      have hp' : parked s = true := hp
      rw [hp'] at hs
      simp at hs
    · intro hp
      rw [hp] at hnm
      simp [holdsMutex] at hnm
    · intro hp hgu
      have := (h8 hp hgu).1
      omega
    · intro hp
      have := h9 hp
      omega
  | _ =>
    simp only [step] at h
    split at h <;> cases h
    rename_i hg
    refine ⟨?_, ?_, ?_, ?_, ?_, ?_, ?_, ?_, ?_⟩ <;> dsimp only [holdsMutex, parked] at * <;> (try omega) <;>
      (try (simp_all; done)) <;> (try (simp_all; omega))

theorem inv_run : ∀ (as : List Act) {s s' : FS}, Inv s → run s as = some s' → Inv s'
  | [], s, s', I, h => by simp only [run, Option.some.injEq] at h; exact h ▸ I
  | a :: as, s, s', I, h => by
    simp only [run] at h
    cases hs : step s a with
    | none => rw [hs] at h; cases h
    | some s1 => rw [hs] at h; exact inv_run as (inv_step I hs) h

/-- **no deadlock, no lost wake-up**: as long as the dispatcher has not returned, some goroutine can move
    (a worker's `fetchEntry` is assumed to return: the store answers or the context is cancelled) -/
theorem progress {s : FS} (I : Inv s) (hnd : s.pc ≠ .done) : ∃ a s', step s a = some s' := by
  obtain ⟨h1, h2, h3, h4, h5, h6, h7, h8, h9⟩ := I
  cases hpc : s.pc with
  | done => exact absurd hpc hnd
  | top =>
    by_cases hq : s.q = 0
    · exact ⟨.toFinal, _, by simp only [step]; rw [if_pos ⟨hpc, hq⟩]⟩
    · by_cases hc : s.cancelled = true
      · exact ⟨.giveUp, _, by simp only [step]; rw [if_pos ⟨hpc, by omega, hc⟩]⟩
      · by_cases hsem : 0 < s.sem
        · exact ⟨.dispatch, _, by simp only [step]; rw [if_pos ⟨hpc, by omega, by simpa using hc, hsem⟩]⟩
        · -- every slot is taken: a request is in flight and will return
          exact ⟨.complete, _, by simp only [step]; rw [if_pos]; omega⟩
  | check =>
    by_cases hw : s.q = 0 ∧ 0 < s.t
    · exact ⟨.wait, _, by simp only [step]; rw [if_pos]; exact ⟨hpc, hw.1, hw.2⟩⟩
    · exact ⟨.loopBack, _, by simp only [step]; rw [if_pos]; exact ⟨hpc, hw⟩⟩
  | final =>
    by_cases ht : 0 < s.t
    · exact ⟨.waitF, _, by simp only [step]; rw [if_pos]; exact ⟨hpc, ht⟩⟩
    · exact ⟨.finish, _, by simp only [step]; rw [if_pos]; exact ⟨hpc, by omega⟩⟩
  | waiting =>
    cases hsg : s.signalled with
    | true => exact ⟨.wake, _, by simp only [step]; rw [if_pos]; exact ⟨hpc, hsg⟩⟩
    | false =>
      have ht : 0 < s.t := h6 (by simp [parked, hpc]) hsg
      have hm : s.mutexD = false := by rw [h4, hpc]; rfl
      by_cases hf : 0 < s.nF
      · exact ⟨.complete, _, by simp only [step]; rw [if_pos]; exact hf⟩
      · exact ⟨.enter 0, _, by simp only [step]; rw [if_pos]; exact ⟨by omega, hm, Nat.zero_le _⟩⟩
  | waitingF =>
    cases hsg : s.signalled with
    | true => exact ⟨.wakeF, _, by simp only [step]; rw [if_pos]; exact ⟨hpc, hsg⟩⟩
    | false =>
      have ht : 0 < s.t := h6 (by simp [parked, hpc]) hsg
      have hm : s.mutexD = false := by rw [h4, hpc]; rfl
      by_cases hf : 0 < s.nF
      · exact ⟨.complete, _, by simp only [step]; rw [if_pos]; exact hf⟩
      · exact ⟨.enter 0, _, by simp only [step]; rw [if_pos]; exact ⟨by omega, hm, Nat.zero_le _⟩⟩

/-! ### bounded: every step decreases a potential -/

def rank : DPC → Nat
  | .top => 2 | .check => 3 | .waiting => 1 | .final => 1 | .waitingF => 0 | .done => 0

def potential (s : FS) : Nat :=
  10 * (s.budget + s.q) + 8 * s.nF + 5 * s.nW + (if s.signalled then 3 else 0) + rank s.pc +
    (if s.cancelled then 0 else 1)

theorem step_decreases {s s' : FS} {a : Act} (h : step s a = some s') : potential s' < potential s := by
  cases a with
  | enter k =>
    simp only [step] at h
    split at h <;> cases h
    rename_i hg
    simp only [potential]
    have hx : (if (s.signalled || parked s) = true then 3 else 0) ≤ 3 := by split <;> omega
    generalize (if (s.signalled || parked s) = true then 3 else 0) = x at hx
    generalize (if s.signalled = true then 3 else 0) = y
    generalize rank s.pc = r
    generalize (if s.cancelled = true then 0 else 1) = c
    omega
  | _ =>
    simp only [step] at h
    split at h <;> cases h
    rename_i hg
    simp only [potential, rank, parked]
    first
      | omega
      | (cases hs : s.signalled <;> cases hc : s.cancelled <;> simp_all [rank] <;> omega)

/-- every run from `s` has at most `potential s` steps: the synchronisation cannot livelock -/
theorem run_bounded : ∀ (as : List Act) {s s' : FS}, run s as = some s' → as.length + potential s' ≤ potential s
  | [], s, s', h => by simp only [run, Option.some.injEq] at h; subst h; simp
  | a :: as, s, s', h => by
    simp only [run] at h
    cases hs : step s a with
    | none => rw [hs] at h; cases h
    | some s1 =>
      rw [hs] at h
      have := run_bounded as h
      have := step_decreases hs
      simp only [List.length_cons]
      omega

/-- when the dispatcher returns, no worker is left behind, and — unless it gave up after a cancellation —
    nothing is left in the queue -/
theorem at_return {s : FS} (I : Inv s) (hd : s.pc = .done) :
    s.t = 0 ∧ s.nF = 0 ∧ s.nW = 0 ∧ s.sem = s.conc ∧ (s.gaveUp = false → s.q = 0) := by
  have ht := I.doneT hd
  have h3 := I.t
  have h2 := I.sem
  refine ⟨ht, by omega, by omega, by omega, fun hg => (I.fin (Or.inr (Or.inr hd)) hg).2⟩

/-- a dispatcher that is not parked in `Wait` and has not returned holds the mutex; a worker's completion
    section runs only when it does not: the sections exclude each other -/
theorem exclusion {s s' : FS} {k : Nat} (I : Inv s) (h : step s (.enter k) = some s') :
    s.pc = .waiting ∨ s.pc = .waitingF ∨ s.pc = .done := by
  simp only [step] at h
  split at h
  · rename_i hg
    have := I.mutex
    rw [hg.2.1] at this
    cases hp : s.pc <;> simp [holdsMutex, hp] at this <;> simp
  · cases h

/-! ### the slot released inside the completion section (seeded change C11c): a deadlock -/

/-- one slot, two hashes: after the first dispatch the dispatcher is back at the loop head holding the
    mutex and waits for a slot; the worker has its block and waits for the mutex to release the slot -/
def stuck : FS := { init 1 2 0 with sem := 0, q := 1, t := 1, nW := 1 }

theorem old_variant_reaches_stuck :
    (do let s1 ← stepOld (init 1 2 0) .dispatch; let s2 ← stepOld s1 .loopBack; stepOld s2 .complete) = some stuck := by
  decide

/-- nothing but a cancellation (the timeout, if one was given) can happen any more -/
theorem old_variant_deadlocks : ∀ a, a ≠ .cancel → stepOld stuck a = none := by
  intro a ha
  cases a <;> simp [stepOld, step, stuck, init] at ha ⊢

end Model.FetchSync
