import Model.Cbor
/-!
# Proofs.Cbor — the decoders invert the encoders

Everything is stated with an arbitrary remainder `r` after the encoded item so that the lemmas compose.
-/
namespace Model.Cbor
open Model

theorem headInfo_le (n : Nat) : headInfo n ≤ 27 := by
  unfold headInfo
  repeat' split
  all_goals omega

theorem pHead_head (m n : Nat) (r : Bytes) (hm : m < 8) (hn : n < two64) :
    pHead (head m n ++ r) = some (m, n, r) := by
  unfold two64 at hn
  by_cases h1 : n < 24
  · simp only [head, headInfo, headArg, h1, if_true, List.cons_append, List.nil_append, pHead]
    have : ¬ (m * 32 + n ≥ 256) := by omega
    simp only [this, if_false]
    have h2 : (m * 32 + n) % 32 = n := by omega
    have h3 : (m * 32 + n) / 32 = m := by omega
    simp [h2, h3, h1]
  · by_cases h2 : n < 256
    · simp only [head, headInfo, headArg, h1, h2, if_true, if_false, List.cons_append, List.nil_append, pHead]
      have : ¬ (m * 32 + 24 ≥ 256) := by omega
      simp only [this, if_false]
      have h2 : (m * 32 + 24) % 32 = 24 := by omega
      have h3 : (m * 32 + 24) / 32 = m := by omega
      simp [h2, h3]
    · by_cases h3 : n < 65536
      · simp only [head, headInfo, headArg, h1, h2, h3, if_true, if_false, List.cons_append, List.nil_append, pHead]
        have : ¬ (m * 32 + 25 ≥ 256) := by omega
        simp only [this, if_false]
        have h2 : (m * 32 + 25) % 32 = 25 := by omega
        have h3 : (m * 32 + 25) / 32 = m := by omega
        simp [h2, h3]
        omega
      · by_cases h4 : n < 4294967296
        · simp only [head, headInfo, headArg, h1, h2, h3, h4, if_true, if_false, List.cons_append, List.nil_append, pHead]
          have : ¬ (m * 32 + 26 ≥ 256) := by omega
          simp only [this, if_false]
          have h2 : (m * 32 + 26) % 32 = 26 := by omega
          have h3 : (m * 32 + 26) / 32 = m := by omega
          simp [h2, h3]
          omega
        · simp only [head, headInfo, headArg, h1, h2, h3, h4, if_false, List.cons_append, List.nil_append, pHead]
          have : ¬ (m * 32 + 27 ≥ 256) := by omega
          simp only [this, if_false]
          have h2 : (m * 32 + 27) % 32 = 27 := by omega
          have h3 : (m * 32 + 27) / 32 = m := by omega
          simp [h2, h3]
          omega

theorem isNull_head (m n : Nat) (r : Bytes) (hm : m < 7) : isNull (head m n ++ r) = false := by
  have := headInfo_le n
  simp only [head, List.cons_append, isNull]
  simp
  omega

@[simp] theorem isNull_null (r : Bytes) : isNull (246 :: r) = true := by simp [isNull]

theorem take_len_append (b r : Bytes) : (b ++ r).take b.length = b := by simp
theorem drop_len_append (b r : Bytes) : (b ++ r).drop b.length = r := by simp

theorem pText_enc (b r : Bytes) (h : b.length < two64) :
    pText (head 3 b.length ++ (b ++ r)) = some (b, r) := by
  unfold pText
  rw [pHead_head 3 _ _ (by omega) h]
  simp

theorem pUint_enc (n : Nat) (r : Bytes) (h : n < two64) : pUint (head 0 n ++ r) = some (n, r) := by
  unfold pUint
  simp only [pHead_head 0 _ _ (by omega) h]

theorem pInt_enc (t : Int) (r : Bytes) (h1 : -9223372036854775808 ≤ t) (h2 : t < 9223372036854775808) :
    pInt (enc (intItem t) ++ r) = some (t, r) := by
  unfold intItem
  by_cases h : t ≥ 0
  · simp only [h, if_true, enc]
    unfold pInt
    rw [pHead_head 0 _ _ (by omega) (by unfold two64; omega)]
    have : t.toNat < 9223372036854775808 := by omega
    simp only [this, if_true]
    have e : Int.ofNat t.toNat = t := by simp; omega
    rw [e]
  · simp only [h, if_false, enc]
    unfold pInt
    rw [pHead_head 1 _ _ (by omega) (by unfold two64; omega)]
    have : (-(t + 1)).toNat < 9223372036854775808 := by omega
    simp only [this, if_true]
    have e : -1 - Int.ofNat (-(t + 1)).toNat = t := by simp; omega
    rw [e]

theorem pLink_enc (c r : Bytes) (h : c.length + 1 < two64) :
    pLink (enc (linkItem c) ++ r) = some (c, r) := by
  simp only [linkItem, enc, List.append_assoc]
  unfold pLink
  rw [pHead_head 6 42 _ (by omega) (by unfold two64; omega)]
  simp only
  have e : (0 :: c).length = c.length + 1 := by simp
  rw [e, pHead_head 2 _ _ (by omega) h]
  simp

theorem pLinkList_enc (l : List Bytes) (r : Bytes) (h : ∀ c ∈ l, c.length + 1 < two64) :
    pLinkList l.length (encList (l.map linkItem) ++ r) = some (l, r) := by
  induction l with
  | nil => simp [pLinkList, encList]
  | cons c t ih =>
    simp only [List.map_cons, encList, List.length_cons, pLinkList, List.append_assoc]
    rw [pLink_enc c _ (h c (by simp))]
    simp only
    rw [ih (fun x hx => h x (by simp [hx]))]

theorem pLinksOpt_enc (o : Option (List Bytes)) (r : Bytes) (h : linksWf o) :
    pLinksOpt (enc (linksItem o) ++ r) = some (o, r) := by
  cases o with
  | none => simp [linksItem, enc, pLinksOpt]
  | some l =>
    simp only [linksItem, enc, List.append_assoc, pLinksOpt]
    rw [isNull_head 4 _ _ (by omega)]
    simp only [List.length_map, Bool.false_eq_true, if_false]
    rw [pHead_head 4 _ _ (by omega) h.1]
    have := pLinkList_enc l r h.2
    simp only [this]

theorem pFields_step {σ : Type} (set : σ → Bytes → Bytes → Option (σ × Bytes)) (n : Nat) (s : σ) (k r : Bytes)
    (hk : k.length < two64) :
    pFields set (n + 1) s (head 3 k.length ++ (k ++ r)) =
      (set s k r).bind (fun p => pFields set n p.1 p.2) := by
  simp only [pFields, pText_enc k r hk]
  cases set s k r with
  | none => rfl
  | some p => rfl

theorem pStructOpt_null {σ : Type} (z : σ) (set : σ → Bytes → Bytes → Option (σ × Bytes)) (r : Bytes) :
    pStructOpt z set (enc .null ++ r) = some (none, r) := by
  simp [enc, pStructOpt]

/-- one field of a struct: consume the key, run the value parser -/
macro "fstep" "[" hs:Lean.Parser.Tactic.simpLemma,* "]" : tactic =>
  `(tactic| (rw [pFields_step _ _ _ _ _ (by decide)];
             simp (config := {decide := true}) only [setClock, setSig, setIdentity, setEntry, setLog, if_true, if_false,
               Option.map, Option.bind, $hs,*]))

theorem pClockOpt_enc (o : Option JClock) (r : Bytes) (h : ∀ c, o = some c → c.wf) :
    pStructOpt ({} : JClock) setClock (enc (clockItem o) ++ r) = some (o, r) := by
  cases o with
  | none => exact pStructOpt_null _ _ _
  | some c =>
    obtain ⟨h1, h2, h3⟩ := h c rfl
    simp only [clockItem, enc, encMap, List.length_cons, List.length_nil, List.append_assoc, List.nil_append, pStructOpt]
    rw [isNull_head 5 _ _ (by omega)]
    simp only [Bool.false_eq_true, if_false]
    rw [pHead_head 5 _ _ (by omega) (by unfold two64; omega)]
    simp only
    fstep [pText_enc _ _ h1]
    fstep [pInt_enc _ _ h2 h3]
    simp [pFields]

theorem pSigOpt_enc (o : Option JSig) (r : Bytes) (h : ∀ c, o = some c → c.wf) :
    pStructOpt ({} : JSig) setSig (enc (sigItem o) ++ r) = some (o, r) := by
  cases o with
  | none => exact pStructOpt_null _ _ _
  | some c =>
    obtain ⟨h1, h2⟩ := h c rfl
    simp only [sigItem, enc, encMap, List.length_cons, List.length_nil, List.append_assoc, List.nil_append, pStructOpt]
    rw [isNull_head 5 _ _ (by omega)]
    simp only [Bool.false_eq_true, if_false]
    rw [pHead_head 5 _ _ (by omega) (by unfold two64; omega)]
    simp only
    fstep [pText_enc _ _ h1]
    fstep [pText_enc _ _ h2]
    simp [pFields]

theorem pIdentityOpt_enc (o : Option JIdentity) (r : Bytes) (h : ∀ c, o = some c → c.wf) :
    pStructOpt ({} : JIdentity) setIdentity (enc (identityItem o) ++ r) = some (o, r) := by
  cases o with
  | none => exact pStructOpt_null _ _ _
  | some c =>
    obtain ⟨h1, h2, h3, h4⟩ := h c rfl
    simp only [identityItem, enc, encMap, List.length_cons, List.length_nil, List.append_assoc, List.nil_append, pStructOpt]
    rw [isNull_head 5 _ _ (by omega)]
    simp only [Bool.false_eq_true, if_false]
    rw [pHead_head 5 _ _ (by omega) (by unfold two64; omega)]
    simp only
    fstep [pText_enc _ _ h1]
    fstep [pText_enc _ _ h3]
    fstep [pText_enc _ _ h2]
    fstep [pSigOpt_enc _ _ h4]
    simp [pFields]


theorem pFields_zero {σ : Type} (set : σ → Bytes → Bytes → Option (σ × Bytes)) (s : σ) (r : Bytes) :
    pFields set 0 s r = some (s, r) := rfl

theorem pNull_null (r : Bytes) : pNull (246 :: r) = some r := by simp [pNull]

theorem entry_roundtrip (j : JEntry) (h : j.wf) : decodeEntry (cborEntry j) = some j := by
  obtain ⟨hv, hid, hkey, hsig, hnext, hrefs, hclock, hpay, hidn, hel, hen⟩ := h
  unfold cborEntry entryItem encLinksFields decodeEntry
  by_cases e1 : j.encLinks = [] <;> by_cases e2 : j.encNonce = []
  all_goals
    simp only [e1, e2, if_true, if_false, List.cons_append, List.nil_append, enc, encMap, List.length_cons,
      List.length_nil, List.append_assoc]
    rw [pHead_head 5 _ _ (by omega) (by unfold two64; omega)]
    simp only
    fstep [pUint_enc _ _ hv]
    fstep [pText_enc _ _ hid]
    fstep [pText_enc _ _ hkey]
    fstep [pText_enc _ _ hsig]
    fstep [pNull_null]
    fstep [pLinksOpt_enc _ _ hnext]
    fstep [pLinksOpt_enc _ _ hrefs]
    fstep [pClockOpt_enc _ _ hclock]
    fstep [pText_enc _ _ hpay]
    fstep [pIdentityOpt_enc _ _ hidn]
  · simp only [pFields_zero]
    cases j; simp_all
  · fstep [pText_enc _ _ hen]
    simp only [pFields_zero]
    cases j; simp_all
  · fstep [pText_enc _ _ hel]
    simp only [pFields_zero]
    cases j; simp_all
  · fstep [pText_enc _ _ hel]
    fstep [pText_enc _ _ hen]
    simp only [pFields_zero]

theorem entryV1_roundtrip (j : JEntry) (h : j.wf) :
    decodeEntry (cborEntryV1 j) = some { j with refs := none, encLinks := [], encNonce := [] } := by
  obtain ⟨hv, hid, hkey, hsig, hnext, hrefs, hclock, hpay, hidn, hel, hen⟩ := h
  unfold cborEntryV1 entryItemV1 decodeEntry
  simp only [List.cons_append, List.nil_append, enc, encMap, List.length_cons, List.length_nil, List.append_assoc]
  rw [pHead_head 5 _ _ (by omega) (by unfold two64; omega)]
  simp only
  fstep [pUint_enc _ _ hv]
  fstep [pText_enc _ _ hid]
  fstep [pText_enc _ _ hkey]
  fstep [pText_enc _ _ hsig]
  fstep [pNull_null]
  fstep [pLinksOpt_enc _ _ hnext]
  fstep [pClockOpt_enc _ _ hclock]
  fstep [pText_enc _ _ hpay]
  fstep [pIdentityOpt_enc _ _ hidn]
  simp only [pFields_zero]

theorem manifest_roundtrip (m : JLog) (h : m.wf) : decodeManifest (cborManifest m) = some m := by
  obtain ⟨hid, hh⟩ := h
  unfold cborManifest logItem decodeManifest
  simp only [enc, encMap, List.length_cons, List.length_nil, List.append_assoc]
  rw [pHead_head 5 _ _ (by omega) (by unfold two64; omega)]
  simp only
  fstep [pText_enc _ _ hid]
  fstep [pLinksOpt_enc _ _ hh]
  simp only [pFields_zero]

/-! ## the encoder emits bytes -/

theorem isBytes_nil : isBytes [] = true := rfl

theorem isBytes_cons (a : Nat) (t : Bytes) : isBytes (a :: t) = true ↔ a < 256 ∧ isBytes t = true := by
  simp [isBytes]

theorem isBytes_append (a b : Bytes) : isBytes (a ++ b) = true ↔ isBytes a = true ∧ isBytes b = true := by
  simp [isBytes, List.all_append]

theorem isBytes_head (m n : Nat) (hm : m < 8) (hn : n < two64) : isBytes (head m n) = true := by
  unfold two64 at hn
  have := headInfo_le n
  simp only [head, isBytes_cons]
  refine ⟨by omega, ?_⟩
  unfold headArg
  repeat' split
  all_goals simp [isBytes]
  all_goals omega

def linksBytes : Option (List Bytes) → Prop
  | none => True
  | some l => ∀ c ∈ l, isBytes c = true

theorem isBytes_text (b : Bytes) (h : b.length < two64) (hb : isBytes b = true) : isBytes (enc (.text b)) = true := by
  simp [enc, isBytes_append, isBytes_head 3 _ (by omega) h, hb]

theorem isBytes_key (k : Bytes) (h : k.length < two64) (hb : isBytes k = true) (r : Bytes) (hr : isBytes r = true) :
    isBytes ((head 3 k.length ++ k) ++ r) = true := by
  simp [isBytes_append, isBytes_head 3 _ (by omega) h, hb, hr]

theorem isBytes_linkList (l : List Bytes) (h2 : ∀ c ∈ l, c.length + 1 < two64) (hb : ∀ c ∈ l, isBytes c = true) :
    isBytes (encList (l.map linkItem)) = true := by
  induction l with
  | nil => simp [encList, isBytes]
  | cons c t ih =>
    simp only [List.map_cons, encList, isBytes_append]
    refine ⟨?_, ih (fun x hx => h2 x (by simp [hx])) (fun x hx => hb x (by simp [hx]))⟩
    have hc := h2 c (by simp)
    simp only [linkItem, enc, isBytes_append, List.length_cons]
    refine ⟨isBytes_head 6 42 (by omega) (by unfold two64; omega), isBytes_head 2 _ (by omega) hc, ?_⟩
    simp [isBytes_cons, hb c (by simp)]

theorem isBytes_links (o : Option (List Bytes)) (h : linksWf o) (hb : linksBytes o) : isBytes (enc (linksItem o)) = true := by
  cases o with
  | none => simp [linksItem, enc, isBytes]
  | some l =>
    obtain ⟨h1, h2⟩ := h
    simp only [linksItem, enc, isBytes_append, List.length_map]
    exact ⟨isBytes_head 4 _ (by omega) h1, isBytes_linkList l h2 hb⟩

/-- the block of an entry that has only links (the plaintext of the encrypted links) is a byte string -/
theorem isBytes_cborEntry_links (nx rf : Option (List Bytes)) (h1 : linksWf nx) (h2 : linksWf rf)
    (b1 : linksBytes nx) (b2 : linksBytes rf) :
    isBytes (cborEntry { next := nx, refs := rf }) = true := by
  have hn := isBytes_links nx h1 b1
  have hr := isBytes_links rf h2 b2
  simp only [cborEntry, entryItem, encLinksFields, if_true, List.append_nil, enc, encMap, clockItem, identityItem,
    isBytes_append, hn, hr, List.length_cons, List.length_nil]
  simp only [isBytes_head 5 _ (by omega) (show (10 : Nat) < two64 by unfold two64; omega), true_and]
  decide

end Model.Cbor
