import Proofs.FetchLimited
import Proofs.Sort
/-!
# Proofs.SortTrim — the loaders' sort-and-trim does not see what the limited fetch cut

If `R ⊆ A` are duplicate-free, every `a ∈ A` is in `R` or has at least `n` members of `R` with a
strictly larger clock time, and `lt` is a strict total order on `A` that puts larger times later, then
`lastN n (sort R) = lastN n (sort A)`.  With `A` the full closure and `R` the result of any accepted
execution this is the independence of the loaded log from concurrency and arrival order.
-/
namespace Model

/-- number of members of `S` strictly after `x` -/
def above (lt : Entry → Entry → Bool) (S : List Entry) (x : Entry) : Nat := (S.filter (fun y => lt x y)).length

theorem lastN_sublist (n : Int) (S : List Entry) : (lastN n S).Sublist S := by
  unfold lastN
  split
  · exact List.nil_sublist _
  · split
    · exact List.Sublist.refl _
    · exact List.drop_sublist _ _

theorem lastN_length (n : Int) (S : List Entry) : (lastN n S).length = min n.toNat S.length := by
  unfold lastN
  split
  · rename_i h; simp; omega
  · split
    · rename_i h1 h2; omega
    · rename_i h1 h2; simp only [List.length_drop]; omega

theorem above_lt_length {lt : Entry → Entry → Bool} {S : List Entry} {x : Entry} (hx : x ∈ S)
    (hirr : lt x x = false) : above lt S x < S.length := by
  have := filter_length_lt_of_imp (fun y => lt x y) (fun _ => true) S (fun _ _ _ => rfl) ⟨x, hx, hirr, rfl⟩
  have hall : S.filter (fun _ => true) = S := List.filter_eq_self.mpr (fun _ _ => rfl)
  rw [hall] at this
  unfold above; omega

theorem mem_lastN_iff {lt : Entry → Entry → Bool} {S : List Entry} (hsorted : S.Pairwise (fun a b => lt a b = true))
    (hasym : ∀ a b, a ∈ S → b ∈ S → lt a b = true → lt b a = false) (n : Int) {x : Entry} (hx : x ∈ S) :
    x ∈ lastN n S ↔ (above lt S x : Int) < n := by
  have hirr : lt x x = false := by
    cases h : lt x x with
    | false => rfl
    | true => exact (hasym x x hx hx h).symm.trans h |>.symm ▸ rfl
  unfold lastN
  split
  · rename_i h0
    constructor
    · intro h; cases h
    · intro h; omega
  · split
    · rename_i h0 h1
      have := above_lt_length hx hirr
      constructor
      · intro _; omega
      · intro _; exact hx
    · rename_i h0 h1
      have hk : S.length - n.toNat ≤ S.length := Nat.sub_le _ _
      have hsplit : S = S.take (S.length - n.toNat) ++ S.drop (S.length - n.toNat) := (List.take_append_drop _ _).symm
      have hdl : (S.drop (S.length - n.toNat)).length = n.toNat := by simp only [List.length_drop]; omega
      have hpw : ∀ p ∈ S.take (S.length - n.toNat), ∀ t ∈ S.drop (S.length - n.toNat), lt p t = true := by
        rw [hsplit, List.pairwise_append] at hsorted
        exact hsorted.2.2
      have habove : above lt S x = above lt (S.take (S.length - n.toNat)) x + above lt (S.drop (S.length - n.toNat)) x := by
        unfold above
        conv => lhs; rw [hsplit]
        rw [List.filter_append, List.length_append]
      constructor
      · intro hd
        have h1 : above lt (S.take (S.length - n.toNat)) x = 0 := by
          unfold above
          rw [List.length_eq_zero_iff, List.filter_eq_nil_iff]
          intro p hp
          have := hasym p x (List.mem_of_mem_take hp) hx (hpw p hp x hd)
          rw [this]; simp
        have h2 := above_lt_length hd hirr
        rw [habove, h1]; omega
      · intro hlt
        apply Classical.byContradiction
        intro hnd
        have hxt : x ∈ S.take (S.length - n.toNat) := by
          rw [hsplit] at hx
          rcases List.mem_append.mp hx with h | h
          · exact h
          · exact absurd h hnd
        have h2 : above lt (S.drop (S.length - n.toNat)) x = n.toNat := by
          unfold above
          rw [List.filter_eq_self.mpr (fun t ht => hpw x hxt t ht), hdl]
        rw [habove, h2] at hlt
        omega

theorem above_perm {lt : Entry → Entry → Bool} {S T : List Entry} (hp : S.Perm T) (x : Entry) :
    above lt S x = above lt T x := by
  unfold above; exact (hp.filter _).length_eq

theorem above_le_of_subset {lt : Entry → Entry → Bool} {S T : List Entry} (hS : S.Nodup)
    (hsub : ∀ y ∈ S, lt x y = true → y ∈ T) : above lt S x ≤ above lt T x := by
  unfold above
  apply List.Nodup.length_le_of_subset (hS.sublist List.filter_sublist)
  intro y hy
  obtain ⟨h1, h2⟩ := List.mem_filter.mp hy
  exact List.mem_filter.mpr ⟨hsub y h1 h2, h2⟩

theorem cntGt_le_above {lt : Entry → Entry → Bool} {R : List Entry} {x : Entry} {t : Int}
    (h : ∀ r ∈ R, r.clock.time > t → lt x r = true) : cntGt R t ≤ above lt R x := by
  rw [cntGt_eq_filter]
  unfold above
  apply filter_length_le_of_imp
  intro r hr hp
  exact h r hr (by simpa using hp)

/-- sorting and keeping the newest `n` gives the same list for the cut result and for the full set -/
theorem lastN_sort_eq {lt : Entry → Entry → Bool} {A R : List Entry} {n : Int}
    (hsto : STO lt (· ∈ A)) (hasym : ∀ a b, a ∈ A → b ∈ A → lt a b = true → lt b a = false)
    (htime : ∀ a b, a ∈ A → b ∈ A → a.clock.time < b.clock.time → lt a b = true)
    (hA : A.Nodup) (hR : R.Nodup) (hsub : ∀ r ∈ R, r ∈ A)
    (hcut : ∀ a ∈ A, a ∈ R ∨ n ≤ (cntGt R a.clock.time : Int)) :
    lastN n (goSort lt R) = lastN n (goSort lt A) := by
  have sA := goSort_sorted hsto A (fun _ h => h) hA
  have sR := goSort_sorted hsto R hsub hR
  have pA := goSort_perm lt A
  have pR := goSort_perm lt R
  have asymA : ∀ a b, a ∈ goSort lt A → b ∈ goSort lt A → lt a b = true → lt b a = false :=
    fun a b ha hb => hasym a b (mem_goSort.mp ha) (mem_goSort.mp hb)
  have asymR : ∀ a b, a ∈ goSort lt R → b ∈ goSort lt R → lt a b = true → lt b a = false :=
    fun a b ha hb => hasym a b (hsub a (mem_goSort.mp ha)) (hsub b (mem_goSort.mp hb))
  have hmem : ∀ x, x ∈ lastN n (goSort lt R) ↔ x ∈ lastN n (goSort lt A) := by
    intro x
    constructor
    · intro hx
      have hxSR : x ∈ goSort lt R := (lastN_sublist n _).subset hx
      have hxR : x ∈ R := mem_goSort.mp hxSR
      have hxA : x ∈ A := hsub x hxR
      have hlt := (mem_lastN_iff sR asymR n hxSR).mp hx
      rw [above_perm pR] at hlt
      have hxSA : x ∈ goSort lt A := mem_goSort.mpr hxA
      apply (mem_lastN_iff sA asymA n hxSA).mpr
      rw [above_perm pA]
      have : above lt A x ≤ above lt R x := by
        apply above_le_of_subset hA
        intro y hy hxy
        rcases hcut y hy with h1 | h1
        · exact h1
        · exfalso
          have : cntGt R y.clock.time ≤ above lt R x := by
            apply cntGt_le_above
            intro r hr hgt
            exact hsto.trans x y r hxA hy (hsub r hr) hxy (htime y r hy (hsub r hr) hgt)
          omega
      omega
    · intro hx
      have hxSA : x ∈ goSort lt A := (lastN_sublist n _).subset hx
      have hxA : x ∈ A := mem_goSort.mp hxSA
      have hlt := (mem_lastN_iff sA asymA n hxSA).mp hx
      rw [above_perm pA] at hlt
      have hRA : above lt R x ≤ above lt A x := above_le_of_subset hR (fun y hy _ => hsub y hy)
      have hxR : x ∈ R := by
        rcases hcut x hxA with h1 | h1
        · exact h1
        · exfalso
          have : cntGt R x.clock.time ≤ above lt R x := by
            apply cntGt_le_above
            intro r hr hgt
            exact htime x r hxA (hsub r hr) hgt
          omega
      have hxSR : x ∈ goSort lt R := mem_goSort.mpr hxR
      apply (mem_lastN_iff sR asymR n hxSR).mpr
      rw [above_perm pR]
      omega
  have ndA : (lastN n (goSort lt A)).Nodup := (pA.nodup_iff.mpr hA).sublist (lastN_sublist n _)
  have ndR : (lastN n (goSort lt R)).Nodup := (pR.nodup_iff.mpr hR).sublist (lastN_sublist n _)
  have pp : (lastN n (goSort lt R)).Perm (lastN n (goSort lt A)) := (List.perm_ext_iff_of_nodup ndR ndA).mpr hmem
  refine List.Perm.eq_of_pairwise ?_ (sR.sublist (lastN_sublist n _)) (sA.sublist (lastN_sublist n _)) pp
  intro a b ha hb hab hba
  have haA : a ∈ A := hsub a (mem_goSort.mp ((lastN_sublist n _).subset ha))
  have hbA : b ∈ A := mem_goSort.mp ((lastN_sublist n _).subset hb)
  have := hasym a b haA hbA hab
  rw [this] at hba; cases hba

end Model
