import Proofs.Inv
/-!
# Proofs.Append — `Append` preserves the invariant; facts about the created entry (C04)
-/
namespace Model

theorem mem_dedupHashes (l : List Hash) : ∀ (acc : List Hash) (x : Hash), x ∈ dedupHashes l acc ↔ x ∈ acc ∨ x ∈ l := by
  induction l with
  | nil => intro acc x; simp [dedupHashes]
  | cons h hs ih =>
    intro acc x
    unfold dedupHashes
    split
    · rename_i hc
      rw [ih]
      have : h ∈ acc := List.contains_iff_mem.mp hc
      constructor
      · rintro (h1 | h1)
        · exact Or.inl h1
        · exact Or.inr (List.mem_cons_of_mem _ h1)
      · rintro (h1 | h1)
        · exact Or.inl h1
        · cases h1 with
          | head => exact Or.inl this
          | tail _ hm => exact Or.inr hm
    · rw [ih]
      simp only [List.mem_append, List.mem_cons, List.not_mem_nil, or_false]
      constructor
      · rintro ((h1 | h1) | h1)
        · exact Or.inl h1
        · exact Or.inr (Or.inl h1)
        · exact Or.inr (Or.inr h1)
      · rintro (h1 | h1 | h1)
        · exact Or.inl (Or.inl h1)
        · exact Or.inl (Or.inr h1)
        · exact Or.inr h1

theorem dedupHashes_nodup (l : List Hash) : ∀ (acc : List Hash), acc.Nodup → (dedupHashes l acc).Nodup := by
  induction l with
  | nil => intro acc h; simpa [dedupHashes] using h
  | cons h hs ih =>
    intro acc hacc
    unfold dedupHashes
    split
    · exact ih acc hacc
    · rename_i hc
      apply ih
      rw [List.nodup_append]
      refine ⟨hacc, by simp, ?_⟩
      intro a ha b hb
      simp at hb; subst hb
      intro hab; subst hab
      exact hc (List.contains_iff_mem.mpr ha)

theorem dedupHashes_eq_self (l : List Hash) : ∀ (acc : List Hash), (acc ++ l).Nodup → dedupHashes l acc = acc ++ l := by
  induction l with
  | nil => intro acc _; simp [dedupHashes]
  | cons h hs ih =>
    intro acc hnd
    unfold dedupHashes
    have hnot : h ∉ acc := by
      intro hm
      rw [List.nodup_append] at hnd
      exact hnd.2.2 h hm h (by simp) rfl
    have hc : acc.contains h = false := by
      rw [Bool.eq_false_iff]; intro hh; exact hnot (List.contains_iff_mem.mp hh)
    simp only [hc]
    rw [ih (acc ++ [h]) (by simpa [List.append_assoc] using hnd)]
    simp

/-- the sorted heads are the heads (as a set), for a duplicate-free head list -/
theorem mem_sortedHeads {l : Log} (hnd : (hashes l.heads).Nodup) {x : Entry} : x ∈ sortedHeads l ↔ x ∈ l.heads := by
  unfold sortedHeads
  have hp := goSort_perm (before l.sortFn) l.heads
  have hnd' : (hashes (goSort (before l.sortFn) l.heads)).Nodup := by
    unfold hashes at *; exact (hp.map _).nodup_iff.mpr hnd
  rw [omFromList_eq_self hnd']
  exact mem_goSort

theorem sortedHeads_eq {l : Log} (hnd : (hashes l.heads).Nodup) : sortedHeads l = goSort (before l.sortFn) l.heads := by
  unfold sortedHeads
  have hp := goSort_perm (before l.sortFn) l.heads
  have hnd' : (hashes (goSort (before l.sortFn) l.heads)).Nodup := by
    unfold hashes at *; exact (hp.map _).nodup_iff.mpr hnd
  exact omFromList_eq_self hnd'

theorem sortedHeads_nodup {l : Log} (hnd : (hashes l.heads).Nodup) : (hashes (sortedHeads l)).Nodup := by
  rw [sortedHeads_eq hnd]
  have hp := goSort_perm (before l.sortFn) l.heads
  unfold hashes at *; exact (hp.map _).nodup_iff.mpr hnd

/-- the predecessors of the planned entry are exactly the head hashes -/
theorem mem_appendPlan_next {l : Log} (hnd : (hashes l.heads).Nodup) (pc : Int) {n : Hash} :
    n ∈ (appendPlan l pc).next ↔ n ∈ hashes l.heads := by
  unfold appendPlan
  simp only
  rw [mem_dedupHashes]
  simp only [List.not_mem_nil, false_or, List.mem_reverse]
  unfold hashes
  simp only [List.mem_map]
  constructor
  · rintro ⟨x, hx, rfl⟩; exact ⟨x, (mem_sortedHeads hnd).mp hx, rfl⟩
  · rintro ⟨x, hx, rfl⟩; exact ⟨x, (mem_sortedHeads hnd).mpr hx, rfl⟩

/-- as a list: the reverse of the sorted heads -/
theorem appendPlan_next_eq {l : Log} (hnd : (hashes l.heads).Nodup) (pc : Int) :
    (appendPlan l pc).next = (hashes (sortedHeads l)).reverse := by
  unfold appendPlan
  simp only
  have h := sortedHeads_nodup hnd
  have : ((List.map (fun x => x.hash) (sortedHeads l)).reverse).Nodup := by
    exact (List.reverse_perm _).nodup_iff.mpr (by simpa [hashes] using h)
  rw [dedupHashes_eq_self _ [] (by simpa using this)]
  simp [hashes]

theorem appendPlan_clock (l : Log) (pc : Int) :
    (appendPlan l pc).clock = { id := l.clock.id, time := max l.clock.time (maxTime (sortedHeads l) 0) + 1 } := by
  unfold appendPlan; rfl

/-- the new clock time is above every entry of the log -/
theorem appendPlan_time_gt {U : List Entry} {l : Log} (I : Inv U l) (pc : Int) (x : Entry) (hx : x ∈ l.entries) :
    x.clock.time < (appendPlan l pc).clock.time := by
  rw [appendPlan_clock]
  simp only
  obtain ⟨h, hh, hd⟩ := every_entry_below_some_head I x hx
  have h1 := hd.time_le I
  have h2 := le_maxTime (sortedHeads l) 0 h ((mem_sortedHeads I.headsNodup).mpr hh)
  have h3 := Int.le_max_right l.clock.time (maxTime (sortedHeads l) 0)
  omega

theorem named_in_U {U : List Entry} {l : Log} (I : Inv U l) {h : Hash} (hn : namedBy l.entries h) : h ∈ hashes U := by
  obtain ⟨e, he, hc⟩ := hn
  obtain ⟨p, hp, hph⟩ := has_iff.mp (I.closed e he h hc)
  unfold hashes
  exact List.mem_map.mpr ⟨p, I.inU p hp, hph⟩

/-- `Append` with a fresh hash preserves the invariant (the universe grows by the new entry) -/
theorem inv_append {U : List Entry} {l : Log} (I : Inv U l) (pc : Int) (h : Hash) (tag : Nat)
    (hfresh : h ∉ hashes U) :
    Inv (U ++ [(append l pc h tag).1]) (append l pc h tag).2 := by
  have hnotin : has l.entries h = false := by
    rw [has_false_iff]
    intro e he hh
    apply hfresh
    unfold hashes
    exact List.mem_map.mpr ⟨e, I.inU e he, hh⟩
  -- name the pieces
  let p := appendPlan l pc
  let e : Entry := { hash := h, logId := l.id, next := p.next, refs := p.refs, clock := p.clock, tag := tag }
  have he1 : (append l pc h tag).1 = e := rfl
  have he2 : (append l pc h tag).2 = appendApply l e := rfl
  rw [he1, he2]
  have hE : (appendApply l e).entries = l.entries ++ [e] := by
    show omSet l.entries e = _
    exact omSet_of_not_has hnotin
  have hH : (appendApply l e).heads = [e] := by
    show omFromList [e] = [e]
    simp [omFromList, omSet]
  have hN : (appendApply l e).nextIdx = e.next.foldl hsSet l.nextIdx := rfl
  have hnext : ∀ n, n ∈ e.next ↔ n ∈ hashes l.heads := fun n => mem_appendPlan_next I.headsNodup pc
  have hnextHead : ∀ n ∈ e.next, ∃ hd ∈ l.heads, hd.hash = n := by
    intro n hn
    have := (hnext n).mp hn
    unfold hashes at this
    obtain ⟨x, hx, hxe⟩ := List.mem_map.mp this
    exact ⟨x, hx, hxe⟩
  have hnamed' : ∀ x, namedBy (l.entries ++ [e]) x ↔ namedBy l.entries x ∨ x ∈ e.next := by
    intro x
    unfold namedBy
    constructor
    · rintro ⟨y, hy, hc⟩
      rw [List.mem_append] at hy
      rcases hy with hy | hy
      · exact Or.inl ⟨y, hy, hc⟩
      · simp at hy; subst hy; exact Or.inr hc
    · rintro (⟨y, hy, hc⟩ | hc)
      · exact ⟨y, List.mem_append_left _ hy, hc⟩
      · exact ⟨e, by simp, hc⟩
  have hh_not_next : h ∉ e.next := by
    intro hm
    obtain ⟨hd, hhd, hhe⟩ := hnextHead h hm
    have := has_of_mem (I.headsIn hd hhd)
    rw [hhe, hnotin] at this; cases this
  exact {
    inU := by
      intro x hx
      rw [hE, List.mem_append] at hx
      rcases hx with hx | hx
      · exact List.mem_append_left _ (I.inU x hx)
      · exact List.mem_append_right _ hx
    nodup := by
      show (hashes (omSet l.entries e)).Nodup
      exact nodup_omSet I.nodup
    closed := by
      intro x hx n hn
      rw [hE] at hx ⊢
      rw [has_append]
      rw [List.mem_append] at hx
      rcases hx with hx | hx
      · simp [I.closed x hx n hn]
      · simp at hx; subst hx
        obtain ⟨hd, hhd, hhe⟩ := hnextHead n hn
        have := has_of_mem (I.headsIn hd hhd)
        rw [hhe] at this
        simp [this]
    mono := by
      intro x hx c hc q hq
      rw [hE] at hx hq
      rw [List.mem_append] at hx
      rcases hx with hx | hx
      · obtain ⟨q', hq'⟩ := get?_isSome_iff.mpr (I.closed x hx c hc)
        have h3 := get?_append_left (F := [e]) hq'
        rw [h3] at hq
        have hqq : q' = q := Option.some.inj hq
        rw [← hqq]
        exact I.mono x hx c hc q' hq'
      · simp at hx; subst hx
        obtain ⟨hd, hhd, hhe⟩ := hnextHead c hc
        have hg : get? l.entries c = some hd := by
          rw [← hhe]; exact get?_eq_of_mem I.nodup (I.headsIn hd hhd)
        have h3 := get?_append_left (F := [e]) hg
        rw [h3] at hq
        have hqq : hd = q := Option.some.inj hq
        rw [← hqq]
        exact appendPlan_time_gt I pc hd (I.headsIn hd hhd)
    headsIn := by
      intro x hx
      rw [hH] at hx; rw [hE]
      simp at hx; subst hx; simp
    headsNodup := by rw [hH]; simp [hashes]
    headsSpec := by
      intro x hx hnn
      rw [hE] at hx hnn
      rw [hH]
      rw [List.mem_append] at hx
      rcases hx with hx | hx
      · exfalso
        apply hnn
        rw [hnamed']
        by_cases hnb : namedBy l.entries x.hash
        · exact Or.inl hnb
        · right
          have := I.headsSpec x hx hnb
          rw [hnext]
          unfold hashes
          exact List.mem_map.mpr ⟨x, this, rfl⟩
      · exact hx
    headsUnref := by
      intro x hx
      rw [hH] at hx
      simp at hx; subst hx
      rw [hE, hnamed']
      rintro (hn | hn)
      · exact hfresh (named_in_U I hn)
      · exact hh_not_next hn
    nextIdx := by
      intro x
      rw [hN, hE, mem_foldl_hsSet, hnamed', I.nextIdx]
    logId := by
      intro x hx
      rw [hE, List.mem_append] at hx
      rcases hx with hx | hx
      · exact I.logId x hx
      · simp at hx; subst hx; rfl }

end Model
