import Proofs.Difference
/-!
# Proofs.Join — the unbounded `Join` of two replicas of one log: what it returns and that it
preserves the invariant (`difference_spec`, `join_heads_spec`, `inv_join`)
-/
namespace Model

def jNew (A B : Log) : List Entry := difference B.entries B.heads A
def jEntries (A B : Log) : List Entry := (jNew A B).foldl omSet A.entries
def jNextIdx (A B : Log) : List Hash := (jNew A B).foldl (fun idx e => e.next.foldl hsSet idx) A.nextIdx
def jNextsFromNew (A B : Log) : List Hash := (jNew A B).foldl (fun acc e => acc ++ e.next) []
/-- the heads of the other log this log holds after admission, as the objects it holds -/
def jAdmitted (A B : Log) : List Entry := B.heads.filterMap (fun h => get? (jEntries A B) h.hash)
def jHeads (A B : Log) : List Entry :=
  omFromList ((findHeads (omMerge A.heads (jAdmitted A B))).filter
    (fun e => !(jNextsFromNew A B).contains e.hash && !(jNextIdx A B).contains e.hash && has (jEntries A B) e.hash))

/-- the state after `A.Join(B, -1)` when both carry the same id and every candidate is admitted -/
def joinU (A B : Log) : Log := joinClock (joinMerge A B.entries B.heads)

theorem joinU_entries (A B : Log) : (joinU A B).entries = jEntries A B := rfl
theorem joinU_heads (A B : Log) : (joinU A B).heads = jHeads A B := rfl
theorem joinU_nextIdx (A B : Log) : (joinU A B).nextIdx = jNextIdx A B := rfl
theorem joinU_id (A B : Log) : (joinU A B).id = A.id := rfl
theorem joinU_sortFn (A B : Log) : (joinU A B).sortFn = A.sortFn := rfl

theorem joinTrim_unbounded (l : Log) : joinTrim l (-1) = l := by
  unfold joinTrim; simp

theorem join_eq (A B : Log) (hid : A.id = B.id) :
    join A B.id B.entries B.heads (-1) = .ok (joinU A B) := by
  unfold join
  simp [hid, joinTrim_unbounded, joinU]

theorem join_other_id (A : Log) (otherId : Bytes) (E H : List Entry) (size : Int) (valid : Entry → Bool)
    (hid : A.id ≠ otherId) : join A otherId E H size valid = .ok A := by
  unfold join; simp [hid]

/-- a rejected candidate makes the whole join fail (the caller keeps the old state) -/
theorem join_err_of_invalid (A : Log) (otherId : Bytes) (E H : List Entry) (size : Int) (valid : Entry → Bool)
    (hid : A.id = otherId) (hbad : ∃ e ∈ difference E H A, valid e = false) :
    join A otherId E H size valid = .err := by
  unfold join
  have : ((difference E H A).any fun e => !valid e) = true := by
    rw [List.any_eq_true]
    obtain ⟨e, he, hv⟩ := hbad
    exact ⟨e, he, by simp [hv]⟩
  simp [hid, this]

/-! ## what `difference` computes between two replicas -/

theorem difference_spec {U : List Entry} (hU : (hashes U).Nodup) {A B : Log} (IA : Inv U A) (IB : Inv U B)
    (hid : A.id = B.id) :
    (∀ x ∈ jNew A B, x ∈ B.entries ∧ has A.entries x.hash = false) ∧
    (hashes (jNew A B)).Nodup ∧
    (∀ x ∈ B.entries, has A.entries x.hash = false → x ∈ jNew A B) := by
  obtain ⟨hs, hn, hc⟩ := difference_general B.entries B.heads A IB.nodup
  refine ⟨fun x hx => ⟨(hs x hx).1, (hs x hx).2.1⟩, hn, ?_⟩
  intro x hx hxA
  obtain ⟨hd, hhd, hdesc⟩ := every_entry_below_some_head IB x hx
  apply hc
  -- every node of the path from the head to `x` is outside `A`
  have key : ∀ {a b : Entry}, Desc B.entries a b → a ∈ B.heads → has A.entries b.hash = false →
      AlivePath B.entries A.entries A.id (B.heads.map (·.hash)) b := by
    intro a b hd
    induction hd with
    | refl ha =>
      intro hah hb
      exact AlivePath.root (List.mem_map.mpr ⟨_, hah, rfl⟩) (get?_eq_of_mem IB.nodup ha) hb
        (by rw [IB.logId _ ha, hid])
    | @step b p c hab hc hg ih =>
      intro hah hp
      have hpc : p.hash = c := (get?_mem hg).2
      have hbB : b ∈ B.entries := hab.mem_right
      have hbA : has A.entries b.hash = false := by
        cases hh : has A.entries b.hash with
        | false => rfl
        | true =>
          exfalso
          obtain ⟨b', hb', hbh⟩ := has_iff.mp hh
          have : b' = b := eq_of_hash_eq hU (IA.inU b' hb') (IB.inU b hbB) hbh
          subst this
          have := IA.closed b' hb' c hc
          rw [← hpc, hp] at this; cases this
      exact AlivePath.step (ih hah hbA) hc hg (by rw [← hpc]; exact hp)
        (by rw [IB.logId p (get?_mem hg).1, hid])
  exact key hdesc hhd hxA

/-! ## the merged entry set -/

section
variable {U : List Entry} {A B : Log}

theorem jEntries_eq (hU : (hashes U).Nodup) (IA : Inv U A) (IB : Inv U B) (hid : A.id = B.id) :
    jEntries A B = A.entries ++ jNew A B := by
  obtain ⟨hs, hn, _⟩ := difference_spec hU IA IB hid
  exact foldl_omSet_eq_append _ _ (fun x hx => (hs x hx).2) hn

theorem B_sub_jEntries (hU : (hashes U).Nodup) (IA : Inv U A) (IB : Inv U B) (hid : A.id = B.id)
    {b : Entry} (hb : b ∈ B.entries) : b ∈ jEntries A B := by
  rw [jEntries_eq hU IA IB hid, List.mem_append]
  obtain ⟨_, _, hc⟩ := difference_spec hU IA IB hid
  cases hh : has A.entries b.hash with
  | false => exact Or.inr (hc b hb hh)
  | true =>
    obtain ⟨a, ha, hah⟩ := has_iff.mp hh
    have : a = b := eq_of_hash_eq hU (IA.inU a ha) (IB.inU b hb) hah
    exact Or.inl (this ▸ ha)

/-- C01 core: the entry set of the join is the union of the two entry sets -/
theorem mem_jEntries (hU : (hashes U).Nodup) (IA : Inv U A) (IB : Inv U B) (hid : A.id = B.id) {x : Entry} :
    x ∈ jEntries A B ↔ x ∈ A.entries ∨ x ∈ B.entries := by
  constructor
  · intro hx
    rw [jEntries_eq hU IA IB hid, List.mem_append] at hx
    rcases hx with h | h
    · exact Or.inl h
    · exact Or.inr ((difference_spec hU IA IB hid).1 x h).1
  · rintro (h | h)
    · rw [jEntries_eq hU IA IB hid]; exact List.mem_append_left _ h
    · exact B_sub_jEntries hU IA IB hid h

theorem namedBy_append {E F : List Entry} {h : Hash} : namedBy (E ++ F) h ↔ namedBy E h ∨ namedBy F h := by
  unfold namedBy
  constructor
  · rintro ⟨e, he, hc⟩
    rw [List.mem_append] at he
    rcases he with he | he
    · exact Or.inl ⟨e, he, hc⟩
    · exact Or.inr ⟨e, he, hc⟩
  · rintro (⟨e, he, hc⟩ | ⟨e, he, hc⟩)
    · exact ⟨e, List.mem_append_left _ he, hc⟩
    · exact ⟨e, List.mem_append_right _ he, hc⟩

theorem namedBy_mono {E F : List Entry} {h : Hash} (hs : ∀ e ∈ E, e ∈ F) (hn : namedBy E h) : namedBy F h := by
  obtain ⟨e, he, hc⟩ := hn; exact ⟨e, hs e he, hc⟩

theorem mem_foldl_nextIdx (N : List Entry) : ∀ (idx : List Hash) (h : Hash),
    h ∈ N.foldl (fun idx e => e.next.foldl hsSet idx) idx ↔ h ∈ idx ∨ namedBy N h := by
  induction N with
  | nil => intro idx h; simp [namedBy]
  | cons x xs ih =>
    intro idx h
    rw [List.foldl_cons, ih, mem_foldl_hsSet]
    unfold namedBy
    simp only [List.mem_cons]
    constructor
    · rintro ((h1 | h1) | ⟨e, he, hc⟩)
      · exact Or.inl h1
      · exact Or.inr ⟨x, Or.inl rfl, h1⟩
      · exact Or.inr ⟨e, Or.inr he, hc⟩
    · rintro (h1 | ⟨e, he | he, hc⟩)
      · exact Or.inl (Or.inl h1)
      · subst he; exact Or.inl (Or.inr hc)
      · exact Or.inr ⟨e, he, hc⟩

theorem mem_jNextIdx (hU : (hashes U).Nodup) (IA : Inv U A) (IB : Inv U B) (hid : A.id = B.id) {h : Hash} :
    h ∈ jNextIdx A B ↔ namedBy (jEntries A B) h := by
  unfold jNextIdx
  rw [mem_foldl_nextIdx, jEntries_eq hU IA IB hid, namedBy_append, IA.nextIdx]

/-! ## the merged heads -/

theorem mem_omMerge {a b : List Entry} {x : Entry} (h : x ∈ omMerge a b) : x ∈ a ∨ x ∈ b := by
  unfold omMerge at h
  rcases mem_foldl_omSet b _ x h with h1 | h1
  · rcases mem_foldl_omSet a [] x h1 with h2 | h2
    · cases h2
    · exact Or.inl h2
  · exact Or.inr h1

theorem omMerge_nodup (a b : List Entry) : (hashes (omMerge a b)).Nodup := by
  unfold omMerge
  exact foldl_omSet_nodup b _ (foldl_omSet_nodup a [] (by simp [hashes]))

theorem has_omMerge {a b : List Entry} {h : Hash} : has (omMerge a b) h = (has a h || has b h) := by
  unfold omMerge
  rw [has_foldl_omSet, has_foldl_omSet]
  simp [has]

/-- inside one universe, the merged head map contains every head of both logs -/
theorem mem_omMerge_iff (hU : (hashes U).Nodup) (IA : Inv U A) (IB : Inv U B) {x : Entry} :
    x ∈ omMerge A.heads B.heads ↔ x ∈ A.heads ∨ x ∈ B.heads := by
  constructor
  · exact mem_omMerge
  · intro hx
    have hxU : x ∈ U := by
      rcases hx with h | h
      · exact IA.inU x (IA.headsIn x h)
      · exact IB.inU x (IB.headsIn x h)
    have hh : has (omMerge A.heads B.heads) x.hash = true := by
      rw [has_omMerge]
      rcases hx with h | h
      · simp [has_of_mem h]
      · simp [has_of_mem h]
    obtain ⟨m, hm, hmh⟩ := has_iff.mp hh
    have hmU : m ∈ U := by
      rcases mem_omMerge hm with h | h
      · exact IA.inU m (IA.headsIn m h)
      · exact IB.inU m (IB.headsIn m h)
    have : m = x := eq_of_hash_eq hU hmU hxU hmh
    exact this ▸ hm

theorem omMerge_sub_jEntries (hU : (hashes U).Nodup) (IA : Inv U A) (IB : Inv U B) (hid : A.id = B.id)
    {x : Entry} (hx : x ∈ omMerge A.heads B.heads) : x ∈ jEntries A B := by
  rcases mem_omMerge hx with h | h
  · exact (mem_jEntries hU IA IB hid).mpr (Or.inl (IA.headsIn x h))
  · exact (mem_jEntries hU IA IB hid).mpr (Or.inr (IB.headsIn x h))

theorem mem_jNextsFromNew {h : Hash} : h ∈ jNextsFromNew A B ↔ namedBy (jNew A B) h := by
  unfold jNextsFromNew
  rw [mem_foldl_next]; simp

/-- `join_heads_spec`: the three filters of `Join` keep exactly the merged heads that nothing in the
    merged log names -/
theorem filterMap_eq_self {α : Type} (f : α → Option α) : ∀ (l : List α), (∀ x ∈ l, f x = some x) → l.filterMap f = l
  | [], _ => rfl
  | a :: t, h => by
    rw [List.filterMap_cons, h a List.mem_cons_self]
    exact congrArg (a :: ·) (filterMap_eq_self f t (fun x hx => h x (List.mem_cons_of_mem _ hx)))

/-- for two replicas of one log every head of the other log is admitted, as itself -/
theorem jAdmitted_eq (hU : (hashes U).Nodup) (IA : Inv U A) (IB : Inv U B) (hid : A.id = B.id) :
    jAdmitted A B = B.heads := by
  unfold jAdmitted
  apply filterMap_eq_self
  intro h hh
  have hJnodup : (hashes (jEntries A B)).Nodup := by
    unfold jEntries; exact foldl_omSet_nodup _ _ IA.nodup
  exact get?_eq_of_mem hJnodup (B_sub_jEntries hU IA IB hid (IB.headsIn h hh))

theorem mem_jHeads (hU : (hashes U).Nodup) (IA : Inv U A) (IB : Inv U B) (hid : A.id = B.id) {x : Entry} :
    x ∈ jHeads A B ↔ (x ∈ A.heads ∨ x ∈ B.heads) ∧ ¬ namedBy (jEntries A B) x.hash := by
  unfold jHeads
  rw [jAdmitted_eq hU IA IB hid]
  have hfn : (hashes ((findHeads (omMerge A.heads B.heads)).filter
      (fun e => !(jNextsFromNew A B).contains e.hash && !(jNextIdx A B).contains e.hash && has (jEntries A B) e.hash))).Nodup := by
    have := findHeads_nodup (omMerge_nodup A.heads B.heads)
    unfold hashes at *
    exact (List.Sublist.map _ List.filter_sublist).nodup this
  rw [omFromList_eq_self hfn, List.mem_filter, mem_findHeads, mem_omMerge_iff hU IA IB]
  simp only [Bool.and_eq_true, Bool.not_eq_true']
  constructor
  · rintro ⟨⟨hx, _⟩, ⟨_, h2⟩, _⟩
    refine ⟨hx, ?_⟩
    intro hn
    have := (mem_jNextIdx hU IA IB hid).mpr hn
    rw [List.contains_iff_mem.mpr this] at h2; cases h2
  · rintro ⟨hx, hn⟩
    refine ⟨⟨hx, ?_⟩, ⟨?_, ?_⟩, ?_⟩
    · intro hm
      exact hn (namedBy_mono (fun e he => omMerge_sub_jEntries hU IA IB hid he) hm)
    · rw [Bool.eq_false_iff]
      intro hc
      have := mem_jNextsFromNew.mp (List.contains_iff_mem.mp hc)
      apply hn
      rw [jEntries_eq hU IA IB hid, namedBy_append]
      exact Or.inr this
    · rw [Bool.eq_false_iff]
      intro hc
      exact hn ((mem_jNextIdx hU IA IB hid).mp (List.contains_iff_mem.mp hc))
    · exact has_of_mem (omMerge_sub_jEntries hU IA IB hid ((mem_omMerge_iff hU IA IB).mpr hx))

theorem jHeads_nodup : (hashes (jHeads A B)).Nodup := by
  unfold jHeads; exact omFromList_nodup _

/-- the unbounded join of two replicas of one log preserves the invariant -/
theorem inv_join (hU : (hashes U).Nodup) (IA : Inv U A) (IB : Inv U B) (hid : A.id = B.id) :
    Inv U (joinU A B) := by
  obtain ⟨hs, hn, hc⟩ := difference_spec hU IA IB hid
  have hE := jEntries_eq hU IA IB hid
  have hJnodup : (hashes (jEntries A B)).Nodup := by
    unfold jEntries; exact foldl_omSet_nodup _ _ IA.nodup
  have hsub : ∀ b ∈ B.entries, b ∈ jEntries A B := fun b hb => B_sub_jEntries hU IA IB hid hb
  have hsubA : ∀ a ∈ A.entries, a ∈ jEntries A B := fun a ha => (mem_jEntries hU IA IB hid).mpr (Or.inl ha)
  exact {
    inU := by
      intro x hx
      rcases (mem_jEntries hU IA IB hid).mp hx with h | h
      · exact IA.inU x h
      · exact IB.inU x h
    nodup := hJnodup
    closed := by
      intro x hx n hnx
      show has (jEntries A B) n = true
      rcases (mem_jEntries hU IA IB hid).mp hx with h | h
      · obtain ⟨p, hp, hph⟩ := has_iff.mp (IA.closed x h n hnx)
        exact has_iff.mpr ⟨p, hsubA p hp, hph⟩
      · obtain ⟨p, hp, hph⟩ := has_iff.mp (IB.closed x h n hnx)
        exact has_iff.mpr ⟨p, hsub p hp, hph⟩
    mono := by
      intro x hx c hcx p hp
      change get? (jEntries A B) c = some p at hp
      obtain ⟨hpJ, hph⟩ := get?_mem hp
      rcases (mem_jEntries hU IA IB hid).mp hx with h | h
      · obtain ⟨p', hp'⟩ := get?_isSome_iff.mpr (IA.closed x h c hcx)
        have : p' = p := eq_of_hash_eq hJnodup (hsubA p' (get?_mem hp').1) hpJ (by rw [(get?_mem hp').2, hph])
        rw [← this]; exact IA.mono x h c hcx p' hp'
      · obtain ⟨p', hp'⟩ := get?_isSome_iff.mpr (IB.closed x h c hcx)
        have : p' = p := eq_of_hash_eq hJnodup (hsub p' (get?_mem hp').1) hpJ (by rw [(get?_mem hp').2, hph])
        rw [← this]; exact IB.mono x h c hcx p' hp'
    headsIn := by
      intro x hx
      change x ∈ jHeads A B at hx
      rcases ((mem_jHeads hU IA IB hid).mp hx).1 with h | h
      · exact hsubA x (IA.headsIn x h)
      · exact hsub x (IB.headsIn x h)
    headsNodup := jHeads_nodup
    headsSpec := by
      intro x hx hnn
      change x ∈ jEntries A B at hx
      change ¬ namedBy (jEntries A B) x.hash at hnn
      show x ∈ jHeads A B
      rw [mem_jHeads hU IA IB hid]
      refine ⟨?_, hnn⟩
      rcases (mem_jEntries hU IA IB hid).mp hx with h | h
      · exact Or.inl (IA.headsSpec x h (fun hm => hnn (namedBy_mono hsubA hm)))
      · exact Or.inr (IB.headsSpec x h (fun hm => hnn (namedBy_mono hsub hm)))
    headsUnref := by
      intro x hx
      change x ∈ jHeads A B at hx
      exact ((mem_jHeads hU IA IB hid).mp hx).2
    nextIdx := by
      intro h
      exact mem_jNextIdx hU IA IB hid
    logId := by
      intro x hx
      show x.logId = A.id
      rcases (mem_jEntries hU IA IB hid).mp hx with h | h
      · exact IA.logId x h
      · rw [IB.logId x h, hid] }

end

end Model
