import Proofs.Iterator
/-!
# Proofs.Admit — what a (possibly size-bounded) `Join` can add to a log (C06)
-/
namespace Model

theorem pushNexts_pred (E : List Entry) (S : Entry → Prop) (hE : ∀ x ∈ E, S x) :
    ∀ (cs : List Hash) (st : List Entry) (tr : List Hash) (m : Bool),
    (∀ x ∈ st, S x) → ∀ x ∈ (pushNexts E cs (st, tr, m)).1, S x := by
  intro cs st tr m hst x hx
  rcases pushNexts_mem E cs st tr m x hx with h | h
  · exact hst x h
  · exact hE x h

theorem travLoop_pred (E : List Entry) (lt : Entry → Entry → Bool) (amount : Int) (endHash : Option Hash)
    (S : Entry → Prop) (hE : ∀ x ∈ E, S x) :
    ∀ (fuel : Nat) (stack : List Entry) (trav : List Hash) (res : List Entry) (count : Int),
      (∀ x ∈ stack, S x) → (∀ x ∈ res, S x) →
      ∀ x ∈ travLoop E lt amount endHash fuel stack trav res count, S x
  | 0, _, _, _, _, _, hr => by simpa [travLoop] using hr
  | _ + 1, [], _, _, _, _, hr => by simpa [travLoop] using hr
  | fuel + 1, e :: rest, trav, res, count, hs, hr => by
    unfold travLoop
    have he : S e := hs e (by simp)
    have hres' : ∀ x ∈ omSet res e, S x := by
      intro x hx
      rcases mem_omSet.mp hx with h | ⟨h, _⟩
      · exact hr x h
      · exact h ▸ he
    split
    · split
      · exact hres'
      · apply travLoop_pred E lt amount endHash S hE fuel _ _ _ _ _ hres'
        intro x hx
        have hx' : x ∈ (pushNexts E e.next (rest, e.hash :: trav, false)).1 := by
          split at hx
          · exact mem_goSort.mp hx
          · exact hx
        exact pushNexts_pred E S hE _ _ _ _ (fun y hy => hs y (List.mem_cons_of_mem _ hy)) x hx'
    · exact hr

theorem values_pred (l : Log) (S : Entry → Prop) (hE : ∀ x ∈ l.entries, S x) (hH : ∀ x ∈ l.heads, S x) :
    ∀ x ∈ values l, S x := by
  intro x hx
  unfold values at hx
  rw [List.mem_reverse] at hx
  unfold traverse traverseG at hx
  exact travLoop_pred l.entries _ _ _ S hE _ _ _ _ _ (fun y hy => hH y (mem_goSort.mp hy)) (by intro y hy; cases hy) x hx

/-- the admission predicate of a join into `l` from `(E, H)` -/
def Admitted (l : Log) (E : List Entry) (valid : Entry → Bool) (h : Hash) : Prop :=
  has l.entries h = true ∨ ∃ x ∈ E, x.hash = h ∧ valid x = true ∧ x.logId = l.id

theorem joinMerge_admitted (l : Log) (E H : List Entry) (valid : Entry → Bool) (hE : (hashes E).Nodup)
    (hv : (difference E H l).any (fun e => !valid e) = false) :
    (∀ e ∈ (joinMerge l E H).entries, Admitted l E valid e.hash) ∧
    (∀ e ∈ (joinMerge l E H).heads, Admitted l E valid e.hash) := by
  obtain ⟨hs, _, _⟩ := difference_general E H l hE
  have hvalid : ∀ e ∈ difference E H l, valid e = true := by
    intro e he
    rw [List.any_eq_false] at hv
    have := hv e he
    simpa using this
  have hent : ∀ e ∈ (joinMerge l E H).entries, Admitted l E valid e.hash := by
    intro e he
    change e ∈ (difference E H l).foldl omSet l.entries at he
    rcases mem_foldl_omSet _ _ e he with h | h
    · exact Or.inl (has_of_mem h)
    · exact Or.inr ⟨e, (hs e h).1, rfl, hvalid e h, (hs e h).2.2⟩
  refine ⟨hent, ?_⟩
  intro e he
  change e ∈ omFromList _ at he
  have he' := mem_omFromList he
  rw [List.mem_filter] at he'
  have hhas : has ((difference E H l).foldl omSet l.entries) e.hash = true := by
    have := he'.2
    simp only [Bool.and_eq_true] at this
    exact this.2
  obtain ⟨x, hx, hxh⟩ := has_iff.mp hhas
  have := hent x hx
  rw [hxh] at this
  exact this

/-- C06: whatever a successful join leaves in the log was there before or is a candidate that
    carries the log's id and passed verification and access control — for every size bound -/
theorem join_admits_only_valid (l : Log) (otherId : Bytes) (E H : List Entry) (size : Int) (valid : Entry → Bool)
    (hE : (hashes E).Nodup) (l' : Log) (hj : join l otherId E H size valid = .ok l') :
    ∀ e ∈ l'.entries, Admitted l E valid e.hash := by
  unfold join at hj
  by_cases hid : l.id ≠ otherId
  · rw [if_pos hid] at hj
    cases hj
    exact fun e he => Or.inl (has_of_mem he)
  · rw [if_neg hid] at hj
    by_cases hv : (difference E H l).any (fun e => !valid e) = true
    · rw [if_pos hv] at hj; cases hj
    · have hv' : (difference E H l).any (fun e => !valid e) = false := by simpa using hv
      rw [if_neg hv] at hj
      cases hj
      obtain ⟨hent, hheads⟩ := joinMerge_admitted l E H valid hE hv'
      intro e he
      change e ∈ (joinTrim (joinMerge l E H) size).entries at he
      unfold joinTrim at he
      split at he
      · have he1 := mem_omFromList he
        have he2 : e ∈ values (joinMerge l E H) := by
          unfold keepLast at he1
          split at he1
          · exact List.mem_of_mem_drop he1
          · exact he1
        exact values_pred (joinMerge l E H) (fun x => Admitted l E valid x.hash) hent hheads e he2
      · exact hent e he

end Model
