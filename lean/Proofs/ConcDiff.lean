import Proofs.ConcSeq
/-!
# Proofs.ConcDiff — `difference` finds everything (fuel is sufficient, worklist invariant)

`difference EA HA l` walks from the heads `HA` along `next`, looking entries up in `EA` and never
entering the destination.  `Takes h` = the loop would take `h`: it is found in `EA`, is not in the
destination and has the destination's log id.  At the end

* every root that it would take is in the result,
* for every entry of the result, every predecessor it would take is in the result,
* every entry of the result is the entry `EA` has under that hash.
-/
namespace Model

def Takes (EA EB : List Entry) (idB : Bytes) (h : Hash) : Prop :=
  ∃ e, get? EA h = some e ∧ has EB h = false ∧ (e.logId == idB) = true

/-- `h` needs no further work -/
def Done (EA EB : List Entry) (idB : Bytes) (res : List Entry) (h : Hash) : Prop :=
  Takes EA EB idB h → h ∈ hashes res

/-- all predecessor hashes named in `EA`, with multiplicity -/
def allNext (EA : List Entry) : List Hash := EA.flatMap (·.next)

/-- how many elements of a list are not yet marked -/
def cntUn (trav : List Hash) : List Hash → Nat
  | [] => 0
  | a :: as => (if a ∈ trav then 0 else 1) + cntUn trav as

def unmarked (EA : List Entry) (trav : List Hash) : Nat := cntUn trav (allNext EA)

theorem foldl_next_len (EA : List Entry) (n : Nat) :
    EA.foldl (fun n e => n + e.next.length) n = n + (allNext EA).length := by
  induction EA generalizing n with
  | nil => simp [allNext]
  | cons a as ih => simp only [List.foldl_cons, ih, allNext, List.flatMap_cons, List.length_append]; omega

theorem cntUn_le (trav : List Hash) : ∀ l, cntUn trav l ≤ l.length
  | [] => by simp [cntUn]
  | a :: as => by
    have := cntUn_le trav as
    simp only [cntUn, List.length_cons]; split <;> omega

theorem cntUn_cons_le (trav : List Hash) (c : Hash) : ∀ l, cntUn (c :: trav) l ≤ cntUn trav l
  | [] => by simp [cntUn]
  | a :: as => by
    have ih := cntUn_cons_le trav c as
    simp only [cntUn]
    by_cases h2 : a ∈ trav
    · have h1 : a ∈ c :: trav := List.mem_cons_of_mem _ h2
      rw [if_pos h1, if_pos h2]; omega
    · rw [if_neg h2]; split <;> omega

/-- marking a listed, unmarked hash lowers the count -/
theorem cntUn_cons_lt (trav : List Hash) (c : Hash) (hn : c ∉ trav) :
    ∀ l, c ∈ l → cntUn (c :: trav) l + 1 ≤ cntUn trav l
  | [], h => by cases h
  | a :: as, h => by
    simp only [cntUn]
    by_cases hac : a = c
    · subst hac
      have := cntUn_cons_le trav a as
      rw [if_pos (List.mem_cons_self), if_neg hn]; omega
    · have hc' : c ∈ as := by
        rcases List.mem_cons.mp h with h | h
        · exact absurd h.symm hac
        · exact h
      have ih := cntUn_cons_lt trav c hn as hc'
      by_cases h2 : a ∈ trav
      · rw [if_pos (List.mem_cons_of_mem _ h2), if_pos h2]; omega
      · have : a ∉ c :: trav := by
          intro hm; rcases List.mem_cons.mp hm with h3 | h3
          · exact hac h3
          · exact h2 h3
        rw [if_neg this, if_neg h2]; omega

theorem unmarked_le (EA : List Entry) (trav : List Hash) : unmarked EA trav ≤ (allNext EA).length :=
  cntUn_le trav _

theorem mem_allNext {EA : List Entry} {e : Entry} {c : Hash} (he : e ∈ EA) (hc : c ∈ e.next) : c ∈ allNext EA :=
  List.mem_flatMap.mpr ⟨e, he, hc⟩


/-! ## The inner loop: pushing the predecessors of an entry -/

def pushStep (EB : List Entry) (st : List Hash × List Hash) (c : Hash) : List Hash × List Hash :=
  if !st.2.contains c && !has EB c then (st.1 ++ [c], c :: st.2) else st

structure PushSpec (EA EB : List Entry) (cs : List Hash) (st st' : List Hash × List Hash) : Prop where
  stack_mono : ∀ x ∈ st.1, x ∈ st'.1
  trav_mono : ∀ x ∈ st.2, x ∈ st'.2
  marked : ∀ c ∈ cs, has EB c = false → c ∈ st'.2
  trav_new : ∀ x ∈ st'.2, x ∈ st.2 ∨ x ∈ st'.1
  stack_new : ∀ x ∈ st'.1, x ∈ st.1 ∨ x ∈ cs
  measure : st'.1.length + cntUn st'.2 (allNext EA) ≤ st.1.length + cntUn st.2 (allNext EA)

theorem push_spec (EA EB : List Entry) : ∀ (cs : List Hash), (∀ c ∈ cs, c ∈ allNext EA) →
    ∀ st, PushSpec EA EB cs st (cs.foldl (pushStep EB) st)
  | [], _, st => ⟨fun _ h => h, fun _ h => h, fun _ h => (nomatch h), fun _ h => Or.inl h, fun _ h => Or.inl h, Nat.le_refl _⟩
  | c :: cs, hcs, st => by
    have ih := push_spec EA EB cs (fun x hx => hcs x (List.mem_cons_of_mem _ hx)) (pushStep EB st c)
    simp only [List.foldl_cons]
    -- one step
    have one : PushSpec EA EB [c] st (pushStep EB st c) := by
      unfold pushStep
      split
      · rename_i hcond
        simp only [Bool.and_eq_true, Bool.not_eq_true', ] at hcond
        have hnot : c ∉ st.2 := by
          intro hm; have := hcond.1; simp [hm] at this
        refine ⟨fun x h => by simp [h], fun x h => by simp [h], ?_, ?_, ?_, ?_⟩
        · intro c' hc' _; simp at hc'; subst hc'; simp
        · intro x hx; simp only [List.mem_cons] at hx
          rcases hx with h | h
          · subst h; exact Or.inr (by simp)
          · exact Or.inl h
        · intro x hx; simp only [List.mem_append, List.mem_singleton] at hx
          rcases hx with h | h
          · exact Or.inl h
          · exact Or.inr (by simp [h])
        · have := cntUn_cons_lt st.2 c hnot (allNext EA) (hcs c (by simp))
          simp only [List.length_append, List.length_singleton]; omega
      · rename_i hcond
        refine ⟨fun _ h => h, fun _ h => h, ?_, fun _ h => Or.inl h, fun _ h => Or.inl h, Nat.le_refl _⟩
        intro c' hc' hb; simp at hc'; subst hc'
        simp only [Bool.and_eq_true, Bool.not_eq_true', not_and, Bool.not_eq_false] at hcond
        by_cases hm : c' ∈ st.2
        · exact hm
        · have : st.2.contains c' = false := by simp [hm]
          have := hcond this; rw [hb] at this; cases this
    refine ⟨fun x h => ih.stack_mono x (one.stack_mono x h), fun x h => ih.trav_mono x (one.trav_mono x h), ?_, ?_, ?_, ?_⟩
    · intro c' hc' hb
      rcases List.mem_cons.mp hc' with h | h
      · subst h; exact ih.trav_mono _ (one.marked _ (by simp) hb)
      · exact ih.marked c' h hb
    · intro x hx
      rcases ih.trav_new x hx with h | h
      · rcases one.trav_new x h with h2 | h2
        · exact Or.inl h2
        · exact Or.inr (ih.stack_mono x h2)
      · exact Or.inr h
    · intro x hx
      rcases ih.stack_new x hx with h | h
      · rcases one.stack_new x h with h2 | h2
        · exact Or.inl h2
        · exact Or.inr (by simp at h2; simp [h2])
      · exact Or.inr (List.mem_cons_of_mem _ h)
    · exact Nat.le_trans ih.measure one.measure


/-! ## The worklist loop -/

structure DInv (EA EB : List Entry) (idB : Bytes) (roots stack trav : List Hash) (res : List Entry) : Prop where
  sound : ∀ x ∈ res, get? EA x.hash = some x
  rootsI : ∀ r ∈ roots, r ∈ stack ∨ Done EA EB idB res r
  nexts : ∀ x ∈ res, ∀ c ∈ x.next, has EB c = false → c ∈ stack ∨ Done EA EB idB res c
  travI : ∀ c ∈ trav, c ∈ stack ∨ Done EA EB idB res c

/-- what holds of the result -/
structure DiffClosed (EA EB : List Entry) (idB : Bytes) (roots : List Hash) (res : List Entry) : Prop where
  sound : ∀ x ∈ res, get? EA x.hash = some x
  roots : ∀ r ∈ roots, Done EA EB idB res r
  nexts : ∀ x ∈ res, ∀ c ∈ x.next, has EB c = false → Done EA EB idB res c

theorem done_mono {EA EB : List Entry} {idB : Bytes} {res res' : List Entry} {c : Hash}
    (hs : ∀ h ∈ hashes res, h ∈ hashes res') (hd : Done EA EB idB res c) : Done EA EB idB res' c :=
  fun ht => hs c (hd ht)

theorem diffLoop_complete (EA EB : List Entry) (idB : Bytes) (roots : List Hash) :
    ∀ (fuel : Nat) (stack trav : List Hash) (res : List Entry),
      DInv EA EB idB roots stack trav res → stack.length + cntUn trav (allNext EA) + 1 ≤ fuel →
      DiffClosed EA EB idB roots (diffLoop EA EB idB fuel stack trav res)
  | 0, _, _, _, _, hm => by omega
  | _ + 1, [], _, res, hI, _ => by
    simp only [diffLoop]
    refine ⟨hI.sound, ?_, ?_⟩
    · intro r hr; rcases hI.rootsI r hr with h | h
      · cases h
      · exact h
    · intro x hx c hc hb; rcases hI.nexts x hx c hc hb with h | h
      · cases h
      · exact h
  | fuel + 1, h :: stack, trav, res, hI, hm => by
    -- dropping `h` (the loop does not take it)
    have dropped : ¬ Takes EA EB idB h → DiffClosed EA EB idB roots (diffLoop EA EB idB fuel stack trav res) := by
      intro hnt
      have lift : ∀ c, (c ∈ h :: stack ∨ Done EA EB idB res c) → (c ∈ stack ∨ Done EA EB idB res c) := by
        intro c hc
        rcases hc with hc | hc
        · rcases List.mem_cons.mp hc with h1 | h1
          · subst h1; exact Or.inr (fun ht => absurd ht hnt)
          · exact Or.inl h1
        · exact Or.inr hc
      apply diffLoop_complete EA EB idB roots fuel stack trav res
      · exact ⟨hI.sound, fun r hr => lift r (hI.rootsI r hr), fun x hx c hc hb => lift c (hI.nexts x hx c hc hb),
          fun c hc => lift c (hI.travI c hc)⟩
      · simp only [List.length_cons] at hm; omega
    unfold diffLoop
    split
    · rename_i eA hg
      split
      · rename_i hcond
        -- `h` is taken
        obtain ⟨heA, hhash⟩ := get?_some hg
        have hsub : ∀ x ∈ hashes res, x ∈ hashes (omSet res eA) := by
          intro x hx
          obtain ⟨y, hy, hyx⟩ := List.mem_map.mp hx
          exact List.mem_map.mpr ⟨y, sub_omSet hy, hyx⟩
        have hin : h ∈ hashes (omSet res eA) := by
          rw [hashes_omSet]
          split
          · rename_i hh; rw [hhash] at hh; exact has_iff.mp hh
          · simp [hhash]
        have hps := push_spec EA EB eA.next (fun c hc => mem_allNext heA hc)
          (stack, if trav.contains h then trav else h :: trav)
        have lift : ∀ c, (c ∈ h :: stack ∨ Done EA EB idB res c) →
            (c ∈ (eA.next.foldl (pushStep EB) (stack, if trav.contains h then trav else h :: trav)).1 ∨
              Done EA EB idB (omSet res eA) c) := by
          intro c hc
          rcases hc with hc | hc
          · rcases List.mem_cons.mp hc with h1 | h1
            · subst h1; exact Or.inr (fun _ => hin)
            · exact Or.inl (hps.stack_mono c h1)
          · exact Or.inr (done_mono hsub hc)
        have htrav : ∀ c ∈ (eA.next.foldl (pushStep EB) (stack, if trav.contains h then trav else h :: trav)).2,
            c ∈ (eA.next.foldl (pushStep EB) (stack, if trav.contains h then trav else h :: trav)).1 ∨
              Done EA EB idB (omSet res eA) c := by
          intro c hc
          rcases hps.trav_new c hc with h1 | h1
          · have h2 : c = h ∨ c ∈ trav := by
              simp only at h1
              split at h1
              · exact Or.inr h1
              · rcases List.mem_cons.mp h1 with h3 | h3
                · exact Or.inl h3
                · exact Or.inr h3
            rcases h2 with h2 | h2
            · subst h2; exact Or.inr (fun _ => hin)
            · exact lift c (hI.travI c h2)
          · exact Or.inl h1
        show DiffClosed EA EB idB roots (diffLoop EA EB idB fuel
          (eA.next.foldl (pushStep EB) (stack, if trav.contains h then trav else h :: trav)).1
          (eA.next.foldl (pushStep EB) (stack, if trav.contains h then trav else h :: trav)).2 (omSet res eA))
        apply diffLoop_complete EA EB idB roots fuel
        · refine ⟨?_, fun r hr => lift r (hI.rootsI r hr), ?_, htrav⟩
          · intro x hx
            rcases mem_omSet.mp hx with h1 | ⟨h1, _⟩
            · exact hI.sound x h1
            · subst h1; rw [hhash]; exact hg
          · intro x hx c hc hb
            rcases mem_omSet.mp hx with h1 | ⟨h1, _⟩
            · exact lift c (hI.nexts x h1 c hc hb)
            · subst h1; exact htrav c (hps.marked c hc hb)
        · have h1 := hps.measure
          have h2 : cntUn (if trav.contains h then trav else h :: trav) (allNext EA) ≤ cntUn trav (allNext EA) := by
            split
            · exact Nat.le_refl _
            · exact cntUn_cons_le trav h _
          simp only [List.length_cons] at hm
          simp only at h1
          omega
      · rename_i hcond
        apply dropped
        rintro ⟨e, he, hb, hl⟩
        rw [hg] at he; injection he with he; subst he
        apply hcond; simp [hb, hl]
    · rename_i hg
      apply dropped
      rintro ⟨e, he, _, _⟩
      rw [hg] at he; cases he


theorem difference_closed (EA HA : List Entry) (l : Log) :
    DiffClosed EA l.entries l.id (hashes HA) (difference EA HA l) := by
  unfold difference
  split
  · rename_i hc
    refine ⟨fun _ h => (nomatch h), ?_, fun _ h => (nomatch h)⟩
    intro r hr ⟨e, he, _, _⟩
    rcases hc with hc | hc
    · have : EA = [] := List.eq_nil_of_length_eq_zero hc
      subst this; simp [get?] at he
    · have : HA = [] := List.eq_nil_of_length_eq_zero hc
      subst this; simp [hashes] at hr
  · apply diffLoop_complete EA l.entries l.id (hashes HA)
    · exact ⟨fun _ h => (nomatch h), fun r hr => Or.inl hr, fun _ h => (nomatch h), fun _ h => (nomatch h)⟩
    · have h1 := cntUn_le [] (allNext EA)
      have h2 : (allNext EA).length = (EA.flatMap (·.next)).length := rfl
      simp only [diffFuel, hashes, List.length_map]
      omega

/-! ## What an unbounded `Join` includes -/

theorem join_ok_entries_eq {l l' : Log} {oid : Bytes} {E H : List Entry} {size : Int} {valid : Entry → Bool}
    (hs : ¬ size > -1) (hid : l.id = oid) (hj : join l oid E H size valid = .ok l') :
    l'.entries = (difference E H l).foldl omSet l.entries := by
  unfold join at hj
  split at hj
  · rename_i hne; exact absurd hid (by simpa using hne)
  · split at hj
    · cases hj
    · injection hj with hj; subst hj
      show (joinTrim (joinMerge l E H) size).entries = _
      unfold joinTrim
      simp only [hs, if_false]
      rfl

theorem join_ok_heads_sub {l l' : Log} {oid : Bytes} {E H : List Entry} {size : Int} {valid : Entry → Bool}
    (hs : ¬ size > -1) (hj : join l oid E H size valid = .ok l') :
    ∀ x ∈ l'.heads, x ∈ l.heads ∨ (x ∈ l'.entries ∧ x.hash ∈ hashes H) := by
  have hne : ¬ l.id = oid → ∀ x ∈ l'.heads, x ∈ l.heads ∨ (x ∈ l'.entries ∧ x.hash ∈ hashes H) := by
    intro hid
    unfold join at hj
    rw [if_pos hid] at hj
    injection hj with hj; subst hj; exact fun x hx => Or.inl hx
  by_cases hid : l.id = oid
  case neg => exact hne hid
  have hent := join_ok_entries_eq hs hid hj
  unfold join at hj
  split at hj
  · injection hj with hj; subst hj; exact fun x hx => Or.inl hx
  · split at hj
    · cases hj
    · injection hj with hj; subst hj
      intro x hx
      have hx' : x ∈ (joinMerge l E H).heads := by
        change x ∈ (joinTrim (joinMerge l E H) size).heads at hx
        unfold joinTrim at hx
        simpa only [hs, if_false] using hx
      change x ∈ omFromList _ at hx'
      unfold omFromList at hx'
      rcases mem_foldl_omSet _ [] hx' with h | h
      · cases h
      · have h1 := (List.mem_filter.mp h).1
        unfold findHeads at h1
        have h2 := (List.mem_filter.mp (mem_goSort.mp h1)).1
        unfold omMerge at h2
        rcases mem_foldl_omSet _ _ h2 with h3 | h3
        · rcases mem_foldl_omSet _ [] h3 with h4 | h4
          · cases h4
          · exact Or.inl h4
        · obtain ⟨hd, hhd, hg⟩ := List.mem_filterMap.mp h3
          obtain ⟨hm, hh⟩ := get?_some hg
          exact Or.inr ⟨by rw [hent]; exact hm, List.mem_map.mpr ⟨hd, hhd, hh.symm⟩⟩

/-- the hashes that are in the destination or were selected by `difference` -/
theorem join_covers {E1 E2 H1 : List Entry} {dest : Log} (hn : NodupH E2) (hsub : ∀ e ∈ E1, e ∈ E2)
    (hcl : Closed E1) (hheads : ∀ x ∈ H1, x ∈ E1)
    (hid : ∀ e ∈ E1, (e.logId == dest.id) = true)
    (hdcl : Closed dest.entries)
    (hcons : ∀ a ∈ E2, ∀ b ∈ dest.entries, a.hash = b.hash → a.next = b.next) :
    (∀ hd ∈ H1, hd.hash ∈ hashes dest.entries ∨ hd.hash ∈ hashes (difference E2 H1 dest)) ∧
    ∀ a b, Anc E1 a b → (b ∈ hashes dest.entries ∨ b ∈ hashes (difference E2 H1 dest)) →
      (a ∈ hashes dest.entries ∨ a ∈ hashes (difference E2 H1 dest)) := by
  have DC := difference_closed E2 H1 dest
  -- a hash of `E1` that is not in the destination is one the loop takes
  have takes : ∀ y ∈ E1, has dest.entries y.hash = false → Takes E2 dest.entries dest.id y.hash :=
    fun y hy hb => ⟨y, get?_of_mem hn (hsub y hy), hb, hid y hy⟩
  have inOrTaken : ∀ y ∈ E1, Done E2 dest.entries dest.id (difference E2 H1 dest) y.hash →
      (y.hash ∈ hashes dest.entries ∨ y.hash ∈ hashes (difference E2 H1 dest)) := by
    intro y hy hd
    cases hb : has dest.entries y.hash
    · exact Or.inr (hd (takes y hy hb))
    · exact Or.inl (has_iff.mp hb)
  constructor
  · intro hd hhd
    exact inOrTaken hd (hheads hd hhd) (DC.roots hd.hash (List.mem_map.mpr ⟨hd, hhd, rfl⟩))
  · intro a b hanc
    induction hanc with
    | refl e he => exact fun h => h
    | step e c a he hc _ ih =>
      intro hw
      apply ih
      obtain ⟨y, hy, hyc⟩ := List.mem_map.mp (hcl e he c hc)
      rcases hw with hw | hw
      · obtain ⟨b', hb', hbe⟩ := List.mem_map.mp hw
        have := hcons e (hsub e he) b' hb' hbe.symm
        rw [this] at hc
        exact Or.inl (hdcl b' hb' c hc)
      · obtain ⟨x, hx, hxe⟩ := List.mem_map.mp hw
        have h1 := DC.sound x hx
        have h2 := get?_of_mem hn (hsub e he)
        rw [hxe, h2] at h1; injection h1 with h1; subst h1
        rw [← hyc]
        apply inOrTaken y hy
        rw [hyc]
        cases hb : has dest.entries c
        · exact DC.nexts e hx c hc hb
        · intro ⟨_, _, h3, _⟩; rw [hb] at h3; cases h3

end Model
