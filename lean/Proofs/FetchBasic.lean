import Model.Fetcher
/-!
# Proofs.FetchBasic — structural invariants of the fetcher transition system

`WF` (the task cache is a partition, results are finished tasks, every cached hash was legitimately
requested) is preserved by every event; from it: no hash is dispatched twice, no excluded or
undefined hash is dispatched, results are duplicate-free, every execution has at most
`2·|mentioned| + 1` events, a non-terminated state has an enabled event, nothing is dispatched after
`cancel`.
-/
namespace Model

/-! ## `get?` -/

theorem fget?_hash {E : List Entry} {h : Hash} {e : Entry} (hg : get? E h = some e) : e.hash = h := by
  unfold get? at hg
  have := List.find?_some hg
  simpa using this

theorem fget?_mem {E : List Entry} {h : Hash} {e : Entry} (hg : get? E h = some e) : e ∈ E := by
  unfold get? at hg
  exact List.mem_of_find?_eq_some hg

/-! ## `addHash` / `addHashes` -/

theorem addHash_frame (cfg : FCfg) (s : FState) (h : Hash) :
    (addHash cfg s h).inProgress = s.inProgress ∧ (addHash cfg s h).done = s.done ∧
    (addHash cfg s h).failed = s.failed ∧ (addHash cfg s h).results = s.results ∧
    (addHash cfg s h).minClock = s.minClock ∧ (addHash cfg s h).maxClock = s.maxClock ∧
    (addHash cfg s h).cancelled = s.cancelled := by
  unfold addHash; split <;> simp

theorem addHashes_nil (cfg : FCfg) (s : FState) : addHashes cfg s [] = s := rfl

theorem addHashes_cons (cfg : FCfg) (s : FState) (h : Hash) (hs : List Hash) :
    addHashes cfg s (h :: hs) = addHashes cfg (addHash cfg s h) hs := rfl

theorem addHashes_append (cfg : FCfg) (s : FState) (a b : List Hash) :
    addHashes cfg s (a ++ b) = addHashes cfg (addHashes cfg s a) b := by
  simp [addHashes, List.foldl_append]

theorem addHashes_frame (cfg : FCfg) : ∀ (hs : List Hash) (s : FState),
    (addHashes cfg s hs).inProgress = s.inProgress ∧ (addHashes cfg s hs).done = s.done ∧
    (addHashes cfg s hs).failed = s.failed ∧ (addHashes cfg s hs).results = s.results ∧
    (addHashes cfg s hs).minClock = s.minClock ∧ (addHashes cfg s hs).maxClock = s.maxClock ∧
    (addHashes cfg s hs).cancelled = s.cancelled
  | [], s => by simp [addHashes_nil]
  | h :: hs, s => by
    rw [addHashes_cons]
    obtain ⟨a1, a2, a3, a4, a5, a6, a7⟩ := addHashes_frame cfg hs (addHash cfg s h)
    obtain ⟨b1, b2, b3, b4, b5, b6, b7⟩ := addHash_frame cfg s h
    exact ⟨a1.trans b1, a2.trans b2, a3.trans b3, a4.trans b4, a5.trans b5, a6.trans b6, a7.trans b7⟩

theorem mem_queue_addHash (cfg : FCfg) (s : FState) (h x : Hash) :
    x ∈ (addHash cfg s h).queue ↔ x ∈ s.queue ∨ (x = h ∧ ¬ fexclude cfg s h) := by
  unfold addHash
  split
  · rename_i hx
    constructor
    · exact Or.inl
    · rintro (h1 | ⟨_, h2⟩)
      · exact h1
      · exact absurd hx h2
  · rename_i hx
    simp only [List.mem_cons]
    constructor
    · rintro (h1 | h1)
      · exact Or.inr ⟨h1, hx⟩
      · exact Or.inl h1
    · rintro (h1 | ⟨h1, _⟩)
      · exact Or.inr h1
      · exact Or.inl h1

theorem known_addHash (cfg : FCfg) (s : FState) (h x : Hash) :
    (addHash cfg s h).known x ↔ s.known x ∨ (x = h ∧ ¬ fexclude cfg s h) := by
  obtain ⟨b1, b2, b3, _⟩ := addHash_frame cfg s h
  unfold FState.known
  rw [b1, b2, b3, mem_queue_addHash]
  constructor
  · rintro ((h1 | h1) | h1 | h1 | h1)
    · exact Or.inl (Or.inl h1)
    · exact Or.inr h1
    · exact Or.inl (Or.inr (Or.inl h1))
    · exact Or.inl (Or.inr (Or.inr (Or.inl h1)))
    · exact Or.inl (Or.inr (Or.inr (Or.inr h1)))
  · rintro ((h1 | h1 | h1 | h1) | h1)
    · exact Or.inl (Or.inl h1)
    · exact Or.inr (Or.inl h1)
    · exact Or.inr (Or.inr (Or.inl h1))
    · exact Or.inr (Or.inr (Or.inr h1))
    · exact Or.inl (Or.inr h1)

theorem fexclude_addHash (cfg : FCfg) (s : FState) (h x : Hash) :
    fexclude cfg (addHash cfg s h) x ↔ fexclude cfg s x ∨ (x = h ∧ ¬ fexclude cfg s h) := by
  unfold fexclude
  rw [known_addHash]
  constructor
  · rintro (h1 | (h1 | h1) | h1)
    · exact Or.inl (Or.inl h1)
    · exact Or.inl (Or.inr (Or.inl h1))
    · exact Or.inr h1
    · exact Or.inl (Or.inr (Or.inr h1))
  · rintro ((h1 | h1 | h1) | h1)
    · exact Or.inl h1
    · exact Or.inr (Or.inl (Or.inl h1))
    · exact Or.inr (Or.inr h1)
    · exact Or.inr (Or.inl (Or.inr h1))

/-- exact content of the queue after `addHashesToQueue` -/
theorem mem_queue_addHashes (cfg : FCfg) : ∀ (hs : List Hash) (s : FState) (x : Hash),
    x ∈ (addHashes cfg s hs).queue ↔ x ∈ s.queue ∨ (x ∈ hs ∧ ¬ fexclude cfg s x)
  | [], s, x => by simp [addHashes_nil]
  | h :: hs, s, x => by
    rw [addHashes_cons, mem_queue_addHashes cfg hs, mem_queue_addHash, fexclude_addHash]
    constructor
    · rintro ((h1 | ⟨h1, h2⟩) | ⟨h1, h2⟩)
      · exact Or.inl h1
      · exact Or.inr ⟨by simp [h1], by rw [h1]; exact h2⟩
      · exact Or.inr ⟨List.mem_cons_of_mem _ h1, fun hx => h2 (Or.inl hx)⟩
    · rintro (h1 | ⟨h1, h2⟩)
      · exact Or.inl (Or.inl h1)
      · by_cases hxh : x = h
        · exact Or.inl (Or.inr ⟨hxh, by rw [← hxh]; exact h2⟩)
        · have : x ∈ hs := by
            cases h1 with
            | head => exact absurd rfl hxh
            | tail _ hm => exact hm
          refine Or.inr ⟨this, ?_⟩
          rintro (h3 | ⟨h3, _⟩)
          · exact h2 h3
          · exact hxh h3

theorem known_addHashes (cfg : FCfg) (hs : List Hash) (s : FState) (x : Hash) :
    (addHashes cfg s hs).known x ↔ s.known x ∨ (x ∈ hs ∧ ¬ fexclude cfg s x) := by
  obtain ⟨b1, b2, b3, _⟩ := addHashes_frame cfg hs s
  unfold FState.known
  rw [b1, b2, b3, mem_queue_addHashes]
  constructor
  · rintro ((h1 | h1) | h1 | h1 | h1)
    · exact Or.inl (Or.inl h1)
    · exact Or.inr h1
    · exact Or.inl (Or.inr (Or.inl h1))
    · exact Or.inl (Or.inr (Or.inr (Or.inl h1)))
    · exact Or.inl (Or.inr (Or.inr (Or.inr h1)))
  · rintro ((h1 | h1 | h1 | h1) | h1)
    · exact Or.inl (Or.inl h1)
    · exact Or.inr (Or.inl h1)
    · exact Or.inr (Or.inr (Or.inl h1))
    · exact Or.inr (Or.inr (Or.inr h1))
    · exact Or.inl (Or.inr h1)

theorem known_addHashes_mono {cfg : FCfg} {hs : List Hash} {s : FState} {x : Hash} (hk : s.known x) :
    (addHashes cfg s hs).known x := (known_addHashes cfg hs s x).mpr (Or.inl hk)

theorem queue_nodup_addHashes (cfg : FCfg) : ∀ (hs : List Hash) (s : FState),
    s.queue.Nodup → (addHashes cfg s hs).queue.Nodup
  | [], s, hn => by simpa [addHashes_nil] using hn
  | h :: hs, s, hn => by
    rw [addHashes_cons]
    apply queue_nodup_addHashes cfg hs
    unfold addHash
    split
    · exact hn
    · rename_i hx
      refine List.nodup_cons.mpr ⟨?_, hn⟩
      intro hm
      exact hx (Or.inr (Or.inl (Or.inl hm)))

/-! ## `addNextEntry` only queues links of the entry -/

theorem addNext_eq (cfg : FCfg) (s : FState) (e : Entry) :
    ∃ L : List Hash, (∀ c ∈ L, c ∈ e.next ++ e.refs) ∧ addNext cfg s e = addHashes cfg s L ∧
      (cfg.length < 0 → L = e.next ++ e.refs) := by
  unfold addNext
  split
  · exact ⟨e.next ++ e.refs, fun _ h => h, (addHashes_append cfg s _ _).symm, fun _ => rfl⟩
  · rename_i hlen
    have hN : ∃ L1, (∀ c ∈ L1, c ∈ e.next) ∧ queueNext cfg s e = addHashes cfg s L1 := by
      unfold queueNext; split
      · exact ⟨e.next, fun _ h => h, rfl⟩
      · exact ⟨[], (fun _ h => nomatch h), rfl⟩
    obtain ⟨L1, h1, e1⟩ := hN
    have hR : ∃ L2, (∀ c ∈ L2, c ∈ e.refs) ∧
        queueRefs cfg (queueNext cfg s e) e = addHashes cfg (queueNext cfg s e) L2 := by
      unfold queueRefs; split
      · exact ⟨e.refs, fun _ h => h, rfl⟩
      · exact ⟨[], (fun _ h => nomatch h), rfl⟩
    obtain ⟨L2, h2, e2⟩ := hR
    refine ⟨L1 ++ L2, ?_, ?_, fun h => absurd h hlen⟩
    · intro c hc
      rcases List.mem_append.mp hc with h | h
      · exact List.mem_append_left _ (h1 c h)
      · exact List.mem_append_right _ (h2 c h)
    · rw [e2, e1, addHashes_append]

/-! ## requested hashes -/

/-- the hashes the fetcher may legitimately request: the wanted start hashes and the wanted links of
    retrieved entries -/
inductive Req (cfg : FCfg) (roots : List Hash) : Hash → Prop
  | root {h : Hash} : h ∈ roots → h ≠ [] → cfg.excluded h = false → Req cfg roots h
  | link {h c : Hash} {e : Entry} : Req cfg roots h → get? cfg.store h = some e → c ∈ e.next ++ e.refs →
      c ≠ [] → cfg.excluded c = false → Req cfg roots c

theorem Req.ok {cfg : FCfg} {roots : List Hash} {h : Hash} (r : Req cfg roots h) :
    h ≠ [] ∧ cfg.excluded h = false := by
  cases r with
  | root _ a b => exact ⟨a, b⟩
  | link _ _ _ a b => exact ⟨a, b⟩

theorem Req.mentioned {cfg : FCfg} {roots : List Hash} {h : Hash} (r : Req cfg roots h) :
    h ∈ mentioned cfg roots := by
  unfold Model.mentioned
  rw [List.mem_eraseDups, List.mem_append]
  cases r with
  | root a _ _ => exact Or.inl a
  | link _ hg hc _ _ => exact Or.inr (List.mem_flatMap.mpr ⟨_, fget?_mem hg, hc⟩)

/-! ## the invariant -/

def FState.started (s : FState) (h : Hash) : Prop := h ∈ s.inProgress ∨ h ∈ s.done ∨ h ∈ s.failed

structure WF (cfg : FCfg) (roots : List Hash) (s : FState) : Prop where
  qND : s.queue.Nodup
  pND : s.inProgress.Nodup
  q_started : ∀ h ∈ s.queue, ¬ s.started h
  p_d : ∀ h ∈ s.inProgress, h ∉ s.done
  resDone : ∀ r ∈ s.results, r.hash ∈ s.done ∧ get? cfg.store r.hash = some r
  resND : (s.results.map (·.hash)).Nodup
  req : ∀ h, s.known h → Req cfg roots h

theorem WF_empty (cfg : FCfg) (roots : List Hash) : WF cfg roots {} where
  qND := List.nodup_nil
  pND := List.nodup_nil
  q_started := fun _ h => nomatch h
  p_d := fun _ h => nomatch h
  resDone := fun _ h => nomatch h
  resND := List.nodup_nil
  req := by
    intro h hk
    rcases hk with hk | hk | hk | hk <;> exact nomatch hk

theorem WF_addHashes {cfg : FCfg} {roots : List Hash} {s : FState} (w : WF cfg roots s) (L : List Hash)
    (hL : ∀ c ∈ L, c ≠ [] → cfg.excluded c = false → Req cfg roots c) : WF cfg roots (addHashes cfg s L) := by
  obtain ⟨b1, b2, b3, b4, _⟩ := addHashes_frame cfg L s
  have hst : ∀ x, (addHashes cfg s L).started x ↔ s.started x := by
    intro x; unfold FState.started; rw [b1, b2, b3]
  exact {
    qND := queue_nodup_addHashes cfg L s w.qND
    pND := by rw [b1]; exact w.pND
    q_started := by
      intro h hq
      rw [hst]
      rcases (mem_queue_addHashes cfg L s h).mp hq with h1 | ⟨_, h2⟩
      · exact w.q_started h h1
      · intro hs
        apply h2
        refine Or.inr (Or.inl ?_)
        rcases hs with hs | hs | hs
        · exact Or.inr (Or.inl hs)
        · exact Or.inr (Or.inr (Or.inl hs))
        · exact Or.inr (Or.inr (Or.inr hs))
    p_d := by rw [b1, b2]; exact w.p_d
    resDone := by rw [b4, b2]; exact w.resDone
    resND := by rw [b4]; exact w.resND
    req := by
      intro h hk
      rcases (known_addHashes cfg L s h).mp hk with h1 | ⟨h1, h2⟩
      · exact w.req h h1
      · have hne : h ≠ [] := fun hx => h2 (Or.inl hx)
        have hex : cfg.excluded h = false := by
          cases hc : cfg.excluded h with
          | false => rfl
          | true => exact absurd (Or.inr (Or.inr hc)) h2
        exact hL h h1 hne hex }

theorem WF_finit (cfg : FCfg) (roots : List Hash) : WF cfg roots (finit cfg roots) :=
  WF_addHashes (WF_empty cfg roots) roots (fun _ hc hne hex => Req.root hc hne hex)

theorem mem_erase_nodup {l : List Hash} {x h : Hash} (hn : l.Nodup) (hx : x ∈ l.erase h) : x ≠ h ∧ x ∈ l :=
  (List.Nodup.mem_erase_iff hn).mp hx

theorem WF_dispatch {cfg : FCfg} {roots : List Hash} {s : FState} (w : WF cfg roots s) {h : Hash}
    (hq : h ∈ s.queue) :
    WF cfg roots { s with queue := s.queue.erase h, inProgress := h :: s.inProgress } := by
  have hns := w.q_started h hq
  exact {
    qND := w.qND.erase h
    pND := List.nodup_cons.mpr ⟨fun hm => hns (Or.inl hm), w.pND⟩
    q_started := by
      intro x hx
      obtain ⟨hne, hxq⟩ := mem_erase_nodup w.qND hx
      intro hs
      rcases hs with hs | hs | hs
      · cases hs with
        | head => exact hne rfl
        | tail _ hm => exact w.q_started x hxq (Or.inl hm)
      · exact w.q_started x hxq (Or.inr (Or.inl hs))
      · exact w.q_started x hxq (Or.inr (Or.inr hs))
    p_d := by
      intro x hx
      cases hx with
      | head => exact fun hd => hns (Or.inr (Or.inl hd))
      | tail _ hm => exact w.p_d x hm
    resDone := w.resDone
    resND := w.resND
    req := by
      intro x hk
      apply w.req
      rcases hk with hk | hk | hk | hk
      · exact Or.inl (List.mem_of_mem_erase hk)
      · cases hk with
        | head => exact Or.inl hq
        | tail _ hm => exact Or.inr (Or.inl hm)
      · exact Or.inr (Or.inr (Or.inl hk))
      · exact Or.inr (Or.inr (Or.inr hk)) }

theorem WF_completeNone {cfg : FCfg} {roots : List Hash} {s : FState} (w : WF cfg roots s) {h : Hash}
    (hp : h ∈ s.inProgress) : WF cfg roots (completeNone s h) := by
  unfold completeNone
  exact {
    qND := w.qND
    pND := w.pND.erase h
    q_started := by
      intro x hx hs
      rcases hs with hs | hs | hs
      · exact w.q_started x hx (Or.inl (List.mem_of_mem_erase hs))
      · exact w.q_started x hx (Or.inr (Or.inl hs))
      · cases hs with
        | head => exact w.q_started _ hx (Or.inl hp)
        | tail _ hm => exact w.q_started x hx (Or.inr (Or.inr hm))
    p_d := fun x hx => w.p_d x (List.mem_of_mem_erase hx)
    resDone := w.resDone
    resND := w.resND
    req := by
      intro x hk
      apply w.req
      rcases hk with hk | hk | hk | hk
      · exact Or.inl hk
      · exact Or.inr (Or.inl (List.mem_of_mem_erase hk))
      · exact Or.inr (Or.inr (Or.inl hk))
      · cases hk with
        | head => exact Or.inr (Or.inl hp)
        | tail _ hm => exact Or.inr (Or.inr (Or.inr hm)) }

theorem WF_fbase {cfg : FCfg} {roots : List Hash} {s : FState} (w : WF cfg roots s) {h : Hash} {e : Entry}
    (hp : h ∈ s.inProgress) (hg : get? cfg.store h = some e) : WF cfg roots (fbase cfg s h e) := by
  have heh : e.hash = h := fget?_hash hg
  have hnd : h ∉ s.done := w.p_d h hp
  unfold fbase
  exact {
    qND := w.qND
    pND := w.pND.erase h
    q_started := by
      intro x hx hs
      rcases hs with hs | hs | hs
      · exact w.q_started x hx (Or.inl (List.mem_of_mem_erase hs))
      · cases hs with
        | head => exact w.q_started _ hx (Or.inl hp)
        | tail _ hm => exact w.q_started x hx (Or.inr (Or.inl hm))
      · exact w.q_started x hx (Or.inr (Or.inr hs))
    p_d := by
      intro x hx
      obtain ⟨hne, hxp⟩ := mem_erase_nodup w.pND hx
      intro hd
      cases hd with
      | head => exact hne rfl
      | tail _ hm => exact w.p_d x hxp hm
    resDone := by
      intro r hr
      have hold : ∀ r ∈ s.results, r.hash ∈ h :: s.done ∧ get? cfg.store r.hash = some r :=
        fun r hr => ⟨List.mem_cons_of_mem _ (w.resDone r hr).1, (w.resDone r hr).2⟩
      dsimp only at hr
      split at hr
      · rcases List.mem_append.mp hr with h1 | h1
        · exact hold r h1
        · rw [List.mem_singleton] at h1
          subst h1
          exact ⟨by rw [heh]; exact List.mem_cons_self, by rw [heh]; exact hg⟩
      · exact hold r hr
    resND := by
      dsimp only
      split
      · rw [List.map_append, List.nodup_append]
        refine ⟨w.resND, by simp, ?_⟩
        intro a ha b hb
        simp only [List.map_cons, List.map_nil, List.mem_singleton] at hb
        obtain ⟨r, hr, hra⟩ := List.mem_map.mp ha
        intro hab
        apply hnd
        have := (w.resDone r hr).1
        rw [hra, hab, hb, heh] at this
        exact this
      · exact w.resND
    req := by
      intro x hk
      apply w.req
      rcases hk with hk | hk | hk | hk
      · exact Or.inl hk
      · exact Or.inr (Or.inl (List.mem_of_mem_erase hk))
      · cases hk with
        | head => exact Or.inr (Or.inl hp)
        | tail _ hm => exact Or.inr (Or.inr (Or.inl hm))
      · exact Or.inr (Or.inr (Or.inr hk)) }

theorem known_fbase {cfg : FCfg} {s : FState} {h : Hash} {e : Entry} {x : Hash} (hk : s.known x) :
    (fbase cfg s h e).known x := by
  unfold fbase
  rcases hk with hk | hk | hk | hk
  · exact Or.inl hk
  · by_cases hx : x = h
    · exact Or.inr (Or.inr (Or.inl (by simp [hx])))
    · exact Or.inr (Or.inl ((List.mem_erase_of_ne hx).mpr hk))
  · exact Or.inr (Or.inr (Or.inl (List.mem_cons_of_mem _ hk)))
  · exact Or.inr (Or.inr (Or.inr hk))

theorem WF_completeFound {cfg : FCfg} {roots : List Hash} {s : FState} (w : WF cfg roots s) {h : Hash}
    {e : Entry} (hp : h ∈ s.inProgress) (hg : get? cfg.store h = some e) :
    WF cfg roots (completeFound cfg s h e) := by
  unfold completeFound
  obtain ⟨L, hL, heq, _⟩ := addNext_eq cfg (fbase cfg s h e) e
  rw [heq]
  refine WF_addHashes (WF_fbase w hp hg) L ?_
  intro c hc hne hex
  exact Req.link (w.req h (Or.inr (Or.inl hp))) hg (hL c hc) hne hex

/-- case analysis of an enabled event -/
theorem fstep_cases {cfg : FCfg} {s s' : FState} {ev : FEvent} (hs : fstep cfg s ev = some s') :
    (∃ h, ev = .dispatch h ∧ h ∈ s.queue ∧ s.cancelled = false ∧
        s' = { s with queue := s.queue.erase h, inProgress := h :: s.inProgress }) ∨
    (∃ h, ev = .complete h none ∧ h ∈ s.inProgress ∧ (get? cfg.store h = none ∨ s.cancelled = true) ∧
        s' = completeNone s h) ∨
    (∃ h e, ev = .complete h (some e) ∧ h ∈ s.inProgress ∧ get? cfg.store h = some e ∧
        s' = completeFound cfg s h e) ∨
    (ev = .cancel ∧ s.cancelled = false ∧ s' = { s with cancelled := true }) := by
  cases ev with
  | dispatch h =>
    simp only [fstep] at hs
    split at hs
    · rename_i hc
      exact Or.inl ⟨h, rfl, hc.1, hc.2, (Option.some.inj hs).symm⟩
    · cases hs
  | complete h got =>
    simp only [fstep] at hs
    split at hs
    · rename_i hc
      cases got with
      | none =>
        refine Or.inr (Or.inl ⟨h, rfl, hc.1, ?_, (Option.some.inj hs).symm⟩)
        rcases hc.2 with h1 | h1
        · exact Or.inl h1.symm
        · exact Or.inr h1.1
      | some e =>
        refine Or.inr (Or.inr (Or.inl ⟨h, e, rfl, hc.1, ?_, (Option.some.inj hs).symm⟩))
        rcases hc.2 with h1 | h1
        · exact h1.symm
        · exact nomatch h1.2
    · cases hs
  | cancel =>
    simp only [fstep] at hs
    split at hs
    · rename_i hc
      exact Or.inr (Or.inr (Or.inr ⟨rfl, hc, (Option.some.inj hs).symm⟩))
    · cases hs

theorem WF_fstep {cfg : FCfg} {roots : List Hash} {s s' : FState} {ev : FEvent} (w : WF cfg roots s)
    (hs : fstep cfg s ev = some s') : WF cfg roots s' := by
  rcases fstep_cases hs with ⟨h, _, hq, _, rfl⟩ | ⟨h, _, hp, _, rfl⟩ | ⟨h, e, _, hp, hg, rfl⟩ | ⟨_, _, rfl⟩
  · exact WF_dispatch w hq
  · exact WF_completeNone w hp
  · exact WF_completeFound w hp hg
  · exact { qND := w.qND, pND := w.pND, q_started := w.q_started, p_d := w.p_d, resDone := w.resDone,
            resND := w.resND, req := w.req }

theorem frun_cons {cfg : FCfg} {s s' : FState} {ev : FEvent} {evs : List FEvent}
    (h : frun cfg s (ev :: evs) = some s') : ∃ s1, fstep cfg s ev = some s1 ∧ frun cfg s1 evs = some s' := by
  simp only [frun] at h
  split at h
  · cases h
  · rename_i s1 h1
    exact ⟨s1, h1, h⟩

theorem frun_append {cfg : FCfg} : ∀ {a b : List FEvent} {s s' : FState},
    frun cfg s (a ++ b) = some s' ↔ ∃ s1, frun cfg s a = some s1 ∧ frun cfg s1 b = some s'
  | [], b, s, s' => by simp [frun]
  | ev :: a, b, s, s' => by
    simp only [List.cons_append, frun]
    cases h : fstep cfg s ev with
    | none => simp
    | some s1 => exact frun_append

/-- an invariant preserved by every enabled event holds along every execution -/
theorem frun_induct {cfg : FCfg} (P : FState → Prop)
    (hstep : ∀ s s' ev, P s → fstep cfg s ev = some s' → P s') :
    ∀ (evs : List FEvent) (s s' : FState), P s → frun cfg s evs = some s' → P s'
  | [], s, s', hp, hr => by simp only [frun] at hr; cases hr; exact hp
  | ev :: evs, s, s', hp, hr => by
    obtain ⟨s1, h1, h2⟩ := frun_cons hr
    exact frun_induct P hstep evs s1 s' (hstep s s1 ev hp h1) h2

theorem WF_frun {cfg : FCfg} {roots : List Hash} {evs : List FEvent} {s s' : FState} (w : WF cfg roots s)
    (hr : frun cfg s evs = some s') : WF cfg roots s' :=
  frun_induct (WF cfg roots) (fun _ _ _ w h => WF_fstep w h) evs s s' w hr

theorem WF_accepted {cfg : FCfg} {roots : List Hash} {evs : List FEvent} {s : FState}
    (hr : accepted cfg roots evs = some s) : WF cfg roots s := WF_frun (WF_finit cfg roots) hr

/-! ## dispatch at most once, never an excluded hash -/

theorem started_addHashes {cfg : FCfg} {L : List Hash} {s : FState} {x : Hash} :
    (addHashes cfg s L).started x ↔ s.started x := by
  obtain ⟨b1, b2, b3, _⟩ := addHashes_frame cfg L s
  unfold FState.started; rw [b1, b2, b3]

theorem started_mono {cfg : FCfg} {s s' : FState} {ev : FEvent} (hs : fstep cfg s ev = some s') {x : Hash}
    (hx : s.started x) : s'.started x := by
  rcases fstep_cases hs with ⟨h, _, _, _, rfl⟩ | ⟨h, _, _, _, rfl⟩ | ⟨h, e, _, _, _, rfl⟩ | ⟨_, _, rfl⟩
  · rcases hx with hx | hx | hx
    · exact Or.inl (List.mem_cons_of_mem _ hx)
    · exact Or.inr (Or.inl hx)
    · exact Or.inr (Or.inr hx)
  · unfold completeNone
    rcases hx with hx | hx | hx
    · by_cases hxh : x = h
      · exact Or.inr (Or.inr (by simp [hxh]))
      · exact Or.inl ((List.mem_erase_of_ne hxh).mpr hx)
    · exact Or.inr (Or.inl hx)
    · exact Or.inr (Or.inr (List.mem_cons_of_mem _ hx))
  · unfold completeFound
    obtain ⟨L, _, heq, _⟩ := addNext_eq cfg (fbase cfg s h e) e
    rw [heq, started_addHashes]
    unfold fbase
    rcases hx with hx | hx | hx
    · by_cases hxh : x = h
      · exact Or.inr (Or.inl (by simp [hxh]))
      · exact Or.inl ((List.mem_erase_of_ne hxh).mpr hx)
    · exact Or.inr (Or.inl (List.mem_cons_of_mem _ hx))
    · exact Or.inr (Or.inr hx)
  · exact hx

theorem dispatch_fresh {cfg : FCfg} {roots : List Hash} {evs : List FEvent} : ∀ {s s' : FState},
    WF cfg roots s → frun cfg s evs = some s' →
    (dispatchedOf evs).Nodup ∧ ∀ h ∈ dispatchedOf evs, ¬ s.started h ∧ Req cfg roots h := by
  induction evs with
  | nil => intro s s' _ _; exact ⟨List.nodup_nil, fun _ h => nomatch h⟩
  | cons ev evs ih =>
    intro s s' w hr
    obtain ⟨s1, h1, h2⟩ := frun_cons hr
    obtain ⟨ihn, ihs⟩ := ih (WF_fstep w h1) h2
    have hback : ∀ h ∈ dispatchedOf evs, ¬ s.started h ∧ Req cfg roots h :=
      fun h hm => ⟨fun hx => (ihs h hm).1 (started_mono h1 hx), (ihs h hm).2⟩
    cases ev with
    | dispatch h =>
      simp only [dispatchedOf]
      rcases fstep_cases h1 with ⟨h', heq, hq, _, rfl⟩ | ⟨_, heq, _⟩ | ⟨_, _, heq, _⟩ | ⟨heq, _⟩
      · cases heq
        refine ⟨List.nodup_cons.mpr ⟨?_, ihn⟩, ?_⟩
        · intro hm
          exact (ihs h hm).1 (Or.inl List.mem_cons_self)
        · intro x hx
          cases hx with
          | head => exact ⟨w.q_started h hq, w.req h (Or.inl hq)⟩
          | tail _ hm => exact hback x hm
      · cases heq
      · cases heq
      · cases heq
    | complete h got => simp only [dispatchedOf]; exact ⟨ihn, hback⟩
    | cancel => simp only [dispatchedOf]; exact ⟨ihn, hback⟩

/-! ## termination bound -/

theorem filter_length_le_of_imp {α : Type} (p q : α → Bool) : ∀ (l : List α), (∀ x ∈ l, p x = true → q x = true) →
    (l.filter p).length ≤ (l.filter q).length
  | [], _ => Nat.le_refl _
  | a :: l, h => by
    have ih := filter_length_le_of_imp p q l (fun x hx => h x (List.mem_cons_of_mem _ hx))
    have ha := h a List.mem_cons_self
    simp only [List.filter_cons]
    cases hp : p a <;> cases hq : q a <;> simp <;> first | omega | (rw [hp, hq] at ha; exact absurd (ha rfl) (by simp))

theorem filter_length_lt_of_imp {α : Type} (p q : α → Bool) : ∀ (l : List α), (∀ x ∈ l, p x = true → q x = true) →
    (∃ x ∈ l, p x = false ∧ q x = true) → (l.filter p).length + 1 ≤ (l.filter q).length
  | [], _, ⟨_, hm, _⟩ => nomatch hm
  | a :: l, h, ⟨x, hm, hpx, hqx⟩ => by
    have himp : ∀ x ∈ l, p x = true → q x = true := fun x hx => h x (List.mem_cons_of_mem _ hx)
    have ha := h a List.mem_cons_self
    simp only [List.filter_cons]
    cases hm with
    | head =>
      have := filter_length_le_of_imp p q l himp
      rw [hpx, hqx]; simp; omega
    | tail _ hm' =>
      have ih := filter_length_lt_of_imp p q l himp ⟨x, hm', hpx, hqx⟩
      cases hp : p a <;> cases hq : q a <;> simp <;> first | omega | (rw [hp, hq] at ha; exact absurd (ha rfl) (by simp))

def startedB (s : FState) (h : Hash) : Bool := s.inProgress.contains h || s.done.contains h || s.failed.contains h

theorem startedB_iff (s : FState) (h : Hash) : startedB s h = true ↔ s.started h := by
  unfold startedB FState.started
  simp [Bool.or_eq_true, or_assoc]

/-- `2·(mentioned hashes not yet dispatched) + (fetches in flight) + (1 while not cancelled)` -/
def potential (cfg : FCfg) (roots : List Hash) (s : FState) : Nat :=
  2 * ((mentioned cfg roots).filter (fun h => !startedB s h)).length + s.inProgress.length +
    (if s.cancelled then 0 else 1)

theorem potential_step {cfg : FCfg} {roots : List Hash} {s s' : FState} {ev : FEvent} (w : WF cfg roots s)
    (hs : fstep cfg s ev = some s') : potential cfg roots s' + 1 ≤ potential cfg roots s := by
  have hmono : ∀ x ∈ mentioned cfg roots, (!startedB s' x) = true → (!startedB s x) = true := by
    intro x _ hx
    cases h1 : startedB s x with
    | false => rfl
    | true =>
      have := (startedB_iff s' x).mpr (started_mono hs ((startedB_iff s x).mp h1))
      rw [this] at hx; exact hx
  have hle := filter_length_le_of_imp _ _ (mentioned cfg roots) hmono
  unfold potential
  rcases fstep_cases hs with ⟨h, _, hq, hc, rfl⟩ | ⟨h, _, hp, _, rfl⟩ | ⟨h, e, _, hp, hg, rfl⟩ | ⟨_, hc, rfl⟩
  · have hlt := filter_length_lt_of_imp _ _ (mentioned cfg roots) hmono
      ⟨h, (w.req h (Or.inl hq)).mentioned, by
        have : startedB { s with queue := s.queue.erase h, inProgress := h :: s.inProgress } h = true :=
          (startedB_iff _ h).mpr (Or.inl List.mem_cons_self)
        rw [this]; rfl, by
        cases h1 : startedB s h with
        | false => rfl
        | true => exact absurd ((startedB_iff s h).mp h1) (w.q_started h hq)⟩
    simp only [List.length_cons]
    omega
  · have : (completeNone s h).inProgress.length = s.inProgress.length - 1 := by
      unfold completeNone; exact List.length_erase_of_mem hp
    have hpos : 0 < s.inProgress.length := List.length_pos_of_mem hp
    have hcn : (completeNone s h).cancelled = s.cancelled := rfl
    rw [this, hcn]
    omega
  · have hfr : (completeFound cfg s h e).inProgress = s.inProgress.erase h ∧
        (completeFound cfg s h e).cancelled = s.cancelled := by
      unfold completeFound
      obtain ⟨L, _, heq, _⟩ := addNext_eq cfg (fbase cfg s h e) e
      rw [heq]
      obtain ⟨b1, _, _, _, _, _, b7⟩ := addHashes_frame cfg L (fbase cfg s h e)
      rw [b1, b7]; exact ⟨rfl, rfl⟩
    have hpos : 0 < s.inProgress.length := List.length_pos_of_mem hp
    rw [hfr.1, hfr.2, List.length_erase_of_mem hp]
    omega
  · simp only [hc]
    simp
    omega

theorem frun_length_le {cfg : FCfg} {roots : List Hash} : ∀ (evs : List FEvent) {s s' : FState},
    WF cfg roots s → frun cfg s evs = some s' → evs.length + potential cfg roots s' ≤ potential cfg roots s
  | [], s, s', _, hr => by simp only [frun] at hr; cases hr; simp
  | ev :: evs, s, s', w, hr => by
    obtain ⟨s1, h1, h2⟩ := frun_cons hr
    have ih := frun_length_le evs (WF_fstep w h1) h2
    have := potential_step w h1
    simp only [List.length_cons]
    omega

theorem potential_finit_le (cfg : FCfg) (roots : List Hash) :
    potential cfg roots (finit cfg roots) ≤ 2 * (mentioned cfg roots).length + 1 := by
  unfold potential
  have h1 := List.length_filter_le (fun h => !startedB (finit cfg roots) h) (mentioned cfg roots)
  have h2 : (finit cfg roots).inProgress = [] := (addHashes_frame cfg roots {}).1
  rw [h2]
  split <;> simp <;> omega

/-! ## progress and cancellation -/

theorem progress_step (cfg : FCfg) (s : FState) (hnt : ¬ terminated s) : ∃ ev s', fstep cfg s ev = some s' := by
  unfold terminated at hnt
  cases hp : s.inProgress with
  | cons h t =>
    refine ⟨.complete h (get? cfg.store h), ?_⟩
    have hm : h ∈ s.inProgress := by rw [hp]; exact List.mem_cons_self
    simp only [fstep, hm, true_and, true_or, if_true]
    cases get? cfg.store h with
    | none => exact ⟨_, rfl⟩
    | some e => exact ⟨_, rfl⟩
  | nil =>
    cases hq : s.queue with
    | nil => exact absurd ⟨hp, Or.inl hq⟩ hnt
    | cons h t =>
      have hc : s.cancelled = false := by
        cases hcc : s.cancelled with
        | false => rfl
        | true => exact absurd ⟨hp, Or.inr hcc⟩ hnt
      refine ⟨.dispatch h, { s with queue := s.queue.erase h, inProgress := h :: s.inProgress }, ?_⟩
      have hm : h ∈ s.queue := by rw [hq]; exact List.mem_cons_self
      simp only [fstep, hm, hc, and_self, if_true]

theorem cancelled_mono {cfg : FCfg} {s s' : FState} {ev : FEvent} (hs : fstep cfg s ev = some s')
    (hc : s.cancelled = true) : s'.cancelled = true := by
  rcases fstep_cases hs with ⟨h, _, _, _, rfl⟩ | ⟨h, _, _, _, rfl⟩ | ⟨h, e, _, _, _, rfl⟩ | ⟨_, _, rfl⟩
  · exact hc
  · exact hc
  · unfold completeFound
    obtain ⟨L, _, heq, _⟩ := addNext_eq cfg (fbase cfg s h e) e
    rw [heq, (addHashes_frame cfg L _).2.2.2.2.2.2]
    exact hc
  · rfl

theorem no_dispatch_after_cancel {cfg : FCfg} : ∀ (evs : List FEvent) {s s' : FState},
    s.cancelled = true → frun cfg s evs = some s' → dispatchedOf evs = [] ∧ s'.cancelled = true
  | [], s, s', hc, hr => by simp only [frun] at hr; cases hr; exact ⟨rfl, hc⟩
  | ev :: evs, s, s', hc, hr => by
    obtain ⟨s1, h1, h2⟩ := frun_cons hr
    have ih := no_dispatch_after_cancel evs (cancelled_mono h1 hc) h2
    cases ev with
    | dispatch h =>
      rcases fstep_cases h1 with ⟨_, _, _, hcf, _⟩ | ⟨_, heq, _⟩ | ⟨_, _, heq, _⟩ | ⟨heq, _⟩
      · rw [hc] at hcf; cases hcf
      · cases heq
      · cases heq
      · cases heq
    | complete h got => simp only [dispatchedOf]; exact ih
    | cancel => simp only [dispatchedOf]; exact ih

theorem nodup_of_map_nodup {α β : Type} (f : α → β) : ∀ {l : List α}, (l.map f).Nodup → l.Nodup
  | [], _ => List.nodup_nil
  | a :: l, h => by
    rw [List.map_cons, List.nodup_cons] at h
    exact List.nodup_cons.mpr ⟨fun hm => h.1 (List.mem_map_of_mem hm), nodup_of_map_nodup f h.2⟩

end Model
