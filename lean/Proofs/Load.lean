import Proofs.System
import Model.Loaders
import Proofs.LoadersUnbounded
/-!
# Proofs.Load — `NewFromEntry` without a limit ends in one `NewLog` call (used by C09)
-/
namespace Model
/-- `NewFromEntry` without a limit, with the constructor call it ends in made explicit -/
theorem loadEntries_unbounded_eq (clockId : Bytes) (k : SortKind) (source fetched : List Entry)
    (hne : source ≠ []) :
    ∃ lastE ∈ goSort clockAsc (omFromList (source ++ fetched)),
      loadEntries clockId k source fetched (-1) =
        some (newLog lastE.logId clockId k (goSort clockAsc (omFromList (source ++ fetched))) []) := by
  have hmemh : ∀ h, h ∈ hashes (goSort clockAsc (omFromList (source ++ fetched))) ↔
      h ∈ hashes source ∨ h ∈ hashes fetched := by
    intro h
    rw [mem_hashes_goSort, mem_hashes_omFromList, hashes_append, List.mem_append]
  have hdiff : entryDifference (goSort clockAsc (omFromList (source ++ fetched))) source = [] := by
    apply entryDifference_nil
    intro v hv
    rw [fhas_iff, hmemh]
    exact Or.inl (List.mem_map_of_mem hv)
  have hnonempty : goSort clockAsc (omFromList (source ++ fetched)) ≠ [] := by
    intro hnil
    cases source with
    | nil => exact hne rfl
    | cons v t =>
      have : v.hash ∈ hashes (goSort clockAsc (omFromList ((v :: t) ++ fetched))) :=
        (hmemh v.hash).mpr (Or.inl (by simp [hashes]))
      rw [hnil] at this
      simp [hashes] at this
  unfold loadEntries
  simp only [show ¬ ((-1 : Int) > -1) by decide, if_false, hdiff, List.nil_append, List.length_nil, List.drop_zero]
  cases hl : (goSort clockAsc (omFromList (source ++ fetched))).getLast? with
  | none => exact absurd (List.getLast?_eq_none_iff.mp hl) hnonempty
  | some lastE => exact ⟨lastE, List.mem_of_getLast? hl, rfl⟩
end Model
