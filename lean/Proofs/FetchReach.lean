import Proofs.FetchBasic
import Model.Loaders
/-!
# Proofs.FetchReach — what an unbounded fetch returns

* `Reach cfg roots` is the least set containing the retrievable, wanted start hashes and closed under
  links (`next ++ refs`) of retrieved entries to retrievable, wanted hashes.
* `results_sound`: in every reachable state (any length, any faults, cancelled or not) every result is
  the stored entry of a hash in `Reach`.
* `unbounded_complete`: with `length < 0`, in a quiescent, never-cancelled state the results are
  exactly those entries.
* `mem_reachX_iff` / `mem_reach_iff`: the executable closures `reachX` (driver specification) and
  `reach` (`Model.Loaders`, used by the core stream) compute exactly that set, without duplicates.
-/
namespace Model

inductive Reach (cfg : FCfg) (roots : List Hash) : Hash → Prop
  | root {h : Hash} : h ∈ roots → h ≠ [] → cfg.excluded h = false → (get? cfg.store h).isSome →
      Reach cfg roots h
  | link {h c : Hash} {e : Entry} : Reach cfg roots h → get? cfg.store h = some e → c ∈ e.next ++ e.refs →
      c ≠ [] → cfg.excluded c = false → (get? cfg.store c).isSome → Reach cfg roots c

theorem Req.reach {cfg : FCfg} {roots : List Hash} {h : Hash} (r : Req cfg roots h)
    (hs : (get? cfg.store h).isSome) : Reach cfg roots h := by
  induction r with
  | root a b c => exact Reach.root a b c hs
  | link _ hg hc hne hex ih => exact Reach.link (ih (by rw [hg]; rfl)) hg hc hne hex hs

theorem Reach.req {cfg : FCfg} {roots : List Hash} {h : Hash} (r : Reach cfg roots h) :
    Req cfg roots h ∧ (get? cfg.store h).isSome := by
  induction r with
  | root a b c d => exact ⟨Req.root a b c, d⟩
  | link _ hg hc hne hex hs ih => exact ⟨Req.link ih.1 hg hc hne hex, hs⟩

/-- every result, at any time, is the stored entry of a reachable hash -/
theorem results_sound {cfg : FCfg} {roots : List Hash} {s : FState} (w : WF cfg roots s) {e : Entry}
    (he : e ∈ s.results) : ∃ h, Reach cfg roots h ∧ get? cfg.store h = some e := by
  obtain ⟨hd, hg⟩ := w.resDone e he
  refine ⟨e.hash, ?_, hg⟩
  exact (w.req e.hash (Or.inr (Or.inr (Or.inl hd)))).reach (by rw [hg]; rfl)

/-! ## completeness of the unbounded fetch -/

theorem known_mono {cfg : FCfg} {s s' : FState} {ev : FEvent} (hs : fstep cfg s ev = some s') {x : Hash}
    (hx : s.known x) : s'.known x := by
  rcases fstep_cases hs with ⟨h, _, _, _, rfl⟩ | ⟨h, _, _, _, rfl⟩ | ⟨h, e, _, _, _, rfl⟩ | ⟨_, _, rfl⟩
  · rcases hx with hx | hx | hx | hx
    · by_cases hxh : x = h
      · exact Or.inr (Or.inl (by simp [hxh]))
      · exact Or.inl ((List.mem_erase_of_ne hxh).mpr hx)
    · exact Or.inr (Or.inl (List.mem_cons_of_mem _ hx))
    · exact Or.inr (Or.inr (Or.inl hx))
    · exact Or.inr (Or.inr (Or.inr hx))
  · unfold completeNone
    rcases hx with hx | hx | hx | hx
    · exact Or.inl hx
    · by_cases hxh : x = h
      · exact Or.inr (Or.inr (Or.inr (by simp [hxh])))
      · exact Or.inr (Or.inl ((List.mem_erase_of_ne hxh).mpr hx))
    · exact Or.inr (Or.inr (Or.inl hx))
    · exact Or.inr (Or.inr (Or.inr (List.mem_cons_of_mem _ hx)))
  · unfold completeFound
    obtain ⟨L, _, heq, _⟩ := addNext_eq cfg (fbase cfg s h e) e
    rw [heq]
    exact known_addHashes_mono (known_fbase hx)
  · exact hx

theorem known_of_mem_addHashes {cfg : FCfg} {L : List Hash} {s : FState} {x : Hash} (hx : x ∈ L)
    (hne : x ≠ []) (hex : cfg.excluded x = false) : (addHashes cfg s L).known x := by
  rw [known_addHashes]
  by_cases hf : fexclude cfg s x
  · rcases hf with hf | hf | hf
    · exact absurd hf hne
    · exact Or.inl hf
    · rw [hex] at hf; cases hf
  · exact Or.inr ⟨hx, hf⟩

structure UInv (cfg : FCfg) (roots : List Hash) (s : FState) : Prop where
  rootsK : ∀ h ∈ roots, h ≠ [] → cfg.excluded h = false → s.known h
  admitted : ∀ h ∈ s.done, ∀ e, get? cfg.store h = some e → e ∈ s.results
  children : ∀ h ∈ s.done, ∀ e, get? cfg.store h = some e → ∀ c ∈ e.next ++ e.refs, c ≠ [] →
    cfg.excluded c = false → s.known c
  failedAbsent : s.cancelled = false → ∀ h ∈ s.failed, get? cfg.store h = none

theorem UInv_finit (cfg : FCfg) (roots : List Hash) : UInv cfg roots (finit cfg roots) := by
  obtain ⟨_, b2, b3, _⟩ := addHashes_frame cfg roots {}
  exact {
    rootsK := fun h hm hne hex => known_of_mem_addHashes hm hne hex
    admitted := by unfold finit; rw [b2]; exact fun _ h => nomatch h
    children := by unfold finit; rw [b2]; exact fun _ h => nomatch h
    failedAbsent := by unfold finit; rw [b3]; exact fun _ _ h => nomatch h }

theorem UInv_fstep {cfg : FCfg} {roots : List Hash} (hlen : cfg.length < 0) {s s' : FState} {ev : FEvent}
    (u : UInv cfg roots s) (hs : fstep cfg s ev = some s') : UInv cfg roots s' := by
  have hk : ∀ x, s.known x → s'.known x := fun x hx => known_mono hs hx
  rcases fstep_cases hs with ⟨h, _, _, _, rfl⟩ | ⟨h, _, _, hwhy, rfl⟩ | ⟨h, e, _, hp, hg, rfl⟩ | ⟨_, _, rfl⟩
  · exact {
      rootsK := fun x hm hne hex => hk x (u.rootsK x hm hne hex)
      admitted := u.admitted
      children := fun x hx e he c hc hne hex => hk c (u.children x hx e he c hc hne hex)
      failedAbsent := u.failedAbsent }
  · exact {
      rootsK := fun x hm hne hex => hk x (u.rootsK x hm hne hex)
      admitted := u.admitted
      children := fun x hx e he c hc hne hex => hk c (u.children x hx e he c hc hne hex)
      failedAbsent := by
        intro hc x hx
        have hc' : s.cancelled = false := hc
        cases hx with
        | head =>
          rcases hwhy with h1 | h1
          · exact h1
          · rw [hc'] at h1; cases h1
        | tail _ hm => exact u.failedAbsent hc' x hm }
  · -- completion with an entry, unbounded mode: admitted, all links queued
    have hshape : completeFound cfg s h e = addHashes cfg (fbase cfg s h e) (e.next ++ e.refs) := by
      unfold completeFound
      obtain ⟨L, _, heq, hL⟩ := addNext_eq cfg (fbase cfg s h e) e
      rw [heq, hL hlen]
    obtain ⟨_, b2, b3, b4, _, _, b7⟩ := addHashes_frame cfg (e.next ++ e.refs) (fbase cfg s h e)
    have hadm : admits cfg s e = true := by simp [admits, hlen]
    have hres : (completeFound cfg s h e).results = s.results ++ [e] := by
      rw [hshape, b4]; simp [fbase, hadm]
    have hdone : (completeFound cfg s h e).done = h :: s.done := by rw [hshape, b2]; rfl
    exact {
      rootsK := fun x hm hne hex => hk x (u.rootsK x hm hne hex)
      admitted := by
        rw [hres, hdone]
        intro x hx e' he'
        cases hx with
        | head =>
          rw [hg] at he'; cases he'
          exact List.mem_append_right _ (List.mem_singleton.mpr rfl)
        | tail _ hm => exact List.mem_append_left _ (u.admitted x hm e' he')
      children := by
        rw [hdone]
        intro x hx e' he' c hc hne hex
        cases hx with
        | head =>
          rw [hg] at he'; cases he'
          rw [hshape]
          exact known_of_mem_addHashes hc hne hex
        | tail _ hm => exact hk c (u.children x hm e' he' c hc hne hex)
      failedAbsent := by
        rw [hshape, b3, b7]
        exact u.failedAbsent }
  · exact {
      rootsK := u.rootsK
      admitted := u.admitted
      children := u.children
      failedAbsent := fun hc => nomatch hc }

theorem UInv_accepted {cfg : FCfg} {roots : List Hash} (hlen : cfg.length < 0) {evs : List FEvent} {s : FState}
    (hr : accepted cfg roots evs = some s) : UInv cfg roots s :=
  frun_induct (UInv cfg roots) (fun _ _ _ u h => UInv_fstep hlen u h) evs _ s (UInv_finit cfg roots) hr

theorem reach_done {cfg : FCfg} {roots : List Hash} {s : FState} (u : UInv cfg roots s) (hq : quiescent s)
    (hc : s.cancelled = false) {h : Hash} (r : Reach cfg roots h) : h ∈ s.done := by
  have settle : ∀ x, s.known x → (get? cfg.store x).isSome → x ∈ s.done := by
    intro x hk hs
    rcases hk with hk | hk | hk | hk
    · rw [hq.1] at hk; cases hk
    · rw [hq.2] at hk; cases hk
    · exact hk
    · rw [u.failedAbsent hc x hk] at hs; cases hs
  induction r with
  | root a b c d => exact settle _ (u.rootsK _ a b c) d
  | link _ hg hcm hne hex hs ih => exact settle _ (u.children _ ih _ hg _ hcm hne hex) hs

/-- the unbounded fetch returns exactly the entries of `Reach` -/
theorem unbounded_complete {cfg : FCfg} {roots : List Hash} (hlen : cfg.length < 0) {evs : List FEvent}
    {s : FState} (hr : accepted cfg roots evs = some s) (hq : quiescent s) (hc : s.cancelled = false)
    (e : Entry) : e ∈ s.results ↔ ∃ h, Reach cfg roots h ∧ get? cfg.store h = some e := by
  constructor
  · exact results_sound (WF_accepted hr)
  · rintro ⟨h, r, hg⟩
    have u := UInv_accepted hlen hr
    exact u.admitted h (reach_done u hq hc r) e hg

/-! ## the executable closure -/

inductive ReqX (store : List Entry) (ok : Hash → Bool) (roots : List Hash) : Hash → Prop
  | root {h : Hash} : h ∈ roots → ok h = true → ReqX store ok roots h
  | link {h c : Hash} {e : Entry} : ReqX store ok roots h → get? store h = some e → c ∈ e.next ++ e.refs →
      ok c = true → ReqX store ok roots c

def linkSum (seen : List Hash) : List Entry → Nat
  | [] => 0
  | e :: t => (if seen.contains e.hash then 0 else e.next.length + e.refs.length) + linkSum seen t

theorem linkSum_cons_le (h : Hash) (seen : List Hash) : ∀ l, linkSum (h :: seen) l ≤ linkSum seen l
  | [] => Nat.le_refl _
  | e :: t => by
    have ih := linkSum_cons_le h seen t
    simp only [linkSum, List.contains_cons]
    cases hc : seen.contains e.hash <;> cases hh : (e.hash == h) <;> simp <;> omega

theorem linkSum_visit {h : Hash} {seen : List Hash} (hns : seen.contains h = false) {e : Entry} :
    ∀ {l : List Entry}, e ∈ l → e.hash = h →
      linkSum (h :: seen) l + (e.next.length + e.refs.length) ≤ linkSum seen l
  | [], hm, _ => nomatch hm
  | a :: t, hm, heh => by
    simp only [linkSum, List.contains_cons]
    cases hm with
    | head =>
      have := linkSum_cons_le h seen t
      rw [heh, hns]; simp; omega
    | tail _ hm' =>
      have ih := linkSum_visit hns hm' heh
      cases hc : seen.contains a.hash <;> cases hh : (a.hash == h) <;> simp <;> omega

theorem foldl_links_eq (l : List Entry) : ∀ k : Nat,
    l.foldl (fun n e => n + e.next.length + e.refs.length) k = k + linkSum [] l := by
  induction l with
  | nil => intro k; simp [linkSum]
  | cons e t ih => intro k; simp only [List.foldl_cons, linkSum, List.contains_nil]; rw [ih]; simp; omega

structure LoopInv (store : List Entry) (ok : Hash → Bool) (roots : List Hash)
    (st seen : List Hash) (res : List Entry) : Prop where
  seenReq : ∀ h ∈ seen, ReqX store ok roots h
  stReq : ∀ h ∈ st, ok h = true → ReqX store ok roots h
  resSeen : ∀ e ∈ res, e.hash ∈ seen ∧ get? store e.hash = some e
  seenRes : ∀ h ∈ seen, ∀ e, get? store h = some e → e ∈ res
  rootsIn : ∀ h ∈ roots, ok h = true → h ∈ seen ∨ h ∈ st
  linksIn : ∀ h ∈ seen, ∀ e, get? store h = some e → ∀ c ∈ e.next ++ e.refs, ok c = true → c ∈ seen ∨ c ∈ st
  resND : (res.map (·.hash)).Nodup

/-- the loop ends (fuel suffices) with a state whose stack is empty -/
theorem reachLoopX_inv {store : List Entry} {ok : Hash → Bool} {roots : List Hash} :
    ∀ (fuel : Nat) (st seen : List Hash) (res : List Entry), LoopInv store ok roots st seen res →
      st.length + linkSum seen store < fuel →
      ∃ seen', LoopInv store ok roots [] seen' (reachLoopX store ok fuel st seen res)
  | 0, _, _, _, _, hf => absurd hf (Nat.not_lt_zero _)
  | f + 1, [], seen, res, inv, _ => ⟨seen, by simpa [reachLoopX] using inv⟩
  | f + 1, h :: st, seen, res, inv, hf => by
    simp only [reachLoopX]
    split
    · -- already seen or unwanted: dropped
      rename_i hskip
      apply reachLoopX_inv f st seen res
      · exact {
          seenReq := inv.seenReq
          stReq := fun x hx => inv.stReq x (List.mem_cons_of_mem _ hx)
          resSeen := inv.resSeen
          seenRes := inv.seenRes
          rootsIn := by
            intro x hx hok
            rcases inv.rootsIn x hx hok with h1 | h1
            · exact Or.inl h1
            · cases h1 with
              | head =>
                left
                rcases Bool.or_eq_true _ _ |>.mp hskip with h2 | h2
                · simpa using h2
                · rw [hok] at h2; cases h2
              | tail _ hm => exact Or.inr hm
          linksIn := by
            intro y hy e he c hc hok
            rcases inv.linksIn y hy e he c hc hok with h1 | h1
            · exact Or.inl h1
            · cases h1 with
              | head =>
                left
                rcases Bool.or_eq_true _ _ |>.mp hskip with h2 | h2
                · simpa using h2
                · rw [hok] at h2; cases h2
              | tail _ hm => exact Or.inr hm
          resND := inv.resND }
      · simp only [List.length_cons] at hf; omega
    · rename_i hskip
      have hns : seen.contains h = false := by
        cases hc : seen.contains h with
        | false => rfl
        | true => rw [hc] at hskip; simp at hskip
      have hok : ok h = true := by
        cases hc : ok h with
        | true => rfl
        | false => rw [hc] at hskip; simp at hskip
      have hnm : h ∉ seen := by simpa using hns
      have hreq : ReqX store ok roots h := inv.stReq h List.mem_cons_self hok
      split
      · -- not retrievable
        rename_i hg
        apply reachLoopX_inv f st (h :: seen) res
        · exact {
            seenReq := by
              intro x hx
              cases hx with
              | head => exact hreq
              | tail _ hm => exact inv.seenReq x hm
            stReq := fun x hx => inv.stReq x (List.mem_cons_of_mem _ hx)
            resSeen := fun e he => ⟨List.mem_cons_of_mem _ (inv.resSeen e he).1, (inv.resSeen e he).2⟩
            seenRes := by
              intro x hx e he
              cases hx with
              | head => rw [hg] at he; cases he
              | tail _ hm => exact inv.seenRes x hm e he
            rootsIn := by
              intro x hx hokx
              rcases inv.rootsIn x hx hokx with h1 | h1
              · exact Or.inl (List.mem_cons_of_mem _ h1)
              · cases h1 with
                | head => exact Or.inl List.mem_cons_self
                | tail _ hm => exact Or.inr hm
            linksIn := by
              intro y hy e he c hc hokc
              cases hy with
              | head => rw [hg] at he; cases he
              | tail _ hm =>
                rcases inv.linksIn y hm e he c hc hokc with h1 | h1
                · exact Or.inl (List.mem_cons_of_mem _ h1)
                · cases h1 with
                  | head => exact Or.inl List.mem_cons_self
                  | tail _ hm' => exact Or.inr hm'
            resND := inv.resND }
        · have := linkSum_cons_le h seen store
          simp only [List.length_cons] at hf; omega
      · -- retrieved: entry appended, links pushed
        rename_i e hg
        have heh : e.hash = h := fget?_hash hg
        apply reachLoopX_inv f (st ++ e.next ++ e.refs) (h :: seen) (res ++ [e])
        · exact {
            seenReq := by
              intro x hx
              cases hx with
              | head => exact hreq
              | tail _ hm => exact inv.seenReq x hm
            stReq := by
              intro x hx hokx
              rw [List.append_assoc] at hx
              rcases List.mem_append.mp hx with h1 | h1
              · exact inv.stReq x (List.mem_cons_of_mem _ h1) hokx
              · exact ReqX.link hreq hg h1 hokx
            resSeen := by
              intro e' he'
              rcases List.mem_append.mp he' with h1 | h1
              · exact ⟨List.mem_cons_of_mem _ (inv.resSeen e' h1).1, (inv.resSeen e' h1).2⟩
              · rw [List.mem_singleton] at h1
                subst h1
                rw [heh]; exact ⟨List.mem_cons_self, hg⟩
            seenRes := by
              intro x hx e' he'
              cases hx with
              | head => rw [hg] at he'; cases he'; exact List.mem_append_right _ (List.mem_singleton.mpr rfl)
              | tail _ hm => exact List.mem_append_left _ (inv.seenRes x hm e' he')
            rootsIn := by
              intro x hx hokx
              rcases inv.rootsIn x hx hokx with h1 | h1
              · exact Or.inl (List.mem_cons_of_mem _ h1)
              · cases h1 with
                | head => exact Or.inl List.mem_cons_self
                | tail _ hm => exact Or.inr (by rw [List.append_assoc]; exact List.mem_append_left _ hm)
            linksIn := by
              intro y hy e' he' c hc hokc
              cases hy with
              | head =>
                rw [hg] at he'; cases he'
                exact Or.inr (by rw [List.append_assoc]; exact List.mem_append_right _ hc)
              | tail _ hm =>
                rcases inv.linksIn y hm e' he' c hc hokc with h1 | h1
                · exact Or.inl (List.mem_cons_of_mem _ h1)
                · cases h1 with
                  | head => exact Or.inl List.mem_cons_self
                  | tail _ hm' => exact Or.inr (by rw [List.append_assoc]; exact List.mem_append_left _ hm')
            resND := by
              rw [List.map_append, List.nodup_append]
              refine ⟨inv.resND, by simp, ?_⟩
              intro a ha b hb
              simp only [List.map_cons, List.map_nil, List.mem_singleton] at hb
              obtain ⟨r, hr, hra⟩ := List.mem_map.mp ha
              intro hab
              apply hnm
              have := (inv.resSeen r hr).1
              rw [hra, hab, hb, heh] at this
              exact this }
        · have := linkSum_visit hns (fget?_mem hg) heh
          simp only [List.length_cons, List.length_append] at hf ⊢
          omega

theorem LoopInv_start (store : List Entry) (ok : Hash → Bool) (roots : List Hash) :
    LoopInv store ok roots roots [] [] where
  seenReq := fun _ h => nomatch h
  stReq := fun _ hm hok => ReqX.root hm hok
  resSeen := fun _ h => nomatch h
  seenRes := fun _ h => nomatch h
  rootsIn := fun _ hm _ => Or.inr hm
  linksIn := fun _ h => nomatch h
  resND := List.nodup_nil

theorem LoopInv_final {store : List Entry} {ok : Hash → Bool} {roots : List Hash} {seen : List Hash}
    {res : List Entry} (inv : LoopInv store ok roots [] seen res) :
    (∀ e, e ∈ res ↔ ∃ h, ReqX store ok roots h ∧ get? store h = some e) ∧ (res.map (·.hash)).Nodup := by
  refine ⟨fun e => ⟨?_, ?_⟩, inv.resND⟩
  · intro he
    exact ⟨e.hash, inv.seenReq _ (inv.resSeen e he).1, (inv.resSeen e he).2⟩
  · rintro ⟨h, r, hg⟩
    have hseen : h ∈ seen := by
      clear hg
      induction r with
      | root a b =>
        rcases inv.rootsIn _ a b with h1 | h1
        · exact h1
        · cases h1
      | link _ hg' hc hok ih =>
        rcases inv.linksIn _ ih _ hg' _ hc hok with h1 | h1
        · exact h1
        · cases h1
    exact inv.seenRes h hseen e hg

/-- `reachLoopX` from the start state with the fuel of `reachX` / `reach` -/
theorem reachLoopX_spec (store : List Entry) (ok : Hash → Bool) (roots : List Hash) :
    let res := reachLoopX store ok
      (roots.length + store.foldl (fun n e => n + e.next.length + e.refs.length) 0 + 1) roots [] []
    (∀ e, e ∈ res ↔ ∃ h, ReqX store ok roots h ∧ get? store h = some e) ∧ (res.map (·.hash)).Nodup := by
  intro res
  obtain ⟨seen, inv⟩ := reachLoopX_inv (store := store) (ok := ok) (roots := roots)
    (roots.length + store.foldl (fun n e => n + e.next.length + e.refs.length) 0 + 1) roots [] []
    (LoopInv_start store ok roots) (by rw [foldl_links_eq]; omega)
  exact LoopInv_final inv

theorem reachLoop_eq (store : List Entry) : ∀ (fuel : Nat) (st seen : List Hash) (res : List Entry),
    reachLoop store fuel st seen res = reachLoopX store (fun _ => true) fuel st seen res
  | 0, _, _, _ => rfl
  | _ + 1, [], _, _ => rfl
  | f + 1, h :: st, seen, res => by
    simp only [reachLoop, reachLoopX, Bool.not_true, Bool.or_false]
    split
    · exact reachLoop_eq store f st seen res
    · cases get? store h with
      | none => exact reachLoop_eq store f st (h :: seen) res
      | some e => exact reachLoop_eq store f _ (h :: seen) _

theorem ReqX_okHash_iff {cfg : FCfg} {roots : List Hash} {h : Hash} :
    ReqX cfg.store (okHash cfg) roots h ↔ Req cfg roots h := by
  have hok : ∀ x, okHash cfg x = true ↔ (x ≠ [] ∧ cfg.excluded x = false) := by
    intro x; unfold okHash; simp
  constructor
  · intro r
    induction r with
    | root a b => exact Req.root a ((hok _).mp b).1 ((hok _).mp b).2
    | link _ hg hc b ih => exact Req.link ih hg hc ((hok _).mp b).1 ((hok _).mp b).2
  · intro r
    induction r with
    | root a b c => exact ReqX.root a ((hok _).mpr ⟨b, c⟩)
    | link _ hg hc b c ih => exact ReqX.link ih hg hc ((hok _).mpr ⟨b, c⟩)

/-- the driver's executable specification is the set of `Reach` -/
theorem mem_reachX_iff (cfg : FCfg) (roots : List Hash) (e : Entry) :
    e ∈ reachX cfg roots ↔ ∃ h, Reach cfg roots h ∧ get? cfg.store h = some e := by
  unfold reachX
  rw [(reachLoopX_spec cfg.store (okHash cfg) roots).1 e]
  constructor
  · rintro ⟨h, r, hg⟩
    exact ⟨h, (ReqX_okHash_iff.mp r).reach (by rw [hg]; rfl), hg⟩
  · rintro ⟨h, r, hg⟩
    exact ⟨h, ReqX_okHash_iff.mpr r.req.1, hg⟩

theorem reachX_nodup (cfg : FCfg) (roots : List Hash) : ((reachX cfg roots).map (·.hash)).Nodup :=
  (reachLoopX_spec cfg.store (okHash cfg) roots).2

/-- `reach` of `Model.Loaders`: same set when nothing is excluded and no block has the undefined hash -/
theorem mem_reach_iff (cfg : FCfg) (roots : List Hash) (hex : ∀ h, cfg.excluded h = false)
    (hundef : get? cfg.store [] = none) (e : Entry) :
    e ∈ reach cfg.store roots ↔ ∃ h, Reach cfg roots h ∧ get? cfg.store h = some e := by
  unfold reach reachFuel
  rw [reachLoop_eq, (reachLoopX_spec cfg.store (fun _ => true) roots).1 e]
  have hne : ∀ x, (get? cfg.store x).isSome → x ≠ [] := by
    intro x hs hx; rw [hx, hundef] at hs; cases hs
  constructor
  · rintro ⟨h, r, hg⟩
    refine ⟨h, ?_, hg⟩
    have hs : (get? cfg.store h).isSome := by rw [hg]; rfl
    clear hg
    induction r with
    | root a _ => exact Reach.root a (hne _ hs) (hex _) hs
    | link _ hg' hc _ ih => exact Reach.link (ih (by rw [hg']; rfl)) hg' hc (hne _ hs) (hex _) hs
  · rintro ⟨h, r, hg⟩
    refine ⟨h, ?_, hg⟩
    clear hg
    induction r with
    | root a _ _ _ => exact ReqX.root a rfl
    | link _ hg' hc _ _ _ ih => exact ReqX.link ih hg' hc rfl

theorem reach_nodup (store : List Entry) (roots : List Hash) : ((reach store roots).map (·.hash)).Nodup := by
  unfold reach reachFuel
  rw [reachLoop_eq]
  exact (reachLoopX_spec store (fun _ => true) roots).2

end Model
