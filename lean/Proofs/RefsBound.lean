import Proofs.AppendRefs
/-!
# Proofs.RefsBound — the number of skip references is logarithmic in the pointer count (C04)
-/
namespace Model

/-- the doubling loop of `getEveryPow2`: `L` picked entries starting at distance `i` mean
    `i * 2^(L-1) ≤ maxDistance` -/
theorem everyPow2_length (all : List Entry) (m : Int) : ∀ (fuel : Nat) (i : Int), 1 ≤ i →
    1 ≤ (everyPow2 all m fuel i).length → i * ((2 ^ ((everyPow2 all m fuel i).length - 1) : Nat) : Int) ≤ m
  | 0, _, _, h => by simp [everyPow2] at h
  | fuel + 1, i, hi, h => by
    have ih := everyPow2_length all m fuel (i * 2) (by omega)
    by_cases hc : i ≤ m
    · cases hg : all[(min ((all.length : Int) - 1) (i - 1)).toNat]? with
      | some e =>
        have heq : everyPow2 all m (fuel + 1) i = e :: everyPow2 all m fuel (i * 2) := by
          conv => lhs; unfold everyPow2
          simp only [hc, if_true, hg]
        rw [heq] at h ⊢
        simp only [List.length_cons, Nat.add_sub_cancel] at h ⊢
        by_cases hz : (everyPow2 all m fuel (i * 2)).length = 0
        · rw [hz]; simpa using hc
        · have h1 := ih (by omega)
          obtain ⟨k, hk⟩ : ∃ k, (everyPow2 all m fuel (i * 2)).length = k + 1 := ⟨_, (Nat.succ_pred_eq_of_ne_zero hz).symm⟩
          rw [hk] at h1 ⊢
          simp only [Nat.add_sub_cancel] at h1
          rw [Nat.pow_succ]
          have : i * 2 * ((2 ^ k : Nat) : Int) = i * (((2 ^ k * 2 : Nat)) : Int) := by
            push_cast; rw [Int.mul_assoc, Int.mul_comm 2 _]
          omega
      | none =>
        have heq : everyPow2 all m (fuel + 1) i = everyPow2 all m fuel (i * 2) := by
          conv => lhs; unfold everyPow2
          simp only [hc, if_true, hg]
        rw [heq] at h ⊢
        have h1 := ih h
        have hpos : (0 : Int) ≤ ((2 ^ ((everyPow2 all m fuel (i * 2)).length - 1) : Nat) : Int) := Int.natCast_nonneg _
        have : i * ((2 ^ ((everyPow2 all m fuel (i * 2)).length - 1) : Nat) : Int)
            ≤ i * 2 * ((2 ^ ((everyPow2 all m fuel (i * 2)).length - 1) : Nat) : Int) := by
          rw [Int.mul_assoc]
          apply Int.mul_le_mul_of_nonneg_left _ (by omega)
          omega
        omega
    · have heq : everyPow2 all m (fuel + 1) i = [] := by
        conv => lhs; unfold everyPow2
        simp only [hc, if_false]
      rw [heq] at h
      simp at h

/-- hence at most `⌊log₂ m⌋ + 1` entries are picked -/
theorem everyPow2_length_le (all : List Entry) (m : Int) (fuel : Nat) (hm : 1 ≤ m) :
    (everyPow2 all m fuel 1).length ≤ Nat.log2 m.toNat + 1 := by
  by_cases hz : (everyPow2 all m fuel 1).length = 0
  · omega
  · have h := everyPow2_length all m fuel 1 (by omega) (by omega)
    rw [Int.one_mul] at h
    have hnat : 2 ^ ((everyPow2 all m fuel 1).length - 1) ≤ m.toNat := by omega
    have := (Nat.le_log2 (n := m.toNat) (by omega)).mpr hnat
    omega

theorem everyPow2_nil_of_lt (all : List Entry) (m : Int) (fuel : Nat) (hm : m < 1) : everyPow2 all m fuel 1 = [] := by
  cases fuel with
  | zero => rfl
  | succ f => unfold everyPow2; simp [show ¬ (1 : Int) ≤ m by omega]

/-- the first pick is the first traversed entry -/
theorem everyPow2_head (all : List Entry) (e0 : Entry) (t : List Entry) (m : Int) (fuel : Nat) (hm : 1 ≤ m)
    (hall : all = e0 :: t) : ∃ r, everyPow2 all m (fuel + 1) 1 = e0 :: r := by
  subst hall
  unfold everyPow2
  have hidx : (min (((e0 :: t).length : Int) - 1) (1 - 1)).toNat = 0 := by
    simp only [List.length_cons]; omega
  simp only [hm, if_true, hidx, List.getElem?_cons_zero]
  exact ⟨_, rfl⟩

/-- the traversal only ever appends to what it has emitted -/
theorem travLoop_prefix (E : List Entry) (lt : Entry → Entry → Bool) (amount : Int) (endHash : Option Hash) :
    ∀ (fuel : Nat) (stack : List Entry) (trav : List Hash) (res : List Entry) (count : Int),
      ∃ t, travLoop E lt amount endHash fuel stack trav res count = res ++ t
  | 0, _, _, res, _ => ⟨[], by simp [travLoop]⟩
  | _ + 1, [], _, res, _ => ⟨[], by simp [travLoop]⟩
  | fuel + 1, e :: rest, trav, res, count => by
    unfold travLoop
    have hset : ∃ t0, omSet res e = res ++ t0 := by
      unfold omSet; split
      · exact ⟨[], by simp⟩
      · exact ⟨[e], rfl⟩
    obtain ⟨t0, ht0⟩ := hset
    split
    · split
      · exact ⟨t0, ht0⟩
      · obtain ⟨t, ht⟩ := travLoop_prefix E lt amount endHash fuel
          (if (pushNexts E e.next (rest, e.hash :: trav, false)).2.2 then
            goSort lt (pushNexts E e.next (rest, e.hash :: trav, false)).1
           else (pushNexts E e.next (rest, e.hash :: trav, false)).1)
          (pushNexts E e.next (rest, e.hash :: trav, false)).2.1 (omSet res e) (count + 1)
        refine ⟨t0 ++ t, ?_⟩
        dsimp only
        rw [ht, ht0, List.append_assoc]
    · exact ⟨[], by simp⟩

/-- a non-empty traversal from a non-empty root list starts with one of the roots -/
theorem traverseG_head (E : List Entry) (lt : Entry → Entry → Bool) (roots : List Entry) (amount : Int)
    (e0 : Entry) (t : List Entry) (h : traverseG E lt roots amount none = e0 :: t) : e0 ∈ roots := by
  unfold traverseG traverseFuel at h
  cases hs : goSort lt roots with
  | nil => rw [hs] at h; simp [travLoop] at h
  | cons r rs =>
    rw [hs] at h
    have hr : r ∈ roots := mem_goSort.mp (by rw [hs]; simp)
    unfold travLoop at h
    split at h
    · have hset : omSet [] r = [r] := by simp [omSet]
      simp only [hset] at h
      split at h
      · rename_i hc; cases hc
      · obtain ⟨t', ht'⟩ := travLoop_prefix E lt amount none (roots.length + E.length)
          (if (pushNexts E r.next (rs, r.hash :: [], false)).2.2 then
            goSort lt (pushNexts E r.next (rs, r.hash :: [], false)).1
           else (pushNexts E r.next (rs, r.hash :: [], false)).1)
          (pushNexts E r.next (rs, r.hash :: [], false)).2.1 [r] (0 + 1)
        rw [ht'] at h
        simp only [List.singleton_append, List.cons.injEq] at h
        exact h.1 ▸ hr
    · cases h

theorem dedupHashes_length_le (l : List Hash) : ∀ (acc : List Hash), (dedupHashes l acc).length ≤ acc.length + l.length := by
  induction l with
  | nil => intro acc; simp [dedupHashes]
  | cons h hs ih =>
    intro acc
    unfold dedupHashes
    split
    · have := ih acc; simp only [List.length_cons]; omega
    · have := ih (acc ++ [h]); simp only [List.length_append, List.length_cons, List.length_nil] at this ⊢; omega

theorem log2_mono {a b : Nat} (ha : a ≠ 0) (h : a ≤ b) : Nat.log2 a ≤ Nat.log2 b := by
  have hb : b ≠ 0 := by omega
  exact (Nat.le_log2 hb).mpr (Nat.le_trans (Nat.log2_self_le ha) h)

/-- C04: at most `⌊log₂ (max pc 1)⌋ + 1` skip references -/
theorem appendPlan_refs_length {U : List Entry} {l : Log} (I : Inv U l) (pc : Int) :
    (appendPlan l pc).refs.length ≤ Nat.log2 (max pc 1).toNat + 1 := by
  rw [appendPlan_refs_eq]
  obtain ⟨pcv, hpcv⟩ : ∃ v, v = (if pc ≠ 0 then pc else 1) := ⟨_, rfl⟩
  obtain ⟨all, hall⟩ : ∃ a, a = traverseG l.entries (before l.sortFn) (sortedHeads l) (max pcv (sortedHeads l).length) none := ⟨_, rfl⟩
  rw [← hpcv, ← hall]
  refine Nat.le_trans (dedupHashes_length_le _ []) ?_
  simp only [List.length_nil, Nat.zero_add]
  -- `pcv < 1`: no candidates at all
  by_cases hneg : pcv < 1
  · have h0 : refCandidates all pcv = [] := by
      unfold refCandidates
      have : min pcv (all.length : Int) < 1 := by omega
      simp only [everyPow2_nil_of_lt all _ _ this]
      have : ¬ ((all.length : Int) < pcv) := by omega
      simp [this]
    rw [h0]; simp
  · have hp1 : 1 ≤ pcv := by omega
    have hmax : (max pc 1).toNat = pcv.toNat := by
      rw [hpcv]; split <;> omega
    rw [hmax]
    by_cases hlen : (all.length : Int) < pcv
    · -- fewer traversed entries than the pointer count: the last one is added, the first one is a head
      cases hal : all with
      | nil =>
        have : refCandidates [] pcv = [] := by
          unfold refCandidates
          have hz : min pcv ((([] : List Entry).length : Nat) : Int) < 1 := by simp only [List.length_nil]; omega
          simp only [everyPow2_nil_of_lt [] _ _ hz]
          simp
        rw [this]; simp
      | cons e0 t =>
        have he0 : e0 ∈ sortedHeads l := traverseG_head _ _ _ _ e0 t (by rw [← hall, hal])
        have hm : 1 ≤ min pcv ((e0 :: t).length : Int) := by simp only [List.length_cons]; omega
        obtain ⟨r, hr⟩ := everyPow2_head (e0 :: t) e0 t (min pcv ((e0 :: t).length : Int)) ((e0 :: t).length + 1) hm rfl
        have hlen0 := everyPow2_length_le (e0 :: t) (min pcv ((e0 :: t).length : Int)) ((e0 :: t).length + 2) hm
        have hcand : refCandidates (e0 :: t) pcv = e0 :: (r ++ [(e0 :: t).getLast (by simp)]) := by
          unfold refCandidates
          have hl' : (((e0 :: t).length : Nat) : Int) < pcv := by rw [← hal]; exact hlen
          simp only [hl', if_true, hr, List.getLast?_eq_some_getLast (l := e0 :: t) (by simp)]
          rfl
        rw [hcand]
        have hfirst : (!((sortedHeads l).map (·.hash)).reverse.contains e0.hash) = false := by
          have : e0.hash ∈ ((sortedHeads l).map (·.hash)).reverse := by
            rw [List.mem_reverse]; exact List.mem_map.mpr ⟨e0, he0, rfl⟩
          rw [List.contains_iff_mem.mpr this]; rfl
        simp only [List.map_cons, List.filter_cons, hfirst]
        simp only [Bool.false_eq_true, if_false]
        refine Nat.le_trans (List.length_filter_le _ _) ?_
        simp only [List.map_append, List.length_append, List.length_map, List.length_cons, List.length_nil]
        rw [hr] at hlen0
        simp only [List.length_cons] at hlen0
        have hmin : (min pcv ((t.length + 1 : Nat) : Int)).toNat = t.length + 1 := by
          have : (((e0 :: t).length : Nat) : Int) < pcv := by rw [← hal]; exact hlen
          simp only [List.length_cons] at this
          omega
        rw [hmin] at hlen0
        have hmono : Nat.log2 (t.length + 1) ≤ Nat.log2 pcv.toNat := by
          apply log2_mono (by omega)
          have : (((e0 :: t).length : Nat) : Int) < pcv := by rw [← hal]; exact hlen
          simp only [List.length_cons] at this
          omega
        omega
    · -- enough traversed entries: the doubling loop alone
      have hm : 1 ≤ min pcv (all.length : Int) := by omega
      have h1 := everyPow2_length_le all (min pcv (all.length : Int)) (all.length + 2) hm
      have hcand : refCandidates all pcv = everyPow2 all (min pcv (all.length : Int)) (all.length + 2) 1 := by
        unfold refCandidates; simp [hlen]
      rw [hcand]
      refine Nat.le_trans (List.length_filter_le _ _) ?_
      rw [List.length_map]
      have hmin : (min pcv (all.length : Int)).toNat = pcv.toNat := by omega
      rw [hmin] at h1
      exact h1

end Model
