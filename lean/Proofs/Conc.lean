import Model.Conc
/-!
# Proofs.Conc — invariants of the concurrent world

* `StepR` — the step function as a relation (one constructor per instruction and outcome).
* `Excl`  — reader/writer exclusion, for arbitrary programs.
* `Coh`   — for well-bracketed programs the lock table agrees with what every thread holds.
* progress, event-log and replay lemmas.
-/
namespace Model.Conc

@[simp] theorem upd_same {α : Type} (f : Nat → α) (i : Nat) (v : α) : upd f i v i = v := by simp [upd]
theorem upd_other {α : Type} (f : Nat → α) {i j : Nat} (v : α) (h : j ≠ i) : upd f i v j = f j := by simp [upd, h]

/-- the step function as a relation -/
inductive StepR (w : World) (t : Tid) : World → Prop where
  | hook (p : Hook) (rest : List Instr) (h : (w.thr t).rest = .hook p :: rest) :
      StepR w t { w with thr := upd w.thr t { w.thr t with rest := rest } }
  | rlock (l : Lid) (rest : List Instr) (h : (w.thr t).rest = .rlock l :: rest)
      (hw : (w.locks l).writer = none) (hp : (w.locks l).pending = none) :
      StepR w t { w with locks := upd w.locks l { w.locks l with readers := t :: (w.locks l).readers }
                         thr := upd w.thr t { w.thr t with rest := rest, held := some (l, false) } }
  | runlock (l : Lid) (rest : List Instr) (h : (w.thr t).rest = .runlock l :: rest)
      (hm : t ∈ (w.locks l).readers) :
      StepR w t { w with locks := upd w.locks l { w.locks l with readers := (w.locks l).readers.erase t }
                         thr := upd w.thr t { w.thr t with rest := rest, held := none } }
  | lockAcq (l : Lid) (rest : List Instr) (h : (w.thr t).rest = .lock l :: rest)
      (hw : (w.locks l).writer = none) (hr : (w.locks l).readers = [])
      (hp : (w.locks l).pending = none ∨ (w.locks l).pending = some t) :
      StepR w t { w with locks := upd w.locks l { w.locks l with writer := some t, pending := none }
                         thr := upd w.thr t { w.thr t with rest := rest, held := some (l, true) }
                         ev := upd w.ev l (.acq t :: w.ev l) }
  | lockAnnounce (l : Lid) (rest : List Instr) (h : (w.thr t).rest = .lock l :: rest)
      (hw : (w.locks l).writer = none) (hr : (w.locks l).readers ≠ []) (hp : (w.locks l).pending = none) :
      StepR w t { w with locks := upd w.locks l { w.locks l with pending := some t } }
  | unlock (l : Lid) (rest : List Instr) (h : (w.thr t).rest = .unlock l :: rest)
      (hw : (w.locks l).writer = some t) :
      StepR w t { w with locks := upd w.locks l { w.locks l with writer := none }
                         thr := upd w.thr t { w.thr t with rest := rest, held := none }
                         ev := upd w.ev l (.rel t :: w.ev l) }
  | readHeads (l : Lid) (rest : List Instr) (h : (w.thr t).rest = .readHeads l :: rest) :
      StepR w t { w with thr := upd w.thr t { w.thr t with rest := rest, regs := { (w.thr t).regs with hs := (w.logs l).heads, hsAt := some (l, (w.ev l).length) } } }
  | readEntries (l : Lid) (rest : List Instr) (h : (w.thr t).rest = .readEntries l :: rest) :
      StepR w t { w with thr := upd w.thr t { w.thr t with rest := rest, regs := { (w.thr t).regs with es := (w.logs l).entries, esAt := some (l, (w.ev l).length) } } }
  | observe (l : Lid) (rest : List Instr) (h : (w.thr t).rest = .observe l :: rest) :
      StepR w t { w with thr := upd w.thr t { w.thr t with rest := rest, regs := { (w.thr t).regs with obs := (w.thr t).regs.obs ++ [seenOf (w.logs l)] } } }
  | write (l : Lid) (op : WOp) (rest : List Instr) (h : (w.thr t).rest = .write l op :: rest) :
      StepR w t { w with logs := upd w.logs l (applyW op (w.thr t).regs (w.logs l)).1
                         thr := upd w.thr t { w.thr t with rest := rest, regs := (applyW op (w.thr t).regs (w.logs l)).2 }
                         ev := upd w.ev l (.wr t op (w.thr t).regs :: w.ev l) }

theorem step_sound {w w' : World} {t : Tid} (h : step w t = some w') : StepR w t w' := by
  unfold step at h
  cases hrest : (w.thr t).rest with
  | nil => simp only [hrest] at h; cases h
  | cons i rest =>
    simp only [hrest] at h
    cases i with
    | hook p => simp only [Option.some.injEq] at h; subst h; exact .hook p rest hrest
    | rlock l =>
      simp only at h
      split at h
      · rename_i hc; simp only [Option.some.injEq] at h; subst h; exact .rlock l rest hrest hc.1 hc.2
      · cases h
    | runlock l =>
      simp only at h
      split at h
      · rename_i hc; simp only [Option.some.injEq] at h; subst h; exact .runlock l rest hrest hc
      · cases h
    | lock l =>
      simp only at h
      split at h
      · rename_i hc; simp only [Option.some.injEq] at h; subst h; exact .lockAcq l rest hrest hc.1 hc.2.1 hc.2.2
      · rename_i hc
        split at h
        · rename_i hc2; simp only [Option.some.injEq] at h; subst h
          refine .lockAnnounce l rest hrest hc2.1 ?_ hc2.2
          intro hr; exact hc ⟨hc2.1, hr, Or.inl hc2.2⟩
        · cases h
    | unlock l =>
      simp only at h
      split at h
      · rename_i hc; simp only [Option.some.injEq] at h; subst h; exact .unlock l rest hrest hc
      · cases h
    | readHeads l => simp only [Option.some.injEq] at h; subst h; exact .readHeads l rest hrest
    | readEntries l => simp only [Option.some.injEq] at h; subst h; exact .readEntries l rest hrest
    | observe l => simp only [Option.some.injEq] at h; subst h; exact .observe l rest hrest
    | write l op => simp only [Option.some.injEq] at h; subst h; exact .write l op rest hrest

/-- induction over executions -/
theorem run_inv {P : World → Prop} (hstep : ∀ w t w', P w → step w t = some w' → P w') :
    ∀ (s : List Tid) (w : World), P w → P (run w s)
  | [], _, h => h
  | t :: ts, w, h => by
    unfold run
    split
    · rename_i w' hs; exact run_inv hstep ts w' (hstep w t w' h hs)
    · exact run_inv hstep ts w h

theorem exec_inv {P : World → Prop} (hstep : ∀ w t w', P w → step w t = some w' → P w') :
    ∀ (s : List Tid) (w w' : World), P w → exec w s = some w' → P w'
  | [], w, w', h, he => by simp [exec] at he; subst he; exact h
  | t :: ts, w, w', h, he => by
    unfold exec at he
    split at he
    · rename_i w1 hs; exact exec_inv hstep ts w1 w' (hstep w t w1 h hs) he
    · cases he

/-! ## Exclusion (arbitrary programs) -/

def Excl (w : World) : Prop := ∀ l, (w.locks l).writer ≠ none → (w.locks l).readers = []

theorem step_excl {w w' : World} {t : Tid} (hE : Excl w) (h : step w t = some w') : Excl w' := by
  have hs := step_sound h
  intro l'
  cases hs with
  | hook p rest hr => exact hE l'
  | rlock l rest hr hw hp =>
    by_cases hl : l' = l
    · subst hl; simp [hw]
    · simp only [upd_other _ _ hl]; exact hE l'
  | runlock l rest hr hm =>
    by_cases hl : l' = l
    · subst hl; simp only [upd_same]; intro hw; simp [hE l' hw]
    · simp only [upd_other _ _ hl]; exact hE l'
  | lockAcq l rest hr hw hrd hp =>
    by_cases hl : l' = l
    · subst hl; simp [hrd]
    · simp only [upd_other _ _ hl]; exact hE l'
  | lockAnnounce l rest hr hw hrd hp =>
    by_cases hl : l' = l
    · subst hl; simp [hw]
    · simp only [upd_other _ _ hl]; exact hE l'
  | unlock l rest hr hw =>
    by_cases hl : l' = l
    · subst hl; simp
    · simp only [upd_other _ _ hl]; exact hE l'
  | readHeads l rest hr => exact hE l'
  | readEntries l rest hr => exact hE l'
  | observe l rest hr => exact hE l'
  | write l op rest hr => exact hE l'


/-! ## Coherence of the lock table with what threads hold (well-bracketed programs) -/

theorem wb_cons {h : Option (Lid × Bool)} {i : Instr} {rest : List Instr} (hwb : wb h (i :: rest) = true) :
    ∃ h', heldAfter h i = some h' ∧ wb h' rest = true := by
  unfold wb at hwb
  split at hwb
  · rename_i h' he; exact ⟨h', he, hwb⟩
  · cases hwb

theorem heldAfter_hook {h h' : Option (Lid × Bool)} {p : Hook} (e : heldAfter h (.hook p) = some h') : h' = h := by
  simp [heldAfter] at e; exact e.symm

theorem heldAfter_rlock {h h' : Option (Lid × Bool)} {l : Lid} (e : heldAfter h (.rlock l) = some h') :
    h = none ∧ h' = some (l, false) := by
  cases h <;> simp [heldAfter] at e; exact ⟨rfl, e.symm⟩

theorem heldAfter_lock {h h' : Option (Lid × Bool)} {l : Lid} (e : heldAfter h (.lock l) = some h') :
    h = none ∧ h' = some (l, true) := by
  cases h <;> simp [heldAfter] at e; exact ⟨rfl, e.symm⟩

theorem heldAfter_runlock {h h' : Option (Lid × Bool)} {l : Lid} (e : heldAfter h (.runlock l) = some h') :
    h = some (l, false) ∧ h' = none := by
  match h with
  | none => simp [heldAfter] at e
  | some (l', true) => simp [heldAfter] at e
  | some (l', false) =>
    simp only [heldAfter] at e
    split at e
    · rename_i hl; subst hl; simp at e; exact ⟨rfl, e.symm⟩
    · cases e

theorem heldAfter_unlock {h h' : Option (Lid × Bool)} {l : Lid} (e : heldAfter h (.unlock l) = some h') :
    h = some (l, true) ∧ h' = none := by
  match h with
  | none => simp [heldAfter] at e
  | some (l', false) => simp [heldAfter] at e
  | some (l', true) =>
    simp only [heldAfter] at e
    split at e
    · rename_i hl; subst hl; simp at e; exact ⟨rfl, e.symm⟩
    · cases e

theorem heldAfter_readHeads {h h' : Option (Lid × Bool)} {l : Lid} (e : heldAfter h (.readHeads l) = some h') :
    (∃ b, h = some (l, b)) ∧ h' = h := by
  match h with
  | none => simp [heldAfter] at e
  | some (l', b) =>
    simp only [heldAfter] at e
    split at e
    · rename_i hl; subst hl; simp at e; exact ⟨⟨b, rfl⟩, e.symm⟩
    · cases e

theorem heldAfter_readEntries {h h' : Option (Lid × Bool)} {l : Lid} (e : heldAfter h (.readEntries l) = some h') :
    (∃ b, h = some (l, b)) ∧ h' = h := by
  match h with
  | none => simp [heldAfter] at e
  | some (l', b) =>
    simp only [heldAfter] at e
    split at e
    · rename_i hl; subst hl; simp at e; exact ⟨⟨b, rfl⟩, e.symm⟩
    · cases e

theorem heldAfter_observe {h h' : Option (Lid × Bool)} {l : Lid} (e : heldAfter h (.observe l) = some h') :
    (∃ b, h = some (l, b)) ∧ h' = h := by
  match h with
  | none => simp [heldAfter] at e
  | some (l', b) =>
    simp only [heldAfter] at e
    split at e
    · rename_i hl; subst hl; simp at e; exact ⟨⟨b, rfl⟩, e.symm⟩
    · cases e

theorem heldAfter_write {h h' : Option (Lid × Bool)} {l : Lid} {op : WOp} (e : heldAfter h (.write l op) = some h') :
    h = some (l, true) ∧ h' = h := by
  match h with
  | none => simp [heldAfter] at e
  | some (l', false) => simp [heldAfter] at e
  | some (l', true) =>
    simp only [heldAfter] at e
    split at e
    · rename_i hl; subst hl; simp at e; exact ⟨rfl, e.symm⟩
    · cases e

structure Coh (w : World) : Prop where
  wHeld : ∀ l t, (w.locks l).writer = some t → (w.thr t).held = some (l, true)
  rHeld : ∀ l t, t ∈ (w.locks l).readers → (w.thr t).held = some (l, false)
  heldW : ∀ l t, (w.thr t).held = some (l, true) → (w.locks l).writer = some t
  heldR : ∀ l t, (w.thr t).held = some (l, false) → t ∈ (w.locks l).readers
  pend : ∀ l t, (w.locks l).pending = some t → (w.thr t).held = none ∧ ∃ rest, (w.thr t).rest = .lock l :: rest
  nodup : ∀ l, (w.locks l).readers.Nodup
  wbT : ∀ t, wb (w.thr t).held (w.thr t).rest = true

theorem coh_advance {w w' : World} {t : Tid} (hC : Coh w) (th' : Thread)
    (hl : w'.locks = w.locks) (ht : w'.thr = upd w.thr t th')
    (hheld : th'.held = (w.thr t).held) (hwb : wb th'.held th'.rest = true)
    (hnp : ∀ l, (w.locks l).pending ≠ some t) : Coh w' := by
  constructor
  · intro l u; rw [hl, ht]; by_cases hu : u = t
    · subst hu; simpa [hheld] using hC.wHeld l u
    · simpa [upd_other _ _ hu] using hC.wHeld l u
  · intro l u; rw [hl, ht]; by_cases hu : u = t
    · subst hu; simpa [hheld] using hC.rHeld l u
    · simpa [upd_other _ _ hu] using hC.rHeld l u
  · intro l u; rw [hl, ht]; by_cases hu : u = t
    · subst hu; simpa [hheld] using hC.heldW l u
    · simpa [upd_other _ _ hu] using hC.heldW l u
  · intro l u; rw [hl, ht]; by_cases hu : u = t
    · subst hu; simpa [hheld] using hC.heldR l u
    · simpa [upd_other _ _ hu] using hC.heldR l u
  · intro l u; rw [hl, ht]; intro hp
    by_cases hu : u = t
    · subst hu; exact absurd hp (hnp l)
    · simpa [upd_other _ _ hu] using hC.pend l u hp
  · intro l; rw [hl]; exact hC.nodup l
  · intro u; rw [ht]; by_cases hu : u = t
    · subst hu; simpa using hwb
    · simpa [upd_other _ _ hu] using hC.wbT u

theorem not_pending_of_rest {w : World} {t : Tid} (hC : Coh w) {i : Instr} {rest : List Instr}
    (hr : (w.thr t).rest = i :: rest) (hi : ∀ l, i ≠ .lock l) : ∀ l, (w.locks l).pending ≠ some t := by
  intro l hp
  obtain ⟨_, r, hr'⟩ := hC.pend l t hp
  rw [hr] at hr'
  injection hr' with h1 _
  exact hi l h1

theorem step_coh {w w' : World} {t : Tid} (hC : Coh w) (h : step w t = some w') : Coh w' := by
  have hs := step_sound h
  have hwbt := hC.wbT t
  cases hs with
  | hook p rest hr =>
    rw [hr] at hwbt
    obtain ⟨h', he, hwb'⟩ := wb_cons hwbt
    have := heldAfter_hook he; subst this
    exact coh_advance hC _ rfl rfl rfl hwb' (not_pending_of_rest hC hr (by intro l; simp))
  | readHeads l rest hr =>
    rw [hr] at hwbt
    obtain ⟨h', he, hwb'⟩ := wb_cons hwbt
    have := (heldAfter_readHeads he).2; subst this
    exact coh_advance hC _ rfl rfl rfl hwb' (not_pending_of_rest hC hr (by intro l; simp))
  | readEntries l rest hr =>
    rw [hr] at hwbt
    obtain ⟨h', he, hwb'⟩ := wb_cons hwbt
    have := (heldAfter_readEntries he).2; subst this
    exact coh_advance hC _ rfl rfl rfl hwb' (not_pending_of_rest hC hr (by intro l; simp))
  | observe l rest hr =>
    rw [hr] at hwbt
    obtain ⟨h', he, hwb'⟩ := wb_cons hwbt
    have := (heldAfter_observe he).2; subst this
    exact coh_advance hC _ rfl rfl rfl hwb' (not_pending_of_rest hC hr (by intro l; simp))
  | write l op rest hr =>
    rw [hr] at hwbt
    obtain ⟨h', he, hwb'⟩ := wb_cons hwbt
    have := (heldAfter_write he).2; subst this
    exact coh_advance hC _ rfl rfl rfl hwb' (not_pending_of_rest hC hr (by intro l; simp))
  | rlock l rest hr hw hp =>
    rw [hr] at hwbt
    obtain ⟨h', he, hwb'⟩ := wb_cons hwbt
    obtain ⟨hnone, rfl⟩ := heldAfter_rlock he
    have hnp := not_pending_of_rest hC hr (by intro l; simp)
    have hnr : ∀ l', t ∉ (w.locks l').readers := fun l' hm => by
      have := hC.rHeld l' t hm; rw [hnone] at this; cases this
    have hnw : ∀ l', (w.locks l').writer ≠ some t := fun l' hm => by
      have := hC.wHeld l' t hm; rw [hnone] at this; cases this
    constructor
    · intro l' u hwr
      have hwr' : (w.locks l').writer = some u := by
        by_cases hl : l' = l
        · subst hl; simpa using hwr
        · simpa [upd_other _ _ hl] using hwr
      have hu : u ≠ t := fun e => hnw l' (e ▸ hwr')
      simpa [upd_other _ _ hu] using hC.wHeld l' u hwr'
    · intro l' u hm
      by_cases hu : u = t
      · subst hu
        by_cases hl : l' = l
        · subst hl; simp
        · simp only [upd_other _ _ hl] at hm; exact absurd hm (hnr l')
      · simp only [upd_other _ _ hu]
        by_cases hl : l' = l
        · subst hl; simp [hu] at hm; exact hC.rHeld l' u hm
        · simp only [upd_other _ _ hl] at hm; exact hC.rHeld l' u hm
    · intro l' u hh
      by_cases hu : u = t
      · subst hu; simp at hh
      · simp only [upd_other _ _ hu] at hh
        have := hC.heldW l' u hh
        by_cases hl : l' = l
        · subst hl; simpa using this
        · simpa [upd_other _ _ hl] using this
    · intro l' u hh
      by_cases hu : u = t
      · subst hu; simp at hh; subst hh; simp
      · simp only [upd_other _ _ hu] at hh
        have := hC.heldR l' u hh
        by_cases hl : l' = l
        · subst hl; simp [this]
        · simpa [upd_other _ _ hl] using this
    · intro l' u hpd
      have hpd' : (w.locks l').pending = some u := by
        by_cases hl : l' = l
        · subst hl; simpa using hpd
        · simpa [upd_other _ _ hl] using hpd
      have hu : u ≠ t := fun e => hnp l' (e ▸ hpd')
      simpa [upd_other _ _ hu] using hC.pend l' u hpd'
    · intro l'
      by_cases hl : l' = l
      · subst hl; simp; exact ⟨hnr l', hC.nodup l'⟩
      · simpa [upd_other _ _ hl] using hC.nodup l'
    · intro u; by_cases hu : u = t
      · subst hu; simpa using hwb'
      · simpa [upd_other _ _ hu] using hC.wbT u
  | runlock l rest hr hm =>
    rw [hr] at hwbt
    obtain ⟨h', he, hwb'⟩ := wb_cons hwbt
    obtain ⟨hheld, rfl⟩ := heldAfter_runlock he
    constructor
    · intro l' u hwr
      have hwr' : (w.locks l').writer = some u := by
        by_cases hl : l' = l
        · subst hl; simpa using hwr
        · simpa [upd_other _ _ hl] using hwr
      have hu : u ≠ t := fun e => by
        have := hC.wHeld l' u hwr'; rw [e, hheld] at this; simp at this
      simpa [upd_other _ _ hu] using hC.wHeld l' u hwr'
    · intro l' u hmem
      by_cases hl : l' = l
      · subst hl
        simp only [upd_same] at hmem
        have hmem' := (hC.nodup l').mem_erase_iff.mp hmem
        simpa [upd_other _ _ hmem'.1] using hC.rHeld l' u hmem'.2
      · simp only [upd_other _ _ hl] at hmem
        have hu : u ≠ t := fun e => by
          have := hC.rHeld l' u hmem; rw [e, hheld] at this; simp at this; exact hl this.symm
        simpa [upd_other _ _ hu] using hC.rHeld l' u hmem
    · intro l' u hh
      by_cases hu : u = t
      · subst hu; simp at hh
      · simp only [upd_other _ _ hu] at hh
        have := hC.heldW l' u hh
        by_cases hl : l' = l
        · subst hl; simpa using this
        · simpa [upd_other _ _ hl] using this
    · intro l' u hh
      by_cases hu : u = t
      · subst hu; simp at hh
      · simp only [upd_other _ _ hu] at hh
        have := hC.heldR l' u hh
        by_cases hl : l' = l
        · subst hl; simp only [upd_same]; exact (List.mem_erase_of_ne hu).mpr this
        · simpa [upd_other _ _ hl] using this
    · intro l' u hpd
      have hpd' : (w.locks l').pending = some u := by
        by_cases hl : l' = l
        · subst hl; simpa using hpd
        · simpa [upd_other _ _ hl] using hpd
      have hu : u ≠ t := fun e => by
        have := (hC.pend l' u hpd').1; rw [e, hheld] at this; cases this
      simpa [upd_other _ _ hu] using hC.pend l' u hpd'
    · intro l'
      by_cases hl : l' = l
      · subst hl; simp only [upd_same]; exact (hC.nodup l').erase t
      · simpa [upd_other _ _ hl] using hC.nodup l'
    · intro u; by_cases hu : u = t
      · subst hu; simpa using hwb'
      · simpa [upd_other _ _ hu] using hC.wbT u
  | lockAcq l rest hr hw hrd hp =>
    rw [hr] at hwbt
    obtain ⟨h', he, hwb'⟩ := wb_cons hwbt
    obtain ⟨hnone, rfl⟩ := heldAfter_lock he
    constructor
    · intro l' u hwr
      by_cases hl : l' = l
      · subst hl; simp only [upd_same] at hwr; injection hwr with hwr; subst hwr; simp
      · simp only [upd_other _ _ hl] at hwr
        have hu : u ≠ t := fun e => by
          have := hC.wHeld l' u hwr; rw [e, hnone] at this; cases this
        simpa [upd_other _ _ hu] using hC.wHeld l' u hwr
    · intro l' u hmem
      have hmem' : u ∈ (w.locks l').readers := by
        by_cases hl : l' = l
        · subst hl; simpa using hmem
        · simpa [upd_other _ _ hl] using hmem
      have hu : u ≠ t := fun e => by
        have := hC.rHeld l' u hmem'; rw [e, hnone] at this; cases this
      simpa [upd_other _ _ hu] using hC.rHeld l' u hmem'
    · intro l' u hh
      by_cases hu : u = t
      · subst hu; simp at hh; subst hh; simp
      · simp only [upd_other _ _ hu] at hh
        have := hC.heldW l' u hh
        by_cases hl : l' = l
        · subst hl; rw [hw] at this; cases this
        · simpa [upd_other _ _ hl] using this
    · intro l' u hh
      by_cases hu : u = t
      · subst hu; simp at hh
      · simp only [upd_other _ _ hu] at hh
        have := hC.heldR l' u hh
        by_cases hl : l' = l
        · subst hl; simpa using this
        · simpa [upd_other _ _ hl] using this
    · intro l' u hpd
      by_cases hl : l' = l
      · subst hl; simp at hpd
      · simp only [upd_other _ _ hl] at hpd
        have hold := hC.pend l' u hpd
        have hu : u ≠ t := fun e => by
          obtain ⟨_, r, hr'⟩ := hold
          rw [e, hr] at hr'; injection hr' with h1 _; injection h1 with h1; exact hl h1.symm
        simpa [upd_other _ _ hu] using hold
    · intro l'
      by_cases hl : l' = l
      · subst hl; simpa using hC.nodup l'
      · simpa [upd_other _ _ hl] using hC.nodup l'
    · intro u; by_cases hu : u = t
      · subst hu; simpa using hwb'
      · simpa [upd_other _ _ hu] using hC.wbT u
  | lockAnnounce l rest hr hw hrd hp =>
    rw [hr] at hwbt
    obtain ⟨h', he, hwb'⟩ := wb_cons hwbt
    obtain ⟨hnone, rfl⟩ := heldAfter_lock he
    constructor
    · intro l' u hwr
      have hwr' : (w.locks l').writer = some u := by
        by_cases hl : l' = l
        · subst hl; simpa using hwr
        · simpa [upd_other _ _ hl] using hwr
      exact hC.wHeld l' u hwr'
    · intro l' u hmem
      have hmem' : u ∈ (w.locks l').readers := by
        by_cases hl : l' = l
        · subst hl; simpa using hmem
        · simpa [upd_other _ _ hl] using hmem
      exact hC.rHeld l' u hmem'
    · intro l' u hh
      have := hC.heldW l' u hh
      by_cases hl : l' = l
      · subst hl; simpa using this
      · simpa [upd_other _ _ hl] using this
    · intro l' u hh
      have := hC.heldR l' u hh
      by_cases hl : l' = l
      · subst hl; simpa using this
      · simpa [upd_other _ _ hl] using this
    · intro l' u hpd
      by_cases hl : l' = l
      · subst hl; simp only [upd_same] at hpd; injection hpd with hpd; subst hpd
        exact ⟨hnone, rest, hr⟩
      · simp only [upd_other _ _ hl] at hpd; exact hC.pend l' u hpd
    · intro l'
      by_cases hl : l' = l
      · subst hl; simpa using hC.nodup l'
      · simpa [upd_other _ _ hl] using hC.nodup l'
    · exact hC.wbT
  | unlock l rest hr hw =>
    rw [hr] at hwbt
    obtain ⟨h', he, hwb'⟩ := wb_cons hwbt
    obtain ⟨hheld, rfl⟩ := heldAfter_unlock he
    constructor
    · intro l' u hwr
      by_cases hl : l' = l
      · subst hl; simp at hwr
      · simp only [upd_other _ _ hl] at hwr
        have hu : u ≠ t := fun e => by
          have := hC.wHeld l' u hwr; rw [e, hheld] at this; simp at this; exact hl this.symm
        simpa [upd_other _ _ hu] using hC.wHeld l' u hwr
    · intro l' u hmem
      have hmem' : u ∈ (w.locks l').readers := by
        by_cases hl : l' = l
        · subst hl; simpa using hmem
        · simpa [upd_other _ _ hl] using hmem
      have hu : u ≠ t := fun e => by
        have := hC.rHeld l' u hmem'; rw [e, hheld] at this; simp at this
      simpa [upd_other _ _ hu] using hC.rHeld l' u hmem'
    · intro l' u hh
      by_cases hu : u = t
      · subst hu; simp at hh
      · simp only [upd_other _ _ hu] at hh
        have := hC.heldW l' u hh
        by_cases hl : l' = l
        · subst hl; rw [hw] at this; injection this with this; exact absurd this.symm hu
        · simpa [upd_other _ _ hl] using this
    · intro l' u hh
      by_cases hu : u = t
      · subst hu; simp at hh
      · simp only [upd_other _ _ hu] at hh
        have := hC.heldR l' u hh
        by_cases hl : l' = l
        · subst hl; simpa using this
        · simpa [upd_other _ _ hl] using this
    · intro l' u hpd
      have hpd' : (w.locks l').pending = some u := by
        by_cases hl : l' = l
        · subst hl; simpa using hpd
        · simpa [upd_other _ _ hl] using hpd
      have hu : u ≠ t := fun e => by
        have := (hC.pend l' u hpd').1; rw [e, hheld] at this; cases this
      simpa [upd_other _ _ hu] using hC.pend l' u hpd'
    · intro l'
      by_cases hl : l' = l
      · subst hl; simpa using hC.nodup l'
      · simpa [upd_other _ _ hl] using hC.nodup l'
    · intro u; by_cases hu : u = t
      · subst hu; simpa using hwb'
      · simpa [upd_other _ _ hu] using hC.wbT u

theorem step_complete {w w' : World} {t : Tid} (h : StepR w t w') : step w t = some w' := by
  cases h with
  | hook p rest hr => simp [step, hr]
  | rlock l rest hr hw hp => simp [step, hr, hw, hp]
  | runlock l rest hr hm => simp [step, hr, hm]
  | lockAcq l rest hr hw hrd hp =>
    simp only [step, hr]
    rw [if_pos ⟨hw, hrd, hp⟩]
  | lockAnnounce l rest hr hw hrd hp =>
    simp only [step, hr]
    rw [if_neg (fun hc => hrd hc.2.1), if_pos ⟨hw, hp⟩]
  | unlock l rest hr hw => simp [step, hr, hw]
  | readHeads l rest hr => simp [step, hr]
  | readEntries l rest hr => simp [step, hr]
  | observe l rest hr => simp [step, hr]
  | write l op rest hr => simp [step, hr]

theorem step_iff {w w' : World} {t : Tid} : step w t = some w' ↔ StepR w t w' :=
  ⟨step_sound, step_complete⟩

/-- what is initially required: free locks, nobody holds anything, well-bracketed programs -/
structure Init (w : World) : Prop where
  locks : ∀ l, w.locks l = {}
  held : ∀ t, (w.thr t).held = none
  wbP : ∀ t, wb none (w.thr t).rest = true
  ev : ∀ l, w.ev l = []

theorem init_coh {w : World} (h : Init w) : Coh w := by
  constructor
  · intro l t hw; rw [h.locks l] at hw; cases hw
  · intro l t hm; rw [h.locks l] at hm; cases hm
  · intro l t hh; rw [h.held t] at hh; cases hh
  · intro l t hh; rw [h.held t] at hh; cases hh
  · intro l t hp; rw [h.locks l] at hp; cases hp
  · intro l; rw [h.locks l]; exact List.nodup_nil
  · intro t; rw [h.held t]; exact h.wbP t

theorem init_excl {w : World} (h : ∀ l, w.locks l = {}) : Excl w := by
  intro l hw; rw [h l]

/-- a thread that holds a lock can always move (its next instruction is an access or the release) -/
theorem holder_can_step {w : World} (hC : Coh w) {t : Tid} {l : Lid} {b : Bool}
    (hh : (w.thr t).held = some (l, b)) : ∃ w', step w t = some w' := by
  have hwb := hC.wbT t
  rw [hh] at hwb
  cases hr : (w.thr t).rest with
  | nil => rw [hr] at hwb; simp [wb] at hwb
  | cons i rest =>
    rw [hr] at hwb
    obtain ⟨h', he, _⟩ := wb_cons hwb
    cases i with
    | hook p => exact ⟨_, step_complete (.hook p rest hr)⟩
    | rlock l' => have := (heldAfter_rlock he).1; cases this
    | lock l' => have := (heldAfter_lock he).1; cases this
    | runlock l' =>
      have := (heldAfter_runlock he).1; injection this with this; injection this with h1 h2; subst h1; subst h2
      exact ⟨_, step_complete (.runlock l rest hr (hC.heldR l t hh))⟩
    | unlock l' =>
      have := (heldAfter_unlock he).1; injection this with this; injection this with h1 h2; subst h1; subst h2
      exact ⟨_, step_complete (.unlock l rest hr (hC.heldW l t hh))⟩
    | readHeads l' => exact ⟨_, step_complete (.readHeads l' rest hr)⟩
    | readEntries l' => exact ⟨_, step_complete (.readEntries l' rest hr)⟩
    | observe l' => exact ⟨_, step_complete (.observe l' rest hr)⟩
    | write l' op => exact ⟨_, step_complete (.write l' op rest hr)⟩

/-- PROGRESS: if the lock table is coherent with well-bracketed programs (in particular nobody
    acquires a lock while holding one) and some thread is not finished, some thread can move -/
theorem progress {w : World} (hC : Coh w) (hu : ∃ t, (w.thr t).rest ≠ []) : ∃ t w', step w t = some w' := by
  by_cases hh : ∃ t, (w.thr t).held ≠ none
  · obtain ⟨t, ht⟩ := hh
    cases hheld : (w.thr t).held with
    | none => exact absurd hheld ht
    | some lb =>
      obtain ⟨l, b⟩ := lb
      obtain ⟨w', hw'⟩ := holder_can_step hC hheld
      exact ⟨t, w', hw'⟩
  · have hnone : ∀ t, (w.thr t).held = none := fun t => by
      cases hheld : (w.thr t).held with
      | none => rfl
      | some lb => exact absurd ⟨t, by rw [hheld]; simp⟩ hh
    have hw : ∀ l, (w.locks l).writer = none := fun l => by
      cases hwr : (w.locks l).writer with
      | none => rfl
      | some u => have := hC.wHeld l u hwr; rw [hnone u] at this; cases this
    have hrd : ∀ l, (w.locks l).readers = [] := fun l => by
      cases hr : (w.locks l).readers with
      | nil => rfl
      | cons u us =>
        have := hC.rHeld l u (by rw [hr]; simp); rw [hnone u] at this; cases this
    -- the pending writer of a lock, if any, can take it
    have hpend : ∀ l u, (w.locks l).pending = some u → ∃ w', step w u = some w' := fun l u hp => by
      obtain ⟨_, rest, hr⟩ := hC.pend l u hp
      exact ⟨_, step_complete (.lockAcq l rest hr (hw l) (hrd l) (Or.inr hp))⟩
    obtain ⟨t, ht⟩ := hu
    have hwb := hC.wbT t
    rw [hnone t] at hwb
    cases hr : (w.thr t).rest with
    | nil => exact absurd hr ht
    | cons i rest =>
      rw [hr] at hwb
      obtain ⟨h', he, _⟩ := wb_cons hwb
      cases i with
      | hook p => exact ⟨t, _, step_complete (.hook p rest hr)⟩
      | rlock l =>
        cases hp : (w.locks l).pending with
        | none => exact ⟨t, _, step_complete (.rlock l rest hr (hw l) hp)⟩
        | some u => obtain ⟨w', h'⟩ := hpend l u hp; exact ⟨u, w', h'⟩
      | lock l =>
        cases hp : (w.locks l).pending with
        | none => exact ⟨t, _, step_complete (.lockAcq l rest hr (hw l) (hrd l) (Or.inl hp))⟩
        | some u => obtain ⟨w', h'⟩ := hpend l u hp; exact ⟨u, w', h'⟩
      | runlock l => have := (heldAfter_runlock he).1; cases this
      | unlock l => have := (heldAfter_unlock he).1; cases this
      | readHeads l => exact ⟨t, _, step_complete (.readHeads l rest hr)⟩
      | readEntries l => exact ⟨t, _, step_complete (.readEntries l rest hr)⟩
      | observe l => exact ⟨t, _, step_complete (.observe l rest hr)⟩
      | write l op => exact ⟨t, _, step_complete (.write l op rest hr)⟩


/-! ## Bounded number of moves -/

/-- announced: the thread is the pending writer of the lock it is about to take -/
def announced (w : World) (t : Tid) : Nat :=
  match (w.thr t).rest with
  | .lock l :: _ => if (w.locks l).pending = some t then 1 else 0
  | _ => 0

/-- number of moves thread `t` can still make -/
def budget (w : World) (t : Tid) : Nat := 2 * (w.thr t).rest.length - announced w t

theorem announced_le (w : World) (t : Tid) : announced w t ≤ 1 := by
  unfold announced; split
  · split <;> omega
  · omega

theorem announced_nil {w : World} {t : Tid} (h : (w.thr t).rest = []) : announced w t = 0 := by
  simp [announced, h]

theorem step_budget {w w' : World} {u : Tid} (t : Tid) (h : step w u = some w') :
    (u = t → budget w' t + 1 ≤ budget w t) ∧ (u ≠ t → budget w' t ≤ budget w t) := by
  have hs := step_sound h
  have ha := announced_le w t
  have ha' := announced_le w' t
  constructor
  · intro e; subst e
    cases hs with
    | lockAnnounce l rest hr hw hrd hp =>
      have h1 : announced w u = 0 := by simp [announced, hr, hp]
      have h2 : announced { w with locks := upd w.locks l { w.locks l with pending := some u } } u = 1 := by
        simp [announced, hr]
      simp only [budget] at *
      rw [h1, h2]; simp only [hr, List.length_cons]; omega
    | _ =>
      simp only [budget] at *
      simp only [upd_same]
      simp_all only [List.length_cons]
      omega
  · intro hne
    have hne' : t ≠ u := fun e => hne e.symm
    have key : (w'.thr t).rest = (w.thr t).rest → (∀ l, (w.locks l).pending = some t → (w'.locks l).pending = some t) →
        budget w' t ≤ budget w t := by
      intro h1 h2
      have hle : announced w t ≤ announced w' t := by
        simp only [announced, h1]
        split
        · rename_i l' _ _
          by_cases hp : (w.locks l').pending = some t
          · simp [hp, h2 l' hp]
          · simp [hp]
        · omega
      simp only [budget, h1]; omega
    cases hs with
    | lockAcq l rest hr hw hrd hp =>
      apply key
      · simp [upd_other _ _ hne']
      · intro l' hp'
        by_cases hl : l' = l
        · subst hl; rcases hp with hp | hp <;> rw [hp] at hp' <;> simp at hp'
          exact absurd hp' hne
        · simpa [upd_other _ _ hl] using hp'
    | lockAnnounce l rest hr hw hrd hp =>
      apply key
      · rfl
      · intro l' hp'
        by_cases hl : l' = l
        · subst hl; rw [hp] at hp'; cases hp'
        · simpa [upd_other _ _ hl] using hp'
    | rlock l rest hr hw hp =>
      apply key
      · simp [upd_other _ _ hne']
      · intro l' hp'
        by_cases hl : l' = l
        · subst hl; simpa using hp'
        · simpa [upd_other _ _ hl] using hp'
    | runlock l rest hr hm =>
      apply key
      · simp [upd_other _ _ hne']
      · intro l' hp'
        by_cases hl : l' = l
        · subst hl; simpa using hp'
        · simpa [upd_other _ _ hl] using hp'
    | unlock l rest hr hw =>
      apply key
      · simp [upd_other _ _ hne']
      · intro l' hp'
        by_cases hl : l' = l
        · subst hl; simpa using hp'
        · simpa [upd_other _ _ hl] using hp'
    | hook p rest hr => exact key (by simp [upd_other _ _ hne']) (fun _ h => h)
    | readHeads l rest hr => exact key (by simp [upd_other _ _ hne']) (fun _ h => h)
    | readEntries l rest hr => exact key (by simp [upd_other _ _ hne']) (fun _ h => h)
    | observe l rest hr => exact key (by simp [upd_other _ _ hne']) (fun _ h => h)
    | write l op rest hr => exact key (by simp [upd_other _ _ hne']) (fun _ h => h)


/-- in an execution in which every scheduled thread moves, thread `t` moves at most
    `2 * (length of its program)` times -/
theorem exec_count (t : Tid) : ∀ (s : List Tid) (w w' : World), exec w s = some w' →
    s.count t + budget w' t ≤ budget w t
  | [], w, w', h => by simp [exec] at h; subst h; simp
  | u :: us, w, w', h => by
    unfold exec at h
    split at h
    · rename_i w1 hs
      have ih := exec_count t us w1 w' h
      have hb := step_budget t hs
      by_cases hu : u = t
      · have := hb.1 hu; subst hu; simp only [List.count_cons_self]; omega
      · have := hb.2 hu
        have hc : (u :: us).count t = us.count t := List.count_cons_of_ne (fun e => hu e)
        rw [hc]; omega
    · cases h

theorem budget_le (w : World) (t : Tid) : budget w t ≤ 2 * (w.thr t).rest.length := by
  unfold budget; omega


/-! ## Events, replay, sessions -/

/-- the state of every log is the fold of its recorded critical sections -/
def Rep (init : Lid → Log) (w : World) : Prop := ∀ l, w.logs l = replay (init l) (w.ev l)

theorem step_rep {init : Lid → Log} {w w' : World} {t : Tid} (hR : Rep init w) (h : step w t = some w') :
    Rep init w' := by
  have hs := step_sound h
  intro l'
  cases hs with
  | lockAcq l rest hr hw hrd hp =>
    by_cases hl : l' = l
    · subst hl; simp [replay, hR l']
    · simp only [upd_other _ _ hl]; exact hR l'
  | unlock l rest hr hw =>
    by_cases hl : l' = l
    · subst hl; simp [replay, hR l']
    · simp only [upd_other _ _ hl]; exact hR l'
  | write l op rest hr =>
    by_cases hl : l' = l
    · subst hl; simp [replay, hR l']
    · simp only [upd_other _ _ hl]; exact hR l'
  | _ => exact hR l'

/-- the event list of every log is a sequence of sessions and the open session (if any) belongs to
    the current writer -/
def Sess (w : World) : Prop := ∀ l, scan (w.ev l) = some (w.locks l).writer

theorem step_sess {w w' : World} {t : Tid} (hC : Coh w) (hS : Sess w) (h : step w t = some w') : Sess w' := by
  have hs := step_sound h
  have hwbt := hC.wbT t
  intro l'
  cases hs with
  | lockAcq l rest hr hw hrd hp =>
    by_cases hl : l' = l
    · subst hl; have := hS l'; rw [hw] at this; simp [scan, this]
    · simp only [upd_other _ _ hl]; exact hS l'
  | unlock l rest hr hw =>
    by_cases hl : l' = l
    · subst hl; have := hS l'; rw [hw] at this; simp [scan, this]
    · simp only [upd_other _ _ hl]; exact hS l'
  | write l op rest hr =>
    by_cases hl : l' = l
    · subst hl
      rw [hr] at hwbt
      obtain ⟨h', he, _⟩ := wb_cons hwbt
      have hheld := (heldAfter_write he).1
      have hw := hC.heldW l' t hheld
      have := hS l'; rw [hw] at this; simp [scan, this, hw]
    · simp only [upd_other _ _ hl]; exact hS l'
  | rlock l rest hr hw hp =>
    by_cases hl : l' = l
    · subst hl; simpa using hS l'
    · simp only [upd_other _ _ hl]; exact hS l'
  | runlock l rest hr hm =>
    by_cases hl : l' = l
    · subst hl; simpa using hS l'
    · simp only [upd_other _ _ hl]; exact hS l'
  | lockAnnounce l rest hr hw hrd hp =>
    by_cases hl : l' = l
    · subst hl; simpa using hS l'
    · simp only [upd_other _ _ hl]; exact hS l'
  | hook p rest hr => exact hS l'
  | readHeads l rest hr => exact hS l'
  | readEntries l rest hr => exact hS l'
  | observe l rest hr => exact hS l'

/-! ## Atomicity of a bracket -/

/-- the thread's next instruction accesses log `l` (`true` = writes) -/
def nextAccess (w : World) (t : Tid) : Option (Lid × Bool) :=
  match (w.thr t).rest with
  | i :: _ => i.accesses
  | [] => none

/-- under the discipline an access is made holding the lock (a write: the write lock) -/
theorem access_held {w : World} (hC : Coh w) {t : Tid} {l : Lid} {b : Bool}
    (ha : nextAccess w t = some (l, b)) : ∃ b', (w.thr t).held = some (l, b') ∧ (b = true → b' = true) := by
  have hwbt := hC.wbT t
  unfold nextAccess at ha
  cases hr : (w.thr t).rest with
  | nil => rw [hr] at ha; cases ha
  | cons i rest =>
    rw [hr] at ha hwbt
    obtain ⟨h', he, _⟩ := wb_cons hwbt
    cases i with
    | readHeads l' =>
      simp [Instr.accesses] at ha; obtain ⟨rfl, rfl⟩ := ha
      obtain ⟨⟨b', hb⟩, _⟩ := heldAfter_readHeads he; exact ⟨b', hb, by simp⟩
    | readEntries l' =>
      simp [Instr.accesses] at ha; obtain ⟨rfl, rfl⟩ := ha
      obtain ⟨⟨b', hb⟩, _⟩ := heldAfter_readEntries he; exact ⟨b', hb, by simp⟩
    | observe l' =>
      simp [Instr.accesses] at ha; obtain ⟨rfl, rfl⟩ := ha
      obtain ⟨⟨b', hb⟩, _⟩ := heldAfter_observe he; exact ⟨b', hb, by simp⟩
    | write l' op =>
      simp [Instr.accesses] at ha; obtain ⟨rfl, rfl⟩ := ha
      exact ⟨true, (heldAfter_write he).1, by simp⟩
    | _ => simp [Instr.accesses] at ha

/-- no two threads are ever both about to access the same log when one of the accesses is a write -/
theorem no_conflict {w : World} (hC : Coh w) (hE : Excl w) {t u : Tid} (htu : t ≠ u) {l : Lid} {b : Bool}
    (ht : nextAccess w t = some (l, true)) (hu : nextAccess w u = some (l, b)) : False := by
  obtain ⟨bt, hbt, himp⟩ := access_held hC ht
  have := himp rfl; subst this
  have hw := hC.heldW l t hbt
  obtain ⟨bu, hbu, _⟩ := access_held hC hu
  cases bu with
  | true =>
    have := hC.heldW l u hbu; rw [hw] at this; injection this with this; exact htu this
  | false =>
    have hm := hC.heldR l u hbu
    have := hE l (by rw [hw]; simp); rw [this] at hm; cases hm

/-- while a thread holds the write lock of a log, no other thread changes the log -/
theorem writer_owns {w w' : World} (hC : Coh w) {t u : Tid} {l : Lid}
    (hh : (w.thr t).held = some (l, true)) (htu : u ≠ t) (h : step w u = some w') : w'.logs l = w.logs l := by
  have hs := step_sound h
  have hwbu := hC.wbT u
  cases hs with
  | write l' op rest hr =>
    by_cases hl : l = l'
    · subst hl
      rw [hr] at hwbu
      obtain ⟨h', he, _⟩ := wb_cons hwbu
      have h1 := hC.heldW l u (heldAfter_write he).1
      have h2 := hC.heldW l t hh
      rw [h1] at h2; injection h2 with h2; exact absurd h2 htu
    · simp only [upd_other _ _ hl]
  | _ => rfl

/-- while a thread holds the read lock of a log, nobody changes the log -/
theorem reader_stable {w w' : World} (hC : Coh w) (hE : Excl w) {t u : Tid} {l : Lid}
    (hh : (w.thr t).held = some (l, false)) (h : step w u = some w') : w'.logs l = w.logs l := by
  have hs := step_sound h
  have hwbu := hC.wbT u
  cases hs with
  | write l' op rest hr =>
    by_cases hl : l = l'
    · subst hl
      rw [hr] at hwbu
      obtain ⟨h', he, _⟩ := wb_cons hwbu
      have h1 := hC.heldW l u (heldAfter_write he).1
      have hm := hC.heldR l t hh
      have := hE l (by rw [h1]; simp); rw [this] at hm; cases hm
    · simp only [upd_other _ _ hl]
  | _ => rfl

/-! ## Invariants of the log states -/

/-- every mutating instruction still to be executed preserves `P` (for any register contents) -/
def WritesOK (P : Log → Prop) (w : World) : Prop :=
  ∀ t l op, Instr.write l op ∈ (w.thr t).rest → ∀ r log, P log → P (applyW op r log).1

theorem rest_suffix {w w' : World} {t u : Tid} (h : step w t = some w') :
    ∀ i, i ∈ (w'.thr u).rest → i ∈ (w.thr u).rest := by
  have hs := step_sound h
  intro i hi
  by_cases hu : u = t
  · subst hu
    cases hs with
    | lockAnnounce l rest hr hw hrd hp => exact hi
    | _ => simp only [upd_same] at hi; simp_all
  · cases hs with
    | lockAnnounce l rest hr hw hrd hp => exact hi
    | _ => simpa [upd_other _ _ hu] using hi

theorem step_writesOK {P : Log → Prop} {w w' : World} {t : Tid} (hW : WritesOK P w) (h : step w t = some w') :
    WritesOK P w' := fun u l op hm => hW u l op (rest_suffix h _ hm)

theorem step_pinv {P : Log → Prop} {w w' : World} {t : Tid} (hW : WritesOK P w) (hP : ∀ l, P (w.logs l))
    (h : step w t = some w') : ∀ l, P (w'.logs l) := by
  have hs := step_sound h
  intro l'
  cases hs with
  | write l op rest hr =>
    by_cases hl : l' = l
    · subst hl; simp only [upd_same]
      exact hW t l' op (by rw [hr]; simp) _ _ (hP l')
    · simp only [upd_other _ _ hl]; exact hP l'
  | _ => exact hP l'


end Model.Conc
