import Proofs.Cmp
import Model.Log
/-!
# Proofs.Traverse — specification of `IPFSLog.traverse` (unbounded, no end hash)

Under `Ctx` (hashes of `E` distinct, `lt` total and transitive on the distinct members of `E`, every
in-log predecessor ordered after its successor, roots in `E` and unreferenced) the max-first
worklist emits a strictly descending, duplicate-free list inside `E` that contains the roots and is
closed under in-log predecessors, and the fuel `|roots| + |E| + 1` is never exhausted.
-/
namespace Model

theorem get?_mem {E : List Entry} {h : Hash} {p : Entry} (hg : get? E h = some p) : p ∈ E ∧ p.hash = h := by
  unfold get? at hg
  exact ⟨List.mem_of_find?_eq_some hg, by simpa using List.find?_some hg⟩

theorem get?_of_mem {E : List Entry} (hnd : (E.map (·.hash)).Nodup) {p : Entry} (hp : p ∈ E) :
    get? E p.hash = some p := by
  unfold get?
  induction E with
  | nil => cases hp
  | cons x xs ih =>
    simp only [List.map_cons, List.nodup_cons] at hnd
    by_cases hx : x.hash = p.hash
    · have : x = p := by
        cases hp with
        | head => rfl
        | tail _ hm => exact absurd (List.mem_map.mpr ⟨p, hm, hx.symm⟩) hnd.1
      simp [List.find?, this]
    · have hm : p ∈ xs := by
        cases hp with
        | head => exact absurd rfl hx
        | tail _ hm => exact hm
      have hb : (x.hash == p.hash) = false := by simpa using hx
      simp [List.find?, hb, ih hnd.2 hm]

structure Ctx (E : List Entry) (lt : Entry → Entry → Bool) (roots : List Entry) : Prop where
  nodupH : (E.map (·.hash)).Nodup
  sto : STO lt (· ∈ E)
  mono : ∀ e ∈ E, ∀ c ∈ e.next, ∀ p, get? E c = some p → lt e p = true
  rootsIn : ∀ r ∈ roots, r ∈ E
  rootsUnref : ∀ e ∈ E, ∀ c ∈ e.next, ∀ p, get? E c = some p → p ∉ roots

structure LInv (E : List Entry) (lt : Entry → Entry → Bool) (roots : List Entry)
    (stack : List Entry) (trav : List Hash) (res : List Entry) : Prop where
  stIn : ∀ s ∈ stack, s ∈ E
  resIn : ∀ r ∈ res, r ∈ E
  stSorted : stack.Pairwise (fun a b => lt a b = true)
  resSorted : res.Pairwise (fun a b => lt a b = true)
  resAbove : ∀ r ∈ res, ∀ s ∈ stack, lt r s = true
  travRes : ∀ r ∈ res, r.hash ∈ trav
  travSt : ∀ s ∈ stack, s ∈ roots ∨ s.hash ∈ trav
  travOnly : ∀ h ∈ trav, ∃ x, (x ∈ res ∨ x ∈ stack) ∧ x.hash = h
  stNodup : stack.Nodup
  resNodup : res.Nodup
  disj : ∀ r ∈ res, r ∉ stack
  closedUpTo : ∀ r ∈ res, ∀ c ∈ r.next, ∀ p, get? E c = some p → p ∈ res ∨ p ∈ stack
  rootsCov : ∀ r ∈ roots, r ∈ res ∨ r ∈ stack

theorem hash_inj {E : List Entry} (hnd : (E.map (·.hash)).Nodup) {a b : Entry} (ha : a ∈ E) (hb : b ∈ E)
    (h : a.hash = b.hash) : a = b := by
  have h1 := get?_of_mem hnd ha
  have h2 := get?_of_mem hnd hb
  rw [h] at h1
  exact Option.some.inj (h1.symm.trans h2)

/-- what the inner loop establishes; `e` is the entry whose `next` is being processed -/
structure PInv (E : List Entry) (roots : List Entry) (e : Entry) (stack0 : List Entry) (trav0 : List Hash)
    (s : List Entry × List Hash × Bool) : Prop where
  newSucc : ∀ x ∈ s.1, x ∈ stack0 ∨ (∃ c ∈ e.next, get? E c = some x)
  keepSt : ∀ x ∈ stack0, x ∈ s.1
  keepTr : ∀ h ∈ trav0, h ∈ s.2.1
  trOnly : ∀ h ∈ s.2.1, h ∈ trav0 ∨ ∃ x ∈ s.1, x.hash = h
  nodup : s.1.Nodup
  marked : ∀ x ∈ s.1, x ∈ stack0 ∨ x.hash ∈ s.2.1
  fresh : ∀ x ∈ s.1, x ∈ stack0 ∨ x.hash ∉ trav0
  unmod : s.2.2 = false → s.1 = stack0

theorem pushNexts_spec {E : List Entry} {lt : Entry → Entry → Bool} {roots : List Entry} (C : Ctx E lt roots)
    {e : Entry} (he : e ∈ E) (stack0 : List Entry) (trav0 : List Hash)
    (hst0 : ∀ s ∈ stack0, s ∈ E ∧ (s ∈ roots ∨ s.hash ∈ trav0)) :
    ∀ (cs : List Hash), (∀ c ∈ cs, c ∈ e.next) → ∀ (s : List Entry × List Hash × Bool),
      PInv E roots e stack0 trav0 s →
      PInv E roots e stack0 trav0 (pushNexts E cs s) ∧
      (∀ c ∈ cs, ∀ p, get? E c = some p → p.hash ∈ (pushNexts E cs s).2.1) ∧
      (∀ h ∈ s.2.1, h ∈ (pushNexts E cs s).2.1)
  | [], _, s, hs => by
    simp only [pushNexts]
    exact ⟨hs, by simp, fun h hh => hh⟩
  | c :: cs, hcs, (stack, trav, m), hs => by
    have hcs' : ∀ c' ∈ cs, c' ∈ e.next := fun c' hc' => hcs c' (List.mem_cons_of_mem _ hc')
    unfold pushNexts
    split
    · rename_i hg
      obtain ⟨h1, h2, h3⟩ := pushNexts_spec C he stack0 trav0 hst0 cs hcs' (stack, trav, m) hs
      refine ⟨h1, ?_, h3⟩
      intro c' hc' p hp
      cases hc' with
      | head => rw [hg] at hp; cases hp
      | tail _ hm => exact h2 c' hm p hp
    · rename_i n hg
      obtain ⟨hnE, hnh⟩ := get?_mem hg
      split
      · rename_i hcont
        obtain ⟨h1, h2, h3⟩ := pushNexts_spec C he stack0 trav0 hst0 cs hcs' (stack, trav, m) hs
        refine ⟨h1, ?_, h3⟩
        intro c' hc' p hp
        cases hc' with
        | head =>
          rw [hg] at hp; cases hp
          exact h3 _ (by simpa using hcont)
        | tail _ hm => exact h2 c' hm p hp
      · rename_i hcont
        have hnt : n.hash ∉ trav := by simpa using hcont
        have hnroot : n ∉ roots := C.rootsUnref e he c (hcs c (by simp)) n hg
        have hnst : n ∉ stack := by
          intro hm
          cases hs.marked n hm with
          | inl h0 =>
            cases (hst0 n h0).2 with
            | inl hr => exact hnroot hr
            | inr ht => exact hnt (hs.keepTr _ ht)
          | inr ht => exact hnt ht
        have hs' : PInv E roots e stack0 trav0 (n :: stack, n.hash :: trav, true) := {
          newSucc := by
            intro x hx
            cases hx with
            | head => exact Or.inr ⟨c, hcs c (by simp), hg⟩
            | tail _ hm => exact hs.newSucc x hm
          keepSt := fun x hx => List.mem_cons_of_mem _ (hs.keepSt x hx)
          keepTr := fun h hh => List.mem_cons_of_mem _ (hs.keepTr h hh)
          trOnly := by
            intro h hh
            cases hh with
            | head => exact Or.inr ⟨n, by simp, rfl⟩
            | tail _ hm =>
              cases hs.trOnly h hm with
              | inl h0 => exact Or.inl h0
              | inr hx => obtain ⟨x, hx, hxh⟩ := hx; exact Or.inr ⟨x, List.mem_cons_of_mem _ hx, hxh⟩
          nodup := List.nodup_cons.mpr ⟨hnst, hs.nodup⟩
          marked := by
            intro x hx
            cases hx with
            | head => exact Or.inr (by simp)
            | tail _ hm =>
              cases hs.marked x hm with
              | inl h0 => exact Or.inl h0
              | inr ht => exact Or.inr (List.mem_cons_of_mem _ ht)
          fresh := by
            intro x hx
            cases hx with
            | head => exact Or.inr (fun h0 => hnt (hs.keepTr _ h0))
            | tail _ hm => exact hs.fresh x hm
          unmod := by intro h; cases h }
        obtain ⟨h1, h2, h3⟩ := pushNexts_spec C he stack0 trav0 hst0 cs hcs' _ hs'
        refine ⟨h1, ?_, fun h hh => h3 h (List.mem_cons_of_mem _ hh)⟩
        intro c' hc' p hp
        cases hc' with
        | head =>
          rw [hg] at hp; cases hp
          exact h3 _ (by simp)
        | tail _ hm => exact h2 c' hm p hp

def unemitted : List Entry → List Entry → Nat
  | [], _ => 0
  | x :: xs, res => (if x ∈ res then 0 else 1) + unemitted xs res

theorem unemitted_le (res : List Entry) (e : Entry) : ∀ (l : List Entry), unemitted l (res ++ [e]) ≤ unemitted l res
  | [] => Nat.le_refl _
  | y :: ys => by
    have ih := unemitted_le res e ys
    unfold unemitted
    by_cases h1 : y ∈ res
    · have h2 : y ∈ res ++ [e] := List.mem_append_left _ h1
      rw [if_pos h1, if_pos h2]; omega
    · by_cases h2 : y ∈ res ++ [e]
      · rw [if_neg h1, if_pos h2]; omega
      · rw [if_neg h1, if_neg h2]; omega

theorem unemitted_lt {res : List Entry} {e : Entry} (hne : e ∉ res) :
    ∀ {E : List Entry}, e ∈ E → unemitted E (res ++ [e]) < unemitted E res
  | [], he => by cases he
  | x :: xs, he => by
    unfold unemitted
    by_cases hx : x = e
    · subst hx
      have h2 : x ∈ res ++ [x] := by simp
      have := unemitted_le res x xs
      rw [if_neg hne, if_pos h2]; omega
    · have hm : e ∈ xs := by
        cases he with
        | head => exact absurd rfl hx
        | tail _ hm => exact hm
      have ih := unemitted_lt hne hm
      by_cases h1 : x ∈ res
      · have h2 : x ∈ res ++ [e] := List.mem_append_left _ h1
        rw [if_pos h1, if_pos h2]; omega
      · have h2 : x ∉ res ++ [e] := by
          simp only [List.mem_append, List.mem_singleton, not_or]; exact ⟨h1, hx⟩
        rw [if_neg h1, if_neg h2]; omega

theorem unemitted_le_length : ∀ (l res : List Entry), unemitted l res ≤ l.length
  | [], _ => Nat.le_refl _
  | x :: xs, res => by
    have := unemitted_le_length xs res
    unfold unemitted
    split <;> simp <;> omega

theorem step_inv {E : List Entry} {lt : Entry → Entry → Bool} {roots : List Entry} (C : Ctx E lt roots)
    {e : Entry} {rest : List Entry} {trav : List Hash} {res : List Entry}
    (I : LInv E lt roots (e :: rest) trav res) :
    let r := pushNexts E e.next (rest, e.hash :: trav, false)
    let st' := if r.2.2 then goSort lt r.1 else r.1
    e ∉ res ∧ (res.any (fun r => r.hash == e.hash)) = false ∧ LInv E lt roots st' r.2.1 (res ++ [e]) := by
  intro r st'
  have heE : e ∈ E := I.stIn e (by simp)
  have hene : e ∉ res := fun hm => I.disj e hm (by simp)
  have hany : (res.any (fun r => r.hash == e.hash)) = false := by
    rw [Bool.eq_false_iff]
    intro h
    rw [List.any_eq_true] at h
    obtain ⟨x, hx, hxe⟩ := h
    have : x = e := hash_inj C.nodupH (I.resIn x hx) heE (by simpa using hxe)
    exact hene (this ▸ hx)
  have hrestSorted : rest.Pairwise (fun a b => lt a b = true) := (List.pairwise_cons.mp I.stSorted).2
  have hrestIn : ∀ s ∈ rest, s ∈ E := fun s hs => I.stIn s (List.mem_cons_of_mem _ hs)
  have hst0 : ∀ s ∈ rest, s ∈ E ∧ (s ∈ roots ∨ s.hash ∈ e.hash :: trav) := by
    intro s hs
    refine ⟨hrestIn s hs, ?_⟩
    cases I.travSt s (List.mem_cons_of_mem _ hs) with
    | inl h => exact Or.inl h
    | inr h => exact Or.inr (List.mem_cons_of_mem _ h)
  have hP0 : PInv E roots e rest (e.hash :: trav) (rest, e.hash :: trav, false) := {
    newSucc := fun x hx => Or.inl hx
    keepSt := fun x hx => hx
    keepTr := fun h hh => hh
    trOnly := fun h hh => Or.inl hh
    nodup := (List.nodup_cons.mp I.stNodup).2
    marked := fun x hx => Or.inl hx
    fresh := fun x hx => Or.inl hx
    unmod := fun _ => rfl }
  obtain ⟨hP, hG, hK⟩ := pushNexts_spec C heE rest (e.hash :: trav) hst0 e.next (fun c hc => hc) _ hP0
  have hmemst : ∀ x, x ∈ st' ↔ x ∈ r.1 := by
    intro x
    show x ∈ (if r.2.2 then goSort lt r.1 else r.1) ↔ x ∈ r.1
    split
    · exact mem_goSort
    · exact Iff.rfl
  have hr1E : ∀ x ∈ r.1, x ∈ E := by
    intro x hx
    cases hP.newSucc x hx with
    | inl h => exact hrestIn x h
    | inr h => obtain ⟨c, _, hg⟩ := h; exact (get?_mem hg).1
  have hEabove : ∀ x ∈ r.1, lt e x = true := by
    intro x hx
    cases hP.newSucc x hx with
    | inl h => exact (List.pairwise_cons.mp I.stSorted).1 x h
    | inr h => obtain ⟨c, hc, hg⟩ := h; exact C.mono e heE c hc x hg
  have htravOnly : ∀ h ∈ r.2.1, ∃ x, (x ∈ res ++ [e] ∨ x ∈ st') ∧ x.hash = h := by
    intro h hh
    cases hP.trOnly h hh with
    | inl h0 =>
      cases h0 with
      | head => exact ⟨e, Or.inl (by simp), rfl⟩
      | tail _ hm =>
        obtain ⟨x, hx, hxh⟩ := I.travOnly h hm
        cases hx with
        | inl hr => exact ⟨x, Or.inl (List.mem_append_left _ hr), hxh⟩
        | inr hs =>
          cases hs with
          | head => exact ⟨e, Or.inl (by simp), hxh⟩
          | tail _ hm' => exact ⟨x, Or.inr ((hmemst x).mpr (hP.keepSt x hm')), hxh⟩
    | inr hx => obtain ⟨x, hx, hxh⟩ := hx; exact ⟨x, Or.inr ((hmemst x).mpr hx), hxh⟩
  refine ⟨hene, hany, ?_⟩
  exact {
    stIn := fun s hs => hr1E s ((hmemst s).mp hs)
    resIn := by
      intro x hx
      rw [List.mem_append] at hx
      cases hx with
      | inl h => exact I.resIn x h
      | inr h => rw [List.mem_singleton] at h; exact h ▸ heE
    stSorted := by
      show (if r.2.2 then goSort lt r.1 else r.1).Pairwise _
      split
      · exact goSort_sorted C.sto r.1 hr1E hP.nodup
      · rename_i hm
        have : r.1 = rest := hP.unmod (by simpa using hm)
        rw [this]; exact hrestSorted
    resSorted := by
      rw [List.pairwise_append]
      refine ⟨I.resSorted, List.pairwise_singleton _ _, ?_⟩
      intro a ha b hb
      rw [List.mem_singleton] at hb
      exact hb ▸ I.resAbove a ha e (by simp)
    resAbove := by
      intro a ha s hs
      have hs1 := (hmemst s).mp hs
      rw [List.mem_append] at ha
      cases ha with
      | inl h =>
        exact C.sto.trans a e s (I.resIn a h) heE (hr1E s hs1) (I.resAbove a h e (by simp)) (hEabove s hs1)
      | inr h => rw [List.mem_singleton] at h; exact h ▸ hEabove s hs1
    travRes := by
      intro a ha
      rw [List.mem_append] at ha
      cases ha with
      | inl h => exact hK _ (List.mem_cons_of_mem _ (I.travRes a h))
      | inr h => rw [List.mem_singleton] at h; exact h ▸ hK _ (by simp)
    travSt := by
      intro s hs
      cases hP.marked s ((hmemst s).mp hs) with
      | inl h =>
        cases (hst0 s h).2 with
        | inl hr => exact Or.inl hr
        | inr ht => exact Or.inr (hK _ ht)
      | inr h => exact Or.inr h
    travOnly := htravOnly
    stNodup := by
      show (if r.2.2 then goSort lt r.1 else r.1).Nodup
      split
      · exact (goSort_perm lt r.1).nodup_iff.mpr hP.nodup
      · exact hP.nodup
    resNodup := by
      rw [List.nodup_append]
      refine ⟨I.resNodup, by simp, ?_⟩
      intro a ha b hb
      rw [List.mem_singleton] at hb
      intro hab
      exact hene (hb ▸ hab ▸ ha)
    disj := by
      intro a ha hs
      have hs1 := (hmemst a).mp hs
      rw [List.mem_append] at ha
      cases hP.fresh a hs1 with
      | inl hrest =>
        cases ha with
        | inl h => exact I.disj a h (List.mem_cons_of_mem _ hrest)
        | inr h =>
          rw [List.mem_singleton] at h
          exact (List.nodup_cons.mp I.stNodup).1 (h ▸ hrest)
      | inr hfresh =>
        apply hfresh
        cases ha with
        | inl h => exact List.mem_cons_of_mem _ (I.travRes a h)
        | inr h => rw [List.mem_singleton] at h; rw [h]; exact List.mem_cons_self
    closedUpTo := by
      intro a ha c hc p hg
      rw [List.mem_append] at ha
      cases ha with
      | inl h =>
        cases I.closedUpTo a h c hc p hg with
        | inl hr => exact Or.inl (List.mem_append_left _ hr)
        | inr hs =>
          cases hs with
          | head => exact Or.inl (by simp)
          | tail _ hm => exact Or.inr ((hmemst p).mpr (hP.keepSt p hm))
      | inr h =>
        rw [List.mem_singleton] at h
        subst h
        obtain ⟨x, hx, hxh⟩ := htravOnly _ (hG c hc p hg)
        have hxE : x ∈ E := by
          cases hx with
          | inl hr =>
            rw [List.mem_append] at hr
            cases hr with
            | inl h1 => exact I.resIn x h1
            | inr h1 => rw [List.mem_singleton] at h1; exact h1 ▸ heE
          | inr hs => exact hr1E x ((hmemst x).mp hs)
        have : x = p := hash_inj C.nodupH hxE (get?_mem hg).1 hxh
        exact this ▸ hx
    rootsCov := by
      intro a ha
      cases I.rootsCov a ha with
      | inl hr => exact Or.inl (List.mem_append_left _ hr)
      | inr hs =>
        cases hs with
        | head => exact Or.inl (by simp)
        | tail _ hm => exact Or.inr ((hmemst a).mpr (hP.keepSt a hm)) }

/-- enough fuel: the loop ends with an empty stack and the invariant -/
theorem loop_spec {E : List Entry} {lt : Entry → Entry → Bool} {roots : List Entry} (C : Ctx E lt roots) :
    ∀ (fuel : Nat) (stack : List Entry) (trav : List Hash) (res : List Entry) (count : Int),
      LInv E lt roots stack trav res → unemitted E res < fuel →
      ∃ trav', LInv E lt roots [] trav' (travLoop E lt (-1) none fuel stack trav res count)
  | 0, _, _, _, _, _, h => by omega
  | fuel + 1, [], trav, res, _, I, _ => ⟨trav, by simpa [travLoop] using I⟩
  | fuel + 1, e :: rest, trav, res, count, I, h => by
    obtain ⟨hene, hany, I'⟩ := step_inv C I
    have heE : e ∈ E := I.stIn e (by simp)
    have hlt := unemitted_lt hene heE
    have hres : omSet res e = res ++ [e] := by simp [omSet, hany]
    simp only [travLoop, hres]
    simp only [show ((-1 : Int) < 0 ∨ count < -1) = True from by simp, if_true]
    simp only [show (none = some e.hash) = False from by simp, if_false]
    exact loop_spec C fuel _ _ _ _ I' (by omega)

theorem traverse_spec {E : List Entry} {lt : Entry → Entry → Bool} {roots : List Entry} (C : Ctx E lt roots)
    (hrn : roots.Nodup) :
    let out := traverse E lt roots
    out.Pairwise (fun a b => lt a b = true) ∧ out.Nodup ∧ (∀ x ∈ out, x ∈ E) ∧ (∀ r ∈ roots, r ∈ out) ∧
    (∀ x ∈ out, ∀ c ∈ x.next, ∀ p, get? E c = some p → p ∈ out) := by
  intro out
  have I0 : LInv E lt roots (goSort lt roots) [] [] := {
    stIn := fun s hs => C.rootsIn s (mem_goSort.mp hs)
    resIn := by simp
    stSorted := goSort_sorted C.sto roots C.rootsIn hrn
    resSorted := List.Pairwise.nil
    resAbove := by simp
    travRes := by simp
    travSt := fun s hs => Or.inl (mem_goSort.mp hs)
    travOnly := by simp
    stNodup := (goSort_perm lt roots).nodup_iff.mpr hrn
    resNodup := List.nodup_nil
    disj := by simp
    closedUpTo := by simp
    rootsCov := fun r hr => Or.inr (mem_goSort.mpr hr) }
  have hfuel : unemitted E [] < traverseFuel E roots := by
    have := unemitted_le_length E []
    unfold traverseFuel
    omega
  obtain ⟨trav', I⟩ := loop_spec C _ _ _ _ 0 I0 hfuel
  have hout : out = travLoop E lt (-1) none (traverseFuel E roots) (goSort lt roots) [] [] 0 := rfl
  rw [hout]
  refine ⟨I.resSorted, I.resNodup, I.resIn, ?_, ?_⟩
  · intro r hr
    cases I.rootsCov r hr with
    | inl h => exact h
    | inr h => cases h
  · intro x hx c hc p hg
    cases I.closedUpTo x hx c hc p hg with
    | inl h => exact h
    | inr h => cases h

end Model
