import Proofs.Sort
/-!
# Proofs.Cmp — laws of the comparators of `entry/sorting/sorting.go` and `LamportClock.Compare`
-/
namespace Model

theorem cmpBytes_range : ∀ a b, cmpBytes a b = -1 ∨ cmpBytes a b = 0 ∨ cmpBytes a b = 1
  | [], [] => by simp [cmpBytes]
  | [], _ :: _ => by simp [cmpBytes]
  | _ :: _, [] => by simp [cmpBytes]
  | a :: as, b :: bs => by
    unfold cmpBytes
    split
    · simp
    · split
      · simp
      · exact cmpBytes_range as bs

theorem cmpBytes_swap : ∀ a b, cmpBytes a b = - cmpBytes b a
  | [], [] => by simp [cmpBytes]
  | [], _ :: _ => by simp [cmpBytes]
  | _ :: _, [] => by simp [cmpBytes]
  | a :: as, b :: bs => by
    unfold cmpBytes
    by_cases h1 : a < b
    · have h2 : ¬ b < a := by omega
      simp [h1, h2]
    · by_cases h2 : b < a
      · simp [h1, h2]
      · simp [h1, h2]; exact cmpBytes_swap as bs

theorem cmpBytes_eq_zero : ∀ a b, cmpBytes a b = 0 → a = b
  | [], [], _ => rfl
  | [], _ :: _, h => by simp [cmpBytes] at h
  | _ :: _, [], h => by simp [cmpBytes] at h
  | a :: as, b :: bs, h => by
    unfold cmpBytes at h
    by_cases h1 : a < b
    · simp [h1] at h
    · by_cases h2 : b < a
      · simp [h1, h2] at h
      · simp [h1, h2] at h
        have : a = b := by omega
        rw [this, cmpBytes_eq_zero as bs h]

theorem cmpBytes_refl : ∀ a, cmpBytes a a = 0
  | [] => rfl
  | a :: as => by simp [cmpBytes, cmpBytes_refl as]

theorem cmpBytes_trans : ∀ a b c, cmpBytes a b > 0 → cmpBytes b c > 0 → cmpBytes a c > 0
  | [], [], _, h, _ => by simp [cmpBytes] at h
  | [], _ :: _, _, h, _ => by simp [cmpBytes] at h
  | _ :: _, [], [], _, h => by simp [cmpBytes] at h
  | _ :: _, [], _ :: _, _, h => by simp [cmpBytes] at h
  | _ :: _, _ :: _, [], _, _ => by simp [cmpBytes]
  | a :: as, b :: bs, c :: cs, h1, h2 => by
    unfold cmpBytes at h1 h2 ⊢
    by_cases hab : a < b
    · simp [hab] at h1
    · by_cases hba : b < a
      · by_cases hbc : b < c
        · simp [hbc] at h2
        · by_cases hcb : c < b
          · have : ¬ a < c := by omega
            have : c < a := by omega
            simp [*]
          · have hbc' : b = c := by omega
            subst hbc'
            simp [hab, hba]
      · have hab' : a = b := by omega
        subst hab'
        by_cases hbc : a < c
        · simp [hbc] at h2
        · by_cases hcb : c < a
          · simp [hbc, hcb]
          · simp [hab, hbc, hcb] at h1 h2 ⊢
            exact cmpBytes_trans as bs cs h1 h2


theorem cmpBytes_neg_trans (a b c : Bytes) (h1 : cmpBytes a b < 0) (h2 : cmpBytes b c < 0) : cmpBytes a c < 0 := by
  have s1 := cmpBytes_swap a b
  have s2 := cmpBytes_swap b c
  have s3 := cmpBytes_swap a c
  have := cmpBytes_trans c b a (by omega) (by omega)
  have s4 := cmpBytes_swap c a
  omega

/-! ## LamportClock.Compare -/

theorem clockCompare_range (a b : Clock) : clockCompare a b = -1 ∨ clockCompare a b = 0 ∨ clockCompare a b = 1 := by
  unfold clockCompare
  split
  · exact cmpBytes_range _ _
  · split <;> simp

theorem clockCompare_swap (a b : Clock) : clockCompare a b = - clockCompare b a := by
  unfold clockCompare
  by_cases h : a.time = b.time
  · simp [h, cmpBytes_swap a.id b.id]
  · have h' : ¬ b.time = a.time := fun e => h e.symm
    by_cases hlt : a.time < b.time
    · have : ¬ b.time < a.time := by omega
      simp [h, h', hlt, this]
    · have : b.time < a.time := by omega
      simp [h, h', hlt, this]

theorem clockCompare_zero {a b : Clock} (h : clockCompare a b = 0) : a.time = b.time ∧ a.id = b.id := by
  unfold clockCompare at h
  by_cases ht : a.time = b.time
  · simp [ht] at h; exact ⟨ht, cmpBytes_eq_zero _ _ h⟩
  · simp [ht] at h; split at h <;> omega

theorem clockCompare_self (a : Clock) : clockCompare a a = 0 := by
  simp [clockCompare, cmpBytes_refl]

theorem clockCompare_pos_iff (a b : Clock) : clockCompare a b > 0 ↔
    (a.time > b.time ∨ (a.time = b.time ∧ cmpBytes a.id b.id > 0)) := by
  unfold clockCompare
  by_cases ht : a.time = b.time
  · simp [ht]
  · by_cases hlt : a.time < b.time
    · simp [ht, hlt]; omega
    · simp [ht, hlt]; omega

theorem clockCompare_trans {a b c : Clock} (h1 : clockCompare a b > 0) (h2 : clockCompare b c > 0) :
    clockCompare a c > 0 := by
  rw [clockCompare_pos_iff] at *
  rcases h1 with h1 | ⟨t1, h1⟩
  · rcases h2 with h2 | ⟨t2, _⟩
    · left; omega
    · left; omega
  · rcases h2 with h2 | ⟨t2, h2⟩
    · left; omega
    · right; exact ⟨by omega, cmpBytes_trans _ _ _ h1 h2⟩

theorem time_lt_clockCompare {a b : Clock} (h : a.time < b.time) : clockCompare a b < 0 := by
  have hne : ¬ a.time = b.time := by omega
  simp [clockCompare, hne, h]

/-! ## SortByEntryHash -/

theorem time_lt_cmpHash {a b : Entry} (h : a.clock.time < b.clock.time) : cmpHash a b < 0 := by
  have hne : ¬ a.clock.time = b.clock.time := by omega
  simp [cmpHash, clockCompare, hne, h]

theorem time_lt_cmpLWW {a b : Entry} (h : a.clock.time < b.clock.time) : cmpLWW a b < 0 := by
  have hne : ¬ a.clock.time = b.clock.time := by omega
  simp [cmpLWW, clockCompare, hne, h]

/-- the key of the hash-tiebreak order: lexicographic (time, id, hash) -/
theorem cmpHash_pos_iff (a b : Entry) : cmpHash a b > 0 ↔
    (a.clock.time > b.clock.time ∨ (a.clock.time = b.clock.time ∧
      (cmpBytes a.clock.id b.clock.id > 0 ∨ (cmpBytes a.clock.id b.clock.id = 0 ∧ cmpBytes a.hash b.hash > 0)))) := by
  unfold cmpHash clockCompare
  by_cases ht : a.clock.time = b.clock.time
  · simp only [ht, if_true]
    by_cases hi : cmpBytes a.clock.id b.clock.id = 0
    · simp [hi]
    · simp [hi]
  · by_cases hlt : a.clock.time < b.clock.time
    · simp [ht, hlt]; omega
    · simp [ht, hlt]; omega

theorem cmpHash_swap (a b : Entry) : cmpHash a b = - cmpHash b a := by
  unfold cmpHash
  have hc := clockCompare_swap a.clock b.clock
  have hi := cmpBytes_swap a.clock.id b.clock.id
  have hh := cmpBytes_swap a.hash b.hash
  by_cases h0 : clockCompare a.clock b.clock = 0
  · have h0' : clockCompare b.clock a.clock = 0 := by omega
    simp only [h0, h0', if_true]
    by_cases hi0 : cmpBytes a.clock.id b.clock.id = 0
    · have hi0' : cmpBytes b.clock.id a.clock.id = 0 := by omega
      simp only [hi0, hi0', if_true]; exact hh
    · have hi0' : ¬ cmpBytes b.clock.id a.clock.id = 0 := by omega
      simp only [hi0, hi0', if_false]; exact hi
  · have h0' : ¬ clockCompare b.clock a.clock = 0 := by omega
    simp only [h0, h0', if_false]; exact hc

theorem cmpHash_self (a : Entry) : cmpHash a a = 0 := by
  have := cmpHash_swap a a; omega

theorem cmpHash_eq_zero {a b : Entry} (h : cmpHash a b = 0) : a.hash = b.hash := by
  unfold cmpHash at h
  by_cases h0 : clockCompare a.clock b.clock = 0
  · simp only [h0, if_true] at h
    by_cases hi0 : cmpBytes a.clock.id b.clock.id = 0
    · simp only [hi0, if_true] at h; exact cmpBytes_eq_zero _ _ h
    · simp only [hi0, if_false] at h
  · simp only [h0, if_false] at h

theorem ltHash_iff (a b : Entry) : ltHash a b = true ↔ cmpHash a b > 0 := by
  simp [ltHash, before, SortKind.cmp]

theorem ltHash_false_iff (a b : Entry) : ltHash a b = false ↔ ¬ cmpHash a b > 0 := by
  simp [ltHash, before, SortKind.cmp]

theorem ltLWW_iff (a b : Entry) : ltLWW a b = true ↔ cmpLWW a b > 0 := by
  simp [ltLWW, before, SortKind.cmp]

theorem ltLWW_false_iff (a b : Entry) : ltLWW a b = false ↔ ¬ cmpLWW a b > 0 := by
  simp [ltLWW, before, SortKind.cmp]

theorem ltHash_total {a b : Entry} (hne : a.hash ≠ b.hash) : ltHash a b = true ∨ ltHash b a = true := by
  rw [ltHash_iff, ltHash_iff]
  have hs := cmpHash_swap a b
  have hz : cmpHash a b ≠ 0 := fun h => hne (cmpHash_eq_zero h)
  omega

theorem ltHash_trans {a b c : Entry} (h1 : ltHash a b = true) (h2 : ltHash b c = true) : ltHash a c = true := by
  rw [ltHash_iff, cmpHash_pos_iff] at *
  rcases h1 with h1 | ⟨t1, h1⟩
  · rcases h2 with h2 | ⟨t2, _⟩
    · left; omega
    · left; omega
  · rcases h2 with h2 | ⟨t2, h2⟩
    · left; omega
    · right
      refine ⟨by omega, ?_⟩
      rcases h1 with h1 | ⟨i1, h1⟩
      · rcases h2 with h2 | ⟨i2, _⟩
        · exact Or.inl (cmpBytes_trans _ _ _ h1 h2)
        · have := cmpBytes_eq_zero _ _ i2
          rw [← this]; exact Or.inl h1
      · have e1 := cmpBytes_eq_zero _ _ i1
        rcases h2 with h2 | ⟨i2, h2⟩
        · rw [e1]; exact Or.inl h2
        · rw [e1]; exact Or.inr ⟨i2, cmpBytes_trans _ _ _ h1 h2⟩

theorem ltHash_irrefl (a : Entry) : ltHash a a = false := by
  rw [ltHash_false_iff, cmpHash_self]; omega

theorem ltHash_asymm {a b : Entry} (h : ltHash a b = true) : ltHash b a = false := by
  rw [ltHash_iff] at h
  rw [ltHash_false_iff]
  have := cmpHash_swap a b; omega

/-- the hash-tiebreak ordering satisfies the order axioms used by `goSort_sorted` and `traverse_spec`
    on any list of entries with distinct hashes -/
theorem ltHash_STO (E : List Entry) (hE : ∀ a ∈ E, ∀ b ∈ E, a ≠ b → a.hash ≠ b.hash) : STO ltHash (· ∈ E) where
  trans := fun _ _ _ _ _ _ h1 h2 => ltHash_trans h1 h2
  total := fun a b ha hb hne => ltHash_total (hE a ha b hb hne)

/-! ## LastWriteWins / FirstWriteWins -/

/-- the clocks differ in id or time (no tie under the default ordering) -/
def keyNe (a b : Entry) : Prop := a.clock.id ≠ b.clock.id ∨ a.clock.time ≠ b.clock.time

theorem clockCompare_ne_zero {a b : Entry} (h : keyNe a b) : clockCompare a.clock b.clock ≠ 0 := by
  intro h0
  obtain ⟨ht, hi⟩ := clockCompare_zero h0
  rcases h with h | h
  · exact h hi
  · exact h ht

theorem cmpLWW_of_keyNe {a b : Entry} (h : keyNe a b) : cmpLWW a b = clockCompare a.clock b.clock := by
  unfold cmpLWW
  simp [clockCompare_ne_zero h]

theorem cmpLWW_ne_zero (a b : Entry) : cmpLWW a b ≠ 0 := by
  unfold cmpLWW
  by_cases h0 : clockCompare a.clock b.clock = 0
  · simp only [h0, if_true]
    by_cases hi : cmpBytes a.clock.id b.clock.id = 0
    · simp [hi]
    · simp [hi]
  · simp [h0]

theorem keyNe_symm {a b : Entry} (h : keyNe a b) : keyNe b a := by
  rcases h with h | h
  · exact Or.inl (fun e => h e.symm)
  · exact Or.inr (fun e => h e.symm)

theorem cmpLWW_swap {a b : Entry} (h : keyNe a b) : cmpLWW a b = - cmpLWW b a := by
  rw [cmpLWW_of_keyNe h, cmpLWW_of_keyNe (keyNe_symm h)]
  exact clockCompare_swap _ _

theorem ltLWW_total {a b : Entry} (h : keyNe a b) : ltLWW a b = true ∨ ltLWW b a = true := by
  rw [ltLWW_iff, ltLWW_iff]
  have hs := cmpLWW_swap h
  have hz := cmpLWW_ne_zero a b
  omega

theorem ltLWW_asymm {a b : Entry} (hk : keyNe a b) (h : ltLWW a b = true) : ltLWW b a = false := by
  rw [ltLWW_iff] at h
  rw [ltLWW_false_iff]
  have := cmpLWW_swap hk; omega

/-- `cmpLWW a b > 0` always implies the clock of `a` is not below that of `b` -/
theorem cmpLWW_pos_clock {a b : Entry} (h : cmpLWW a b > 0) :
    clockCompare a.clock b.clock > 0 ∨ (a.clock.time = b.clock.time ∧ a.clock.id = b.clock.id) := by
  unfold cmpLWW at h
  by_cases h0 : clockCompare a.clock b.clock = 0
  · exact Or.inr (clockCompare_zero h0)
  · simp only [h0, if_false] at h; exact Or.inl h

theorem ltLWW_trans {a b c : Entry} (hab : keyNe a b) (hbc : keyNe b c) (hac : keyNe a c)
    (h1 : ltLWW a b = true) (h2 : ltLWW b c = true) : ltLWW a c = true := by
  rw [ltLWW_iff] at *
  rw [cmpLWW_of_keyNe hab] at h1
  rw [cmpLWW_of_keyNe hbc] at h2
  rw [cmpLWW_of_keyNe hac]
  exact clockCompare_trans h1 h2

/-- the default ordering satisfies the order axioms on any list of entries without ties -/
theorem ltLWW_STO (E : List Entry) (hE : ∀ a ∈ E, ∀ b ∈ E, a ≠ b → keyNe a b) : STO ltLWW (· ∈ E) where
  trans := by
    intro a b c ha hb hc h1 h2
    by_cases hab : a = b
    · subst hab; exact h2
    · by_cases hbc : b = c
      · subst hbc; exact h1
      · by_cases hac : a = c
        · subst hac
          have := ltLWW_asymm (hE a ha b hb hab) h1
          rw [this] at h2; cases h2
        · exact ltLWW_trans (hE a ha b hb hab) (hE b hb c hc hbc) (hE a ha c hc hac) h1 h2
  total := fun a b ha hb hne => ltLWW_total (hE a ha b hb hne)

theorem cmpFWW_eq_neg (a b : Entry) : cmpFWW a b = - cmpLWW a b := by
  unfold cmpFWW; omega

/-! ## uniqueness of the sorted permutation (sorting is deterministic in the *set*) -/

theorem goSort_perm_invariant {lt : Entry → Entry → Bool} {l₁ l₂ : List Entry} {S : Entry → Prop}
    (h : STO lt S) (hasym : ∀ a b, S a → S b → a ≠ b → lt a b = true → lt b a = false)
    (hS : ∀ a ∈ l₁, S a) (hnd : l₁.Nodup) (hp : l₁.Perm l₂) : goSort lt l₁ = goSort lt l₂ := by
  have hS2 : ∀ a ∈ l₂, S a := fun a ha => hS a (hp.mem_iff.mpr ha)
  have hnd2 : l₂.Nodup := hp.nodup_iff.mp hnd
  have s1 := goSort_sorted h l₁ hS hnd
  have s2 := goSort_sorted h l₂ hS2 hnd2
  have pp : (goSort lt l₁).Perm (goSort lt l₂) := (goSort_perm lt l₁).trans (hp.trans (goSort_perm lt l₂).symm)
  refine List.Perm.eq_of_pairwise ?_ s1 s2 pp
  intro a b ha hb hab hba
  by_cases hne : a = b
  · exact hne
  · have := hasym a b (hS a (mem_goSort.mp ha)) (hS2 b (mem_goSort.mp hb) |> fun x => x) hne hab
    rw [this] at hba; cases hba

end Model
