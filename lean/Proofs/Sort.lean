import Model.Sorting
/-!
# Proofs.Sort — Go's insertion sort is a permutation, and sorts under an order that is total and
transitive on the distinct members of a duplicate-free list (`STO`).  No irreflexivity is asked:
the default comparator answers 1 for `(a, a)`, so duplicate-freedom is carried separately.
-/
namespace Model

variable {α : Type}

theorem insRev_perm (lt : α → α → Bool) (x : α) : ∀ l, (insRev lt x l).Perm (x :: l)
  | [] => List.Perm.refl _
  | y :: ys => by
    unfold insRev
    split
    · exact ((insRev_perm lt x ys).cons y).trans (List.Perm.swap x y ys)
    · exact List.Perm.refl _

theorem isortRev_perm (lt : α → α → Bool) : ∀ (l acc : List α), (isortRev lt acc l).Perm (l.reverse ++ acc)
  | [], acc => by simp [isortRev]
  | x :: xs, acc => by
    unfold isortRev
    refine (isortRev_perm lt xs (insRev lt x acc)).trans ?_
    have h1 : (xs.reverse ++ insRev lt x acc).Perm (xs.reverse ++ (x :: acc)) :=
      List.Perm.append_left _ (insRev_perm lt x acc)
    refine h1.trans ?_
    simp [List.reverse_cons, List.append_assoc]

theorem goSort_perm (lt : α → α → Bool) (l : List α) : (goSort lt l).Perm l := by
  unfold goSort
  refine (List.reverse_perm _).trans ?_
  have := isortRev_perm lt l []
  simp at this
  exact this.trans (List.reverse_perm l)

theorem mem_goSort {lt : α → α → Bool} {l : List α} {a : α} : a ∈ goSort lt l ↔ a ∈ l :=
  (goSort_perm lt l).mem_iff

/-- total, transitive order on *distinct* members of `S`.  No irreflexivity: the default comparator
    returns 1 on (a, a), so duplicate-freedom is carried separately as `Nodup`. -/
structure STO (lt : α → α → Bool) (S : α → Prop) : Prop where
  trans : ∀ a b c, S a → S b → S c → lt a b = true → lt b c = true → lt a c = true
  total : ∀ a b, S a → S b → a ≠ b → lt a b = true ∨ lt b a = true

/-- reversed prefix sorted: every later (more to the left in the reversed list) element is after -/
theorem insRev_sorted {lt : α → α → Bool} {S : α → Prop} (h : STO lt S) (x : α) (hx : S x) :
    ∀ (l : List α), (∀ a ∈ l, S a) → x ∉ l → l.Pairwise (fun a b => lt b a = true) →
      (insRev lt x l).Pairwise (fun a b => lt b a = true)
  | [], _, _, _ => by simp [insRev]
  | y :: ys, hS, hnin, hp => by
    have hy : S y := hS y (by simp)
    have hxy : x ≠ y := fun e => hnin (by simp [e])
    unfold insRev
    split
    · rename_i hlt
      have ih := insRev_sorted h x hx ys (fun a ha => hS a (by simp [ha])) (fun hm => hnin (by simp [hm]))
        (List.Pairwise.of_cons hp)
      refine List.Pairwise.cons ?_ ih
      intro a ha
      have : a ∈ x :: ys := (insRev_perm lt x ys).mem_iff.mp ha
      cases this with
      | head => exact hlt
      | tail _ hm => exact (List.pairwise_cons.mp hp).1 a hm
    · rename_i hlt
      have hyx : lt y x = true := by
        cases h.total x y hx hy hxy with
        | inl h1 => exact absurd h1 hlt
        | inr h2 => exact h2
      refine List.Pairwise.cons ?_ hp
      intro a ha
      cases ha with
      | head => exact hyx
      | tail _ hm =>
        have : lt a y = true := (List.pairwise_cons.mp hp).1 a hm
        exact h.trans a y x (hS a (List.mem_cons_of_mem _ hm)) hy hx this hyx

theorem isortRev_sorted {lt : α → α → Bool} {S : α → Prop} (h : STO lt S) :
    ∀ (l acc : List α), (∀ a ∈ l, S a) → (∀ a ∈ acc, S a) → (l ++ acc).Nodup →
      acc.Pairwise (fun a b => lt b a = true) →
      (isortRev lt acc l).Pairwise (fun a b => lt b a = true)
  | [], acc, _, _, _, hp => by simp [isortRev]; exact hp
  | x :: xs, acc, hl, hacc, hnd, hp => by
    unfold isortRev
    have hx : S x := hl x (by simp)
    have hnd' : (x :: (xs ++ acc)).Nodup := by simpa using hnd
    have hxacc : x ∉ acc := fun hm => (List.nodup_cons.mp hnd').1 (by simp [hm])
    apply isortRev_sorted h xs (insRev lt x acc) (fun a ha => hl a (by simp [ha]))
    · intro a ha
      have : a ∈ x :: acc := (insRev_perm lt x acc).mem_iff.mp ha
      cases this with
      | head => exact hx
      | tail _ hm => exact hacc a hm
    · have hp1 : (xs ++ insRev lt x acc).Perm (xs ++ (x :: acc)) := List.Perm.append_left _ (insRev_perm lt x acc)
      refine hp1.nodup_iff.mpr ?_
      have : (xs ++ x :: acc).Perm (x :: (xs ++ acc)) := by
        simpa using (List.perm_middle (a := x) (l₁ := xs) (l₂ := acc))
      exact this.nodup_iff.mpr hnd'
    · exact insRev_sorted h x hx acc hacc hxacc hp

theorem goSort_sorted {lt : α → α → Bool} {S : α → Prop} (h : STO lt S) (l : List α)
    (hS : ∀ a ∈ l, S a) (hnd : l.Nodup) : (goSort lt l).Pairwise (fun a b => lt a b = true) := by
  unfold goSort
  rw [List.pairwise_reverse]
  exact isortRev_sorted h l [] hS (by simp) (by simpa using hnd) List.Pairwise.nil

end Model
