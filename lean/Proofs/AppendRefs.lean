import Proofs.System
/-!
# Proofs.AppendRefs — the skip references chosen by `Append` (C04)
-/
namespace Model

theorem pushNexts_mem (E : List Entry) : ∀ (cs : List Hash) (st : List Entry) (tr : List Hash) (m : Bool),
    ∀ x ∈ (pushNexts E cs (st, tr, m)).1, x ∈ st ∨ x ∈ E := by
  intro cs
  induction cs with
  | nil => intro st tr m x hx; exact Or.inl hx
  | cons c cs ih =>
    intro st tr m x hx
    unfold pushNexts at hx
    split at hx
    · exact ih st tr m x hx
    · rename_i n hg
      split at hx
      · exact ih st tr m x hx
      · rcases ih _ _ _ x hx with h | h
        · cases h with
          | head => exact Or.inr (get?_mem hg).1
          | tail _ hm => exact Or.inl hm
        · exact Or.inr h

theorem travLoop_subset (E : List Entry) (lt : Entry → Entry → Bool) (amount : Int) (endHash : Option Hash) :
    ∀ (fuel : Nat) (stack : List Entry) (trav : List Hash) (res : List Entry) (count : Int),
      (∀ x ∈ stack, x ∈ E) → (∀ x ∈ res, x ∈ E) →
      ∀ x ∈ travLoop E lt amount endHash fuel stack trav res count, x ∈ E
  | 0, _, _, _, _, _, hr => by simpa [travLoop] using hr
  | _ + 1, [], _, _, _, _, hr => by simpa [travLoop] using hr
  | fuel + 1, e :: rest, trav, res, count, hs, hr => by
    unfold travLoop
    have he : e ∈ E := hs e (by simp)
    have hres' : ∀ x ∈ omSet res e, x ∈ E := by
      intro x hx
      rcases mem_omSet.mp hx with h | ⟨h, _⟩
      · exact hr x h
      · exact h ▸ he
    split
    · split
      · exact hres'
      · apply travLoop_subset E lt amount endHash fuel _ _ _ _ _ hres'
        intro x hx
        have hx' : x ∈ (pushNexts E e.next (rest, e.hash :: trav, false)).1 := by
          split at hx
          · exact mem_goSort.mp hx
          · exact hx
        rcases pushNexts_mem E _ _ _ _ x hx' with h | h
        · exact hs x (List.mem_cons_of_mem _ h)
        · exact h
    · exact hr

theorem traverseG_subset (E : List Entry) (lt : Entry → Entry → Bool) (roots : List Entry) (amount : Int)
    (endHash : Option Hash) (hroots : ∀ x ∈ roots, x ∈ E) : ∀ x ∈ traverseG E lt roots amount endHash, x ∈ E := by
  unfold traverseG
  apply travLoop_subset
  · intro x hx; exact hroots x (mem_goSort.mp hx)
  · intro x hx; cases hx

theorem everyPow2_subset (all : List Entry) (m : Int) : ∀ (fuel : Nat) (i : Int), ∀ x ∈ everyPow2 all m fuel i, x ∈ all
  | 0, _ => by intro x hx; simp [everyPow2] at hx
  | fuel + 1, i => by
    intro x hx
    unfold everyPow2 at hx
    by_cases hc : i ≤ m
    · simp only [hc, if_true] at hx
      cases hg : all[(min ((all.length : Int) - 1) (i - 1)).toNat]? with
      | some e =>
        rw [hg] at hx
        cases hx with
        | head => exact List.mem_of_getElem? hg
        | tail _ hm => exact everyPow2_subset all m fuel _ x hm
      | none =>
        rw [hg] at hx
        exact everyPow2_subset all m fuel _ x hx
    · simp only [hc] at hx
      cases hx

/-- the reference candidates (`getEveryPow2` plus "always include the last known reference") are
    taken from the traversed prefix -/
def refCandidates (all : List Entry) (pcv : Int) : List Entry :=
  let refs0 := everyPow2 all (min pcv all.length) (all.length + 2) 1
  if (all.length : Int) < pcv then
    (match all.getLast? with | some r => refs0 ++ [r] | none => refs0) else refs0

theorem refCandidates_subset (all : List Entry) (pcv : Int) : ∀ x ∈ refCandidates all pcv, x ∈ all := by
  intro x hx
  unfold refCandidates at hx
  simp only at hx
  by_cases hc : (all.length : Int) < pcv
  · simp only [hc, if_true] at hx
    cases hl : all.getLast? with
    | none => rw [hl] at hx; exact everyPow2_subset _ _ _ _ x hx
    | some r =>
      rw [hl] at hx
      simp only [List.mem_append, List.mem_singleton] at hx
      rcases hx with h | h
      · exact everyPow2_subset _ _ _ _ x h
      · subst h; exact List.mem_of_getLast? hl
  · simp only [hc] at hx
    exact everyPow2_subset _ _ _ _ x hx

theorem appendPlan_refs_eq (l : Log) (pc : Int) :
    (appendPlan l pc).refs =
      dedupHashes (((refCandidates
        (traverseG l.entries (before l.sortFn) (sortedHeads l)
          (max (if pc ≠ 0 then pc else 1) (sortedHeads l).length) none)
        (if pc ≠ 0 then pc else 1)).map (·.hash)).filter
          (fun r => !((sortedHeads l).map (·.hash)).reverse.contains r)) [] := rfl

/-- the skip references of the planned entry: entries of the log, none of them a predecessor,
    no duplicates -/
theorem appendPlan_refs {U : List Entry} {l : Log} (I : Inv U l) (pc : Int) :
    (∀ r ∈ (appendPlan l pc).refs, r ∈ hashes l.entries ∧ r ∉ (appendPlan l pc).next) ∧
    ((appendPlan l pc).refs).Nodup := by
  rw [appendPlan_refs_eq]
  refine ⟨?_, dedupHashes_nodup _ [] List.nodup_nil⟩
  intro r hr
  rw [mem_dedupHashes] at hr
  simp only [List.not_mem_nil, false_or, List.mem_filter, List.mem_map] at hr
  obtain ⟨⟨x, hx, hxr⟩, hnot⟩ := hr
  have hall : ∀ y ∈ traverseG l.entries (before l.sortFn) (sortedHeads l)
      (max (if pc ≠ 0 then pc else 1) ↑(sortedHeads l).length) none, y ∈ l.entries :=
    traverseG_subset _ _ _ _ _ (fun y hy => I.headsIn y ((mem_sortedHeads I.headsNodup).mp hy))
  have hxE : x ∈ l.entries := hall x (refCandidates_subset _ _ x hx)
  refine ⟨List.mem_map.mpr ⟨x, hxE, hxr⟩, ?_⟩
  rw [appendPlan_next_eq I.headsNodup pc]
  intro hm
  have : ((sortedHeads l).map (·.hash)).reverse.contains r = true := List.contains_iff_mem.mpr (by simpa [hashes] using hm)
  rw [this] at hnot; cases hnot

end Model
