import Proofs.Traverse
/-!
# Proofs.OMap — lemmas on the insertion-ordered maps (`get?`, `has`, `omSet`, `omFromList`, `hsSet`)
-/
namespace Model

theorem has_iff {E : List Entry} {h : Hash} : has E h = true ↔ ∃ e ∈ E, e.hash = h := by
  unfold has
  rw [List.any_eq_true]
  constructor
  · rintro ⟨x, hx, hb⟩; exact ⟨x, hx, by simpa using hb⟩
  · rintro ⟨x, hx, hb⟩; exact ⟨x, hx, by simpa using hb⟩

theorem has_false_iff {E : List Entry} {h : Hash} : has E h = false ↔ ∀ e ∈ E, e.hash ≠ h := by
  rw [← Bool.not_eq_true, has_iff]
  constructor
  · intro hn e he hh; exact hn ⟨e, he, hh⟩
  · rintro hn ⟨e, he, hh⟩; exact hn e he hh

theorem has_iff_mem_hashes {E : List Entry} {h : Hash} : has E h = true ↔ h ∈ hashes E := by
  rw [has_iff]; unfold hashes; rw [List.mem_map]

theorem has_of_mem {E : List Entry} {e : Entry} (he : e ∈ E) : has E e.hash = true :=
  has_iff.mpr ⟨e, he, rfl⟩

theorem get?_isSome_iff {E : List Entry} {h : Hash} : (∃ p, get? E h = some p) ↔ has E h = true := by
  rw [has_iff]
  constructor
  · rintro ⟨p, hp⟩; exact ⟨p, (get?_mem hp).1, (get?_mem hp).2⟩
  · rintro ⟨e, he, hh⟩
    unfold get?
    cases hf : E.find? (fun e => e.hash == h) with
    | some p => exact ⟨p, rfl⟩
    | none =>
      rw [List.find?_eq_none] at hf
      exact absurd (by simpa using hh) (hf e he)

theorem get?_none_iff {E : List Entry} {h : Hash} : get? E h = none ↔ has E h = false := by
  constructor
  · intro hn
    cases hh : has E h with
    | false => rfl
    | true =>
      obtain ⟨p, hp⟩ := get?_isSome_iff.mpr hh
      rw [hn] at hp; cases hp
  · intro hf
    cases hg : get? E h with
    | none => rfl
    | some p =>
      have := get?_isSome_iff.mp ⟨p, hg⟩
      rw [hf] at this; cases this

theorem get?_append_left {E F : List Entry} {h : Hash} {p : Entry} (hg : get? E h = some p) :
    get? (E ++ F) h = some p := by
  unfold get? at *
  rw [List.find?_append, hg]; rfl

theorem get?_append_right {E F : List Entry} {h : Hash} (hn : has E h = false) :
    get? (E ++ F) h = get? F h := by
  have := get?_none_iff.mpr hn
  unfold get? at *
  rw [List.find?_append, this]; rfl

theorem has_append {E F : List Entry} {h : Hash} : has (E ++ F) h = (has E h || has F h) := by
  unfold has; rw [List.any_append]

/-! ## omSet / omFromList -/

theorem omSet_of_has {E : List Entry} {e : Entry} (h : has E e.hash = true) : omSet E e = E := by
  unfold omSet; unfold has at h; simp [h]

theorem omSet_of_not_has {E : List Entry} {e : Entry} (h : has E e.hash = false) : omSet E e = E ++ [e] := by
  unfold omSet; unfold has at h; simp [h]

theorem mem_omSet {E : List Entry} {e x : Entry} :
    x ∈ omSet E e ↔ x ∈ E ∨ (x = e ∧ has E e.hash = false) := by
  cases hh : has E e.hash with
  | true => rw [omSet_of_has hh]; simp
  | false => rw [omSet_of_not_has hh]; simp

theorem subset_omSet {E : List Entry} {e x : Entry} (hx : x ∈ E) : x ∈ omSet E e :=
  mem_omSet.mpr (Or.inl hx)

theorem has_omSet {E : List Entry} {e : Entry} {h : Hash} :
    has (omSet E e) h = (has E h || e.hash == h) := by
  cases hh : has E e.hash with
  | true =>
    rw [omSet_of_has hh]
    by_cases he : e.hash = h
    · subst he; simp [hh]
    · have : (e.hash == h) = false := by simpa using he
      simp [this]
  | false =>
    rw [omSet_of_not_has hh, has_append]
    simp [has]

theorem nodup_omSet {E : List Entry} {e : Entry} (hnd : (hashes E).Nodup) : (hashes (omSet E e)).Nodup := by
  cases hh : has E e.hash with
  | true => rw [omSet_of_has hh]; exact hnd
  | false =>
    rw [omSet_of_not_has hh]
    unfold hashes at *
    rw [List.map_append, List.nodup_append]
    refine ⟨hnd, by simp, ?_⟩
    intro a ha b hb
    simp at hb
    subst hb
    intro hab
    subst hab
    have : has E e.hash = true := has_iff_mem_hashes.mpr (by simpa [hashes] using ha)
    rw [hh] at this; cases this

theorem foldl_omSet_nodup (l : List Entry) : ∀ (E : List Entry), (hashes E).Nodup → (hashes (l.foldl omSet E)).Nodup := by
  induction l with
  | nil => intro E h; exact h
  | cons x xs ih => intro E h; exact ih _ (nodup_omSet h)

theorem omFromList_nodup (l : List Entry) : (hashes (omFromList l)).Nodup :=
  foldl_omSet_nodup l [] (by simp [hashes])

theorem foldl_omSet_subset (l : List Entry) : ∀ (E : List Entry) (x : Entry), x ∈ E → x ∈ l.foldl omSet E := by
  induction l with
  | nil => intro E x h; exact h
  | cons y ys ih => intro E x h; exact ih _ x (subset_omSet h)

theorem mem_foldl_omSet (l : List Entry) : ∀ (E : List Entry) (x : Entry), x ∈ l.foldl omSet E → x ∈ E ∨ x ∈ l := by
  induction l with
  | nil => intro E x h; exact Or.inl h
  | cons y ys ih =>
    intro E x h
    rcases ih _ x h with h1 | h1
    · rcases mem_omSet.mp h1 with h2 | ⟨h2, _⟩
      · exact Or.inl h2
      · exact Or.inr (by simp [h2])
    · exact Or.inr (List.mem_cons_of_mem _ h1)

theorem has_foldl_omSet (l : List Entry) : ∀ (E : List Entry) (h : Hash),
    has (l.foldl omSet E) h = (has E h || has l h) := by
  induction l with
  | nil => intro E h; simp [has]
  | cons y ys ih =>
    intro E h
    rw [List.foldl_cons, ih, has_omSet]
    simp [has, Bool.or_assoc]

/-- setting a list of entries whose hashes are new and pairwise distinct appends it -/
theorem foldl_omSet_eq_append (l : List Entry) : ∀ (E : List Entry),
    (∀ x ∈ l, has E x.hash = false) → (hashes l).Nodup → l.foldl omSet E = E ++ l := by
  induction l with
  | nil => intro E _ _; simp
  | cons y ys ih =>
    intro E hnew hnd
    have hy : has E y.hash = false := hnew y (by simp)
    rw [List.foldl_cons, omSet_of_not_has hy]
    have hnd' : (hashes ys).Nodup ∧ y.hash ∉ hashes ys := by
      unfold hashes at *
      simp only [List.map_cons, List.nodup_cons] at hnd
      exact ⟨hnd.2, hnd.1⟩
    rw [ih (E ++ [y]) ?_ hnd'.1]
    · simp
    · intro x hx
      rw [has_append, hnew x (List.mem_cons_of_mem _ hx)]
      have : x.hash ≠ y.hash := by
        intro e
        apply hnd'.2
        rw [← e]
        exact List.mem_map.mpr ⟨x, hx, rfl⟩
      have h2 : ¬ y.hash = x.hash := fun e => this e.symm
      simp [has, h2]

theorem omFromList_eq_self {l : List Entry} (hnd : (hashes l).Nodup) : omFromList l = l := by
  unfold omFromList
  rw [foldl_omSet_eq_append l [] (by intro x _; simp [has]) hnd]; simp

theorem mem_omFromList_of_nodup {l : List Entry} (hnd : (hashes l).Nodup) {x : Entry} : x ∈ omFromList l ↔ x ∈ l := by
  rw [omFromList_eq_self hnd]

theorem mem_omFromList {l : List Entry} {x : Entry} (h : x ∈ omFromList l) : x ∈ l := by
  rcases mem_foldl_omSet l [] x h with h1 | h1
  · cases h1
  · exact h1

theorem has_omFromList {l : List Entry} {h : Hash} : has (omFromList l) h = has l h := by
  unfold omFromList; rw [has_foldl_omSet]; simp [has]

/-! ## hash sets -/

theorem mem_hsSet {s : List Hash} {h x : Hash} : x ∈ hsSet s h ↔ x ∈ s ∨ x = h := by
  unfold hsSet
  by_cases hc : s.contains h = true
  · simp only [hc, if_true]
    constructor
    · exact Or.inl
    · rintro (h1 | h1)
      · exact h1
      · subst h1; simpa using hc
  · simp only [hc]
    simp

theorem mem_foldl_hsSet (l : List Hash) : ∀ (s : List Hash) (x : Hash), x ∈ l.foldl hsSet s ↔ x ∈ s ∨ x ∈ l := by
  induction l with
  | nil => intro s x; simp
  | cons y ys ih =>
    intro s x
    rw [List.foldl_cons, ih, mem_hsSet]
    simp only [List.mem_cons]
    constructor
    · rintro ((h | h) | h)
      · exact Or.inl h
      · exact Or.inr (Or.inl h)
      · exact Or.inr (Or.inr h)
    · rintro (h | h | h)
      · exact Or.inl (Or.inl h)
      · exact Or.inl (Or.inr h)
      · exact Or.inr h

/-- hash-consing: inside a list with distinct hashes the hash determines the entry -/
theorem eq_of_hash_eq {U : List Entry} (hU : (hashes U).Nodup) {a b : Entry} (ha : a ∈ U) (hb : b ∈ U)
    (h : a.hash = b.hash) : a = b :=
  hash_inj (by simpa [hashes] using hU) ha hb h

theorem get?_eq_of_mem {E : List Entry} (hnd : (hashes E).Nodup) {p : Entry} (hp : p ∈ E) : get? E p.hash = some p :=
  get?_of_mem (by simpa [hashes] using hnd) hp

end Model
