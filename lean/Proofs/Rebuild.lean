import Proofs.Values
/-!
# Proofs.Rebuild — a log rebuilt by `NewLog` from the entries of a replica is that replica again
(the step from "the fetch returns the source's entry set" to "same heads, same values", C09)
-/
namespace Model

/-- the invariant only depends on the entry *set*, the head set and the key set of `Next` -/
theorem inv_transfer {U : List Entry} {l L : Log} (I : Inv U l)
    (hid : L.id = l.id)
    (hE : ∀ x, x ∈ L.entries ↔ x ∈ l.entries) (hnd : (hashes L.entries).Nodup)
    (hH : ∀ x, x ∈ L.heads ↔ x ∈ l.heads) (hHnd : (hashes L.heads).Nodup)
    (hN : ∀ h, h ∈ L.nextIdx ↔ namedBy L.entries h) : Inv U L := by
  have hnamed : ∀ h, namedBy L.entries h ↔ namedBy l.entries h := by
    intro h
    exact ⟨namedBy_mono (fun e he => (hE e).mp he), namedBy_mono (fun e he => (hE e).mpr he)⟩
  have hhas : ∀ h, has L.entries h = has l.entries h := by
    intro h
    cases h1 : has l.entries h with
    | true =>
      obtain ⟨e, he, hh⟩ := has_iff.mp h1
      exact has_iff.mpr ⟨e, (hE e).mpr he, hh⟩
    | false =>
      rw [has_false_iff] at h1 ⊢
      exact fun e he => h1 e ((hE e).mp he)
  exact {
    inU := fun e he => I.inU e ((hE e).mp he)
    nodup := hnd
    closed := fun e he n hn => by rw [hhas]; exact I.closed e ((hE e).mp he) n hn
    mono := by
      intro e he c hc p hp
      obtain ⟨hpL, hph⟩ := get?_mem hp
      have : get? l.entries c = some p := by
        rw [← hph]; exact get?_eq_of_mem I.nodup ((hE p).mp hpL)
      exact I.mono e ((hE e).mp he) c hc p this
    headsIn := fun h hh => (hE h).mpr (I.headsIn h ((hH h).mp hh))
    headsNodup := hHnd
    headsSpec := fun e he hn => (hH e).mpr (I.headsSpec e ((hE e).mp he) (fun h => hn ((hnamed _).mpr h)))
    headsUnref := fun h hh hn => I.headsUnref h ((hH h).mp hh) ((hnamed _).mp hn)
    nextIdx := hN
    logId := fun e he => by rw [hid]; exact I.logId e ((hE e).mp he) }

/-- `NewLog` on a list holding exactly the replica's entries (any order, repetitions allowed), with
    no heads given or with the replica's own heads, is the replica again -/
theorem newLog_rebuilds {U : List Entry} (hU : (hashes U).Nodup) {l : Log} (I : Inv U l)
    (ents heads : List Entry) (cid : Bytes) (k : SortKind)
    (hin : ∀ e ∈ ents, e ∈ U)
    (hset : ∀ h, h ∈ hashes ents ↔ h ∈ hashes l.entries)
    (hheads : heads = [] ∨ ((hashes heads).Nodup ∧ ∀ x, x ∈ heads ↔ x ∈ l.heads)) :
    let L := newLog l.id cid k ents heads
    Inv U L ∧ L.id = l.id ∧ (∀ x, x ∈ L.entries ↔ x ∈ l.entries) ∧ (∀ x, x ∈ L.heads ↔ x ∈ l.heads) := by
  intro L
  have hents : ∀ x, x ∈ ents ↔ x ∈ l.entries := by
    intro x
    constructor
    · intro hx
      have : x.hash ∈ hashes l.entries := (hset _).mp (List.mem_map.mpr ⟨x, hx, rfl⟩)
      obtain ⟨y, hy, hyh⟩ := List.mem_map.mp this
      have : y = x := eq_of_hash_eq hU (I.inU y hy) (hin x hx) hyh
      exact this ▸ hy
    · intro hx
      have : x.hash ∈ hashes ents := (hset _).mpr (List.mem_map.mpr ⟨x, hx, rfl⟩)
      obtain ⟨y, hy, hyh⟩ := List.mem_map.mp this
      have : y = x := eq_of_hash_eq hU (hin y hy) (I.inU x hx) hyh
      exact this ▸ hy
  have hE : ∀ x, x ∈ omFromList ents ↔ x ∈ l.entries := by
    intro x
    constructor
    · exact fun hx => (hents x).mp (mem_omFromList hx)
    · intro hx
      have hxe := (hents x).mpr hx
      have : has (omFromList ents) x.hash = true := by rw [has_omFromList]; exact has_of_mem hxe
      obtain ⟨y, hy, hyh⟩ := has_iff.mp this
      have : y = x := eq_of_hash_eq hU (hin y (mem_omFromList hy)) (I.inU x hx) hyh
      exact this ▸ hy
  have hEnd : (hashes (omFromList ents)).Nodup := omFromList_nodup ents
  have hnamed : ∀ h, namedBy (omFromList ents) h ↔ namedBy l.entries h := fun h =>
    ⟨namedBy_mono (fun e he => (hE e).mp he), namedBy_mono (fun e he => (hE e).mpr he)⟩
  have hfind : ∀ x, x ∈ findHeads (omFromList ents) ↔ x ∈ l.heads := by
    intro x
    rw [mem_findHeads, hE, hnamed]
    exact ⟨fun ⟨h1, h2⟩ => I.headsSpec x h1 h2, fun h => ⟨I.headsIn x h, I.headsUnref x h⟩⟩
  -- the heads `NewLog` installs
  have hLheads : (hashes L.heads).Nodup ∧ ∀ x, x ∈ L.heads ↔ x ∈ l.heads := by
    show (hashes (omFromList (if heads.length = 0 ∧ (omFromList ents).length > 0 then findHeads (omFromList ents) else heads))).Nodup ∧
      ∀ x, x ∈ omFromList (if heads.length = 0 ∧ (omFromList ents).length > 0 then findHeads (omFromList ents) else heads) ↔ x ∈ l.heads
    refine ⟨omFromList_nodup _, ?_⟩
    by_cases hc : heads.length = 0 ∧ (omFromList ents).length > 0
    · simp only [hc, and_self, if_true]
      intro x
      rw [mem_omFromList_of_nodup (findHeads_nodup hEnd)]
      exact hfind x
    · simp only [hc, if_false]
      rcases hheads with h0 | ⟨hn, hm⟩
      · -- no heads given and no entries: an empty log
        subst h0
        have hempty : omFromList ents = [] := by
          cases he : omFromList ents with
          | nil => rfl
          | cons a t => exact absurd ⟨rfl, by rw [he]; simp⟩ hc
        intro x
        constructor
        · intro hx; simp [omFromList] at hx
        · intro hx
          have := (hE x).mpr (I.headsIn x hx)
          rw [hempty] at this; cases this
      · intro x
        rw [mem_omFromList_of_nodup hn]
        exact hm x
  have hInv : Inv U L := by
    refine inv_transfer (L := L) I rfl hE hEnd hLheads.2 hLheads.1 ?_
    intro h
    show h ∈ (omFromList ents).foldl (fun idx e => e.next.foldl hsSet idx) [] ↔ _
    rw [mem_foldl_nextIdx]
    simp
    rfl
  exact ⟨hInv, rfl, hE, hLheads.2⟩

/-- ... and it linearises identically (same ordering, strict total order on the entries) -/
theorem newLog_values {U : List Entry} (hU : (hashes U).Nodup) {l : Log} (I : Inv U l)
    (ents heads : List Entry) (cid : Bytes)
    (hin : ∀ e ∈ ents, e ∈ U)
    (hset : ∀ h, h ∈ hashes ents ↔ h ∈ hashes l.entries)
    (hheads : heads = [] ∨ ((hashes heads).Nodup ∧ ∀ x, x ∈ heads ↔ x ∈ l.heads))
    (ho : OrderOk l.sortFn l.entries) :
    values (newLog l.id cid l.sortFn ents heads) = values l := by
  obtain ⟨hInv, _, hE, _⟩ := newLog_rebuilds hU I ents heads cid l.sortFn hin hset hheads
  have hp : (newLog l.id cid l.sortFn ents heads).entries.Perm l.entries := by
    rw [List.perm_ext_iff_of_nodup (nodup_of_hashes_nodup hInv.nodup) (nodup_of_hashes_nodup I.nodup)]
    exact hE
  exact values_fn_of_set hInv I rfl (orderOk_mono (fun x hx => (hE x).mp hx) ho) hp

end Model
