import Model.Keystore
/-!
# Proofs.Keystore — invariants of keystores sharing one datastore

`Inv env s`: every cached pair, and every pair in the creation log, is what the datastore holds now;
everything the datastore holds was logged by `CreateKey`.  It holds initially, is kept by every
well-formed step, and determines the answers of `HasKey` / `GetKey` in every keystore.
-/
namespace Model.Keys

/-! ## association lists, datastore, cache -/
theorem assoc_mem {l : List (Id × Key)} {k : Id} {v : Key} (h : assoc l k = some v) : (k, v) ∈ l := by
  induction l with
  | nil => simp [assoc] at h
  | cons p t ih =>
    obtain ⟨k', v'⟩ := p
    simp only [assoc] at h
    by_cases hk : k' = k
    · simp only [hk, if_true, Option.some.injEq] at h
      subst hk; subst h; exact List.mem_cons_self
    · simp only [hk, if_false] at h
      exact List.mem_cons_of_mem _ (ih h)

theorem assoc_eq_none {l : List (Id × Key)} {k : Id} (h : ∀ v, (k, v) ∉ l) : assoc l k = none := by
  cases hh : assoc l k with
  | none => rfl
  | some v => exact absurd (assoc_mem hh) (h v)

theorem Store.get_nil (k : Id) : Store.get [] k = none := rfl

theorem Store.get_put (s : Store) (k k' : Id) (v : Key) :
    (s.put k v).get k' = if k = k' then some v else s.get k' := by
  simp only [Store.put, Store.get, assoc]

theorem Cache.mem_remove {c : Cache} {id : Id} {p : Id × Key} (h : p ∈ c.remove id) : p ∈ c := by
  simp only [Cache.remove, List.mem_filter] at h
  exact h.1

theorem Cache.mem_add {cap : Nat} {c : Cache} {id : Id} {v : Key} {p : Id × Key}
    (h : p ∈ Cache.add cap c id v) : p = (id, v) ∨ p ∈ c := by
  unfold Cache.add at h
  split at h
  · rcases List.mem_cons.mp h with h | h
    · exact Or.inl h
    · exact Or.inr (Cache.mem_remove h)
  · split at h
    · exact List.mem_cons.mp (List.dropLast_subset _ h)
    · exact List.mem_cons.mp h

theorem Cache.get_fst (c : Cache) (id : Id) : (c.get id).1 = assoc c id := by
  unfold Cache.get; split <;> simp_all

theorem Cache.mem_get {c : Cache} {id : Id} {p : Id × Key} (h : p ∈ (c.get id).2) : p ∈ c := by
  unfold Cache.get at h
  split at h
  · rename_i v hv
    rcases List.mem_cons.mp h with h | h
    · rw [h]; exact assoc_mem hv
    · exact Cache.mem_remove h
  · exact h

/-! ## the invariant -/
structure Inv (env : Env) (s : State) : Prop where
  cache : ∀ i id k, (id, k) ∈ s.caches i → s.store.get (env.norm id) = some k
  created : ∀ id k, (id, k) ∈ s.created → s.store.get (env.norm id) = some k
  stored : ∀ key k, s.store.get key = some k → ∃ id, (id, k) ∈ s.created ∧ env.norm id = key

theorem inv_init (env : Env) : Inv env State.init :=
  ⟨fun _ _ _ h => by simp [State.init] at h, fun _ _ h => by simp [State.init] at h,
   fun _ _ h => by simp [State.init, Store.get, assoc] at h⟩

/-- `s'` has the same datastore and creation log as `s` -/
def SameData (s s' : State) : Prop := s'.store = s.store ∧ s'.created = s.created

theorem SameData.refl (s : State) : SameData s s := ⟨rfl, rfl⟩

/-- the datastore only grows along an extension of the creation log -/
theorem store_mono {env : Env} {s s' : State} (h : Inv env s) (h' : Inv env s')
    (sub : ∀ p, p ∈ s.created → p ∈ s'.created) {key : Id} {k : Key}
    (hk : s.store.get key = some k) : s'.store.get key = some k := by
  obtain ⟨id, hm, hn⟩ := h.stored key k hk
  rw [← hn]; exact h'.created id k (sub _ hm)

theorem inv_setCache {env : Env} {s : State} (h : Inv env s) (i : Nat) (c : Cache)
    (hc : ∀ id k, (id, k) ∈ c → s.store.get (env.norm id) = some k) :
    Inv env (s.setCache i c) ∧ SameData s (s.setCache i c) := by
  refine ⟨⟨?_, h.created, h.stored⟩, rfl, rfl⟩
  intro j id k hm
  simp only [State.setCache] at hm
  by_cases hj : j = i
  · simp only [hj, if_true] at hm; exact hc id k hm
  · simp only [hj, if_false] at hm; exact h.cache j id k hm

theorem inv_add {env : Env} {s : State} (h : Inv env s) (i : Nat) (id : Id) (v : Key)
    (hv : s.store.get (env.norm id) = some v) :
    Inv env (s.setCache i ((s.caches i).add env.cap id v))
      ∧ SameData s (s.setCache i ((s.caches i).add env.cap id v)) := by
  apply inv_setCache h
  intro id' k' hm
  rcases Cache.mem_add hm with he | hm
  · simp only [Prod.mk.injEq] at he; rw [he.1, he.2]; exact hv
  · exact h.cache i id' k' hm

/-! ## the operations on a state satisfying the invariant -/

/-- `GetKey` answers what the datastore holds, in every keystore -/
theorem getKey_spec {env : Env} {s : State} (h : Inv env s) (i : Nat) (id : Id) :
    (getKey env s i id).1 = s.store.get (env.norm id)
      ∧ Inv env (getKey env s i id).2 ∧ SameData s (getKey env s i id).2 := by
  have hfst := Cache.get_fst (s.caches i) id
  unfold getKey
  split
  · rename_i v c' hg
    rw [hg] at hfst
    have hmem : (id, v) ∈ s.caches i := assoc_mem hfst.symm
    refine ⟨(h.cache i id v hmem).symm, ?_⟩
    apply inv_setCache h
    intro id' k' hm
    have : (id', k') ∈ ((s.caches i).get id).2 := by rw [hg]; exact hm
    exact h.cache i id' k' (Cache.mem_get this)
  · split
    · rename_i hs
      exact ⟨hs.symm, h, SameData.refl s⟩
    · rename_i v hs
      exact ⟨hs.symm, inv_add h i id v hs⟩

/-- `HasKey` answers whether the datastore holds a key, in every keystore -/
theorem hasKey_spec {env : Env} {s : State} (h : Inv env s) (i : Nat) (id : Id) :
    (hasKey env s i id).1 = (if (s.store.get (env.norm id)).isSome then HasRes.yes else HasRes.err)
      ∧ Inv env (hasKey env s i id).2 ∧ SameData s (hasKey env s i id).2 := by
  unfold hasKey
  split
  · rename_i v hp
    have := h.cache i id v (assoc_mem hp)
    simp [this, h, SameData.refl]
  · split
    · rename_i hs
      simp [hs, h, SameData.refl]
    · rename_i v hs
      refine ⟨by simp [hs], inv_add h i id v hs⟩

/-- `CreateKey` on an id whose datastore key is free -/
theorem createKey_inv {env : Env} {s : State} (h : Inv env s) (i : Nat) (id : Id) (k : Key)
    (fresh : s.store.get (env.norm id) = none) : Inv env (createKey env s i id k) := by
  have keep : ∀ id' k', s.store.get (env.norm id') = some k' →
      (s.store.put (env.norm id) k).get (env.norm id') = some k' := by
    intro id' k' hs
    rw [Store.get_put]
    by_cases he : env.norm id = env.norm id'
    · rw [he] at fresh; rw [fresh] at hs; cases hs
    · simp only [he, if_false]; exact hs
  refine ⟨?_, ?_, ?_⟩
  · intro j id' k' hm
    simp only [createKey] at hm ⊢
    by_cases hj : j = i
    · simp only [hj, if_true] at hm
      rcases Cache.mem_add hm with he | hm
      · simp only [Prod.mk.injEq] at he; rw [he.1, he.2, Store.get_put]; simp
      · exact keep id' k' (h.cache i id' k' hm)
    · simp only [hj, if_false] at hm
      exact keep id' k' (h.cache j id' k' hm)
  · intro id' k' hm
    simp only [createKey] at hm ⊢
    rcases List.mem_cons.mp hm with he | hm
    · simp only [Prod.mk.injEq] at he; rw [he.1, he.2, Store.get_put]; simp
    · exact keep id' k' (h.created id' k' hm)
  · intro key k' hs
    simp only [createKey] at hs ⊢
    rw [Store.get_put] at hs
    by_cases he : env.norm id = key
    · simp only [he, if_true, Option.some.injEq] at hs
      exact ⟨id, by rw [hs]; exact List.mem_cons_self, he⟩
    · simp only [he, if_false] at hs
      obtain ⟨id', hm, hn⟩ := h.stored key k' hs
      exact ⟨id', List.mem_cons_of_mem _ hm, hn⟩

theorem createKey_store (env : Env) (s : State) (i : Nat) (id : Id) (k : Key) :
    (createKey env s i id k).store.get (env.norm id) = some k := by
  simp [createKey, Store.get_put]

/-- get-or-create never overwrites: it returns the key the datastore holds afterwards -/
theorem getOrCreate_spec {env : Env} {s : State} (h : Inv env s) (i : Nat) (id : Id) (k : Key) :
    Inv env (getOrCreate env s i id k).2
      ∧ (getOrCreate env s i id k).2.store.get (env.norm id) = some (getOrCreate env s i id k).1
      ∧ (∀ p, p ∈ s.created → p ∈ (getOrCreate env s i id k).2.created) := by
  obtain ⟨h1, h2, h3, h4⟩ := getKey_spec h i id
  unfold getOrCreate
  split
  · rename_i v s' hg
    rw [hg] at h1 h2 h3 h4
    simp only at h1 h2 h3 h4 ⊢
    exact ⟨h2, by rw [h3]; exact h1.symm, fun p hp => by rw [h4]; exact hp⟩
  · rename_i s' hg
    rw [hg] at h1 h2 h3 h4
    simp only at h1 h2 h3 h4 ⊢
    refine ⟨createKey_inv h2 i id k (by rw [h3]; exact h1.symm), createKey_store env s' i id k, ?_⟩
    intro p hp
    simp only [createKey]
    exact List.mem_cons_of_mem _ (by rw [h4]; exact hp)

theorem signEntry_spec {env : Env} (C : Crypto) {s : State} (h : Inv env s) (i : Nat) (id : Id) (d : Bytes) :
    (signEntry env C s i id d).1 = (s.store.get (env.norm id)).map (fun k => C.sign k d)
      ∧ Inv env (signEntry env C s i id d).2 ∧ SameData s (signEntry env C s i id d).2 := by
  obtain ⟨h1, h2, h3⟩ := getKey_spec h i id
  unfold signEntry
  split
  · rename_i s' hg
    rw [hg] at h1 h2 h3
    simp only at h1 h2 h3 ⊢
    exact ⟨by rw [← h1]; rfl, h2, h3⟩
  · rename_i v s' hg
    rw [hg] at h1 h2 h3
    simp only at h1 h2 h3 ⊢
    exact ⟨by rw [← h1]; rfl, h2, h3⟩

/-- `CreateIdentity` succeeds and yields the identity determined by the two stored keys -/
theorem createIdentity_spec {env : Env} (C : Crypto) {s : State} (h : Inv env s) (i : Nat) (uid : Id)
    (k1 k2 : Key) :
    ∃ ku ki, (createIdentity env C s i uid k1 k2).1 = some (mkIdentity C ku ki)
      ∧ (createIdentity env C s i uid k1 k2).2.store.get (env.norm uid) = some ku
      ∧ (createIdentity env C s i uid k1 k2).2.store.get (env.norm (hexEnc (C.pubC ku))) = some ki
      ∧ Inv env (createIdentity env C s i uid k1 k2).2
      ∧ (∀ p, p ∈ s.created → p ∈ (createIdentity env C s i uid k1 k2).2.created) := by
  obtain ⟨a1, a2, a3⟩ := getOrCreate_spec h i uid k1
  generalize hg1 : getOrCreate env s i uid k1 = r1 at a1 a2 a3
  obtain ⟨ku, s1⟩ := r1
  simp only at a1 a2 a3
  obtain ⟨b1, b2, b3⟩ := getOrCreate_spec a1 i (hexEnc (C.pubC ku)) k2
  generalize hg2 : getOrCreate env s1 i (hexEnc (C.pubC ku)) k2 = r2 at b1 b2 b3
  obtain ⟨ki, s2⟩ := r2
  simp only at b1 b2 b3
  obtain ⟨c1, c2, c3, c4⟩ := getKey_spec b1 i uid
  have hku : s2.store.get (env.norm uid) = some ku := store_mono a1 b1 b3 a2
  rw [hku] at c1
  generalize hg3 : getKey env s2 i uid = r3 at c1 c2 c3 c4
  obtain ⟨o3, s3⟩ := r3
  simp only at c1 c2 c3 c4
  subst c1
  refine ⟨ku, ki, ?_, ?_, ?_, ?_, ?_⟩ <;>
    simp only [createIdentity, hg1, hg2, hg3]
  · rfl
  · rw [c3]; exact hku
  · rw [c3]; exact b2
  · exact c2
  · intro p hp; rw [c4]; exact b3 p (a3 p hp)

/-! ## steps and runs -/
theorem step_inv {env : Env} (C : Crypto) {s : State} (h : Inv env s) (op : Op) (hw : wfStep env s op = true) :
    Inv env (step env C s op).2 ∧ (∀ p, p ∈ s.created → p ∈ (step env C s op).2.created) := by
  cases op with
  | create i id k =>
    simp only [wfStep, Option.isNone_iff_eq_none] at hw
    exact ⟨createKey_inv h i id k hw, fun p hp => List.mem_cons_of_mem _ hp⟩
  | get i id =>
    obtain ⟨_, h2, _, h4⟩ := getKey_spec h i id
    exact ⟨h2, fun p hp => by simp only [step]; rw [h4]; exact hp⟩
  | has i id =>
    obtain ⟨_, h2, _, h4⟩ := hasKey_spec h i id
    exact ⟨h2, fun p hp => by simp only [step]; rw [h4]; exact hp⟩
  | getOrCreate i id k =>
    obtain ⟨h1, _, h3⟩ := getOrCreate_spec h i id k
    exact ⟨h1, h3⟩
  | createIdentity i uid k1 k2 =>
    obtain ⟨_, _, _, _, _, h4, h5⟩ := createIdentity_spec C h i uid k1 k2
    exact ⟨h4, h5⟩
  | signEntry i id d =>
    obtain ⟨_, h2, _, h4⟩ := signEntry_spec C h i id d
    exact ⟨h2, fun p hp => by simp only [step]; rw [h4]; exact hp⟩
  | restart i =>
    obtain ⟨h1, _, h3⟩ := inv_setCache h i [] (fun _ _ hm => by simp at hm)
    exact ⟨h1, fun p hp => by simp only [step]; rw [h3]; exact hp⟩

/-- what is known about an identity observation in a state -/
def IdentOk (env : Env) (C : Crypto) (s : State) (o : Obs) : Prop :=
  ∀ uid r, o = Obs.ident uid r → ∃ ku ki, r = some (mkIdentity C ku ki)
    ∧ s.store.get (env.norm uid) = some ku
    ∧ s.store.get (env.norm (hexEnc (C.pubC ku))) = some ki

theorem step_identOk {env : Env} (C : Crypto) {s : State} (h : Inv env s) (op : Op) :
    IdentOk env C (step env C s op).2 (step env C s op).1 := by
  intro uid r ho
  cases op with
  | createIdentity i uid' k1 k2 =>
    obtain ⟨ku, ki, h1, h2, h3, _, _⟩ := createIdentity_spec C h i uid' k1 k2
    simp only [step, Obs.ident.injEq] at ho
    obtain ⟨hu, hr⟩ := ho
    subst hu
    exact ⟨ku, ki, by rw [← hr]; exact h1, h2, h3⟩
  | _ => simp [step] at ho

theorem identOk_mono {env : Env} {C : Crypto} {s s' : State} (h : Inv env s) (h' : Inv env s')
    (sub : ∀ p, p ∈ s.created → p ∈ s'.created) {o : Obs} (ho : IdentOk env C s o) : IdentOk env C s' o := by
  intro uid r hr
  obtain ⟨ku, ki, h1, h2, h3⟩ := ho uid r hr
  exact ⟨ku, ki, h1, store_mono h h' sub h2, store_mono h h' sub h3⟩

/-- the invariant along a well-formed run; the creation log only grows; every identity observation
is the identity of the two keys the FINAL datastore holds -/
theorem run_inv {env : Env} (C : Crypto) (ops : List Op) : ∀ {s : State}, Inv env s → wf env C s ops = true →
    Inv env (run env C s ops).2 ∧ (∀ p, p ∈ s.created → p ∈ (run env C s ops).2.created)
      ∧ (∀ o, o ∈ (run env C s ops).1 → IdentOk env C (run env C s ops).2 o) := by
  induction ops with
  | nil => intro s h _; exact ⟨h, fun _ hp => hp, fun o ho => by simp [run] at ho⟩
  | cons op ops ih =>
    intro s h hw
    simp only [wf, Bool.and_eq_true] at hw
    obtain ⟨h1, h2⟩ := step_inv C h op hw.1
    have hio := step_identOk C h op
    obtain ⟨i1, i2, i3⟩ := ih h1 hw.2
    simp only [run]
    refine ⟨i1, fun p hp => i2 p (h2 p hp), ?_⟩
    intro o ho
    rcases List.mem_cons.mp ho with he | ho
    · rw [he]; exact identOk_mono h1 i1 i2 hio
    · exact i3 o ho


/-! ## the cache is an LRU map: bounded, one entry per id -/
def Cache.keys (c : Cache) : List Id := c.map (·.1)

theorem assoc_none_iff {l : List (Id × Key)} {k : Id} : assoc l k = none ↔ k ∉ l.map (·.1) := by
  induction l with
  | nil => simp [assoc]
  | cons p t ih =>
    obtain ⟨k', v'⟩ := p
    simp only [assoc, List.map_cons, List.mem_cons, not_or]
    by_cases hk : k' = k
    · simp [hk]
    · simp only [hk, if_false, ih]
      exact ⟨fun h => ⟨fun h' => hk h'.symm, h⟩, fun h => h.2⟩

theorem Cache.remove_keys_nodup {c : Cache} (id : Id) (h : c.keys.Nodup) : (c.remove id).keys.Nodup := by
  unfold Cache.keys Cache.remove at *
  exact List.Nodup.sublist (List.Sublist.map _ List.filter_sublist) h

theorem Cache.not_mem_remove_keys (c : Cache) (id : Id) : id ∉ (c.remove id).keys := by
  simp only [Cache.keys, Cache.remove, List.mem_map, List.mem_filter, not_exists, not_and]
  intro p hp he
  simp [he] at hp

theorem Cache.remove_length_lt {c : Cache} {id : Id} {v : Key} (h : (id, v) ∈ c) :
    (c.remove id).length < c.length := by
  induction c with
  | nil => simp at h
  | cons p t ih =>
    simp only [Cache.remove, List.filter_cons]
    by_cases hp : p.1 = id
    · simp only [hp, beq_self_eq_true, Bool.not_true, Bool.false_eq_true, if_false, List.length_cons]
      exact Nat.lt_succ_of_le (List.length_filter_le _ _)
    · have hne : (p.1 == id) = false := by simp [hp]
      simp only [hne, Bool.not_false, if_true, List.length_cons]
      rcases List.mem_cons.mp h with he | hm
      · rw [← he] at hp; exact absurd rfl hp
      · have := ih hm
        simp only [Cache.remove] at this
        omega

/-- shape of a cache: at most `cap` entries, ids pairwise distinct -/
def Cache.Ok (cap : Nat) (c : Cache) : Prop := c.length ≤ cap ∧ c.keys.Nodup

theorem Cache.ok_nil (cap : Nat) : Cache.Ok cap [] := ⟨Nat.zero_le _, List.nodup_nil⟩

theorem Cache.ok_touch {cap : Nat} {c : Cache} {id : Id} {v v' : Key} (h : Cache.Ok cap c) (hm : (id, v') ∈ c) :
    Cache.Ok cap ((id, v) :: c.remove id) := by
  refine ⟨?_, ?_⟩
  · have := Cache.remove_length_lt hm
    simp only [List.length_cons]; have := h.1; omega
  · simp only [Cache.keys, List.map_cons]
    exact List.nodup_cons.mpr ⟨Cache.not_mem_remove_keys c id, Cache.remove_keys_nodup id h.2⟩

theorem Cache.ok_add {cap : Nat} (hcap : 1 ≤ cap) {c : Cache} (id : Id) (v : Key) (h : Cache.Ok cap c) :
    Cache.Ok cap (Cache.add cap c id v) := by
  unfold Cache.add
  split
  · rename_i v' hv; exact Cache.ok_touch h (assoc_mem hv)
  · rename_i hn
    have hnd : (Cache.keys ((id, v) :: c)).Nodup := by
      simp only [Cache.keys, List.map_cons]
      exact List.nodup_cons.mpr ⟨assoc_none_iff.mp hn, h.2⟩
    split
    · refine ⟨?_, ?_⟩
      · simp only [List.length_dropLast, List.length_cons]; have := h.1; omega
      · unfold Cache.keys at *
        exact List.Nodup.sublist (List.Sublist.map _ (List.dropLast_sublist _)) hnd
    · rename_i hl
      exact ⟨by simp only [List.length_cons]; omega, hnd⟩

theorem Cache.ok_get {cap : Nat} {c : Cache} (id : Id) (h : Cache.Ok cap c) : Cache.Ok cap (c.get id).2 := by
  unfold Cache.get
  split
  · rename_i v hv; exact Cache.ok_touch h (assoc_mem hv)
  · exact h

/-- a touched or added id is at the front (most recent) -/
theorem Cache.add_head (cap : Nat) (hcap : 1 ≤ cap) (c : Cache) (id : Id) (v : Key) :
    (Cache.add cap c id v).head? = some (id, v) := by
  unfold Cache.add
  split
  · rfl
  · split
    · cases c with
      | nil => rename_i h; simp at h; omega
      | cons p t => simp [List.dropLast]
    · rfl

theorem step_cachesOk {env : Env} (hcap : 1 ≤ env.cap) (C : Crypto) {s : State}
    (h : ∀ i, Cache.Ok env.cap (s.caches i)) (op : Op) : ∀ i, Cache.Ok env.cap ((step env C s op).2.caches i) := by
  have setC : ∀ (s : State) (i : Nat) (c : Cache), (∀ j, Cache.Ok env.cap (s.caches j)) → Cache.Ok env.cap c →
      ∀ j, Cache.Ok env.cap ((s.setCache i c).caches j) := by
    intro s i c hs hc j
    simp only [State.setCache]
    by_cases hj : j = i
    · simp only [hj, if_true]; exact hc
    · simp only [hj, if_false]; exact hs j
  have hget : ∀ (s : State) (i : Nat) (id : Id), (∀ j, Cache.Ok env.cap (s.caches j)) →
      ∀ j, Cache.Ok env.cap ((getKey env s i id).2.caches j) := by
    intro s i id hs
    unfold getKey
    split
    · rename_i v c' hg
      have := Cache.ok_get id (hs i); rw [hg] at this
      exact setC s i c' hs this
    · split
      · exact hs
      · exact setC s i _ hs (Cache.ok_add hcap id _ (hs i))
  have hcreate : ∀ (s : State) (i : Nat) (id : Id) (k : Key), (∀ j, Cache.Ok env.cap (s.caches j)) →
      ∀ j, Cache.Ok env.cap ((createKey env s i id k).caches j) := by
    intro s i id k hs j
    simp only [createKey]
    by_cases hj : j = i
    · simp only [hj, if_true]; exact Cache.ok_add hcap id k (hs i)
    · simp only [hj, if_false]; exact hs j
  have hgoc : ∀ (s : State) (i : Nat) (id : Id) (k : Key), (∀ j, Cache.Ok env.cap (s.caches j)) →
      ∀ j, Cache.Ok env.cap ((getOrCreate env s i id k).2.caches j) := by
    intro s i id k hs
    have := hget s i id hs
    unfold getOrCreate
    split
    · rename_i v s' hg; rw [hg] at this; exact this
    · rename_i s' hg; rw [hg] at this; exact hcreate s' i id k this
  cases op with
  | create i id k => exact hcreate s i id k h
  | get i id => exact hget s i id h
  | has i id =>
    simp only [step]
    unfold hasKey
    split
    · exact h
    · split
      · exact h
      · exact setC s i _ h (Cache.ok_add hcap id _ (h i))
  | getOrCreate i id k => exact hgoc s i id k h
  | createIdentity i uid k1 k2 =>
    simp only [step]
    have a := hgoc s i uid k1 h
    generalize hg1 : getOrCreate env s i uid k1 = r1 at a
    obtain ⟨ku, s1⟩ := r1
    have b := hgoc s1 i (hexEnc (C.pubC ku)) k2 a
    generalize hg2 : getOrCreate env s1 i (hexEnc (C.pubC ku)) k2 = r2 at b
    obtain ⟨ki, s2⟩ := r2
    have c := hget s2 i uid b
    generalize hg3 : getKey env s2 i uid = r3 at c
    obtain ⟨o3, s3⟩ := r3
    simp only [createIdentity, hg1, hg2, hg3]
    cases o3 <;> exact c
  | signEntry i id d =>
    simp only [step]
    have := hget s i id h
    unfold signEntry
    generalize getKey env s i id = r at this
    obtain ⟨o, s'⟩ := r
    cases o <;> exact this
  | restart i => exact setC s i [] h (Cache.ok_nil _)

theorem run_cachesOk {env : Env} (hcap : 1 ≤ env.cap) (C : Crypto) (ops : List Op) : ∀ {s : State},
    (∀ i, Cache.Ok env.cap (s.caches i)) → ∀ i, Cache.Ok env.cap ((run env C s ops).2.caches i) := by
  induction ops with
  | nil => intro s h; exact h
  | cons op ops ih => intro s h; simp only [run]; exact ih (step_cachesOk hcap C h op)

/-! ## hex -/
theorem hexVal_hexDigit {n : Nat} (h : n < 16) : hexVal (hexDigit n) = some n := by
  unfold hexVal hexDigit
  by_cases h10 : n < 10
  · simp only [h10, if_true]
    have : 48 ≤ 48 + n ∧ 48 + n ≤ 57 := by omega
    simp only [this, and_self, if_true]; congr 1; omega
  · simp only [h10, if_false]
    have h1 : ¬ (48 ≤ 87 + n ∧ 87 + n ≤ 57) := by omega
    have h2 : 97 ≤ 87 + n ∧ 87 + n ≤ 102 := by omega
    simp only [h1, if_false, h2, and_self, if_true]; congr 1; omega

theorem hexDec_hexEnc (b : List Nat) (h : ∀ x, x ∈ b → x < 256) : hexDec (hexEnc b) = some b := by
  induction b with
  | nil => rfl
  | cons x t ih =>
    have hx : x < 256 := h x List.mem_cons_self
    have ht := ih (fun y hy => h y (List.mem_cons_of_mem _ hy))
    simp only [hexEnc, hexDec]
    rw [hexVal_hexDigit (by omega : x / 16 % 16 < 16), hexVal_hexDigit (by omega : x % 16 < 16), ht]
    simp only [Option.some.injEq, List.cons.injEq, and_true]
    omega

end Model.Keys
