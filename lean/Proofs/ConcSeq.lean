import Model.Log
import Proofs.Sort
/-!
# Proofs.ConcSeq — facts about the sequential steps that the concurrency theorems use

Ordered maps (`omSet`), `get?`, ancestors along `next`, what `Append` links to, what `difference`
(hence an unbounded `Join`) can add.
-/
namespace Model

/-- hashes are unique keys -/
def NodupH (E : List Entry) : Prop := (hashes E).Nodup

theorem has_iff {E : List Entry} {h : Hash} : has E h = true ↔ h ∈ hashes E := by
  simp only [has, hashes, List.any_eq_true, List.mem_map, beq_iff_eq]

theorem has_false_iff {E : List Entry} {h : Hash} : has E h = false ↔ h ∉ hashes E := by
  rw [← has_iff]; cases has E h <;> simp

theorem omSet_eq (E : List Entry) (e : Entry) : omSet E e = if has E e.hash then E else E ++ [e] := by
  rfl

theorem mem_omSet {E : List Entry} {e x : Entry} :
    x ∈ omSet E e ↔ x ∈ E ∨ (x = e ∧ e.hash ∉ hashes E) := by
  rw [omSet_eq]
  by_cases h : has E e.hash = true
  · rw [if_pos h]; have := has_iff.mp h; constructor
    · exact Or.inl
    · rintro (h1 | ⟨_, h2⟩); exact h1; exact absurd this h2
  · rw [if_neg h]
    have hf : has E e.hash = false := by cases hh : has E e.hash; rfl; exact absurd hh h
    have := has_false_iff.mp hf
    simp [this]

theorem sub_omSet {E : List Entry} {e x : Entry} (h : x ∈ E) : x ∈ omSet E e := mem_omSet.mpr (Or.inl h)

theorem hashes_omSet (E : List Entry) (e : Entry) :
    hashes (omSet E e) = if has E e.hash then hashes E else hashes E ++ [e.hash] := by
  rw [omSet_eq]; split <;> simp [hashes]

theorem nodupH_omSet {E : List Entry} (e : Entry) (h : NodupH E) : NodupH (omSet E e) := by
  unfold NodupH at *
  rw [hashes_omSet]
  by_cases hh : has E e.hash = true
  · rw [if_pos hh]; exact h
  · rw [if_neg hh]
    have hf : has E e.hash = false := by cases h' : has E e.hash; rfl; exact absurd h' hh
    have := has_false_iff.mp hf
    rw [List.nodup_append]
    refine ⟨h, by simp, ?_⟩
    intro a ha b hb
    simp at hb; subst hb
    intro e'; subst e'; exact this ha

theorem sub_foldl_omSet (N : List Entry) : ∀ (E : List Entry) {x : Entry}, x ∈ E → x ∈ N.foldl omSet E := by
  induction N with
  | nil => intro E x h; exact h
  | cons n ns ih => intro E x h; exact ih (omSet E n) (sub_omSet h)

theorem mem_foldl_omSet (N : List Entry) : ∀ (E : List Entry) {x : Entry}, x ∈ N.foldl omSet E → x ∈ E ∨ x ∈ N := by
  induction N with
  | nil => intro E x h; exact Or.inl h
  | cons n ns ih =>
    intro E x h
    rcases ih (omSet E n) h with h1 | h1
    · rcases mem_omSet.mp h1 with h2 | ⟨h2, _⟩
      · exact Or.inl h2
      · exact Or.inr (by simp [h2])
    · exact Or.inr (by simp [h1])

theorem nodupH_foldl_omSet (N : List Entry) : ∀ (E : List Entry), NodupH E → NodupH (N.foldl omSet E) := by
  induction N with
  | nil => intro E h; exact h
  | cons n ns ih => intro E h; exact ih (omSet E n) (nodupH_omSet n h)

theorem nodupH_omFromList (l : List Entry) : NodupH (omFromList l) :=
  nodupH_foldl_omSet l [] (by simp [NodupH, hashes])

/-- a new key is added by a fold unless it is already there -/
theorem hash_mem_foldl_omSet (N : List Entry) : ∀ (E : List Entry) {x : Entry}, x ∈ N → x.hash ∈ hashes (N.foldl omSet E) := by
  induction N with
  | nil => intro E x h; cases h
  | cons n ns ih =>
    intro E x h
    rcases List.mem_cons.mp h with h1 | h1
    · subst h1
      have : x.hash ∈ hashes (omSet E x) := by
        rw [hashes_omSet]
        by_cases hh : has E x.hash = true
        · rw [if_pos hh]; exact has_iff.mp hh
        · rw [if_neg hh]; simp
      obtain ⟨y, hy, hyx⟩ := List.mem_map.mp this
      exact List.mem_map.mpr ⟨y, sub_foldl_omSet ns _ hy, hyx⟩
    · exact ih _ h1

theorem get?_some {E : List Entry} {h : Hash} {e : Entry} (hg : get? E h = some e) : e ∈ E ∧ e.hash = h := by
  unfold get? at hg
  have := List.find?_some hg
  exact ⟨List.mem_of_find?_eq_some hg, by simpa using this⟩

theorem get?_none {E : List Entry} {h : Hash} (hg : get? E h = none) : h ∉ hashes E := by
  unfold get? at hg
  rw [List.find?_eq_none] at hg
  intro hm
  obtain ⟨y, hy, hyx⟩ := List.mem_map.mp hm
  exact hg y hy (by simp [hyx])

theorem get?_of_mem {E : List Entry} (hn : NodupH E) {e : Entry} (he : e ∈ E) : get? E e.hash = some e := by
  induction E with
  | nil => cases he
  | cons a as ih =>
    unfold get?
    simp only [List.find?_cons]
    by_cases ha : a.hash = e.hash
    · simp only [ha, beq_self_eq_true]
      rcases List.mem_cons.mp he with h1 | h1
      · rw [h1]
      · exfalso
        unfold NodupH hashes at hn
        simp only [List.map_cons, List.nodup_cons] at hn
        exact hn.1 (ha ▸ List.mem_map.mpr ⟨e, h1, rfl⟩)
    · have : (a.hash == e.hash) = false := by simp [ha]
      simp only [this]
      rcases List.mem_cons.mp he with h1 | h1
      · subst h1; exact absurd rfl ha
      · unfold NodupH hashes at hn
        simp only [List.map_cons, List.nodup_cons] at hn
        exact ih hn.2 h1


/-! ## What `Append` links to -/

theorem hashes_omFromList_iff {L : List Entry} {x : Hash} : x ∈ hashes (omFromList L) ↔ x ∈ hashes L := by
  constructor
  · intro h
    obtain ⟨y, hy, hyx⟩ := List.mem_map.mp h
    rcases mem_foldl_omSet L [] hy with h1 | h1
    · cases h1
    · exact List.mem_map.mpr ⟨y, h1, hyx⟩
  · intro h
    obtain ⟨y, hy, hyx⟩ := List.mem_map.mp h
    subst hyx
    exact hash_mem_foldl_omSet L [] hy

theorem mem_dedupHashes : ∀ (hs acc : List Hash) (x : Hash), x ∈ dedupHashes hs acc ↔ x ∈ acc ∨ x ∈ hs
  | [], acc, x => by simp [dedupHashes]
  | h :: hs, acc, x => by
    unfold dedupHashes
    split
    · rename_i hc
      rw [mem_dedupHashes hs acc x]
      have : h ∈ acc := by simpa using hc
      constructor
      · rintro (h1 | h1); exact Or.inl h1; exact Or.inr (by simp [h1])
      · rintro (h1 | h1)
        · exact Or.inl h1
        · rcases List.mem_cons.mp h1 with h2 | h2
          · subst h2; exact Or.inl this
          · exact Or.inr h2
    · rw [mem_dedupHashes hs (acc ++ [h]) x]
      simp only [List.mem_append, List.mem_cons, List.not_mem_nil, or_false]
      constructor
      · rintro ((h1 | h1) | h1)
        · exact Or.inl h1
        · exact Or.inr (Or.inl h1)
        · exact Or.inr (Or.inr h1)
      · rintro (h1 | h1 | h1)
        · exact Or.inl (Or.inl h1)
        · exact Or.inl (Or.inr h1)
        · exact Or.inr h1

theorem hashes_sortedHeads_iff {l : Log} {x : Hash} : x ∈ hashes (sortedHeads l) ↔ x ∈ hashes l.heads := by
  unfold sortedHeads
  rw [hashes_omFromList_iff]
  simp only [hashes, List.mem_map]
  constructor
  · rintro ⟨y, hy, h⟩; exact ⟨y, mem_goSort.mp hy, h⟩
  · rintro ⟨y, hy, h⟩; exact ⟨y, mem_goSort.mpr hy, h⟩

/-- `Append` names exactly the heads of the state it sees -/
theorem appendPlan_next_iff (l : Log) (pc : Int) (x : Hash) :
    x ∈ (appendPlan l pc).next ↔ x ∈ hashes l.heads := by
  unfold appendPlan
  simp only
  rw [mem_dedupHashes]
  simp only [List.mem_reverse, List.not_mem_nil, false_or]
  exact hashes_sortedHeads_iff

theorem append_fst (l : Log) (pc : Int) (h : Hash) (tag : Nat) :
    (append l pc h tag).1.hash = h ∧ (append l pc h tag).1.next = (appendPlan l pc).next := by
  simp [append]

theorem append_snd (l : Log) (pc : Int) (h : Hash) (tag : Nat) :
    (append l pc h tag).2.entries = omSet l.entries (append l pc h tag).1 ∧
    (append l pc h tag).2.heads = [(append l pc h tag).1] := by
  simp [append, appendApply, omFromList, omSet]

/-! ## Ancestors -/

/-- `Anc E a b`: `a` is `b` or is reachable from `b` along `next` through entries of `E` -/
inductive Anc (E : List Entry) : Hash → Hash → Prop where
  | refl (e : Entry) : e ∈ E → Anc E e.hash e.hash
  | step (e : Entry) (c a : Hash) : e ∈ E → c ∈ e.next → Anc E a c → Anc E a e.hash

theorem Anc.mono {E E' : List Entry} (hs : ∀ e ∈ E, e ∈ E') {a b : Hash} (h : Anc E a b) : Anc E' a b := by
  induction h with
  | refl e he => exact .refl e (hs e he)
  | step e c a he hc _ ih => exact .step e c a (hs e he) hc ih

/-- every head is an entry and every entry is in the causal past of a head -/
def Covered (l : Log) : Prop :=
  (∀ x ∈ l.heads, x ∈ l.entries) ∧ ∀ x ∈ l.entries, ∃ hd ∈ l.heads, Anc l.entries x.hash hd.hash

theorem append_covered {l : Log} (pc : Int) {h : Hash} (tag : Nat) (hC : Covered l) (hf : h ∉ hashes l.entries) :
    Covered (append l pc h tag).2 ∧
    ∀ x ∈ l.entries, Anc (append l pc h tag).2.entries x.hash h := by
  obtain ⟨hhash, hnext⟩ := append_fst l pc h tag
  obtain ⟨hent, hheads⟩ := append_snd l pc h tag
  have hfe : (append l pc h tag).1.hash ∉ hashes l.entries := by rw [hhash]; exact hf
  have heIn : (append l pc h tag).1 ∈ (append l pc h tag).2.entries := by
    rw [hent]; exact mem_omSet.mpr (Or.inr ⟨rfl, hfe⟩)
  have hsub : ∀ x ∈ l.entries, x ∈ (append l pc h tag).2.entries := fun x hx => by
    rw [hent]; exact sub_omSet hx
  have hanc : ∀ x ∈ l.entries, Anc (append l pc h tag).2.entries x.hash h := by
    intro x hx
    obtain ⟨hd, hhd, ha⟩ := hC.2 x hx
    have h1 : hd.hash ∈ (append l pc h tag).1.next := by
      rw [hnext, appendPlan_next_iff]; exact List.mem_map.mpr ⟨hd, hhd, rfl⟩
    have := Anc.step _ hd.hash x.hash heIn h1 (ha.mono hsub)
    rwa [hhash] at this
  refine ⟨⟨?_, ?_⟩, hanc⟩
  · intro x hx; rw [hheads] at hx; simp at hx; subst hx; exact heIn
  · intro x hx
    rw [hheads]
    refine ⟨(append l pc h tag).1, by simp, ?_⟩
    rw [hent] at hx
    rcases mem_omSet.mp hx with h1 | ⟨h1, _⟩
    · rw [hhash]; exact hanc x h1
    · subst h1; exact .refl _ heIn


/-! ## What `difference` (hence `Join`) can add -/

/-- hashes reachable from `roots` along `next`, looking entries up in `E` -/
inductive Desc (E : List Entry) (roots : List Hash) : Hash → Prop where
  | root {h : Hash} : h ∈ roots → Desc E roots h
  | next {h c : Hash} {e : Entry} : Desc E roots h → get? E h = some e → c ∈ e.next → Desc E roots c

theorem diffPush_mem (EB : List Entry) : ∀ (cs : List Hash) (st : List Hash × List Hash) (x : Hash),
    x ∈ (cs.foldl (fun (st : List Hash × List Hash) c =>
      if !st.2.contains c && !has EB c then (st.1 ++ [c], c :: st.2) else st) st).1 → x ∈ st.1 ∨ x ∈ cs
  | [], st, x, h => Or.inl h
  | c :: cs, st, x, h => by
    simp only [List.foldl_cons] at h
    have ih := diffPush_mem EB cs _ x h
    rcases ih with h1 | h1
    · split at h1
      · simp only [List.mem_append, List.mem_singleton] at h1
        rcases h1 with h2 | h2
        · exact Or.inl h2
        · exact Or.inr (by simp [h2])
      · exact Or.inl h1
    · exact Or.inr (by simp [h1])

/-- everything `difference` returns was found in `EA` under a hash reachable from the given heads,
    and is not yet in the destination -/
def DiffOK (EA EB : List Entry) (roots : List Hash) (x : Entry) : Prop :=
  ∃ h, Desc EA roots h ∧ get? EA h = some x ∧ h ∉ hashes EB

theorem diffLoop_sound (EA EB : List Entry) (idB : Bytes) (roots : List Hash) :
    ∀ (fuel : Nat) (stack trav : List Hash) (res : List Entry),
      (∀ h ∈ stack, Desc EA roots h) → (∀ x ∈ res, DiffOK EA EB roots x) →
      ∀ x ∈ diffLoop EA EB idB fuel stack trav res, DiffOK EA EB roots x
  | 0, _, _, res, _, hr => by simpa [diffLoop] using hr
  | _ + 1, [], _, res, _, hr => by simpa [diffLoop] using hr
  | fuel + 1, h :: stack, trav, res, hs, hr => by
    have hsT : ∀ h' ∈ stack, Desc EA roots h' := fun h' hm => hs h' (by simp [hm])
    have hh : Desc EA roots h := hs h (by simp)
    unfold diffLoop
    split
    · rename_i eA hg
      split
      · rename_i hc
        apply diffLoop_sound EA EB idB roots fuel
        · intro h' hm
          rcases diffPush_mem EB eA.next _ h' hm with h1 | h1
          · exact hsT h' h1
          · exact .next hh hg h1
        · intro x hx
          rcases mem_omSet.mp hx with h1 | ⟨h1, _⟩
          · exact hr x h1
          · subst h1
            have hb : has EB h = false := by
              simp only [Bool.and_eq_true, Bool.not_eq_true'] at hc; exact hc.1
            exact ⟨h, hh, hg, has_false_iff.mp hb⟩
      · exact diffLoop_sound EA EB idB roots fuel stack trav res hsT hr
    · exact diffLoop_sound EA EB idB roots fuel stack trav res hsT hr

theorem difference_sound {EA HA : List Entry} {l : Log} {x : Entry} (hx : x ∈ difference EA HA l) :
    DiffOK EA l.entries (hashes HA) x := by
  unfold difference at hx
  split at hx
  · cases hx
  · exact diffLoop_sound EA l.entries l.id (hashes HA) _ _ [] [] (fun h hm => .root hm) (fun _ hm => by cases hm) x hx

/-- causally closed: every named predecessor is an entry -/
def Closed (E : List Entry) : Prop := ∀ e ∈ E, ∀ c ∈ e.next, c ∈ hashes E

/-- reachability inside a larger, consistent entry set stays inside a closed subset that contains
    the roots — and finds the very same entries -/
theorem desc_in_closed {EA E1 : List Entry} {roots : List Hash} (hn : NodupH EA)
    (hsub : ∀ e ∈ E1, e ∈ EA) (hcl : Closed E1) (hroots : ∀ r ∈ roots, r ∈ hashes E1) {h : Hash}
    (hd : Desc EA roots h) : h ∈ hashes E1 := by
  induction hd with
  | root hr => exact hroots _ hr
  | @next h' c e _ hg hc ih =>
    obtain ⟨y, hy, hyh⟩ := List.mem_map.mp ih
    have := get?_of_mem hn (hsub y hy)
    rw [hyh, hg] at this
    injection this with this
    subst this
    exact hcl _ hy c hc

theorem get?_in_sub {EA E1 : List Entry} (hn : NodupH EA) (hsub : ∀ e ∈ E1, e ∈ EA) {h : Hash} {x : Entry}
    (hh : h ∈ hashes E1) (hg : get? EA h = some x) : x ∈ E1 := by
  obtain ⟨y, hy, hyh⟩ := List.mem_map.mp hh
  have := get?_of_mem hn (hsub y hy)
  rw [hyh, hg] at this
  injection this with this
  subst this; exact hy

/-- the entries a merge can add when the source's heads were read in state 1 (`E1`, heads `H1`)
    and its entries later (`E2 ⊇ E1`): only entries of state 1 -/
theorem difference_in_snapshot {E1 E2 H1 : List Entry} {l : Log} (hn : NodupH E2)
    (hsub : ∀ e ∈ E1, e ∈ E2) (hcl : Closed E1) (hheads : ∀ x ∈ H1, x ∈ E1) {x : Entry}
    (hx : x ∈ difference E2 H1 l) : x ∈ E1 ∧ x.hash ∉ hashes l.entries := by
  obtain ⟨h, hd, hg, hnb⟩ := difference_sound hx
  have hroots : ∀ r ∈ hashes H1, r ∈ hashes E1 := by
    intro r hr
    obtain ⟨y, hy, hyr⟩ := List.mem_map.mp hr
    exact List.mem_map.mpr ⟨y, hheads y hy, hyr⟩
  have hh := desc_in_closed hn hsub hcl hroots hd
  refine ⟨get?_in_sub hn hsub hh hg, ?_⟩
  rw [(get?_some hg).2]; exact hnb


/-! ## `Join` on the entry set -/

theorem join_ok_entries {l l' : Log} {oid : Bytes} {E H : List Entry} {size : Int} {valid : Entry → Bool}
    (hs : ¬ size > -1) (hj : join l oid E H size valid = .ok l') :
    l'.entries = l.entries ∨ (l.id = oid ∧ l'.entries = (difference E H l).foldl omSet l.entries) := by
  unfold join at hj
  split at hj
  · injection hj with hj; subst hj; exact Or.inl rfl
  · rename_i hid
    split at hj
    · cases hj
    · injection hj with hj; subst hj
      refine Or.inr ⟨by simpa using hid, ?_⟩
      show (joinTrim (joinMerge l E H) size).entries = _
      unfold joinTrim
      simp only [hs, if_false]
      rfl

theorem join_grows {l l' : Log} {oid : Bytes} {E H : List Entry} {size : Int} {valid : Entry → Bool}
    (hs : ¬ size > -1) (hj : join l oid E H size valid = .ok l') : ∀ x ∈ l.entries, x ∈ l'.entries := by
  intro x hx
  rcases join_ok_entries hs hj with h | ⟨_, h⟩
  · rw [h]; exact hx
  · rw [h]; exact sub_foldl_omSet _ _ hx

theorem join_from {l l' : Log} {oid : Bytes} {E H : List Entry} {size : Int} {valid : Entry → Bool}
    (hs : ¬ size > -1) (hj : join l oid E H size valid = .ok l') :
    ∀ x ∈ l'.entries, x ∈ l.entries ∨ x ∈ difference E H l := by
  intro x hx
  rcases join_ok_entries hs hj with h | ⟨_, h⟩
  · rw [h] at hx; exact Or.inl hx
  · rw [h] at hx; exact mem_foldl_omSet _ _ hx

theorem join_nodupH {l l' : Log} {oid : Bytes} {E H : List Entry} {size : Int} {valid : Entry → Bool}
    (hn : NodupH l.entries) (hj : join l oid E H size valid = .ok l') : NodupH l'.entries := by
  unfold join at hj
  split at hj
  · injection hj with hj; subst hj; exact hn
  · split at hj
    · cases hj
    · injection hj with hj; subst hj
      show NodupH (joinTrim (joinMerge l E H) size).entries
      unfold joinTrim
      split
      · exact nodupH_omFromList _
      · exact nodupH_foldl_omSet _ _ hn

end Model
