import Proofs.OMap
import Model.Spec
/-!
# Proofs.Inv — the structural invariant of a replica, `findHeads`, and "every entry lies below a head"
-/
namespace Model

/-- some entry of `E` names `h` as a predecessor -/
def namedBy (E : List Entry) (h : Hash) : Prop := ∃ e ∈ E, h ∈ e.next

/-- The invariant of a replica reached by appends and unbounded joins.  `U` is the universe of all
    entries ever created (one per hash: content addressing). -/
structure Inv (U : List Entry) (l : Log) : Prop where
  inU : ∀ e ∈ l.entries, e ∈ U
  nodup : (hashes l.entries).Nodup
  closed : ∀ e ∈ l.entries, ∀ n ∈ e.next, has l.entries n = true
  mono : ∀ e ∈ l.entries, ∀ c ∈ e.next, ∀ p, get? l.entries c = some p → p.clock.time < e.clock.time
  headsIn : ∀ h ∈ l.heads, h ∈ l.entries
  headsNodup : (hashes l.heads).Nodup
  headsSpec : ∀ e ∈ l.entries, ¬ namedBy l.entries e.hash → e ∈ l.heads
  headsUnref : ∀ h ∈ l.heads, ¬ namedBy l.entries h.hash
  nextIdx : ∀ h, h ∈ l.nextIdx ↔ namedBy l.entries h
  logId : ∀ e ∈ l.entries, e.logId = l.id

theorem referenced_iff {E : List Entry} {h : Hash} : referenced E h = true ↔ namedBy E h := by
  unfold referenced namedBy
  rw [List.any_eq_true]
  constructor
  · rintro ⟨e, he, hc⟩; exact ⟨e, he, by simpa using hc⟩
  · rintro ⟨e, he, hc⟩; exact ⟨e, he, by simpa using hc⟩

/-! ## findHeads -/

theorem mem_foldl_next (E : List Entry) : ∀ (init : List Hash) (h : Hash),
    h ∈ E.foldl (fun acc e => acc ++ e.next) init ↔ h ∈ init ∨ namedBy E h := by
  induction E with
  | nil => intro init h; simp [namedBy]
  | cons x xs ih =>
    intro init h
    rw [List.foldl_cons, ih]
    simp only [List.mem_append, namedBy, List.mem_cons]
    constructor
    · rintro ((h1 | h1) | ⟨e, he, hc⟩)
      · exact Or.inl h1
      · exact Or.inr ⟨x, Or.inl rfl, h1⟩
      · exact Or.inr ⟨e, Or.inr he, hc⟩
    · rintro (h1 | ⟨e, he | he, hc⟩)
      · exact Or.inl (Or.inl h1)
      · subst he; exact Or.inl (Or.inr hc)
      · exact Or.inr ⟨e, he, hc⟩

theorem mem_findHeads {E : List Entry} {x : Entry} : x ∈ findHeads E ↔ x ∈ E ∧ ¬ namedBy E x.hash := by
  unfold findHeads
  rw [mem_goSort, List.mem_filter]
  constructor
  · rintro ⟨hx, hn⟩
    refine ⟨hx, ?_⟩
    intro hnamed
    have : x.hash ∈ E.foldl (fun acc e => acc ++ e.next) [] := (mem_foldl_next E [] x.hash).mpr (Or.inr hnamed)
    have hc : (E.foldl (fun acc e => acc ++ e.next) []).contains x.hash = true := List.contains_iff_mem.mpr this
    rw [hc] at hn; cases hn
  · rintro ⟨hx, hn⟩
    refine ⟨hx, ?_⟩
    have : x.hash ∉ E.foldl (fun acc e => acc ++ e.next) [] := by
      intro hm
      rcases (mem_foldl_next E [] x.hash).mp hm with h1 | h1
      · cases h1
      · exact hn h1
    have hc : (E.foldl (fun acc e => acc ++ e.next) []).contains x.hash = false := by
      rw [Bool.eq_false_iff]; intro h; exact this (List.contains_iff_mem.mp h)
    rw [hc]; rfl

theorem findHeads_perm_filter (E : List Entry) :
    (findHeads E).Perm (E.filter (fun e => !(E.foldl (fun acc e => acc ++ e.next) []).contains e.hash)) := by
  unfold findHeads; exact goSort_perm _ _

theorem findHeads_nodup {E : List Entry} (hnd : (hashes E).Nodup) : (hashes (findHeads E)).Nodup := by
  have hp := findHeads_perm_filter E
  have h1 : (hashes (E.filter (fun e => !(E.foldl (fun acc e => acc ++ e.next) []).contains e.hash))).Nodup := by
    unfold hashes at *
    exact (List.Sublist.map _ (List.filter_sublist)).nodup hnd
  unfold hashes at *
  exact (hp.map _).nodup_iff.mpr h1

/-! ## times -/

theorem le_maxTime (l : List Entry) : ∀ (d : Int) (e : Entry), e ∈ l → e.clock.time ≤ maxTime l d := by
  unfold maxTime
  induction l with
  | nil => intro d e he; cases he
  | cons x xs ih =>
    intro d e he
    rw [List.foldl_cons]
    cases he with
    | head =>
      have : ∀ (l : List Entry) (m : Int), m ≤ l.foldl (fun m e => max e.clock.time m) m := by
        intro l
        induction l with
        | nil => intro m; exact Int.le_refl _
        | cons y ys ih2 => intro m; rw [List.foldl_cons]; exact Int.le_trans (Int.le_max_right _ _) (ih2 _)
      exact Int.le_trans (Int.le_max_left _ _) (this xs _)
    | tail _ hm => exact ih _ e hm

theorem maxTime_ge_default (l : List Entry) : ∀ (d : Int), d ≤ maxTime l d := by
  unfold maxTime
  induction l with
  | nil => intro d; exact Int.le_refl _
  | cons y ys ih => intro d; rw [List.foldl_cons]; exact Int.le_trans (Int.le_max_right _ _) (ih _)

theorem maxTime_cases (l : List Entry) : ∀ (d : Int), maxTime l d = d ∨ ∃ e ∈ l, maxTime l d = e.clock.time := by
  unfold maxTime
  induction l with
  | nil => intro d; exact Or.inl rfl
  | cons y ys ih =>
    intro d
    rw [List.foldl_cons]
    rcases ih (max y.clock.time d) with h | ⟨e, he, h⟩
    · rw [h]
      by_cases hc : y.clock.time ≤ d
      · left; exact Int.max_eq_right hc
      · right; exact ⟨y, by simp, Int.max_eq_left (by omega)⟩
    · right; exact ⟨e, List.mem_cons_of_mem _ he, h⟩

/-! ## every entry lies below some head -/

/-- `Desc E a b`: `b` is reachable from `a` along `next` links resolved inside `E` -/
inductive Desc (E : List Entry) : Entry → Entry → Prop
  | refl (a : Entry) : a ∈ E → Desc E a a
  | step {a b p : Entry} {c : Hash} : Desc E a b → c ∈ b.next → get? E c = some p → Desc E a p

theorem Desc.mem_right {E : List Entry} {a b : Entry} (h : Desc E a b) : b ∈ E := by
  induction h with
  | refl ha => exact ha
  | step _ _ hg _ => exact (get?_mem hg).1

theorem Desc.mem_left {E : List Entry} {a b : Entry} (h : Desc E a b) : a ∈ E := by
  induction h with
  | refl ha => exact ha
  | step _ _ _ ih => exact ih

theorem below_head_aux {U : List Entry} {l : Log} (I : Inv U l) (T : Int)
    (hT : ∀ e ∈ l.entries, e.clock.time ≤ T) :
    ∀ (n : Nat) (e : Entry), e ∈ l.entries → (T - e.clock.time).toNat ≤ n → ∃ h ∈ l.heads, Desc l.entries h e := by
  intro n
  induction n with
  | zero =>
    intro e he hn
    by_cases hnamed : namedBy l.entries e.hash
    · obtain ⟨e', he', hc⟩ := hnamed
      have hg : get? l.entries e.hash = some e := get?_eq_of_mem I.nodup he
      have := I.mono e' he' e.hash hc e hg
      have := hT e' he'
      omega
    · exact ⟨e, I.headsSpec e he hnamed, Desc.refl e he⟩
  | succ n ih =>
    intro e he hn
    by_cases hnamed : namedBy l.entries e.hash
    · obtain ⟨e', he', hc⟩ := hnamed
      have hg : get? l.entries e.hash = some e := get?_eq_of_mem I.nodup he
      have hlt := I.mono e' he' e.hash hc e hg
      have hT' := hT e' he'
      obtain ⟨h, hh, hd⟩ := ih e' he' (by omega)
      exact ⟨h, hh, Desc.step hd hc hg⟩
    · exact ⟨e, I.headsSpec e he hnamed, Desc.refl e he⟩

/-- In a replica satisfying `Inv`, every entry is reachable from some head along `next`. -/
theorem every_entry_below_some_head {U : List Entry} {l : Log} (I : Inv U l) (e : Entry) (he : e ∈ l.entries) :
    ∃ h ∈ l.heads, Desc l.entries h e :=
  below_head_aux I (maxTime l.entries 0) (fun x hx => le_maxTime l.entries 0 x hx) _ e he (Nat.le_refl _)

/-- times do not increase along `Desc` -/
theorem Desc.time_le {U : List Entry} {l : Log} (I : Inv U l) {a b : Entry} (h : Desc l.entries a b) :
    b.clock.time ≤ a.clock.time := by
  induction h with
  | refl _ => exact Int.le_refl _
  | step hd hc hg ih =>
    have := I.mono _ hd.mem_right _ hc _ hg
    omega

/-- a non-empty log has a head -/
theorem heads_nonempty {U : List Entry} {l : Log} (I : Inv U l) (hne : l.entries ≠ []) : l.heads ≠ [] := by
  cases hE : l.entries with
  | nil => exact absurd hE hne
  | cons e es =>
    obtain ⟨h, hh, _⟩ := every_entry_below_some_head I e (by rw [hE]; simp)
    intro hnil
    rw [hnil] at hh; cases hh

/-- every entry's time is at most the maximum over the heads -/
theorem time_le_maxTime_heads {U : List Entry} {l : Log} (I : Inv U l) (e : Entry) (he : e ∈ l.entries) (d : Int) :
    e.clock.time ≤ maxTime l.heads d := by
  obtain ⟨h, hh, hd⟩ := every_entry_below_some_head I e he
  exact Int.le_trans (hd.time_le I) (le_maxTime l.heads d h hh)

end Model
