import Proofs.Iterator
/-!
# Proofs.TraverseG — `IPFSLog.traverse` from ARBITRARY roots, with an amount and with an end hash

`Proofs/Traverse.lean` treats the unbounded traversal from unreferenced roots (the heads).  The
iterator starts the same loop from any entries of the log: they may be referenced by other entries
and may be causally related to each other.  The code does not mark the roots as traversed, so a
root that is also reached as a predecessor of another root is pushed a second time; the second pop
emits nothing (`Set` keeps the first) but increments `count`.  Hence

* the stack is only sorted non-strictly (`lt a b = true ∨ a = b`), `goSort_sortedW`;
* the worklist invariant `GInv` has no `Nodup`/disjointness clause for the stack;
* the fuel argument counts `stack.length + number of unmk entries of E`.

Main results: `traverse_general`, `traverse_endHash`, `traverse_amount`, `traverse_amount_take`,
`traverseG_prefix`.
-/
namespace Model

/-! ## insertion sort on lists with repetitions -/

section SortW
variable {α : Type}

theorem insRev_sortedW {lt : α → α → Bool} {S : α → Prop} (h : STO lt S) (x : α) (hx : S x) :
    ∀ (l : List α), (∀ a ∈ l, S a) → l.Pairwise (fun a b => lt b a = true ∨ b = a) →
      (insRev lt x l).Pairwise (fun a b => lt b a = true ∨ b = a)
  | [], _, _ => by simp [insRev]
  | y :: ys, hS, hp => by
    have hy : S y := hS y (by simp)
    unfold insRev
    split
    · rename_i hlt
      have ih := insRev_sortedW h x hx ys (fun a ha => hS a (by simp [ha])) (List.Pairwise.of_cons hp)
      refine List.Pairwise.cons ?_ ih
      intro a ha
      have : a ∈ x :: ys := (insRev_perm lt x ys).mem_iff.mp ha
      cases this with
      | head => exact Or.inl hlt
      | tail _ hm => exact (List.pairwise_cons.mp hp).1 a hm
    · rename_i hlt
      have hyx : lt y x = true ∨ y = x := by
        by_cases hxy : x = y
        · exact Or.inr hxy.symm
        · cases h.total x y hx hy hxy with
          | inl h1 => exact absurd h1 hlt
          | inr h2 => exact Or.inl h2
      refine List.Pairwise.cons ?_ hp
      intro a ha
      cases ha with
      | head => exact hyx
      | tail _ hm =>
        have hay : lt a y = true ∨ a = y := (List.pairwise_cons.mp hp).1 a hm
        have haS : S a := hS a (List.mem_cons_of_mem _ hm)
        rcases hay with hay | hay
        · rcases hyx with hyx | hyx
          · exact Or.inl (h.trans a y x haS hy hx hay hyx)
          · exact Or.inl (hyx ▸ hay)
        · rcases hyx with hyx | hyx
          · exact Or.inl (hay ▸ hyx)
          · exact Or.inr (hay.trans hyx)

theorem isortRev_sortedW {lt : α → α → Bool} {S : α → Prop} (h : STO lt S) :
    ∀ (l acc : List α), (∀ a ∈ l, S a) → (∀ a ∈ acc, S a) →
      acc.Pairwise (fun a b => lt b a = true ∨ b = a) →
      (isortRev lt acc l).Pairwise (fun a b => lt b a = true ∨ b = a)
  | [], acc, _, _, hp => by simp [isortRev]; exact hp
  | x :: xs, acc, hl, hacc, hp => by
    unfold isortRev
    have hx : S x := hl x (by simp)
    apply isortRev_sortedW h xs (insRev lt x acc) (fun a ha => hl a (by simp [ha]))
    · intro a ha
      have : a ∈ x :: acc := (insRev_perm lt x acc).mem_iff.mp ha
      cases this with
      | head => exact hx
      | tail _ hm => exact hacc a hm
    · exact insRev_sortedW h x hx acc hacc hp

/-- Go's insertion sort on a list that may contain an element more than once: the result is
    sorted non-strictly -/
theorem goSort_sortedW {lt : α → α → Bool} {S : α → Prop} (h : STO lt S) (l : List α)
    (hS : ∀ a ∈ l, S a) : (goSort lt l).Pairwise (fun a b => lt a b = true ∨ a = b) := by
  unfold goSort
  rw [List.pairwise_reverse]
  exact isortRev_sortedW h l [] hS (by simp) List.Pairwise.nil

end SortW

/-! ## small list facts -/

theorem takeWhile_all {α : Type} {p : α → Bool} : ∀ {l : List α}, (∀ r ∈ l, p r = true) → l.takeWhile p = l
  | [], _ => rfl
  | x :: xs, h => by
    rw [List.takeWhile_cons, if_pos (h x (by simp)), takeWhile_all (fun r hr => h r (List.mem_cons_of_mem _ hr))]

theorem takeWhile_append_stop {α : Type} {p : α → Bool} {x : α} {t : List α} :
    ∀ {l : List α}, (∀ r ∈ l, p r = true) → p x = false → (l ++ x :: t).takeWhile p = l
  | [], _, hx => by simp [hx]
  | y :: ys, h, hx => by
    rw [List.cons_append, List.takeWhile_cons, if_pos (h y (by simp)),
      takeWhile_append_stop (fun r hr => h r (List.mem_cons_of_mem _ hr)) hx]

theorem find?_all_false {α : Type} {q : α → Bool} : ∀ {l : List α}, (∀ r ∈ l, q r = false) → l.find? q = none
  | [], _ => rfl
  | x :: xs, h => by
    rw [List.find?_cons, h x (by simp)]
    exact find?_all_false (fun r hr => h r (List.mem_cons_of_mem _ hr))

theorem find?_append_hit {α : Type} {q : α → Bool} {x : α} {t : List α} :
    ∀ {l : List α}, (∀ r ∈ l, q r = false) → q x = true → (l ++ x :: t).find? q = some x
  | [], _, hx => by simp [hx]
  | y :: ys, h, hx => by
    rw [List.cons_append, List.find?_cons, h y (by simp)]
    exact find?_append_hit (fun r hr => h r (List.mem_cons_of_mem _ hr)) hx

/-! ## the loop body, named -/

/-- result of the inner loop when `e` has just been popped -/
def nxt (E : List Entry) (e : Entry) (rest : List Entry) (trav : List Hash) : List Entry × List Hash × Bool :=
  pushNexts E e.next (rest, e.hash :: trav, false)

/-- the stack after the body (re-sorted when something was pushed) -/
def nxtStack (E : List Entry) (lt : Entry → Entry → Bool) (e : Entry) (rest : List Entry) (trav : List Hash) :
    List Entry :=
  if (nxt E e rest trav).2.2 then goSort lt (nxt E e rest trav).1 else (nxt E e rest trav).1

theorem travLoop_cons (E : List Entry) (lt : Entry → Entry → Bool) (amount : Int) (eh : Option Hash)
    (fuel : Nat) (e : Entry) (rest : List Entry) (trav : List Hash) (res : List Entry) (count : Int) :
    travLoop E lt amount eh (fuel + 1) (e :: rest) trav res count =
      if amount < 0 ∨ count < amount then
        if eh = some e.hash then omSet res e
        else travLoop E lt amount eh fuel (nxtStack E lt e rest trav) (nxt E e rest trav).2.1 (omSet res e) (count + 1)
      else res := rfl

theorem travLoop_unb_cons (E : List Entry) (lt : Entry → Entry → Bool)
    (fuel : Nat) (e : Entry) (rest : List Entry) (trav : List Hash) (res : List Entry) (count : Int) :
    travLoop E lt (-1) none (fuel + 1) (e :: rest) trav res count =
      travLoop E lt (-1) none fuel (nxtStack E lt e rest trav) (nxt E e rest trav).2.1 (omSet res e) (count + 1) := by
  rw [travLoop_cons]
  simp only [show ((-1 : Int) < 0 ∨ count < -1) = True from by simp, if_true]
  simp only [show (none = some e.hash) = False from by simp, if_false]

theorem travLoop_nil (E : List Entry) (lt : Entry → Entry → Bool) (amount : Int) (eh : Option Hash)
    (fuel : Nat) (trav : List Hash) (res : List Entry) (count : Int) :
    travLoop E lt amount eh fuel [] trav res count = res := by
  cases fuel <;> rfl

theorem travLoop_zero (E : List Entry) (lt : Entry → Entry → Bool) (amount : Int) (eh : Option Hash)
    (stack : List Entry) (trav : List Hash) (res : List Entry) (count : Int) :
    travLoop E lt amount eh 0 stack trav res count = res := rfl

theorem omSet_extends (res : List Entry) (e : Entry) : ∃ t, omSet res e = res ++ t := by
  unfold omSet
  split
  · exact ⟨[], by simp⟩
  · exact ⟨[e], rfl⟩

/-- the loop only ever appends to the result -/
theorem travLoop_extends (E : List Entry) (lt : Entry → Entry → Bool) (amount : Int) (eh : Option Hash) :
    ∀ (fuel : Nat) (stack : List Entry) (trav : List Hash) (res : List Entry) (count : Int),
      ∃ t, travLoop E lt amount eh fuel stack trav res count = res ++ t
  | 0, _, _, res, _ => ⟨[], by simp [travLoop_zero]⟩
  | _ + 1, [], _, res, _ => ⟨[], by simp [travLoop_nil]⟩
  | fuel + 1, e :: rest, trav, res, count => by
    rw [travLoop_cons]
    obtain ⟨t1, h1⟩ := omSet_extends res e
    split
    · split
      · exact ⟨t1, h1⟩
      · obtain ⟨t2, h2⟩ := travLoop_extends E lt amount eh fuel (nxtStack E lt e rest trav)
          (nxt E e rest trav).2.1 (omSet res e) (count + 1)
        exact ⟨t1 ++ t2, by rw [h2, h1, List.append_assoc]⟩
    · exact ⟨[], by simp⟩

/-- whatever the amount and the end hash, the loop returns a prefix of what the unbounded loop
    returns from the same state -/
theorem travLoop_prefix (E : List Entry) (lt : Entry → Entry → Bool) (amount : Int) (eh : Option Hash) :
    ∀ (fuel : Nat) (stack : List Entry) (trav : List Hash) (res : List Entry) (count : Int),
      ∃ t, travLoop E lt (-1) none fuel stack trav res count =
        travLoop E lt amount eh fuel stack trav res count ++ t
  | 0, _, _, res, _ => ⟨[], by simp [travLoop_zero]⟩
  | _ + 1, [], _, res, _ => ⟨[], by simp [travLoop_nil]⟩
  | fuel + 1, e :: rest, trav, res, count => by
    rw [travLoop_unb_cons, travLoop_cons]
    split
    · split
      · exact travLoop_extends E lt (-1) none fuel _ _ _ _
      · exact travLoop_prefix E lt amount eh fuel _ _ _ _
    · obtain ⟨t1, h1⟩ := omSet_extends res e
      obtain ⟨t2, h2⟩ := travLoop_extends E lt (-1) none fuel (nxtStack E lt e rest trav)
          (nxt E e rest trav).2.1 (omSet res e) (count + 1)
      exact ⟨t1 ++ t2, by rw [h2, h1, List.append_assoc]⟩

/-- `traverse(roots, amount, endHash)` always returns a prefix of the unbounded traversal -/
theorem traverseG_prefix (E : List Entry) (lt : Entry → Entry → Bool) (roots : List Entry) (amount : Int)
    (eh : Option Hash) : ∃ t, traverseG E lt roots (-1) none = traverseG E lt roots amount eh ++ t :=
  travLoop_prefix E lt amount eh _ _ _ _ _

/-! ## the end hash: the traversal stops right after emitting it -/

theorem travLoop_endHash (E : List Entry) (lt : Entry → Entry → Bool) (g : Hash) :
    ∀ (fuel : Nat) (stack : List Entry) (trav : List Hash) (res : List Entry) (count : Int),
      (∀ r ∈ res, r.hash ≠ g) →
      travLoop E lt (-1) (some g) fuel stack trav res count =
        (travLoop E lt (-1) none fuel stack trav res count).takeWhile (fun e => e.hash != g) ++
        ((travLoop E lt (-1) none fuel stack trav res count).find? (fun e => e.hash == g)).toList
  | 0, _, _, res, _, h => by
    simp only [travLoop_zero]
    rw [takeWhile_all (fun r hr => by simpa using h r hr), find?_all_false (fun r hr => by simpa using h r hr)]
    simp
  | _ + 1, [], _, res, _, h => by
    simp only [travLoop_nil]
    rw [takeWhile_all (fun r hr => by simpa using h r hr), find?_all_false (fun r hr => by simpa using h r hr)]
    simp
  | fuel + 1, e :: rest, trav, res, count, h => by
    rw [travLoop_unb_cons, travLoop_cons]
    simp only [show ((-1 : Int) < 0 ∨ count < -1) = True from by simp, if_true]
    by_cases heg : e.hash = g
    · have hhas : has res e.hash = false := has_false_iff.mpr (fun r hr => heg ▸ h r hr)
      rw [if_pos (by rw [heg]), omSet_of_not_has hhas]
      obtain ⟨t, ht⟩ := travLoop_extends E lt (-1) none fuel (nxtStack E lt e rest trav)
          (nxt E e rest trav).2.1 (res ++ [e]) (count + 1)
      rw [ht, List.append_assoc, List.singleton_append,
        takeWhile_append_stop (fun r hr => by simpa using h r hr) (by simpa using heg),
        find?_append_hit (fun r hr => by simpa using h r hr) (by simpa using heg)]
      rfl
    · rw [if_neg (by intro hh; exact heg (Option.some.inj hh).symm)]
      apply travLoop_endHash E lt g fuel
      intro r hr
      rcases mem_omSet.mp hr with h1 | ⟨h1, _⟩
      · exact h r h1
      · rw [h1]; exact heg

/-! ## the measure: stack length + unmk entries -/

def unmk : List Entry → List Hash → Nat
  | [], _ => 0
  | x :: xs, trav => (if x.hash ∈ trav then 0 else 1) + unmk xs trav

theorem unmk_le_length : ∀ (l : List Entry) (trav : List Hash), unmk l trav ≤ l.length
  | [], _ => Nat.le_refl _
  | x :: xs, trav => by
    have := unmk_le_length xs trav
    unfold unmk
    split <;> simp <;> omega

theorem unmk_cons_le (h : Hash) (trav : List Hash) : ∀ (l : List Entry), unmk l (h :: trav) ≤ unmk l trav
  | [] => Nat.le_refl _
  | y :: ys => by
    have ih := unmk_cons_le h trav ys
    unfold unmk
    by_cases h1 : y.hash ∈ trav
    · have h2 : y.hash ∈ h :: trav := List.mem_cons_of_mem _ h1
      rw [if_pos h1, if_pos h2]; omega
    · by_cases h2 : y.hash ∈ h :: trav
      · rw [if_neg h1, if_pos h2]; omega
      · rw [if_neg h1, if_neg h2]; omega

theorem unmk_cons_lt {n : Entry} {trav : List Hash} (hn : n.hash ∉ trav) :
    ∀ {l : List Entry}, n ∈ l → unmk l (n.hash :: trav) < unmk l trav
  | [], h => by cases h
  | y :: ys, h => by
    have hle := unmk_cons_le n.hash trav ys
    unfold unmk
    by_cases hy : y.hash = n.hash
    · have h2 : y.hash ∈ n.hash :: trav := by rw [hy]; exact List.mem_cons_self
      have h1 : y.hash ∉ trav := by rw [hy]; exact hn
      rw [if_neg h1, if_pos h2]; omega
    · have hm : n ∈ ys := by
        rcases List.mem_cons.mp h with h | h
        · exact absurd (by rw [h]) hy
        · exact h
      have ih := unmk_cons_lt hn hm
      by_cases h1 : y.hash ∈ trav
      · have h2 : y.hash ∈ n.hash :: trav := List.mem_cons_of_mem _ h1
        rw [if_pos h1, if_pos h2]; omega
      · have h2 : y.hash ∉ n.hash :: trav := by
          intro hh
          rcases List.mem_cons.mp hh with hh | hh
          · exact hy hh
          · exact h1 hh
        rw [if_neg h1, if_neg h2]; omega

theorem pushNexts_measure (E : List Entry) : ∀ (cs : List Hash) (s : List Entry × List Hash × Bool),
    (pushNexts E cs s).1.length + unmk E (pushNexts E cs s).2.1 ≤ s.1.length + unmk E s.2.1
  | [], s => Nat.le_refl _
  | c :: cs, (stack, trav, m) => by
    unfold pushNexts
    split
    · exact pushNexts_measure E cs _
    · rename_i n hg
      split
      · exact pushNexts_measure E cs _
      · rename_i hcont
        have hnt : n.hash ∉ trav := by simpa using hcont
        have := pushNexts_measure E cs (n :: stack, n.hash :: trav, true)
        have hlt := unmk_cons_lt hnt (get?_mem hg).1
        simp only [List.length_cons] at this ⊢
        omega

/-! ## the inner loop -/

/-- what the inner loop establishes; `e` is the entry whose `next` is being processed -/
structure PInvG (E : List Entry) (e : Entry) (stack0 : List Entry) (trav0 : List Hash)
    (s : List Entry × List Hash × Bool) : Prop where
  newSucc : ∀ x ∈ s.1, x ∈ stack0 ∨ (∃ c ∈ e.next, get? E c = some x)
  keepSt : ∀ x ∈ stack0, x ∈ s.1
  keepTr : ∀ h ∈ trav0, h ∈ s.2.1
  trOnly : ∀ h ∈ s.2.1, h ∈ trav0 ∨ ∃ x ∈ s.1, x.hash = h
  marked : ∀ x ∈ s.1, x ∈ stack0 ∨ x.hash ∈ s.2.1
  fresh : ∀ x ∈ s.1, x ∈ stack0 ∨ x.hash ∉ trav0
  unmod : s.2.2 = false → s.1 = stack0

theorem PInvG.init (E : List Entry) (e : Entry) (stack0 : List Entry) (trav0 : List Hash) :
    PInvG E e stack0 trav0 (stack0, trav0, false) where
  newSucc := fun _ hx => Or.inl hx
  keepSt := fun _ hx => hx
  keepTr := fun _ hh => hh
  trOnly := fun _ hh => Or.inl hh
  marked := fun _ hx => Or.inl hx
  fresh := fun _ hx => Or.inl hx
  unmod := fun _ => rfl

theorem pushNexts_specG (E : List Entry) (e : Entry) (stack0 : List Entry) (trav0 : List Hash) :
    ∀ (cs : List Hash), (∀ c ∈ cs, c ∈ e.next) → ∀ (s : List Entry × List Hash × Bool),
      PInvG E e stack0 trav0 s →
      PInvG E e stack0 trav0 (pushNexts E cs s) ∧
      (∀ c ∈ cs, ∀ p, get? E c = some p → p.hash ∈ (pushNexts E cs s).2.1) ∧
      (∀ h ∈ s.2.1, h ∈ (pushNexts E cs s).2.1)
  | [], _, s, hs => by
    simp only [pushNexts]
    exact ⟨hs, by simp, fun h hh => hh⟩
  | c :: cs, hcs, (stack, trav, m), hs => by
    have hcs' : ∀ c' ∈ cs, c' ∈ e.next := fun c' hc' => hcs c' (List.mem_cons_of_mem _ hc')
    unfold pushNexts
    split
    · rename_i hg
      obtain ⟨h1, h2, h3⟩ := pushNexts_specG E e stack0 trav0 cs hcs' (stack, trav, m) hs
      refine ⟨h1, ?_, h3⟩
      intro c' hc' p hp
      cases hc' with
      | head => rw [hg] at hp; cases hp
      | tail _ hm => exact h2 c' hm p hp
    · rename_i n hg
      split
      · rename_i hcont
        obtain ⟨h1, h2, h3⟩ := pushNexts_specG E e stack0 trav0 cs hcs' (stack, trav, m) hs
        refine ⟨h1, ?_, h3⟩
        intro c' hc' p hp
        cases hc' with
        | head =>
          rw [hg] at hp; cases hp
          exact h3 _ (by simpa using hcont)
        | tail _ hm => exact h2 c' hm p hp
      · rename_i hcont
        have hnt : n.hash ∉ trav := by simpa using hcont
        have hs' : PInvG E e stack0 trav0 (n :: stack, n.hash :: trav, true) := {
          newSucc := by
            intro x hx
            cases hx with
            | head => exact Or.inr ⟨c, hcs c (by simp), hg⟩
            | tail _ hm => exact hs.newSucc x hm
          keepSt := fun x hx => List.mem_cons_of_mem _ (hs.keepSt x hx)
          keepTr := fun h hh => List.mem_cons_of_mem _ (hs.keepTr h hh)
          trOnly := by
            intro h hh
            cases hh with
            | head => exact Or.inr ⟨n, by simp, rfl⟩
            | tail _ hm =>
              cases hs.trOnly h hm with
              | inl h0 => exact Or.inl h0
              | inr hx => obtain ⟨x, hx, hxh⟩ := hx; exact Or.inr ⟨x, List.mem_cons_of_mem _ hx, hxh⟩
          marked := by
            intro x hx
            cases hx with
            | head => exact Or.inr (by simp)
            | tail _ hm =>
              cases hs.marked x hm with
              | inl h0 => exact Or.inl h0
              | inr ht => exact Or.inr (List.mem_cons_of_mem _ ht)
          fresh := by
            intro x hx
            cases hx with
            | head => exact Or.inr (fun h0 => hnt (hs.keepTr _ h0))
            | tail _ hm => exact hs.fresh x hm
          unmod := by intro h; cases h }
        obtain ⟨h1, h2, h3⟩ := pushNexts_specG E e stack0 trav0 cs hcs' _ hs'
        refine ⟨h1, ?_, fun h hh => h3 h (List.mem_cons_of_mem _ hh)⟩
        intro c' hc' p hp
        cases hc' with
        | head =>
          rw [hg] at hp; cases hp
          exact h3 _ (by simp)
        | tail _ hm => exact h2 c' hm p hp

/-- the stack stays duplicate-free when no stacked unmarked entry is among the predecessors -/
theorem pushNexts_nodup (E : List Entry) : ∀ (cs : List Hash) (s : List Entry × List Hash × Bool),
    s.1.Nodup → (∀ x ∈ s.1, x.hash ∈ s.2.1 ∨ ∀ c ∈ cs, get? E c ≠ some x) → (pushNexts E cs s).1.Nodup
  | [], _, h, _ => h
  | c :: cs, (stack, trav, m), hnd, hx => by
    unfold pushNexts
    split
    · exact pushNexts_nodup E cs _ hnd (fun x hm => (hx x hm).imp id (fun h c' hc' => h c' (List.mem_cons_of_mem _ hc')))
    · rename_i n hg
      split
      · exact pushNexts_nodup E cs _ hnd (fun x hm => (hx x hm).imp id (fun h c' hc' => h c' (List.mem_cons_of_mem _ hc')))
      · rename_i hcont
        have hnt : n.hash ∉ trav := by simpa using hcont
        have hnst : n ∉ stack := by
          intro hm
          rcases hx n hm with h | h
          · exact hnt h
          · exact h c (by simp) hg
        apply pushNexts_nodup E cs _ (List.nodup_cons.mpr ⟨hnst, hnd⟩)
        intro x hm
        cases hm with
        | head => exact Or.inl (by simp)
        | tail _ hm' =>
          rcases hx x hm' with h | h
          · exact Or.inl (List.mem_cons_of_mem _ h)
          · exact Or.inr (fun c' hc' => h c' (List.mem_cons_of_mem _ hc'))

/-! ## the worklist invariant for arbitrary roots -/

/-- the context without the root clauses of `Ctx` -/
structure CtxG (E : List Entry) (lt : Entry → Entry → Bool) : Prop where
  nodupH : (E.map (·.hash)).Nodup
  sto : STO lt (· ∈ E)
  mono : ∀ e ∈ E, ∀ c ∈ e.next, ∀ p, get? E c = some p → lt e p = true

structure GInv (E : List Entry) (lt : Entry → Entry → Bool) (roots : List Entry)
    (stack : List Entry) (trav : List Hash) (res : List Entry) : Prop where
  stIn : ∀ s ∈ stack, s ∈ E
  resIn : ∀ r ∈ res, r ∈ E
  stSorted : stack.Pairwise (fun a b => lt a b = true ∨ a = b)
  resSorted : res.Pairwise (fun a b => lt a b = true)
  resAbove : ∀ r ∈ res, ∀ s ∈ stack, lt r s = true ∨ r = s
  travRes : ∀ r ∈ res, r.hash ∈ trav
  travSt : ∀ s ∈ stack, s ∈ roots ∨ s.hash ∈ trav
  travOnly : ∀ h ∈ trav, ∃ x, (x ∈ res ∨ x ∈ stack) ∧ x.hash = h
  resNodup : res.Nodup
  closedUpTo : ∀ r ∈ res, ∀ c ∈ r.next, ∀ p, get? E c = some p → p ∈ res ∨ p ∈ stack
  rootsCov : ∀ r ∈ roots, r ∈ res ∨ r ∈ stack
  sound : ∀ x, x ∈ res ∨ x ∈ stack → ∃ r ∈ roots, Desc E r x

theorem mem_nxtStack {E : List Entry} {lt : Entry → Entry → Bool} {e : Entry} {rest : List Entry} {trav : List Hash}
    {x : Entry} : x ∈ nxtStack E lt e rest trav ↔ x ∈ (nxt E e rest trav).1 := by
  unfold nxtStack
  split
  · exact mem_goSort
  · exact Iff.rfl

theorem length_nxtStack (E : List Entry) (lt : Entry → Entry → Bool) (e : Entry) (rest : List Entry) (trav : List Hash) :
    (nxtStack E lt e rest trav).length = (nxt E e rest trav).1.length := by
  unfold nxtStack
  split
  · exact (goSort_perm _ _).length_eq
  · rfl

/-- the popped entry is in the result afterwards, and nothing else is new -/
theorem mem_omSet_pop {E : List Entry} (hnd : (E.map (·.hash)).Nodup) {res : List Entry} {e : Entry}
    (hres : ∀ r ∈ res, r ∈ E) (he : e ∈ E) (x : Entry) : x ∈ omSet res e ↔ x ∈ res ∨ x = e := by
  rw [mem_omSet]
  constructor
  · rintro (h | ⟨h, _⟩)
    · exact Or.inl h
    · exact Or.inr h
  · rintro (h | h)
    · exact Or.inl h
    · cases hh : has res e.hash with
      | false => exact Or.inr ⟨h, rfl⟩
      | true =>
        obtain ⟨y, hy, hyh⟩ := has_iff.mp hh
        have : y = e := hash_inj hnd (hres y hy) he hyh
        exact Or.inl (h ▸ this ▸ hy)

theorem omSet_pop_cases {E : List Entry} (hnd : (E.map (·.hash)).Nodup) {res : List Entry} {e : Entry}
    (hres : ∀ r ∈ res, r ∈ E) (he : e ∈ E) :
    (e ∈ res ∧ omSet res e = res) ∨ (e ∉ res ∧ omSet res e = res ++ [e]) := by
  cases hh : has res e.hash with
  | false =>
    refine Or.inr ⟨?_, omSet_of_not_has hh⟩
    intro hm
    rw [has_of_mem hm] at hh; cases hh
  | true =>
    obtain ⟨y, hy, hyh⟩ := has_iff.mp hh
    have : y = e := hash_inj hnd (hres y hy) he hyh
    exact Or.inl ⟨this ▸ hy, omSet_of_has hh⟩

/-- one iteration of the main loop preserves the invariant and decreases the measure -/
theorem step_invG {E : List Entry} {lt : Entry → Entry → Bool} {roots : List Entry} (C : CtxG E lt)
    {e : Entry} {rest : List Entry} {trav : List Hash} {res : List Entry}
    (I : GInv E lt roots (e :: rest) trav res) :
    GInv E lt roots (nxtStack E lt e rest trav) (nxt E e rest trav).2.1 (omSet res e) ∧
    (nxtStack E lt e rest trav).length + unmk E (nxt E e rest trav).2.1 < (e :: rest).length + unmk E trav := by
  have heE : e ∈ E := I.stIn e (by simp)
  have hrestIn : ∀ s ∈ rest, s ∈ E := fun s hs => I.stIn s (List.mem_cons_of_mem _ hs)
  have hspec : PInvG E e rest (e.hash :: trav) (nxt E e rest trav) ∧
      (∀ c ∈ e.next, ∀ p, get? E c = some p → p.hash ∈ (nxt E e rest trav).2.1) ∧
      (∀ h ∈ e.hash :: trav, h ∈ (nxt E e rest trav).2.1) :=
    pushNexts_specG E e rest (e.hash :: trav) e.next (fun c hc => hc) _ (PInvG.init E e rest (e.hash :: trav))
  obtain ⟨hP, hG, hK⟩ := hspec
  have hm := mem_omSet_pop C.nodupH I.resIn heE
  -- `r` is the state after the inner loop
  have hr1E : ∀ x ∈ (nxt E e rest trav).1, x ∈ E := by
    intro x hx
    cases hP.newSucc x hx with
    | inl h => exact hrestIn x h
    | inr h => obtain ⟨c, _, hg⟩ := h; exact (get?_mem hg).1
  have hEabove : ∀ x ∈ (nxt E e rest trav).1, lt e x = true ∨ e = x := by
    intro x hx
    cases hP.newSucc x hx with
    | inl h => exact (List.pairwise_cons.mp I.stSorted).1 x h
    | inr h => obtain ⟨c, hc, hg⟩ := h; exact Or.inl (C.mono e heE c hc x hg)
  have htravOnly : ∀ h ∈ (nxt E e rest trav).2.1,
      ∃ x, (x ∈ omSet res e ∨ x ∈ nxtStack E lt e rest trav) ∧ x.hash = h := by
    intro h hh
    cases hP.trOnly h hh with
    | inl h0 =>
      cases h0 with
      | head => exact ⟨e, Or.inl ((hm e).mpr (Or.inr rfl)), rfl⟩
      | tail _ hm' =>
        obtain ⟨x, hx, hxh⟩ := I.travOnly h hm'
        cases hx with
        | inl hr => exact ⟨x, Or.inl ((hm x).mpr (Or.inl hr)), hxh⟩
        | inr hs =>
          cases hs with
          | head => exact ⟨e, Or.inl ((hm e).mpr (Or.inr rfl)), hxh⟩
          | tail _ hm'' => exact ⟨x, Or.inr (mem_nxtStack.mpr (hP.keepSt x hm'')), hxh⟩
    | inr hx => obtain ⟨x, hx, hxh⟩ := hx; exact ⟨x, Or.inr (mem_nxtStack.mpr hx), hxh⟩
  have hresS : (omSet res e).Pairwise (fun a b => lt a b = true) ∧ (omSet res e).Nodup := by
    rcases omSet_pop_cases C.nodupH I.resIn heE with ⟨_, h2⟩ | ⟨h1, h2⟩
    · rw [h2]; exact ⟨I.resSorted, I.resNodup⟩
    · rw [h2]
      constructor
      · rw [List.pairwise_append]
        refine ⟨I.resSorted, List.pairwise_singleton _ _, ?_⟩
        intro a ha b hb
        rw [List.mem_singleton] at hb
        subst hb
        rcases I.resAbove a ha b (by simp) with h | h
        · exact h
        · exact absurd (h ▸ ha) h1
      · rw [List.nodup_append]
        refine ⟨I.resNodup, by simp, ?_⟩
        intro a ha b hb
        rw [List.mem_singleton] at hb
        intro hab
        exact h1 (hb ▸ hab ▸ ha)
  constructor
  · exact {
      stIn := fun s hs => hr1E s (mem_nxtStack.mp hs)
      resIn := by
        intro x hx
        rcases (hm x).mp hx with h | h
        · exact I.resIn x h
        · exact h ▸ heE
      stSorted := by
        unfold nxtStack
        split
        · exact goSort_sortedW C.sto _ hr1E
        · rename_i hmod
          have : (nxt E e rest trav).1 = rest := hP.unmod (by simpa using hmod)
          rw [this]; exact (List.pairwise_cons.mp I.stSorted).2
      resSorted := hresS.1
      resAbove := by
        intro a ha s hs
        have hs1 := mem_nxtStack.mp hs
        rcases (hm a).mp ha with h | h
        · rcases I.resAbove a h e (by simp) with hae | hae
          · rcases hEabove s hs1 with hes | hes
            · exact Or.inl (C.sto.trans a e s (I.resIn a h) heE (hr1E s hs1) hae hes)
            · exact Or.inl (hes ▸ hae)
          · rw [hae]; exact hEabove s hs1
        · rw [h]; exact hEabove s hs1
      travRes := by
        intro a ha
        rcases (hm a).mp ha with h | h
        · exact hK _ (List.mem_cons_of_mem _ (I.travRes a h))
        · rw [h]; exact hK _ (by simp)
      travSt := by
        intro s hs
        cases hP.marked s (mem_nxtStack.mp hs) with
        | inl h =>
          cases I.travSt s (List.mem_cons_of_mem _ h) with
          | inl hr => exact Or.inl hr
          | inr ht => exact Or.inr (hK _ (List.mem_cons_of_mem _ ht))
        | inr h => exact Or.inr h
      travOnly := htravOnly
      resNodup := hresS.2
      closedUpTo := by
        intro a ha c hc p hg
        rcases (hm a).mp ha with h | h
        · cases I.closedUpTo a h c hc p hg with
          | inl hr => exact Or.inl ((hm p).mpr (Or.inl hr))
          | inr hs =>
            cases hs with
            | head => exact Or.inl ((hm _).mpr (Or.inr rfl))
            | tail _ hm' => exact Or.inr (mem_nxtStack.mpr (hP.keepSt p hm'))
        · subst h
          obtain ⟨x, hx, hxh⟩ := htravOnly _ (hG c hc p hg)
          have hxE : x ∈ E := by
            cases hx with
            | inl hr =>
              rcases (hm x).mp hr with h1 | h1
              · exact I.resIn x h1
              · exact h1 ▸ heE
            | inr hs => exact hr1E x (mem_nxtStack.mp hs)
          have : x = p := hash_inj C.nodupH hxE (get?_mem hg).1 hxh
          exact this ▸ hx
      rootsCov := by
        intro a ha
        cases I.rootsCov a ha with
        | inl hr => exact Or.inl ((hm a).mpr (Or.inl hr))
        | inr hs =>
          cases hs with
          | head => exact Or.inl ((hm _).mpr (Or.inr rfl))
          | tail _ hm' => exact Or.inr (mem_nxtStack.mpr (hP.keepSt a hm'))
      sound := by
        intro x hx
        rcases hx with hx | hx
        · rcases (hm x).mp hx with h | h
          · exact I.sound x (Or.inl h)
          · exact h ▸ I.sound e (Or.inr (by simp))
        · cases hP.newSucc x (mem_nxtStack.mp hx) with
          | inl h => exact I.sound x (Or.inr (List.mem_cons_of_mem _ h))
          | inr h =>
            obtain ⟨c, hc, hg⟩ := h
            obtain ⟨r, hr, hd⟩ := I.sound e (Or.inr (by simp))
            exact ⟨r, hr, Desc.step hd hc hg⟩ }
  · have h1 := pushNexts_measure E e.next (rest, e.hash :: trav, false)
    have h2 := unmk_cons_le e.hash trav E
    rw [length_nxtStack]
    show (nxt E e rest trav).1.length + unmk E (nxt E e rest trav).2.1 < (e :: rest).length + unmk E trav
    unfold nxt
    simp only [List.length_cons] at h1 ⊢
    omega

/-- enough fuel: the unbounded loop ends with an empty stack and the invariant -/
theorem loop_specG {E : List Entry} {lt : Entry → Entry → Bool} {roots : List Entry} (C : CtxG E lt) :
    ∀ (fuel : Nat) (stack : List Entry) (trav : List Hash) (res : List Entry) (count : Int),
      GInv E lt roots stack trav res → stack.length + unmk E trav < fuel →
      ∃ trav', GInv E lt roots [] trav' (travLoop E lt (-1) none fuel stack trav res count)
  | 0, _, _, _, _, _, h => by omega
  | fuel + 1, [], trav, res, _, I, _ => ⟨trav, by simpa [travLoop_nil] using I⟩
  | fuel + 1, e :: rest, trav, res, count, I, h => by
    obtain ⟨I', hlt⟩ := step_invG C I
    rw [travLoop_unb_cons]
    exact loop_specG C fuel _ _ _ _ I' (by omega)

theorem GInv.init {E : List Entry} {lt : Entry → Entry → Bool} {roots : List Entry} (C : CtxG E lt)
    (hin : ∀ r ∈ roots, r ∈ E) : GInv E lt roots (goSort lt roots) [] [] where
  stIn := fun s hs => hin s (mem_goSort.mp hs)
  resIn := by simp
  stSorted := goSort_sortedW C.sto roots hin
  resSorted := List.Pairwise.nil
  resAbove := by simp
  travRes := by simp
  travSt := fun s hs => Or.inl (mem_goSort.mp hs)
  travOnly := by simp
  resNodup := List.nodup_nil
  closedUpTo := by simp
  rootsCov := fun r hr => Or.inr (mem_goSort.mpr hr)
  sound := by
    intro x hx
    rcases hx with hx | hx
    · cases hx
    · exact ⟨x, mem_goSort.mp hx, Desc.refl x (hin x (mem_goSort.mp hx))⟩

theorem fuel_enough (E : List Entry) (lt : Entry → Entry → Bool) (roots : List Entry) :
    (goSort lt roots).length + unmk E [] < traverseFuel E roots := by
  have := unmk_le_length E []
  have := (goSort_perm lt roots).length_eq
  unfold traverseFuel
  omega

/-- **The general range theorem.**  From arbitrary roots inside `E` (possibly referenced, possibly
    causally related) the unbounded traversal emits, strictly descending and without duplicates,
    exactly the entries reachable from some root along `next` inside `E`. -/
theorem traverse_general {E : List Entry} {lt : Entry → Entry → Bool} {roots : List Entry} (C : CtxG E lt)
    (hin : ∀ r ∈ roots, r ∈ E) :
    let out := traverseG E lt roots (-1) none
    out.Pairwise (fun a b => lt a b = true) ∧ out.Nodup ∧ ∀ x, x ∈ out ↔ ∃ r ∈ roots, Desc E r x := by
  intro out
  obtain ⟨trav', I⟩ := loop_specG C _ _ _ _ 0 (GInv.init C hin) (fuel_enough E lt roots)
  have hout : out = travLoop E lt (-1) none (traverseFuel E roots) (goSort lt roots) [] [] 0 := rfl
  rw [hout]
  refine ⟨I.resSorted, I.resNodup, ?_⟩
  intro x
  constructor
  · intro hx; exact I.sound x (Or.inl hx)
  · rintro ⟨r, hr, hd⟩
    have hroot : ∀ r ∈ roots, r ∈ travLoop E lt (-1) none (traverseFuel E roots) (goSort lt roots) [] [] 0 := by
      intro r hr
      cases I.rootsCov r hr with
      | inl h => exact h
      | inr h => cases h
    have : ∀ {a b : Entry}, Desc E a b →
        a ∈ travLoop E lt (-1) none (traverseFuel E roots) (goSort lt roots) [] [] 0 →
        b ∈ travLoop E lt (-1) none (traverseFuel E roots) (goSort lt roots) [] [] 0 := by
      intro a b hd
      induction hd with
      | refl _ => exact fun h => h
      | step _ hc hg ih =>
        intro h
        cases I.closedUpTo _ (ih h) _ hc _ hg with
        | inl h' => exact h'
        | inr h' => cases h'
    exact this hd (hroot r hr)

/-- every emitted entry is an entry of `E` -/
theorem traverse_general_mem {E : List Entry} {lt : Entry → Entry → Bool} {roots : List Entry} (C : CtxG E lt)
    (hin : ∀ r ∈ roots, r ∈ E) : ∀ x ∈ traverseG E lt roots (-1) none, x ∈ E := by
  intro x hx
  obtain ⟨r, _, hd⟩ := ((traverse_general C hin).2.2 x).mp hx
  exact hd.mem_right

/-! ## end hash -/

/-- with an end hash the traversal is the unbounded emission up to and including the first entry
    carrying that hash (all of it when there is none) — no hypothesis needed -/
theorem traverse_endHash_find (E : List Entry) (lt : Entry → Entry → Bool) (roots : List Entry) (g : Hash) :
    traverseG E lt roots (-1) (some g) =
      (traverseG E lt roots (-1) none).takeWhile (fun e => e.hash != g) ++
      ((traverseG E lt roots (-1) none).find? (fun e => e.hash == g)).toList :=
  travLoop_endHash E lt g _ _ _ _ _ (by simp)

/-- with `endHash = g`, the hash of a member `x` of the full emission, the traversal stops right
    after emitting `x` -/
theorem traverse_endHash {E : List Entry} {lt : Entry → Entry → Bool} {roots : List Entry} (C : CtxG E lt)
    (hin : ∀ r ∈ roots, r ∈ E) {g : Hash} {x : Entry} (hx : x ∈ traverseG E lt roots (-1) none)
    (hg : x.hash = g) :
    traverseG E lt roots (-1) (some g) =
      (traverseG E lt roots (-1) none).takeWhile (fun e => e.hash != g) ++ [x] := by
  rw [traverse_endHash_find]
  congr 1
  cases hf : (traverseG E lt roots (-1) none).find? (fun e => e.hash == g) with
  | none =>
    rw [List.find?_eq_none] at hf
    exact absurd (by simpa using hg) (hf x hx)
  | some y =>
    have hy := List.mem_of_find?_eq_some hf
    have hyg : y.hash = g := by simpa using List.find?_some hf
    have : y = x := hash_inj C.nodupH (traverse_general_mem C hin y hy) (traverse_general_mem C hin x hx)
      (hyg.trans hg.symm)
    rw [this]; rfl

/-! ## amount -/

/-- with an amount and no end hash the traversal returns a prefix of the full emission of at most
    `amount` entries -/
theorem traverse_amount (E : List Entry) (lt : Entry → Entry → Bool) (roots : List Entry) (a : Int) (ha : 0 ≤ a) :
    (∃ t, traverseG E lt roots (-1) none = traverseG E lt roots a none ++ t) ∧
    (traverseG E lt roots a none).length ≤ a.toNat := by
  refine ⟨traverseG_prefix E lt roots a none, ?_⟩
  have := travLoop_length E lt a none ha (traverseFuel E roots) (goSort lt roots) [] [] 0 ha
  simpa [traverseG] using this

/-- no root is a strict descendant of a root (in particular of itself) -/
def RootsIndep (E roots : List Entry) : Prop :=
  ∀ r ∈ roots, ∀ b c p, Desc E r b → c ∈ b.next → get? E c = some p → p ∉ roots

/-- the invariant when nothing is stacked twice -/
structure SInv (E : List Entry) (lt : Entry → Entry → Bool) (roots : List Entry)
    (stack : List Entry) (trav : List Hash) (res : List Entry) : Prop where
  g : GInv E lt roots stack trav res
  stNodup : stack.Nodup
  disj : ∀ r ∈ res, r ∉ stack

theorem step_invS {E : List Entry} {lt : Entry → Entry → Bool} {roots : List Entry} (C : CtxG E lt)
    (hind : RootsIndep E roots)
    {e : Entry} {rest : List Entry} {trav : List Hash} {res : List Entry}
    (S : SInv E lt roots (e :: rest) trav res) :
    omSet res e = res ++ [e] ∧ SInv E lt roots (nxtStack E lt e rest trav) (nxt E e rest trav).2.1 (res ++ [e]) := by
  have I := S.g
  have heE : e ∈ E := I.stIn e (by simp)
  have hene : e ∉ res := fun hm => S.disj e hm (by simp)
  have hset : omSet res e = res ++ [e] := by
    rcases omSet_pop_cases C.nodupH I.resIn heE with ⟨h1, _⟩ | ⟨_, h2⟩
    · exact absurd h1 hene
    · exact h2
  have hG := (step_invG C I).1
  rw [hset] at hG
  have hspec : PInvG E e rest (e.hash :: trav) (nxt E e rest trav) :=
    (pushNexts_specG E e rest (e.hash :: trav) e.next (fun c hc => hc) _ (PInvG.init E e rest (e.hash :: trav))).1
  have hnd1 : (nxt E e rest trav).1.Nodup := by
    apply pushNexts_nodup E e.next (rest, e.hash :: trav, false) (List.nodup_cons.mp S.stNodup).2
    intro x hx
    cases I.travSt x (List.mem_cons_of_mem _ hx) with
    | inl hr =>
      right
      intro c hc hg
      obtain ⟨r, hr', hd⟩ := I.sound e (Or.inr (by simp))
      exact hind r hr' e c x hd hc hg hr
    | inr ht => exact Or.inl (List.mem_cons_of_mem _ ht)
  refine ⟨hset, hG, ?_, ?_⟩
  · unfold nxtStack
    split
    · exact (goSort_perm lt _).nodup_iff.mpr hnd1
    · exact hnd1
  · intro a ha hs
    have hs1 := mem_nxtStack.mp hs
    rw [List.mem_append] at ha
    cases hspec.fresh a hs1 with
    | inl hrest =>
      cases ha with
      | inl h => exact S.disj a h (List.mem_cons_of_mem _ hrest)
      | inr h =>
        rw [List.mem_singleton] at h
        exact (List.nodup_cons.mp S.stNodup).1 (h ▸ hrest)
    | inr hfresh =>
      apply hfresh
      cases ha with
      | inl h => exact List.mem_cons_of_mem _ (I.travRes a h)
      | inr h => rw [List.mem_singleton] at h; rw [h]; exact List.mem_cons_self

theorem travLoop_take {E : List Entry} {lt : Entry → Entry → Bool} {roots : List Entry} (C : CtxG E lt)
    (hind : RootsIndep E roots) (a : Int) :
    ∀ (fuel : Nat) (stack : List Entry) (trav : List Hash) (res : List Entry) (count : Int),
      SInv E lt roots stack trav res → count = res.length → count ≤ a →
      travLoop E lt a none fuel stack trav res count =
        (travLoop E lt (-1) none fuel stack trav res count).take a.toNat
  | 0, _, _, res, count, _, hc, hle => by
    simp only [travLoop_zero]
    rw [List.take_of_length_le (by omega)]
  | _ + 1, [], _, res, count, _, hc, hle => by
    simp only [travLoop_nil]
    rw [List.take_of_length_le (by omega)]
  | fuel + 1, e :: rest, trav, res, count, S, hc, hle => by
    obtain ⟨hset, S'⟩ := step_invS C hind S
    rw [travLoop_unb_cons, travLoop_cons, hset]
    simp only [show (none = some e.hash) = False from by simp, if_false]
    by_cases hlt : count < a
    · rw [if_pos (Or.inr hlt)]
      exact travLoop_take C hind a fuel _ _ _ _ S' (by simp [hc]) (by omega)
    · rw [if_neg (by omega)]
      obtain ⟨t, ht⟩ := travLoop_extends E lt (-1) none fuel (nxtStack E lt e rest trav)
          (nxt E e rest trav).2.1 (res ++ [e]) (count + 1)
      rw [ht, List.append_assoc]
      have hlen : res.length = a.toNat := by omega
      rw [← hlen, List.take_left]

/-- when no root is a strict descendant of a root nothing is popped twice, and the traversal with
    an amount returns exactly the `amount` newest entries of the full emission -/
theorem traverse_amount_take {E : List Entry} {lt : Entry → Entry → Bool} {roots : List Entry} (C : CtxG E lt)
    (hin : ∀ r ∈ roots, r ∈ E) (hrn : roots.Nodup) (hind : RootsIndep E roots) (a : Int) (ha : 0 ≤ a) :
    traverseG E lt roots a none = (traverseG E lt roots (-1) none).take a.toNat := by
  have S0 : SInv E lt roots (goSort lt roots) [] [] :=
    ⟨GInv.init C hin, (goSort_perm lt roots).nodup_iff.mpr hrn, by simp⟩
  exact travLoop_take C hind a _ _ _ _ 0 S0 (by simp) ha

/-! ## glue for the iterator -/

/-- the context of `traverse_general`, from the replica invariant -/
theorem ctxG_of_inv {U : List Entry} {l : Log} (I : Inv U l) (ho : OrderOk l.sortFn l.entries) :
    CtxG l.entries (before l.sortFn) where
  nodupH := by simpa [hashes] using I.nodup
  sto := orderOk_sto I.nodup ho
  mono := fun e he c hc p hp => orderOk_time ho (I.mono e he c hc p hp)

/-- the full (unbounded, no lower bound) emission from the start entries of an iteration -/
def iterFull (l : Log) (start : List Entry) : List Entry :=
  traverseG l.entries (before l.sortFn) (omFromList start) (-1) none

theorem mem_omFromList_iff {E : List Entry} (hnd : (E.map (·.hash)).Nodup) {start : List Entry}
    (hin : ∀ x ∈ start, x ∈ E) {x : Entry} : x ∈ omFromList start ↔ x ∈ start := by
  constructor
  · exact mem_omFromList
  · intro hx
    have hh : has (omFromList start) x.hash = true := by rw [has_omFromList]; exact has_of_mem hx
    obtain ⟨y, hy, hyh⟩ := has_iff.mp hh
    have : y = x := hash_inj hnd (hin y (mem_omFromList hy)) (hin x hx) hyh
    exact this ▸ hy

/-- the heads are independent roots: nothing in the log names a head -/
theorem rootsIndep_of_unref {U : List Entry} {l : Log} (I : Inv U l) {roots : List Entry}
    (h : ∀ r ∈ roots, r ∈ l.heads) : RootsIndep l.entries roots := by
  intro r _ b c p hd hc hg hp
  apply I.headsUnref p (h p hp)
  exact ⟨b, hd.mem_right, by rw [(get?_mem hg).2]; exact hc⟩

/-- roots carrying the same clock time (e.g. a single root) are independent -/
theorem rootsIndep_of_same_time {U : List Entry} {l : Log} (I : Inv U l) {roots : List Entry}
    (h : ∀ r ∈ roots, ∀ r' ∈ roots, r.clock.time = r'.clock.time) : RootsIndep l.entries roots := by
  intro r hr b c p hd hc hg hp
  have h1 := hd.time_le I
  have h2 := I.mono b hd.mem_right c hc p hg
  have h3 := h r hr p hp
  omega

end Model
