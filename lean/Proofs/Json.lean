import Model.Json
/-!
# Proofs.Json — helper lemmas about the JSON string / number encoders of `Model.Json`

The route to `toBuffer_injective` (Props.C07):

* `tokensF_fuel`, `tokens_cons` — the rune loop does not depend on the fuel.
* `decodeRune_some`, `decodeRune_append` — a decoded sequence is a valid sequence, and decoding looks
  only at the sequence itself.
* `parseTok` — a one-step reader of the escaped text; `parseTok_encTok` says it undoes `encTok`
  whatever follows, and reads the closing quote as "end".  Hence the set of token encodings plus
  the quote is a prefix code: `encToks_inj`, `goJsonString_inj`
  (`goJsonString a ++ r₁ = goJsonString b ++ r₂ → tokens a = tokens b ∧ r₁ = r₂`).
* `natDec_inj_term`, `intDec_inj_term` — decimals are self-delimiting before a non-digit.
* `jsonArr_inj`, `jsonObj_inj` — arrays / objects of string literals.
* `hexEncode_inj`, `tokens_inj_of_valid`, `runeOf_inj` — lifting from tokens / runes to bytes.
-/
namespace Model.Json

open Model

/-! ## The rune loop and its fuel -/

theorem tokensF_fuel : ∀ (f g : Nat) (bs : Bytes), bs.length ≤ f → bs.length ≤ g →
    tokensF f bs = tokensF g bs := by
  intro f
  induction f with
  | zero =>
    intro g bs h _
    have : bs = [] := List.eq_nil_of_length_eq_zero (Nat.le_zero.mp h)
    subst this
    cases g <;> rfl
  | succ f ih =>
    intro g bs hf hg
    cases bs with
    | nil => cases g <;> rfl
    | cons b0 rest =>
      cases g with
      | zero => simp at hg
      | succ g =>
        simp only [tokensF]
        simp only [List.length_cons, Nat.add_le_add_iff_right] at hf hg
        cases decodeRune b0 rest with
        | none => simp only; rw [ih g rest hf hg]
        | some raw =>
          simp only
          have hl : (rest.drop (raw.length - 1)).length ≤ rest.length := by
            rw [List.length_drop]; omega
          rw [ih g _ (Nat.le_trans hl hf) (Nat.le_trans hl hg)]

@[simp] theorem tokens_nil : tokens [] = [] := rfl

theorem tokens_cons (b0 : Nat) (rest : Bytes) :
    tokens (b0 :: rest) =
      match decodeRune b0 rest with
      | some raw => .lit raw :: tokens (rest.drop (raw.length - 1))
      | none => .bad :: tokens rest := by
  simp only [tokens, List.length_cons, tokensF]
  cases decodeRune b0 rest with
  | none => rfl
  | some raw =>
    simp only
    rw [tokensF_fuel rest.length (rest.drop (raw.length - 1)).length _ (by rw [List.length_drop]; omega)
      (Nat.le_refl _)]

/-- induction along the rune loop -/
theorem tokens_induct {P : Bytes → Prop} (nil : P [])
    (lit : ∀ b0 rest raw, decodeRune b0 rest = some raw → P (rest.drop (raw.length - 1)) → P (b0 :: rest))
    (bad : ∀ b0 rest, decodeRune b0 rest = none → P rest → P (b0 :: rest)) : ∀ bs, P bs := by
  have key : ∀ n (bs : Bytes), bs.length ≤ n → P bs := by
    intro n
    induction n with
    | zero =>
      intro bs h
      have : bs = [] := List.eq_nil_of_length_eq_zero (Nat.le_zero.mp h)
      subst this; exact nil
    | succ n ih =>
      intro bs h
      cases bs with
      | nil => exact nil
      | cons b0 rest =>
        simp only [List.length_cons, Nat.add_le_add_iff_right] at h
        cases hd : decodeRune b0 rest with
        | none => exact bad b0 rest hd (ih rest h)
        | some raw =>
          apply lit b0 rest raw hd
          apply ih
          rw [List.length_drop]; omega
  intro bs
  exact key bs.length bs (Nat.le_refl _)

/-! ## `decodeRune` -/

theorem take_append_drop_length_take {α} (k : Nat) (l : List α) :
    l.take k ++ l.drop (l.take k).length = l := by
  rw [List.length_take]
  by_cases h : k ≤ l.length
  · rw [Nat.min_eq_left h]; exact List.take_append_drop k l
  · have h' : l.length ≤ k := by omega
    rw [Nat.min_eq_right h', List.drop_length, List.take_of_length_le h']; simp

/-- what a successful decode returns: a valid sequence which is a prefix of the input -/
theorem decodeRune_some {b0 : Nat} {rest raw : Bytes} (h : decodeRune b0 rest = some raw) :
    ∃ tl, raw = b0 :: tl ∧ validSeq raw = true ∧ rest = tl ++ rest.drop (raw.length - 1) := by
  unfold decodeRune at h
  split at h
  · next hlt =>
    injection h with h; subst h
    exact ⟨[], rfl, by simp [validSeq, hlt], by simp⟩
  · split at h
    · next hv =>
      injection h with h; subst h
      exact ⟨rest.take 1, rfl, hv, by simpa using (take_append_drop_length_take 1 rest).symm⟩
    · split at h
      · next hv =>
        injection h with h; subst h
        exact ⟨rest.take 2, rfl, hv, by simpa using (take_append_drop_length_take 2 rest).symm⟩
      · split at h
        · next hv =>
          injection h with h; subst h
          exact ⟨rest.take 3, rfl, hv, by simpa using (take_append_drop_length_take 3 rest).symm⟩
        · cases h

theorem validSeq_lead_hi {b0 : Nat} {tl : Bytes} (hv : validSeq (b0 :: tl) = true) (hne : tl ≠ []) :
    0xC2 ≤ b0 := by
  match tl, hne with
  | [b1], _ => simp [validSeq] at hv; omega
  | [b1, b2], _ => simp [validSeq] at hv; omega
  | [b1, b2, b3], _ => simp [validSeq] at hv; omega
  | _ :: _ :: _ :: _ :: _, _ => simp [validSeq] at hv

/-- decoding a valid multi-byte sequence gives it back, whatever follows -/
theorem decodeRune_append {b0 : Nat} {tl : Bytes} (hv : validSeq (b0 :: tl) = true) (hhi : 0x80 ≤ b0)
    (A : Bytes) : decodeRune b0 (tl ++ A) = some (b0 :: tl) := by
  have h0 : ¬ b0 < 0x80 := by omega
  match tl with
  | [] => simp [validSeq] at hv; omega
  | [b1] =>
    simp [decodeRune, h0, hv]
  | [b1, b2] =>
    have h1 : validSeq [b0, b1] = false := by
      simp [validSeq] at hv ⊢; omega
    simp [decodeRune, h0, hv, h1]
  | [b1, b2, b3] =>
    have h1 : validSeq [b0, b1] = false := by
      simp [validSeq] at hv ⊢; omega
    have h2 : validSeq [b0, b1, b2] = false := by
      simp [validSeq] at hv ⊢; omega
    simp [decodeRune, h0, hv, h1, h2]
  | _ :: _ :: _ :: _ :: _ => simp [validSeq] at hv

/-! ## Well-formed tokens -/

/-- tokens as the rune loop produces them -/
def Tok.WF : Tok → Prop
  | .bad => True
  | .lit raw => validSeq raw = true

theorem tokensF_wf : ∀ (f : Nat) (bs : Bytes) (t : Tok), t ∈ tokensF f bs → t.WF := by
  intro f
  induction f with
  | zero => intro bs t h; simp [tokensF] at h
  | succ f ih =>
    intro bs t h
    cases bs with
    | nil => simp [tokensF] at h
    | cons b0 rest =>
      simp only [tokensF] at h
      cases hd : decodeRune b0 rest with
      | none =>
        rw [hd] at h
        simp only [List.mem_cons] at h
        rcases h with h | h
        · subst h; trivial
        · exact ih _ _ h
      | some raw =>
        rw [hd] at h
        simp only [List.mem_cons] at h
        rcases h with h | h
        · subst h
          obtain ⟨_, _, hv, _⟩ := decodeRune_some hd
          exact hv
        · exact ih _ _ h

theorem tokens_wf (bs : Bytes) : ∀ t ∈ tokens bs, t.WF := fun t h => tokensF_wf _ _ t h

/-! ## A one-step reader of the escaped text -/

def hexVal (c : Nat) : Nat :=
  if 48 ≤ c ∧ c ≤ 57 then c - 48 else if 97 ≤ c ∧ c ≤ 102 then c - 87 else 0

/-- after a backslash -/
def parseEsc : Bytes → Option (Option Tok × Bytes)
  | [] => none
  | c :: r =>
    if c = 34 ∨ c = 92 then some (some (.lit [c]), r)
    else if c = 98 then some (some (.lit [8]), r)
    else if c = 102 then some (some (.lit [12]), r)
    else if c = 110 then some (some (.lit [10]), r)
    else if c = 114 then some (some (.lit [13]), r)
    else if c = 116 then some (some (.lit [9]), r)
    else if c = 117 then
      match r with
      | h1 :: h2 :: h3 :: h4 :: r' =>
        let v := ((hexVal h1 * 16 + hexVal h2) * 16 + hexVal h3) * 16 + hexVal h4
        if v = 0xFFFD then some (some .bad, r')
        else if v = 0x2028 then some (some (.lit [0xE2, 0x80, 0xA8]), r')
        else if v = 0x2029 then some (some (.lit [0xE2, 0x80, 0xA9]), r')
        else some (some (.lit [v]), r')
      | _ => none
    else none

/-- reads one token of escaped text (`some (some t, rest)`) or the closing quote (`some (none, rest)`) -/
def parseTok : Bytes → Option (Option Tok × Bytes)
  | [] => none
  | b :: r =>
    if b = 34 then some (none, r)
    else if b = 92 then parseEsc r
    else if b < 0x80 then some (some (.lit [b]), r)
    else match decodeRune b r with
      | some raw => some (some (.lit raw), r.drop (raw.length - 1))
      | none => none

theorem hexVal_hexDigit {d : Nat} (h : d < 16) : hexVal (hexDigit d) = d := by
  unfold hexVal hexDigit
  split <;> split <;> (try split) <;> omega

theorem parseTok_quote (A : Bytes) : parseTok (34 :: A) = some (none, A) := by
  simp [parseTok]

theorem parseTok_encAscii {b : Nat} (hb : b < 0x80) (A : Bytes) :
    parseTok (encAscii b ++ A) = some (some (.lit [b]), A) := by
  unfold encAscii
  split
  · next hs =>
    simp only [htmlSafe, Bool.and_eq_true, decide_eq_true_eq] at hs
    have h1 : b ≠ 34 := hs.1.1.1.1.2
    have h2 : b ≠ 92 := hs.2
    simp [parseTok, h1, h2, hb]
  · split
    · next _ hq =>
      rcases hq with hq | hq <;> subst hq <;> simp [parseTok, parseEsc]
    · split
      · next h => subst h; simp [parseTok, parseEsc]
      · split
        · next h => subst h; simp [parseTok, parseEsc]
        · split
          · next h => subst h; simp [parseTok, parseEsc]
          · split
            · next h => subst h; simp [parseTok, parseEsc]
            · split
              · next h => subst h; simp [parseTok, parseEsc]
              · have hd1 : hexVal (hexDigit (b / 16)) = b / 16 := hexVal_hexDigit (by omega)
                have hd2 : hexVal (hexDigit (b % 16)) = b % 16 := hexVal_hexDigit (by omega)
                have h48 : hexVal 48 = 0 := by decide
                have hv : ((hexVal 48 * 16 + hexVal 48) * 16 + hexVal (hexDigit (b / 16))) * 16
                    + hexVal (hexDigit (b % 16)) = b := by
                  rw [hd1, hd2, h48]; omega
                simp only [parseTok, parseEsc, List.cons_append, List.nil_append]
                simp only [hv]
                have e1 : ¬ b = 0xFFFD := by omega
                have e2 : ¬ b = 0x2028 := by omega
                have e3 : ¬ b = 0x2029 := by omega
                simp [e1, e2, e3]

theorem acceptLo_spec (b0 : Nat) :
    0x80 ≤ acceptLo b0 ∧ (b0 = 0xE0 → acceptLo b0 = 0xA0) ∧ (b0 = 0xF0 → acceptLo b0 = 0x90) := by
  unfold acceptLo; split <;> (try split) <;> omega

theorem acceptHi_spec (b0 : Nat) :
    acceptHi b0 ≤ 0xBF ∧ (b0 = 0xED → acceptHi b0 = 0x9F) ∧ (b0 = 0xF4 → acceptHi b0 = 0x8F) := by
  unfold acceptHi; split <;> (try split) <;> omega

theorem validSeq2 {b0 b1 : Nat} (h : validSeq [b0, b1] = true) :
    0xC2 ≤ b0 ∧ b0 < 0xE0 ∧ 0x80 ≤ b1 ∧ b1 ≤ 0xBF := by
  simp only [validSeq, isCont, Bool.and_eq_true, decide_eq_true_eq] at h
  omega

theorem validSeq3 {b0 b1 b2 : Nat} (h : validSeq [b0, b1, b2] = true) :
    0xE0 ≤ b0 ∧ b0 < 0xF0 ∧ 0x80 ≤ b1 ∧ b1 ≤ 0xBF ∧ (b0 = 0xE0 → 0xA0 ≤ b1) ∧ (b0 = 0xED → b1 ≤ 0x9F)
      ∧ 0x80 ≤ b2 ∧ b2 ≤ 0xBF := by
  simp only [validSeq, isCont, Bool.and_eq_true, decide_eq_true_eq] at h
  have := acceptLo_spec b0
  have := acceptHi_spec b0
  omega

theorem validSeq4 {b0 b1 b2 b3 : Nat} (h : validSeq [b0, b1, b2, b3] = true) :
    0xF0 ≤ b0 ∧ b0 < 0xF5 ∧ 0x80 ≤ b1 ∧ b1 ≤ 0xBF ∧ (b0 = 0xF0 → 0x90 ≤ b1) ∧ (b0 = 0xF4 → b1 ≤ 0x8F)
      ∧ 0x80 ≤ b2 ∧ b2 ≤ 0xBF ∧ 0x80 ≤ b3 ∧ b3 ≤ 0xBF := by
  simp only [validSeq, isCont, Bool.and_eq_true, decide_eq_true_eq] at h
  have := acceptLo_spec b0
  have := acceptHi_spec b0
  omega

/-- a valid sequence whose rune is U+2028 / U+2029 is the canonical three bytes -/
theorem rune_2028 {raw : Bytes} (hv : validSeq raw = true) (h : runeOf raw = 0x2028) :
    raw = [0xE2, 0x80, 0xA8] := by
  match raw with
  | [] => simp [validSeq] at hv
  | [b] => simp [validSeq, runeOf] at hv h; omega
  | [b0, b1] => have := validSeq2 hv; simp only [runeOf] at h; omega
  | [b0, b1, b2] =>
    have := validSeq3 hv; simp only [runeOf] at h
    have : b0 = 0xE2 ∧ b1 = 0x80 ∧ b2 = 0xA8 := by
      refine ⟨?_, ?_, ?_⟩ <;> omega
    simp [this]
  | [b0, b1, b2, b3] =>
    have := validSeq4 hv; simp only [runeOf] at h
    omega
  | _ :: _ :: _ :: _ :: _ :: _ => simp [validSeq] at hv

theorem rune_2029 {raw : Bytes} (hv : validSeq raw = true) (h : runeOf raw = 0x2029) :
    raw = [0xE2, 0x80, 0xA9] := by
  match raw with
  | [] => simp [validSeq] at hv
  | [b] => simp [validSeq, runeOf] at hv h; omega
  | [b0, b1] => have := validSeq2 hv; simp only [runeOf] at h; omega
  | [b0, b1, b2] =>
    have := validSeq3 hv; simp only [runeOf] at h
    have : b0 = 0xE2 ∧ b1 = 0x80 ∧ b2 = 0xA9 := by
      refine ⟨?_, ?_, ?_⟩ <;> omega
    simp [this]
  | [b0, b1, b2, b3] =>
    have := validSeq4 hv; simp only [runeOf] at h
    omega
  | _ :: _ :: _ :: _ :: _ :: _ => simp [validSeq] at hv

/-- the reader undoes `encTok`, whatever follows -/
theorem parseTok_encTok {t : Tok} (hw : t.WF) (A : Bytes) :
    parseTok (encTok t ++ A) = some (some t, A) := by
  match t, hw with
  | .bad, _ =>
    simp [encTok, parseTok, parseEsc, hexVal]
  | .lit [], hw => simp [Tok.WF, validSeq] at hw
  | .lit [b], hw =>
    have hb : b < 0x80 := by simpa [Tok.WF, validSeq] using hw
    simpa [encTok] using parseTok_encAscii hb A
  | .lit (b0 :: b1 :: tl), hw =>
    have hv : validSeq (b0 :: b1 :: tl) = true := hw
    have hhi : 0xC2 ≤ b0 := validSeq_lead_hi hv (by simp)
    simp only [encTok]
    split
    · next hc =>
      rcases hc with hc | hc
      · have := rune_2028 hv hc
        rw [this]
        simp [runeOf, hexDigit, parseTok, parseEsc, hexVal]
      · have := rune_2029 hv hc
        rw [this]
        simp [runeOf, hexDigit, parseTok, parseEsc, hexVal]
    · have h1 : ¬ b0 = 34 := by omega
      have h2 : ¬ b0 = 92 := by omega
      have h3 : ¬ b0 < 0x80 := by omega
      have hd := decodeRune_append hv (by omega) A
      simp only [List.cons_append] at hd ⊢
      simp only [parseTok, h1, h2, h3, if_false, hd]
      simp

/-! ## String literals are self-delimiting -/

theorem encToks_cons (t : Tok) (ts : List Tok) : encToks (t :: ts) = encTok t ++ encToks ts := by
  simp [encToks]

theorem encToks_inj : ∀ (ta tb : List Tok), (∀ t ∈ ta, t.WF) → (∀ t ∈ tb, t.WF) → ∀ (A B : Bytes),
    encToks ta ++ 34 :: A = encToks tb ++ 34 :: B → ta = tb ∧ A = B := by
  intro ta
  induction ta with
  | nil =>
    intro tb _ hb A B h
    cases tb with
    | nil => simpa [encToks] using h
    | cons t tb =>
      have h' := congrArg parseTok h
      rw [encToks_cons, List.append_assoc, parseTok_encTok (hb t (by simp))] at h'
      simp [encToks, parseTok_quote] at h'
  | cons t ta ih =>
    intro tb ha hb A B h
    cases tb with
    | nil =>
      have h' := congrArg parseTok h
      rw [encToks_cons, List.append_assoc, parseTok_encTok (ha t (by simp))] at h'
      simp [encToks, parseTok_quote] at h'
    | cons u tb =>
      have h' := congrArg parseTok h
      rw [encToks_cons, encToks_cons, List.append_assoc, List.append_assoc,
        parseTok_encTok (ha t (by simp)), parseTok_encTok (hb u (by simp))] at h'
      simp only [Option.some.injEq, Prod.mk.injEq] at h'
      obtain ⟨htu, hrest⟩ := h'
      obtain ⟨h1, h2⟩ := ih tb (fun x hx => ha x (by simp [hx])) (fun x hx => hb x (by simp [hx])) A B hrest
      exact ⟨by rw [htu, h1], h2⟩

/-- a string literal determines the rune-loop steps of its source and where it ends -/
theorem goJsonString_inj {a b r₁ r₂ : Bytes} (h : goJsonString a ++ r₁ = goJsonString b ++ r₂) :
    tokens a = tokens b ∧ r₁ = r₂ := by
  simp only [goJsonString, List.cons_append, List.append_assoc, List.cons.injEq, true_and,
    List.nil_append] at h
  exact encToks_inj _ _ (tokens_wf a) (tokens_wf b) _ _ h

/-- the literal depends on the source only through the rune-loop steps -/
theorem goJsonString_congr {a b : Bytes} (h : tokens a = tokens b) : goJsonString a = goJsonString b := by
  simp [goJsonString, h]

/-! ## Decimals -/

def isDigit (c : Nat) : Prop := 48 ≤ c ∧ c ≤ 57

/-- a run of `P`-bytes followed by a non-`P` byte determines the run -/
theorem span_unique {P : Nat → Prop} : ∀ (l₁ l₂ : Bytes) (c d : Nat) (r₁ r₂ : Bytes),
    (∀ x ∈ l₁, P x) → (∀ x ∈ l₂, P x) → ¬ P c → ¬ P d → l₁ ++ c :: r₁ = l₂ ++ d :: r₂ →
    l₁ = l₂ ∧ c = d ∧ r₁ = r₂ := by
  intro l₁
  induction l₁ with
  | nil =>
    intro l₂ c d r₁ r₂ _ h₂ hc _ h
    cases l₂ with
    | nil => simpa using h
    | cons y l₂ =>
      simp only [List.nil_append, List.cons_append, List.cons.injEq] at h
      exact absurd (h.1 ▸ h₂ y (by simp)) hc
  | cons x l₁ ih =>
    intro l₂ c d r₁ r₂ h₁ h₂ hc hd h
    cases l₂ with
    | nil =>
      simp only [List.nil_append, List.cons_append, List.cons.injEq] at h
      exact absurd (h.1 ▸ h₁ x (by simp)) hd
    | cons y l₂ =>
      simp only [List.cons_append, List.cons.injEq] at h
      obtain ⟨e1, e2, e3⟩ := ih l₂ c d r₁ r₂ (fun z hz => h₁ z (by simp [hz]))
        (fun z hz => h₂ z (by simp [hz])) hc hd h.2
      exact ⟨by rw [h.1, e1], e2, e3⟩

theorem natDecF_digits : ∀ (f n : Nat), ∀ x ∈ natDecF f n, isDigit x := by
  intro f
  induction f with
  | zero => intro n x hx; simp [natDecF] at hx; subst hx; unfold isDigit; omega
  | succ f ih =>
    intro n x hx
    simp only [natDecF] at hx
    split at hx
    · simp at hx; subst hx; unfold isDigit; omega
    · simp only [List.mem_append, List.mem_singleton] at hx
      rcases hx with hx | hx
      · exact ih _ _ hx
      · subst hx; unfold isDigit; omega

theorem natDecF_ne_nil (f n : Nat) : natDecF f n ≠ [] := by
  cases f with
  | zero => simp [natDecF]
  | succ f => simp only [natDecF]; split <;> simp

/-- reading a decimal back -/
def ofDec (l : Bytes) : Nat := l.foldl (fun a d => a * 10 + (d - 48)) 0

theorem ofDec_snoc (l : Bytes) (d : Nat) : ofDec (l ++ [d]) = ofDec l * 10 + (d - 48) := by
  simp [ofDec, List.foldl_append]

theorem ofDec_natDecF : ∀ (f n : Nat), n ≤ f → ofDec (natDecF f n) = n := by
  intro f
  induction f with
  | zero => intro n h; have : n = 0 := by omega
            subst this; simp [natDecF, ofDec]
  | succ f ih =>
    intro n h
    simp only [natDecF]
    split
    · simp [ofDec]
    · rw [ofDec_snoc, ih (n / 10) (by omega)]; omega

theorem ofDec_natDec (n : Nat) : ofDec (natDec n) = n := ofDec_natDecF n n (Nat.le_refl _)

theorem natDec_inj {n m : Nat} (h : natDec n = natDec m) : n = m := by
  have := congrArg ofDec h
  rwa [ofDec_natDec, ofDec_natDec] at this

theorem natDec_digits (n : Nat) : ∀ x ∈ natDec n, isDigit x := natDecF_digits n n

theorem natDec_head (n : Nat) : ∃ x xs, natDec n = x :: xs ∧ isDigit x := by
  cases h : natDec n with
  | nil => exact absurd h (natDecF_ne_nil n n)
  | cons x xs => exact ⟨x, xs, rfl, natDec_digits n x (by simp [h])⟩

/-- a decimal followed by a non-digit is self-delimiting -/
theorem natDec_inj_term {n m c d : Nat} {r₁ r₂ : Bytes} (hc : ¬ isDigit c) (hd : ¬ isDigit d)
    (h : natDec n ++ c :: r₁ = natDec m ++ d :: r₂) : n = m ∧ c = d ∧ r₁ = r₂ := by
  obtain ⟨e1, e2, e3⟩ := span_unique _ _ _ _ _ _ (natDec_digits n) (natDec_digits m) hc hd h
  exact ⟨natDec_inj e1, e2, e3⟩

theorem intDec_inj_term {i j : Int} {c d : Nat} {r₁ r₂ : Bytes} (hc : ¬ isDigit c) (hd : ¬ isDigit d)
    (h : intDec i ++ c :: r₁ = intDec j ++ d :: r₂) : i = j ∧ c = d ∧ r₁ = r₂ := by
  unfold intDec at h
  split at h <;> split at h
  · simp only [List.cons_append, List.cons.injEq, true_and] at h
    obtain ⟨e1, e2, e3⟩ := natDec_inj_term hc hd h
    exact ⟨by omega, e2, e3⟩
  · obtain ⟨x, xs, hx, hdx⟩ := natDec_head j.toNat
    rw [hx] at h
    simp only [List.cons_append, List.cons.injEq] at h
    unfold isDigit at hdx; omega
  · obtain ⟨x, xs, hx, hdx⟩ := natDec_head i.toNat
    rw [hx] at h
    simp only [List.cons_append, List.cons.injEq] at h
    unfold isDigit at hdx; omega
  · obtain ⟨e1, e2, e3⟩ := natDec_inj_term hc hd h
    exact ⟨by omega, e2, e3⟩

/-! ## Arrays and objects of string literals -/

theorem goJsonString_head (x : Bytes) : ∃ t, goJsonString x = 34 :: t := ⟨_, rfl⟩

theorem arrTail_inj : ∀ (xs ys : List Bytes) (r₁ r₂ : Bytes), arrTail xs ++ r₁ = arrTail ys ++ r₂ →
    xs.map tokens = ys.map tokens ∧ r₁ = r₂ := by
  intro xs
  induction xs with
  | nil =>
    intro ys r₁ r₂ h
    cases ys with
    | nil => simpa [arrTail] using h
    | cons y ys => simp [arrTail] at h
  | cons x xs ih =>
    intro ys r₁ r₂ h
    cases ys with
    | nil => simp [arrTail] at h
    | cons y ys =>
      simp only [arrTail, List.cons_append, List.append_assoc, List.cons.injEq, true_and] at h
      obtain ⟨e1, e2⟩ := goJsonString_inj h
      obtain ⟨e3, e4⟩ := ih ys r₁ r₂ e2
      exact ⟨by simp [e1, e3], e4⟩

theorem jsonArr_inj {xs ys : List Bytes} {r₁ r₂ : Bytes} (h : jsonArr xs ++ r₁ = jsonArr ys ++ r₂) :
    xs.map tokens = ys.map tokens ∧ r₁ = r₂ := by
  cases xs with
  | nil =>
    cases ys with
    | nil => simpa [jsonArr] using h
    | cons y ys => simp [jsonArr, goJsonString] at h
  | cons x xs =>
    cases ys with
    | nil => simp [jsonArr, goJsonString] at h
    | cons y ys =>
      simp only [jsonArr, List.cons_append, List.append_assoc, List.cons.injEq, true_and] at h
      obtain ⟨e1, e2⟩ := goJsonString_inj h
      obtain ⟨e3, e4⟩ := arrTail_inj xs ys r₁ r₂ e2
      exact ⟨by simp [e1, e3], e4⟩

theorem jsonArr_congr {xs ys : List Bytes} (h : xs.map tokens = ys.map tokens) : jsonArr xs = jsonArr ys := by
  have tail : ∀ (xs ys : List Bytes), xs.map tokens = ys.map tokens → arrTail xs = arrTail ys := by
    intro xs
    induction xs with
    | nil => intro ys h; cases ys with
      | nil => rfl
      | cons _ _ => simp at h
    | cons x xs ih => intro ys h; cases ys with
      | nil => simp at h
      | cons y ys =>
        simp only [List.map_cons, List.cons.injEq] at h
        simp only [arrTail, goJsonString_congr h.1, ih ys h.2]
  cases xs with
  | nil => cases ys with
    | nil => rfl
    | cons _ _ => simp at h
  | cons x xs => cases ys with
    | nil => simp at h
    | cons y ys =>
      simp only [List.map_cons, List.cons.injEq] at h
      simp only [jsonArr, goJsonString_congr h.1, tail xs ys h.2]

theorem objTail_inj : ∀ (xs ys : List (Bytes × Bytes)) (r₁ r₂ : Bytes), objTail xs ++ r₁ = objTail ys ++ r₂ →
    kvView xs = kvView ys ∧ r₁ = r₂ := by
  intro xs
  induction xs with
  | nil =>
    intro ys r₁ r₂ h
    cases ys with
    | nil => simpa [objTail, kvView] using h
    | cons y ys => simp [objTail] at h
  | cons x xs ih =>
    intro ys r₁ r₂ h
    cases ys with
    | nil => simp [objTail] at h
    | cons y ys =>
      simp only [objTail, List.cons_append, List.append_assoc, List.cons.injEq, true_and] at h
      obtain ⟨e1, e2⟩ := goJsonString_inj h
      simp only [List.cons.injEq, true_and] at e2
      obtain ⟨e3, e4⟩ := goJsonString_inj e2
      obtain ⟨e5, e6⟩ := ih ys r₁ r₂ e4
      exact ⟨by simp only [kvView, List.map_cons, e1, e3, List.cons.injEq, true_and]; exact e5, e6⟩

theorem jsonObj_inj {xs ys : List (Bytes × Bytes)} {r₁ r₂ : Bytes} (h : jsonObj xs ++ r₁ = jsonObj ys ++ r₂) :
    kvView xs = kvView ys ∧ r₁ = r₂ := by
  cases xs with
  | nil =>
    cases ys with
    | nil => simpa [jsonObj, kvView] using h
    | cons y ys => simp [jsonObj, goJsonString] at h
  | cons x xs =>
    cases ys with
    | nil => simp [jsonObj, goJsonString] at h
    | cons y ys =>
      simp only [jsonObj, List.cons_append, List.append_assoc, List.cons.injEq, true_and] at h
      obtain ⟨e1, e2⟩ := goJsonString_inj h
      simp only [List.cons.injEq, true_and] at e2
      obtain ⟨e3, e4⟩ := goJsonString_inj e2
      obtain ⟨e5, e6⟩ := objTail_inj xs ys r₁ r₂ e4
      exact ⟨by simp only [kvView, List.map_cons, e1, e3, List.cons.injEq, true_and]; exact e5, e6⟩

theorem jsonObj_congr {xs ys : List (Bytes × Bytes)} (h : kvView xs = kvView ys) : jsonObj xs = jsonObj ys := by
  have tail : ∀ (xs ys : List (Bytes × Bytes)), kvView xs = kvView ys → objTail xs = objTail ys := by
    intro xs
    induction xs with
    | nil => intro ys h; cases ys with
      | nil => rfl
      | cons _ _ => simp [kvView] at h
    | cons x xs ih => intro ys h; cases ys with
      | nil => simp [kvView] at h
      | cons y ys =>
        simp only [kvView, List.map_cons, List.cons.injEq, Prod.mk.injEq] at h
        simp only [objTail, goJsonString_congr h.1.1, goJsonString_congr h.1.2, ih ys h.2]
  cases xs with
  | nil => cases ys with
    | nil => rfl
    | cons _ _ => simp [kvView] at h
  | cons x xs => cases ys with
    | nil => simp [kvView] at h
    | cons y ys =>
      simp only [kvView, List.map_cons, List.cons.injEq, Prod.mk.injEq] at h
      simp only [jsonObj, goJsonString_congr h.1.1, goJsonString_congr h.1.2, tail xs ys h.2]

/-! ## From rune-loop steps back to bytes -/

/-- ASCII strings: every byte is its own step -/
theorem tokens_ascii : ∀ (bs : Bytes), (∀ x ∈ bs, x < 0x80) → tokens bs = bs.map (fun b => Tok.lit [b]) := by
  intro bs
  induction bs with
  | nil => intro _; rfl
  | cons b0 rest ih =>
    intro h
    have hb : b0 < 0x80 := h b0 (by simp)
    rw [tokens_cons]
    simp only [decodeRune, hb, if_true, List.length_cons, List.length_nil, Nat.zero_add, Nat.sub_self,
      List.drop_zero, List.map_cons]
    rw [ih (fun x hx => h x (by simp [hx]))]

theorem tokens_inj_of_ascii {a b : Bytes} (ha : ∀ x ∈ a, x < 0x80) (hb : ∀ x ∈ b, x < 0x80)
    (h : tokens a = tokens b) : a = b := by
  rw [tokens_ascii a ha, tokens_ascii b hb] at h
  exact (List.map_inj_right (fun x y hxy => by simpa using hxy)).mp h

theorem validUtf8_cons_lit {b0 : Nat} {rest raw : Bytes} (hd : decodeRune b0 rest = some raw) :
    validUtf8 (b0 :: rest) = validUtf8 (rest.drop (raw.length - 1)) := by
  simp [validUtf8, tokens_cons, hd, Tok.isBad]

theorem validUtf8_cons_bad {b0 : Nat} {rest : Bytes} (hd : decodeRune b0 rest = none) :
    validUtf8 (b0 :: rest) = false := by
  simp [validUtf8, tokens_cons, hd, Tok.isBad]

/-- a valid UTF-8 string is the concatenation of its steps -/
theorem raw_tokens : ∀ (bs : Bytes), validUtf8 bs = true → (tokens bs).flatMap Tok.raw = bs := by
  intro bs
  induction bs using tokens_induct with
  | nil => intro _; rfl
  | lit b0 rest raw hd ih =>
    intro hv
    rw [validUtf8_cons_lit hd] at hv
    rw [tokens_cons, hd]
    simp only [List.flatMap_cons, Tok.raw, ih hv]
    obtain ⟨tl, e1, _, e3⟩ := decodeRune_some hd
    subst e1
    exact congrArg (b0 :: ·) e3.symm
  | bad b0 rest hd _ =>
    intro hv
    rw [validUtf8_cons_bad hd] at hv
    cases hv

/-- for valid UTF-8 the rune-loop steps determine the bytes -/
theorem tokens_inj_of_valid {a b : Bytes} (ha : validUtf8 a = true) (hb : validUtf8 b = true)
    (h : tokens a = tokens b) : a = b := by
  rw [← raw_tokens a ha, ← raw_tokens b hb, h]

theorem validUtf8_of_ascii {bs : Bytes} (h : ∀ x ∈ bs, x < 0x80) : validUtf8 bs = true := by
  simp [validUtf8, tokens_ascii bs h, Tok.isBad]

/-- UTF-8 decoding is injective on valid sequences -/
theorem runeOf_inj {r₁ r₂ : Bytes} (h₁ : validSeq r₁ = true) (h₂ : validSeq r₂ = true)
    (h : runeOf r₁ = runeOf r₂) : r₁ = r₂ := by
  match r₁, r₂ with
  | [], _ => simp [validSeq] at h₁
  | _ :: _ :: _ :: _ :: _ :: _, _ => simp [validSeq] at h₁
  | [_], [] => simp [validSeq] at h₂
  | [_, _], [] => simp [validSeq] at h₂
  | [_, _, _], [] => simp [validSeq] at h₂
  | [_, _, _, _], [] => simp [validSeq] at h₂
  | [_], _ :: _ :: _ :: _ :: _ :: _ => simp [validSeq] at h₂
  | [_, _], _ :: _ :: _ :: _ :: _ :: _ => simp [validSeq] at h₂
  | [_, _, _], _ :: _ :: _ :: _ :: _ :: _ => simp [validSeq] at h₂
  | [_, _, _, _], _ :: _ :: _ :: _ :: _ :: _ => simp [validSeq] at h₂
  | [a], [b] => simp only [runeOf] at h; rw [h]
  | [a], [b0, b1] =>
    have := validSeq2 h₂; simp only [validSeq, decide_eq_true_eq] at h₁; simp only [runeOf] at h; omega
  | [a], [b0, b1, b2] =>
    have := validSeq3 h₂; simp only [validSeq, decide_eq_true_eq] at h₁; simp only [runeOf] at h; omega
  | [a], [b0, b1, b2, b3] =>
    have := validSeq4 h₂; simp only [validSeq, decide_eq_true_eq] at h₁; simp only [runeOf] at h; omega
  | [a0, a1], [b] =>
    have := validSeq2 h₁; simp only [validSeq, decide_eq_true_eq] at h₂; simp only [runeOf] at h; omega
  | [a0, a1], [b0, b1] =>
    have := validSeq2 h₁; have := validSeq2 h₂; simp only [runeOf] at h
    have : a0 = b0 ∧ a1 = b1 := by refine ⟨?_, ?_⟩ <;> omega
    rw [this.1, this.2]
  | [a0, a1], [b0, b1, b2] =>
    have := validSeq2 h₁; have := validSeq3 h₂; simp only [runeOf] at h; omega
  | [a0, a1], [b0, b1, b2, b3] =>
    have := validSeq2 h₁; have := validSeq4 h₂; simp only [runeOf] at h; omega
  | [a0, a1, a2], [b] =>
    have := validSeq3 h₁; simp only [validSeq, decide_eq_true_eq] at h₂; simp only [runeOf] at h; omega
  | [a0, a1, a2], [b0, b1] =>
    have := validSeq3 h₁; have := validSeq2 h₂; simp only [runeOf] at h; omega
  | [a0, a1, a2], [b0, b1, b2] =>
    have := validSeq3 h₁; have := validSeq3 h₂; simp only [runeOf] at h
    have : a0 = b0 ∧ a1 = b1 ∧ a2 = b2 := by refine ⟨?_, ?_, ?_⟩ <;> omega
    rw [this.1, this.2.1, this.2.2]
  | [a0, a1, a2], [b0, b1, b2, b3] =>
    have := validSeq3 h₁; have := validSeq4 h₂; simp only [runeOf] at h; omega
  | [a0, a1, a2, a3], [b] =>
    have := validSeq4 h₁; simp only [validSeq, decide_eq_true_eq] at h₂; simp only [runeOf] at h; omega
  | [a0, a1, a2, a3], [b0, b1] =>
    have := validSeq4 h₁; have := validSeq2 h₂; simp only [runeOf] at h; omega
  | [a0, a1, a2, a3], [b0, b1, b2] =>
    have := validSeq4 h₁; have := validSeq3 h₂; simp only [runeOf] at h; omega
  | [a0, a1, a2, a3], [b0, b1, b2, b3] =>
    have := validSeq4 h₁; have := validSeq4 h₂; simp only [runeOf] at h
    have : a0 = b0 ∧ a1 = b1 ∧ a2 = b2 ∧ a3 = b3 := by refine ⟨?_, ?_, ?_, ?_⟩ <;> omega
    rw [this.1, this.2.1, this.2.2.1, this.2.2.2]

/-- equal rune lists of all-valid step lists are equal step lists -/
theorem toks_eq_of_runes : ∀ (ta tb : List Tok), (∀ t ∈ ta, t.WF) → (∀ t ∈ tb, t.WF) →
    ta.all (fun t => !t.isBad) = true → tb.all (fun t => !t.isBad) = true →
    ta.map Tok.rune = tb.map Tok.rune → ta = tb := by
  intro ta
  induction ta with
  | nil => intro tb _ _ _ _ h; cases tb with
    | nil => rfl
    | cons _ _ => simp at h
  | cons t ta ih =>
    intro tb wa wb va vb h
    cases tb with
    | nil => simp at h
    | cons u tb =>
      simp only [List.map_cons, List.cons.injEq] at h
      simp only [List.all_cons, Bool.and_eq_true] at va vb
      have htl := ih tb (fun x hx => wa x (by simp [hx])) (fun x hx => wb x (by simp [hx])) va.2 vb.2 h.2
      have hhd : t = u := by
        match t, u, va.1, vb.1, wa t (by simp), wb u (by simp), h.1 with
        | .lit r₁, .lit r₂, _, _, w₁, w₂, hr => rw [runeOf_inj w₁ w₂ hr]
        | .bad, _, hbad, _, _, _, _ => simp [Tok.isBad] at hbad
        | .lit _, .bad, _, hbad, _, _, _ => simp [Tok.isBad] at hbad
      rw [hhd, htl]

/-- two VALID UTF-8 byte strings with the same rune list are equal -/
theorem bytes_eq_of_runes {a b : Bytes} (ha : validUtf8 a = true) (hb : validUtf8 b = true)
    (h : runes a = runes b) : a = b :=
  tokens_inj_of_valid ha hb (toks_eq_of_runes _ _ (tokens_wf a) (tokens_wf b) ha hb h)

/-! ## Hex -/

theorem hexDigit_inj {d e : Nat} (hd : d < 16) (he : e < 16) (h : hexDigit d = hexDigit e) : d = e := by
  unfold hexDigit at h
  split at h <;> split at h <;> omega

theorem hexDigit_ascii {d : Nat} (hd : d < 16) : hexDigit d < 0x80 := by
  unfold hexDigit; split <;> omega

theorem hexEncode_ascii : ∀ (bs : Bytes), ∀ x ∈ hexEncode bs, x < 0x80 := by
  intro bs
  induction bs with
  | nil => intro x hx; simp [hexEncode] at hx
  | cons b t ih =>
    intro x hx
    simp only [hexEncode, List.mem_cons] at hx
    rcases hx with hx | hx | hx
    · subst hx; exact hexDigit_ascii (Nat.mod_lt _ (by omega))
    · subst hx; exact hexDigit_ascii (Nat.mod_lt _ (by omega))
    · exact ih x hx

theorem hexEncode_inj : ∀ (a b : Bytes), hexEncode a = hexEncode b → a.map (· % 256) = b.map (· % 256) := by
  intro a
  induction a with
  | nil => intro b h; cases b with
    | nil => rfl
    | cons _ _ => simp [hexEncode] at h
  | cons x a ih =>
    intro b h
    cases b with
    | nil => simp [hexEncode] at h
    | cons y b =>
      simp only [hexEncode, List.cons.injEq] at h
      have h1 := hexDigit_inj (Nat.mod_lt _ (by omega)) (Nat.mod_lt _ (by omega)) h.1
      have h2 := hexDigit_inj (Nat.mod_lt _ (by omega)) (Nat.mod_lt _ (by omega)) h.2.1
      have : x % 256 = y % 256 := by omega
      simp only [List.map_cons, this, ih b h.2.2]

theorem hexEncode_congr : ∀ (a b : Bytes), a.map (· % 256) = b.map (· % 256) → hexEncode a = hexEncode b := by
  intro a
  induction a with
  | nil => intro b h; cases b with
    | nil => rfl
    | cons _ _ => simp at h
  | cons x a ih =>
    intro b h
    cases b with
    | nil => simp at h
    | cons y b =>
      simp only [List.map_cons, List.cons.injEq] at h
      have h1 : x / 16 % 16 = y / 16 % 16 := by omega
      have h2 : x % 16 = y % 16 := by omega
      simp only [hexEncode, h1, h2, ih b h.2]

/-- the hex string literal determines the bytes (as bytes: modulo 256) -/
theorem hexLit_inj {a b r₁ r₂ : Bytes} (h : goJsonString (hexEncode a) ++ r₁ = goJsonString (hexEncode b) ++ r₂) :
    a.map (· % 256) = b.map (· % 256) ∧ r₁ = r₂ := by
  obtain ⟨e1, e2⟩ := goJsonString_inj h
  exact ⟨hexEncode_inj a b (tokens_inj_of_ascii (hexEncode_ascii a) (hexEncode_ascii b) e1), e2⟩

/-! ## The whole object -/

theorem bufferRest_head (h : Hashable) : ∃ t, bufferRest h = 34 :: 99 :: t := ⟨_, rfl⟩

theorem not_digit_125 : ¬ isDigit 125 := by unfold isDigit; omega
theorem not_digit_44 : ¬ isDigit 44 := by unfold isDigit; omega

theorem additionalPart_inj {xs ys : List (Bytes × Bytes)} {r₁ r₂ : Bytes}
    (h₁ : ∃ t, r₁ = 34 :: 99 :: t) (h₂ : ∃ t, r₂ = 34 :: 99 :: t)
    (h : additionalPart xs ++ r₁ = additionalPart ys ++ r₂) : kvView xs = kvView ys ∧ r₁ = r₂ := by
  obtain ⟨t₁, rfl⟩ := h₁
  obtain ⟨t₂, rfl⟩ := h₂
  cases xs with
  | nil =>
    cases ys with
    | nil => simpa [additionalPart, kvView] using h
    | cons y ys => simp [additionalPart, kAdditional] at h
  | cons x xs =>
    cases ys with
    | nil => simp [additionalPart, kAdditional] at h
    | cons y ys =>
      simp only [additionalPart, List.append_assoc] at h
      have h' := List.append_cancel_left h
      obtain ⟨e1, e2⟩ := jsonObj_inj h'
      simp only [List.cons_append, List.nil_append, List.cons.injEq, true_and] at e2
      exact ⟨e1, by rw [e2]⟩

theorem bufferRest_inj {a b : Hashable} (h : bufferRest a = bufferRest b) :
    a.clockId.map (· % 256) = b.clockId.map (· % 256) ∧ a.clockTime = b.clockTime ∧ tokens a.id = tokens b.id
      ∧ a.next.map tokens = b.next.map tokens ∧ tokens a.payload = tokens b.payload
      ∧ a.refs.map tokens = b.refs.map tokens ∧ a.v = b.v := by
  unfold bufferRest at h
  have h := List.append_cancel_left h
  obtain ⟨eCid, h⟩ := hexLit_inj h
  have h := List.append_cancel_left h
  simp only [kHashId, List.cons_append] at h
  obtain ⟨eTime, _, h⟩ := intDec_inj_term not_digit_125 not_digit_125 h
  simp only [List.cons.injEq, true_and, List.nil_append] at h
  obtain ⟨eId, h⟩ := goJsonString_inj h
  have h := List.append_cancel_left h
  obtain ⟨eNext, h⟩ := jsonArr_inj h
  have h := List.append_cancel_left h
  obtain ⟨ePayload, h⟩ := goJsonString_inj h
  have h := List.append_cancel_left h
  obtain ⟨eRefs, h⟩ := jsonArr_inj h
  have h := List.append_cancel_left h
  obtain ⟨eV, _, _⟩ := natDec_inj_term not_digit_125 not_digit_125 h
  exact ⟨eCid, eTime, eId, eNext, ePayload, eRefs, eV⟩

/-- the signed bytes determine the signed view -/
theorem toBuffer_inj {a b : Hashable} (h : toBuffer a = toBuffer b) : signedView a = signedView b := by
  simp only [toBuffer, List.cons.injEq, true_and] at h
  obtain ⟨eAdd, h⟩ := additionalPart_inj (bufferRest_head a) (bufferRest_head b) h
  obtain ⟨eCid, eTime, eId, eNext, ePayload, eRefs, eV⟩ := bufferRest_inj h
  simp only [signedView, eAdd, eCid, eTime, eId, eNext, ePayload, eRefs, eV]

theorem kvView_eq_nil {xs : List (Bytes × Bytes)} : kvView xs = [] ↔ xs = [] := by
  cases xs <;> simp [kvView]

/-- … and nothing more: entries with the same signed view have the same signed bytes -/
theorem toBuffer_congr {a b : Hashable} (h : signedView a = signedView b) : toBuffer a = toBuffer b := by
  simp only [signedView, SignedView.mk.injEq] at h
  obtain ⟨eId, ePayload, eNext, eRefs, eV, eCid, eTime, eAdd⟩ := h
  have hAdd : additionalPart (sortKV a.additional) = additionalPart (sortKV b.additional) := by
    cases ha : sortKV a.additional with
    | nil =>
      rw [ha] at eAdd
      have : sortKV b.additional = [] := kvView_eq_nil.mp eAdd.symm
      rw [this]
    | cons x xs =>
      cases hb : sortKV b.additional with
      | nil =>
        rw [hb] at eAdd
        have := kvView_eq_nil.mp eAdd
        rw [ha] at this; cases this
      | cons y ys =>
        rw [ha, hb] at eAdd
        simp only [additionalPart, jsonObj_congr eAdd]
  simp only [toBuffer, bufferRest, hAdd, goJsonString_congr eId, goJsonString_congr ePayload,
    jsonArr_congr eNext, jsonArr_congr eRefs, eV, hexEncode_congr _ _ eCid, eTime]

/-! ## Entries whose strings are valid UTF-8 -/

/-- every string of the entry is valid UTF-8, the clock id consists of bytes, and the additional-data
    list is given in key order (the canonical representation of the Go map) -/
def Hashable.Canonical (h : Hashable) : Prop :=
  validUtf8 h.id = true ∧ validUtf8 h.payload = true ∧ (∀ x ∈ h.next, validUtf8 x = true)
    ∧ (∀ x ∈ h.refs, validUtf8 x = true) ∧ (∀ x ∈ h.clockId, x < 256)
    ∧ (∀ p ∈ h.additional, validUtf8 p.1 = true ∧ validUtf8 p.2 = true) ∧ sortKV h.additional = h.additional

theorem map_tokens_inj_valid : ∀ (xs ys : List Bytes), (∀ x ∈ xs, validUtf8 x = true) →
    (∀ y ∈ ys, validUtf8 y = true) → xs.map tokens = ys.map tokens → xs = ys := by
  intro xs
  induction xs with
  | nil => intro ys _ _ h; cases ys with
    | nil => rfl
    | cons _ _ => simp at h
  | cons x xs ih =>
    intro ys hx hy h
    cases ys with
    | nil => simp at h
    | cons y ys =>
      simp only [List.map_cons, List.cons.injEq] at h
      rw [tokens_inj_of_valid (hx x (by simp)) (hy y (by simp)) h.1,
        ih ys (fun z hz => hx z (by simp [hz])) (fun z hz => hy z (by simp [hz])) h.2]

theorem map_mod_id : ∀ (l : Bytes), (∀ x ∈ l, x < 256) → l.map (· % 256) = l := by
  intro l
  induction l with
  | nil => intro _; rfl
  | cons x l ih =>
    intro h
    simp only [List.map_cons, Nat.mod_eq_of_lt (h x (by simp)), ih (fun z hz => h z (by simp [hz]))]

theorem kvView_inj_valid : ∀ (xs ys : List (Bytes × Bytes)),
    (∀ p ∈ xs, validUtf8 p.1 = true ∧ validUtf8 p.2 = true) →
    (∀ p ∈ ys, validUtf8 p.1 = true ∧ validUtf8 p.2 = true) → kvView xs = kvView ys → xs = ys := by
  intro xs
  induction xs with
  | nil => intro ys _ _ h; cases ys with
    | nil => rfl
    | cons _ _ => simp [kvView] at h
  | cons x xs ih =>
    intro ys hx hy h
    cases ys with
    | nil => simp [kvView] at h
    | cons y ys =>
      simp only [kvView, List.map_cons, List.cons.injEq, Prod.mk.injEq] at h
      have e1 := tokens_inj_of_valid (hx x (by simp)).1 (hy y (by simp)).1 h.1.1
      have e2 := tokens_inj_of_valid (hx x (by simp)).2 (hy y (by simp)).2 h.1.2
      have e3 := ih ys (fun z hz => hx z (by simp [hz])) (fun z hz => hy z (by simp [hz])) h.2
      rw [e3, Prod.ext e1 e2]

/-- on canonical entries the signed view is the entry -/
theorem signedView_inj_canonical {a b : Hashable} (ha : a.Canonical) (hb : b.Canonical)
    (h : signedView a = signedView b) : a = b := by
  obtain ⟨a1, a2, a3, a4, a5, a6, a7⟩ := ha
  obtain ⟨b1, b2, b3, b4, b5, b6, b7⟩ := hb
  simp only [signedView, SignedView.mk.injEq] at h
  obtain ⟨eId, ePayload, eNext, eRefs, eV, eCid, eTime, eAdd⟩ := h
  rw [a7, b7] at eAdd
  rw [map_mod_id _ a5, map_mod_id _ b5] at eCid
  cases a; cases b
  simp only [Hashable.mk.injEq]
  exact ⟨tokens_inj_of_valid a1 b1 eId, tokens_inj_of_valid a2 b2 ePayload, map_tokens_inj_valid _ _ a3 b3 eNext,
    map_tokens_inj_valid _ _ a4 b4 eRefs, eV, eCid, eTime, kvView_inj_valid _ _ a6 b6 eAdd⟩

/-- the coarser reading (runes) is a function of the signed view -/
theorem runeView_of_signedView {a b : Hashable} (h : signedView a = signedView b) : runeView a = runeView b := by
  simp only [signedView, SignedView.mk.injEq] at h
  obtain ⟨eId, ePayload, eNext, eRefs, eV, eCid, eTime, eAdd⟩ := h
  have lm : ∀ (xs ys : List Bytes), xs.map tokens = ys.map tokens → xs.map runes = ys.map runes := by
    intro xs ys h
    have := congrArg (List.map (List.map Tok.rune)) h
    have e : runes = fun x => (tokens x).map Tok.rune := rfl
    rw [e]
    simpa [List.map_map, Function.comp_def] using this
  have kv : (sortKV a.additional).map (fun p => (runes p.1, runes p.2))
      = (sortKV b.additional).map (fun p => (runes p.1, runes p.2)) := by
    have := congrArg (List.map (fun (q : List Tok × List Tok) => (q.1.map Tok.rune, q.2.map Tok.rune))) eAdd
    simpa [kvView, runes, List.map_map, Function.comp_def] using this
  simp only [runeView, runes, eId, ePayload, eV, eCid, eTime, RuneView.mk.injEq, true_and]
  exact ⟨lm _ _ eNext, lm _ _ eRefs, kv⟩

end Model.Json
