import Model.Codec
import Proofs.Cbor
import Model.Loaders
/-!
# Proofs.Codec — hex / base64 round trips, `ToPlain ∘ ToJsonable`, link encryption
-/
namespace Model.Codec
open Model Model.Cbor

/-! ## hex -/

theorem hexVal_hexDigit : ∀ n, n < 16 → hexVal (hexDigit n) = some n := by decide

theorem hexDecode_hexEncode (b : Bytes) (h : isBytes b = true) : hexDecode (hexEncode b) = some b := by
  induction b with
  | nil => rfl
  | cons a t ih =>
    obtain ⟨ha, ht⟩ := (isBytes_cons a t).mp h
    simp only [hexEncode, hexDecode]
    rw [hexVal_hexDigit _ (by omega), hexVal_hexDigit _ (by omega), ih ht]
    simp only
    congr 2
    omega

/-! ## base64 -/

theorem b64Val_b64Char : ∀ n, n < 64 → b64Val (b64Char n) = some n := by decide

theorem b64Char_ne_pad : ∀ n, n < 64 → b64Char n ≠ 61 := by decide

theorem b64Char_ge (n : Nat) : 43 ≤ b64Char n := by
  unfold b64Char
  repeat' split
  all_goals omega

theorem b64enc_no_newline (b : Bytes) : ∀ c ∈ b64enc b, (c != 10 && c != 13) = true := by
  induction b using b64enc.induct with
  | case1 a b c t ih =>
    intro x hx
    simp only [b64enc, List.mem_cons] at hx
    rcases hx with h | h | h | h | h
    · have := b64Char_ge (a / 4); subst h; simp; omega
    · have := b64Char_ge (a % 4 * 16 + b / 16); subst h; simp; omega
    · have := b64Char_ge (b % 16 * 4 + c / 64); subst h; simp; omega
    · have := b64Char_ge (c % 64); subst h; simp; omega
    · exact ih x h
  | case2 a b =>
    intro x hx
    simp only [b64enc, List.mem_cons, List.not_mem_nil, or_false] at hx
    rcases hx with h | h | h | h
    · have := b64Char_ge (a / 4); subst h; simp; omega
    · have := b64Char_ge (a % 4 * 16 + b / 16); subst h; simp; omega
    · have := b64Char_ge (b % 16 * 4); subst h; simp; omega
    · subst h; decide
  | case3 a =>
    intro x hx
    simp only [b64enc, List.mem_cons, List.not_mem_nil, or_false] at hx
    rcases hx with h | h | h | h
    · have := b64Char_ge (a / 4); subst h; simp; omega
    · have := b64Char_ge (a % 4 * 16); subst h; simp; omega
    · subst h; decide
    · subst h; decide
  | case4 => intro x hx; simp [b64enc] at hx

theorem b64decCore_b64enc (b : Bytes) (h : isBytes b = true) : b64decCore (b64enc b) = some b := by
  induction b using b64enc.induct with
  | case1 a b c t ih =>
    obtain ⟨ha, h⟩ := (isBytes_cons _ _).mp h
    obtain ⟨hb, h⟩ := (isBytes_cons _ _).mp h
    obtain ⟨hc, ht⟩ := (isBytes_cons _ _).mp h
    simp only [b64enc, b64decCore]
    rw [if_neg (b64Char_ne_pad _ (by omega))]
    rw [b64Val_b64Char _ (by omega), b64Val_b64Char _ (by omega), b64Val_b64Char _ (by omega),
        b64Val_b64Char _ (by omega), ih ht]
    simp only
    congr 2
    · omega
    · congr 1
      · omega
      · congr 1
        omega
  | case2 a b =>
    obtain ⟨ha, h⟩ := (isBytes_cons _ _).mp h
    obtain ⟨hb, _⟩ := (isBytes_cons _ _).mp h
    simp only [b64enc, b64decCore]
    simp only [if_true, ne_eq, not_true_eq_false, if_false]
    rw [if_neg (b64Char_ne_pad _ (by omega))]
    rw [b64Val_b64Char _ (by omega), b64Val_b64Char _ (by omega), b64Val_b64Char _ (by omega)]
    simp only
    congr 2
    · omega
    · congr 1
      omega
  | case3 a =>
    obtain ⟨ha, _⟩ := (isBytes_cons _ _).mp h
    simp only [b64enc, b64decCore]
    simp only [if_true, ne_eq, not_true_eq_false, if_false]
    rw [b64Val_b64Char _ (by omega), b64Val_b64Char _ (by omega)]
    simp only
    congr 2
    omega
  | case4 => rfl

theorem b64dec_b64enc (b : Bytes) (h : isBytes b = true) : b64dec (b64enc b) = some b := by
  unfold b64dec
  rw [List.filter_eq_self.mpr (b64enc_no_newline b)]
  exact b64decCore_b64enc b h

theorem b64enc_ne_nil (b : Bytes) (h : b ≠ []) : b64enc b ≠ [] := by
  match b, h with
  | [_], _ => simp [b64enc]
  | [_, _], _ => simp [b64enc]
  | _ :: _ :: _ :: _, _ => simp [b64enc]

/-! ## `ToPlain ∘ ToJsonable` -/

/-- the byte-string fields that go through `encoding/hex` hold bytes, the clock is set and an
    identity (if any) has its signatures: what `CreateEntry` produces and what `ToPlain` returns -/
def PIdentity.encodable (i : PIdentity) : Prop :=
  isBytes i.publicKey = true ∧ ∃ s, i.signatures = some s ∧ isBytes s.id = true ∧ isBytes s.publicKey = true

def PEntry.encodable (e : PEntry) : Prop :=
  isBytes e.key = true ∧ isBytes e.sig = true ∧ (∃ c, e.clock = some c ∧ isBytes c.id = true) ∧
  ∀ i, e.identity = some i → i.encodable

/-- the entry does not carry the two additional-data values of an encrypted-links entry -/
def noEncLinks (e : PEntry) : Prop := lookup addKeyLinks e.add = none ∨ lookup addKeyNonce e.add = none

def jSigOf (s : PSig) : JSig := { id := hexEncode s.id, publicKey := hexEncode s.publicKey }

def jIdOf (i : PIdentity) : JIdentity :=
  { id := i.id, publicKey := hexEncode i.publicKey, typ := i.typ, signatures := i.signatures.map jSigOf }

def jClockOf (c : Clock) : JClock := { id := hexEncode c.id, time := c.time }

/-- the serialisable form of an entry without encrypted links, `V ≥ 2` -/
def jV2Of (e : PEntry) : JEntry :=
  { v := e.v, logId := e.logId, key := hexEncode e.key, sig := hexEncode e.sig, next := e.next, refs := e.refs,
    clock := e.clock.map jClockOf, payload := e.payload, identity := e.identity.map jIdOf }

theorem toJsonableIdentity_eq (i : PIdentity) (h : i.encodable) : toJsonableIdentity i = .ok (jIdOf i) := by
  obtain ⟨_, s, hs, _, _⟩ := h
  simp [toJsonableIdentity, toJsonableSig, hs, Outcome.bind, jIdOf, jSigOf]

theorem toPlainIdentity_jIdOf (i : PIdentity) (h : i.encodable) : toPlainIdentity (jIdOf i) = .ok i := by
  obtain ⟨hpk, s, hs, hsi, hsp⟩ := h
  simp only [toPlainIdentity, jIdOf, hs, Option.map, jSigOf, toPlainSig, hexDecode_hexEncode _ hpk, hexDecode_hexEncode _ hsi,
    hexDecode_hexEncode _ hsp]
  cases i; cases s; simp_all

theorem toJsonableIdentityOpt_eq (o : Option PIdentity) (h : ∀ i, o = some i → i.encodable) :
    toJsonableIdentityOpt o = .ok (o.map jIdOf) := by
  cases o with
  | none => rfl
  | some i => simp [toJsonableIdentityOpt, toJsonableIdentity_eq i (h i rfl), Outcome.bind]

theorem jsonOf_v2 (cidStr : Bytes → Bytes) (e : PEntry) (hv : 2 ≤ e.v) (h : e.encodable) (ha : noEncLinks e) :
    jsonOf cidStr e = .ok (.v2 (jV2Of e)) := by
  obtain ⟨_, _, ⟨c, hc, _⟩, hi⟩ := h
  have hv0 : ¬ e.v = 0 := by omega
  have hv1 : ¬ e.v = 1 := by omega
  have hv2 : e.v > 1 := by omega
  simp only [jsonOf, normalize, hc, Outcome.bind, toJsonableEntry, toJsonableIdentityOpt_eq _ hi, toJsonableClock, hv0, hv1, hv2,
    if_true, if_false, jV2Of, Option.map, jClockOf]
  rcases ha with ha | ha <;> simp [ha]

theorem jsonOf_v1 (cidStr : Bytes → Bytes) (e : PEntry) (hv : e.v = 1) (h : e.encodable) :
    jsonOf cidStr e = .ok (.v1 { jV2Of e with refs := none }) := by
  obtain ⟨_, _, ⟨c, hc, _⟩, hi⟩ := h
  simp [jsonOf, normalize, hc, Outcome.bind, toJsonableEntry, toJsonableIdentityOpt_eq _ hi, toJsonableClock, hv,
    jV2Of, Option.map, jClockOf]

theorem toPlain_jV2Of (e : PEntry) (h : e.encodable) : toPlainEntry (jV2Of e) = .ok { e with hash := none, add := [] } := by
  obtain ⟨hk, hs, ⟨c, hc, hci⟩, hi⟩ := h
  cases hid : e.identity with
  | none =>
    simp only [toPlainEntry, toPlainIdentityOpt, jV2Of, hc, hid, Option.map, jClockOf, hexDecode_hexEncode _ hk, hexDecode_hexEncode _ hs, toPlainClock,
      hexDecode_hexEncode _ hci]
  | some i =>
    simp only [toPlainEntry, toPlainIdentityOpt, jV2Of, hc, hid, Option.map, jClockOf, hexDecode_hexEncode _ hk, hexDecode_hexEncode _ hs, toPlainClock,
      hexDecode_hexEncode _ hci, toPlainIdentity_jIdOf i (hi i hid)]

/-- the jsonable-level fields do not depend on how the additional-data map is laid out, only on what
    its keys map to (Go map iteration order cannot influence the block) -/
theorem jsonOf_add_congr (cidStr : Bytes → Bytes) (e : PEntry) (a1 a2 : List (Bytes × Bytes))
    (h : ∀ k, lookup k a1 = lookup k a2) :
    jsonOf cidStr { e with add := a1 } = jsonOf cidStr { e with add := a2 } := by
  simp only [jsonOf, normalize]
  cases e.clock with
  | none => rfl
  | some c =>
    simp only [Outcome.bind, toJsonableEntry, h]

/-! ## everything fits the CBOR heads -/

theorem hexEncode_length (b : Bytes) : (hexEncode b).length = 2 * b.length := by
  induction b with
  | nil => rfl
  | cons a t ih => simp [hexEncode, ih]; omega

def PSig.fits (s : PSig) : Prop := 2 * s.id.length < two64 ∧ 2 * s.publicKey.length < two64

def PIdentity.fits (i : PIdentity) : Prop :=
  i.id.length < two64 ∧ 2 * i.publicKey.length < two64 ∧ i.typ.length < two64 ∧ ∀ s, i.signatures = some s → s.fits

/-- `V` is a `uint64`, the clock time an `int64`, every string/slice length (after hex encoding) is
    below 2^64 — true of every value a Go program can hold -/
def PEntry.fits (e : PEntry) : Prop :=
  e.v < two64 ∧ e.logId.length < two64 ∧ 2 * e.key.length < two64 ∧ 2 * e.sig.length < two64 ∧
  linksWf e.next ∧ linksWf e.refs ∧
  (∀ c, e.clock = some c → 2 * c.id.length < two64 ∧ -9223372036854775808 ≤ c.time ∧ c.time < 9223372036854775808) ∧
  e.payload.length < two64 ∧ (∀ i, e.identity = some i → i.fits)

theorem jV2Of_wf (e : PEntry) (h : e.fits) : (jV2Of e).wf := by
  obtain ⟨h1, h2, h3, h4, h5, h6, h7, h8, h9⟩ := h
  refine ⟨h1, h2, by simpa [jV2Of, hexEncode_length] using h3, by simpa [jV2Of, hexEncode_length] using h4, h5, h6, ?_, h8, ?_,
    by simp [jV2Of, two64], by simp [jV2Of, two64]⟩
  · intro c hc
    simp only [jV2Of, Option.map_eq_some_iff] at hc
    obtain ⟨pc, hpc, rfl⟩ := hc
    obtain ⟨a, b, c⟩ := h7 pc hpc
    exact ⟨by simpa [jClockOf, hexEncode_length] using a, b, c⟩
  · intro i hi
    simp only [jV2Of, Option.map_eq_some_iff] at hi
    obtain ⟨pi, hpi, rfl⟩ := hi
    obtain ⟨a, b, c, d⟩ := h9 pi hpi
    refine ⟨a, by simpa [jIdOf, hexEncode_length] using b, c, ?_⟩
    intro s hs
    simp only [jIdOf, Option.map_eq_some_iff] at hs
    obtain ⟨ps, hps, rfl⟩ := hs
    obtain ⟨x, y⟩ := d ps hps
    exact ⟨by simpa [jSigOf, hexEncode_length] using x, by simpa [jSigOf, hexEncode_length] using y⟩

/-! ## `uniqueCIDs` -/

theorem uniq_subset (l : List Bytes) : ∀ c, c ∈ uniq l → c ∈ l := by
  induction l with
  | nil => intro c h; simp [uniq] at h
  | cons a t ih =>
    intro c h
    simp only [uniq, List.mem_cons, List.mem_filter] at h
    rcases h with h | ⟨h, _⟩
    · simp [h]
    · simp [ih c h]

theorem uniq_length_le (l : List Bytes) : (uniq l).length ≤ l.length := by
  induction l with
  | nil => simp [uniq]
  | cons a t ih =>
    simp only [uniq, List.length_cons]
    have := List.length_filter_le (fun x => x != a) (uniq t)
    omega

theorem uniq_filter (p : Bytes → Bool) (l : List Bytes) : uniq (l.filter p) = (uniq l).filter p := by
  induction l with
  | nil => simp [uniq]
  | cons a t ih =>
    by_cases hp : p a = true
    · simp only [List.filter_cons, hp, if_true, uniq, ih, List.filter_filter]
      congr 1
      apply List.filter_congr
      intro x _
      exact Bool.and_comm _ _
    · simp only [List.filter_cons, hp, uniq, List.filter_filter]
      simp only [Bool.false_eq_true, if_false]
      rw [ih]
      apply List.filter_congr
      intro x _
      by_cases hx : x = a
      · subst hx; simp [hp]
      · simp [hx]

theorem uniq_idem (l : List Bytes) : uniq (uniq l) = uniq l := by
  induction l with
  | nil => simp [uniq]
  | cons a t ih =>
    simp only [uniq]
    rw [uniq_filter, ih, List.filter_filter]
    simp

theorem linksWf_uniqOpt (o : Option (List Bytes)) (h : linksWf o) : linksWf (uniqOpt o) := by
  cases o with
  | none => simp [uniqOpt, uniq, linksWf, two64]
  | some l =>
    obtain ⟨h1, h2⟩ := h
    refine ⟨?_, fun c hc => h2 c (uniq_subset l c hc)⟩
    have := uniq_length_le l
    simp only [Option.getD_some]
    omega

theorem linksDefined_uniqOpt (o : Option (List Bytes)) (h : linksDefined o = true) : linksDefined (uniqOpt o) = true := by
  cases o with
  | none => simp [uniqOpt, uniq, linksDefined]
  | some l =>
    simp only [linksDefined, List.all_eq_true, uniqOpt, Option.getD_some] at h ⊢
    exact fun c hc => h c (uniq_subset l c hc)

theorem uniqOpt_idem (o : Option (List Bytes)) : uniqOpt (uniqOpt o) = uniqOpt o := by
  simp [uniqOpt, uniq_idem]

theorem lenOpt_uniqOpt_zero (o : Option (List Bytes)) : lenOpt (uniqOpt o) = 0 ↔ lenOpt o = 0 := by
  cases o with
  | none => simp [uniqOpt, uniq, lenOpt]
  | some l =>
    cases l with
    | nil => simp [uniqOpt, uniq, lenOpt]
    | cons a t => simp [uniqOpt, uniq, lenOpt]

/-! ## additional data -/

theorem lookup_upsert_same (k v : Bytes) (a : List (Bytes × Bytes)) : lookup k (upsert k v a) = some v := by
  induction a with
  | nil => simp [upsert, lookup]
  | cons p t ih =>
    obtain ⟨k', v'⟩ := p
    by_cases h : k' = k
    · simp [upsert, h, lookup]
    · simp [upsert, h, lookup, ih]

theorem lookup_upsert_other (k k2 v : Bytes) (a : List (Bytes × Bytes)) (hne : k2 ≠ k) :
    lookup k2 (upsert k v a) = lookup k2 a := by
  induction a with
  | nil => simp [upsert, lookup, Ne.symm hne]
  | cons p t ih =>
    obtain ⟨k', v'⟩ := p
    by_cases h : k' = k
    · subst h
      simp [upsert, lookup, Ne.symm hne]
    · by_cases h2 : k' = k2
      · subst h2
        simp [upsert, h, lookup]
      · simp [upsert, h, lookup, h2, ih]

theorem addKeys_ne : addKeyLinks ≠ addKeyNonce := by decide

/-! ## tag 42 appears exactly where there are links -/

theorem hasTag42List_links (l : List Bytes) : hasTag42List (l.map linkItem) = !l.isEmpty := by
  cases l with
  | nil => simp [hasTag42List]
  | cons a t => simp [hasTag42List, hasTag42, linkItem]

theorem hasTag42_linksItem (o : Option (List Bytes)) : hasTag42 (linksItem o) = decide (lenOpt o ≠ 0) := by
  cases o with
  | none => simp [linksItem, hasTag42, lenOpt]
  | some l =>
    cases l with
    | nil => simp [linksItem, hasTag42, lenOpt, hasTag42List]
    | cons a t => simp [linksItem, hasTag42, lenOpt, hasTag42List, linkItem]

theorem hasTag42_clockItem (o : Option JClock) : hasTag42 (clockItem o) = false := by
  cases o with
  | none => simp [clockItem, hasTag42]
  | some c =>
    simp only [clockItem, hasTag42, hasTag42Map, intItem]
    split <;> simp [hasTag42]

theorem hasTag42_sigItem (o : Option JSig) : hasTag42 (sigItem o) = false := by
  cases o <;> simp [sigItem, hasTag42, hasTag42Map]

theorem hasTag42_identityItem (o : Option JIdentity) : hasTag42 (identityItem o) = false := by
  cases o <;> simp [identityItem, hasTag42, hasTag42Map, hasTag42_sigItem]

theorem hasTag42Map_append (a b : List (Bytes × Item)) : hasTag42Map (a ++ b) = (hasTag42Map a || hasTag42Map b) := by
  induction a with
  | nil => simp [hasTag42Map]
  | cons p t ih =>
    obtain ⟨k, v⟩ := p
    simp [hasTag42Map, ih, Bool.or_assoc]

theorem hasTag42_entryItem (j : JEntry) :
    hasTag42 (entryItem j) = (decide (lenOpt j.next ≠ 0) || decide (lenOpt j.refs ≠ 0)) := by
  have he : hasTag42Map (encLinksFields j) = false := by
    unfold encLinksFields
    by_cases h1 : j.encLinks = [] <;> by_cases h2 : j.encNonce = [] <;> simp [h1, h2, hasTag42Map, hasTag42]
  simp only [entryItem, hasTag42, hasTag42Map_append, he, hasTag42Map, hasTag42_linksItem, hasTag42_clockItem,
    hasTag42_identityItem]
  simp

/-! ## link encryption -/

/-- the plaintext that is sealed: the whole `EntryV2` struct with only `next`/`refs` set -/
def linksBlock (e : PEntry) : Bytes := cborEntry { next := uniqOpt e.next, refs := uniqOpt e.refs }

/-- the serialisable value stored for an entry created with link key `k` (`ref` = nonce reference) -/
def storedJ (C : Crypto) (k ref : Bytes) (e : PEntry) : JEntry :=
  { jV2Of (copyEntry e) with
    next := some [], refs := some [],
    encLinks := b64enc (C.sealBox k (C.deriveNonce ref) (linksBlock e)),
    encNonce := b64enc (C.deriveNonce ref) }

/-- what the theorems about link encryption assume of the entry: version 2 (what `CreateEntry`
    sets), at least one link, a clock, hex-able byte fields, defined links -/
structure LinkEntry (e : PEntry) : Prop where
  hv : 2 ≤ e.v
  hlinks : lenOpt e.next ≠ 0 ∨ lenOpt e.refs ≠ 0
  henc : e.encodable
  hdefN : linksDefined e.next = true
  hdefR : linksDefined e.refs = true
  hwfN : linksWf e.next
  hwfR : linksWf e.refs
  hbN : linksBytes e.next
  hbR : linksBytes e.refs

theorem copyEntry_encodable (e : PEntry) (h : e.encodable) : (copyEntry e).encodable := h

theorem storedView_eq (C : Crypto) (cidStr : Bytes → Bytes) (k : Bytes) (e : PEntry) (h : LinkEntry e) :
    ∃ ref, nonceRef cidStr (copyEntry e) = .ok ref ∧
      storedView C cidStr (some k) e = .ok (.v2 (storedJ C k ref e)) := by
  obtain ⟨hv, hl, henc, hdn, hdr, hwn, hwr, hbn, hbr⟩ := h
  obtain ⟨_, _, ⟨c, hc, _⟩, hi⟩ := henc
  have hc' : (copyEntry e).clock = some c := hc
  have hnl : ¬ (lenOpt e.next = 0 ∧ lenOpt e.refs = 0) := by omega
  have hd : (linksDefined (uniqOpt e.next) && linksDefined (uniqOpt e.refs)) = true := by
    simp [linksDefined_uniqOpt _ hdn, linksDefined_uniqOpt _ hdr]
  have hv0 : ¬ e.v = 0 := by omega
  have hv1 : ¬ e.v = 1 := by omega
  have hv2 : e.v > 1 := by omega
  simp only [nonceRef, hc']
  refine ⟨_, rfl, ?_⟩
  simp only [storedView, preSign, hnl, if_false, copyEntry, hd, Bool.not_true, Bool.false_eq_true, nonceRef, hc, Outcome.bind,
    jsonOf, normalize, toJsonableEntry, toJsonableIdentityOpt_eq _ hi, toJsonableClock, hv0, hv1, hv2, if_true,
    lookup_upsert_same, lookup_upsert_other _ _ _ _ addKeys_ne]
  simp [storedJ, jV2Of, copyEntry, hc, jClockOf, linksBlock]

theorem linksBlock_decode (e : PEntry) (hn : linksWf e.next) (hr : linksWf e.refs) :
    decodeEntry (linksBlock e) = some { next := uniqOpt e.next, refs := uniqOpt e.refs } := by
  apply entry_roundtrip
  refine ⟨by simp [two64], by simp [two64], by simp [two64], by simp [two64], linksWf_uniqOpt _ hn, linksWf_uniqOpt _ hr,
    by simp, by simp [two64], by simp, by simp [two64], by simp [two64]⟩

theorem storedJ_enc_ne (C : Crypto) (L : CryptoLaws C) (k ref : Bytes) (e : PEntry) (hk : keyOk k) :
    (storedJ C k ref e).encLinks ≠ [] ∧ (storedJ C k ref e).encNonce ≠ [] :=
  ⟨b64enc_ne_nil _ (L.seal_ne _ _ _ hk), b64enc_ne_nil _ (L.nonce_ne _)⟩

theorem linksBytes_uniqOpt (o : Option (List Bytes)) (h : linksBytes o) : linksBytes (uniqOpt o) := by
  cases o with
  | none => intro c hc; simp [uniq] at hc
  | some l => exact fun c hc => h c (uniq_subset l c hc)

theorem isBytes_linksBlock (e : PEntry) (hn : linksWf e.next) (hr : linksWf e.refs) (bn : linksBytes e.next)
    (br : linksBytes e.refs) : isBytes (linksBlock e) = true :=
  isBytes_cborEntry_links _ _ (linksWf_uniqOpt _ hn) (linksWf_uniqOpt _ hr) (linksBytes_uniqOpt _ bn) (linksBytes_uniqOpt _ br)

/-- a reader with the same key gets the links back -/
theorem decryptLinks_same_key (C : Crypto) (L : CryptoLaws C) (k ref : Bytes) (e : PEntry) (hk : keyOk k)
    (hn : linksWf e.next) (hr : linksWf e.refs) (bn : linksBytes e.next) (br : linksBytes e.refs) :
    decryptLinks C (some k) (storedJ C k ref e) =
      .ok { storedJ C k ref e with next := uniqOpt e.next, refs := uniqOpt e.refs } := by
  obtain ⟨h1, h2⟩ := storedJ_enc_ne C L k ref e hk
  have hb := L.seal_bytes k (C.deriveNonce ref) _ hk (isBytes_linksBlock e hn hr bn br)
  simp only [decryptLinks, h1, h2, or_self, if_false]
  simp only [storedJ, b64dec_b64enc _ hb, b64dec_b64enc _ (L.nonce_bytes _), L.open_seal _ _ _ hk,
    linksBlock_decode e hn hr]

/-- a reader with another key gets an error -/
theorem decryptLinks_other_key (C : Crypto) (L : CryptoLaws C) (k k' ref : Bytes) (e : PEntry) (hk : keyOk k)
    (hk' : keyOk k') (hne : k ≠ k')
    (hn : linksWf e.next) (hr : linksWf e.refs) (bn : linksBytes e.next) (br : linksBytes e.refs) :
    decryptLinks C (some k') (storedJ C k ref e) = .err .decrypt := by
  obtain ⟨h1, h2⟩ := storedJ_enc_ne C L k ref e hk
  have hb := L.seal_bytes k (C.deriveNonce ref) _ hk (isBytes_linksBlock e hn hr bn br)
  simp only [decryptLinks, h1, h2, or_self, if_false]
  simp only [storedJ, b64dec_b64enc _ hb, b64dec_b64enc _ (L.nonce_bytes _), L.wrong_key _ _ _ _ hk hk' hne]

/-- a reader without key gets the stored value: no links -/
theorem decryptLinks_no_key (C : Crypto) (j : JEntry) : decryptLinks C none j = .ok j := rfl

theorem toPlain_storedJ_links (C : Crypto) (k ref : Bytes) (e : PEntry) (h : e.encodable) (nx rf : Option (List Bytes)) :
    toPlainEntry { storedJ C k ref e with next := nx, refs := rf } =
      .ok { e with next := nx, refs := rf, hash := none, add := [] } := by
  obtain ⟨hk, hs, ⟨c, hc, hci⟩, hi⟩ := h
  cases hid : e.identity with
  | none =>
    simp only [toPlainEntry, toPlainIdentityOpt, storedJ, jV2Of, copyEntry, hc, hid, Option.map, jClockOf, hexDecode_hexEncode _ hk,
      hexDecode_hexEncode _ hs, toPlainClock, hexDecode_hexEncode _ hci]
  | some i =>
    simp only [toPlainEntry, toPlainIdentityOpt, storedJ, jV2Of, copyEntry, hc, hid, Option.map, jClockOf, hexDecode_hexEncode _ hk,
      hexDecode_hexEncode _ hs, toPlainClock, hexDecode_hexEncode _ hci, toPlainIdentity_jIdOf i (hi i hid)]

/-- the entry a reader with the same key obtains (`hh` = the block's CID) -/
def readBack (e : PEntry) (hh : Bytes) : PEntry :=
  { e with next := uniqOpt e.next, refs := uniqOpt e.refs, hash := some hh, add := [] }

def preSignedOf (C : Crypto) (k ref : Bytes) (e : PEntry) : PEntry :=
  { copyEntry e with
    add := upsert addKeyNonce (b64enc (C.deriveNonce ref))
             (upsert addKeyLinks (b64enc (C.sealBox k (C.deriveNonce ref) (linksBlock e))) e.add) }

theorem preSign_ok (C : Crypto) (cidStr : Bytes → Bytes) (k : Bytes) (e : PEntry) (h : LinkEntry e) :
    ∃ ref, nonceRef cidStr (copyEntry e) = .ok ref ∧ preSign C cidStr (some k) e = .ok (preSignedOf C k ref e) := by
  obtain ⟨hv, hl, henc, hdn, hdr, hwn, hwr, hbn, hbr⟩ := h
  obtain ⟨_, _, ⟨c, hc, _⟩, hi⟩ := henc
  have hc' : (copyEntry e).clock = some c := hc
  have hnl : ¬ (lenOpt e.next = 0 ∧ lenOpt e.refs = 0) := by omega
  have hd : (linksDefined (uniqOpt e.next) && linksDefined (uniqOpt e.refs)) = true := by
    simp [linksDefined_uniqOpt _ hdn, linksDefined_uniqOpt _ hdr]
  simp only [nonceRef, hc']
  refine ⟨_, rfl, ?_⟩
  simp only [preSign, hnl, if_false, copyEntry, hd, Bool.not_true, Bool.false_eq_true, nonceRef, hc, Outcome.bind]
  simp [preSignedOf, copyEntry, linksBlock, hc]

theorem linkEntry_readBack (e : PEntry) (hh : Bytes) (h : LinkEntry e) : LinkEntry (readBack e hh) := by
  obtain ⟨hv, hl, henc, hdn, hdr, hwn, hwr, hbn, hbr⟩ := h
  refine ⟨hv, ?_, henc, linksDefined_uniqOpt _ hdn, linksDefined_uniqOpt _ hdr, linksWf_uniqOpt _ hwn, linksWf_uniqOpt _ hwr,
    linksBytes_uniqOpt _ hbn, linksBytes_uniqOpt _ hbr⟩
  simp only [readBack, ne_eq, lenOpt_uniqOpt_zero]
  exact hl

/-- `PreSign` of the entry read back with the same key reproduces the additional data (hence the
    signed bytes) of the entry that was created -/
theorem preSign_readBack (C : Crypto) (cidStr : Bytes → Bytes) (k : Bytes) (e : PEntry) (hh : Bytes) (h : LinkEntry e)
    (hadd : e.add = []) :
    ∃ p, preSign C cidStr (some k) e = .ok p ∧
      preSign C cidStr (some k) (readBack e hh) = .ok { p with hash := some hh } := by
  obtain ⟨ref, hr, hp⟩ := preSign_ok C cidStr k e h
  obtain ⟨ref', hr', hp'⟩ := preSign_ok C cidStr k (readBack e hh) (linkEntry_readBack e hh h)
  have e1 : copyEntry (readBack e hh) = { copyEntry e with hash := some hh, add := [] } := by
    simp [copyEntry, readBack, uniqOpt_idem]
  have e2 : nonceRef cidStr (copyEntry (readBack e hh)) = nonceRef cidStr (copyEntry e) := by
    rw [e1]; rfl
  have e3 : ref' = ref := by
    rw [e2, hr] at hr'
    injection hr' with hr'
    exact hr'.symm
  subst e3
  refine ⟨_, hp, ?_⟩
  rw [hp']
  simp [preSignedOf, linksBlock, readBack, uniqOpt_idem, hadd, copyEntry]

theorem toHashable_hash_irrelevant (p : PEntry) (hh : Option Bytes) : toHashable { p with hash := hh } = toHashable p := rfl

/-- … so `Verify` gives the same verdict on it as on the created entry -/
theorem verify_readBack (C : Crypto) (cidStr : Bytes → Bytes) (k : Bytes) (sigOk : Hashable → Bytes → Bytes → Bool)
    (e : PEntry) (hh : Bytes) (h : LinkEntry e) (hadd : e.add = []) :
    opVerify C cidStr (some k) sigOk (readBack e hh) = opVerify C cidStr (some k) sigOk e := by
  obtain ⟨p, h1, h2⟩ := preSign_readBack C cidStr k e hh h hadd
  simp only [opVerify, h1, h2, Outcome.bind, toHashable_hash_irrelevant]
  rfl

/-! ## nothing panics while decoding -/

theorem toPlainClock_total (c : JClock) : toPlainClock c ≠ .panic := by
  unfold toPlainClock; split <;> simp

theorem toPlainSig_total (s : JSig) : toPlainSig s ≠ .panic := by
  unfold toPlainSig; repeat' split
  all_goals simp

theorem toPlainIdentity_total (i : JIdentity) : toPlainIdentity i ≠ .panic := by
  unfold toPlainIdentity
  repeat' split
  all_goals (try simp)
  all_goals exact absurd ‹_› (toPlainSig_total _)

theorem toPlainIdentityOpt_total (o : Option JIdentity) : toPlainIdentityOpt o ≠ .panic := by
  unfold toPlainIdentityOpt
  repeat' split
  all_goals (try simp)
  all_goals exact absurd ‹_› (toPlainIdentity_total _)

theorem toPlainEntry_total (j : JEntry) : toPlainEntry j ≠ .panic := by
  unfold toPlainEntry
  repeat' split
  all_goals (try simp)
  all_goals first
    | exact absurd ‹_› (toPlainClock_total _)
    | exact absurd ‹_› (toPlainIdentityOpt_total _)

theorem toPlainEntryV0_total (parseCid : Bytes → Option Bytes) (j : JEntryV0) : toPlainEntryV0 parseCid j ≠ .panic := by
  unfold toPlainEntryV0
  simp only
  repeat' split
  all_goals (try simp)
  all_goals exact absurd ‹_› (toPlainClock_total _)

theorem decryptLinks_total (C : Crypto) (k : Option Bytes) (j : JEntry) : decryptLinks C k j ≠ .panic := by
  unfold decryptLinks
  repeat' split
  all_goals simp

theorem decodeJEntry_total (C : Crypto) (k : Option Bytes) (h : Bytes) (j : JEntry) : decodeJEntry C k h j ≠ .panic := by
  unfold decodeJEntry
  cases hd : decryptLinks C k j with
  | panic => exact absurd hd (decryptLinks_total C k j)
  | err e => simp [Outcome.bind]
  | ok j' =>
    cases hp : toPlainEntry j' with
    | panic => exact absurd hp (toPlainEntry_total j')
    | err e => simp [Outcome.bind, hp]
    | ok e => simp [Outcome.bind, hp]

theorem decodeRawEntry_total (C : Crypto) (k : Option Bytes) (h raw : Bytes) : decodeRawEntry C k h raw ≠ .panic := by
  unfold decodeRawEntry
  split
  · simp
  · exact decodeJEntry_total C k h _

/-! ## a decoded entry is safe to use -/

theorem toPlainIdentity_sigs (i : JIdentity) (p : PIdentity) (h : toPlainIdentity i = .ok p) : p.signatures.isSome = true := by
  unfold toPlainIdentity at h
  repeat' split at h
  all_goals first | (injection h with h; subst h; rfl) | (exact absurd h (by simp))

theorem toPlainIdentityOpt_sigs (o : Option JIdentity) (p : Option PIdentity) (h : toPlainIdentityOpt o = .ok p) :
    ∀ i, p = some i → i.signatures.isSome = true := by
  unfold toPlainIdentityOpt at h
  split at h
  · injection h with h; subst h; intro i hi; simp at hi
  · split at h
    · simp at h
    · simp at h
    · injection h with h; subst h
      intro i hi
      simp only [Option.some.injEq] at hi; subst hi
      exact toPlainIdentity_sigs _ _ ‹_›

theorem toPlainEntry_clock (j : JEntry) (e : PEntry) (h : toPlainEntry j = .ok e) :
    e.clock.isSome = true ∧ ∀ i, e.identity = some i → i.signatures.isSome = true := by
  unfold toPlainEntry at h
  repeat' split at h
  all_goals (try (simp at h; done))
  injection h with h; subst h
  exact ⟨rfl, toPlainIdentityOpt_sigs _ _ ‹_›⟩

/-- what `ToPlain` guarantees of its result: the clock pointer is set, an identity has signatures -/
def safeEntry (e : PEntry) : Prop :=
  e.clock.isSome = true ∧ ∀ i, e.identity = some i → i.signatures.isSome = true

theorem toJsonableIdentityOpt_safe (o : Option PIdentity) (h : ∀ i, o = some i → i.signatures.isSome = true) :
    toJsonableIdentityOpt o ≠ .panic := by
  cases o with
  | none => simp [toJsonableIdentityOpt]
  | some i =>
    have := h i rfl
    cases hs : i.signatures with
    | none => simp [hs] at this
    | some s => simp [toJsonableIdentityOpt, toJsonableIdentity, toJsonableSig, hs, Outcome.bind]

theorem jsonOf_safe (cidStr : Bytes → Bytes) (e : PEntry) (h : safeEntry e) : jsonOf cidStr e ≠ .panic := by
  obtain ⟨hc, hi⟩ := h
  cases hcl : e.clock with
  | none => simp [hcl] at hc
  | some c =>
    simp only [jsonOf, normalize, hcl, Outcome.bind, toJsonableEntry, toJsonableClock]
    cases hj : toJsonableIdentityOpt e.identity with
    | panic => exact absurd hj (toJsonableIdentityOpt_safe _ hi)
    | err x => simp
    | ok idn =>
      simp only
      repeat' split
      all_goals simp

theorem preSign_safe (C : Crypto) (cidStr : Bytes → Bytes) (k : Option Bytes) (e : PEntry) (h : e.clock.isSome = true) :
    preSign C cidStr k e ≠ .panic ∧ ∀ p, preSign C cidStr k e = .ok p → p.clock.isSome = true := by
  cases hcl : e.clock with
  | none => simp [hcl] at h
  | some c =>
    cases k with
    | none => simp [preSign, hcl]
    | some k =>
      simp only [preSign]
      split
      · simp [hcl]
      · split
        · simp
        · simp [nonceRef, copyEntry, hcl, Outcome.bind]

theorem safe_ops (C : Crypto) (cidStr : Bytes → Bytes) (k : Option Bytes) (sigOk : Hashable → Bytes → Bytes → Bool)
    (pre : Bool) (a b : PEntry) (ha : safeEntry a) (hb : safeEntry b) :
    opClockTime a ≠ .panic ∧ opCompare a b ≠ .panic ∧ opEquals a b ≠ .panic ∧ opIsParent a b ≠ .panic ∧
    toHashable a ≠ .panic ∧ normalize pre a ≠ .panic ∧ jsonOf cidStr a ≠ .panic ∧ writeEntry cidStr a ≠ .panic ∧
    preSign C cidStr k a ≠ .panic ∧ opVerify C cidStr k sigOk a ≠ .panic := by
  have hj := jsonOf_safe cidStr a ha
  obtain ⟨hp1, hp2⟩ := preSign_safe C cidStr k a ha.1
  obtain ⟨hca, _⟩ := ha
  obtain ⟨hcb, _⟩ := hb
  cases hcl : a.clock with
  | none => simp [hcl] at hca
  | some ca =>
  cases hclb : b.clock with
  | none => simp [hclb] at hcb
  | some cb =>
  refine ⟨by simp [opClockTime, hcl], by simp [opCompare, hcl, hclb], by simp [opEquals], by simp [opIsParent],
    by simp [toHashable, hcl], by simp [normalize, hcl], hj, ?_, hp1, ?_⟩
  · unfold writeEntry
    cases hjo : jsonOf cidStr a with
    | panic => exact absurd hjo hj
    | err x => simp [Outcome.bind]
    | ok any =>
      simp only [Outcome.bind]
      repeat' split
      all_goals simp
  · unfold opVerify
    split
    · simp
    · split
      · simp
      · cases hpo : preSign C cidStr k a with
        | panic => exact absurd hpo hp1
        | err x => simp [Outcome.bind]
        | ok p =>
          have := hp2 p hpo
          cases hpc : p.clock with
          | none => simp [hpc] at this
          | some c =>
            simp only [Outcome.bind, toHashable, hpc]
            split <;> simp

/-! ## stored logs: undecodable blocks are skipped -/

theorem get?_mem (E : List Entry) (h : Hash) (e : Entry) (hg : get? E h = some e) : e ∈ E :=
  List.mem_of_find?_eq_some hg

theorem reachLoop_subset (store : List Entry) : ∀ (fuel : Nat) (st seen : List Hash) (res : List Entry),
    (∀ e ∈ res, e ∈ store) → ∀ e ∈ reachLoop store fuel st seen res, e ∈ store := by
  intro fuel
  induction fuel with
  | zero => intro st seen res h e he; simpa [reachLoop] using h e (by simpa [reachLoop] using he)
  | succ f ih =>
    intro st seen res h e he
    cases st with
    | nil => exact h e (by simpa [reachLoop] using he)
    | cons x t =>
      simp only [reachLoop] at he
      split at he
      · exact ih _ _ _ h e he
      · split at he
        · exact ih _ _ _ h e he
        · rename_i ent hg
          refine ih _ _ _ ?_ e he
          intro y hy
          simp only [List.mem_append, List.mem_singleton] at hy
          rcases hy with hy | hy
          · exact h y hy
          · subst hy; exact get?_mem _ _ _ hg

theorem reach_subset (store : List Entry) (roots : List Hash) : ∀ e ∈ reach store roots, e ∈ store :=
  reachLoop_subset store _ _ _ _ (by simp)

end Model.Codec
