import Proofs.Join
/-!
# Proofs.Values — `Values()` is a complete, duplicate-free, causally ordered, sorted linearisation
and depends only on the entry set (C03, and the value parts of C01 / C05)
-/
namespace Model

/-- the configured ordering is a strict total order on the entries present:
    always for the hash tie-break, for the default ordering when no two entries tie;
    first-write-wins reverses clock time and is not a causal ordering -/
def OrderOk (k : SortKind) (E : List Entry) : Prop :=
  match k with
  | .byHash => True
  | .lww => ∀ a ∈ E, ∀ b ∈ E, a ≠ b → keyNe a b
  | .fww => False

theorem before_byHash : before .byHash = ltHash := rfl
theorem before_lww : before .lww = ltLWW := rfl

theorem time_gt_ltHash {e p : Entry} (h : p.clock.time < e.clock.time) : ltHash e p = true := by
  rw [ltHash_iff]
  have := time_lt_cmpHash h
  have := cmpHash_swap e p
  omega

theorem time_gt_ltLWW {e p : Entry} (h : p.clock.time < e.clock.time) : ltLWW e p = true := by
  rw [ltLWW_iff]
  have hne : ¬ e.clock.time = p.clock.time := by omega
  have hnl : ¬ e.clock.time < p.clock.time := by omega
  simp [cmpLWW, clockCompare, hne, hnl]

theorem ne_hash_of_ne {E : List Entry} (hnd : (hashes E).Nodup) : ∀ a ∈ E, ∀ b ∈ E, a ≠ b → a.hash ≠ b.hash :=
  fun _ ha _ hb hne hh => hne (eq_of_hash_eq hnd ha hb hh)

theorem orderOk_sto {k : SortKind} {E : List Entry} (hnd : (hashes E).Nodup) (ho : OrderOk k E) :
    STO (before k) (· ∈ E) := by
  cases k with
  | byHash => rw [before_byHash]; exact ltHash_STO E (ne_hash_of_ne hnd)
  | lww => rw [before_lww]; exact ltLWW_STO E ho
  | fww => exact absurd ho (by simp [OrderOk])

theorem orderOk_asymm {k : SortKind} {E : List Entry} (ho : OrderOk k E) :
    ∀ a b, a ∈ E → b ∈ E → a ≠ b → before k a b = true → before k b a = false := by
  cases k with
  | byHash => intro a b _ _ _ h; rw [before_byHash] at *; exact ltHash_asymm h
  | lww => intro a b ha hb hne h; rw [before_lww] at *; exact ltLWW_asymm (ho a ha b hb hne) h
  | fww => exact absurd ho (by simp [OrderOk])

theorem orderOk_time {k : SortKind} {E : List Entry} (ho : OrderOk k E) {e p : Entry}
    (h : p.clock.time < e.clock.time) : before k e p = true := by
  cases k with
  | byHash => rw [before_byHash]; exact time_gt_ltHash h
  | lww => rw [before_lww]; exact time_gt_ltLWW h
  | fww => exact absurd ho (by simp [OrderOk])

theorem orderOk_mono {k : SortKind} {E F : List Entry} (hs : ∀ x ∈ E, x ∈ F) (ho : OrderOk k F) : OrderOk k E := by
  cases k with
  | byHash => trivial
  | lww => exact fun a ha b hb hne => ho a (hs a ha) b (hs b hb) hne
  | fww => exact absurd ho (by simp [OrderOk])

theorem nodup_of_hashes_nodup : ∀ {E : List Entry}, (hashes E).Nodup → E.Nodup
  | [], _ => List.nodup_nil
  | x :: xs, h => by
    unfold hashes at h
    simp only [List.map_cons, List.nodup_cons] at h
    refine List.nodup_cons.mpr ⟨?_, nodup_of_hashes_nodup (by simpa [hashes] using h.2)⟩
    intro hm
    exact h.1 (List.mem_map.mpr ⟨x, hm, rfl⟩)

/-- the context `traverse_spec` needs, from the invariant -/
theorem ctx_of_inv {U : List Entry} {l : Log} (I : Inv U l) (ho : OrderOk l.sortFn l.entries) :
    Ctx l.entries (before l.sortFn) l.heads where
  nodupH := by simpa [hashes] using I.nodup
  sto := orderOk_sto I.nodup ho
  mono := fun e he c hc p hp => orderOk_time ho (I.mono e he c hc p hp)
  rootsIn := I.headsIn
  rootsUnref := by
    intro e he c hc p hp hroot
    apply I.headsUnref p hroot
    exact ⟨e, he, by rw [(get?_mem hp).2]; exact hc⟩

/-- what the unbounded traversal from the heads returns -/
theorem traverse_heads_spec {U : List Entry} {l : Log} (I : Inv U l) (ho : OrderOk l.sortFn l.entries) :
    let out := traverse l.entries (before l.sortFn) l.heads
    out.Pairwise (fun a b => before l.sortFn a b = true) ∧ out.Nodup ∧ out.Perm l.entries := by
  intro out
  obtain ⟨hs, hnd, hin, hroots, hcl⟩ := traverse_spec (ctx_of_inv I ho) (nodup_of_hashes_nodup I.headsNodup)
  refine ⟨hs, hnd, ?_⟩
  rw [List.perm_ext_iff_of_nodup hnd (nodup_of_hashes_nodup I.nodup)]
  intro x
  constructor
  · exact hin x
  · intro hx
    obtain ⟨hd, hhd, hdesc⟩ := every_entry_below_some_head I x hx
    have : ∀ {a b : Entry}, Desc l.entries a b → a ∈ out → b ∈ out := by
      intro a b hd
      induction hd with
      | refl _ => exact fun h => h
      | step _ hc hg ih => exact fun h => hcl _ (ih h) _ hc _ hg
    exact this hdesc (hroots hd hhd)

/-- C03: `Values()` contains every entry exactly once -/
theorem values_perm {U : List Entry} {l : Log} (I : Inv U l) (ho : OrderOk l.sortFn l.entries) :
    (values l).Perm l.entries := by
  unfold values
  exact (List.reverse_perm _).trans (traverse_heads_spec I ho).2.2

theorem values_nodup {U : List Entry} {l : Log} (I : Inv U l) (ho : OrderOk l.sortFn l.entries) :
    (values l).Nodup := (values_perm I ho).nodup_iff.mpr (nodup_of_hashes_nodup I.nodup)

/-- C03: `Values()` is sorted by the configured ordering (later elements are "after" earlier ones) -/
theorem values_sorted {U : List Entry} {l : Log} (I : Inv U l) (ho : OrderOk l.sortFn l.entries) :
    (values l).Pairwise (fun a b => before l.sortFn b a = true) := by
  unfold values
  rw [List.pairwise_reverse]
  exact (traverse_heads_spec I ho).1

/-- C03: no entry is placed before one of its predecessors -/
theorem values_causal {U : List Entry} {l : Log} (I : Inv U l) (ho : OrderOk l.sortFn l.entries) :
    (values l).Pairwise (fun a b => b.hash ∉ a.next) := by
  have hs := values_sorted I ho
  have hp := values_perm I ho
  have hnd := values_nodup I ho
  have hboth : (values l).Pairwise (fun a b => before l.sortFn b a = true ∧ a ≠ b) := by
    refine hs.and ?_
    exact hnd
  refine hboth.imp_of_mem ?_
  intro a b ha hb ⟨hba, hne⟩ hmem
  have haE := hp.mem_iff.mp ha
  have hbE := hp.mem_iff.mp hb
  have hg : get? l.entries b.hash = some b := get?_eq_of_mem I.nodup hbE
  have hab := orderOk_time ho (I.mono a haE b.hash hmem b hg)
  have := orderOk_asymm ho a b haE hbE hne hab
  rw [this] at hba; cases hba

/-- `Values()` is a function of the entry set: two replicas holding the same entries (and using the
    same ordering) linearise them identically -/
theorem values_fn_of_set {U : List Entry} {l₁ l₂ : Log} (I₁ : Inv U l₁) (I₂ : Inv U l₂)
    (hk : l₁.sortFn = l₂.sortFn) (ho : OrderOk l₁.sortFn l₁.entries)
    (hE : l₁.entries.Perm l₂.entries) : values l₁ = values l₂ := by
  have ho2 : OrderOk l₂.sortFn l₂.entries := by
    rw [← hk]; exact orderOk_mono (fun x hx => hE.mem_iff.mpr hx) ho
  obtain ⟨s1, _, p1⟩ := traverse_heads_spec I₁ ho
  obtain ⟨s2, _, p2⟩ := traverse_heads_spec I₂ ho2
  unfold values
  rw [← hk] at s2 p2 ⊢
  congr 1
  refine List.Perm.eq_of_pairwise ?_ s1 s2 (p1.trans (hE.trans p2.symm))
  intro a b ha hb hab hba
  have haE : a ∈ l₁.entries := p1.mem_iff.mp ha
  have hbE : b ∈ l₁.entries := hE.mem_iff.mpr (p2.mem_iff.mp hb)
  by_cases hne : a = b
  · exact hne
  · have := orderOk_asymm ho a b haE hbE hne hab
    rw [this] at hba; cases hba

/-- a sorted duplicate-free list is determined by its members -/
theorem sorted_unique {k : SortKind} {E : List Entry} (ho : OrderOk k E) {l₁ l₂ : List Entry}
    (h1 : l₁.Pairwise (fun a b => before k a b = true)) (h2 : l₂.Pairwise (fun a b => before k a b = true))
    (hp : l₁.Perm l₂) (hin : ∀ x ∈ l₁, x ∈ E) : l₁ = l₂ := by
  refine List.Perm.eq_of_pairwise ?_ h1 h2 hp
  intro a b ha hb hab hba
  by_cases hne : a = b
  · exact hne
  · have := orderOk_asymm ho a b (hin a ha) (hin b (hp.mem_iff.mpr hb)) hne hab
    rw [this] at hba; cases hba

/-- C05: when a replica's entry set grows, the new linearisation contains the old one as a
    subsequence -/
theorem values_sublist {U : List Entry} {l l' : Log} (I : Inv U l) (I' : Inv U l')
    (hk : l.sortFn = l'.sortFn) (ho' : OrderOk l'.sortFn l'.entries)
    (hsub : ∀ x ∈ l.entries, x ∈ l'.entries) : (values l).Sublist (values l') := by
  have ho : OrderOk l.sortFn l.entries := by rw [hk]; exact orderOk_mono hsub ho'
  -- work on the descending traversals and reverse at the end
  obtain ⟨s1, n1, p1⟩ := traverse_heads_spec I ho
  obtain ⟨s2, n2, p2⟩ := traverse_heads_spec I' ho'
  let out := traverse l.entries (before l.sortFn) l.heads
  let out' := traverse l'.entries (before l'.sortFn) l'.heads
  let f := out'.filter (fun x => decide (x ∈ l.entries))
  have hf_sub : f.Sublist out' := List.filter_sublist
  have hf_sorted : f.Pairwise (fun a b => before l.sortFn a b = true) := by
    rw [hk]; exact s2.sublist hf_sub
  have hf_nodup : f.Nodup := n2.sublist hf_sub
  have hperm : out.Perm f := by
    rw [List.perm_ext_iff_of_nodup n1 hf_nodup]
    intro x
    constructor
    · intro hx
      have hxE := p1.mem_iff.mp hx
      exact List.mem_filter.mpr ⟨p2.mem_iff.mpr (hsub x hxE), by simpa using hxE⟩
    · intro hx
      have := (List.mem_filter.mp hx).2
      exact p1.mem_iff.mpr (by simpa using this)
  have heq : out = f := sorted_unique ho s1 hf_sorted hperm (fun x hx => p1.mem_iff.mp hx)
  unfold values
  show out.reverse.Sublist out'.reverse
  rw [heq]
  exact hf_sub.reverse

end Model
