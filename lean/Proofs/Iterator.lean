import Proofs.AppendRefs
import Model.Iterator
/-!
# Proofs.Iterator — facts about `Iterator` and the size-bounded `Join`
-/
namespace Model

theorem lookupAll_none {E : List Entry} : ∀ {cs : List Hash}, (∃ c ∈ cs, has E c = false) → lookupAll E cs = none
  | [], h => by obtain ⟨c, hc, _⟩ := h; cases hc
  | c :: cs, h => by
    unfold lookupAll
    cases hg : get? E c with
    | none => rfl
    | some e =>
      have hh : has E c = true := get?_isSome_iff.mp ⟨e, hg⟩
      have : ∃ c' ∈ cs, has E c' = false := by
        obtain ⟨c', hc', hf⟩ := h
        cases hc' with
        | head => rw [hh] at hf; cases hf
        | tail _ hm => exact ⟨c', hm, hf⟩
      rw [lookupAll_none this]

theorem lookupAll_mem {E : List Entry} : ∀ {cs : List Hash} {out : List Entry}, lookupAll E cs = some out → ∀ x ∈ out, x ∈ E
  | [], out, h => by simp [lookupAll] at h; subst h; intro x hx; cases hx
  | c :: cs, out, h => by
    unfold lookupAll at h
    cases hg : get? E c with
    | none => rw [hg] at h; simp at h
    | some e =>
      cases hr : lookupAll E cs with
      | none => rw [hg, hr] at h; simp at h
      | some r =>
        rw [hg, hr] at h
        simp at h; subst h
        intro x hx
        cases hx with
        | head => exact (get?_mem hg).1
        | tail _ hm => exact lookupAll_mem hr x hm

theorem ltStart_mem {E : List Entry} : ∀ {cs : List Hash} {start out : List Entry},
    (∀ x ∈ start, x ∈ E) → ltStart E cs start = some out → ∀ x ∈ out, x ∈ E
  | [], start, out, hs, h => by simp [ltStart] at h; subst h; exact hs
  | c :: cs, start, out, hs, h => by
    unfold ltStart at h
    cases hg : get? E c with
    | none => rw [hg] at h; simp at h
    | some e =>
      rw [hg] at h
      simp only at h
      cases hl : lookupAll E e.next with
      | none => rw [hl] at h; simp at h
      | some s =>
        rw [hl] at h
        exact ltStart_mem (lookupAll_mem hl) h

/-- the traversal never emits more than `amount` entries beyond those already emitted -/
theorem travLoop_length (E : List Entry) (lt : Entry → Entry → Bool) (amount : Int) (endHash : Option Hash)
    (ha : 0 ≤ amount) :
    ∀ (fuel : Nat) (stack : List Entry) (trav : List Hash) (res : List Entry) (count : Int),
      count ≤ amount →
      (travLoop E lt amount endHash fuel stack trav res count).length ≤ res.length + (amount - count).toNat
  | 0, _, _, _, _, _ => by simp [travLoop]
  | _ + 1, [], _, _, _, _ => by simp [travLoop]
  | fuel + 1, e :: rest, trav, res, count, hc => by
    unfold travLoop
    dsimp only
    have hset : (omSet res e).length ≤ res.length + 1 := by
      unfold omSet; split <;> simp
    split
    · rename_i hcond
      have hlt : count < amount := by
        rcases hcond with h | h
        · omega
        · exact h
      split
      · omega
      · have := travLoop_length E lt amount endHash ha fuel
          (if (pushNexts E e.next (rest, e.hash :: trav, false)).2.2 then
            goSort lt (pushNexts E e.next (rest, e.hash :: trav, false)).1
           else (pushNexts E e.next (rest, e.hash :: trav, false)).1)
          (pushNexts E e.next (rest, e.hash :: trav, false)).2.1 (omSet res e) (count + 1) (by omega)
        have h2 : (amount - (count + 1)).toNat + 1 = (amount - count).toNat := by omega
        omega
    · omega

end Model
