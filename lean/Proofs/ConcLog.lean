import Proofs.Conc
import Proofs.ConcSeq
/-!
# Proofs.ConcLog — the log states along an execution

Replay of event lists, where the recorded operations come from, growth of the entry set, and the
ghost read positions (`hsAt`, `esAt`).
-/
namespace Model.Conc
open Model

/-! ## Operations on the sequential model -/

/-- the operation never removes entries: everything except a bounded `Join` -/
def WOp.unbounded : WOp → Prop
  | .join _ size => ¬ size > -1
  | _ => True

theorem applyW_grows {op : WOp} (hu : op.unbounded) (r : Regs) (log : Log) :
    ∀ x ∈ log.entries, x ∈ (applyW op r log).1.entries := by
  intro x hx
  cases op with
  | append pc h tag =>
    simp only [applyW]; rw [(append_snd log pc h tag).1]; exact sub_omSet hx
  | join oid size =>
    simp only [applyW]
    split
    · rename_i l' hj; exact join_grows hu hj x hx
    · exact hx
  | setIdentity cid => simpa [applyW, setIdentity] using hx
  | refuse => exact hx

theorem applyW_nodupH (op : WOp) (r : Regs) {log : Log} (hn : NodupH log.entries) :
    NodupH (applyW op r log).1.entries := by
  cases op with
  | append pc h tag =>
    simp only [applyW]; rw [(append_snd log pc h tag).1]; exact nodupH_omSet _ hn
  | join oid size =>
    simp only [applyW]
    split
    · rename_i l' hj; exact join_nodupH hn hj
    · exact hn
  | setIdentity cid => simpa [applyW, setIdentity] using hn
  | refuse => exact hn

/-- the registers a critical section leaves alone -/
theorem applyW_regs (op : WOp) (r : Regs) (log : Log) :
    (applyW op r log).2.hs = r.hs ∧ (applyW op r log).2.es = r.es ∧
    (applyW op r log).2.hsAt = r.hsAt ∧ (applyW op r log).2.esAt = r.esAt ∧
    (applyW op r log).2.obs = r.obs := by
  cases op with
  | append pc h tag => simp [applyW]
  | join oid size => simp only [applyW]; split <;> simp
  | setIdentity cid => simp [applyW]
  | refuse => simp [applyW]

/-! ## Replay -/

theorem replay_inv {P : Log → Prop} {init : Log} (h0 : P init) :
    ∀ (evs : List Ev), (∀ t op r, Ev.wr t op r ∈ evs → ∀ log, P log → P (applyW op r log).1) → P (replay init evs)
  | [], _ => h0
  | .wr t op r :: older, h => by
    simp only [replay]
    exact h t op r (by simp) _ (replay_inv h0 older (fun t' op' r' hm => h t' op' r' (by simp [hm])))
  | .acq t :: older, h => by
    simp only [replay]
    exact replay_inv h0 older (fun t' op' r' hm => h t' op' r' (by simp [hm]))
  | .rel t :: older, h => by
    simp only [replay]
    exact replay_inv h0 older (fun t' op' r' hm => h t' op' r' (by simp [hm]))

/-- if the events in `newer` never remove entries, the later state contains the earlier one -/
theorem replay_grows (init : Log) (older : List Ev) :
    ∀ (newer : List Ev), (∀ t op r, Ev.wr t op r ∈ newer → op.unbounded) →
      ∀ x ∈ (replay init older).entries, x ∈ (replay init (newer ++ older)).entries
  | [], _, x, hx => hx
  | .wr t op r :: ns, h, x, hx => by
    simp only [List.cons_append, replay]
    exact applyW_grows (h t op r (by simp)) _ _ x
      (replay_grows init older ns (fun t' op' r' hm => h t' op' r' (by simp [hm])) x hx)
  | .acq t :: ns, h, x, hx => by
    simp only [List.cons_append, replay]
    exact replay_grows init older ns (fun t' op' r' hm => h t' op' r' (by simp [hm])) x hx
  | .rel t :: ns, h, x, hx => by
    simp only [List.cons_append, replay]
    exact replay_grows init older ns (fun t' op' r' hm => h t' op' r' (by simp [hm])) x hx

/-! ## Where recorded operations come from -/

/-- every recorded critical section was an instruction of the initial program of its thread, and
    programs only shrink -/
structure FromProg (w0 w : World) : Prop where
  evs : ∀ l t op r, Ev.wr t op r ∈ w.ev l → Instr.write l op ∈ (w0.thr t).rest
  rest : ∀ t i, i ∈ (w.thr t).rest → i ∈ (w0.thr t).rest

theorem fromProg_init {w0 : World} (h : ∀ l, w0.ev l = []) : FromProg w0 w0 :=
  ⟨fun l t op r hm => by rw [h l] at hm; exact absurd hm (by simp), fun _ _ h => h⟩

theorem step_fromProg {w0 w w' : World} {t : Tid} (hF : FromProg w0 w) (h : step w t = some w') :
    FromProg w0 w' := by
  refine ⟨?_, fun u i hi => hF.rest u i (rest_suffix h i hi)⟩
  have hs := step_sound h
  intro l' u op r hm
  cases hs with
  | lockAcq l rest hr hw hrd hp =>
    by_cases hl : l' = l
    · subst hl; simp at hm; exact hF.evs l' u op r hm
    · simp only [upd_other _ _ hl] at hm; exact hF.evs l' u op r hm
  | unlock l rest hr hw =>
    by_cases hl : l' = l
    · subst hl; simp at hm; exact hF.evs l' u op r hm
    · simp only [upd_other _ _ hl] at hm; exact hF.evs l' u op r hm
  | write l op' rest hr =>
    by_cases hl : l' = l
    · subst hl; simp only [upd_same, List.mem_cons] at hm
      rcases hm with h1 | h1
      · injection h1 with h1 h2 h3; subst h1; subst h2
        exact hF.rest u _ (by rw [hr]; simp)
      · exact hF.evs l' u op r h1
    · simp only [upd_other _ _ hl] at hm; exact hF.evs l' u op r hm
  | _ => exact hF.evs l' u op r hm


/-! ## Everything that holds in every reachable state -/

structure Good (w0 w : World) : Prop where
  coh : Coh w
  excl : Excl w
  rep : Rep w0.logs w
  sess : Sess w
  fromProg : FromProg w0 w

theorem good_init {w0 : World} (hI : Init w0) : Good w0 w0 where
  coh := init_coh hI
  excl := init_excl hI.locks
  rep := fun l => by rw [hI.ev l]; rfl
  sess := fun l => by rw [hI.ev l, hI.locks l]; rfl
  fromProg := fromProg_init hI.ev

theorem step_good {w0 w w' : World} {t : Tid} (hG : Good w0 w) (h : step w t = some w') : Good w0 w' where
  coh := step_coh hG.coh h
  excl := step_excl hG.excl h
  rep := step_rep hG.rep h
  sess := step_sess hG.coh hG.sess h
  fromProg := step_fromProg hG.fromProg h

theorem run_good {w0 : World} (hI : Init w0) (s : List Tid) : Good w0 (run w0 s) :=
  run_inv (P := Good w0) (fun _ _ _ hG h => step_good hG h) s w0 (good_init hI)

end Model.Conc
