import Proofs.FetchReach
/-!
# Proofs.FetchLimited — the length-limited fetch never cuts one of the newest `n` ancestors

`J` is the admission invariant of DESIGN §14 (`#>(t)` = `cntGt results t`, `#≥(t)` = `cntGe results t`):

1. `minClock ≤ time r` for every admitted `r` except possibly the last one;
2. every finished task's entry is admitted or `n ≤ #>(its time)`;
3. every `next` of a finished task's entry is in the task cache or `n ≤ #≥(the entry's time)`.

It is preserved by every event of the transition system (`J_fstep`), for every limit `n ≥ 0` and when
nothing is excluded.  At quiescence, with a closed store and times strictly decreasing along `next`,
induction along a `next`-path gives `limited_admitted_or_cut`.
-/
namespace Model

def cntGt : List Entry → Int → Nat
  | [], _ => 0
  | r :: rs, t => (if r.clock.time > t then 1 else 0) + cntGt rs t
def cntGe : List Entry → Int → Nat
  | [], _ => 0
  | r :: rs, t => (if r.clock.time ≥ t then 1 else 0) + cntGe rs t

theorem cntGt_append (a b : List Entry) (t : Int) : cntGt (a ++ b) t = cntGt a t + cntGt b t := by
  induction a with
  | nil => simp [cntGt]
  | cons x xs ih => simp [cntGt, ih]; omega
theorem cntGe_append (a b : List Entry) (t : Int) : cntGe (a ++ b) t = cntGe a t + cntGe b t := by
  induction a with
  | nil => simp [cntGe]
  | cons x xs ih => simp [cntGe, ih]; omega
theorem cntGt_all {rs : List Entry} {t : Int} (h : ∀ r ∈ rs, r.clock.time > t) : cntGt rs t = rs.length := by
  induction rs with
  | nil => rfl
  | cons x xs ih =>
    have hx : x.clock.time > t := h x (by simp)
    have := ih (fun r hr => h r (by simp [hr]))
    simp [cntGt, hx, this]; omega
theorem cntGe_all {rs : List Entry} {t : Int} (h : ∀ r ∈ rs, r.clock.time ≥ t) : cntGe rs t = rs.length := by
  induction rs with
  | nil => rfl
  | cons x xs ih =>
    have hx : x.clock.time ≥ t := h x (by simp)
    have := ih (fun r hr => h r (by simp [hr]))
    simp [cntGe, hx, this]; omega
theorem cntGe_le_cntGt_of_lt (rs : List Entry) {t u : Int} (h : u < t) : cntGe rs t ≤ cntGt rs u := by
  induction rs with
  | nil => simp [cntGt, cntGe]
  | cons x xs ih =>
    unfold cntGt cntGe
    by_cases h1 : x.clock.time ≥ t
    · have : x.clock.time > u := by omega
      simp [h1, this]; omega
    · by_cases h2 : x.clock.time > u
      · simp [h1, h2]; omega
      · simp [h1, h2]; omega
theorem cntGt_mono_time (rs : List Entry) {t u : Int} (h : u ≤ t) : cntGt rs t ≤ cntGt rs u := by
  induction rs with
  | nil => simp [cntGt]
  | cons x xs ih =>
    unfold cntGt
    by_cases h1 : x.clock.time > t
    · have : x.clock.time > u := by omega
      simp [h1, this]; omega
    · by_cases h2 : x.clock.time > u
      · simp [h1, h2]; omega
      · simp [h1, h2]; omega
theorem cntGt_eq_filter (rs : List Entry) (t : Int) :
    cntGt rs t = (rs.filter (fun r => decide (r.clock.time > t))).length := by
  induction rs with
  | nil => rfl
  | cons x xs ih =>
    unfold cntGt
    by_cases h1 : x.clock.time > t
    · simp [h1, ih]; omega
    · simp [h1, ih]

theorem mem_dropLast_or_last {α} (l : List α) (x : α) (hx : x ∈ l) : x ∈ l.dropLast ∨ l.getLast? = some x := by
  induction l with
  | nil => cases hx
  | cons a as ih =>
    cases as with
    | nil => simp at hx; right; simp [hx]
    | cons b bs =>
      cases hx with
      | head => left; simp [List.dropLast]
      | tail _ hm =>
        cases ih hm with
        | inl h => left; simp only [List.dropLast]; exact List.mem_cons_of_mem _ h
        | inr h => right; simpa [List.getLast?_cons_cons] using h

structure J (cfg : FCfg) (s : FState) : Prop where
  minLe : ∀ r ∈ s.results.dropLast, s.minClock ≤ r.clock.time
  admitted : ∀ h ∈ s.done, ∀ e, get? cfg.store h = some e →
    e ∈ s.results ∨ cfg.length ≤ (cntGt s.results e.clock.time : Int)
  children : ∀ h ∈ s.done, ∀ e, get? cfg.store h = some e → ∀ c ∈ e.next, c ≠ [] →
    s.known c ∨ cfg.length ≤ (cntGe s.results e.clock.time : Int)

theorem J_addHashes {cfg : FCfg} {s : FState} (hs : List Hash) (I : J cfg s) : J cfg (addHashes cfg s hs) := by
  obtain ⟨_, hd, _, hr, hm, _⟩ := addHashes_frame cfg hs s
  exact {
    minLe := by rw [hr, hm]; exact I.minLe
    admitted := by rw [hr, hd]; exact I.admitted
    children := by
      rw [hr, hd]
      intro h hh e he c hc hne
      cases I.children h hh e he c hc hne with
      | inl hk => exact Or.inl (known_addHashes_mono hk)
      | inr hn => exact Or.inr hn }

theorem newMin_le {cfg : FCfg} {s : FState} (I : J cfg s) (e : Entry) :
    ∀ r ∈ s.results, newMin s e ≤ r.clock.time := by
  intro r hr
  unfold newMin
  cases mem_dropLast_or_last _ _ hr with
  | inl hd =>
    have := I.minLe r hd
    split
    · omega
    · rename_i hnone; simp [List.getLast?_eq_none_iff] at hnone; simp [hnone] at hr
  | inr hl => rw [hl]; simp; omega

/-- the crux: one completion with an entry, limit `n ≥ 0`, nothing excluded -/
theorem J_completeFound {cfg : FCfg} (hlen : 0 ≤ cfg.length) (hex : ∀ h, cfg.excluded h = false)
    {s : FState} {h : Hash} {e : Entry} (I : J cfg s) (hs : get? cfg.store h = some e) :
    J cfg (completeFound cfg s h e) := by
  have hnl : ¬ cfg.length < 0 := by omega
  have hminAll := newMin_le I e
  have hres_sub : ∀ r ∈ s.results, r ∈ (fbase cfg s h e).results := by
    intro r hr; simp only [fbase]; split
    · exact List.mem_append_left _ hr
    · exact hr
  have hgt_mono : ∀ t, cntGt s.results t ≤ cntGt (fbase cfg s h e).results t := by
    intro t; simp only [fbase]; split
    · rw [cntGt_append]; omega
    · exact Nat.le_refl _
  have hge_mono : ∀ t, cntGe s.results t ≤ cntGe (fbase cfg s h e).results t := by
    intro t; simp only [fbase]; split
    · rw [cntGe_append]; omega
    · exact Nat.le_refl _
  have hknown : ∀ c, s.known c → (fbase cfg s h e).known c := fun c hk => known_fbase hk
  have hbase_minLe : ∀ r ∈ (fbase cfg s h e).results.dropLast, (fbase cfg s h e).minClock ≤ r.clock.time := by
    simp only [fbase]
    split
    · simp only [List.dropLast_concat]; exact hminAll
    · intro r hr; exact hminAll r (List.dropLast_subset _ hr)
  have hdone : ∀ h', h' ∈ (fbase cfg s h e).done → h' = h ∨ h' ∈ s.done := by
    intro h' hh'; simpa [fbase] using hh'
  have hbase_adm : ∀ h' ∈ (fbase cfg s h e).done, ∀ e', get? cfg.store h' = some e' →
      e' ∈ (fbase cfg s h e).results ∨ cfg.length ≤ (cntGt (fbase cfg s h e).results e'.clock.time : Int) := by
    intro h' hh' e' he'
    cases hdone h' hh' with
    | inr hold =>
      cases I.admitted h' hold e' he' with
      | inl hm => exact Or.inl (hres_sub e' hm)
      | inr hn => exact Or.inr (by have := hgt_mono e'.clock.time; omega)
    | inl heq =>
      have : e' = e := by rw [heq, hs] at he'; exact (Option.some.inj he').symm
      subst this
      by_cases ha : admits cfg s e' = true
      · left; simp [fbase, ha]
      · right
        have ha' : ¬ ((s.results.length : Int) < cfg.length) ∧ ¬ (e'.clock.time ≥ newMin s e') := by
          simp only [admits, Bool.or_eq_true, Bool.and_eq_true, decide_eq_true_eq, not_or, not_and] at ha
          refine ⟨ha.1.2, fun hx => ha.2 (by omega) hx⟩
        have hall : ∀ r ∈ s.results, r.clock.time > e'.clock.time := fun r hr => by
          have := hminAll r hr; omega
        have := cntGt_all hall
        have h2 := hgt_mono e'.clock.time
        omega
  have hbase_child_old : ∀ h' ∈ s.done, ∀ e', get? cfg.store h' = some e' → ∀ c ∈ e'.next, c ≠ [] →
      (fbase cfg s h e).known c ∨ cfg.length ≤ (cntGe (fbase cfg s h e).results e'.clock.time : Int) := by
    intro h' hh' e' he' c hc hne
    cases I.children h' hh' e' he' c hc hne with
    | inl hk => exact Or.inl (hknown c hk)
    | inr hn => exact Or.inr (by have := hge_mono e'.clock.time; omega)
  have hJ3 : J cfg (queueNext cfg (fbase cfg s h e) e) := by
    unfold queueNext
    split
    · -- predecessors queued
      obtain ⟨_, hd, _, hr, hm, _⟩ := addHashes_frame cfg e.next (fbase cfg s h e)
      exact {
        minLe := by rw [hr, hm]; exact hbase_minLe
        admitted := by rw [hr, hd]; exact hbase_adm
        children := by
          rw [hr, hd]
          intro h' hh' e' he' c hc hne
          cases hdone h' hh' with
          | inr hold =>
            cases hbase_child_old h' hold e' he' c hc hne with
            | inl hk => exact Or.inl (known_addHashes_mono hk)
            | inr hn => exact Or.inr hn
          | inl heq =>
            have : e' = e := by rw [heq, hs] at he'; exact (Option.some.inj he').symm
            subst this
            exact Or.inl (known_of_mem_addHashes hc hne (hex c)) }
    · -- predecessors cut
      rename_i hcond
      have hc1 : ¬ (((fbase cfg s h e).results.length : Int) < cfg.length) := fun x => hcond (Or.inl x)
      have hc2 : e.clock.time < newMin s e := by
        have : ¬ (e.clock.time ≥ (fbase cfg s h e).minClock) := fun x => hcond (Or.inr x)
        simpa [fbase] using this
      exact {
        minLe := hbase_minLe
        admitted := hbase_adm
        children := by
          intro h' hh' e' he' c hc hne
          cases hdone h' hh' with
          | inr hold => exact hbase_child_old h' hold e' he' c hc hne
          | inl heq =>
            have : e' = e := by rw [heq, hs] at he'; exact (Option.some.inj he').symm
            subst this
            right
            have hall : ∀ r ∈ (fbase cfg s h e').results, r.clock.time ≥ e'.clock.time := by
              intro r hr
              simp only [fbase] at hr
              split at hr
              · rw [List.mem_append] at hr
                cases hr with
                | inl hr => have := hminAll r hr; omega
                | inr hr => rw [List.mem_singleton] at hr; rw [hr]; exact Int.le_refl _
              · have := hminAll r hr; omega
            have := cntGe_all hall
            omega }
  unfold completeFound addNext
  rw [if_neg hnl]
  unfold queueRefs
  split
  · exact J_addHashes _ hJ3
  · exact hJ3

theorem J_finit (cfg : FCfg) (roots : List Hash) : J cfg (finit cfg roots) := by
  obtain ⟨_, b2, _, b4, _⟩ := addHashes_frame cfg roots {}
  unfold finit
  exact {
    minLe := by rw [b4]; exact fun _ h => nomatch h
    admitted := by rw [b2]; exact fun _ h => nomatch h
    children := by rw [b2]; exact fun _ h => nomatch h }

theorem J_fstep {cfg : FCfg} (hlen : 0 ≤ cfg.length) (hex : ∀ h, cfg.excluded h = false)
    {s s' : FState} {ev : FEvent} (I : J cfg s) (hs : fstep cfg s ev = some s') : J cfg s' := by
  have hk : ∀ x, s.known x → s'.known x := fun x hx => known_mono hs hx
  rcases fstep_cases hs with ⟨h, _, _, _, rfl⟩ | ⟨h, _, _, _, rfl⟩ | ⟨h, e, _, _, hg, rfl⟩ | ⟨_, _, rfl⟩
  · exact {
      minLe := I.minLe
      admitted := I.admitted
      children := fun x hx e he c hc hne => (I.children x hx e he c hc hne).imp (hk c) id }
  · exact {
      minLe := I.minLe
      admitted := I.admitted
      children := fun x hx e he c hc hne => (I.children x hx e he c hc hne).imp (hk c) id }
  · exact J_completeFound hlen hex I hg
  · exact { minLe := I.minLe, admitted := I.admitted, children := I.children }

theorem J_accepted {cfg : FCfg} (hlen : 0 ≤ cfg.length) (hex : ∀ h, cfg.excluded h = false)
    {roots : List Hash} {evs : List FEvent} {s : FState} (hr : accepted cfg roots evs = some s) : J cfg s :=
  frun_induct (J cfg) (fun _ _ _ I h => J_fstep hlen hex I h) evs _ s (J_finit cfg roots) hr

/-! ## start hashes stay cached; failed tasks had no block (any limit) -/

structure BInv (cfg : FCfg) (roots : List Hash) (s : FState) : Prop where
  rootsK : ∀ h ∈ roots, h ≠ [] → cfg.excluded h = false → s.known h
  failedAbsent : s.cancelled = false → ∀ h ∈ s.failed, get? cfg.store h = none

theorem BInv_finit (cfg : FCfg) (roots : List Hash) : BInv cfg roots (finit cfg roots) := by
  obtain ⟨_, _, b3, _⟩ := addHashes_frame cfg roots {}
  exact {
    rootsK := fun h hm hne hex => known_of_mem_addHashes hm hne hex
    failedAbsent := by unfold finit; rw [b3]; exact fun _ _ h => nomatch h }

theorem BInv_fstep {cfg : FCfg} {roots : List Hash} {s s' : FState} {ev : FEvent}
    (u : BInv cfg roots s) (hs : fstep cfg s ev = some s') : BInv cfg roots s' := by
  have hk : ∀ x, s.known x → s'.known x := fun x hx => known_mono hs hx
  refine ⟨fun x hm hne hex => hk x (u.rootsK x hm hne hex), ?_⟩
  rcases fstep_cases hs with ⟨h, _, _, _, rfl⟩ | ⟨h, _, _, hwhy, rfl⟩ | ⟨h, e, _, hp, hg, rfl⟩ | ⟨_, _, rfl⟩
  · exact u.failedAbsent
  · intro hc x hx
    have hc' : s.cancelled = false := hc
    cases hx with
    | head =>
      rcases hwhy with h1 | h1
      · exact h1
      · rw [hc'] at h1; cases h1
    | tail _ hm => exact u.failedAbsent hc' x hm
  · unfold completeFound
    obtain ⟨L, _, heq, _⟩ := addNext_eq cfg (fbase cfg s h e) e
    obtain ⟨_, _, b3, _, _, _, b7⟩ := addHashes_frame cfg L (fbase cfg s h e)
    rw [heq, b3, b7]
    exact u.failedAbsent
  · exact fun hc => nomatch hc

theorem BInv_accepted {cfg : FCfg} {roots : List Hash} {evs : List FEvent} {s : FState}
    (hr : accepted cfg roots evs = some s) : BInv cfg roots s :=
  frun_induct (BInv cfg roots) (fun _ _ _ u h => BInv_fstep u h) evs _ s (BInv_finit cfg roots) hr

/-! ## at quiescence -/

/-- ancestors (inclusive) of the start hashes along `next` -/
inductive Anc (cfg : FCfg) (roots : List Hash) : Hash → Prop
  | root {h : Hash} : h ∈ roots → Anc cfg roots h
  | next {h c : Hash} {e : Entry} : Anc cfg roots h → get? cfg.store h = some e → c ∈ e.next → Anc cfg roots c

/-- no faults: every start hash and every `next` of a stored block is retrievable, and no block has the
    undefined hash -/
structure ClosedStore (cfg : FCfg) (roots : List Hash) : Prop where
  rootsIn : ∀ h ∈ roots, (get? cfg.store h).isSome
  nextIn : ∀ h e, get? cfg.store h = some e → ∀ c ∈ e.next, (get? cfg.store c).isSome
  undef : get? cfg.store [] = none

/-- clock times strictly increase along `next` (Lamport clocks; C04) -/
def TimesIncrease (cfg : FCfg) : Prop :=
  ∀ h e c e', get? cfg.store h = some e → c ∈ e.next → get? cfg.store c = some e' →
    e'.clock.time < e.clock.time

theorem limited_admitted_or_cut {cfg : FCfg} {roots : List Hash} (hlen : 0 ≤ cfg.length)
    (hex : ∀ h, cfg.excluded h = false) (hcl : ClosedStore cfg roots) (hti : TimesIncrease cfg)
    {evs : List FEvent} {s : FState} (hr : accepted cfg roots evs = some s) (hq : quiescent s)
    (hc : s.cancelled = false) {x : Hash} (ha : Anc cfg roots x) {ex : Entry}
    (hgx : get? cfg.store x = some ex) :
    ex ∈ s.results ∨ cfg.length ≤ (cntGt s.results ex.clock.time : Int) := by
  have I := J_accepted hlen hex hr
  have B := BInv_accepted hr
  have hne : ∀ y, (get? cfg.store y).isSome → y ≠ [] := by
    intro y hs hy; rw [hy, hcl.undef] at hs; cases hs
  have settle : ∀ y, s.known y → (get? cfg.store y).isSome → y ∈ s.done := by
    intro y hk hs
    rcases hk with hk | hk | hk | hk
    · rw [hq.1] at hk; cases hk
    · rw [hq.2] at hk; cases hk
    · exact hk
    · rw [B.failedAbsent hc y hk] at hs; cases hs
  have key : ∀ y, Anc cfg roots y → ∀ ey, get? cfg.store y = some ey →
      y ∈ s.done ∨ cfg.length ≤ (cntGt s.results ey.clock.time : Int) := by
    intro y hy
    induction hy with
    | @root y hm =>
      intro ey hgy
      have hs : (get? cfg.store y).isSome := by rw [hgy]; rfl
      exact Or.inl (settle _ (B.rootsK _ hm (hne _ hs) (hex _)) hs)
    | @next p y ep _ hgp hcm ih =>
      intro ey hgy
      have hs : (get? cfg.store y).isSome := by rw [hgy]; rfl
      have hlt := hti _ _ _ _ hgp hcm hgy
      rcases ih _ hgp with hd | hcut
      · rcases I.children _ hd _ hgp _ hcm (hne _ hs) with hk | hcut
        · exact Or.inl (settle _ hk hs)
        · right
          have := cntGe_le_cntGt_of_lt s.results hlt
          omega
      · right
        have := cntGt_mono_time s.results (Int.le_of_lt hlt)
        omega
  rcases key x ha ex hgx with hd | hcut
  · exact I.admitted x hd ex hgx
  · exact Or.inr hcut

/-- an ancestor that fewer than `n` fetchable entries exceed in clock time is in the result -/
theorem limited_newest_admitted {cfg : FCfg} {roots : List Hash} (hlen : 0 ≤ cfg.length)
    (hex : ∀ h, cfg.excluded h = false) (hcl : ClosedStore cfg roots) (hti : TimesIncrease cfg)
    {evs : List FEvent} {s : FState} (hr : accepted cfg roots evs = some s) (hq : quiescent s)
    (hc : s.cancelled = false) {x : Hash} (ha : Anc cfg roots x) {ex : Entry}
    (hgx : get? cfg.store x = some ex)
    (hfew : ∀ L : List Entry, (L.map (·.hash)).Nodup →
      (∀ r ∈ L, (∃ h, Reach cfg roots h ∧ get? cfg.store h = some r) ∧ r.clock.time > ex.clock.time) →
      (L.length : Int) < cfg.length) : ex ∈ s.results := by
  rcases limited_admitted_or_cut hlen hex hcl hti hr hq hc ha hgx with h1 | h1
  · exact h1
  · exfalso
    have w := WF_accepted hr
    rw [cntGt_eq_filter] at h1
    have hsub : (s.results.filter (fun r => decide (r.clock.time > ex.clock.time))).Sublist s.results :=
      List.filter_sublist
    have := hfew _ ((hsub.map _).nodup w.resND) (by
      intro r hr'
      obtain ⟨hm, hp⟩ := List.mem_filter.mp hr'
      exact ⟨results_sound w hm, by simpa using hp⟩)
    omega

/-- when references only point to ancestors (C04), fetchable = ancestor -/
theorem Reach.anc {cfg : FCfg} {roots : List Hash}
    (hrefs : ∀ h e, Anc cfg roots h → get? cfg.store h = some e → ∀ c ∈ e.refs, Anc cfg roots c)
    {h : Hash} (r : Reach cfg roots h) : Anc cfg roots h := by
  induction r with
  | root a _ _ _ => exact Anc.root a
  | link _ hg hc _ _ _ ih =>
    rcases List.mem_append.mp hc with h1 | h1
    · exact Anc.next ih hg h1
    · exact hrefs _ _ ih hg _ h1

end Model
