import Proofs.AppendRefs
import Model.Store
/-!
# Proofs.Store — the block store is causally closed after every prefix of the block writes (C17)

`Sys.uni` is the sequence of entry blocks in the order in which they were written: `Append` writes
the block (`CreateEntryWithIO` → `io.Write`) before it publishes the entry in memory, and nothing
else writes entry blocks.  A crash between two block writes leaves a prefix of that sequence.
-/
namespace Model

/-- every prefix of the write sequence contains the predecessors and references of each of its blocks -/
def PrefixClosed (U : List Entry) : Prop :=
  ∀ n, ∀ e ∈ U.take n, ∀ h ∈ e.next ++ e.refs, h ∈ hashes (U.take n)

theorem prefixClosed_nil : PrefixClosed [] := by
  intro n e he; simp at he

theorem prefixClosed_snoc {U : List Entry} {e : Entry} (hU : PrefixClosed U)
    (he : ∀ h ∈ e.next ++ e.refs, h ∈ hashes U) : PrefixClosed (U ++ [e]) := by
  intro n x hx h hh
  by_cases hn : n ≤ U.length
  · rw [List.take_append_of_le_length hn] at hx ⊢
    exact hU n x hx h hh
  · have hfull : (U ++ [e]).take n = U ++ [e] := by
      apply List.take_of_length_le
      simp; omega
    rw [hfull] at hx ⊢
    rw [List.mem_append] at hx
    unfold hashes
    rw [List.map_append, List.mem_append]
    rcases hx with hx | hx
    · left
      have := hU U.length x (by rw [List.take_length]; exact hx) h hh
      rw [List.take_length] at this
      exact this
    · simp at hx; subst hx
      left; exact he h hh

/-- the links of the entry `Append` creates are all in the store already -/
theorem append_links_in_store {U : List Entry} {l : Log} (I : Inv U l) (pc : Int) (h : Hash) (tag : Nat) :
    ∀ c ∈ (append l pc h tag).1.next ++ (append l pc h tag).1.refs, c ∈ hashes U := by
  intro c hc
  have hsub : ∀ x ∈ hashes l.entries, x ∈ hashes U := by
    intro x hx
    unfold hashes at *
    obtain ⟨y, hy, hyx⟩ := List.mem_map.mp hx
    exact List.mem_map.mpr ⟨y, I.inU y hy, hyx⟩
  rw [List.mem_append] at hc
  rcases hc with hc | hc
  · have : c ∈ hashes l.heads := (mem_appendPlan_next I.headsNodup pc).mp hc
    unfold hashes at this
    obtain ⟨y, hy, hyx⟩ := List.mem_map.mp this
    exact hsub c (List.mem_map.mpr ⟨y, I.headsIn y hy, hyx⟩)
  · exact hsub c ((appendPlan_refs I pc).1 c hc).1

theorem prefixClosed_step {s s' : Sys} (I : SysInv s) (hc : PrefixClosed s.uni) {op : Op}
    (hstep : s.step op = some s') : PrefixClosed s'.uni := by
  cases op with
  | newLog id cid k => simp only [Sys.step, Option.some.injEq] at hstep; subst hstep; exact hc
  | append r pc h tag =>
    simp only [Sys.step] at hstep
    cases hl : s.logs r with
    | none => rw [hl] at hstep; cases hstep
    | some l =>
      rw [hl] at hstep
      simp only at hstep
      by_cases hcc : (hashes s.uni).contains h = true
      · rw [if_pos hcc] at hstep; cases hstep
      · rw [if_neg hcc] at hstep
        simp only [Option.some.injEq] at hstep
        subst hstep
        exact prefixClosed_snoc hc (append_links_in_store (I.inv r l hl) pc h tag)
  | join r r2 =>
    simp only [Sys.step] at hstep
    cases ha : s.logs r with
    | none => rw [ha] at hstep; simp at hstep
    | some a =>
      cases hb : s.logs r2 with
      | none => rw [ha, hb] at hstep; simp at hstep
      | some b =>
        rw [ha, hb] at hstep
        simp only at hstep
        by_cases hrr : r = r2
        · simp only [hrr, if_true, Option.some.injEq] at hstep; subst hstep; exact hc
        · simp only [hrr, if_false] at hstep
          cases hj : join a b.id b.entries b.heads (-1) with
          | ok l2 => rw [hj] at hstep; simp only [Option.some.injEq] at hstep; subst hstep; exact hc
          | err => rw [hj] at hstep; simp only [Option.some.injEq] at hstep; subst hstep; exact hc
  | setIdentity r cid =>
    simp only [Sys.step] at hstep
    cases hl : s.logs r with
    | none => rw [hl] at hstep; cases hstep
    | some l => rw [hl] at hstep; simp only [Option.some.injEq] at hstep; subst hstep; exact hc
  | rebuild src cid ents wh =>
    obtain ⟨l, _, _, rfl⟩ := rebuild_step hstep
    exact hc

theorem prefixClosed_run : ∀ (ops : List Op) {s s' : Sys}, SysInv s → PrefixClosed s.uni →
    s.run ops = some s' → PrefixClosed s'.uni
  | [], s, s', _, hc, h => by simp [Sys.run] at h; exact h ▸ hc
  | op :: ops, s, s', I, hc, h => by
    simp only [Sys.run] at h
    cases hs : s.step op with
    | none => rw [hs] at h; cases h
    | some s1 =>
      rw [hs] at h
      exact prefixClosed_run ops (sysInv_step I hs) (prefixClosed_step I hc hs) h

end Model

namespace Model

theorem closedWrites_sound : ∀ (rest : List Entry) (seen : List Hash), closedWrites seen rest = true →
    ∀ n, ∀ e ∈ rest.take n, ∀ h ∈ e.next ++ e.refs, h ∈ seen ∨ h ∈ hashes (rest.take n)
  | [], _, _, n, e, he, _, _ => by simp at he
  | x :: rest, seen, hc, n, e, he, h, hh => by
    unfold closedWrites at hc
    simp only [Bool.and_eq_true, List.all_eq_true] at hc
    cases n with
    | zero => simp at he
    | succ n =>
      rw [List.take_succ_cons] at he ⊢
      cases he with
      | head =>
        left
        have := hc.1 h hh
        exact List.contains_iff_mem.mp this
      | tail _ hm =>
        rcases closedWrites_sound rest (seen ++ [x.hash]) hc.2 n e hm h hh with h1 | h1
        · rw [List.mem_append] at h1
          rcases h1 with h1 | h1
          · exact Or.inl h1
          · right; simp at h1; subst h1; simp [hashes]
        · right; unfold hashes at *; simp only [List.map_cons, List.mem_cons]; exact Or.inr h1

/-- the decidable predicate the driver evaluates on the implementation's write log implies the
    property the theorem is about -/
theorem prefixClosedB_sound (U : List Entry) (h : prefixClosedB U = true) : PrefixClosed U := by
  intro n e he c hc
  rcases closedWrites_sound U [] h n e he c hc with h1 | h1
  · cases h1
  · exact h1

end Model
