import Props.GenCapstoneViews
#print axioms Model.Capstone.translated_snapshot
