import Props.C09
open Model.C09
#print axioms fetch_unbounded_complete
#print axioms closure_eq_source
#print axioms fetch_eq_source
#print axioms load_eq_source
#print axioms sameLog_of_newLog
#print axioms rebuilt_equals_original
#print axioms inv_l5
#print axioms Model.newLog_rebuilds
#print axioms Model.newLog_values
#print axioms Model.inv_transfer
#print axioms copy_equals_original
