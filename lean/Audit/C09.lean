import Props.C09
open Model.C09
#print axioms fetch_unbounded_complete
#print axioms closure_eq_source
#print axioms fetch_eq_source
#print axioms load_eq_source
