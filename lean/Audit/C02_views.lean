import Props.GenViews
open Model.SlicesGen
#print axioms values_eq
#print axioms toJSONLog_eq
#print axioms toSnapshot_eq
#print axioms heads_eq
