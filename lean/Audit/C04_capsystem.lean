import Props.GenCapstoneSystem
open Model.Capstone
#print axioms translated_system_append_dominates
#print axioms treach_inv
