import Props.C04Conc
open Model.C04Conc in
#print axioms clock_id_is_identity_in_force
open Model.C04Conc in
#print axioms appended_entry_clock_id
open Model.C04Conc in
#print axioms join_clock_id
