import Props.C12
open Model.C12
#print axioms toPlain_total
#print axioms toPlainIdentity_total
#print axioms toPlainSignatures_total
#print axioms toPlainClock_total
#print axioms toPlainV0_total
#print axioms decode_total
#print axioms decodeRaw_total
#print axioms without_clock_check_panics
#print axioms decoded_has_clock
#print axioms decoded_safe
#print axioms load_skips_undecodable
