import Props.CodecFacts
import Props.C12
open Model.C12
#print axioms toPlain_total
#print axioms toPlainIdentity_total
#print axioms toPlainSignatures_total
#print axioms toPlainClock_total
#print axioms toPlainV0_total
#print axioms decode_total
#print axioms decodeRaw_total
#print axioms without_clock_check_panics
#print axioms decoded_has_clock
#print axioms decoded_safe
#print axioms load_skips_undecodable
open Model.CodecFacts in
#print axioms atlas_entry_match_model
open Model.CodecFacts in
#print axioms atlas_entryV1_match_model
open Model.CodecFacts in
#print axioms atlas_manifest_match_model
open Model.CodecFacts in
#print axioms signed_keys_match_model
open Model.CodecFacts in
#print axioms signed_map_exact
open Model.CodecFacts in
#print axioms hashable_exact
open Model.CodecFacts in
#print axioms create_flow
open Model.CodecFacts in
#print axioms verify_flow
open Model.CodecFacts in
#print axioms presign_flow
open Model.CodecFacts in
#print axioms decrypt_flow
open Model.CodecFacts in
#print axioms jsonable_v2_flow
