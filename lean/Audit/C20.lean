import Props.C20
open Model.C20
#print axioms cache_coherent
#print axioms cache_bounded
#print axioms create_logged
#print axioms reads_create_nothing
#print axioms created_present
#print axioms created_present_after
#print axioms key_stable
#print axioms never_created_absent
#print axioms identity_created
#print axioms identity_deterministic
#print axioms id_signature_verifies
#print axioms pubkey_signature_verifies
#print axioms entry_signature_verifies
#print axioms toyCrypto_ideal
#print axioms recreate_breaks_coherence
