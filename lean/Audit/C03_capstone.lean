import Props.GenCapstoneValues
open Model.Capstone
#print axioms translated_values
