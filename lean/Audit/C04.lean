import Props.C04
open Model.C04
#print axioms next_is_heads
#print axioms clock_id_is_writer
#print axioms time_dominates
#print axioms single_head
#print axioms refs_in_past
#print axioms whole_log_in_past
#print axioms refs_logarithmic
