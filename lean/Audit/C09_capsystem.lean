import Props.GenCapstoneSystem
open Model.Capstone
#print axioms translated_system_load
#print axioms treach_inv
