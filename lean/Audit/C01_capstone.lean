import Props.GenCapstoneJoin
open Model.Capstone
#print axioms translated_join_preserves_inv
#print axioms Model.Capstone.translated_join_union
