import Props.C14
import Props.C13Facts
open Model.C14
#print axioms join_reads_ordered
#print axioms join_snapshot
#print axioms join_result_in_union
#print axioms join_sees_snapshot
#print axioms join_includes_snapshot
#print axioms join_heads_are_entries
#print axioms cross_join_deadlock_free
#print axioms join_terminates
#print axioms Model.C13.no_acquire_while_holding
#print axioms join_heads_are_entries_any
#print axioms heads_are_entries_every_schedule
open Model.C13 in
#print axioms shape_append
open Model.C13 in
#print axioms shape_join
open Model.C13 in
#print axioms shape_setIdentity
open Model.C13 in
#print axioms shape_readers
open Model.C13 in
#print axioms shape_toMultihash
open Model.C13 in
#print axioms shape_iterator
open Model.C13 in
#print axioms iterator_sends_after_unlock
