import Props.C17
import Props.EffectFacts
open Model.C17
#print axioms store_closed_at_every_prefix
#print axioms memory_subset_store
#print axioms published_heads_in_store
#print axioms store_only_grows
#print axioms checked_predicate_sound
open Model.EffectFacts in
#print axioms append_writes_and_checks_before_publishing
open Model.EffectFacts in
#print axioms no_block_removal
#print axioms run_store_grows
#print axioms source_in_store
#print axioms published_state_loads
#print axioms Model.reachable_refsIn
