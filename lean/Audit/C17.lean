import Props.C17
open Model.C17
#print axioms store_closed_at_every_prefix
#print axioms memory_subset_store
#print axioms published_heads_in_store
#print axioms store_only_grows
#print axioms checked_predicate_sound
