import Props.C19Gen
import Props.C19
open Model.C19
#print axioms hash_irreflexive
#print axioms hash_antisymmetric
#print axioms hash_transitive
#print axioms hash_total
#print axioms lww_total
#print axioms lww_antisymmetric
#print axioms lww_transitive
#print axioms lww_tie_not_antisymmetric
#print axioms clock_antisymmetric
#print axioms clock_transitive
#print axioms time_respected
#print axioms fww_reverse
#print axioms sort_permutation
#print axioms sort_hash_sorted
#print axioms sort_hash_deterministic
#print axioms sort_lww_sorted
#print axioms sort_lww_deterministic
open Model.C19Gen in
#print axioms clockCompare_eq
open Model.C19Gen in
#print axioms lastWriteWins_eq
open Model.C19Gen in
#print axioms firstWriteWins_eq
open Model.C19Gen in
#print axioms sortByEntryHash_eq
open Model.C19Gen in
#print axioms noZeroes_eq
open Model.C19Gen in
#print axioms sort_less_eq
