import Props.GenCapstoneSystem
open Model.Capstone
#print axioms treach_inv
#print axioms translated_system_snapshot
#print axioms treach_can_append
#print axioms treach_can_join
#print axioms translated_convergence
