import Props.CodecFacts
import Props.C06
import Props.EffectFacts
open Model.C06
#print axioms join_rejects
#print axioms join_admits
#print axioms join_heads_admitted
#print axioms join_other_id
#print axioms append_denied_unchanged
#print axioms append_verifies
open Model.EffectFacts in
#print axioms append_writes_and_checks_before_publishing
open Model.EffectFacts in
#print axioms join_validates_before_publishing
open Model.CodecFacts in
#print axioms atlas_entry_match_model
open Model.CodecFacts in
#print axioms atlas_entryV1_match_model
open Model.CodecFacts in
#print axioms atlas_manifest_match_model
open Model.CodecFacts in
#print axioms signed_keys_match_model
open Model.CodecFacts in
#print axioms signed_map_exact
open Model.CodecFacts in
#print axioms hashable_exact
open Model.CodecFacts in
#print axioms create_flow
open Model.CodecFacts in
#print axioms verify_flow
open Model.CodecFacts in
#print axioms presign_flow
open Model.CodecFacts in
#print axioms decrypt_flow
open Model.CodecFacts in
#print axioms jsonable_v2_flow
#print axioms join_heads_are_held_entries
