import Props.C06
open Model.C06
#print axioms join_rejects
#print axioms join_admits
#print axioms join_heads_admitted
#print axioms join_other_id
#print axioms append_denied_unchanged
#print axioms append_verifies
