import Props.C06
import Props.EffectFacts
open Model.C06
#print axioms join_rejects
#print axioms join_admits
#print axioms join_heads_admitted
#print axioms join_other_id
#print axioms append_denied_unchanged
#print axioms append_verifies
open Model.EffectFacts in
#print axioms append_writes_and_checks_before_publishing
open Model.EffectFacts in
#print axioms join_validates_before_publishing
