import Props.C11
open Model.C11
#print axioms dispatch_once
#print axioms never_excluded
#print axioms results_nodup
#print axioms bounded
#print axioms progress
#print axioms can_terminate
#print axioms faulty_result
#print axioms faulty_result_computed
#print axioms partial_result_sound
#print axioms cancel_stops_dispatch
#print axioms sync_no_deadlock
#print axioms sync_bounded
#print axioms sync_at_return
#print axioms sync_exclusion
#print axioms slot_released_under_mutex_deadlocks
#print axioms sync_shape_exact
#print axioms slot_released_before_mutex
#print axioms timeout_wraps_the_load
