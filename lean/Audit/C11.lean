import Props.C11
open Model.C11
#print axioms dispatch_once
#print axioms never_excluded
#print axioms results_nodup
#print axioms bounded
#print axioms progress
#print axioms can_terminate
#print axioms faulty_result
#print axioms faulty_result_computed
#print axioms partial_result_sound
#print axioms cancel_stops_dispatch
