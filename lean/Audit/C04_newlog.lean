import Props.GenNewLog
open Model.SlicesGen
#print axioms newLogCore_eq
