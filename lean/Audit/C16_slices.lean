import Props.GenJoinTail
import Props.GenJoin
open Model.SlicesGen
#print axioms logDifference_eq
#print axioms joinTail_eq
