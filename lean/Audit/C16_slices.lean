import Props.SlicesGen
open Model.SlicesGen
#print axioms logDifference_eq
