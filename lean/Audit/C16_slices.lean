import Props.GenJoin
open Model.SlicesGen
#print axioms logDifference_eq
