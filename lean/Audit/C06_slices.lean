import Props.SlicesGen
open Model.SlicesGen
#print axioms findHeads_eq
#print axioms logDifference_eq
