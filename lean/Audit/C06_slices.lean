import Props.GenJoinTail
import Props.GenHeads
import Props.GenJoin
open Model.SlicesGen
#print axioms findHeads_eq
#print axioms logDifference_eq
#print axioms joinTail_eq
