import Props.GenCapstoneLoad
open Model.Capstone
#print axioms translated_limited_load
