import Props.SlicesGen
open Model.SlicesGen
#print axioms uniqueCIDs_eq_uniq
