import Props.GenCapstoneAppend
open Model.Capstone
#print axioms translated_append
#print axioms Model.SlicesGen.appendTail_eq
