import Props.GenCapstoneIter
open Model.Capstone
#print axioms translated_iterator_sound
#print axioms translated_iterator_default
