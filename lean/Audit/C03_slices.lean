import Props.SlicesGen
open Model.SlicesGen
#print axioms traverse_eq
