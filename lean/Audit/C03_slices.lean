import Props.GenTraverse
open Model.SlicesGen
#print axioms traverse_eq
