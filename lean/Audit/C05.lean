import Props.C05
open Model.C05
#print axioms entry_preserved
#print axioms len_mono
#print axioms values_subsequence_partial
#print axioms other_logs_untouched
