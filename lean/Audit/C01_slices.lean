import Props.GenJoinTail
import Props.GenHeads
import Props.GenJoin
import Props.GenTraverse
open Model.SlicesGen
#print axioms traverse_eq
#print axioms findHeads_eq
#print axioms logDifference_eq
#print axioms joinTail_eq
