import Props.GenIterator
import Props.GenTraverse
open Model.SlicesGen
#print axioms traverse_eq
#print axioms traverse_eq_some
#print axioms iterator_eq_fuel
#print axioms iterator_eq
