import Props.GenTraverse
open Model.SlicesGen
#print axioms traverse_eq
#print axioms traverse_eq_some
