import Props.GenCapstoneSystem
open Model.Capstone
#print axioms translated_system_join_bounded
#print axioms treach_inv
