import Props.C10
open Model.C10
#print axioms fetch_limited_superset
#print axioms fetch_limited_all_when_small
#print axioms load_limited_exact
#print axioms load_entries_limited_exact
#print axioms Model.lastNKeeping_cut_eq
#print axioms Model.mem_lastNKeeping
#print axioms Model.lastNKeeping_length
