import Props.C10
open Model.C10
#print axioms fetch_limited_superset
#print axioms fetch_limited_all_when_small
#print axioms load_limited_exact
