import Props.GenCapstoneAppend
open Model.Capstone
#print axioms translated_append_plan
