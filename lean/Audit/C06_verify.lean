import Props.GenJoin
open Model.SlicesGen
#print axioms joinVerify_eq
#print axioms join_err_iff_verify
