import Props.C13Facts
import Props.C15
open Model.C15
#print axioms success_closes
#print axioms amount_zero
#print axioms unknown_lte_is_error
#print axioms unknown_lt_is_error
#print axioms emits_entries
#print axioms at_most_amount
#print axioms default_is_reverse_values
#print axioms iter_full_spec
#print axioms iter_range_sound
#print axioms iter_range_full
#print axioms iter_range_gte
#print axioms iter_range_gt
#print axioms iter_range_amount
#print axioms iter_heads_amount
#print axioms related_bounds_amount
#print axioms Model.traverse_general
#print axioms Model.traverse_endHash_find
#print axioms Model.traverse_endHash
#print axioms Model.traverse_amount
#print axioms Model.traverse_amount_take
#print axioms Model.traverseG_prefix
#print axioms iter_range_gte_outside
#print axioms iter_range_gt_outside
#print axioms iter_range_gte_gt
open Model.C13 in
#print axioms shape_iterator
open Model.C13 in
#print axioms iterator_sends_after_unlock
