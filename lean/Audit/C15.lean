import Props.C15
open Model.C15
#print axioms success_closes
#print axioms amount_zero
#print axioms unknown_lte_is_error
#print axioms unknown_lt_is_error
#print axioms emits_entries
#print axioms at_most_amount
#print axioms default_is_reverse_values
