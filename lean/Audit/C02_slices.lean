import Props.GenHeads
open Model.SlicesGen
#print axioms findHeads_eq
