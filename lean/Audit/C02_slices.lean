import Props.GenJoinTail
import Props.GenHeads
open Model.SlicesGen
#print axioms findHeads_eq
#print axioms joinTail_eq
