import Props.C07
open Model.C07
#print axioms toBuffer_injective
#print axioms toBuffer_eq_iff
#print axioms toBuffer_injective_runes
#print axioms string_literal_injective
#print axioms decode_injective_on_valid_utf8
#print axioms tokens_injective_on_valid_utf8
#print axioms payload_change_changes_buffer
#print axioms toBuffer_injective_canonical
#print axioms signed_entry_verifies
#print axioms tamper_detected_partial
#print axioms tamper_detected_canonical
#print axioms tamper_id_detected
#print axioms tamper_payload_detected
#print axioms tamper_payload_detected_valid_utf8
#print axioms tamper_next_detected
#print axioms tamper_refs_detected
#print axioms tamper_version_detected
#print axioms tamper_clock_time_detected
#print axioms tamper_clock_id_detected
#print axioms key_swap_detected
#print axioms sig_swap_detected
#print axioms foreign_sig_rejected
#print axioms payload_collision
#print axioms collision_verifies
#print axioms tamper_detected_full_is_false
#print axioms payload_collision_iff
