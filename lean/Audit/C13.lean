import Props.C13
import Props.C13Facts
open Model.C13
#print axioms rw_exclusion
#print axioms rw_exclusion_reader
#print axioms held_iff_lock
#print axioms discipline_race_free
#print axioms access_under_lock
#print axioms bracket_atomic
#print axioms deadlock_free
#print axioms bounded_moves
#print axioms api_programs_wb
#print axioms api_world_init
#print axioms serial
#print axioms serial_inv
#print axioms serial_inv_past
#print axioms reads_see_inv
#print axioms append_chain
#print axioms append_after_append
#print axioms append_once
#print axioms lockFacts_guarded
#print axioms no_acquire_while_holding
open Model.C13 in
#print axioms shape_append
open Model.C13 in
#print axioms shape_join
open Model.C13 in
#print axioms shape_setIdentity
open Model.C13 in
#print axioms shape_readers
open Model.C13 in
#print axioms shape_toMultihash
open Model.C13 in
#print axioms shape_iterator
open Model.C13 in
#print axioms iterator_sends_after_unlock
