import Props.GenFetcher
open Model.SlicesGen
#print axioms updateClock_eq
#print axioms addNextEntry_eq
#print axioms admission_eq
