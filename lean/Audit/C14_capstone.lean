import Props.GenCapstoneJoin
open Model.Capstone
#print axioms translated_join_preserves_inv
