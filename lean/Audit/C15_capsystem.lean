import Props.GenCapstoneSystem
open Model.Capstone
#print axioms translated_system_iterator
#print axioms treach_inv
