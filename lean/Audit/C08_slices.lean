import Props.GenMisc
open Model.SlicesGen
#print axioms uniqueCIDs_eq
#print axioms uniqueCIDs_eq_uniq
