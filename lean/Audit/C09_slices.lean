import Props.SlicesGen
open Model.SlicesGen
#print axioms entryLastN_eq
#print axioms findHeads_eq
