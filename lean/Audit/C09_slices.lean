import Props.GenFetcher
import Props.GenHeads
import Props.GenLoaders
open Model.SlicesGen
#print axioms entryLastN_eq
#print axioms findHeads_eq
#print axioms updateClock_eq
#print axioms addNextEntry_eq
#print axioms admission_eq
#print axioms fromEntry_eq
#print axioms fromEntryLength_eq
#print axioms fromJSON_eq
#print axioms fromMultihash_eq
#print axioms fromEntryHash_eq
