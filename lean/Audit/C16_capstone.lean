import Props.GenCapstoneBounded
open Model.Capstone
#print axioms translated_join_bounded
