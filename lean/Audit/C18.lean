import Props.C18
open Model.C18
#print axioms stored_links_empty
#print axioms stored_no_tag42
#print axioms tag42_iff_links
#print axioms same_key_recovers
#print axioms uniq_of_nodup
#print axioms no_key_no_links
#print axioms other_key_error
#print axioms verify_after_read
#print axioms v1_links_in_clear
#print axioms toyCrypto_laws
