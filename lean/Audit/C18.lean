import Props.CodecFacts
import Props.C18
open Model.C18
#print axioms stored_links_empty
#print axioms stored_no_tag42
#print axioms tag42_iff_links
#print axioms same_key_recovers
#print axioms uniq_of_nodup
#print axioms no_key_no_links
#print axioms other_key_error
#print axioms verify_after_read
#print axioms v1_links_in_clear
#print axioms toyCrypto_laws
open Model.CodecFacts in
#print axioms atlas_entry_match_model
open Model.CodecFacts in
#print axioms atlas_entryV1_match_model
open Model.CodecFacts in
#print axioms atlas_manifest_match_model
open Model.CodecFacts in
#print axioms signed_keys_match_model
open Model.CodecFacts in
#print axioms signed_map_exact
open Model.CodecFacts in
#print axioms hashable_exact
open Model.CodecFacts in
#print axioms create_flow
open Model.CodecFacts in
#print axioms verify_flow
open Model.CodecFacts in
#print axioms presign_flow
open Model.CodecFacts in
#print axioms decrypt_flow
open Model.CodecFacts in
#print axioms jsonable_v2_flow
