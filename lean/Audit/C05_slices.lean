import Props.GenJoinTail
import Props.GenTraverse
open Model.SlicesGen
#print axioms traverse_eq
#print axioms joinTail_eq
