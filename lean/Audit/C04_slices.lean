import Props.SlicesGen
open Model.SlicesGen
#print axioms maxClockTimeForEntries_eq
