import Props.GenMisc
open Model.SlicesGen
#print axioms maxClockTimeForEntries_eq
