import Props.GenAppend
import Props.GenMisc
open Model.SlicesGen
#print axioms maxClockTimeForEntries_eq
#print axioms appendPlan_eq
#print axioms getEveryPow2_eq
#print axioms everyPow2_fuel
#print axioms setIdentity_eq
