import Props.C19Gen
import Props.C03
open Model.C03
#print axioms values_complete
#print axioms values_causal
#print axioms values_sorted
#print axioms values_depend_on_set_only
open Model.C19Gen in
#print axioms maxInt_eq
open Model.C19Gen in
#print axioms minInt_eq
open Model.C19Gen in
#print axioms sort_less_eq
