import Props.C03
open Model.C03
#print axioms values_complete
#print axioms values_causal
#print axioms values_sorted
#print axioms values_depend_on_set_only
