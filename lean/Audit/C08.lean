import Props.CodecFacts
import Props.C08
open Model.C08
#print axioms cbor_roundtrip
#print axioms cbor_roundtrip_v1
#print axioms manifest_roundtrip
#print axioms toPlain_toJsonable
#print axioms toPlain_toJsonable_v1
#print axioms write_read
#print axioms write_read_v1
#print axioms reencode_same
#print axioms encoding_ignores_map_order
#print axioms linkkey_write_read
open Model.CodecFacts in
#print axioms atlas_entry_match_model
open Model.CodecFacts in
#print axioms atlas_entryV1_match_model
open Model.CodecFacts in
#print axioms atlas_manifest_match_model
open Model.CodecFacts in
#print axioms signed_keys_match_model
open Model.CodecFacts in
#print axioms signed_map_exact
open Model.CodecFacts in
#print axioms hashable_exact
open Model.CodecFacts in
#print axioms create_flow
open Model.CodecFacts in
#print axioms verify_flow
open Model.CodecFacts in
#print axioms presign_flow
open Model.CodecFacts in
#print axioms decrypt_flow
open Model.CodecFacts in
#print axioms jsonable_v2_flow
