import Props.C08
open Model.C08
#print axioms cbor_roundtrip
#print axioms cbor_roundtrip_v1
#print axioms manifest_roundtrip
#print axioms toPlain_toJsonable
#print axioms toPlain_toJsonable_v1
#print axioms write_read
#print axioms write_read_v1
#print axioms reencode_same
#print axioms encoding_ignores_map_order
#print axioms linkkey_write_read
