import Props.C13Facts
import Props.C02
open Model.C02
#print axioms heads_spec
#print axioms heads_spec_bool
#print axioms heads_nonempty
#print axioms heads_subset
#print axioms heads_no_duplicates
#print axioms sorted_heads_same
open Model.C13 in
#print axioms shape_append
open Model.C13 in
#print axioms shape_join
open Model.C13 in
#print axioms shape_readers
