import Props.CodecFacts
open Model.CodecFacts
#print axioms atlas_entry_match_model
#print axioms atlas_entryV1_match_model
#print axioms atlas_clock_match_model
#print axioms atlas_identity_match_model
#print axioms atlas_signature_match_model
#print axioms atlas_manifest_match_model
#print axioms atlas_omitEmpty
#print axioms signed_keys_match_model
#print axioms signed_map_exact
#print axioms hashable_exact
#print axioms create_flow
#print axioms verify_flow
#print axioms presign_flow
#print axioms nonce_ref_flow
#print axioms decrypt_flow
#print axioms decode_flow
#print axioms jsonable_v2_flow
#print axioms toPlain_flow
#print axioms copy_flow
