import Props.OMapRefine
open Model.OMapRep
#print axioms wf_set
#print axioms get_set
#print axioms keys_set
#print axioms abs_set
#print axioms get_eq
#print axioms slice_eq
#print axioms len_eq
#print axioms at_eq
#print axioms abs_reverse
#print axioms fromEntries_eq
#print axioms merge_eq

#print axioms abs_ofList
#print axioms agree_of_universe
#print axioms inv_maps_are_reps
#print axioms revLoop_eq_reverse
#print axioms reverse_keys
