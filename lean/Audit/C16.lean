import Props.C16
open Model.C16
#print axioms join_bounded_eq
#print axioms bounded_entries
#print axioms bounded_heads
#print axioms bound_beyond_total
