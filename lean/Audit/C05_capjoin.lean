import Props.GenCapstoneJoin
open Model.Capstone
#print axioms translated_join_union
