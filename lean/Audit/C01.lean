import Props.C01
open Model.C01
#print axioms convergence
#print axioms convergence_values
#print axioms join_entries
#print axioms join_comm
#print axioms join_idem
#print axioms join_assoc
#print axioms join_self
#print axioms join_other_id_unchanged
#print axioms join_empty
#print axioms rebuild_equals_source
#print axioms Model.rebuild_spec
