import Model.Basic
/-!
# Model.Sorting — `entry/sorting/sorting.go` and `entry/lamportclock.go`

* `goSort lt` is Go's insertion sort (`sort.SliceStable` for n ≤ 20, and equal to any stable sort
  whenever `lt` is a strict weak order): every element bubbles left while `lt elem left`.
* `clockCompare` is `LamportClock.Compare`; `cmpLWW`, `cmpFWW`, `cmpHash` are `LastWriteWins`,
  `FirstWriteWins`, `SortByEntryHash`; `sorting.Compare` is `clockCompare` on the entry clocks.
* `sorting.Sort(f, xs, reverse)` is `goSort (before k)` for `reverse = true` (`f a b > 0`) and
  `goSort (beforeAsc k)` for `reverse = false` (`f a b < 0`); `NoZeroes` turns 0 into an error, for
  which `Sort`'s less-function answers `false` — the same as `0 > 0` / `0 < 0`.
-/
namespace Model

variable {α : Type}

/-- `acc` is the already sorted prefix, *reversed* (head = rightmost element).
    Go: `for j := i; j > a && less(j, j-1); j-- { swap(j, j-1) }` -/
def insRev (lt : α → α → Bool) (x : α) : List α → List α
  | [] => [x]
  | y :: ys => if lt x y then y :: insRev lt x ys else x :: y :: ys

def isortRev (lt : α → α → Bool) : List α → List α → List α
  | acc, [] => acc
  | acc, x :: xs => isortRev lt (insRev lt x acc) xs

def goSort (lt : α → α → Bool) (l : List α) : List α := (isortRev lt [] l).reverse

/-- `LamportClock.Compare` (time first, then id) -/
def clockCompare (a b : Clock) : Int :=
  if a.time = b.time then cmpBytes a.id b.id else if a.time < b.time then -1 else 1

/-- `sorting.LastWriteWins`: SortByClocks → SortByClockID → First (constant 1) -/
def cmpLWW (a b : Entry) : Int :=
  let d := clockCompare a.clock b.clock
  if d = 0 then (let i := cmpBytes a.clock.id b.clock.id; if i = 0 then 1 else i) else d

/-- `sorting.FirstWriteWins` -/
def cmpFWW (a b : Entry) : Int := cmpLWW a b * -1

/-- `sorting.SortByEntryHash` -/
def cmpHash (a b : Entry) : Int :=
  let d := clockCompare a.clock b.clock
  if d = 0 then (let i := cmpBytes a.clock.id b.clock.id; if i = 0 then cmpBytes a.hash b.hash else i) else d

inductive SortKind where
  | lww | fww | byHash
deriving DecidableEq, Repr, Inhabited

def SortKind.cmp : SortKind → Entry → Entry → Int
  | .lww => cmpLWW
  | .fww => cmpFWW
  | .byHash => cmpHash

/-- less-function of `sorting.Sort(f, _, true)`: descending -/
def before (k : SortKind) (a b : Entry) : Bool := decide (k.cmp a b > 0)

/-- less-function of `sorting.Sort(f, _, false)`: ascending -/
def beforeAsc (k : SortKind) (a b : Entry) : Bool := decide (k.cmp a b < 0)

/-- less-function of `sorting.Sort(sorting.Compare, _, false)` -/
def clockAsc (a b : Entry) : Bool := decide (clockCompare a.clock b.clock < 0)

def ltHash (a b : Entry) : Bool := before .byHash a b
def ltLWW (a b : Entry) : Bool := before .lww a b

end Model
