/-!
# Model.Basic — data of the go-ipfs-log model

Core Lean only (no Mathlib) so that the driver links as a native executable.

* `Bytes` are byte strings as lists of naturals; `cmpBytes` is `bytes.Compare` / `strings.Compare`.
* A `Hash` is the byte string of the CID *string* of an entry.  It is supplied by the
  implementation (content addressing is an oracle, see DESIGN.md §4.1).
* `Entry` carries the fields the log core looks at.  Codec-level fields live in `Model.Codec`.
* Ordered maps (`entry/entry_map.go`) are insertion-ordered association lists keyed by hash;
  `omSet` keeps the first position of a key (and, like the Go code, the key list only grows).
-/
namespace Model

abbrev Bytes := List Nat
abbrev Hash := Bytes

/-- `bytes.Compare` / `strings.Compare`: lexicographic, a proper prefix is smaller. -/
def cmpBytes : Bytes → Bytes → Int
  | [], [] => 0
  | [], _ :: _ => -1
  | _ :: _, [] => 1
  | a :: as, b :: bs => if a < b then -1 else if b < a then 1 else cmpBytes as bs

structure Clock where
  id : Bytes
  time : Int
deriving DecidableEq, Repr, Inhabited

structure Entry where
  hash : Hash
  logId : Bytes
  next : List Hash
  refs : List Hash
  clock : Clock
  /-- stands for payload, key, signature, identity: compared through the hash only -/
  tag : Nat := 0
deriving DecidableEq, Repr, Inhabited

/-- `OrderedMap.Get` -/
def get? (E : List Entry) (h : Hash) : Option Entry := E.find? (fun e => e.hash == h)

def has (E : List Entry) (h : Hash) : Bool := E.any (fun e => e.hash == h)

/-- `OrderedMap.Set`: a new key is appended; an existing key keeps its position.
    (Entries with equal hash are equal — content addressing — so the value is not replaced.) -/
def omSet (E : List Entry) (e : Entry) : List Entry :=
  if E.any (fun r => r.hash == e.hash) then E else E ++ [e]

/-- `NewOrderedMapFromEntries` (and `Merge`): set every element in order. -/
def omFromList (l : List Entry) : List Entry := l.foldl omSet []

def omMerge (a b : List Entry) : List Entry := b.foldl omSet (a.foldl omSet [])

def hashes (E : List Entry) : List Hash := E.map (·.hash)

/-- insertion-ordered set of hashes (the key set of `IPFSLog.Next`) -/
def hsSet (s : List Hash) (h : Hash) : List Hash := if s.contains h then s else s ++ [h]

def maxTime (l : List Entry) (d : Int) : Int := l.foldl (fun m e => max e.clock.time m) d

/-- last `n` elements (`n ≤ 0` ⇒ none, `n ≥ length` ⇒ all) — `entryLastN` in log_io.go -/
def lastN (n : Int) (l : List Entry) : List Entry :=
  if n ≤ 0 then [] else if n ≥ l.length then l else l.drop (l.length - n.toNat)

end Model
