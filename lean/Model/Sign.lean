import Model.Json
/-!
# Model.Sign — signing and verifying an entry (`CreateEntryWithIO`, `Entry.Verify`)

`CreateEntryWithIO` signs `toBuffer (ToHashable data)` with the identity's key and stores the public key
and the signature in the entry; `Verify` recomputes `toBuffer (ToHashable e)` and calls
`pubKey.Verify(bytes, e.Sig)` with the key stored IN the entry (`e.Key` is not part of the signed
bytes).  With the default CBOR io `PreSign` returns the entry unchanged (no link key configured).

The signature scheme (secp256k1 ECDSA over SHA-256 in libp2p) is a parameter.  Its idealisation is the
pair of laws of `Crypto`; they are hypotheses (structure fields) of the theorems that use them; nothing is postulated.
They say: a public key accepts exactly the signatures its owner produced for exactly these bytes,
and a signature value determines the key and the bytes it was made for.  Real ECDSA satisfies this
only computationally and only up to the `(r, n - s)` malleability: a signature that was NOT produced
by the signer (a forgery, a mauled copy) is outside what these laws speak about.
-/
namespace Model.Sign

open Model Model.Json

structure Crypto where
  SK : Type
  PK : Type
  Sig : Type
  pub : SK → PK
  sign : SK → Bytes → Sig
  verify : PK → Bytes → Sig → Bool
  /-- unforgeability, idealised: accepted ⇔ produced by the owner of `pk` for exactly `m` -/
  verify_iff : ∀ pk m s, verify pk m s = true ↔ ∃ sk, pub sk = pk ∧ s = sign sk m
  /-- a signature value determines the signing key and the signed bytes -/
  sign_inj : ∀ sk sk' m m', sign sk m = sign sk' m' → pub sk = pub sk' ∧ m = m'

/-- the fields of an entry that `Verify` reads -/
structure SignedEntry (C : Crypto) where
  h : Hashable
  key : C.PK
  sig : C.Sig

/-- `CreateEntryWithIO`: sign the buffer, store public key and signature -/
def signEntry (C : Crypto) (sk : C.SK) (h : Hashable) : SignedEntry C :=
  { h := h, key := C.pub sk, sig := C.sign sk (toBuffer h) }

/-- `Entry.Verify` (after the nil / empty-key / empty-signature checks) -/
def verifyEntry (C : Crypto) (e : SignedEntry C) : Bool := C.verify e.key (toBuffer e.h) e.sig

/-- a transparent instance: the signature is the pair (key, bytes).  It shows that the laws of
    `Crypto` are satisfiable, and serves to refute over-strong statements. -/
def toyCrypto : Crypto where
  SK := Nat
  PK := Nat
  Sig := Nat × Bytes
  pub := id
  sign := fun sk m => (sk, m)
  verify := fun pk m s => decide (s = (pk, m))
  verify_iff := by
    intro pk m s
    simp only [decide_eq_true_eq, id]
    constructor
    · intro h; exact ⟨pk, rfl, h⟩
    · rintro ⟨sk, rfl, h⟩; exact h
  sign_inj := by
    intro sk sk' m m' h
    simp only [Prod.mk.injEq, id] at h ⊢
    exact h

end Model.Sign
