import Model.Basic
/-!
# Model.Cbor — the DAG-CBOR subset used for entry and manifest blocks

`io/cbor/cbor.go` registers a refmt atlas for `jsonable.Entry` (= `EntryV2`), `jsonable.EntryV1`,
`jsonable.LamportClock`, `jsonable.Identity`, `jsonable.IdentitySignature`, `iface.JSONLog` and (in
`cid.go`) `cid.Cid`; `cbornode.WrapObject` marshals through it.  What was observed on the real
encoder (probe, and continuously by the `codec` stream, byte for byte):

* a struct is a map whose keys are text strings in the order of the atlas (which the authors wrote
  in RFC 7049 canonical order: shorter key first, then bytewise);
* `uint64`/`int` use the shortest head; a negative `int` is major type 1 with argument `-1-n`;
* a Go `string` is a text string whose bytes are copied as they are (no UTF-8 validation);
* a nil slice, a nil pointer and the nil `Hash interface{}` are `null` (0xf6); an empty non-nil
  slice is the empty array 0x80;
* a `cid.Cid` is tag 42 around the byte string `0x00 ++ cid bytes`;
* the two `OmitEmpty` fields `enc_links`, `enc_links_nonce` are left out, independently, when empty.

`Item` is the data-item tree, `enc` its serialisation, `cborEntry`/`cborEntryV1`/`cborManifest` the
blocks.  The decoders `decodeEntry`/`decodeManifest` read a block the way refmt reads it into the
struct for the inputs they accept (keys in any order, missing keys keep the zero value, a repeated
key overwrites, an unknown key is an error) but are stricter elsewhere (definite lengths only,
no tags other than 42 on links, no trailing bytes, `hash` must be null, integers in the `int64`
range).  The byte-level library decoder itself is trusted code; the driver checks that whenever the
model decoder accepts a block the library decodes it to the same value.
-/
namespace Model.Cbor
open Model

/-- all elements are bytes -/
def isBytes (b : Bytes) : Bool := b.all (· < 256)

/-! ## heads -/

def headInfo (n : Nat) : Nat :=
  if n < 24 then n else if n < 256 then 24 else if n < 65536 then 25 else if n < 4294967296 then 26 else 27

def headArg (n : Nat) : Bytes :=
  if n < 24 then [] else if n < 256 then [n] else if n < 65536 then [n / 256, n % 256]
  else if n < 4294967296 then [n / 16777216, n / 65536 % 256, n / 256 % 256, n % 256]
  else [n / 72057594037927936 % 256, n / 281474976710656 % 256, n / 1099511627776 % 256, n / 4294967296 % 256,
        n / 16777216 % 256, n / 65536 % 256, n / 256 % 256, n % 256]

/-- initial byte (major type `m`, additional information) followed by the argument, shortest form -/
def head (m n : Nat) : Bytes := (m * 32 + headInfo n) :: headArg n

/-- reads a head: (major type, argument, rest).  Non-shortest forms are accepted, indefinite
    lengths and the reserved values 28–31 are not. -/
def pHead : Bytes → Option (Nat × Nat × Bytes)
  | [] => none
  | b :: r =>
    if b ≥ 256 then none else
    let m := b / 32
    let i := b % 32
    if i < 24 then some (m, i, r)
    else if i = 24 then
      match r with
      | a :: r => some (m, a, r)
      | _ => none
    else if i = 25 then
      match r with
      | a :: b :: r => some (m, a * 256 + b, r)
      | _ => none
    else if i = 26 then
      match r with
      | a :: b :: c :: d :: r => some (m, a * 16777216 + b * 65536 + c * 256 + d, r)
      | _ => none
    else if i = 27 then
      match r with
      | a :: b :: c :: d :: e :: f :: g :: h :: r =>
        some (m, a * 72057594037927936 + b * 281474976710656 + c * 1099511627776 + d * 4294967296
                 + e * 16777216 + f * 65536 + g * 256 + h, r)
      | _ => none
    else none

/-! ## data items -/

inductive Item where
  | uint (n : Nat)
  /-- the negative integer `-1 - n` -/
  | nint (n : Nat)
  | bytes (b : Bytes)
  | text (b : Bytes)
  | arr (l : List Item)
  /-- keys are text strings -/
  | map (l : List (Bytes × Item))
  | tag (t : Nat) (i : Item)
  | null
deriving Repr, Inhabited

mutual
def enc : Item → Bytes
  | .uint n => head 0 n
  | .nint n => head 1 n
  | .bytes b => head 2 b.length ++ b
  | .text b => head 3 b.length ++ b
  | .arr l => head 4 l.length ++ encList l
  | .map l => head 5 l.length ++ encMap l
  | .tag t i => head 6 t ++ enc i
  | .null => [246]
def encList : List Item → Bytes
  | [] => []
  | x :: xs => enc x ++ encList xs
def encMap : List (Bytes × Item) → Bytes
  | [] => []
  | (k, v) :: xs => (head 3 k.length ++ k) ++ (enc v ++ encMap xs)
end

/- does the tree contain an IPLD link (tag 42) anywhere? -/
mutual
def hasTag42 : Item → Bool
  | .arr l => hasTag42List l
  | .map l => hasTag42Map l
  | .tag t i => t == 42 || hasTag42 i
  | _ => false
def hasTag42List : List Item → Bool
  | [] => false
  | x :: xs => hasTag42 x || hasTag42List xs
def hasTag42Map : List (Bytes × Item) → Bool
  | [] => false
  | (_, v) :: xs => hasTag42 v || hasTag42Map xs
end

/-! ## the schema (`io/jsonable/types.go`, `iface.JSONLog`) -/

/-- `jsonable.LamportClock` -/
structure JClock where
  id : Bytes := []
  time : Int := 0
deriving DecidableEq, Repr, Inhabited

/-- `jsonable.IdentitySignature` -/
structure JSig where
  id : Bytes := []
  publicKey : Bytes := []
deriving DecidableEq, Repr, Inhabited

/-- `jsonable.Identity` -/
structure JIdentity where
  id : Bytes := []
  publicKey : Bytes := []
  signatures : Option JSig := none
  typ : Bytes := []
deriving DecidableEq, Repr, Inhabited

/-- `jsonable.Entry` (= `EntryV2`).  Strings are byte strings; links are raw CID bytes; `none` is a
    nil slice / nil pointer.  The `Hash interface{}` field is always nil when written
    (`ToJsonableEntry`) and overwritten after reading (`DecodeRawEntry`), so it is not a field here:
    it is emitted as `null`. -/
structure JEntry where
  v : Nat := 0
  logId : Bytes := []
  key : Bytes := []
  sig : Bytes := []
  next : Option (List Bytes) := none
  refs : Option (List Bytes) := none
  clock : Option JClock := none
  payload : Bytes := []
  identity : Option JIdentity := none
  encLinks : Bytes := []
  encNonce : Bytes := []
deriving DecidableEq, Repr, Inhabited

/-- `iface.JSONLog` -/
structure JLog where
  id : Bytes := []
  heads : Option (List Bytes) := none
deriving DecidableEq, Repr, Inhabited

def kV : Bytes := [118]
def kId : Bytes := [105, 100]
def kKey : Bytes := [107, 101, 121]
def kSig : Bytes := [115, 105, 103]
def kHash : Bytes := [104, 97, 115, 104]
def kNext : Bytes := [110, 101, 120, 116]
def kRefs : Bytes := [114, 101, 102, 115]
def kTime : Bytes := [116, 105, 109, 101]
def kType : Bytes := [116, 121, 112, 101]
def kClock : Bytes := [99, 108, 111, 99, 107]
def kHeads : Bytes := [104, 101, 97, 100, 115]
def kPayload : Bytes := [112, 97, 121, 108, 111, 97, 100]
def kIdentity : Bytes := [105, 100, 101, 110, 116, 105, 116, 121]
def kPublicKey : Bytes := [112, 117, 98, 108, 105, 99, 75, 101, 121]
def kSignatures : Bytes := [115, 105, 103, 110, 97, 116, 117, 114, 101, 115]
def kEncLinks : Bytes := [101, 110, 99, 95, 108, 105, 110, 107, 115]
def kEncNonce : Bytes := [101, 110, 99, 95, 108, 105, 110, 107, 115, 95, 110, 111, 110, 99, 101]

def intItem (t : Int) : Item := if t ≥ 0 then .uint t.toNat else .nint (-(t + 1)).toNat

def linkItem (c : Bytes) : Item := .tag 42 (.bytes (0 :: c))

def linksItem : Option (List Bytes) → Item
  | none => .null
  | some l => .arr (l.map linkItem)

def clockItem : Option JClock → Item
  | none => .null
  | some c => .map [(kId, .text c.id), (kTime, intItem c.time)]

def sigItem : Option JSig → Item
  | none => .null
  | some s => .map [(kId, .text s.id), (kPublicKey, .text s.publicKey)]

def identityItem : Option JIdentity → Item
  | none => .null
  | some i => .map [(kId, .text i.id), (kType, .text i.typ), (kPublicKey, .text i.publicKey),
                    (kSignatures, sigItem i.signatures)]

def encLinksFields (j : JEntry) : List (Bytes × Item) :=
  (if j.encLinks = [] then [] else [(kEncLinks, .text j.encLinks)]) ++
  (if j.encNonce = [] then [] else [(kEncNonce, .text j.encNonce)])

/-- the `jsonable.Entry` struct through the atlas -/
def entryItem (j : JEntry) : Item :=
  .map ([(kV, .uint j.v), (kId, .text j.logId), (kKey, .text j.key), (kSig, .text j.sig), (kHash, .null),
         (kNext, linksItem j.next), (kRefs, linksItem j.refs), (kClock, clockItem j.clock),
         (kPayload, .text j.payload), (kIdentity, identityItem j.identity)] ++ encLinksFields j)

/-- the `jsonable.EntryV1` struct (what `ToJsonableEntry` produces when `V = 1`): no `refs`, no
    encrypted-link fields -/
def entryItemV1 (j : JEntry) : Item :=
  .map [(kV, .uint j.v), (kId, .text j.logId), (kKey, .text j.key), (kSig, .text j.sig), (kHash, .null),
        (kNext, linksItem j.next), (kClock, clockItem j.clock),
        (kPayload, .text j.payload), (kIdentity, identityItem j.identity)]

def logItem (m : JLog) : Item := .map [(kId, .text m.id), (kHeads, linksItem m.heads)]

/-- the bytes of the block `cbornode.WrapObject(&jsonable.EntryV2{..})` -/
def cborEntry (j : JEntry) : Bytes := enc (entryItem j)
def cborEntryV1 (j : JEntry) : Bytes := enc (entryItemV1 j)
/-- the bytes of the block `cbornode.WrapObject(&iface.JSONLog{..})` -/
def cborManifest (m : JLog) : Bytes := enc (logItem m)

/-- refmt refuses to marshal an undefined `cid.Cid` (`castCidToBytes`: `ErrEmptyLink`) -/
def linksDefined : Option (List Bytes) → Bool
  | none => true
  | some l => l.all (fun c => !c.isEmpty)

/-! ## decoders -/

def pText (b : Bytes) : Option (Bytes × Bytes) :=
  match pHead b with
  | some (3, n, r) => if n ≤ r.length then some (r.take n, r.drop n) else none
  | _ => none

def pUint (b : Bytes) : Option (Nat × Bytes) :=
  match pHead b with
  | some (0, n, r) => some (n, r)
  | _ => none

/-- a Go `int` (64 bit) -/
def pInt (b : Bytes) : Option (Int × Bytes) :=
  match pHead b with
  | some (0, n, r) => if n < 9223372036854775808 then some (Int.ofNat n, r) else none
  | some (1, n, r) => if n < 9223372036854775808 then some (-1 - Int.ofNat n, r) else none
  | _ => none

/-- the next item is `null` (0xf6) -/
def isNull : Bytes → Bool
  | x :: _ => x == 246
  | [] => false

def pNull (b : Bytes) : Option Bytes := if isNull b then some b.tail else none

/-- tag 42, byte string, leading 0x00 (`castBytesToCid`; `cid.Cast` on the remainder is library code) -/
def pLink (b : Bytes) : Option (Bytes × Bytes) :=
  match pHead b with
  | some (6, 42, r) =>
    match pHead r with
    | some (2, n, r) =>
      if n ≤ r.length then
        match r.take n with
        | 0 :: c => some (c, r.drop n)
        | _ => none
      else none
    | _ => none
  | _ => none

def pLinkList : Nat → Bytes → Option (List Bytes × Bytes)
  | 0, b => some ([], b)
  | n + 1, b =>
    match pLink b with
    | none => none
    | some (c, b) =>
      match pLinkList n b with
      | none => none
      | some (l, b) => some (c :: l, b)

def pLinksOpt (b : Bytes) : Option (Option (List Bytes) × Bytes) :=
  if isNull b then some (none, b.tail) else
    match pHead b with
    | some (4, n, r) =>
      match pLinkList n r with
      | some (l, r) => some (some l, r)
      | none => none
    | _ => none

/-- the field loop of a struct: `n` times (key, value), the value parser chosen by the key -/
def pFields {σ : Type} (set : σ → Bytes → Bytes → Option (σ × Bytes)) : Nat → σ → Bytes → Option (σ × Bytes)
  | 0, s, b => some (s, b)
  | n + 1, s, b =>
    match pText b with
    | none => none
    | some (k, b) =>
      match set s k b with
      | none => none
      | some (s, b) => pFields set n s b

/-- null, or a map read into the zero value of the struct (a pointer field) -/
def pStructOpt {σ : Type} (zero : σ) (set : σ → Bytes → Bytes → Option (σ × Bytes)) (b : Bytes) : Option (Option σ × Bytes) :=
  if isNull b then some (none, b.tail) else
    match pHead b with
    | some (5, n, r) =>
      match pFields set n zero r with
      | some (s, r) => some (some s, r)
      | none => none
    | _ => none

def setClock (c : JClock) (k b : Bytes) : Option (JClock × Bytes) :=
  if k = kId then (pText b).map (fun (x, r) => ({ c with id := x }, r))
  else if k = kTime then (pInt b).map (fun (x, r) => ({ c with time := x }, r))
  else none

def setSig (s : JSig) (k b : Bytes) : Option (JSig × Bytes) :=
  if k = kId then (pText b).map (fun (x, r) => ({ s with id := x }, r))
  else if k = kPublicKey then (pText b).map (fun (x, r) => ({ s with publicKey := x }, r))
  else none

def setIdentity (i : JIdentity) (k b : Bytes) : Option (JIdentity × Bytes) :=
  if k = kId then (pText b).map (fun (x, r) => ({ i with id := x }, r))
  else if k = kType then (pText b).map (fun (x, r) => ({ i with typ := x }, r))
  else if k = kPublicKey then (pText b).map (fun (x, r) => ({ i with publicKey := x }, r))
  else if k = kSignatures then (pStructOpt ({} : JSig) setSig b).map (fun (x, r) => ({ i with signatures := x }, r))
  else none

def setEntry (j : JEntry) (k b : Bytes) : Option (JEntry × Bytes) :=
  if k = kV then (pUint b).map (fun (x, r) => ({ j with v := x }, r))
  else if k = kId then (pText b).map (fun (x, r) => ({ j with logId := x }, r))
  else if k = kKey then (pText b).map (fun (x, r) => ({ j with key := x }, r))
  else if k = kSig then (pText b).map (fun (x, r) => ({ j with sig := x }, r))
  else if k = kHash then (pNull b).map (fun r => (j, r))
  else if k = kNext then (pLinksOpt b).map (fun (x, r) => ({ j with next := x }, r))
  else if k = kRefs then (pLinksOpt b).map (fun (x, r) => ({ j with refs := x }, r))
  else if k = kClock then (pStructOpt ({} : JClock) setClock b).map (fun (x, r) => ({ j with clock := x }, r))
  else if k = kPayload then (pText b).map (fun (x, r) => ({ j with payload := x }, r))
  else if k = kIdentity then (pStructOpt ({} : JIdentity) setIdentity b).map (fun (x, r) => ({ j with identity := x }, r))
  else if k = kEncLinks then (pText b).map (fun (x, r) => ({ j with encLinks := x }, r))
  else if k = kEncNonce then (pText b).map (fun (x, r) => ({ j with encNonce := x }, r))
  else none

def setLog (m : JLog) (k b : Bytes) : Option (JLog × Bytes) :=
  if k = kId then (pText b).map (fun (x, r) => ({ m with id := x }, r))
  else if k = kHeads then (pLinksOpt b).map (fun (x, r) => ({ m with heads := x }, r))
  else none

/-- `cbornode.DecodeInto(raw, &jsonable.EntryV2{})` on the blocks the model accepts -/
def decodeEntry (b : Bytes) : Option JEntry :=
  match pHead b with
  | some (5, n, r) =>
    match pFields setEntry n ({} : JEntry) r with
    | some (j, []) => some j
    | _ => none
  | _ => none

/-- `cbornode.DecodeInto(raw, &iface.JSONLog{})` on the blocks the model accepts -/
def decodeManifest (b : Bytes) : Option JLog :=
  match pHead b with
  | some (5, n, r) =>
    match pFields setLog n ({} : JLog) r with
    | some (m, []) => some m
    | _ => none
  | _ => none

/-! ## well-formedness: what fits the 64-bit heads -/

def two64 : Nat := 18446744073709551616

def linksWf : Option (List Bytes) → Prop
  | none => True
  | some l => l.length < two64 ∧ ∀ c ∈ l, c.length + 1 < two64

def JClock.wf (c : JClock) : Prop :=
  c.id.length < two64 ∧ -9223372036854775808 ≤ c.time ∧ c.time < 9223372036854775808

def JSig.wf (s : JSig) : Prop := s.id.length < two64 ∧ s.publicKey.length < two64

def JIdentity.wf (i : JIdentity) : Prop :=
  i.id.length < two64 ∧ i.publicKey.length < two64 ∧ i.typ.length < two64 ∧ (∀ s, i.signatures = some s → s.wf)

/-- everything fits its head: `V` is a `uint64`, the clock time an `int64`, every length is below 2^64
    (true of every value a Go program can hold) -/
def JEntry.wf (j : JEntry) : Prop :=
  j.v < two64 ∧ j.logId.length < two64 ∧ j.key.length < two64 ∧ j.sig.length < two64 ∧
  linksWf j.next ∧ linksWf j.refs ∧ (∀ c, j.clock = some c → c.wf) ∧ j.payload.length < two64 ∧
  (∀ i, j.identity = some i → i.wf) ∧ j.encLinks.length < two64 ∧ j.encNonce.length < two64

def JLog.wf (m : JLog) : Prop := m.id.length < two64 ∧ linksWf m.heads

end Model.Cbor
