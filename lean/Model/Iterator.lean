import Model.Log
/-!
# Model.Iterator — `IPFSLog.Iterator` (log.go l.416-503)

`closed` records whether the output channel was closed.  An unknown upper bound is an error and
the channel is left untouched (the caller still owns it).
-/
namespace Model

structure IterOpts where
  lte : Option (List Hash) := none   -- `options.LTE != nil`
  lt : Option (List Hash) := none
  gte : Option Hash := none
  gt : Option Hash := none
  amount : Option Int := none
deriving Repr, DecidableEq

inductive IterResult where
  | ok (out : List Entry) (closed : Bool)
  | errLTE
  | errLT
deriving Repr, DecidableEq

def lookupAll (E : List Entry) : List Hash → Option (List Entry)
  | [] => some []
  | h :: hs =>
    match get? E h, lookupAll E hs with
    | some e, some r => some (e :: r)
    | _, _ => none

/-- the `LT` branch: every bound must be known and so must each of its predecessors; the start set
    is the predecessor list of the *last* bound (it is reset for every bound) -/
def ltStart (E : List Entry) : List Hash → List Entry → Option (List Entry)
  | [], start => some start
  | c :: cs, _ =>
    match get? E c with
    | none => none
    | some e =>
      match lookupAll E e.next with
      | none => none
      | some s => ltStart E cs s

inductive IterStart where
  | ok (start : List Entry)
  | errLTE
  | errLT
deriving Repr, DecidableEq

/-- the starting entries of the traversal: the given `LTE` entries, the predecessors of the `LT`
    bound, or the sorted heads -/
def iterStart (l : Log) (o : IterOpts) : IterStart :=
  match o.lte with
  | some cs => (match lookupAll l.entries cs with | some s => .ok s | none => .errLTE)
  | none =>
    match o.lt with
    | some cs => (match ltStart l.entries cs (sortedHeads l) with | some s => .ok s | none => .errLT)
    | none => .ok (sortedHeads l)

def iterEnd (o : IterOpts) : Option Hash := match o.gte with | some h => some h | none => o.gt

def iterAmount (o : IterOpts) : Int := o.amount.getD (-1)

/-- the traversal is limited only when there is no lower bound -/
def iterCount (o : IterOpts) : Int := if iterEnd o = none ∧ o.amount.isSome then iterAmount o else -1

/-- after the traversal: drop the exclusive lower bound itself ... -/
def iterDropGt (o : IterOpts) (ents : List Entry) : List Entry :=
  if o.gt.isSome ∧ ents.length > 0 then ents.dropLast else ents

/-- ... then keep the `amount` entries nearest the lower bound -/
def iterKeepLast (o : IterOpts) (ents1 : List Entry) : List Entry :=
  if (o.gt.isSome ∨ o.gte.isSome) ∧ iterAmount o > -1 ∧ iterAmount o < ents1.length
  then ents1.drop (ents1.length - (iterAmount o).toNat) else ents1

def iterTrim (o : IterOpts) (ents : List Entry) : List Entry := iterKeepLast o (iterDropGt o ents)

def iterator (l : Log) (o : IterOpts) : IterResult :=
  if o.amount = some 0 then .ok [] true else
  match iterStart l o with
  | .errLTE => .errLTE
  | .errLT => .errLT
  | .ok start =>
    .ok (iterTrim o (traverseG l.entries (before l.sortFn) (omFromList start) (iterCount o) (iterEnd o))) true

end Model
