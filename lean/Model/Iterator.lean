import Model.Log
/-!
# Model.Iterator — `IPFSLog.Iterator` (log.go l.416-503)

`closed` records whether the output channel was closed.  An unknown upper bound is an error and
the channel is left untouched (the caller still owns it).
-/
namespace Model

structure IterOpts where
  lte : Option (List Hash) := none   -- `options.LTE != nil`
  lt : Option (List Hash) := none
  gte : Option Hash := none
  gt : Option Hash := none
  amount : Option Int := none
deriving Repr, DecidableEq

inductive IterResult where
  | ok (out : List Entry) (closed : Bool)
  | errLTE
  | errLT
deriving Repr, DecidableEq

def lookupAll (E : List Entry) : List Hash → Option (List Entry)
  | [] => some []
  | h :: hs =>
    match get? E h, lookupAll E hs with
    | some e, some r => some (e :: r)
    | _, _ => none

/-- the `LT` branch: every bound must be known and so must each of its predecessors; the start set
    is the predecessor list of the *last* bound (it is reset for every bound) -/
def ltStart (E : List Entry) : List Hash → List Entry → Option (List Entry)
  | [], start => some start
  | c :: cs, _ =>
    match get? E c with
    | none => none
    | some e =>
      match lookupAll E e.next with
      | none => none
      | some s => ltStart E cs s

def iterator (l : Log) (o : IterOpts) : IterResult :=
  if o.amount = some 0 then .ok [] true else
  let amount : Int := o.amount.getD (-1)
  let start0 := sortedHeads l
  let startR : Except IterResult (List Entry) :=
    match o.lte with
    | some cs => (match lookupAll l.entries cs with | some s => .ok s | none => .error .errLTE)
    | none =>
      match o.lt with
      | some cs => (match ltStart l.entries cs start0 with | some s => .ok s | none => .error .errLT)
      | none => .ok start0
  match startR with
  | .error r => r
  | .ok start =>
    let endHash : Option Hash := match o.gte with | some h => some h | none => o.gt
    let count : Int := if endHash = none ∧ o.amount.isSome then amount else -1
    let ents := traverseG l.entries (before l.sortFn) (omFromList start) count endHash
    let ents1 := if o.gt.isSome ∧ ents.length > 0 then ents.dropLast else ents
    let ents2 := if (o.gt.isSome ∨ o.gte.isSome) ∧ amount > -1 ∧ amount < ents1.length
                 then ents1.drop (ents1.length - amount.toNat) else ents1
    .ok ents2 true

end Model
