import Model.Sorting
/-!
# Model.Log — the sequential log core (`log.go`, `entry/utils.go`)

Line-by-line transcriptions.  Loops take fuel computed from the state; `Proofs/` shows the fuel is
never exhausted.  Hashes are supplied by the caller (content addressing is an oracle).
-/
namespace Model

structure Log where
  id : Bytes
  entries : List Entry          -- `Entries` (insertion ordered, keyed by hash)
  heads : List Entry            -- `heads`
  nextIdx : List Hash           -- key set of `Next`
  clock : Clock
  sortFn : SortKind
deriving Repr, Inhabited

/-- inner loop of `traverse` over `e.next` (log.go l.233-253):
    state = (stack, traversed, modified) -/
def pushNexts (E : List Entry) : List Hash → List Entry × List Hash × Bool → List Entry × List Hash × Bool
  | [], acc => acc
  | c :: cs, (stack, trav, m) =>
    match get? E c with
    | none => pushNexts E cs (stack, trav, m)
    | some n =>
      if trav.contains n.hash then pushNexts E cs (stack, trav, m)
      else pushNexts E cs (n :: stack, n.hash :: trav, true)

/-- main loop of `traverse` (log.go l.216-258).  `amount < 0` = unbounded; `endHash = none` = "" -/
def travLoop (E : List Entry) (lt : Entry → Entry → Bool) (amount : Int) (endHash : Option Hash) :
    Nat → List Entry → List Hash → List Entry → Int → List Entry
  | 0, _, _, res, _ => res
  | _ + 1, [], _, res, _ => res
  | fuel + 1, e :: rest, trav, res, count =>
    if amount < 0 ∨ count < amount then
      let res' := omSet res e
      if endHash = some e.hash then res'
      else
        let r := pushNexts E e.next (rest, e.hash :: trav, false)
        let st' := if r.2.2 then goSort lt r.1 else r.1
        travLoop E lt amount endHash fuel st' r.2.1 res' (count + 1)
    else res

def traverseFuel (E roots : List Entry) : Nat := roots.length + E.length + 1

/-- `IPFSLog.traverse(rootEntries, amount, endHash)` -/
def traverseG (E : List Entry) (lt : Entry → Entry → Bool) (roots : List Entry) (amount : Int)
    (endHash : Option Hash) : List Entry :=
  travLoop E lt amount endHash (traverseFuel E roots) (goSort lt roots) [] [] 0

/-- unbounded traversal, no end hash -/
def traverse (E : List Entry) (lt : Entry → Entry → Bool) (roots : List Entry) : List Entry :=
  traverseG E lt roots (-1) none

/-- `IPFSLog.values()` -/
def values (l : Log) : List Entry := (traverse l.entries (before l.sortFn) l.heads).reverse

/-- `IPFSLog.sortedHeads` / `Heads()` -/
def sortedHeads (l : Log) : List Entry := omFromList (goSort (before l.sortFn) l.heads)

/-- `entry.FindHeads`: keys nobody names, stably sorted by clock id -/
def findHeads (E : List Entry) : List Entry :=
  let named : List Hash := E.foldl (fun acc e => acc ++ e.next) []
  let un := E.filter (fun e => !named.contains e.hash)
  goSort (fun a b => decide (cmpBytes a.clock.id b.clock.id < 0)) un

/-- `getEveryPow2(all, maxDistance)`; `fuel` bounds the doubling loop -/
def everyPow2 (all : List Entry) (maxDistance : Int) : Nat → Int → List Entry
  | 0, _ => []
  | fuel + 1, i =>
    if i ≤ maxDistance then
      let idx := min ((all.length : Int) - 1) (i - 1)
      match all[idx.toNat]? with
      | some e => e :: everyPow2 all maxDistance fuel (i * 2)
      | none => everyPow2 all maxDistance fuel (i * 2)
    else []

def dedupHashes : List Hash → List Hash → List Hash
  | [], acc => acc
  | h :: hs, acc => if acc.contains h then dedupHashes hs acc else dedupHashes hs (acc ++ [h])

structure AppendResult where
  next : List Hash
  refs : List Hash
  clock : Clock
deriving Repr, DecidableEq

/-- the part of `Append` before the entry is created: predecessors, references and clock
    (log.go l.308-365; `Copy()` de-duplicates the two lists) -/
def appendPlan (l : Log) (pcOpt : Int) : AppendResult :=
  let heads := sortedHeads l
  let pc : Int := if pcOpt ≠ 0 then pcOpt else 1
  let newTime := max l.clock.time (maxTime heads 0) + 1
  let all := traverseG l.entries (before l.sortFn) heads (max pc heads.length) none
  let refs0 := everyPow2 all (min pc all.length) (all.length + 2) 1
  let refs1 := if (all.length : Int) < pc then
      (match all.getLast? with | some r => refs0 ++ [r] | none => refs0) else refs0
  let next := (heads.map (·.hash)).reverse
  let refs := (refs1.map (·.hash)).filter (fun r => !next.contains r)
  { next := dedupHashes next [], refs := dedupHashes refs [], clock := { id := l.clock.id, time := newTime } }

/-- the state update of a successful `Append` with the created entry `e` (log.go l.389-395) -/
def appendApply (l : Log) (e : Entry) : Log :=
  { l with
    entries := omSet l.entries e
    nextIdx := e.next.foldl hsSet l.nextIdx
    heads := omFromList [e]
    clock := { id := l.clock.id, time := e.clock.time } }

/-- `Append` with the hash oracle: the entry that is created and the new state -/
def append (l : Log) (pc : Int) (h : Hash) (tag : Nat := 0) : Entry × Log :=
  let p := appendPlan l pc
  let e : Entry := { hash := h, logId := l.id, next := p.next, refs := p.refs, clock := p.clock, tag := tag }
  (e, appendApply l e)

/-- inner loop of `difference` over `eA.next`: push every hash that is neither traversed nor in B -/
def diffPush (EB : List Entry) (st : List Hash × List Hash) (c : Hash) : List Hash × List Hash :=
  if !st.2.contains c && !has EB c then (st.1 ++ [c], c :: st.2) else st

/-- `difference(entriesA, headsA, logB)` (log.go l.620-662): worklist from the heads of A along
    `next`, never entering B.  state = (stack, traversed, res) -/
def diffLoop (EA : List Entry) (EB : List Entry) (idB : Bytes) :
    Nat → List Hash → List Hash → List Entry → List Entry
  | 0, _, _, res => res
  | _ + 1, [], _, res => res
  | fuel + 1, h :: stack, trav, res =>
    match get? EA h with
    | some eA =>
      if !has EB h && eA.logId == idB then
        let res' := omSet res eA
        let trav' := if trav.contains h then trav else h :: trav
        let step := eA.next.foldl (diffPush EB) (stack, trav')
        diffLoop EA EB idB fuel step.1 step.2 res'
      else diffLoop EA EB idB fuel stack trav res
    | none => diffLoop EA EB idB fuel stack trav res

def diffFuel (EA HA : List Entry) : Nat :=
  HA.length + (EA.flatMap (·.next)).length + 1

def difference (EA HA : List Entry) (l : Log) : List Entry :=
  if EA.length = 0 ∨ HA.length = 0 then []
  else diffLoop EA l.entries l.id (diffFuel EA HA) (HA.map (·.hash)) [] []

inductive JoinResult where
  | ok (l : Log)
  | err            -- verification / access control failed: the log is returned unchanged
deriving Repr

/-- first half of `Join` (log.go l.564-595): add the new items to `Entries` and `Next`, recompute heads -/
def joinMerge (l : Log) (otherE otherH : List Entry) : Log :=
  let newItems := difference otherE otherH l
  let nextIdx' := newItems.foldl (fun idx e => e.next.foldl hsSet idx) l.nextIdx
  let entries' := newItems.foldl omSet l.entries
  let nextsFromNew : List Hash := newItems.foldl (fun acc e => acc ++ e.next) []
  -- only an entry this log holds can be one of its heads, and as the object it holds
  let admittedH := otherH.filterMap (fun h => get? entries' h.hash)
  let merged := findHeads (omMerge l.heads admittedH)
  let mergedHeads := merged.filter (fun e => !nextsFromNew.contains e.hash && !nextIdx'.contains e.hash && has entries' e.hash)
  { l with entries := entries', nextIdx := nextIdx', heads := omFromList mergedHeads }

/-- log.go l.598-603: keep the last `size` values, all of them when there are fewer -/
def keepLast (size : Int) (tmp : List Entry) : List Entry :=
  if size < tmp.length then tmp.drop (tmp.length - size.toNat) else tmp

/-- the size bound (log.go l.597-606); `Next` is not rebuilt -/
def joinTrim (l1 : Log) (size : Int) : Log :=
  if size > -1 then
    let tmp := keepLast size (values l1)
    { l1 with entries := omFromList tmp, heads := omFromList (findHeads (omFromList tmp)) }
  else l1

/-- log.go l.608-615: the clock moves up to the newest head -/
def joinClock (l2 : Log) : Log :=
  { l2 with clock := { id := l2.clock.id, time := max l2.clock.time (maxTime l2.heads 0) } }

/-- `Join(otherLog, size)` after the argument checks; `otherE`/`otherH` are the view of the other
    log read before the lock is taken (log.go l.527-633).  `valid` abstracts
    `CanAppend ∧ Verify` for each candidate. -/
def join (l : Log) (otherId : Bytes) (otherE otherH : List Entry) (size : Int)
    (valid : Entry → Bool := fun _ => true) : JoinResult :=
  if l.id ≠ otherId then .ok l else
  if (difference otherE otherH l).any (fun e => !valid e) then .err else
  .ok (joinClock (joinTrim (joinMerge l otherE otherH) size))

/-- `NewLog` from loaded entries and (possibly empty) heads -/
def newLog (id : Bytes) (clockId : Bytes) (k : SortKind) (entries : List Entry) (heads : List Entry) : Log :=
  let E := omFromList entries
  let H := if heads.length = 0 ∧ E.length > 0 then findHeads E else heads
  { id := id
    entries := E
    heads := omFromList H
    nextIdx := E.foldl (fun idx e => e.next.foldl hsSet idx) []
    clock := { id := clockId, time := maxTime heads 0 }
    sortFn := k }

/-- `SetIdentity` -/
def setIdentity (l : Log) (clockId : Bytes) : Log :=
  { l with clock := { id := clockId, time := maxTime l.heads l.clock.time } }

/-- `ToJSONLog().Heads` -/
def jsonHeads (l : Log) : List Hash := (goSort (before l.sortFn) l.heads).map (·.hash)

end Model
