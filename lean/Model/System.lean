import Model.Log
/-!
# Model.System — a system of replicas driven by appends, unbounded joins, identity changes and rebuilds

This is the state space the history-quantified theorems (C01–C05) range over: any number of
replicas (of any number of logs and writers), any finite sequence of operations.  `uni` is the
ghost set of all entries ever created; an `append` must be given a fresh hash (content addressing:
distinct entries have distinct hashes).  `know r` is the ghost set of appended hashes replica `r`
has merged, directly or transitively.
-/
namespace Model

inductive Op where
  | newLog (id clockId : Bytes) (k : SortKind)
  | append (r : Nat) (pc : Int) (h : Hash) (tag : Nat)
  | join (r r2 : Nat)
  | setIdentity (r : Nat) (clockId : Bytes)
  /-- a new replica built from replica `src` by the constructor (`NewLog` with `Entries`/`Heads`) or by a
      loader: `ents` is what the caller or the fetch delivered — exactly the source's entries, in any
      order, repetitions allowed (`C09.fetch_eq_source`: every accepted unbounded fetch delivers that);
      `withHeads`: the source's heads are handed over (manifest, constructor) or recomputed -/
  | rebuild (src : Nat) (clockId : Bytes) (ents : List Entry) (withHeads : Bool)
deriving Repr

structure Sys where
  logs : Nat → Option Log
  know : Nat → List Hash
  uni : List Entry
  n : Nat

def Sys.init : Sys := { logs := fun _ => none, know := fun _ => [], uni := [], n := 0 }

def emptyLog (id clockId : Bytes) (k : SortKind) : Log :=
  { id := id, entries := [], heads := [], nextIdx := [], clock := { id := clockId, time := 0 }, sortFn := k }

def upd {α : Type} (f : Nat → α) (i : Nat) (v : α) : Nat → α := fun j => if j = i then v else f j

def Sys.step (s : Sys) : Op → Option Sys
  | .newLog id cid k =>
    some { s with logs := upd s.logs s.n (some (emptyLog id cid k)), know := upd s.know s.n [], n := s.n + 1 }
  | .append r pc h tag =>
    match s.logs r with
    | none => none
    | some l =>
      if (hashes s.uni).contains h then none
      else
        let r' := append l pc h tag
        some { s with logs := upd s.logs r (some r'.2), know := upd s.know r (s.know r ++ [h]),
                      uni := s.uni ++ [r'.1] }
  | .join r r2 =>
    match s.logs r, s.logs r2 with
    | some a, some b =>
      if r = r2 then some s
      else
        match join a b.id b.entries b.heads (-1) with
        | .ok l' => some { s with logs := upd s.logs r (some l'),
                                  know := if a.id = b.id then upd s.know r (s.know r ++ s.know r2) else s.know }
        | .err => some s
    | _, _ => none
  | .setIdentity r cid =>
    match s.logs r with
    | none => none
    | some l => some { s with logs := upd s.logs r (some (setIdentity l cid)) }
  | .rebuild src cid ents wh =>
    match s.logs src with
    | none => none
    | some l =>
      if ents.all (fun e => l.entries.contains e) && l.entries.all (fun e => ents.contains e) then
        some { s with logs := upd s.logs s.n (some (newLog l.id cid l.sortFn ents (if wh then l.heads else []))),
                      know := upd s.know s.n (s.know src), n := s.n + 1 }
      else none

def Sys.run (s : Sys) : List Op → Option Sys
  | [] => some s
  | op :: ops => match s.step op with
    | none => none
    | some s' => s'.run ops

/-- `s` is reachable by a finite history of operations -/
def Reachable (s : Sys) : Prop := ∃ ops, Sys.init.run ops = some s

end Model
