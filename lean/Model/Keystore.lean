import Model.Basic
/-!
# Model.Keystore — keystore/keystore.go and identityprovider/{identities,orbitdb}.go

* `Store` is the datastore shared by all keystores (`datastore.Datastore`, a map; `Put` overwrites).
  It is keyed by `env.norm id` = `datastore.NewKey(id).String()` (the datastore cleans the id as a
  rooted path: `"a"`, `"/a"`, `"a/"`, `"x/../a"` are ONE datastore key) whereas the LRU cache is keyed
  by the raw id.  `dsKey` below is the executable transcription of `Key.Clean`, used by the driver.
* `Cache` is `github.com/hashicorp/golang-lru` as used here: a list, most recently used first;
  `Peek` does not touch recency, `Get` moves a hit to the front, `Add` updates-and-moves an existing
  key or pushes a new one and evicts the oldest (last) when the size exceeds the capacity.
  The cached value is `base64(raw key)` and is decoded on a hit: base64 decode∘encode is the identity,
  the model caches the raw bytes.
* A keystore is its cache: `State.caches : Nat → Cache` — keystore number `i`; every index that was
  never used is a fresh keystore (empty cache) on the same datastore; `restart i` = `NewKeystore`
  on the same datastore = empty cache.
* `State.created` is a ghost log: `CreateKey` appends `(id, key)`; nothing reads it.
* Key generation (`crypto.GenerateSecp256k1Key`) is an oracle: the fresh key bytes are an argument
  of the operation.  `UnmarshalSecp256k1PrivateKey` of stored bytes always succeeds for bytes
  written by `CreateKey` (32-byte serialisation of a generated key); that error path is not modelled.
* Public keys / signatures are an abstract `Crypto`; its ideal laws are hypotheses of the theorems
  that need them (`Crypto.Ideal`).
-/
namespace Model.Keys

abbrev Id := List Nat
abbrev Key := List Nat

/-- first value bound to `k` (map lookup) -/
def assoc : List (Id × Key) → Id → Option Key
  | [], _ => none
  | (k', v) :: t, k => if k' = k then some v else assoc t k

/-! ## datastore -/
abbrev Store := List (Id × Key)
/-- `MapDatastore.Get` (`none` = `ErrNotFound`) -/
def Store.get (s : Store) (k : Id) : Option Key := assoc s k
/-- `MapDatastore.Put`: last write wins -/
def Store.put (s : Store) (k : Id) (v : Key) : Store := (k, v) :: s

/-! ## LRU cache -/
abbrev Cache := List (Id × Key)
def Cache.remove (c : Cache) (id : Id) : Cache := c.filter (fun p => !(p.1 == id))
/-- `Peek` -/
def Cache.peek (c : Cache) (id : Id) : Option Key := assoc c id
/-- `Get`: a hit becomes the most recent element -/
def Cache.get (c : Cache) (id : Id) : Option Key × Cache :=
  match assoc c id with
  | some v => (some v, (id, v) :: c.remove id)
  | none => (none, c)
/-- `Add` -/
def Cache.add (cap : Nat) (c : Cache) (id : Id) (v : Key) : Cache :=
  match assoc c id with
  | some _ => (id, v) :: c.remove id
  | none => if c.length + 1 > cap then ((id, v) :: c).dropLast else (id, v) :: c

/-! ## keystores over one datastore -/
structure Env where
  /-- LRU capacity (`lru.New(128)`) -/
  cap : Nat
  /-- `datastore.NewKey(id).String()` -/
  norm : Id → Id

structure State where
  store : Store
  caches : Nat → Cache
  /-- ghost: every `(id, key)` that `CreateKey` wrote, newest first -/
  created : List (Id × Key)

def State.init : State := { store := [], caches := fun _ => [], created := [] }

def State.setCache (s : State) (i : Nat) (c : Cache) : State :=
  { s with caches := fun j => if j = i then c else s.caches j }

/-- result of `HasKey`: `(true,nil)`, `(false,nil)`, `(false,err)` -/
inductive HasRes | yes | no | err
deriving DecidableEq, Repr, Inhabited

/-- `Keystore.HasKey`.  A cache hit answers `storedKey != nil`, which is `true` for every value the
code ever caches (a non-nil string).  A cache miss reads the datastore; a hit there is cached. -/
def hasKey (env : Env) (s : State) (i : Nat) (id : Id) : HasRes × State :=
  match (s.caches i).peek id with
  | some _ => (.yes, s)
  | none =>
    match s.store.get (env.norm id) with
    | none => (.err, s)
    | some v => (.yes, s.setCache i ((s.caches i).add env.cap id v))

/-- `Keystore.CreateKey` with the generated key bytes `k`: unconditional `Put`, then `cache.Add`. -/
def createKey (env : Env) (s : State) (i : Nat) (id : Id) (k : Key) : State :=
  { store := s.store.put (env.norm id) k,
    caches := fun j => if j = i then (s.caches i).add env.cap id k else s.caches j,
    created := (id, k) :: s.created }

/-- `Keystore.GetKey` (`none` = `ErrKeyNotInKeystore`) -/
def getKey (env : Env) (s : State) (i : Nat) (id : Id) : Option Key × State :=
  match (s.caches i).get id with
  | (some v, c') => (some v, s.setCache i c')
  | (none, _) =>
    match s.store.get (env.norm id) with
    | none => (none, s)
    | some v => (some v, s.setCache i ((s.caches i).add env.cap id v))

/-- `GetKey`, and `CreateKey` when that fails — the pattern of `GetID` and `signID`. -/
def getOrCreate (env : Env) (s : State) (i : Nat) (id : Id) (k : Key) : Key × State :=
  match getKey env s i id with
  | (some v, s') => (v, s')
  | (none, s') => (k, createKey env s' i id k)

/-! ## hex (`encoding/hex`) on byte lists -/
def hexDigit (n : Nat) : Nat := if n < 10 then 48 + n else 87 + n
def hexEnc : List Nat → List Nat
  | [] => []
  | b :: t => hexDigit (b / 16 % 16) :: hexDigit (b % 16) :: hexEnc t
def hexVal (c : Nat) : Option Nat :=
  if 48 ≤ c ∧ c ≤ 57 then some (c - 48) else if 97 ≤ c ∧ c ≤ 102 then some (c - 87) else none
def hexDec : List Nat → Option (List Nat)
  | [] => some []
  | [_] => none
  | a :: b :: t =>
    match hexVal a, hexVal b, hexDec t with
    | some x, some y, some r => some ((x * 16 + y) :: r)
    | _, _, _ => none

/-! ## identities -/
structure Crypto where
  /-- `priv.GetPublic().Raw()`: compressed public key bytes -/
  pubC : Key → Bytes
  /-- uncompressed serialisation of the same public key (what `Identity.PublicKey` holds) -/
  pubU : Key → Bytes
  /-- `priv.Sign(msg)` (deterministic: RFC 6979) -/
  sign : Key → Bytes → Bytes
  /-- `UnmarshalSecp256k1PublicKey(pub).Verify(msg, sig)` (accepts both serialisations) -/
  verify : Bytes → Bytes → Bytes → Bool

/-- ideal signature scheme: an honest signature verifies under either serialisation of the signer's
public key; serialised keys are bytes -/
structure Crypto.Ideal (C : Crypto) : Prop where
  verify_c : ∀ k m, C.verify (C.pubC k) m (C.sign k m) = true
  verify_u : ∀ k m, C.verify (C.pubU k) m (C.sign k m) = true
  pubC_byte : ∀ k b, b ∈ C.pubC k → b < 256

structure Identity where
  id : Bytes
  publicKey : Bytes
  sigId : Bytes
  sigPub : Bytes
deriving DecidableEq, Repr, Inhabited

/-- the identity determined by the key `ku` of the user id and the key `ki` of the identity id -/
def mkIdentity (C : Crypto) (ku ki : Key) : Identity :=
  let id := hexEnc (C.pubC ku)
  let idSig := C.sign ki id
  { id := id, publicKey := C.pubU ki, sigId := idSig,
    sigPub := C.sign ku (hexEnc (C.pubU ki ++ idSig)) }

/-- `Identities.CreateIdentity` with the orbitdb provider, on keystore `i`.
`GetID`: get-or-create the key of the user id, `id := hex(compressed public key)`;
`signID`: get-or-create the key stored under `id`, sign the bytes of `id` with it, publish its public key;
`SignIdentity`: `GetKey(options.ID)` again and sign `hex(publicKey ++ idSignature)` with it. -/
def createIdentity (env : Env) (C : Crypto) (s : State) (i : Nat) (uid : Id) (k1 k2 : Key) :
    Option Identity × State :=
  let (ku, s1) := getOrCreate env s i uid k1
  let id := hexEnc (C.pubC ku)
  let (ki, s2) := getOrCreate env s1 i id k2
  let idSig := C.sign ki id
  let pubBytes := C.pubU ki
  match getKey env s2 i uid with
  | (none, s3) => (none, s3)
  | (some ku', s3) =>
    (some { id := id, publicKey := pubBytes, sigId := idSig,
            sigPub := C.sign ku' (hexEnc (pubBytes ++ idSig)) }, s3)

/-- `OrbitDBIdentityProvider.Sign(identity, data)` on keystore `i`: the signature an entry gets -/
def signEntry (env : Env) (C : Crypto) (s : State) (i : Nat) (id : Id) (data : Bytes) : Option Bytes × State :=
  match getKey env s i id with
  | (none, s') => (none, s')
  | (some k, s') => (some (C.sign k data), s')

/-! ## operation sequences -/
inductive Op
  | create (i : Nat) (id : Id) (k : Key)
  | get (i : Nat) (id : Id)
  | has (i : Nat) (id : Id)
  | getOrCreate (i : Nat) (id : Id) (k : Key)
  | createIdentity (i : Nat) (uid : Id) (k1 k2 : Key)
  | signEntry (i : Nat) (id : Id) (data : Bytes)
  | restart (i : Nat)
deriving Repr, Inhabited

inductive Obs
  | unit
  | has (r : HasRes)
  | key (k : Option Key)
  | ident (uid : Id) (r : Option Identity)
  | sig (r : Option Bytes)
deriving DecidableEq, Repr, Inhabited

def step (env : Env) (C : Crypto) (s : State) : Op → Obs × State
  | .create i id k => (.unit, createKey env s i id k)
  | .get i id => let (r, s') := getKey env s i id; (.key r, s')
  | .has i id => let (r, s') := hasKey env s i id; (.has r, s')
  | .getOrCreate i id k => let (r, s') := getOrCreate env s i id k; (.key (some r), s')
  | .createIdentity i uid k1 k2 => let (r, s') := createIdentity env C s i uid k1 k2; (.ident uid r, s')
  | .signEntry i id d => let (r, s') := signEntry env C s i id d; (.sig r, s')
  | .restart i => (.unit, s.setCache i [])

/-- observations (in order) and final state -/
def run (env : Env) (C : Crypto) (s : State) : List Op → List Obs × State
  | [] => ([], s)
  | op :: ops =>
    let (o, s') := step env C s op
    let (os, s'') := run env C s' ops
    (o :: os, s'')

/-- hypothesis H of C20: a direct `CreateKey` is applied to an id whose datastore key holds nothing
(creation through get-or-create needs no condition: it only creates after `GetKey` failed) -/
def wfStep (env : Env) (s : State) : Op → Bool
  | .create _ id _ => (s.store.get (env.norm id)).isNone
  | _ => true

def wf (env : Env) (C : Crypto) (s : State) : List Op → Bool
  | [] => true
  | op :: ops => wfStep env s op && wf env C (step env C s op).2 ops

/-! ## `datastore.Key.Clean` -/
/-- split at `/` (47) -/
def splitSlash : List Nat → List (List Nat)
  | [] => [[]]
  | c :: t =>
    match splitSlash t with
    | [] => [[]]
    | h :: r => if c = 47 then [] :: h :: r else (c :: h) :: r

/-- `path.Clean` of a rooted path as a stack of components (newest first): drop empty and `.`
components, `..` pops (and is dropped at the root) -/
def cleanStack : List (List Nat) → List (List Nat) → List (List Nat)
  | st, [] => st
  | st, c :: t =>
    if c = [] ∨ c = [46] then cleanStack st t
    else if c = [46, 46] then cleanStack st.tail t
    else cleanStack (c :: st) t

/-- `datastore.NewKey(id).String()` -/
def dsKey (id : Id) : Id :=
  match (cleanStack [] (splitSlash id)).reverse with
  | [] => [47]
  | cs => cs.flatMap (fun c => 47 :: c)

end Model.Keys
