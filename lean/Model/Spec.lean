import Model.Iterator
import Model.Loaders
/-!
# Model.Spec — decidable specification predicates

The same definitions are (a) what the theorems in `Props/` prove about the model and (b) what the
driver evaluates on the *implementation's* observations when looking for a failing input.
Everything is stated on plain lists of entries.
-/
namespace Model

def subsetH (a b : List Hash) : Bool := a.all (fun h => b.contains h)
def sameSetH (a b : List Hash) : Bool := subsetH a b && subsetH b a
def nodupH : List Hash → Bool
  | [] => true
  | h :: t => !t.contains h && nodupH t

/-- `h` is named as a predecessor by some entry of `E` -/
def referenced (E : List Entry) (h : Hash) : Bool := E.any (fun e => e.next.contains h)

/-- C02: heads are exactly the unreferenced entries; non-empty iff the log is -/
def headsOk (E H : List Entry) : Bool :=
  sameSetH (hashes H) (hashes (E.filter (fun e => !referenced E e.hash))) &&
  nodupH (hashes H) && (E.isEmpty || !H.isEmpty)

/-- causal closure: every named predecessor is in the log -/
def closedOk (E : List Entry) : Bool := E.all (fun e => e.next.all (fun n => has E n))

/-- position of a hash in a list of entries -/
def idxOf (V : List Entry) (h : Hash) : Option Nat := V.findIdx? (fun e => e.hash == h)

/-- every entry comes after all of its predecessors that are in the list -/
def causalOk (V : List Entry) : Bool :=
  (List.range V.length).all (fun i =>
    match V[i]? with
    | none => true
    | some e => e.next.all (fun n => match idxOf V n with | some j => decide (j < i) | none => true))

/-- ascending under the comparator: adjacent (hence, for a transitive order, all) pairs -/
def sortedAsc (k : SortKind) : List Entry → Bool
  | a :: b :: t => decide (k.cmp a b < 0) && sortedAsc k (b :: t)
  | _ => true

/-- C03: complete, duplicate-free, causally ordered, sorted -/
def valuesOk (k : SortKind) (E V : List Entry) : Bool :=
  sameSetH (hashes V) (hashes E) && nodupH (hashes V) && causalOk V && sortedAsc k V

/-- two distinct entries with equal clock id and time (the default ordering is not total then) -/
def hasTie (E : List Entry) : Bool :=
  E.any (fun a => E.any (fun b => a.hash != b.hash && a.clock.id == b.clock.id && a.clock.time == b.clock.time))

def strictTotalOn (k : SortKind) (E : List Entry) : Bool :=
  match k with
  | .byHash => true
  | _ => !hasTie E

/-- `a` is a subsequence of `b` (by hash) -/
def isSubseq : List Hash → List Hash → Bool
  | [], _ => true
  | _ :: _, [] => false
  | a :: as, b :: bs => if a == b then isSubseq as bs else isSubseq (a :: as) bs

/-- ancestors (inclusive) of `roots` inside `E` along `next` -/
def pastOf (E : List Entry) (roots : List Hash) : List Entry :=
  reach (E.map (fun e => { e with refs := [] })) roots

/-- floor(log2 n) + 1 for n ≥ 1 -/
def log2p1 (n : Nat) : Nat := Nat.log2 n + 1

/-- C04: the entry returned by `Append` on a log with entries `E`, heads `H`, writer key `wid` -/
def appendOk (E H : List Entry) (wid : Bytes) (pc : Int) (e : Entry) (H' : List Entry) : Bool :=
  sameSetH e.next (hashes H) && nodupH e.next &&
  e.clock.id == wid &&
  E.all (fun x => decide (x.clock.time < e.clock.time)) &&
  (hashes H' == [e.hash]) &&
  e.refs.all (fun r => has E r && !e.next.contains r) && nodupH e.refs &&
  decide (e.refs.length ≤ log2p1 (max pc 1).toNat)


/-- C15: what iteration must emit, stated without the traversal: the causal past of the upper bound,
    newest first, cut at the lower bound; `amount` keeps the part nearest the lower bound when one is
    given, otherwise the newest.  (For a strict total order on the entries.) -/
def iterSpec (k : SortKind) (E : List Entry) (upper : List Hash) (gte gt : Option Hash) (amount : Option Int) : List Entry :=
  let R := pastOf E upper
  let R' := R.filterMap (fun r => get? E r.hash)          -- the log's own entry objects
  let desc := goSort (before k) R'
  let lower : Option Hash := match gte with | some h => some h | none => gt
  let cut : List Entry := match lower with
    | none => desc
    | some g =>
      let pre := desc.takeWhile (fun e => e.hash != g)
      if desc.any (fun e => e.hash == g) && gte.isSome then pre ++ (desc.filter (fun e => e.hash == g)).take 1 else pre
  match amount with
  | none => cut
  | some a =>
    if a < 0 then cut else
    match lower with
    | some _ => if a < cut.length then cut.drop (cut.length - a.toNat) else cut
    | none => cut.take a.toNat

/-- no upper bound lies in the causal past of another (and none is repeated) -/
def unrelatedRoots (E : List Entry) (upper : List Hash) : Bool :=
  nodupH upper && upper.all (fun u => upper.all (fun v => u == v || !(hashes (pastOf E [v])).contains u))

end Model
