import Model.Cbor
import Model.Sorting
import Model.Loaders
/-!
# Model.Codec — plain entry ⇄ serialisable entry (`io/jsonable/types.go`), link encryption (`io/cbor/cbor.go`)

Transcription of

* `ToJsonableEntry`, `ToJsonableLamportClock`, `ToJsonableIdentity`, `ToJsonableIdentitySignature`,
  `Entry.ToPlain`, `EntryV0.ToPlain`, `Identity.ToPlain`, `IdentitySignature.ToPlain`,
  `LamportClock.ToPlain` (`io/jsonable/types.go`);
* `Normalize`, `Entry.Copy`, `uniqueCIDs` (`entry/entry.go`);
* `IOCbor.PreSign`, `IOCbor.DecryptLinks`, `NonceRefForEntry`, `IOCbor.DecodeRawEntry`, `IOCbor.Write`
  (`io/cbor/cbor.go`).

A Go pointer / slice that may be nil is an `Option`; dereferencing `none` is the outcome `panic`,
never a default value.  The nil checks that the code has today (`c.Clock == nil`, `c.Signatures ==
nil`) are transcribed as they are; `toPlainEntryNoCheck` is the same function without the clock check
and is only there to show what the check buys (`Props/C12`).

External code is abstract: secretbox + SHA3 is a `Crypto` record of functions (its ideal laws are
the `CryptoLaws` hypotheses of the theorems that need them), the CID string form is a function
`cidStr`, `cid.Parse` a function `parseCid`.  `encoding/hex` and `encoding/base64` are modelled
concretely (`hexEncode`/`hexDecode`, `b64enc`/`b64dec`).
-/
namespace Model.Codec
open Model Model.Cbor

inductive Err where
  | key | sig | clock | identity | identitySig | hex | cid | cbor | decrypt | encrypt | notHashable
deriving DecidableEq, Repr, Inhabited

/-- what a Go call can do: return a value, return an error, or panic (nil dereference) -/
inductive Outcome (α : Type) where
  | ok (a : α)
  | err (e : Err)
  | panic
deriving Repr, Inhabited, DecidableEq

def Outcome.isPanic {α : Type} : Outcome α → Bool
  | .panic => true
  | _ => false

def Outcome.bind {α β : Type} (o : Outcome α) (f : α → Outcome β) : Outcome β :=
  match o with
  | .ok a => f a
  | .err e => .err e
  | .panic => .panic

/-! ## encoding/hex -/

def hexDigit (n : Nat) : Nat := if n < 10 then 48 + n else 87 + n

/-- `hex.EncodeToString` -/
def hexEncode : Bytes → Bytes
  | [] => []
  | b :: t => hexDigit (b / 16) :: hexDigit (b % 16) :: hexEncode t

def hexVal (c : Nat) : Option Nat :=
  if 48 ≤ c ∧ c ≤ 57 then some (c - 48)
  else if 97 ≤ c ∧ c ≤ 102 then some (c - 87)
  else if 65 ≤ c ∧ c ≤ 70 then some (c - 55)
  else none

/-- `hex.DecodeString`: even length, digits of either case -/
def hexDecode : Bytes → Option Bytes
  | [] => some []
  | [_] => none
  | a :: b :: t =>
    match hexVal a, hexVal b, hexDecode t with
    | some x, some y, some r => some ((x * 16 + y) :: r)
    | _, _, _ => none

/-! ## encoding/base64 (`StdEncoding`: padded, `\r` and `\n` ignored when decoding) -/

def b64Char (n : Nat) : Nat :=
  if n < 26 then 65 + n else if n < 52 then 71 + n else if n < 62 then n - 4 else if n = 62 then 43 else 47

def b64Val (c : Nat) : Option Nat :=
  if 65 ≤ c ∧ c ≤ 90 then some (c - 65)
  else if 97 ≤ c ∧ c ≤ 122 then some (c - 71)
  else if 48 ≤ c ∧ c ≤ 57 then some (c + 4)
  else if c = 43 then some 62
  else if c = 47 then some 63
  else none

def b64enc : Bytes → Bytes
  | a :: b :: c :: t =>
    b64Char (a / 4) :: b64Char (a % 4 * 16 + b / 16) :: b64Char (b % 16 * 4 + c / 64) :: b64Char (c % 64) :: b64enc t
  | [a, b] => [b64Char (a / 4), b64Char (a % 4 * 16 + b / 16), b64Char (b % 16 * 4), 61]
  | [a] => [b64Char (a / 4), b64Char (a % 4 * 16), 61, 61]
  | [] => []

/-- groups of four characters; `=` padding only at the end of the last group (like Go's default
    non-strict decoder, the unused low bits of the last digit are ignored) -/
def b64decCore : Bytes → Option Bytes
  | [] => some []
  | w :: x :: y :: z :: t =>
    if z = 61 then
      if t ≠ [] then none
      else if y = 61 then
        match b64Val w, b64Val x with
        | some p, some q => some [p * 4 + q / 16]
        | _, _ => none
      else
        match b64Val w, b64Val x, b64Val y with
        | some p, some q, some s => some [p * 4 + q / 16, q % 16 * 16 + s / 4]
        | _, _, _ => none
    else
      match b64Val w, b64Val x, b64Val y, b64Val z, b64decCore t with
      | some p, some q, some s, some u, some r => some ((p * 4 + q / 16) :: (q % 16 * 16 + s / 4) :: (s % 4 * 64 + u) :: r)
      | _, _, _, _, _ => none
  | _ => none

def b64dec (s : Bytes) : Option Bytes := b64decCore (s.filter (fun c => c != 10 && c != 13))

/-! ## plain values (`entry.Entry`, `identityprovider.Identity`) -/

structure PSig where
  id : Bytes := []
  publicKey : Bytes := []
deriving DecidableEq, Repr, Inhabited

structure PIdentity where
  id : Bytes := []
  publicKey : Bytes := []
  signatures : Option PSig := none
  typ : Bytes := []
deriving DecidableEq, Repr, Inhabited

/-- `entry.Entry`.  `next`/`refs`: `none` is the nil slice; `hash`: `none` is `cid.Undef`;
    `clock`: `none` is the nil `*LamportClock`; `add` is the `AdditionalData` map as an association
    list (the functions below only ever look keys up, see `lookup`). -/
structure PEntry where
  payload : Bytes := []
  logId : Bytes := []
  next : Option (List Bytes) := none
  refs : Option (List Bytes) := none
  v : Nat := 0
  key : Bytes := []
  sig : Bytes := []
  identity : Option PIdentity := none
  hash : Option Bytes := none
  clock : Option Clock := none
  add : List (Bytes × Bytes) := []
deriving DecidableEq, Repr, Inhabited

def lookup (k : Bytes) : List (Bytes × Bytes) → Option Bytes
  | [] => none
  | (k', v) :: t => if k' = k then some v else lookup k t

/-- `m[k] = v` -/
def upsert (k v : Bytes) : List (Bytes × Bytes) → List (Bytes × Bytes)
  | [] => [(k, v)]
  | (k', v') :: t => if k' = k then (k, v) :: t else (k', v') :: upsert k v t

def lenOpt : Option (List Bytes) → Nat
  | none => 0
  | some l => l.length

/-- `"encrypted_links"`, `"encrypted_links_nonce"` (`iface.KeyEncryptedLinks…`) -/
def addKeyLinks : Bytes := [101, 110, 99, 114, 121, 112, 116, 101, 100, 95, 108, 105, 110, 107, 115]
def addKeyNonce : Bytes := addKeyLinks ++ [95, 110, 111, 110, 99, 101]

/-! ## plain → serialisable -/

/-- `ToJsonableLamportClock(e.GetClock())`: calls methods on the clock, a nil clock panics -/
def toJsonableClock : Option Clock → Outcome JClock
  | none => .panic
  | some c => .ok { id := hexEncode c.id, time := c.time }

/-- `ToJsonableIdentitySignature(id.Signatures)`: reads fields, nil panics -/
def toJsonableSig : Option PSig → Outcome JSig
  | none => .panic
  | some s => .ok { id := hexEncode s.id, publicKey := hexEncode s.publicKey }

def toJsonableIdentity (i : PIdentity) : Outcome JIdentity :=
  (toJsonableSig i.signatures).bind fun s =>
    .ok { id := i.id, publicKey := hexEncode i.publicKey, typ := i.typ, signatures := some s }

def toJsonableIdentityOpt : Option PIdentity → Outcome (Option JIdentity)
  | none => .ok none
  | some i => (toJsonableIdentity i).bind fun j => .ok (some j)

/-- `jsonable.EntryV0` (strings for the hash and the links) -/
structure JEntryV0 where
  hash : Option Bytes := none
  id : Bytes := []
  payload : Bytes := []
  next : Option (List Bytes) := none
  v : Nat := 0
  clock : Option JClock := none
  key : Bytes := []
  sig : Bytes := []
deriving DecidableEq, Repr, Inhabited

/-- the three structs `ToJsonableEntry` can return -/
inductive JAny where
  | v0 (j : JEntryV0)
  | v1 (j : JEntry)
  | v2 (j : JEntry)
deriving DecidableEq, Repr, Inhabited

/-- `ToJsonableEntry`.  `cidStr` is `cid.Cid.String` (only used by the v0 struct). -/
def toJsonableEntry (cidStr : Bytes → Bytes) (e : PEntry) : Outcome JAny :=
  (toJsonableIdentityOpt e.identity).bind fun idn =>
  (toJsonableClock e.clock).bind fun clk =>
  if e.v = 0 then
    .ok (.v0 { v := e.v, id := e.logId, key := hexEncode e.key, sig := hexEncode e.sig,
               hash := e.hash.map cidStr,
               next := some ((e.next.getD []).map cidStr),
               clock := some clk, payload := e.payload })
  else if e.v = 1 then
    .ok (.v1 { v := e.v, logId := e.logId, key := hexEncode e.key, sig := hexEncode e.sig, next := e.next,
               clock := some clk, payload := e.payload, identity := idn })
  else
    let j : JEntry := { v := e.v, logId := e.logId, key := hexEncode e.key, sig := hexEncode e.sig, next := e.next,
                        refs := e.refs, clock := some clk, payload := e.payload, identity := idn }
    match lookup addKeyLinks e.add, lookup addKeyNonce e.add with
    | some el, some en => .ok (.v2 { j with encLinks := el, encNonce := en, next := some [], refs := some [] })
    | _, _ => .ok (.v2 j)

/-- `Normalize(e, {preSigned})`: copies the clock (a nil clock panics), drops `refs` for v ≤ 1, drops
    the hash, keeps the signature only if non-empty and not pre-signed -/
def normalize (preSigned : Bool) (e : PEntry) : Outcome PEntry :=
  match e.clock with
  | none => .panic
  | some c =>
    .ok { logId := e.logId, payload := e.payload, next := e.next, v := e.v, clock := some c, add := e.add,
          hash := none, refs := if e.v > 1 then e.refs else none, key := e.key, identity := e.identity,
          sig := if preSigned then [] else e.sig }

/-- `Normalize` then `ToJsonableEntry`: what `Write` marshals -/
def jsonOf (cidStr : Bytes → Bytes) (e : PEntry) : Outcome JAny :=
  (normalize false e).bind (toJsonableEntry cidStr)

/-- `IOCbor.Write` of an entry with the default marshaller: the block, or an error (no atlas entry
    for the v0 struct; an undefined link) -/
def writeEntry (cidStr : Bytes → Bytes) (e : PEntry) : Outcome Bytes :=
  (jsonOf cidStr e).bind fun a =>
    match a with
    | .v0 _ => .err .cbor
    | .v1 j => if linksDefined j.next then .ok (cborEntryV1 j) else .err .cbor
    | .v2 j => if linksDefined j.next && linksDefined j.refs then .ok (cborEntry j) else .err .cbor

/-! ## serialisable → plain -/

/-- `LamportClock.ToPlain` -/
def toPlainClock (c : JClock) : Outcome Clock :=
  match hexDecode c.id with
  | none => .err .clock
  | some id => .ok { id := id, time := c.time }

/-- `IdentitySignature.ToPlain` -/
def toPlainSig (s : JSig) : Outcome PSig :=
  match hexDecode s.publicKey with
  | none => .err .identitySig
  | some pk =>
    match hexDecode s.id with
    | none => .err .identitySig
    | some id => .ok { id := id, publicKey := pk }

/-- `Identity.ToPlain` (with the nil check on `Signatures`) -/
def toPlainIdentity (i : JIdentity) : Outcome PIdentity :=
  match hexDecode i.publicKey with
  | none => .err .identity
  | some pk =>
    match i.signatures with
    | none => .err .identitySig
    | some s =>
      match toPlainSig s with
      | .ok ps => .ok { id := i.id, publicKey := pk, typ := i.typ, signatures := some ps }
      | .err _ => .err .identity
      | .panic => .panic

/-- the `if c.Identity != nil { identity, err = c.Identity.ToPlain(provider) … }` part of `Entry.ToPlain` -/
def toPlainIdentityOpt : Option JIdentity → Outcome (Option PIdentity)
  | none => .ok none
  | some ji =>
    match toPlainIdentity ji with
    | .panic => .panic
    | .err _ => .err .identity
    | .ok idn => .ok (some idn)

/-- `Entry.ToPlain` (with the nil check on `Clock`) -/
def toPlainEntry (j : JEntry) : Outcome PEntry :=
  match hexDecode j.key with
  | none => .err .key
  | some key =>
    match hexDecode j.sig with
    | none => .err .sig
    | some sig =>
      match j.clock with
      | none => .err .clock
      | some jc =>
        match toPlainClock jc with
        | .panic => .panic
        | .err _ => .err .clock
        | .ok clock =>
          match toPlainIdentityOpt j.identity with
          | .panic => .panic
          | .err e => .err e
          | .ok idn =>
            .ok { v := j.v, logId := j.logId, key := key, sig := sig, next := j.next, refs := j.refs,
                  clock := some clock, payload := j.payload, identity := idn }

/-- `Entry.ToPlain` as it was before the nil check: `c.Clock.ToPlain(clock)` on a nil pointer reads
    `c.ID` and panics.  Not used by anything but `Props/C12` (to show the check is what makes the
    theorem true). -/
def toPlainEntryNoCheck (j : JEntry) : Outcome PEntry :=
  match hexDecode j.key with
  | none => .err .key
  | some _ =>
    match hexDecode j.sig with
    | none => .err .sig
    | some _ =>
      match j.clock with
      | none => .panic
      | some _ => toPlainEntry j

/-- `EntryV0.ToPlain`; `parseCid` is `cid.Parse` (returns the binary CID) -/
def toPlainEntryV0 (parseCid : Bytes → Option Bytes) (j : JEntryV0) : Outcome PEntry :=
  let parseAll : List Bytes → Option (List Bytes) := fun l => l.mapM parseCid
  let withHash (h : Option Bytes) : Outcome PEntry :=
    match j.clock with
    | none => .err .clock
    | some jc =>
      match toPlainClock jc with
      | .panic => .panic
      | .err _ => .err .clock
      | .ok clock =>
        match hexDecode j.sig with
        | none => .err .hex
        | some sig =>
          match hexDecode j.key with
          | none => .err .key
          | some key =>
            match parseAll (j.next.getD []) with
            | none => .err .cid
            | some nx =>
              .ok { hash := h, clock := some clock, sig := sig, v := j.v, logId := j.id, key := key, next := some nx,
                    payload := j.payload }
  match j.hash with
  | none => withHash none
  | some s =>
    match parseCid s with
    | none => .err .cid
    | some c => withHash (some c)

/-! ## link encryption -/

/-- `enc.SharedKey` restricted to what `io/cbor` calls: `SealWithNonce`, `OpenWithNonce`, `DeriveNonce` -/
structure Crypto where
  sealBox : Bytes → Bytes → Bytes → Bytes
  openBox : Bytes → Bytes → Bytes → Option Bytes
  deriveNonce : Bytes → Bytes

/-- `enc.NewSecretbox` accepts exactly the 32-byte keys -/
def keyOk (k : Bytes) : Prop := k.length = 32 ∧ isBytes k = true

/-- the ideal behaviour assumed of secretbox / SHA3 (for valid keys): opening with the sealing key
    returns the message, opening with any other key fails, ciphertexts and nonces are non-empty byte
    strings -/
structure CryptoLaws (C : Crypto) : Prop where
  open_seal : ∀ k n m, keyOk k → C.openBox k n (C.sealBox k n m) = some m
  wrong_key : ∀ k k' n m, keyOk k → keyOk k' → k ≠ k' → C.openBox k' n (C.sealBox k n m) = none
  seal_bytes : ∀ k n m, keyOk k → isBytes m = true → isBytes (C.sealBox k n m) = true
  seal_ne : ∀ k n m, keyOk k → C.sealBox k n m ≠ []
  nonce_bytes : ∀ x, isBytes (C.deriveNonce x) = true
  nonce_ne : ∀ x, C.deriveNonce x ≠ []

/-- `uniqueCIDs` (always returns a non-nil slice) -/
def uniq : List Bytes → List Bytes
  | [] => []
  | c :: t => c :: (uniq t).filter (· != c)

def uniqOpt (o : Option (List Bytes)) : Option (List Bytes) := some (uniq (o.getD []))

/-- `Entry.Copy` -/
def copyEntry (e : PEntry) : PEntry := { e with next := uniqOpt e.next, refs := uniqOpt e.refs }

/-- decimal digits of an integer (`%d`) -/
def decimal (i : Int) : Bytes :=
  let ds := (Nat.toDigits 10 i.natAbs).map (fun c => c.toNat)
  if i < 0 then 45 :: ds else ds

/-- `NonceRefForEntry`: `"%s,%s,%s,%s,%d,%s,%d"` of ("-"+cid string for each next), key, payload, clock
    id, clock time, log id, version.  Calls methods on the clock: a nil clock panics. -/
def nonceRef (cidStr : Bytes → Bytes) (e : PEntry) : Outcome Bytes :=
  match e.clock with
  | none => .panic
  | some c =>
    let nx := ((e.next.getD []).map (fun h => 45 :: cidStr h)).flatten
    .ok (nx ++ [44] ++ e.key ++ [44] ++ e.payload ++ [44] ++ c.id ++ [44] ++ decimal c.time ++ [44] ++ e.logId ++ [44] ++
         decimal (Int.ofNat e.v))

/-- `IOCbor.PreSign` -/
def preSign (C : Crypto) (cidStr : Bytes → Bytes) (k : Option Bytes) (e : PEntry) : Outcome PEntry :=
  match k with
  | none => .ok e
  | some k =>
    if lenOpt e.next = 0 ∧ lenOpt e.refs = 0 then .ok e else
    let e := copyEntry e
    let links : JEntry := { next := e.next, refs := e.refs }
    if !(linksDefined links.next && linksDefined links.refs) then .err .encrypt else
    (nonceRef cidStr e).bind fun ref =>
      let nonce := C.deriveNonce ref
      let ct := C.sealBox k nonce (cborEntry links)
      .ok { e with add := upsert addKeyNonce (b64enc nonce) (upsert addKeyLinks (b64enc ct) e.add) }

/-- `IOCbor.DecryptLinks` (every failure surfaces as `ErrDecrypt` from `DecodeRawEntry`) -/
def decryptLinks (C : Crypto) (k : Option Bytes) (j : JEntry) : Outcome JEntry :=
  match k with
  | none => .ok j
  | some k =>
    if j.encLinks = [] ∨ j.encNonce = [] then .ok j else
    match b64dec j.encLinks with
    | none => .err .decrypt
    | some ct =>
      match b64dec j.encNonce with
      | none => .err .decrypt
      | some n =>
        match C.openBox k n ct with
        | none => .err .decrypt
        | some dec =>
          match decodeEntry dec with
          | none => .err .decrypt
          | some links => .ok { j with next := links.next, refs := links.refs }

/-- `IOCbor.DecodeRawEntry` on the serialisable value the library decoder produced -/
def decodeJEntry (C : Crypto) (k : Option Bytes) (hash : Bytes) (j : JEntry) : Outcome PEntry :=
  (decryptLinks C k j).bind fun j =>
  (toPlainEntry j).bind fun e => .ok { e with hash := some hash }

/-- `IOCbor.DecodeRawEntry` on a block (for the blocks the model decoder accepts) -/
def decodeRawEntry (C : Crypto) (k : Option Bytes) (hash : Bytes) (raw : Bytes) : Outcome PEntry :=
  match decodeEntry raw with
  | none => .err .cbor
  | some j => decodeJEntry C k hash j

/-- what ends up in the store for an entry created with link key `k`: `PreSign`, then `Write`
    (`Normalize` + `ToJsonableEntry`) — `CreateEntryWithIO` -/
def storedView (C : Crypto) (cidStr : Bytes → Bytes) (k : Option Bytes) (e : PEntry) : Outcome JAny :=
  (preSign C cidStr k e).bind (jsonOf cidStr)

/-! ## what is safe to call on a decoded entry -/

/-- `e.GetClock().GetTime()`, `GetID()` -/
def opClockTime (e : PEntry) : Outcome Int :=
  match e.clock with
  | none => .panic
  | some c => .ok c.time

/-- `sorting.Compare` / `LamportClock.Compare` on two entries -/
def opCompare (a b : PEntry) : Outcome Int :=
  match a.clock, b.clock with
  | some x, some y => .ok (clockCompare x y)
  | _, _ => .panic

/-- `Entry.Equals`: compares the CID strings; `cid.Undef.String()` is defined -/
def opEquals (a b : PEntry) : Outcome Bool := .ok (a.hash == b.hash)

/-- `Entry.IsParent` -/
def opIsParent (a b : PEntry) : Outcome Bool := .ok ((b.next.getD []).any (fun n => some n == a.hash))

/-- `ToHashable` + `toBuffer`: reads the clock id and time -/
def opToBuffer (e : PEntry) : Outcome Unit :=
  match e.clock with
  | none => .panic
  | some _ => .ok ()

/-- the fields `ToHashable` copies into the signed value (the hash is *not* one of them) -/
structure Hashable where
  logId : Bytes
  payload : Bytes
  next : List Bytes
  refs : List Bytes
  v : Nat
  clock : Clock
  key : Bytes
  add : List (Bytes × Bytes)
deriving DecidableEq, Repr

/-- `ToHashable` + `toBuffer`: reads the clock (a nil clock panics); nil and empty link slices give
    the same value (`make([]string, len(..))`) -/
def toHashable (e : PEntry) : Outcome Hashable :=
  match e.clock with
  | none => .panic
  | some c => .ok { logId := e.logId, payload := e.payload, next := e.next.getD [], refs := e.refs.getD [], v := e.v,
                    clock := c, key := e.key, add := e.add }

/-- `Entry.Verify(identity, io)`: key/sig presence, `PreSign`, `ToHashable`, `toBuffer`, then the
    (abstract) signature check `sigOk hashable key sig` -/
def opVerify (C : Crypto) (cidStr : Bytes → Bytes) (k : Option Bytes) (sigOk : Hashable → Bytes → Bytes → Bool)
    (e : PEntry) : Outcome Unit :=
  if e.key = [] then .err .key
  else if e.sig = [] then .err .sig
  else
    (preSign C cidStr k e).bind fun p =>
    (toHashable p).bind fun h => if sigOk h e.key e.sig then .ok () else .err .sig

/-! ## loading a stored log whose blocks may be undecodable -/

/-- the log-core view of a decoded entry (here a `Hash` is the binary CID) -/
def coreEntry (e : PEntry) : Entry :=
  { hash := e.hash.getD [], logId := e.logId, next := e.next.getD [], refs := e.refs.getD [],
    clock := e.clock.getD { id := [], time := 0 } }

/-- what a reader can obtain from a block store `(cid, block)`: `fetchEntry` drops every block for
    which `FromMultihashWithIO` returns an error (`entry, _ := f.fetchEntry(..)`; `if entry != nil`) -/
def decodableStore (C : Crypto) (k : Option Bytes) (blocks : List (Bytes × Bytes)) : List Entry :=
  blocks.filterMap fun (h, raw) =>
    match decodeRawEntry C k h raw with
    | .ok e => some (coreEntry e)
    | _ => none

/-- an unbounded fetch from `roots` (see `Model.reach`) over the decodable part of the store -/
def loadAll (C : Crypto) (k : Option Bytes) (blocks : List (Bytes × Bytes)) (roots : List Bytes) : List Entry :=
  reach (decodableStore C k blocks) roots

end Model.Codec
