/-!
# Model.FetchSync — the synchronisation skeleton of `Fetcher.processQueue` (entry/fetcher.go)

One dispatcher (the goroutine that called `Fetch`) and the worker goroutines it spawns, around

* the mutex `muProcess` — held by the dispatcher from the start to the end except while it is parked
  in `condProcess.Wait()`; taken by each worker for its completion section,
* the weighted semaphore `sem` with `Concurrency` slots — acquired by the dispatcher (while it HOLDS
  the mutex) before it spawns a worker, released by the worker (`processDone`) right after
  `fetchEntry` returns and BEFORE it asks for the mutex,
* the condition variable `condProcess` — the dispatcher waits while the queue is empty and requests are
  in flight; every worker signals at the end of its completion section,
* the context — a cancellation (the timeout) makes the next `sem.Acquire` fail; the dispatcher then
  stops dispatching and waits for the requests in flight.

Data is abstracted to counters: `q` hashes queued, `t` = `taskInProgress`, `nF` workers inside
`fetchEntry`, `nW` workers that returned from it and want the mutex; a completion section may queue `k`
new hashes out of a finite budget (the hashes mentioned by the retrievable blocks, each queued at most
once: `Props/C11.dispatch_once`).  Workers are anonymous; a worker's completion section contains no
blocking operation (the progress channel is assumed not to block), so it is one atomic step.
-/
namespace Model.FetchSync

inductive DPC where
  /-- loop head `for queue.Len() > 0` (mutex held) -/
  | top
  /-- after a dispatch: `for queue.Len() == 0 && taskInProgress > 0` (mutex held) -/
  | check
  /-- parked in the inner `condProcess.Wait()` (mutex released) -/
  | waiting
  /-- after the loop: `for taskInProgress > 0` (mutex held) -/
  | final
  /-- parked in the final `condProcess.Wait()` -/
  | waitingF
  | done
deriving DecidableEq, Repr, Inhabited

structure FS where
  conc : Nat
  sem : Nat
  q : Nat
  t : Nat
  budget : Nat
  nF : Nat
  nW : Nat
  pc : DPC
  /-- a `Signal` reached the parked dispatcher -/
  signalled : Bool
  cancelled : Bool
  /-- the dispatcher left the loop because `sem.Acquire` failed -/
  gaveUp : Bool
  /-- the dispatcher holds `muProcess` -/
  mutexD : Bool
deriving DecidableEq, Repr, Inhabited

inductive Act where
  | dispatch | giveUp | toFinal | loopBack | wait | wake | waitF | wakeF | finish
  /-- a worker's `fetchEntry` returns; it releases its slot -/
  | complete
  /-- a worker's completion section, queueing `k` new hashes -/
  | enter (k : Nat)
  | cancel
deriving DecidableEq, Repr, Inhabited

def parked (s : FS) : Bool := s.pc == .waiting || s.pc == .waitingF

def step (s : FS) : Act → Option FS
  | .dispatch =>
    if s.pc = .top ∧ 0 < s.q ∧ s.cancelled = false ∧ 0 < s.sem then
      some { s with sem := s.sem - 1, q := s.q - 1, nF := s.nF + 1, t := s.t + 1, pc := .check }
    else none
  | .giveUp =>
    if s.pc = .top ∧ 0 < s.q ∧ s.cancelled = true then some { s with pc := .final, gaveUp := true } else none
  | .toFinal => if s.pc = .top ∧ s.q = 0 then some { s with pc := .final } else none
  | .loopBack => if s.pc = .check ∧ ¬ (s.q = 0 ∧ 0 < s.t) then some { s with pc := .top } else none
  | .wait => if s.pc = .check ∧ s.q = 0 ∧ 0 < s.t then some { s with pc := .waiting, mutexD := false } else none
  | .wake =>
    if s.pc = .waiting ∧ s.signalled = true then some { s with pc := .check, mutexD := true, signalled := false } else none
  | .waitF => if s.pc = .final ∧ 0 < s.t then some { s with pc := .waitingF, mutexD := false } else none
  | .wakeF =>
    if s.pc = .waitingF ∧ s.signalled = true then some { s with pc := .final, mutexD := true, signalled := false } else none
  | .finish => if s.pc = .final ∧ s.t = 0 then some { s with pc := .done, mutexD := false } else none
  | .complete => if 0 < s.nF then some { s with nF := s.nF - 1, nW := s.nW + 1, sem := s.sem + 1 } else none
  | .enter k =>
    if 0 < s.nW ∧ s.mutexD = false ∧ k ≤ s.budget then
      some { s with nW := s.nW - 1, t := s.t - 1, q := s.q + k, budget := s.budget - k,
                    signalled := s.signalled || parked s }
    else none
  | .cancel => if s.cancelled = false then some { s with cancelled := true } else none

/-- the state at the first loop test: `q0` start hashes queued, mutex taken -/
def init (conc q0 budget : Nat) : FS :=
  { conc := conc, sem := conc, q := q0, t := 0, budget := budget, nF := 0, nW := 0, pc := .top,
    signalled := false, cancelled := false, gaveUp := false, mutexD := true }

def run (s : FS) : List Act → Option FS
  | [] => some s
  | a :: as => match step s a with
    | some s' => run s' as
    | none => none

/-! ### the variant of the seeded change C11c: the slot is released inside the completion section -/

def stepOld (s : FS) : Act → Option FS
  | .complete => if 0 < s.nF then some { s with nF := s.nF - 1, nW := s.nW + 1 } else none
  | .enter k =>
    if 0 < s.nW ∧ s.mutexD = false ∧ k ≤ s.budget then
      some { s with nW := s.nW - 1, t := s.t - 1, q := s.q + k, budget := s.budget - k, sem := s.sem + 1,
                    signalled := s.signalled || parked s }
    else none
  | a => step s a

end Model.FetchSync
