import Model.Basic
/-!
# Model.OMapRep — `entry/entry_map.go` at the level of its representation

Everywhere else in the model an `OrderedMap` is the list of its values in key order (`Model.omSet`, `get?`,
`omFromList`, `omMerge`) — which presumes that the Go structure, a key slice beside a Go map, behaves like that list.
This file models the structure itself: `keys` is the slice, `vals` the Go map as an association list with at most
one pair per key (the order of the pairs is not observable — Go's map iteration order is used by `Copy` only, which
copies every pair).  Keys are arbitrary strings, values arbitrary entries: `Set` on an existing key REPLACES the
value and keeps the position.  `Props/OMapRefine.lean` proves that every operation keeps the representation
invariant and that, for maps keyed by the hashes of their values (the only way the library uses them), the
operations are the list operations of `Model.Basic`.  The correspondence stream `omap` runs random operation
sequences on the real `OrderedMap` and on this model.
-/
namespace Model.OMapRep
open Model

structure Rep where
  keys : List Hash
  vals : List (Hash × Entry)
deriving Repr, DecidableEq, Inhabited

/-- `m[k]` with its comma-ok flag -/
def lookup (m : List (Hash × Entry)) (k : Hash) : Option Entry := (m.find? (fun p => p.1 == k)).map (·.2)

/-- `m[k] = v` -/
def store (m : List (Hash × Entry)) (k : Hash) (v : Entry) : List (Hash × Entry) :=
  if m.any (fun p => p.1 == k) then m.map (fun p => if p.1 == k then (k, v) else p) else m ++ [(k, v)]

/-- `NewOrderedMap()` -/
def empty : Rep := { keys := [], vals := [] }

/-- `o.Get(key)` -/
def get (o : Rep) (k : Hash) : Option Entry := lookup o.vals k

/-- `o.Set(key, value)`: the key is appended when the Go map does not have it; the value is stored in any case -/
def set (o : Rep) (k : Hash) (v : Entry) : Rep :=
  { keys := if (lookup o.vals k).isSome then o.keys else o.keys ++ [k], vals := store o.vals k v }

/-- `o.Slice()`: one slot per key, `nil` (here `none`) where the Go map has no value -/
def slice (o : Rep) : List (Option Entry) := o.keys.map (lookup o.vals)

/-- `o.Len()` -/
def len (o : Rep) : Nat := o.keys.length

/-- `o.At(i)` -/
def atIdx (o : Rep) (i : Nat) : Option Entry :=
  match o.keys[i]? with
  | some k => lookup o.vals k
  | none => none

/-- the loop of `OrderedMap.Reverse`: `for i := len/2 - 1; i >= 0; i-- { keys[i], keys[len-1-i] = keys[len-1-i], keys[i] }`;
    `k` = number of iterations still to run (the next index is `k - 1`) -/
def swapAt {α : Type} (l : List α) (i j : Nat) : List α :=
  match l[i]?, l[j]? with
  | some a, some b => (l.set i b).set j a
  | _, _ => l

def revLoop {α : Type} (l : List α) : Nat → List α
  | 0 => l
  | k + 1 => revLoop (swapAt l k (l.length - 1 - k)) k


/-- `o.Reverse()` (in place: the receiver is the result): the swap loop over the key slice -/
def reverse (o : Rep) : Rep := { o with keys := revLoop o.keys (o.keys.length / 2) }

/-- `o.Copy()`: a new key slice and a new Go map with the same pairs -/
def copy (o : Rep) : Rep := o

/-- the loop of `Merge`: `val, _ := src.Get(k); dst.Set(k, val)` for every key of `src` (a key without a value
    would store `nil`: it cannot occur, `Props/OMapRefine.wf_*`; the model skips it) -/
def setAll (dst src : Rep) : Rep :=
  src.keys.foldl (fun m k => match get src k with | some v => set m k v | none => m) dst

/-- `o.Merge(other)`: a new map with the pairs of `o`, then those of `other` -/
def merge (o other : Rep) : Rep := setAll (setAll empty o) other

/-- `NewOrderedMapFromEntries(entries)`; `none` stands for a `nil` or undefined element, which is skipped -/
def fromEntries (es : List (Option Entry)) : Rep :=
  es.foldl (fun m e => match e with | some e => set m e.hash e | none => m) empty

end Model.OMapRep
