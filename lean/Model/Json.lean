import Model.Basic
/-!
# Model.Json — the bytes that are signed (`entry/entry.go`: `ToHashable`, `toBuffer`)

`toBuffer` hands a `map[string]interface{}` to `encoding/json.Marshal` (Go 1.23).  This file
transcribes exactly what that produces:

* `validSeq` / `decodeRune` — `utf8.DecodeRuneInString`: which byte sequences are one valid rune
  (table `first` + `acceptRanges`: no overlongs, no surrogates, nothing above U+10FFFF, no truncated
  sequences); an invalid lead byte or broken sequence consumes ONE byte.
* `tokens` — the rune loop of `encoding/json.appendString`: the string is cut into valid sequences
  (`Tok.lit raw`, raw bytes kept) and single invalid bytes (`Tok.bad`).
* `encTok` — what `appendString` emits per rune with `escapeHTML = true`: bytes of `htmlSafeSet`
  verbatim; `\"` `\\` `\b` `\f` `\n` `\r` `\t`; other bytes < 0x20 and `<` `>` `&` as `\u00XX`;
  U+2028 / U+2029 as backslash-u2028 / backslash-u2029; other valid multi-byte sequences verbatim; and EACH INVALID
  BYTE as the six characters backslash-ufffd (this is where distinct payloads collide, see `Props.C07`).
* `goJsonString` — the string literal including both quotes.
* `natDec` / `intDec` — `strconv.AppendUint` / `AppendInt` base 10.
* `hexEncode` — `hex.EncodeToString`.
* `toBuffer` — the object with keys in sorted order (`encoding/json` sorts map keys):
  `additional_data` (only when the map is non-empty; its keys sorted), `clock` (`id`, `time`), `hash`
  (always `null`), `id`, `next`, `payload`, `refs`, `v`.

All recursion is structural (fuel where the step consumes several bytes) so that the kernel can
evaluate closed instances (`by decide`) and the driver can run the same definitions.
-/
namespace Model.Json

open Model

/-! ## UTF-8 classification (unicode/utf8) -/

/-- continuation byte range `locb..hicb` -/
def isCont (b : Nat) : Bool := decide (0x80 ≤ b) && decide (b ≤ 0xBF)

/-- `acceptRanges[first[b0]>>4].lo`: lowest admissible second byte for lead byte `b0` -/
def acceptLo (b0 : Nat) : Nat := if b0 = 0xE0 then 0xA0 else if b0 = 0xF0 then 0x90 else 0x80

/-- `acceptRanges[first[b0]>>4].hi`: highest admissible second byte for lead byte `b0` -/
def acceptHi (b0 : Nat) : Nat := if b0 = 0xED then 0x9F else if b0 = 0xF4 then 0x8F else 0xBF

/-- `raw` is exactly one rune as accepted by `utf8.DecodeRuneInString` (size ≠ 1-with-RuneError). -/
def validSeq : Bytes → Bool
  | [b] => decide (b < 0x80)
  | [b0, b1] => decide (0xC2 ≤ b0) && decide (b0 < 0xE0) && isCont b1
  | [b0, b1, b2] =>
    decide (0xE0 ≤ b0) && decide (b0 < 0xF0) && decide (acceptLo b0 ≤ b1) && decide (b1 ≤ acceptHi b0) && isCont b2
  | [b0, b1, b2, b3] =>
    decide (0xF0 ≤ b0) && decide (b0 < 0xF5) && decide (acceptLo b0 ≤ b1) && decide (b1 ≤ acceptHi b0) && isCont b2
      && isCont b3
  | _ => false

/-- `utf8.DecodeRuneInString (b0 :: rest)`: `some raw` = the valid sequence at the front (1–4 bytes),
    `none` = `(RuneError, 1)`: the byte `b0` alone is invalid.  (The lead byte fixes the length, so at
    most one of the candidates can be valid.) -/
def decodeRune (b0 : Nat) (rest : Bytes) : Option Bytes :=
  if b0 < 0x80 then some [b0]
  else if validSeq (b0 :: rest.take 1) then some (b0 :: rest.take 1)
  else if validSeq (b0 :: rest.take 2) then some (b0 :: rest.take 2)
  else if validSeq (b0 :: rest.take 3) then some (b0 :: rest.take 3)
  else none

/-- the rune value of a valid sequence (the masks and shifts of `DecodeRuneInString`) -/
def runeOf : Bytes → Nat
  | [b0] => b0
  | [b0, b1] => (b0 % 32) * 64 + b1 % 64
  | [b0, b1, b2] => (b0 % 16) * 4096 + (b1 % 64) * 64 + b2 % 64
  | [b0, b1, b2, b3] => (b0 % 8) * 262144 + (b1 % 64) * 4096 + (b2 % 64) * 64 + b3 % 64
  | _ => 0xFFFD

/-- one step of the rune loop -/
inductive Tok where
  /-- a valid sequence, raw bytes -/
  | lit (raw : Bytes)
  /-- one invalid byte -/
  | bad
deriving DecidableEq, Repr, Inhabited

/-- the rune `appendString` sees (`utf8.RuneError` for an invalid byte) -/
def Tok.rune : Tok → Nat
  | .lit raw => runeOf raw
  | .bad => 0xFFFD

/-- the source bytes of a valid token -/
def Tok.raw : Tok → Bytes
  | .lit raw => raw
  | .bad => []

def Tok.isBad : Tok → Bool
  | .bad => true
  | .lit _ => false

def tokensF : Nat → Bytes → List Tok
  | 0, _ => []
  | _ + 1, [] => []
  | f + 1, b0 :: rest =>
    match decodeRune b0 rest with
    | some raw => .lit raw :: tokensF f (rest.drop (raw.length - 1))
    | none => .bad :: tokensF f rest

/-- the rune loop of `appendString` over a whole string -/
def tokens (bs : Bytes) : List Tok := tokensF bs.length bs

/-- the runes a JSON reader gets back (invalid byte ↦ U+FFFD) -/
def runes (bs : Bytes) : List Nat := (tokens bs).map Tok.rune

/-- `utf8.ValidString` -/
def validUtf8 (bs : Bytes) : Bool := (tokens bs).all (fun t => !t.isBad)

/-! ## String escaping (encoding/json `appendString`, escapeHTML = true) -/

/-- `htmlSafeSet[b]` -/
def htmlSafe (b : Nat) : Bool :=
  decide (0x20 ≤ b) && decide (b < 0x80) && decide (b ≠ 34) && decide (b ≠ 38) && decide (b ≠ 60) && decide (b ≠ 62)
    && decide (b ≠ 92)

/-- `hex[d]` of encoding/json and `hextable[d]` of encoding/hex (lower case) -/
def hexDigit (d : Nat) : Nat := if d < 10 then 48 + d else 87 + d

/-- the bytes emitted for an ASCII byte `b < 0x80` -/
def encAscii (b : Nat) : Bytes :=
  if htmlSafe b then [b]
  else if b = 92 ∨ b = 34 then [92, b]
  else if b = 8 then [92, 98]
  else if b = 12 then [92, 102]
  else if b = 10 then [92, 110]
  else if b = 13 then [92, 114]
  else if b = 9 then [92, 116]
  else [92, 117, 48, 48, hexDigit (b / 16), hexDigit (b % 16)]

/-- the bytes emitted for one step of the rune loop -/
def encTok : Tok → Bytes
  | .bad => [92, 117, 102, 102, 102, 100]                       -- backslash ufffd
  | .lit [b] => encAscii b
  | .lit raw =>
    let c := runeOf raw
    if c = 0x2028 ∨ c = 0x2029 then [92, 117, 50, 48, 50, hexDigit (c % 16)] else raw

def encToks (ts : List Tok) : Bytes := ts.flatMap encTok

/-- the JSON string literal for a Go string holding `bs`, quotes included -/
def goJsonString (bs : Bytes) : Bytes := 34 :: (encToks (tokens bs) ++ [34])

/-! ## Numbers and hex -/

def natDecF : Nat → Nat → Bytes
  | 0, n => [48 + n % 10]
  | f + 1, n => if n < 10 then [48 + n] else natDecF f (n / 10) ++ [48 + n % 10]

/-- `strconv.AppendUint(_, n, 10)` -/
def natDec (n : Nat) : Bytes := natDecF n n

/-- `strconv.AppendInt(_, i, 10)` -/
def intDec (i : Int) : Bytes := if i < 0 then 45 :: natDec (-i).toNat else natDec i.toNat

/-- `hex.EncodeToString` -/
def hexEncode : Bytes → Bytes
  | [] => []
  | b :: t => hexDigit (b / 16 % 16) :: hexDigit (b % 16) :: hexEncode t

/-! ## The signed object -/

/-- `iface.Hashable` as far as `toBuffer` reads it (`Hash` is always nil, `Key` is not serialised). -/
structure Hashable where
  id : Bytes
  payload : Bytes
  /-- base58 CID strings -/
  next : List Bytes
  refs : List Bytes
  v : Nat
  clockId : Bytes
  clockTime : Int
  /-- the `AdditionalData` map as an association list (any order) -/
  additional : List (Bytes × Bytes) := []
deriving DecidableEq, Repr, Inhabited

def insertKV (p : Bytes × Bytes) : List (Bytes × Bytes) → List (Bytes × Bytes)
  | [] => [p]
  | q :: t => if cmpBytes p.1 q.1 < 0 then p :: q :: t else q :: insertKV p t

/-- map keys in the order `encoding/json` writes them (`strings.Compare` on the raw keys) -/
def sortKV : List (Bytes × Bytes) → List (Bytes × Bytes)
  | [] => []
  | p :: t => insertKV p (sortKV t)

/-- elements after the first of a `[]string`, with the closing bracket -/
def arrTail : List Bytes → Bytes
  | [] => [93]
  | x :: t => 44 :: (goJsonString x ++ arrTail t)

/-- a (non-nil) `[]string` -/
def jsonArr : List Bytes → Bytes
  | [] => [91, 93]
  | x :: t => 91 :: (goJsonString x ++ arrTail t)

def objTail : List (Bytes × Bytes) → Bytes
  | [] => [125]
  | p :: t => 44 :: (goJsonString p.1 ++ 58 :: (goJsonString p.2 ++ objTail t))

/-- a `map[string]string`, pairs already in key order -/
def jsonObj : List (Bytes × Bytes) → Bytes
  | [] => [123, 125]
  | p :: t => 123 :: (goJsonString p.1 ++ 58 :: (goJsonString p.2 ++ objTail t))

/-- `"additional_data":` -/
def kAdditional : Bytes := [34, 97, 100, 100, 105, 116, 105, 111, 110, 97, 108, 95, 100, 97, 116, 97, 34, 58]
/-- `"clock":{"id":` -/
def kClockId : Bytes := [34, 99, 108, 111, 99, 107, 34, 58, 123, 34, 105, 100, 34, 58]
/-- `,"time":` -/
def kTime : Bytes := [44, 34, 116, 105, 109, 101, 34, 58]
/-- `},"hash":null,"id":` -/
def kHashId : Bytes := [125, 44, 34, 104, 97, 115, 104, 34, 58, 110, 117, 108, 108, 44, 34, 105, 100, 34, 58]
/-- `,"next":` -/
def kNext : Bytes := [44, 34, 110, 101, 120, 116, 34, 58]
/-- `,"payload":` -/
def kPayload : Bytes := [44, 34, 112, 97, 121, 108, 111, 97, 100, 34, 58]
/-- `,"refs":` -/
def kRefs : Bytes := [44, 34, 114, 101, 102, 115, 34, 58]
/-- `,"v":` -/
def kV : Bytes := [44, 34, 118, 34, 58]

/-- the optional first member: `"additional_data":{…},` -/
def additionalPart (kv : List (Bytes × Bytes)) : Bytes :=
  match kv with
  | [] => []
  | _ :: _ => kAdditional ++ (jsonObj kv ++ [44])

/-- everything after the optional first member -/
def bufferRest (h : Hashable) : Bytes :=
  kClockId ++ (goJsonString (hexEncode h.clockId) ++ (kTime ++ (intDec h.clockTime ++ (kHashId ++
    (goJsonString h.id ++ (kNext ++ (jsonArr h.next ++ (kPayload ++ (goJsonString h.payload ++
      (kRefs ++ (jsonArr h.refs ++ (kV ++ (natDec h.v ++ [125])))))))))))))

/-- `toBuffer`: the bytes handed to `identity.Provider.Sign` and to `pubKey.Verify`. -/
def toBuffer (h : Hashable) : Bytes :=
  123 :: (additionalPart (sortKV h.additional) ++ bufferRest h)

/-! ## What a reader of the signed bytes recovers -/

/-- a string-to-string map as a reader sees it -/
def kvView (kv : List (Bytes × Bytes)) : List (List Tok × List Tok) := kv.map (fun p => (tokens p.1, tokens p.2))

/-- Everything the signed bytes determine (`Props.C07.toBuffer_injective`), and nothing more
    (`toBuffer_congr`).  Strings appear as their rune-loop steps: valid sequences with their bytes,
    and a mark for each invalid byte — WHICH invalid byte it was is not recorded. -/
structure SignedView where
  id : List Tok
  payload : List Tok
  next : List (List Tok)
  refs : List (List Tok)
  v : Nat
  /-- clock id as bytes (mod 256) -/
  clockId : Bytes
  clockTime : Int
  /-- the additional-data map in key order -/
  additional : List (List Tok × List Tok)
deriving DecidableEq, Repr

def signedView (h : Hashable) : SignedView :=
  { id := tokens h.id, payload := tokens h.payload, next := h.next.map tokens, refs := h.refs.map tokens,
    v := h.v, clockId := h.clockId.map (· % 256), clockTime := h.clockTime,
    additional := kvView (sortKV h.additional) }

/-- The same with strings as rune lists, the way `encoding/json` (or any JSON reader) decodes them:
    an invalid byte reads back as U+FFFD. -/
structure RuneView where
  id : List Nat
  payload : List Nat
  next : List (List Nat)
  refs : List (List Nat)
  v : Nat
  clockId : Bytes
  clockTime : Int
  additional : List (List Nat × List Nat)
deriving DecidableEq, Repr

def runeView (h : Hashable) : RuneView :=
  { id := runes h.id, payload := runes h.payload, next := h.next.map runes, refs := h.refs.map runes,
    v := h.v, clockId := h.clockId.map (· % 256), clockTime := h.clockTime,
    additional := (sortKV h.additional).map (fun p => (runes p.1, runes p.2)) }

end Model.Json
