import Model.Basic
import Lean.Meta.Tactic.Simp.RegisterCommand
/-!
# Model.GoPrelude — the few Go primitives the imperative translator (harness/cmd/extract/translate2.go) maps to

A Go `map[string]bool` / `map[string]struct{}` of which only membership and size are used is the list of
its keys in insertion order; a `map[string]string` is an association list.  A slice expression
`xs[a:b]` is `slice? xs a b`: `none` stands for Go's run-time panic (bounds are checked against the length;
Go checks the upper bound against the capacity, which is not modelled, so `none` is conservative).
-/
/-- unexported helper functions of the library that the translator met in a translated function: the equality
    proofs unfold them with `simp only [gohelper]` -/
register_simp_attr gohelper

namespace Model.Go

/-- `m[k] = true` / `m[k] = struct{}{}` -/
def setInsert (m : List Hash) (k : Hash) : List Hash := if m.contains k then m else m ++ [k]

/-- `m[k] = v` on a `map[string]string` -/
def mapSet (m : List (Hash × Hash)) (k v : Hash) : List (Hash × Hash) :=
  if m.any (fun p => p.1 == k) then m.map (fun p => if p.1 == k then (k, v) else p) else m ++ [(k, v)]

/-- `_, ok := m[k]` -/
def mapHas (m : List (Hash × Hash)) (k : Hash) : Bool := m.any (fun p => p.1 == k)

/-- `v := m[k]` (the zero value `""` when absent) -/
def mapGet (m : List (Hash × Hash)) (k : Hash) : Hash :=
  match m.find? (fun p => p.1 == k) with
  | some p => p.2
  | none => []

/-- `m.Set(k, e)` on an ordered map whose entries are keyed by their hashes (`Model.omSet` when `k = e.hash`) -/
def omSetK (E : List Entry) (k : Hash) (e : Entry) : List Entry :=
  if E.any (fun r => r.hash == k) then E else E ++ [e]

/-- `xs[a:b]`; `none` = "slice bounds out of range" -/
def slice? {α : Type} (xs : List α) (a b : Int) : Option (List α) :=
  if 0 ≤ a ∧ a ≤ b ∧ b ≤ xs.length then some ((xs.take b.toNat).drop a.toNat) else none

end Model.Go
