import Model.Spec
/-!
# Model.Store — decidable form of "every prefix of the write sequence is causally closed"
-/
namespace Model

/-- walk the write sequence: each block's links must already be among the earlier writes -/
def closedWrites : List Hash → List Entry → Bool
  | _, [] => true
  | seen, e :: rest => (e.next ++ e.refs).all (fun h => seen.contains h) && closedWrites (seen ++ [e.hash]) rest

/-- decidable version of `PrefixClosed` (Proofs/Store.lean) -/
def prefixClosedB (U : List Entry) : Bool := closedWrites [] U

end Model
