import Model.Log
/-!
# Model.Loaders — `log_io.go` loaders as functions of the fetched entry list

The fetcher itself (`entry/fetcher.go`) is the nondeterministic transition system of
`Model.Fetcher`; `Proofs/` shows that for every accepted event list its result is
`reach store roots` (unbounded) or a superset of the newest `n` of it (bounded), which is what
licenses the deterministic `fetchSpec` used here.
-/
namespace Model

/-- closure of `roots` under `next ++ refs` inside `store` (what an unbounded fetch returns) -/
def reachLoop (store : List Entry) : Nat → List Hash → List Hash → List Entry → List Entry
  | 0, _, _, res => res
  | _ + 1, [], _, res => res
  | f + 1, h :: st, seen, res =>
    if seen.contains h then reachLoop store f st seen res else
    match get? store h with
    | none => reachLoop store f st (h :: seen) res
    | some e => reachLoop store f (st ++ e.next ++ e.refs) (h :: seen) (res ++ [e])

def reachFuel (store : List Entry) (roots : List Hash) : Nat :=
  roots.length + store.foldl (fun n e => n + e.next.length + e.refs.length) 0 + 1

def reach (store : List Entry) (roots : List Hash) : List Entry :=
  reachLoop store (reachFuel store roots) roots [] []

/-- ascending sort + keep the newest `n` (the loaders' sort-and-trim) -/
def sortTrim (lt : Entry → Entry → Bool) (n : Int) (l : List Entry) : List Entry :=
  if n > -1 then lastN n (goSort lt l) else l

/-- `fromMultihash` + `NewFromMultihash`; `k` = `FetchOptions.SortFn` (default last-write-wins) -/
def loadManifest (clockId : Bytes) (logSort fetchSort : SortKind) (id : Bytes) (manifestHeads : List Hash)
    (fetched : List Entry) (n : Int) : Log :=
  let ents := sortTrim (beforeAsc fetchSort) n fetched
  let heads := ents.filter (fun e => manifestHeads.contains e.hash)
  newLog id clockId logSort ents heads

/-- `fromEntryHash` + `NewFromEntryHash` (always trims with last-write-wins, to at least one) -/
def loadEntryHash (clockId : Bytes) (logSort : SortKind) (id : Bytes) (fetched : List Entry) (n : Int) : Log :=
  let len : Int := if n > -1 then max n 1 else -1
  newLog id clockId logSort (sortTrim (beforeAsc .lww) len fetched) []

/-- `fromJSON` + `NewFromJSON` (sorts by clock, then trims) -/
def loadJSON (clockId : Bytes) (logSort : SortKind) (id : Bytes) (fetched : List Entry) (n : Int) : Log :=
  let s := goSort clockAsc fetched
  newLog id clockId logSort (if n > -1 then lastN n s else s) []

/-- `entry.Difference(a, b)`: elements of `b` not in `a`, once each -/
def entryDifference (a b : List Entry) : List Entry :=
  (b.foldl (fun (acc : List Entry) v => if has a v.hash || has acc v.hash then acc else acc ++ [v]) [])

/-- `entryLastNKeeping`: `n` of the sorted entries — every entry of `keep` plus the newest others -/
def lastNKeeping (n : Int) (l : List Entry) (keep : List Entry) : List Entry :=
  if n ≥ l.length then l else
  let keptH := dedupHashes (keep.map (·.hash)) []
  let quota : Int := n - keptH.length
  ((l.reverse.foldl (fun (acc : List Entry × Int) e =>
      if keptH.contains e.hash then (acc.1 ++ [e], acc.2)
      else if acc.2 > 0 then (acc.1 ++ [e], acc.2 - 1) else acc) ([], quota)).1).reverse

/-- `fromEntry` + `NewFromEntry`; `length = max n |source|` -/
def loadEntries (clockId : Bytes) (logSort : SortKind) (source fetched : List Entry) (n : Int) : Option Log :=
  let len : Int := if n > -1 then max n source.length else -1
  let uniques := goSort clockAsc (omFromList (source ++ fetched))
  let sliced := if len > -1 then lastNKeeping len uniques source else uniques
  let missing := entryDifference sliced source
  let result := missing ++ sliced.drop missing.length
  match result.getLast? with
  | none => none      -- the Go code indexes `result[len(result)-1]`
  | some lastE => some (newLog lastE.logId clockId logSort result [])

end Model
