import Model.Log
/-!
# Model.Conc — several logs shared between threads (`log.go`: `IPFSLog.lock`)

A world of logs, each protected by a Go `sync.RWMutex`, and threads that run small straight-line
programs of atomic actions.  The programs of the API calls are transcribed from the lock bracket
structure of `log.go` / `log_io.go`; the data steps inside a bracket are the functions of the
sequential model (`Model.Log`).

## The lock (`sync.RWMutex`)

* `writer`  — the goroutine that holds the lock for writing.
* `readers` — the goroutines that hold it for reading (a multiset: Go permits recursive `RLock`).
* `pending` — the goroutine that has *announced* a `Lock()` (it owns the internal writer mutex and has
  made `readerCount` negative) and waits for the active readers to drain.  A pending writer blocks
  NEW readers.  Further writers queue on the internal mutex, i.e. they are blocked before announcing.

`Unlock` in Go hands the lock to every reader that queued while the writer was pending or active,
before the next writer can announce itself.  In this model those readers are simply enabled again
after the `unlock` step and the scheduler may run them before the next writer's announcement; every
Go behaviour is therefore a behaviour of the model (the model has a few more: a queued reader may
also lose against the next writer).  All theorems are safety/progress statements over EVERY
schedule of the model.

## What a step is

`step w t` lets thread `t` execute its next instruction; `none` means the thread cannot move
(finished, blocked on a lock, or releasing a lock it does not hold, which is a run-time fault in Go).
Accesses (`readHeads`, `readEntries`, `observe`, `write`) are NOT checked against the lock table —
Go does not check them either.  That they only happen under the lock is the discipline `wb`
(extracted from the code as `lockFacts`, see `Generated/Facts.lean`); the theorems in `Props/C13`
show that the discipline makes every bracket atomic.

`held` (in `Thread`), `hsAt`/`esAt` (in `Regs`) and `ev` (in `World`) are ghost: `step` writes them and never reads them.
-/
namespace Model.Conc

abbrev Tid := Nat
abbrev Lid := Nat

structure RW where
  writer : Option Tid := none
  readers : List Tid := []
  pending : Option Tid := none
deriving Repr, DecidableEq, Inhabited

/-- the verification hook points of the code (`verifHook(...)`), plus the harness' own start point -/
inductive Hook where
  | opStart
  | appendEnter | appendLocked | appendPublish
  | joinEnter | joinHeadsRead | joinEntriesRead | joinLocked | joinPublish
  | iteratorLocked
deriving Repr, DecidableEq, Inhabited

/-- the mutating critical sections -/
inductive WOp where
  /-- `Append`: pointer count, hash oracle, tag -/
  | append (pc : Int) (h : Hash) (tag : Nat)
  /-- the locked part of `Join(other, size)`: uses the heads / entries registers -/
  | join (otherId : Bytes) (size : Int)
  /-- `SetIdentity` -/
  | setIdentity (clockId : Bytes)
  /-- the locked part of a `Join` one of whose candidates is refused (access controller, signature):
      the error outcome, the log is left as it is -/
  | refuse
deriving Repr, DecidableEq, Inhabited

inductive Instr where
  | rlock (l : Lid)
  | runlock (l : Lid)
  | lock (l : Lid)
  | unlock (l : Lid)
  /-- `heads := l.heads` (`RawHeads`, `ToJSONLog`, first read of `Join`) -/
  | readHeads (l : Lid)
  /-- `entries := l.Entries.Copy()` (`GetEntries`) -/
  | readEntries (l : Lid)
  /-- any other read accessor: records entries, heads and values of the state it sees -/
  | observe (l : Lid)
  | write (l : Lid) (op : WOp)
  | hook (p : Hook)
deriving Repr, DecidableEq, Inhabited

structure Seen where
  entries : List Entry
  heads : List Entry
  values : List Entry
deriving Repr, DecidableEq, Inhabited

/-- thread-local variables -/
structure Regs where
  hs : List Entry := []
  es : List Entry := []
  obs : List Seen := []
  /-- the entry returned by `Append` -/
  out : Option Entry := none
  /-- `Join` returned an error -/
  failed : Bool := false
  /-- ghost: the log `hs` was read from and how many events that log had then -/
  hsAt : Option (Lid × Nat) := none
  /-- ghost: the same for `es` -/
  esAt : Option (Lid × Nat) := none
deriving Repr, DecidableEq, Inhabited

structure Thread where
  rest : List Instr := []
  regs : Regs := {}
  /-- ghost: the lock this thread holds (`true` = for writing) -/
  held : Option (Lid × Bool) := none
deriving Repr, DecidableEq, Inhabited

/-- ghost events of one log, newest first -/
inductive Ev where
  | acq (t : Tid)
  | rel (t : Tid)
  | wr (t : Tid) (op : WOp) (r : Regs)
deriving Repr, DecidableEq, Inhabited

structure World where
  logs : Lid → Log
  locks : Lid → RW
  thr : Tid → Thread
  ev : Lid → List Ev

def upd {α : Type} (f : Nat → α) (i : Nat) (v : α) : Nat → α := fun j => if j = i then v else f j

/-- the data step of a mutating critical section, on the sequential model -/
def applyW (op : WOp) (r : Regs) (l : Log) : Log × Regs :=
  match op with
  | .append pc h tag =>
    let p := append l pc h tag
    (p.2, { r with out := some p.1 })
  | .join otherId size =>
    match join l otherId r.es r.hs size with
    | .ok l' => (l', r)
    | .err => (l, { r with failed := true })
  | .setIdentity cid => (setIdentity l cid, r)
  | .refuse => (l, { r with failed := true })

def seenOf (l : Log) : Seen := { entries := l.entries, heads := l.heads, values := values l }

def step (w : World) (t : Tid) : Option World :=
  let th := w.thr t
  match th.rest with
  | [] => none
  | i :: rest =>
    match i with
    | .hook _ => some { w with thr := upd w.thr t { th with rest := rest } }
    | .rlock l =>
      let k := w.locks l
      if k.writer = none ∧ k.pending = none then
        some { w with locks := upd w.locks l { k with readers := t :: k.readers }
                      thr := upd w.thr t { th with rest := rest, held := some (l, false) } }
      else none
    | .runlock l =>
      let k := w.locks l
      if t ∈ k.readers then
        some { w with locks := upd w.locks l { k with readers := k.readers.erase t }
                      thr := upd w.thr t { th with rest := rest, held := none } }
      else none
    | .lock l =>
      let k := w.locks l
      if k.writer = none ∧ k.readers = [] ∧ (k.pending = none ∨ k.pending = some t) then
        some { w with locks := upd w.locks l { k with writer := some t, pending := none }
                      thr := upd w.thr t { th with rest := rest, held := some (l, true) }
                      ev := upd w.ev l (.acq t :: w.ev l) }
      else if k.writer = none ∧ k.pending = none then
        -- announce: readers are still active
        some { w with locks := upd w.locks l { k with pending := some t } }
      else none
    | .unlock l =>
      let k := w.locks l
      if k.writer = some t then
        some { w with locks := upd w.locks l { k with writer := none }
                      thr := upd w.thr t { th with rest := rest, held := none }
                      ev := upd w.ev l (.rel t :: w.ev l) }
      else none
    | .readHeads l =>
      some { w with thr := upd w.thr t { th with rest := rest, regs := { th.regs with hs := (w.logs l).heads, hsAt := some (l, (w.ev l).length) } } }
    | .readEntries l =>
      some { w with thr := upd w.thr t { th with rest := rest, regs := { th.regs with es := (w.logs l).entries, esAt := some (l, (w.ev l).length) } } }
    | .observe l =>
      some { w with thr := upd w.thr t { th with rest := rest, regs := { th.regs with obs := th.regs.obs ++ [seenOf (w.logs l)] } } }
    | .write l op =>
      let p := applyW op th.regs (w.logs l)
      some { w with logs := upd w.logs l p.1
                    thr := upd w.thr t { th with rest := rest, regs := p.2 }
                    ev := upd w.ev l (.wr t op th.regs :: w.ev l) }

/-- an execution: a list of thread ids; a thread that cannot move is skipped -/
def run (w : World) : List Tid → World
  | [] => w
  | t :: ts => match step w t with
    | some w' => run w' ts
    | none => run w ts

/-- strict execution: every scheduled thread must be able to move -/
def exec (w : World) : List Tid → Option World
  | [] => some w
  | t :: ts => match step w t with
    | some w' => exec w' ts
    | none => none

/-- the state of a log as the fold of the recorded critical sections (oldest first) -/
def replay (init : Log) : List Ev → Log
  | [] => init
  | .wr _ op r :: older => (applyW op r (replay init older)).1
  | _ :: older => replay init older

/-- the events of a log are a sequence of sessions `acq t, wr t .., rel t`: `some x` = well formed and
    `x` is the thread inside a session now -/
def scan : List Ev → Option (Option Tid)
  | [] => some none
  | .acq t :: older => if scan older = some none then some (some t) else none
  | .rel t :: older => if scan older = some (some t) then some none else none
  | .wr t _ _ :: older => if scan older = some (some t) then some (some t) else none

/-! ## The lock discipline of a program -/

/-- effect of one instruction on the lock a thread holds; `none` = the discipline is broken:
    acquiring while holding, releasing or accessing without (the right) lock -/
def heldAfter (h : Option (Lid × Bool)) (i : Instr) : Option (Option (Lid × Bool)) :=
  match i, h with
  | .hook _, h => some h
  | .rlock l, none => some (some (l, false))
  | .lock l, none => some (some (l, true))
  | .runlock l, some (l', false) => if l = l' then some none else none
  | .unlock l, some (l', true) => if l = l' then some none else none
  | .readHeads l, some (l', b) => if l = l' then some (some (l', b)) else none
  | .readEntries l, some (l', b) => if l = l' then some (some (l', b)) else none
  | .observe l, some (l', b) => if l = l' then some (some (l', b)) else none
  | .write l _, some (l', true) => if l = l' then some (some (l', true)) else none
  | _, _ => none

/-- well bracketed: every access under the lock (writes under the write lock), no lock acquired
    while one is held, everything released at the end -/
def wb : Option (Lid × Bool) → List Instr → Bool
  | h, [] => h.isNone
  | h, i :: rest => match heldAfter h i with
    | some h' => wb h' rest
    | none => false

def Instr.accesses : Instr → Option (Lid × Bool)
  | .readHeads l => some (l, false)
  | .readEntries l => some (l, false)
  | .observe l => some (l, false)
  | .write l _ => some (l, true)
  | _ => none

def finished (w : World) (t : Tid) : Bool := (w.thr t).rest.isEmpty

/-! ## The programs of the API (lock bracket structure of log.go / log_io.go) -/

/-- `Append` (log.go: lock, plan, create, publish, deferred unlock) -/
def appendProg (l : Lid) (pc : Int) (h : Hash) (tag : Nat := 0) : List Instr :=
  [.hook .opStart, .hook .appendEnter, .lock l, .hook .appendLocked, .hook .appendPublish,
   .write l (.append pc h tag), .unlock l]

/-- `Join(other, size)` when both are distinct instances with equal ids: the other log's heads, then
    its entries, each under the OTHER log's read lock, released again; then the own write lock -/
def joinProg (dst src : Lid) (srcId : Bytes) (size : Int) : List Instr :=
  [.hook .opStart, .hook .joinEnter,
   .rlock src, .readHeads src, .runlock src, .hook .joinHeadsRead,
   .rlock src, .readEntries src, .runlock src, .hook .joinEntriesRead,
   .lock dst, .hook .joinLocked, .hook .joinPublish, .write dst (.join srcId size), .unlock dst]

/-- a refused `Join`: the same reads and the own write lock, then the error return before the publish point -/
def joinRefusedProg (dst src : Lid) : List Instr :=
  [.hook .opStart, .hook .joinEnter,
   .rlock src, .readHeads src, .runlock src, .hook .joinHeadsRead,
   .rlock src, .readEntries src, .runlock src, .hook .joinEntriesRead,
   .lock dst, .hook .joinLocked, .write dst .refuse, .unlock dst]

/-- `Join` with itself or with a log of another id: returns before touching any lock -/
def joinNoopProg : List Instr := [.hook .opStart]

/-- `SetIdentity` -/
def setIdentityProg (l : Lid) (clockId : Bytes) : List Instr :=
  [.hook .opStart, .lock l, .write l (.setIdentity clockId), .unlock l]

/-- `Values`, `Get`, `Has`, `Len`, `ToSnapshot`, `GetEntries`: one read bracket -/
def readerProg (l : Lid) : List Instr :=
  [.hook .opStart, .rlock l, .observe l, .runlock l]

/-- `RawHeads`, `Heads`, `ToJSONLog`: read the heads under the lock, sort a private copy outside -/
def headsProg (l : Lid) : List Instr :=
  [.hook .opStart, .rlock l, .readHeads l, .runlock l]

/-- `Iterator`: the traversal happens under the read lock -/
def iteratorProg (l : Lid) : List Instr :=
  [.hook .opStart, .rlock l, .hook .iteratorLocked, .observe l, .runlock l]

/-- `ToMultihash` = `RawHeads().Len()` then `ToJSONLog()`: two separate read brackets -/
def toMultihashProg (l : Lid) : List Instr :=
  [.hook .opStart, .rlock l, .readHeads l, .runlock l, .rlock l, .readHeads l, .runlock l]

/-! Programs of the code as it was BEFORE the repairs (kept for the counter-schedules in `Props`). -/

/-- old `Join`: own write lock first, then the other's entries, then its heads -/
def joinProgOld (dst src : Lid) (srcId : Bytes) (size : Int) : List Instr :=
  [.lock dst,
   .rlock src, .readEntries src, .runlock src,
   .rlock src, .readHeads src, .runlock src,
   .write dst (.join srcId size), .unlock dst]

/-- old `toMultihash`: `log.heads` read without the lock -/
def toMultihashProgOld (l : Lid) : List Instr :=
  [.readHeads l, .rlock l, .readHeads l, .runlock l]

/-- a world with the given logs and thread programs, all locks free -/
def mkWorld (logs : Lid → Log) (progs : Tid → List Instr) : World :=
  { logs := logs, locks := fun _ => {}, thr := fun t => { rest := progs t }, ev := fun _ => [] }

def progsOfList (ps : List (List Instr)) : Tid → List Instr := fun t => ps.getD t []

end Model.Conc
