import Model.Basic
/-!
# Model.Fetcher — `entry/fetcher.go` + `entry/queue.go` as a nondeterministic transition system

The Go fetcher is one dispatching goroutine (`processQueue`) plus one goroutine per requested hash.
Every access to the queue, the task cache, `results` and the clocks happens under `muProcess`
(the dispatcher holds it except inside `condProcess.Wait()`, a fetch goroutine takes it for its whole
completion section), so an execution is a *sequence* of atomic events:

* `dispatch h`   — `hash := queue.Next(); tasksCache[hash] = InProgress; go fetch(hash)`  (l.115-120)
* `complete h g` — the completion section of the goroutine of `h` (l.130-169) with `g` the outcome of
                   `fetchEntry` (`none`: block absent / read error / undecodable / context ended)
* `cancel`       — the context ends (timeout); from then on `sem.Acquire` fails, the dispatch loop
                   breaks (l.108-112) and in-flight reads may come back empty.

Deliberate over-approximations (every real schedule is a model trace, not conversely):
the priority order of the heap and the semaphore are dropped — `dispatch h` only asks `h ∈ queue`.
So a theorem over all accepted event lists covers every concurrency level, every heap order and every
order in which block requests complete.

State: the task cache `map[cid]taskKind` is the four disjoint lists `queue` (kind Added; the heap
holds exactly these), `inProgress` (kind InProgress, goroutine running), `done` (kind Done) and
`failed` (kind InProgress for ever: the goroutine finished without an entry).  The test
`cache == Added || cache == InProgress` of l.145 reads the cache at `entry.GetHash()`, which is the
requested hash (`DecodeRawEntry(_, hash, _)` sets it); the guard `h ∈ inProgress` of `complete` *is*
that lookup.
-/
namespace Model

structure FCfg where
  /-- the retrievable blocks: `get? store h` is what `fetchEntry` returns for `h` -/
  store : List Entry
  /-- `FetchOptions.Length` (`-1` = everything) -/
  length : Int
  /-- `FetchOptions.ShouldExclude` -/
  excluded : Hash → Bool

structure FState where
  queue : List Hash := []
  inProgress : List Hash := []
  done : List Hash := []
  failed : List Hash := []
  results : List Entry := []
  minClock : Int := 0
  maxClock : Int := 0
  cancelled : Bool := false
deriving Repr, Inhabited

inductive FEvent where
  | dispatch (h : Hash)
  | complete (h : Hash) (got : Option Entry)
  | cancel
deriving Repr, DecidableEq

/-- the hash has a kind in `tasksCache` -/
def FState.known (s : FState) (h : Hash) : Prop :=
  h ∈ s.queue ∨ h ∈ s.inProgress ∨ h ∈ s.done ∨ h ∈ s.failed

instance (s : FState) (h : Hash) : Decidable (s.known h) :=
  inferInstanceAs (Decidable (h ∈ s.queue ∨ h ∈ s.inProgress ∨ h ∈ s.done ∨ h ∈ s.failed))

/-- `Fetcher.exclude`: undefined cid (the empty hash), already in the task cache, or unwanted -/
def fexclude (cfg : FCfg) (s : FState) (h : Hash) : Prop :=
  h = [] ∨ s.known h ∨ cfg.excluded h = true

instance (cfg : FCfg) (s : FState) (h : Hash) : Decidable (fexclude cfg s h) :=
  inferInstanceAs (Decidable (h = [] ∨ s.known h ∨ cfg.excluded h = true))

/-- `addHashToQueue` (the heap index is dropped) -/
def addHash (cfg : FCfg) (s : FState) (h : Hash) : FState :=
  if fexclude cfg s h then s else { s with queue := h :: s.queue }

/-- `addHashesToQueue`, and the two `for … addHashToQueue` loops of `addNextEntry` -/
def addHashes (cfg : FCfg) (s : FState) (hs : List Hash) : FState := hs.foldl (addHash cfg) s

/-- `updateClock`: `maxClock` after looking at `e` -/
def newMax (s : FState) (e : Entry) : Int := max s.maxClock e.clock.time

/-- `updateClock`: `minClock` after looking at `e` and at the last admitted result -/
def newMin (s : FState) (e : Entry) : Int :=
  match s.results.getLast? with
  | some l => min s.minClock l.clock.time
  | none => newMax s e

/-- l.146-148: `length < 0 || len(results) < length || (len(results) >= length && ts >= minClock)` -/
def admits (cfg : FCfg) (s : FState) (e : Entry) : Bool :=
  decide (cfg.length < 0) || decide ((s.results.length : Int) < cfg.length) ||
    (decide ((s.results.length : Int) ≥ cfg.length) && decide (e.clock.time ≥ newMin s e))

/-- l.140-156: clocks, admission, `tasksCache[h] = Done` -/
def fbase (cfg : FCfg) (s : FState) (h : Hash) (e : Entry) : FState :=
  { s with
    inProgress := s.inProgress.erase h
    done := h :: s.done
    results := if admits cfg s e then s.results ++ [e] else s.results
    minClock := newMin s e
    maxClock := newMax s e }

/-- first `if` of the bounded part of `addNextEntry` -/
def queueNext (cfg : FCfg) (s : FState) (e : Entry) : FState :=
  if (s.results.length : Int) < cfg.length ∨ e.clock.time ≥ s.minClock then addHashes cfg s e.next else s

/-- second `if` of the bounded part of `addNextEntry` -/
def queueRefs (cfg : FCfg) (s : FState) (e : Entry) : FState :=
  if (s.results.length : Int) + (e.refs.length : Int) ≤ cfg.length then addHashes cfg s e.refs else s

/-- `addNextEntry` -/
def addNext (cfg : FCfg) (s : FState) (e : Entry) : FState :=
  if cfg.length < 0 then addHashes cfg (addHashes cfg s e.next) e.refs
  else queueRefs cfg (queueNext cfg s e) e

/-- completion section with an entry -/
def completeFound (cfg : FCfg) (s : FState) (h : Hash) (e : Entry) : FState :=
  addNext cfg (fbase cfg s h e) e

/-- completion section without an entry: only the in-progress counter changes -/
def completeNone (s : FState) (h : Hash) : FState :=
  { s with inProgress := s.inProgress.erase h, failed := h :: s.failed }

/-- one atomic event; `none` = not enabled -/
def fstep (cfg : FCfg) (s : FState) : FEvent → Option FState
  | .dispatch h =>
    if h ∈ s.queue ∧ s.cancelled = false then
      some { s with queue := s.queue.erase h, inProgress := h :: s.inProgress }
    else none
  | .complete h got =>
    if h ∈ s.inProgress ∧ (got = get? cfg.store h ∨ (s.cancelled = true ∧ got = none)) then
      match got with
      | none => some (completeNone s h)
      | some e => some (completeFound cfg s h e)
    else none
  | .cancel => if s.cancelled = false then some { s with cancelled := true } else none

/-- `processQueue` up to the loop: `addHashesToQueue(queue, hashes...)` on a fresh fetcher -/
def finit (cfg : FCfg) (roots : List Hash) : FState := addHashes cfg {} roots

def frun (cfg : FCfg) : FState → List FEvent → Option FState
  | s, [] => some s
  | s, ev :: evs =>
    match fstep cfg s ev with
    | none => none
    | some s' => frun cfg s' evs

/-- the event list is an execution of `Fetch(roots)` and ends in `s` -/
def accepted (cfg : FCfg) (roots : List Hash) (evs : List FEvent) : Option FState :=
  frun cfg (finit cfg roots) evs

/-- nothing queued, nothing in flight -/
def quiescent (s : FState) : Prop := s.queue = [] ∧ s.inProgress = []

instance (s : FState) : Decidable (quiescent s) := inferInstanceAs (Decidable (s.queue = [] ∧ s.inProgress = []))

/-- `processQueue` returns: no goroutine in flight and the dispatch loop has left
    (empty queue, or `sem.Acquire` failed on the ended context) -/
def terminated (s : FState) : Prop := s.inProgress = [] ∧ (s.queue = [] ∨ s.cancelled = true)

instance (s : FState) : Decidable (terminated s) :=
  inferInstanceAs (Decidable (s.inProgress = [] ∧ (s.queue = [] ∨ s.cancelled = true)))

/-- the hashes handed to `fetchEntry` (= requested from the block store), in order -/
def dispatchedOf : List FEvent → List Hash
  | [] => []
  | .dispatch h :: evs => h :: dispatchedOf evs
  | _ :: evs => dispatchedOf evs

/-- every hash the request or a stored block mentions -/
def mentioned (cfg : FCfg) (roots : List Hash) : List Hash :=
  (roots ++ cfg.store.flatMap (fun e => e.next ++ e.refs)).eraseDups

/-! ### executable specification of the unbounded result (used by the driver on the implementation's
output; `Proofs.FetchReach` shows it computes the closure that the fetcher returns) -/

/-- closure of `roots` under `next ++ refs` through retrievable blocks, never entering a hash with
    `ok h = false` (undefined or excluded) -/
def reachLoopX (store : List Entry) (ok : Hash → Bool) : Nat → List Hash → List Hash → List Entry → List Entry
  | 0, _, _, res => res
  | _ + 1, [], _, res => res
  | f + 1, h :: st, seen, res =>
    if seen.contains h || !ok h then reachLoopX store ok f st seen res else
    match get? store h with
    | none => reachLoopX store ok f st (h :: seen) res
    | some e => reachLoopX store ok f (st ++ e.next ++ e.refs) (h :: seen) (res ++ [e])

def okHash (cfg : FCfg) (h : Hash) : Bool := h != [] && !cfg.excluded h

def reachX (cfg : FCfg) (roots : List Hash) : List Entry :=
  reachLoopX cfg.store (okHash cfg)
    (roots.length + cfg.store.foldl (fun n e => n + e.next.length + e.refs.length) 0 + 1) roots [] []

end Model
