import Driver.Core
