import Driver.Core
import Driver.Order
import Driver.Keys
import Driver.Sign
import Driver.Fetch
import Driver.Codec
import Driver.Conc
import Driver.Crash
