import Driver.Core
import Driver.Order
