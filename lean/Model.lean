import Model.Basic
import Model.Sorting
import Model.Log
import Model.Iterator
import Model.Loaders
import Model.Spec
import Model.System
