import Props.C13
import Proofs.ConcJoin
import Proofs.ConcDiff
/-!
# C14 — merging from a live log: consistent snapshot, no deadlock

`Join(dst ← src)` reads the source's heads (instant `a`), then its entries (instant `b ≥ a`), each
under the SOURCE's read lock which is released again, and only then takes its own write lock
(`Model.Conc.joinProg`).  Instants are counted in events of the source log: `past init evs n` is the
state of the log after its first `n` events, a state the source really had during the execution.

* `join_reads_ordered` — in every interleaving, what the merge's critical section works with is
  `heads (past a)` and `entries (past b)` with `a ≤ b`, and `entries (past a) ⊆ entries (past b)`
  when the source only grows (appends, unbounded merges, identity changes).
* `join_snapshot` — if the source state at `a` has the structural guarantees (closed under `next`,
  heads are entries: C02/C03), every head read is among the entries read, and `difference` — the
  set of entries the merge adds — contains only entries of the state at `a` that are new to the
  destination.
* `join_result_in_union` — so the merged entry set lies between `dest` and `dest ∪ entries(past a)`.
* `cross_join_deadlock_free`, `join_terminates` — any number of logs merging each other in any
  pattern, together with appends and readers, never deadlock, and every call ends after a bounded
  number of moves.

* `join_includes_snapshot`, `join_heads_are_entries` — conversely the merge finds ALL of the state
  at `a` (`difference` is complete: its fuel suffices and its worklist invariant closes), so the
  result contains `dest ∪ entries(past a)`, and every head of the result is an entry of the result.
  Hypotheses, all explicit: hashes are unique keys and equal hashes mean equal predecessors
  (content addressing), both logs are closed under `next` and carry the same log id, the source
  state at `a` is covered by its heads.
-/
namespace Model.C14
open Model Model.Conc

/-- every reachable state: the registers hold what the ghost positions say -/
theorem run_readsOK {w0 : World} (hI : Init w0)
    (hr : ∀ t, (w0.thr t).regs.hsAt = none ∧ (w0.thr t).regs.esAt = none) (s : List Tid) :
    ReadsOK w0 (run w0 s) ∧ Good w0 (run w0 s) :=
  run_inv (P := fun w => ReadsOK w0 w ∧ Good w0 w)
    (fun _ _ _ hp h => ⟨step_readsOK hp.2.rep hp.1 h, step_good hp.2 h⟩) s w0
    ⟨readsOK_init hI hr, good_init hI⟩

/-- READS ORDERED.  Thread `t` runs `Join(dst ← src)`.  Whenever its critical section has been
    executed (`wr t op r` is among the events of some log), it was on `dst`, and the registers it
    used hold the heads of the source after `a` events and the entries of the source after `b ≥ a`
    events; if the source never loses entries, the entries at `a` are among those read. -/
theorem join_reads_ordered (w0 : World) (hI : Init w0)
    (hr : ∀ t, (w0.thr t).regs.hsAt = none ∧ (w0.thr t).regs.esAt = none)
    (t : Tid) (dst src : Lid) (id : Bytes) (size : Int)
    (hp : (w0.thr t).rest = joinProg dst src id size)
    (s : List Tid) (l : Lid) (op : WOp) (r : Regs) (hev : Ev.wr t op r ∈ (run w0 s).ev l) :
    l = dst ∧ op = .join id size ∧
    ∃ a b, a ≤ b ∧ b ≤ ((run w0 s).ev src).length ∧
      r.hs = (past (w0.logs src) ((run w0 s).ev src) a).heads ∧
      r.es = (past (w0.logs src) ((run w0 s).ev src) b).entries ∧
      ((∀ u op' r', Ev.wr u op' r' ∈ (run w0 s).ev src → op'.unbounded) →
        ∀ x ∈ (past (w0.logs src) ((run w0 s).ev src) a).entries, x ∈ r.es) := by
  obtain ⟨hO, hG⟩ := run_readsOK hI hr s
  have hJ : JoinInv (run w0 s) t dst src id size :=
    run_inv (P := fun w => JoinInv w t dst src id size) (fun _ _ _ hj h => step_joinInv hj h) s w0
      (joinInv_init hI.ev hp)
  have hw := hG.fromProg.evs l t op r hev
  rw [hp] at hw
  have hlo : l = dst ∧ op = .join id size := by
    simp [joinProg] at hw; exact hw
  refine ⟨hlo.1, hlo.2, ?_⟩
  obtain ⟨a, b, ha, hb, hab⟩ := hJ.evs l op r hev
  have hR := hO.evs l t op r hev
  obtain ⟨_, hhs⟩ := hR.1 src a ha
  obtain ⟨hble, hes⟩ := hR.2 src b hb
  refine ⟨a, b, hab, hble, hhs, hes, ?_⟩
  intro hunb x hx
  rw [hes]
  exact past_grows _ _ hunb hab hble x hx

/-- SNAPSHOT (sequential core).  Heads `H1` of a source state with entries `E1` (closed under `next`,
    heads among the entries), entries `E2 ⊇ E1` read later (hashes unique): every head read is among
    the entries read, and whatever `difference` selects for ANY destination is an entry of the
    earlier state `E1` that the destination does not have. -/
theorem join_snapshot {E1 E2 H1 : List Entry} (hn : NodupH E2) (hsub : ∀ e ∈ E1, e ∈ E2)
    (hcl : Closed E1) (hheads : ∀ x ∈ H1, x ∈ E1) (dest : Log) :
    (∀ x ∈ H1, x ∈ E2) ∧
    ∀ x ∈ difference E2 H1 dest, x ∈ E1 ∧ x.hash ∉ hashes dest.entries :=
  ⟨fun x hx => hsub x (hheads x hx), fun _ hx => difference_in_snapshot hn hsub hcl hheads hx⟩

/-- hence an unbounded merge that succeeds yields an entry set between `dest` and
    `dest ∪ E1`, and keeps hashes unique -/
theorem join_result_in_union {E1 E2 H1 : List Entry} (hn : NodupH E2) (hsub : ∀ e ∈ E1, e ∈ E2)
    (hcl : Closed E1) (hheads : ∀ x ∈ H1, x ∈ E1) (dest dest' : Log) (otherId : Bytes) (size : Int)
    (valid : Entry → Bool) (hs : ¬ size > -1) (hj : join dest otherId E2 H1 size valid = .ok dest') :
    (∀ x ∈ dest.entries, x ∈ dest'.entries) ∧
    (∀ x ∈ dest'.entries, x ∈ dest.entries ∨ x ∈ E1) ∧
    (NodupH dest.entries → NodupH dest'.entries) := by
  refine ⟨join_grows hs hj, ?_, fun h => join_nodupH h hj⟩
  intro x hx
  rcases join_from hs hj x hx with h | h
  · exact Or.inl h
  · exact Or.inr (difference_in_snapshot hn hsub hcl hheads h).1

/-- INCLUDES THE SNAPSHOT.  With the heads `H1` of the source state `E1` (closed, covered by its heads,
    same log id) and the entries `E2 ⊇ E1` read later, a successful unbounded merge into a closed
    destination contains (by hash) every entry of `E1`.  `hcons` is content addressing: entries
    with equal hashes name the same predecessors. -/
theorem join_includes_snapshot {E1 E2 H1 : List Entry} (hn : NodupH E2) (hsub : ∀ e ∈ E1, e ∈ E2)
    (hcl : Closed E1) (hheads : ∀ x ∈ H1, x ∈ E1)
    (hcov : ∀ x ∈ E1, ∃ hd ∈ H1, Anc E1 x.hash hd.hash)
    (dest dest' : Log) (size : Int) (valid : Entry → Bool)
    (hid : ∀ e ∈ E1, (e.logId == dest.id) = true)
    (hdcl : Closed dest.entries)
    (hcons : ∀ a ∈ E2, ∀ b ∈ dest.entries, a.hash = b.hash → a.next = b.next)
    (hs : ¬ size > -1) (hj : join dest dest.id E2 H1 size valid = .ok dest') :
    (∀ x ∈ E1, x.hash ∈ hashes dest'.entries) ∧ (∀ x ∈ dest.entries, x ∈ dest'.entries) := by
  obtain ⟨hroots, hdown⟩ := join_covers hn hsub hcl hheads hid hdcl hcons
  have hent := join_ok_entries_eq hs rfl hj
  refine ⟨?_, join_grows hs hj⟩
  intro x hx
  obtain ⟨hd, hhd, hanc⟩ := hcov x hx
  rw [hent]
  rcases hdown _ _ hanc (hroots hd hhd) with h | h
  · obtain ⟨y, hy, hyx⟩ := List.mem_map.mp h
    exact List.mem_map.mpr ⟨y, sub_foldl_omSet _ _ hy, hyx⟩
  · obtain ⟨y, hy, hyx⟩ := List.mem_map.mp h
    rw [← hyx]; exact hash_mem_foldl_omSet _ _ hy

/-- EVERY HEAD OF THE RESULT IS AN ENTRY OF THE RESULT (by hash), when the heads read from the
    source are among the entries read from it (`join_snapshot`) and the destination's own heads were
    entries. -/
theorem join_heads_are_entries {E2 H1 : List Entry} (hn : NodupH E2) (hheads : ∀ x ∈ H1, x ∈ E2)
    (dest dest' : Log) (size : Int) (valid : Entry → Bool)
    (hid : ∀ e ∈ H1, (e.logId == dest.id) = true)
    (hdh : ∀ x ∈ dest.heads, x ∈ dest.entries)
    (hs : ¬ size > -1) (hj : join dest dest.id E2 H1 size valid = .ok dest') :
    ∀ x ∈ dest'.heads, x.hash ∈ hashes dest'.entries := by
  have DC := difference_closed E2 H1 dest
  have hent := join_ok_entries_eq hs rfl hj
  intro x hx
  rw [hent]
  rcases join_ok_heads_sub hs hj x hx with h | h
  · exact List.mem_map.mpr ⟨x, sub_foldl_omSet _ _ (hdh x h), rfl⟩
  · exact List.mem_map.mpr ⟨x, by rw [← hent]; exact h.1, rfl⟩

/-- SNAPSHOT in the concurrent world: the two theorems above combined.  `hsrc` is the structural
    guarantee (C02/C03) for the states of the source, `hunb` says the source only grows. -/
theorem join_sees_snapshot (w0 : World) (hI : Init w0)
    (hr : ∀ t, (w0.thr t).regs.hsAt = none ∧ (w0.thr t).regs.esAt = none)
    (t : Tid) (dst src : Lid) (id : Bytes) (size : Int)
    (hp : (w0.thr t).rest = joinProg dst src id size)
    (s : List Tid) (l : Lid) (op : WOp) (r : Regs) (hev : Ev.wr t op r ∈ (run w0 s).ev l)
    (hnod : NodupH (w0.logs src).entries)
    (hunb : ∀ u op' r', Ev.wr u op' r' ∈ (run w0 s).ev src → op'.unbounded)
    (hsrc : ∀ n, Closed (past (w0.logs src) ((run w0 s).ev src) n).entries ∧
      ∀ x ∈ (past (w0.logs src) ((run w0 s).ev src) n).heads,
        x ∈ (past (w0.logs src) ((run w0 s).ev src) n).entries) :
    ∃ a, a ≤ ((run w0 s).ev src).length ∧
      r.hs = (past (w0.logs src) ((run w0 s).ev src) a).heads ∧
      (∀ x ∈ r.hs, x ∈ r.es) ∧
      ∀ dest : Log, ∀ x ∈ difference r.es r.hs dest,
        x ∈ (past (w0.logs src) ((run w0 s).ev src) a).entries ∧ x.hash ∉ hashes dest.entries := by
  obtain ⟨_, _, a, b, hab, hb, hhs, hes, hsub⟩ := join_reads_ordered w0 hI hr t dst src id size hp s l op r hev
  have hn2 : NodupH r.es := by
    rw [hes]
    exact replay_inv (P := fun lg => NodupH lg.entries) hnod _ (fun _ op r _ log hp => applyW_nodupH op r hp)
  refine ⟨a, by omega, hhs, ?_, ?_⟩
  · rw [hhs]; exact (join_snapshot hn2 (hsub hunb) (hsrc a).1 (hsrc a).2 default).1
  · intro dest x hx
    rw [hhs] at hx
    exact (join_snapshot hn2 (hsub hunb) (hsrc a).1 (hsrc a).2 dest).2 x hx

/-- CROSS JOINS: any number of logs merging each other in any pattern (A←B ‖ B←A, cycles, …)
    together with any other API calls: in every reachable state some unfinished call can move -/
theorem cross_join_deadlock_free (logs : Lid → Log) (progs : Tid → List Instr)
    (h : ∀ t, C13.ApiProg (progs t) ∨ progs t = []) (s : List Tid)
    (hu : ∃ t, finished (run (mkWorld logs progs) s) t = false) :
    ∃ t w', step (run (mkWorld logs progs) s) t = some w' :=
  C13.deadlock_free _ (C13.api_world_init logs progs h) s hu

/-- a merge takes at most 30 moves (15 instructions, a `Lock()` may announce itself first) -/
theorem join_terminates (w0 w' : World) (s : List Tid) (h : exec w0 s = some w') (t : Tid)
    (dst src : Lid) (id : Bytes) (size : Int) (hp : (w0.thr t).rest = joinProg dst src id size) :
    s.count t ≤ 30 := by
  have := C13.bounded_moves w0 w' s h t
  rw [hp] at this
  simpa [joinProg] using this


/-! ## Non-vacuity -/

/-- log 0 merges from log 1 while two appends go to log 1 -/
def wJ : World := mkWorld (fun _ => C13.log0)
  (progsOfList [joinProg 0 1 [7] (-1), appendProg 1 1 [1], appendProg 1 1 [2]])

theorem wJ_init : Init wJ :=
  C13.api_world_init _ _ (fun t => by
    match t with
    | 0 => exact Or.inl (.join 0 1 [7] (-1))
    | 1 => exact Or.inl (.append 1 1 [1] 0)
    | 2 => exact Or.inl (.append 1 1 [2] 0)
    | _ + 3 => exact Or.inr rfl)

/-- first append; the merge reads the heads; second append; the merge reads the entries and merges -/
def schedJ : List Tid :=
  [1, 1, 1, 1, 1, 1, 1,  0, 0, 0, 0, 0, 0,  2, 2, 2, 2, 2, 2, 2,  0, 0, 0, 0, 0, 0, 0, 0, 0]

example : ∀ t, t < 3 → finished (run wJ schedJ) t = true := by decide

/-- the registers of the recorded critical sections of a log -/
def evRegs : List Ev → List Regs
  | [] => []
  | .wr _ _ r :: t => r :: evRegs t
  | _ :: t => evRegs t

/-- the merge has read heads `[e1]` after 3 events of the source and, later (after 6), entries `[e1, e2]` … -/
example : (evRegs ((run wJ schedJ).ev 0)).map (fun r => hashes r.hs) = [[[1]]] ∧
    (evRegs ((run wJ schedJ).ev 0)).map (fun r => hashes r.es) = [[[1], [2]]] ∧
    (evRegs ((run wJ schedJ).ev 0)).map (fun r => r.hsAt) = [some (1, 3)] ∧
    (evRegs ((run wJ schedJ).ev 0)).map (fun r => r.esAt) = [some (1, 6)] := by
  decide

/-- … and its result is the union with the source as it was when the heads were read (`e2`, appended
    in between, is not dragged in and every head is an entry) -/
example : hashes ((run wJ schedJ).logs 0).entries = [[1]] ∧ hashes ((run wJ schedJ).logs 0).heads = [[1]] := by
  decide

/-- `join_reads_ordered` applies to this run -/
example : ∃ a b, a ≤ b ∧ b ≤ ((run wJ schedJ).ev 1).length ∧
    ((run wJ schedJ).ev 0)[1]? = some (.wr 0 (.join [7] (-1))
      { hs := (past (wJ.logs 1) ((run wJ schedJ).ev 1) a).heads,
        es := (past (wJ.logs 1) ((run wJ schedJ).ev 1) b).entries,
        hsAt := some (1, 3), esAt := some (1, 6) }) :=
  ⟨3, 6, by decide, by decide, by decide⟩

/-- the hypotheses of `join_includes_snapshot` / `join_heads_are_entries` are satisfiable -/
def e1x : Entry := { hash := [1], logId := [7], next := [], refs := [], clock := { id := [2], time := 1 } }
def e2x : Entry := { hash := [2], logId := [7], next := [[1]], refs := [], clock := { id := [2], time := 2 } }

example : ∃ d, join C13.log0 C13.log0.id [e1x, e2x] [e1x] (-1) = .ok d := ⟨_, rfl⟩

example : ∀ d, join C13.log0 C13.log0.id [e1x, e2x] [e1x] (-1) = .ok d →
    (∀ x ∈ [e1x], x.hash ∈ hashes d.entries) ∧ (∀ x ∈ d.heads, x.hash ∈ hashes d.entries) := fun d hj =>
  ⟨(join_includes_snapshot (E1 := [e1x]) (E2 := [e1x, e2x]) (H1 := [e1x])
      (by simp [NodupH, hashes, e1x, e2x]) (by simp) (by simp [Closed, e1x]) (by simp)
      (fun x hx => ⟨e1x, by simp, by simp at hx; subst hx; exact .refl e1x (by simp)⟩)
      C13.log0 d (-1) (fun _ => true) (by simp [e1x, C13.log0]) (by simp [Closed, C13.log0])
      (by simp [C13.log0]) (by decide) hj).1,
   join_heads_are_entries (E2 := [e1x, e2x]) (H1 := [e1x]) (by simp [NodupH, hashes, e1x, e2x]) (by simp)
      C13.log0 d (-1) (fun _ => true) (by simp [e1x, C13.log0]) (by simp [C13.log0]) (by decide) hj⟩

/-! ## The code before the repair: own lock first, then the other's entries, then its heads -/

/-- the old program acquires the other log's lock while holding its own -/
example : wb none (joinProgOld 0 1 [7] (-1)) = false := by decide

/-- A←B ‖ B←A with the old order: after each has taken its own lock nobody can move -/
def wOldCross : World := mkWorld (fun _ => C13.log0)
  (progsOfList [joinProgOld 0 1 [7] (-1), joinProgOld 1 0 [7] (-1)])

example : (∀ t, t < 2 → finished (run wOldCross [0, 1]) t = false) ∧
    (∀ t, t < 2 → (step (run wOldCross [0, 1]) t).isNone = true) := by decide

/-- old order, entries read BEFORE heads: an append in between makes the merge use a head that is
    missing from the entries it read, so nothing of the source is merged although the source held
    the entry when its heads were read (before the repair of the unadmitted-heads defect the
    destination even ended with that head while it was not one of its entries) -/
def wOldSnap : World := mkWorld (fun _ => C13.log0)
  (progsOfList [joinProgOld 0 1 [7] (-1), appendProg 1 1 [1]])

example : hashes ((run wOldSnap [0, 0, 0, 0,  1, 1, 1, 1, 1, 1, 1,  0, 0, 0, 0, 0]).logs 0).heads = [] ∧
    hashes ((run wOldSnap [0, 0, 0, 0,  1, 1, 1, 1, 1, 1, 1,  0, 0, 0, 0, 0]).logs 0).entries = [] ∧
    hashes ((run wOldSnap [0, 0, 0, 0,  1, 1, 1, 1, 1, 1, 1,  0, 0, 0, 0, 0]).logs 1).entries = [[1]] := by
  decide

end Model.C14

namespace Model.C14
/-- EVERY HEAD OF THE RESULT IS AN ENTRY OF THE RESULT — for **any** pair (entries, heads) read from
    the source, consistent or not (also a source that a size-bounded merge trimmed between the two reads,
    so that its old head is no longer among its entries), any size bound and any validity predicate.
    This is the unconditional form that the repaired head filter of `Join` gives. -/
theorem join_heads_are_entries_any (dest dest' : Log) (otherId : Bytes) (E2 H1 : List Entry) (size : Int)
    (valid : Entry → Bool) (hdh : ∀ x ∈ dest.heads, x.hash ∈ hashes dest.entries)
    (hj : join dest otherId E2 H1 size valid = .ok dest') :
    ∀ x ∈ dest'.heads, x.hash ∈ hashes dest'.entries := by
  unfold join at hj
  by_cases hid : dest.id ≠ otherId
  · rw [if_pos hid] at hj
    cases hj
    exact hdh
  · rw [if_neg hid] at hj
    split at hj
    · cases hj
    · cases hj
      intro x hx
      show x.hash ∈ hashes (joinTrim (joinMerge dest E2 H1) size).entries
      have hx' : x ∈ (joinTrim (joinMerge dest E2 H1) size).heads := hx
      unfold joinTrim at hx' ⊢
      have memOm : ∀ (l : List Entry) (y : Entry), y ∈ omFromList l → y ∈ l := by
        intro l y hy
        rcases mem_foldl_omSet l [] hy with h | h
        · cases h
        · exact h
      by_cases hs : size > -1
      · rw [if_pos hs] at hx' ⊢
        have h1 := memOm _ _ hx'
        unfold findHeads at h1
        have h2 := (List.mem_filter.mp ((goSort_perm _ _).mem_iff.mp h1)).1
        exact List.mem_map.mpr ⟨x, h2, rfl⟩
      · rw [if_neg hs] at hx' ⊢
        have hm := memOm _ _ hx'
        have hf := (List.mem_filter.mp hm).2
        simp only [Bool.and_eq_true] at hf
        exact has_iff.mp hf.2
end Model.C14

namespace Model.C14
open Model Model.Conc
/-- every head of every log is one of its entries (by hash) -/
def HeadsIn (w : World) : Prop := ∀ l, ∀ x ∈ (w.logs l).heads, x.hash ∈ hashes (w.logs l).entries

theorem applyW_headsIn (op : WOp) (r : Regs) (l : Log) (h : ∀ x ∈ l.heads, x.hash ∈ hashes l.entries) :
    ∀ x ∈ (applyW op r l).1.heads, x.hash ∈ hashes (applyW op r l).1.entries := by
  cases op with
  | append pc hh tag =>
    intro x hx
    have hx' : x ∈ omFromList [(append l pc hh tag).1] := hx
    have : x = (append l pc hh tag).1 := by
      rcases mem_foldl_omSet [(append l pc hh tag).1] [] hx' with h1 | h1
      · cases h1
      · exact List.mem_singleton.mp h1
    subst this
    show (append l pc hh tag).1.hash ∈ hashes (omSet l.entries (append l pc hh tag).1)
    rw [hashes_omSet]
    split <;> simp_all [has_iff]
  | join oid size =>
    simp only [applyW]
    split
    · rename_i l' hj
      exact join_heads_are_entries_any l l' oid r.es r.hs size _ h hj
    · exact h
  | setIdentity cid => exact h
  | refuse => exact h

/-- **in the concurrent world, for every set of programs and every schedule** (merges racing appends,
    size-bounded merges trimming the source between the two reads of another merge, cross merges, …):
    every head of every log is an entry of that log, at every instant -/
theorem heads_are_entries_every_schedule : ∀ (s : List Tid) (w0 w : World), exec w0 s = some w → HeadsIn w0 → HeadsIn w
  | [], w0, w, h, h0 => by simp only [exec, Option.some.injEq] at h; exact h ▸ h0
  | t :: ts, w0, w, h, h0 => by
    simp only [exec] at h
    cases hs : step w0 t with
    | none => rw [hs] at h; cases h
    | some w1 =>
      rw [hs] at h
      refine heads_are_entries_every_schedule ts w1 w h ?_
      -- one step: only a `write` changes a log
      have hsd := step_sound hs
      cases hsd with
      | write l op rest hr =>
        intro l' x hx
        dsimp only at hx ⊢
        by_cases hl : l' = l
        · subst hl
          rw [upd_same] at hx ⊢
          exact applyW_headsIn op _ _ (h0 l') x hx
        · rw [upd_other _ _ hl] at hx ⊢
          exact h0 l' x hx
      | _ => exact h0
/-! non-vacuity, and the schedule the theorem is about: log 1 = b1 ← b2, log 2 = c1 (newer).  Thread 0
merges log 1 into the empty log 0; after it has read the heads `[b2]` of log 1, thread 1 merges log 2 into
log 1 with bound 1, which trims log 1 to `[c1]`; thread 0 then reads the entries `[c1]`.  Its stale head
`b2` is not an entry of the result and is dropped: log 0 ends with no head that is not its entry. -/
def tb1 : Entry := { hash := [1], logId := [7], next := [], refs := [], clock := { id := [4], time := 1 } }
def tb2 : Entry := { hash := [2], logId := [7], next := [[1]], refs := [], clock := { id := [4], time := 2 } }
def tc1 : Entry := { hash := [3], logId := [7], next := [], refs := [], clock := { id := [5], time := 5 } }
def wT : World := mkWorld
  (fun i => if i = 1 then { id := [7], entries := [tb1, tb2], heads := [tb2], nextIdx := [[1]], clock := { id := [4], time := 2 }, sortFn := .lww }
            else if i = 2 then { id := [7], entries := [tc1], heads := [tc1], nextIdx := [], clock := { id := [5], time := 5 }, sortFn := .lww }
            else C13.log0)
  (progsOfList [joinProg 0 1 [7] (-1), joinProg 1 2 [7] 1])
def schedT : List Tid := List.replicate 6 0 ++ List.replicate 15 1 ++ List.replicate 9 0

example : (exec wT schedT).map (fun w => (hashes (w.logs 1).entries, hashes (w.logs 0).entries, hashes (w.logs 0).heads,
    (w.thr 0).rest.length + (w.thr 1).rest.length)) = some ([[3]], [], [], 0) := by decide

example : HeadsIn wT := by
  intro l x hx
  by_cases h1 : l = 1
  · subst h1; simp [wT, mkWorld] at hx ⊢; subst hx; decide
  · by_cases h2 : l = 2
    · subst h2; simp [wT, mkWorld] at hx ⊢; subst hx; decide
    · simp [wT, mkWorld, h1, h2, C13.log0] at hx

end Model.C14
