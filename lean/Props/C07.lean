import Proofs.Json
import Model.Sign
/-!
# C07 — signatures are tamper-evident over every signed field

`toBuffer` (Model.Json) is the exact byte string `entry.toBuffer` hands to the signer and the verifier
(compared byte for byte with `entry.VerifToBuffer` by the `sign` stream).  The statements:

* `toBuffer_injective` — the signed bytes determine the **signed view** of the entry: log id, payload,
  predecessor list (members and order), reference list, version, clock id, clock time, additional
  data.  Strings appear in the view as their rune-loop steps (`tokens`): every valid UTF-8 sequence
  with its bytes, and a mark for every invalid byte.  `toBuffer_eq_iff` says the view is exact.
  `toBuffer_injective_runes` is the same with strings read as rune lists (invalid byte ↦ U+FFFD).
* `decode_injective_on_valid_utf8`, `toBuffer_injective_canonical` — for entries whose strings are valid
  UTF-8 the view is the entry itself: the bytes determine every field, byte for byte.
* `tamper_detected_partial` and its per-field corollaries, `key_swap_detected`, `sig_swap_detected` —
  under the ideal-signature laws of `Model.Sign.Crypto`, verification of a signed entry fails after
  any change of the signed view, any substitution of the key, and for any signature made for other
  bytes or by another key.

**Why `_partial`.**  The full statement — "changing any payload BYTE makes verification fail" — is
false for the code as it is: `string(payload)` goes through `encoding/json`, which writes every
invalid UTF-8 byte as the same six characters backslash-ufffd.  `payload_collision` (by kernel
evaluation), `collision_verifies` and `tamper_detected_full_is_false` record the defect
(known finding `payload-invalid-utf8-collision`).  The full statement would read

    theorem tamper_detected (C : Crypto) (sk : C.SK) (h h' : Hashable) (hne : h' ≠ h) :
        verifyEntry C { signEntry C sk h with h := h' } = false

and holds exactly on `Hashable.Canonical` entries (`tamper_detected_canonical`).
-/
namespace Model.C07

open Model Model.Json Model.Sign

/-! ## The signed bytes determine the signed view -/

/-- main statement: equal signed bytes ⇒ equal signed views -/
theorem toBuffer_injective {a b : Hashable} (h : toBuffer a = toBuffer b) : signedView a = signedView b :=
  toBuffer_inj h

/-- the view is exact: the signed bytes are a function of it -/
theorem toBuffer_eq_iff (a b : Hashable) : toBuffer a = toBuffer b ↔ signedView a = signedView b :=
  ⟨toBuffer_inj, toBuffer_congr⟩

/-- the same with strings read back as rune lists (an invalid byte reads as U+FFFD) -/
theorem toBuffer_injective_runes {a b : Hashable} (h : toBuffer a = toBuffer b) : runeView a = runeView b :=
  runeView_of_signedView (toBuffer_inj h)

/-- one string literal: it determines the rune-loop steps of its source, and where it ends -/
theorem string_literal_injective {a b r₁ r₂ : Bytes} (h : goJsonString a ++ r₁ = goJsonString b ++ r₂) :
    tokens a = tokens b ∧ r₁ = r₂ := goJsonString_inj h

/-! ## Valid UTF-8: the view is the entry -/

/-- two VALID UTF-8 byte strings with the same rune list are equal -/
theorem decode_injective_on_valid_utf8 {a b : Bytes} (ha : validUtf8 a = true) (hb : validUtf8 b = true)
    (h : runes a = runes b) : a = b := bytes_eq_of_runes ha hb h

/-- … and also with the same rune-loop steps -/
theorem tokens_injective_on_valid_utf8 {a b : Bytes} (ha : validUtf8 a = true) (hb : validUtf8 b = true)
    (h : tokens a = tokens b) : a = b := tokens_inj_of_valid ha hb h

/-- for valid UTF-8 payloads, a changed payload byte changes the signed bytes -/
theorem payload_change_changes_buffer {a b : Hashable} (ha : validUtf8 a.payload = true)
    (hb : validUtf8 b.payload = true) (hne : a.payload ≠ b.payload) : toBuffer a ≠ toBuffer b := by
  intro h
  have := toBuffer_inj h
  simp only [signedView, SignedView.mk.injEq] at this
  exact hne (tokens_inj_of_valid ha hb this.2.1)

/-- on canonical entries (all strings valid UTF-8, clock id made of bytes, additional data in key
    order) the signed bytes determine the whole entry -/
theorem toBuffer_injective_canonical {a b : Hashable} (ha : a.Canonical) (hb : b.Canonical)
    (h : toBuffer a = toBuffer b) : a = b := signedView_inj_canonical ha hb (toBuffer_inj h)

/-! ## Tamper evidence under the ideal-signature laws -/

/-- what `CreateEntryWithIO` produces verifies (the hypotheses below are not vacuous) -/
theorem signed_entry_verifies (C : Crypto) (sk : C.SK) (h : Hashable) : verifyEntry C (signEntry C sk h) = true := by
  simp only [verifyEntry, signEntry]
  exact (C.verify_iff _ _ _).mpr ⟨sk, rfl, rfl⟩

/-- Replacing the signed content by content with a different signed view — any change of log id,
    payload steps, predecessor list (members or order), reference list, version, clock id, clock time
    or additional data — makes verification fail. -/
theorem tamper_detected_partial (C : Crypto) (sk : C.SK) (h h' : Hashable)
    (hne : signedView h' ≠ signedView h) : verifyEntry C { signEntry C sk h with h := h' } = false := by
  cases hv : verifyEntry C { signEntry C sk h with h := h' } with
  | false => rfl
  | true =>
    exfalso
    simp only [verifyEntry, signEntry] at hv
    obtain ⟨sk', _, hs⟩ := (C.verify_iff _ _ _).mp hv
    exact hne (toBuffer_inj (C.sign_inj _ _ _ _ hs).2).symm

/-- the full statement on canonical entries: ANY change of the entry is detected -/
theorem tamper_detected_canonical (C : Crypto) (sk : C.SK) (h h' : Hashable) (hc : h.Canonical)
    (hc' : h'.Canonical) (hne : h' ≠ h) : verifyEntry C { signEntry C sk h with h := h' } = false :=
  tamper_detected_partial C sk h h' (fun hv => hne (signedView_inj_canonical hc' hc hv))

/-- per field: each component of the signed view is covered -/
theorem tamper_id_detected (C : Crypto) (sk : C.SK) (h h' : Hashable) (hne : tokens h'.id ≠ tokens h.id) :
    verifyEntry C { signEntry C sk h with h := h' } = false :=
  tamper_detected_partial C sk h h' (fun hv => hne (congrArg SignedView.id hv))

theorem tamper_payload_detected (C : Crypto) (sk : C.SK) (h h' : Hashable)
    (hne : tokens h'.payload ≠ tokens h.payload) : verifyEntry C { signEntry C sk h with h := h' } = false :=
  tamper_detected_partial C sk h h' (fun hv => hne (congrArg SignedView.payload hv))

/-- a payload change between valid UTF-8 payloads is always detected -/
theorem tamper_payload_detected_valid_utf8 (C : Crypto) (sk : C.SK) (h h' : Hashable)
    (hv : validUtf8 h.payload = true) (hv' : validUtf8 h'.payload = true) (hne : h'.payload ≠ h.payload) :
    verifyEntry C { signEntry C sk h with h := h' } = false :=
  tamper_payload_detected C sk h h' (fun ht => hne (tokens_inj_of_valid hv' hv ht))

/-- predecessor list: membership and order (CID strings are ASCII, so steps = bytes) -/
theorem tamper_next_detected (C : Crypto) (sk : C.SK) (h h' : Hashable)
    (hv : ∀ x ∈ h.next, validUtf8 x = true) (hv' : ∀ x ∈ h'.next, validUtf8 x = true) (hne : h'.next ≠ h.next) :
    verifyEntry C { signEntry C sk h with h := h' } = false :=
  tamper_detected_partial C sk h h' (fun hv'' =>
    hne (map_tokens_inj_valid _ _ hv' hv (congrArg SignedView.next hv'')))

theorem tamper_refs_detected (C : Crypto) (sk : C.SK) (h h' : Hashable)
    (hv : ∀ x ∈ h.refs, validUtf8 x = true) (hv' : ∀ x ∈ h'.refs, validUtf8 x = true) (hne : h'.refs ≠ h.refs) :
    verifyEntry C { signEntry C sk h with h := h' } = false :=
  tamper_detected_partial C sk h h' (fun hv'' =>
    hne (map_tokens_inj_valid _ _ hv' hv (congrArg SignedView.refs hv'')))

theorem tamper_version_detected (C : Crypto) (sk : C.SK) (h h' : Hashable) (hne : h'.v ≠ h.v) :
    verifyEntry C { signEntry C sk h with h := h' } = false :=
  tamper_detected_partial C sk h h' (fun hv => hne (congrArg SignedView.v hv))

theorem tamper_clock_time_detected (C : Crypto) (sk : C.SK) (h h' : Hashable) (hne : h'.clockTime ≠ h.clockTime) :
    verifyEntry C { signEntry C sk h with h := h' } = false :=
  tamper_detected_partial C sk h h' (fun hv => hne (congrArg SignedView.clockTime hv))

theorem tamper_clock_id_detected (C : Crypto) (sk : C.SK) (h h' : Hashable)
    (hb : ∀ x ∈ h.clockId, x < 256) (hb' : ∀ x ∈ h'.clockId, x < 256) (hne : h'.clockId ≠ h.clockId) :
    verifyEntry C { signEntry C sk h with h := h' } = false :=
  tamper_detected_partial C sk h h' (fun hv => hne (by
    have := congrArg SignedView.clockId hv
    simp only [signedView] at this
    rwa [map_mod_id _ hb', map_mod_id _ hb] at this))

/-- substituting a different key makes verification fail -/
theorem key_swap_detected (C : Crypto) (sk : C.SK) (h : Hashable) (pk' : C.PK) (hne : pk' ≠ C.pub sk) :
    verifyEntry C { signEntry C sk h with key := pk' } = false := by
  cases hv : verifyEntry C { signEntry C sk h with key := pk' } with
  | false => rfl
  | true =>
    exfalso
    simp only [verifyEntry, signEntry] at hv
    obtain ⟨sk', hpk, hs⟩ := (C.verify_iff _ _ _).mp hv
    exact hne (by rw [← hpk, (C.sign_inj _ _ _ _ hs).1])

/-- substituting a signature that was made by another key, or for an entry with a different signed
    view (e.g. the signature of another entry of the same writer), makes verification fail -/
theorem sig_swap_detected (C : Crypto) (sk sk' : C.SK) (h h'' : Hashable)
    (hne : C.pub sk' ≠ C.pub sk ∨ signedView h'' ≠ signedView h) :
    verifyEntry C { signEntry C sk h with sig := C.sign sk' (toBuffer h'') } = false := by
  cases hv : verifyEntry C { signEntry C sk h with sig := C.sign sk' (toBuffer h'') } with
  | false => rfl
  | true =>
    exfalso
    simp only [verifyEntry, signEntry] at hv
    obtain ⟨sk₂, hpk, hs⟩ := (C.verify_iff _ _ _).mp hv
    have := C.sign_inj _ _ _ _ hs
    rcases hne with hne | hne
    · exact hne (by rw [this.1, hpk])
    · exact hne (toBuffer_inj this.2)

/-- a value that nobody holding the key produced for these bytes is rejected (this is the law itself;
    ECDSA's malleability means a mauled copy of a genuine signature is NOT covered) -/
theorem foreign_sig_rejected (C : Crypto) (sk : C.SK) (h : Hashable) (s : C.Sig)
    (hs : ¬ ∃ sk', C.pub sk' = C.pub sk ∧ s = C.sign sk' (toBuffer h)) :
    verifyEntry C { signEntry C sk h with sig := s } = false := by
  cases hv : verifyEntry C { signEntry C sk h with sig := s } with
  | false => rfl
  | true => exact absurd ((C.verify_iff _ _ _).mp hv) hs

/-! ## The known defect: invalid UTF-8 payload bytes collide -/

def p₁ : Hashable :=
  { id := [65], payload := [0x61, 0xff, 0x62], next := [], refs := [], v := 2, clockId := [4], clockTime := 1 }
def p₂ : Hashable := { p₁ with payload := [0x61, 0xfe, 0x62] }

/-- two entries that differ in a payload byte and have the same signed bytes (kernel evaluation) -/
theorem payload_collision : toBuffer p₁ = toBuffer p₂ ∧ p₁ ≠ p₂ := by decide

example : toBuffer p₁ = toBuffer p₂ ∧ p₁ ≠ p₂ := by decide

/-- consequently the tampered entry verifies under the signature of the original, for every scheme -/
theorem collision_verifies (C : Crypto) (sk : C.SK) :
    verifyEntry C { signEntry C sk p₁ with h := p₂ } = true := by
  have h := signed_entry_verifies C sk p₁
  simp only [verifyEntry, signEntry] at h ⊢
  rw [← payload_collision.1]; exact h

/-- the full statement (every change of the entry is detected) is false -/
theorem tamper_detected_full_is_false :
    ¬ (∀ (C : Crypto) (sk : C.SK) (h h' : Hashable), h' ≠ h →
        verifyEntry C { signEntry C sk h with h := h' } = false) := by
  intro hall
  have h1 := hall toyCrypto (0 : Nat) p₁ p₂ (fun e => payload_collision.2 e.symm)
  have h2 := collision_verifies toyCrypto (0 : Nat)
  rw [h1] at h2
  cases h2

/-- exactly which payload substitutions go unnoticed: those with the same rune-loop steps, i.e. the
    two payloads differ only inside bytes that the UTF-8 decoder classifies as invalid -/
theorem payload_collision_iff (h : Hashable) (q : Bytes) :
    toBuffer { h with payload := q } = toBuffer h ↔ tokens q = tokens h.payload := by
  rw [toBuffer_eq_iff]
  simp only [signedView, SignedView.mk.injEq, and_true, true_and]

/-! ## Non-vacuity -/

/-- the ideal-signature laws are satisfiable -/
example : Crypto := toyCrypto

/-- a canonical entry with multi-byte payload, predecessors and additional data -/
example : ({ id := [0xC3, 0xA9], payload := [0xE2, 0x82, 0xAC, 0x0A], next := [[81, 109]], refs := [[81, 109], [81, 110]],
             v := 2, clockId := [4, 255], clockTime := -3, additional := [([97], [49]), ([98], [50])] } : Hashable).Canonical := by
  refine ⟨by decide, by decide, by decide, by decide, by decide, by decide, by decide⟩

/-- views do differ: the hypothesis of `tamper_detected_partial` is met by a one-byte payload change -/
example : signedView { p₁ with payload := [0x61, 0x63, 0x62] } ≠ signedView p₁ := by decide

end Model.C07
