import Generated.GenJoin
import Props.GenCommon
import Props.C19Gen
/-!
# Props.GenJoin — `difference` (log.go), the candidate set of `Join`, = the model's `difference`

`Generated/GenJoin.lean` is produced on every run by `harness/cmd/extract/translate2.go` from the Go source; the
theorems identify it with the hand-written model the property theorems are about.
-/
namespace Model.SlicesGen
open Model Model.Go Model.Codec

/-- the inner loop, for ANY step function that meets the pointwise specification (whatever boolean
    shape the code gives the test) -/
theorem diffInner_sim (EB : List Entry) (f : List Hash × List Hash → Hash → List Hash × List Hash)
    (hf : ∀ x c, f x c = if (!x.2.contains c && !has EB c) = true then (x.1 ++ [c], setInsert x.2 c) else x) :
    ∀ (cs : List Hash) (stack : List Hash) (trav traversed : List Hash),
    SameSet traversed trav →
    (cs.foldl f (stack, traversed)).1 = (cs.foldl (diffPush EB) (stack, trav)).1 ∧
      SameSet (cs.foldl f (stack, traversed)).2 (cs.foldl (diffPush EB) (stack, trav)).2 := by
  intro cs
  induction cs with
  | nil => intro stack trav traversed hs; exact ⟨rfl, hs⟩
  | cons c cs ih =>
    intro stack trav traversed hs
    simp only [List.foldl_cons, diffPush, hf]
    rw [hs c]
    by_cases hc : (!trav.contains c && !has EB c) = true
    · simp only [hc, if_true]
      exact ih (stack ++ [c]) (c :: trav) (setInsert traversed c) (sameSet_insert hs c)
    · simp only [hc, Bool.false_eq_true, if_false]
      exact ih stack trav traversed hs

theorem diff_push (EA HA EB : List Entry) (idB : Bytes) (fuel : Nat)
    (ih : ∀ (stack trav traversed : List Hash) (res : List Entry), SameSet traversed trav →
      (Generated.Go.logDifference_loop1 EA HA EB idB fuel (stack, traversed, res)).2.2 =
        diffLoop EA EB idB fuel stack trav res)
    (f : List Hash × List Hash → Hash → List Hash × List Hash)
    (hf : ∀ x c, f x c = if (!x.2.contains c && !has EB c) = true then (x.1 ++ [c], setInsert x.2 c) else x)
    (rest trav' traversed' : List Hash) (res : List Entry) (hs' : SameSet traversed' trav') (l : List Hash) :
    (Generated.Go.logDifference_loop1 EA HA EB idB fuel
        ((l.foldl f (rest, traversed')).1, (l.foldl f (rest, traversed')).2, res)).2.2 =
      diffLoop EA EB idB fuel (l.foldl (diffPush EB) (rest, trav')).1 (l.foldl (diffPush EB) (rest, trav')).2 res := by
  obtain ⟨h1, h2⟩ := diffInner_sim EB f hf l rest trav' traversed' hs'
  rw [h1]
  exact ih _ _ _ _ h2

theorem diffLoop_eq (EA HA EB : List Entry) (idB : Bytes) :
    ∀ (fuel : Nat) (stack : List Hash) (trav traversed : List Hash) (res : List Entry),
      SameSet traversed trav →
      (Generated.Go.logDifference_loop1 EA HA EB idB fuel (stack, traversed, res)).2.2 =
        diffLoop EA EB idB fuel stack trav res := by
  intro fuel
  induction fuel with
  | zero => intro stack trav traversed res _; cases stack <;> rfl
  | succ fuel ih =>
    intro stack trav traversed res hs
    cases stack with
    | nil => simp [Generated.Go.logDifference_loop1, diffLoop]
    | cons h rest =>
      unfold Generated.Go.logDifference_loop1 diffLoop
      have hlen : ((h :: rest).length : Int) > 0 := by simp only [List.length_cons]; omega
      -- decide every atom the loop body may test; `simp` then evaluates whatever shape the tests have
      cases hg : get? EA h with
      | none =>
        have hA : has EA h = false := by rw [← get?_isSome, hg]; rfl
        simp only [hlen, decide_true, if_true, get?_isSome, hA, Bool.not_false,
          Bool.true_or, Bool.false_and, Bool.false_eq_true, if_false]
        exact ih rest trav traversed res hs
      | some eA =>
        have hk : omSetK res h eA = omSet res eA := by
          unfold omSetK omSet; rw [get?_some_hash hg]
        have hs' : SameSet (setInsert traversed h) (if trav.contains h = true then trav else h :: trav) := by
          intro x
          rw [contains_setInsert, hs x]
          by_cases ht : trav.contains h = true
          · simp only [ht, if_true]
            by_cases hx : x = h
            · subst hx; simp [List.contains_iff_mem.mp ht]
            · simp [hx]
          · rw [if_neg ht, List.contains_cons, Bool.or_comm]
        have hA : has EA h = true := by rw [← get?_isSome, hg]; rfl
        have hgd : (get? EA h).getD default = eA := by rw [hg]; rfl
        cases hB : has EB h <;> cases hid : (eA.logId == idB) <;>
          simp only [hlen, decide_true, if_true, get?_isSome, hA, hgd, hB, hid, bne, hk,
            Bool.not_true, Bool.not_false, Bool.true_and, Bool.and_true, Bool.and_false, Bool.false_and, Bool.or_true,
            Bool.or_false, Bool.true_or, Bool.false_or, Bool.and_self, Bool.or_self, Bool.false_eq_true, if_false]
        -- has EB h = false, id equal: the entry is taken and its predecessors are pushed
        case false.true =>
          refine diff_push EA HA EB idB fuel ih _ ?_ rest _ _ _ hs' _
          intro x c
          obtain ⟨a, b⟩ := x
          cases h1 : b.contains c <;> cases h2 : has EB c <;> simp [h1, h2, get?_isSome]
        all_goals exact ih rest trav traversed res hs

/-- **`difference` of log.go (the candidates of a `Join`), translated, is the model's `difference`** -/
theorem logDifference_eq (EA HA : List Entry) (l : Log) :
    Generated.Go.logDifference (diffFuel EA HA) EA HA l.entries l.id = some (difference EA HA l) := by
  unfold Generated.Go.logDifference difference
  by_cases h0 : EA.length = 0 ∨ HA.length = 0
  · have : (((EA.length : Int) == 0) || ((HA.length : Int) == 0) || false) = true := by
      rcases h0 with h | h <;> simp [h]
    simp only [this, if_true, h0]
  · have : (((EA.length : Int) == 0) || ((HA.length : Int) == 0) || false) = false := by
      have h1 : ¬ EA.length = 0 := fun h => h0 (Or.inl h)
      have h2 : ¬ HA.length = 0 := fun h => h0 (Or.inr h)
      simp only [Bool.or_false, Bool.or_eq_false_iff, beq_eq_false_iff_ne, ne_eq]
      constructor <;> omega
    simp only [this, Bool.false_eq_true, if_false, h0]
    rw [diffLoop_eq EA HA l.entries l.id _ _ [] [] [] (fun _ => rfl)]

/-! ### The verification of the candidates -/

/-- **the verification loop of `Join`, translated**: every candidate passes the access controller and the signature
    check (whatever the order of the checks inside a goroutine) -/
theorem joinVerify_eq (canAppend verify : Entry → Bool) (items : List Entry) :
    Generated.Go.joinVerify canAppend verify items = items.all (fun e => canAppend e && verify e) := by
  unfold Generated.Go.joinVerify
  first
    | rfl
    | (congr 1; funext e; cases canAppend e <;> cases verify e <;> rfl)

/-- … which is exactly when the model's `join` does not fail: **all-or-nothing** (C06) — with the translated
    `difference` as the candidates -/
theorem join_err_iff_verify (l : Log) (otherE otherH : List Entry) (size : Int) (canAppend verify : Entry → Bool) :
    join l l.id otherE otherH size (fun e => canAppend e && verify e) = .err ↔
      Generated.Go.joinVerify canAppend verify (difference otherE otherH l) = false := by
  rw [joinVerify_eq]
  unfold join
  simp only [ne_eq, not_true_eq_false, if_false]
  cases hany : (difference otherE otherH l).any (fun e => !(canAppend e && verify e)) with
  | true =>
    simp only [if_true, true_iff]
    obtain ⟨x, hx, hb⟩ := List.any_eq_true.mp hany
    cases hall : (difference otherE otherH l).all (fun e => canAppend e && verify e) with
    | false => rfl
    | true =>
      have := List.all_eq_true.mp hall x hx
      rw [this] at hb
      cases hb
  | false =>
    simp only [Bool.false_eq_true, if_false]
    constructor
    · intro h; cases h
    · intro hall
      exfalso
      have hne : ¬ ((difference otherE otherH l).all (fun e => canAppend e && verify e) = true) := by rw [hall]; simp
      apply hne
      apply List.all_eq_true.mpr
      intro x hx
      cases hv : (canAppend x && verify x) with
      | true => rfl
      | false =>
        have : (difference otherE otherH l).any (fun e => !(canAppend e && verify e)) = true :=
          List.any_eq_true.mpr ⟨x, hx, by rw [hv]; rfl⟩
        rw [this] at hany
        cases hany

end Model.SlicesGen
