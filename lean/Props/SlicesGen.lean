import Generated.Slices
import Props.C19Gen
import Model.Loaders
import Model.Codec
import Proofs.Sort
import Model.Fetcher
/-!
# The slice and map helpers of the library, translated, equal the model

`Generated/Slices.lean` is produced on every run by `harness/cmd/extract/translate2.go` from `log_io.go`
(`entryLastN`, `entryLastNKeeping`, `entrySliceRange`), `entry/utils.go` (`Difference`, `FindHeads`), `log.go`
(`maxClockTimeForEntries`) and `entry/entry.go` (`uniqueCIDs`): loops become folds over the variables they
assign, maps become key lists, a slice expression becomes `slice?` whose `none` is Go's bounds panic.
The theorems identify these definitions with the hand-written model the property theorems are about
(`lastN` — C09/C10/C16, `lastNKeeping`, `entryDifference` — C10, `findHeads` — C01/C02/C06/C14, `maxTime` —
C04, `dedupHashes`/`uniq` — C08/C18), and show that no slice expression in them can panic
(`entryLastN_eq` and `entrySliceRange_total` are equalities with `some _`).
-/
namespace Model.SlicesGen
open Model Model.Go Model.Codec

/-! ## `maxClockTimeForEntries` = `maxTime` -/

theorem maxClockTimeForEntries_eq (es : List Entry) (d : Int) :
    Generated.Go.maxClockTimeForEntries es d = maxTime es d := by
  simp only [Generated.Go.maxClockTimeForEntries, maxTime, C19Gen.maxInt_eq]

/-! ## `entryLastN` = `lastN`, without panic; `entrySliceRange` never panics and is `drop` for the call of `fromEntry` -/

theorem slice?_suffix {α : Type} (xs : List α) (a : Int) (h0 : 0 ≤ a) (h1 : a ≤ xs.length) :
    slice? xs a xs.length = some (xs.drop a.toNat) := by
  unfold slice?
  rw [if_pos ⟨h0, h1, Int.le_refl _⟩]
  simp

theorem slice?_isSome {α : Type} (xs : List α) (a b : Int) (h : 0 ≤ a ∧ a ≤ b ∧ b ≤ xs.length) :
    (slice? xs a b).isSome = true := by
  unfold slice?; rw [if_pos h]; rfl

theorem entrySliceRange_total (es : List Entry) (a b : Int) : (Generated.Go.entrySliceRange es a b).isSome = true := by
  unfold Generated.Go.entrySliceRange
  simp only
  generalize hA : (if decide (a < 0) = true then (if decide ((es.length : Int) + a < 0) = true then (0 : Int) else (es.length : Int) + a) else a) = A
  generalize hB : (if decide (b < 0) = true then (es.length : Int) + b else b) = B
  have hA0 : 0 ≤ A := by
    rw [← hA]; split <;> (try split) <;> simp_all <;> omega
  by_cases hl : ((es.length : Int) == 0) = true
  · simp [hl]
  · simp only [hl, Bool.false_eq_true, if_false]
    by_cases h1 : A ≥ (es.length : Int)
    · simp [h1]
    · simp only [h1, decide_false, Bool.false_eq_true, if_false]
      generalize hC : (if decide (B > (es.length : Int)) = true then (es.length : Int) else B) = C
      have hC1 : C ≤ es.length := by rw [← hC]; split <;> simp_all <;> omega
      by_cases h2 : A ≥ C
      · simp [h2]
      · simp only [h2, decide_false, Bool.false_eq_true, if_false]
        by_cases h3 : (A == C) = true
        · simp [h3]
        · simp only [h3, Bool.false_eq_true, if_false]
          exact slice?_isSome es A C ⟨hA0, by omega, hC1⟩

theorem entrySliceRange_drop (es : List Entry) (k : Nat) :
    Generated.Go.entrySliceRange es k es.length = some (es.drop k) := by
  unfold Generated.Go.entrySliceRange
  by_cases hl : es.length = 0
  · have : es = [] := List.eq_nil_of_length_eq_zero hl
    subst this; simp
  · have h0 : ((es.length : Int) == 0) = false := by rw [beq_eq_false_iff_ne]; omega
    have hk0 : decide ((k : Int) < 0) = false := by simp
    have hl0 : decide ((es.length : Int) < 0) = false := by simp
    have hl1 : decide ((es.length : Int) > es.length) = false := by simp
    simp only [h0, hk0, hl0, hl1, Bool.false_eq_true, if_false]
    by_cases hge : (k : Int) ≥ es.length
    · have : es.length ≤ k := by omega
      simp [hge, List.drop_eq_nil_of_le this]
    · have hne : ((k : Int) == (es.length : Int)) = false := by rw [beq_eq_false_iff_ne]; omega
      simp only [hge, decide_false, Bool.false_eq_true, if_false, hne]
      rw [slice?_suffix es k (by omega) (by omega)]
      simp

theorem entryLastN_eq (es : List Entry) (n : Int) : Generated.Go.entryLastN es n = some (lastN n es) := by
  unfold Generated.Go.entryLastN lastN
  by_cases h0 : n ≤ 0
  · simp [h0]
  · by_cases h1 : n ≥ (es.length : Int)
    · simp [h0, h1]
    · simp only [h0, h1, decide_false, Bool.false_eq_true, if_false]
      rw [slice?_suffix es _ (by omega) (by omega)]
      congr 2
      omega

/-! ## `entryLastNKeeping` = `lastNKeeping` -/

theorem foldl_setInsert (l : List Entry) : ∀ (acc : List Hash),
    l.foldl (fun kept e => setInsert kept e.hash) acc = dedupHashes (l.map (·.hash)) acc := by
  induction l with
  | nil => intro acc; rfl
  | cons e t ih =>
    intro acc
    rw [List.foldl_cons, List.map_cons, dedupHashes, ih]
    unfold setInsert
    by_cases h : acc.contains e.hash = true <;> simp only [h, if_true, if_false, Bool.false_eq_true]

theorem entryLastNKeeping_eq (es : List Entry) (n : Int) (keep : List Entry) :
    Generated.Go.entryLastNKeeping es n keep = lastNKeeping n es keep := by
  unfold Generated.Go.entryLastNKeeping lastNKeeping
  by_cases h : n ≥ (es.length : Int)
  · simp [h]
  · simp only [h, decide_false, Bool.false_eq_true, if_false, foldl_setInsert]
    congr 3
    funext acc e
    obtain ⟨out, quota⟩ := acc
    by_cases hk : (dedupHashes (keep.map (·.hash)) []).contains e.hash = true
    · simp [hk]
    · by_cases hq : quota > 0 <;> simp [hk, hq]

/-! ## `Difference` = `entryDifference`, `FindHeads` = `findHeads`, `uniqueCIDs` = `dedupHashes` -/

theorem contains_setInsert (m : List Hash) (k h : Hash) :
    (setInsert m k).contains h = (m.contains h || h == k) := by
  unfold setInsert
  by_cases hc : m.contains k = true
  · simp only [hc, if_true]
    by_cases hh : h = k
    · subst hh; simp [List.contains_iff_mem.mp hc]
    · simp [hh]
  · simp only [hc, Bool.false_eq_true, if_false, List.contains_append, List.contains_cons, List.contains_nil, Bool.or_false]

theorem existing_contains (a : List Entry) (h : Hash) : ∀ (acc : List Hash),
    (a.foldl (fun existing v => setInsert existing v.hash) acc).contains h = (acc.contains h || has a h) := by
  induction a with
  | nil => intro acc; simp [has]
  | cons v t ih =>
    intro acc
    rw [List.foldl_cons, ih, contains_setInsert]
    simp only [has, List.any_cons, Bool.or_assoc]
    congr 2
    rw [Bool.beq_comm]

theorem difference_eq (a b : List Entry) : Generated.Go.entryDifference a b = entryDifference a b := by
  unfold Generated.Go.entryDifference entryDifference
  simp only
  have key : ∀ (l : List Entry) (diff : List Entry) (processed : List Hash),
      (∀ h, processed.contains h = has diff h) →
      (l.foldl (fun (x : List Entry × List Hash) v =>
        (if (!(a.foldl (fun existing v => setInsert existing v.hash) []).contains v.hash &&
              !x.2.contains v.hash) = true
         then (x.1 ++ [v], setInsert x.2 v.hash) else (x.1, x.2))) (diff, processed)).1 =
      l.foldl (fun (acc : List Entry) v => if has a v.hash || has acc v.hash then acc else acc ++ [v]) diff := by
    intro l
    induction l with
    | nil => intro diff processed _; rfl
    | cons v t ih =>
      intro diff processed hinv
      rw [List.foldl_cons, List.foldl_cons]
      have he : (a.foldl (fun existing v => setInsert existing v.hash) []).contains v.hash = has a v.hash := by
        rw [existing_contains]; simp
      simp only [he, hinv v.hash]
      by_cases h1 : has a v.hash = true
      · simp only [h1, Bool.not_true, Bool.false_and, Bool.false_eq_true, if_false, Bool.true_or, if_true]
        exact ih diff processed hinv
      · by_cases h2 : has diff v.hash = true
        · simp only [h1, h2, Bool.not_true, Bool.and_false, Bool.false_eq_true, if_false, Bool.or_true, if_true]
          exact ih diff processed hinv
        · simp only [h1, h2, Bool.not_false, Bool.and_self, if_true, Bool.or_self, Bool.false_eq_true, if_false]
          apply ih
          intro h
          rw [contains_setInsert, hinv h]
          simp only [has, List.any_append, List.any_cons, List.any_nil, Bool.or_false]
          congr 1
          rw [Bool.beq_comm]
  have := key b [] [] (fun h => by simp [has])
  rw [← this]

theorem any_map_congr {α : Type} (f : α → α) (q : α → Bool) (m : List α) (h : ∀ p, q (f p) = q p) :
    (m.map f).any q = m.any q := by
  induction m with
  | nil => rfl
  | cons p t ih => simp only [List.map_cons, List.any_cons, h, ih]

theorem mapHas_mapSet (m : List (Hash × Hash)) (k v h : Hash) :
    mapHas (mapSet m k v) h = (mapHas m h || h == k) := by
  unfold mapSet mapHas
  by_cases hc : m.any (fun p => p.1 == k) = true
  · simp only [hc, if_true]
    rw [any_map_congr]
    · by_cases hh : h = k
      · subst hh; simp [hc]
      · simp [hh]
    · intro p
      by_cases hp : (p.1 == k) = true
      · simp only [hp, if_true]
        have : p.1 = k := by simpa using hp
        rw [this]
      · simp [hp]
  · simp only [hc, Bool.false_eq_true, if_false, List.any_append, List.any_cons, List.any_nil, Bool.or_false]
    congr 1
    rw [Bool.beq_comm]

theorem mapGet_of_not_has (m : List (Hash × Hash)) (h : Hash) (hn : mapHas m h = false) : mapGet m h = [] := by
  unfold mapGet
  have : m.find? (fun p => p.1 == h) = none := by
    rw [List.find?_eq_none]
    intro p hp
    unfold mapHas at hn
    rw [List.any_eq_false] at hn
    exact hn p hp
  rw [this]

theorem items_inner (e : Entry) (h : Hash) : ∀ (l : List Hash) (items : List (Hash × Hash)),
    mapHas (l.foldl (fun items n => mapSet items n e.hash) items) h = (mapHas items h || l.contains h) := by
  intro l
  induction l with
  | nil => intro items; simp
  | cons n t ih =>
    intro items
    rw [List.foldl_cons, ih, mapHas_mapSet]
    simp only [List.contains_cons, Bool.or_assoc]

theorem items_outer (h : Hash) : ∀ (E : List Entry) (items : List (Hash × Hash)) (named : List Hash),
    mapHas items h = named.contains h →
    mapHas (E.foldl (fun items k => k.next.foldl (fun items n => mapSet items n k.hash) items) items) h =
      (E.foldl (fun acc e => acc ++ e.next) named).contains h := by
  intro E
  induction E with
  | nil => intro items named hinv; exact hinv
  | cons e t ih =>
    intro items named hinv
    rw [List.foldl_cons, List.foldl_cons]
    apply ih
    rw [items_inner, hinv, List.contains_append]

theorem foldl_cond_append (p : Entry → Bool) : ∀ (l acc : List Entry),
    l.foldl (fun result h => if p h = true then result else result ++ [h]) acc = acc ++ l.filter (fun e => !p e) := by
  intro l
  induction l with
  | nil => intro acc; simp
  | cons e t ih =>
    intro acc
    rw [List.foldl_cons, ih, List.filter_cons]
    by_cases hp : p e = true <;> simp [hp]

theorem findHeads_eq (E : List Entry) : Generated.Go.findHeads E = findHeads E := by
  unfold Generated.Go.findHeads findHeads
  simp only [Bool.false_eq_true, if_false]
  have hitems := fun h => items_outer h E [] [] (by simp [mapHas])
  have hcond : ∀ (e : Entry),
      (mapHas (E.foldl (fun items k => k.next.foldl (fun items n => mapSet items n k.hash) items) []) e.hash ||
        mapGet (E.foldl (fun items k => k.next.foldl (fun items n => mapSet items n k.hash) items) []) e.hash != ([] : Hash)) =
      (E.foldl (fun acc e => acc ++ e.next) []).contains e.hash := by
    intro e
    cases hc : (E.foldl (fun acc e => acc ++ e.next) []).contains e.hash with
    | true => rw [hitems e.hash, hc, Bool.true_or]
    | false =>
      rw [mapGet_of_not_has _ _ (by rw [hitems e.hash]; exact hc), hitems e.hash, hc]
      rfl
  simp only [hcond]
  rw [foldl_cond_append]
  simp

theorem uniqueCIDs_eq (cids : List Hash) : Generated.Go.uniqueCIDs cids = dedupHashes cids [] := by
  unfold Generated.Go.uniqueCIDs
  simp only
  have key : ∀ (l : List Hash) (acc : List Hash),
      (l.foldl (fun (x : List Hash × List Hash) c =>
        if x.1.contains c = true then (x.1, x.2) else (setInsert x.1 c, x.2 ++ [c])) (acc, acc)).2 = dedupHashes l acc := by
    intro l
    induction l with
    | nil => intro acc; rfl
    | cons c t ih =>
      intro acc
      rw [List.foldl_cons, dedupHashes]
      by_cases hc : acc.contains c = true
      · simp only [hc, if_true]; exact ih acc
      · simp only [hc, Bool.false_eq_true, if_false]
        have : setInsert acc c = acc ++ [c] := by unfold setInsert; simp only [hc, Bool.false_eq_true, if_false]
        rw [this]; exact ih (acc ++ [c])
  rw [← key cids []]

/-! ## the codec model's `uniq` (`Entry.Copy`) is the same function -/

theorem dedup_uniq : ∀ (l acc : List Bytes),
    dedupHashes l acc = acc ++ (uniq l).filter (fun x => !acc.contains x) := by
  intro l
  induction l with
  | nil => intro acc; simp [dedupHashes, uniq]
  | cons c t ih =>
    intro acc
    rw [dedupHashes, uniq]
    by_cases hc : acc.contains c = true
    · simp only [hc, if_true, List.filter_cons, Bool.not_true, Bool.false_eq_true, if_false]
      rw [ih acc, List.filter_filter]
      congr 1
      apply List.filter_congr
      intro x _
      cases hx : acc.contains x with
      | true => simp
      | false =>
        have : x ≠ c := by intro h; subst h; rw [hc] at hx; cases hx
        simp [this]
    · simp only [hc, Bool.false_eq_true, if_false, List.filter_cons, Bool.not_false, if_true]
      rw [ih (acc ++ [c]), List.filter_filter, List.append_assoc]
      congr 1
      simp only [List.singleton_append]
      congr 1
      apply List.filter_congr
      intro x _
      simp only [List.contains_append, List.contains_cons, List.contains_nil, Bool.or_false, Bool.not_or, bne]

theorem uniq_eq_dedup (l : List Bytes) : uniq l = dedupHashes l [] := by
  rw [dedup_uniq]
  simp only [List.nil_append, List.contains_nil, Bool.not_false]
  exact (List.filter_eq_self.mpr (fun _ _ => rfl)).symm

theorem uniqueCIDs_eq_uniq (cids : List Hash) : Generated.Go.uniqueCIDs cids = uniq cids := by
  rw [uniqueCIDs_eq, uniq_eq_dedup]

/-! ## `IPFSLog.traverse` = `travLoop` / `traverseG` (the `for cond` loop is a recursion on fuel) -/

/-- same members -/
def SameSet (a b : List Hash) : Prop := ∀ h, a.contains h = b.contains h

theorem contains_setInsert' (m : List Hash) (k h : Hash) :
    (setInsert m k).contains h = (m.contains h || h == k) := by
  unfold setInsert
  by_cases hc : m.contains k = true
  · simp only [hc, if_true]
    by_cases hh : h = k
    · subst hh; simp [List.contains_iff_mem.mp hc]
    · simp [hh]
  · simp only [hc, Bool.false_eq_true, if_false, List.contains_append, List.contains_cons, List.contains_nil, Bool.or_false]

theorem sameSet_insert {a b : List Hash} (h : SameSet a b) (k : Hash) : SameSet (setInsert a k) (k :: b) := by
  intro x
  rw [contains_setInsert, h x, List.contains_cons, Bool.or_comm]

theorem inner_eq (E : List Entry) : ∀ (cs : List Hash) (stack : List Entry) (trav traversed : List Hash) (m : Bool),
    SameSet traversed trav →
    let g := cs.foldl (fun (x : Bool × List Entry × List Hash) c =>
      if (!(get? E c).isSome) = true then (x.1, x.2.1, x.2.2)
      else if x.2.2.contains ((get? E c).getD default).hash = true then (x.1, x.2.1, x.2.2)
      else (true, [(get? E c).getD default] ++ x.2.1, setInsert x.2.2 ((get? E c).getD default).hash)) (m, stack, traversed)
    let r := pushNexts E cs (stack, trav, m)
    g.1 = r.2.2 ∧ g.2.1 = r.1 ∧ SameSet g.2.2 r.2.1 := by
  intro cs
  induction cs with
  | nil => intro stack trav traversed m hs; exact ⟨rfl, rfl, hs⟩
  | cons c cs ih =>
    intro stack trav traversed m hs
    simp only [List.foldl_cons, pushNexts]
    cases hg : get? E c with
    | none => simpa using ih stack trav traversed m hs
    | some n =>
      simp only [Option.isSome_some, Bool.not_true, Bool.false_eq_true, if_false, Option.getD_some]
      rw [hs n.hash]
      by_cases hc : trav.contains n.hash = true
      · simp only [hc, if_true]; exact ih stack trav traversed m hs
      · simp only [hc, Bool.false_eq_true, if_false]
        exact ih (n :: stack) (n.hash :: trav) (setInsert traversed n.hash) true (sameSet_insert hs n.hash)

theorem loop_eq (E : List Entry) (lt : Entry → Entry → Bool) (roots : List Entry) (amount : Int) (ehs : Hash) :
    ∀ (fuel : Nat) (stack : List Entry) (trav traversed : List Hash) (res : List Entry) (count : Int),
      SameSet traversed trav →
      (Generated.Go.traverse_loop1 E lt roots amount ehs fuel (count, res, stack, traversed)).2.1 =
        travLoop E lt amount (some ehs) fuel stack trav res count := by
  intro fuel
  induction fuel with
  | zero => intro stack trav traversed res count _; cases stack <;> rfl
  | succ fuel ih =>
    intro stack trav traversed res count hs
    cases stack with
    | nil => simp [Generated.Go.traverse_loop1, travLoop]
    | cons e rest =>
      unfold Generated.Go.traverse_loop1 travLoop
      have hlen : decide (((e :: rest).length : Int) > 0) = true := by simp
      by_cases hc : amount < 0 ∨ count < amount
      · have hc' : (decide (amount < 0) || decide (count < amount)) = true := by
          rcases hc with h | h <;> simp [h]
        simp only [hlen, hc', Bool.and_self, if_true, hc]
        by_cases he : e.hash = ehs
        · simp [he]
        · have he' : (e.hash == ehs) = false := by simpa using he
          have he'' : ¬ (some ehs = some e.hash) := by intro h; exact he (Option.some.inj h).symm
          simp only [he', Bool.false_eq_true, if_false, he'']
          have hin := inner_eq E e.next rest (e.hash :: trav) (setInsert traversed e.hash) false (sameSet_insert hs e.hash)
          simp only at hin
          obtain ⟨h1, h2, h3⟩ := hin
          rw [h1, h2]
          exact ih _ _ _ _ _ h3
      · have hc' : (decide (amount < 0) || decide (count < amount)) = false := by
          have : ¬ amount < 0 ∧ ¬ count < amount := by
            constructor <;> (intro h; exact hc (by first | exact Or.inl h | exact Or.inr h))
          simp [this.1, this.2]
        simp [hlen, hc', hc]

theorem traverse_eq_some (fuel : Nat) (E : List Entry) (lt : Entry → Entry → Bool) (roots : List Entry) (amount : Int) (ehs : Hash) :
    Generated.Go.traverse fuel E lt roots amount ehs =
      some (travLoop E lt amount (some ehs) fuel (goSort lt roots) [] [] 0) := by
  unfold Generated.Go.traverse
  simp only [Bool.false_eq_true, if_false]
  rw [loop_eq E lt roots amount ehs fuel (goSort lt roots) [] [] [] 0 (fun _ => rfl)]

theorem pushNexts_mem (E : List Entry) : ∀ (cs : List Hash) (stack : List Entry) (trav : List Hash) (m : Bool) (x : Entry),
    x ∈ (pushNexts E cs (stack, trav, m)).1 → x ∈ stack ∨ x ∈ E := by
  intro cs
  induction cs with
  | nil => intro stack trav m x hx; exact Or.inl hx
  | cons c cs ih =>
    intro stack trav m x hx
    simp only [pushNexts] at hx
    cases hg : get? E c with
    | none => rw [hg] at hx; exact ih stack trav m x hx
    | some n =>
      rw [hg] at hx
      simp only at hx
      by_cases hc : trav.contains n.hash = true
      · rw [if_pos hc] at hx; exact ih stack trav m x hx
      · rw [if_neg hc] at hx
        rcases ih (n :: stack) (n.hash :: trav) true x hx with h | h
        · rcases List.mem_cons.mp h with h | h
          · right; rw [h]; exact List.mem_of_find?_eq_some hg
          · exact Or.inl h
        · exact Or.inr h

theorem mem_goSort' {lt : Entry → Entry → Bool} {l : List Entry} {a : Entry} : a ∈ goSort lt l → a ∈ l :=
  mem_goSort.mp

theorem travLoop_nil_none (E : List Entry) (lt : Entry → Entry → Bool) (amount : Int) (hE : ∀ e ∈ E, e.hash ≠ []) :
    ∀ (fuel : Nat) (stack : List Entry) (trav : List Hash) (res : List Entry) (count : Int),
      (∀ e ∈ stack, e.hash ≠ []) →
      travLoop E lt amount (some []) fuel stack trav res count = travLoop E lt amount none fuel stack trav res count := by
  intro fuel
  induction fuel with
  | zero => intro stack trav res count _; cases stack <;> rfl
  | succ fuel ih =>
    intro stack trav res count hst
    cases stack with
    | nil => rfl
    | cons e rest =>
      unfold travLoop
      have he : ¬ (some ([] : Hash) = some e.hash) := by
        intro h; exact hst e List.mem_cons_self (Option.some.inj h).symm
      simp only [he, if_false, reduceCtorEq]
      split
      · apply ih
        intro x hx
        have hx' : x ∈ (pushNexts E e.next (rest, e.hash :: trav, false)).1 := by
          split at hx
          · exact mem_goSort' hx
          · exact hx
        rcases pushNexts_mem E e.next rest (e.hash :: trav) false x hx' with h | h
        · exact hst x (List.mem_cons_of_mem _ h)
        · exact hE x h
      · rfl

/-- **`IPFSLog.traverse`, translated, is the model's traversal.**  `""` as end hash is the model's `none`
    when no entry has the empty hash (hashes are CIDs). -/
theorem traverse_eq (E : List Entry) (lt : Entry → Entry → Bool) (roots : List Entry) (amount : Int) (eh : Option Hash)
    (hne : eh = none → (∀ e ∈ E, e.hash ≠ []) ∧ (∀ e ∈ roots, e.hash ≠ [])) :
    Generated.Go.traverse (traverseFuel E roots) E lt roots amount (eh.getD []) =
      some (traverseG E lt roots amount eh) := by
  rw [traverse_eq_some]
  unfold traverseG
  cases eh with
  | some h => rfl
  | none =>
    obtain ⟨h1, h2⟩ := hne rfl
    show some (travLoop E lt amount (some []) _ _ [] [] 0) = _
    rw [travLoop_nil_none E lt amount h1]
    intro e he
    exact h2 e (mem_goSort.mp he)

/-! ## `difference` (log.go): the candidate set of `Join` -/

theorem get?_isSome (E : List Entry) (h : Hash) : (get? E h).isSome = has E h := by
  unfold get? has
  induction E with
  | nil => rfl
  | cons e t ih =>
    simp only [List.find?_cons, List.any_cons]
    cases he : (e.hash == h) with
    | true => simp
    | false => simpa using ih

theorem get?_some_hash {E : List Entry} {h : Hash} {e : Entry} (hg : get? E h = some e) : e.hash = h := by
  have := List.find?_some hg
  simpa using this

theorem diffInner_eq (EB : List Entry) : ∀ (cs : List Hash) (stack : List Hash) (trav traversed : List Hash),
    SameSet traversed trav →
    let g := cs.foldl (fun (x : List Hash × List Hash) h =>
      ((if (!x.2.contains h && !has EB h) = true then (x.1 ++ [h], setInsert x.2 h) else (x.1, x.2)).1,
       (if (!x.2.contains h && !has EB h) = true then (x.1 ++ [h], setInsert x.2 h) else (x.1, x.2)).2)) (stack, traversed)
    let r := cs.foldl (diffPush EB) (stack, trav)
    g.1 = r.1 ∧ SameSet g.2 r.2 := by
  intro cs
  induction cs with
  | nil => intro stack trav traversed hs; exact ⟨rfl, hs⟩
  | cons c cs ih =>
    intro stack trav traversed hs
    simp only [List.foldl_cons, diffPush]
    rw [hs c]
    by_cases hc : (!trav.contains c && !has EB c) = true
    · simp only [hc, if_true]
      exact ih (stack ++ [c]) (c :: trav) (setInsert traversed c) (sameSet_insert hs c)
    · simp only [hc, Bool.false_eq_true, if_false]
      exact ih stack trav traversed hs

theorem diffLoop_eq (EA HA EB : List Entry) (idB : Bytes) :
    ∀ (fuel : Nat) (stack : List Hash) (trav traversed : List Hash) (res : List Entry),
      SameSet traversed trav →
      (Generated.Go.logDifference_loop1 EA HA EB idB fuel (res, stack, traversed)).1 =
        diffLoop EA EB idB fuel stack trav res := by
  intro fuel
  induction fuel with
  | zero => intro stack trav traversed res _; cases stack <;> rfl
  | succ fuel ih =>
    intro stack trav traversed res hs
    cases stack with
    | nil => simp [Generated.Go.logDifference_loop1, diffLoop]
    | cons h rest =>
      unfold Generated.Go.logDifference_loop1 diffLoop
      simp only [if_true, get?_isSome]
      cases hg : get? EA h with
      | none =>
        have hA : has EA h = false := by rw [← get?_isSome, hg]; rfl
        simp only [hA, Bool.false_and, Bool.false_eq_true, if_false]
        exact ih rest trav traversed res hs
      | some eA =>
        have hA : has EA h = true := by rw [← get?_isSome, hg]; rfl
        simp only [hA, Bool.true_and, Option.getD_some]
        by_cases hc : (!has EB h && eA.logId == idB) = true
        · simp only [hc, if_true]
          have hk : omSetK res h eA = omSet res eA := by
            unfold omSetK omSet; rw [get?_some_hash hg]
          have hs' : SameSet (setInsert traversed h) (if trav.contains h = true then trav else h :: trav) := by
            intro x
            rw [contains_setInsert, hs x]
            by_cases ht : trav.contains h = true
            · simp only [ht, if_true]
              by_cases hx : x = h
              · subst hx; simp [List.contains_iff_mem.mp ht]
              · simp [hx]
            · rw [if_neg ht, List.contains_cons, Bool.or_comm]
          obtain ⟨h1, h2⟩ := diffInner_eq EB eA.next rest _ _ hs'
          rw [hk, h1]
          exact ih _ _ _ _ h2
        · simp only [hc, Bool.false_eq_true, if_false]
          exact ih rest trav traversed res hs

/-- **`difference` of log.go (the candidates of a `Join`), translated, is the model's `difference`** -/
theorem logDifference_eq (EA HA : List Entry) (l : Log) :
    Generated.Go.logDifference (diffFuel EA HA) EA HA l.entries l.id = some (difference EA HA l) := by
  unfold Generated.Go.logDifference difference
  by_cases h0 : EA.length = 0 ∨ HA.length = 0
  · have : (((EA.length : Int) == 0) || ((HA.length : Int) == 0) || false) = true := by
      rcases h0 with h | h <;> simp [h]
    simp only [this, if_true, h0]
  · have : (((EA.length : Int) == 0) || ((HA.length : Int) == 0) || false) = false := by
      have h1 : ¬ EA.length = 0 := fun h => h0 (Or.inl h)
      have h2 : ¬ HA.length = 0 := fun h => h0 (Or.inr h)
      simp only [Bool.or_false, Bool.or_eq_false_iff, beq_eq_false_iff_ne, ne_eq]
      constructor <;> omega
    simp only [this, Bool.false_eq_true, if_false, h0]
    rw [diffLoop_eq EA HA l.entries l.id _ _ [] [] [] (fun _ => rfl)]

/-! ## the fetcher's `updateClock` and `addNextEntry` (the bounded admission rule of C10/C11) -/

theorem updateClock_eq {Q : Type} (add : Q → Hash → Q) (len : Int) (s : FState) (e : Entry) :
    Generated.Go.updateClock add len s.maxClock s.minClock e s.results.getLast? = (newMax s e, newMin s e) := by
  unfold Generated.Go.updateClock newMin newMax
  cases hl : s.results.getLast? with
  | none =>
    simp only [Option.isSome_none, Bool.false_eq_true, if_false]
    by_cases h : s.maxClock < e.clock.time <;> simp [h] <;> omega
  | some l =>
    simp only [Option.isSome_some, if_true, Option.getD_some]
    by_cases h : s.maxClock < e.clock.time <;> by_cases h2 : l.clock.time < s.minClock <;> simp [h, h2] <;> omega

theorem addHash_fields (cfg : FCfg) (s : FState) (h : Hash) :
    (addHash cfg s h).results = s.results ∧ (addHash cfg s h).minClock = s.minClock := by
  unfold addHash; split <;> exact ⟨rfl, rfl⟩

theorem addHashes_fields (cfg : FCfg) : ∀ (hs : List Hash) (s : FState),
    (addHashes cfg s hs).results = s.results ∧ (addHashes cfg s hs).minClock = s.minClock := by
  intro hs
  induction hs with
  | nil => intro s; exact ⟨rfl, rfl⟩
  | cons h t ih =>
    intro s
    have := ih (addHash cfg s h)
    have h2 := addHash_fields cfg s h
    unfold addHashes at *
    rw [List.foldl_cons]
    exact ⟨this.1.trans h2.1, this.2.trans h2.2⟩

theorem addNextEntry_eq (cfg : FCfg) (s : FState) (e : Entry) :
    Generated.Go.addNextEntry (addHash cfg) cfg.length s.maxClock s.minClock s e s.results = addNext cfg s e := by
  unfold Generated.Go.addNextEntry addNext
  by_cases h0 : cfg.length < 0
  · simp only [h0, decide_true, if_true]; rfl
  · simp only [h0, decide_false, Bool.false_eq_true, if_false]
    unfold queueRefs queueNext
    by_cases h1 : (s.results.length : Int) < cfg.length ∨ e.clock.time ≥ s.minClock
    · have h1' : ((decide ((s.results.length : Int) < cfg.length) || decide (e.clock.time > s.minClock)) || (e.clock.time == s.minClock)) = true := by
        rcases h1 with h | h
        · simp [h]
        · by_cases hq : e.clock.time = s.minClock
          · simp [hq]
          · have : e.clock.time > s.minClock := by omega
            simp [this]
      simp only [h1', if_true, h1, (addHashes_fields cfg e.next s).1]
      by_cases h2 : (s.results.length : Int) + (e.refs.length : Int) ≤ cfg.length <;> simp [h2, addHashes]
    · have h1' : ((decide ((s.results.length : Int) < cfg.length) || decide (e.clock.time > s.minClock)) || (e.clock.time == s.minClock)) = false := by
        have a : ¬ (s.results.length : Int) < cfg.length := fun h => h1 (Or.inl h)
        have b : ¬ e.clock.time ≥ s.minClock := fun h => h1 (Or.inr h)
        have c : ¬ e.clock.time > s.minClock := by omega
        have d : ¬ e.clock.time = s.minClock := by omega
        simp [a, c, d]
      simp only [h1', Bool.false_eq_true, if_false, h1]
      by_cases h2 : (s.results.length : Int) + (e.refs.length : Int) ≤ cfg.length <;> simp [h2, addHashes]

end Model.SlicesGen
