import Proofs.System
/-!
# C01 — replicas that merged the same entries converge (join is a CRDT merge)

`Reachable s`: `s` is reached from the empty system by ANY finite history of `newLog`, `append`
(fresh hash), unbounded `join` (any pair, any order, any repetition) and `setIdentity`, over any
number of replicas and writers.  `s.know r` is the set of appended entries replica `r` has merged
directly or transitively.
-/
namespace Model.C01

/-- Two replicas that have merged the same set of appended entries expose the same set of entries and
    the same heads — whatever the order, grouping or repetition of the merges. -/
theorem convergence {s : Sys} (hr : Reachable s) {r₁ r₂ : Nat} {a b : Log}
    (ha : s.logs r₁ = some a) (hb : s.logs r₂ = some b)
    (hk : ∀ h, h ∈ s.know r₁ ↔ h ∈ s.know r₂) :
    (∀ x, x ∈ a.entries ↔ x ∈ b.entries) ∧ (∀ x, x ∈ a.heads ↔ x ∈ b.heads) := by
  have I := reachable_inv hr
  have Ia := I.inv r₁ a ha
  have Ib := I.inv r₂ b hb
  have hH : ∀ h, h ∈ hashes a.entries ↔ h ∈ hashes b.entries := by
    intro h; rw [← I.know r₁ a ha h, ← I.know r₂ b hb h]; exact hk h
  have hE : ∀ x, x ∈ a.entries ↔ x ∈ b.entries := by
    intro x
    constructor
    · intro hx
      have : x.hash ∈ hashes b.entries := (hH _).mp (List.mem_map.mpr ⟨x, hx, rfl⟩)
      obtain ⟨y, hy, hyh⟩ := List.mem_map.mp this
      have : y = x := eq_of_hash_eq I.uni (Ib.inU y hy) (Ia.inU x hx) hyh
      exact this ▸ hy
    · intro hx
      have : x.hash ∈ hashes a.entries := (hH _).mpr (List.mem_map.mpr ⟨x, hx, rfl⟩)
      obtain ⟨y, hy, hyh⟩ := List.mem_map.mp this
      have : y = x := eq_of_hash_eq I.uni (Ia.inU y hy) (Ib.inU x hx) hyh
      exact this ▸ hy
  exact ⟨hE, heads_fn_of_set Ia Ib hE⟩

/-- ... and, when the configured ordering is a strict total order on those entries (always for the
    hash tie-break; for the default ordering when no two distinct entries carry the same clock id and
    time), the identical linearised sequence of values. -/
theorem convergence_values {s : Sys} (hr : Reachable s) {r₁ r₂ : Nat} {a b : Log}
    (ha : s.logs r₁ = some a) (hb : s.logs r₂ = some b)
    (hk : ∀ h, h ∈ s.know r₁ ↔ h ∈ s.know r₂)
    (hsf : a.sortFn = b.sortFn) (ho : OrderOk a.sortFn a.entries) : values a = values b := by
  have I := reachable_inv hr
  have Ia := I.inv r₁ a ha
  have Ib := I.inv r₂ b hb
  have hE := (convergence hr ha hb hk).1
  apply values_fn_of_set Ia Ib hsf ho
  rw [List.perm_ext_iff_of_nodup (nodup_of_hashes_nodup Ia.nodup) (nodup_of_hashes_nodup Ib.nodup)]
  exact hE

/-- the entry set of a merge is the union of the two entry sets: hence merge is commutative,
    associative and idempotent on (entry set, head set, values) -/
theorem join_entries {U : List Entry} (hU : (hashes U).Nodup) {A B : Log} (IA : Inv U A) (IB : Inv U B)
    (hid : A.id = B.id) (x : Entry) : x ∈ (joinU A B).entries ↔ x ∈ A.entries ∨ x ∈ B.entries :=
  mem_jEntries hU IA IB hid

theorem join_comm {U : List Entry} (hU : (hashes U).Nodup) {A B : Log} (IA : Inv U A) (IB : Inv U B)
    (hid : A.id = B.id) :
    (∀ x, x ∈ (joinU A B).entries ↔ x ∈ (joinU B A).entries) ∧
    (∀ x, x ∈ (joinU A B).heads ↔ x ∈ (joinU B A).heads) := by
  have hE : ∀ x, x ∈ (joinU A B).entries ↔ x ∈ (joinU B A).entries := by
    intro x
    rw [join_entries hU IA IB hid, join_entries hU IB IA hid.symm]
    exact Or.comm
  exact ⟨hE, heads_fn_of_set (inv_join hU IA IB hid) (inv_join hU IB IA hid.symm) hE⟩

theorem join_idem {U : List Entry} (hU : (hashes U).Nodup) {A B : Log} (IA : Inv U A) (IB : Inv U B)
    (hid : A.id = B.id) :
    (∀ x, x ∈ (joinU (joinU A B) B).entries ↔ x ∈ (joinU A B).entries) ∧
    (∀ x, x ∈ (joinU (joinU A B) B).heads ↔ x ∈ (joinU A B).heads) := by
  have IJ := inv_join hU IA IB hid
  have hid' : (joinU A B).id = B.id := hid
  have hE : ∀ x, x ∈ (joinU (joinU A B) B).entries ↔ x ∈ (joinU A B).entries := by
    intro x
    rw [join_entries hU IJ IB hid', join_entries hU IA IB hid]
    constructor
    · rintro ((h | h) | h)
      · exact Or.inl h
      · exact Or.inr h
      · exact Or.inr h
    · exact Or.inl
  exact ⟨hE, heads_fn_of_set (inv_join hU IJ IB hid') IJ hE⟩

theorem join_assoc {U : List Entry} (hU : (hashes U).Nodup) {A B C : Log} (IA : Inv U A) (IB : Inv U B)
    (IC : Inv U C) (hab : A.id = B.id) (hbc : B.id = C.id) :
    (∀ x, x ∈ (joinU (joinU A B) C).entries ↔ x ∈ (joinU A (joinU B C)).entries) ∧
    (∀ x, x ∈ (joinU (joinU A B) C).heads ↔ x ∈ (joinU A (joinU B C)).heads) := by
  have IAB := inv_join hU IA IB hab
  have IBC := inv_join hU IB IC hbc
  have h1 : (joinU A B).id = C.id := hab.trans hbc
  have h2 : A.id = (joinU B C).id := hab
  have hE : ∀ x, x ∈ (joinU (joinU A B) C).entries ↔ x ∈ (joinU A (joinU B C)).entries := by
    intro x
    rw [join_entries hU IAB IC h1, join_entries hU IA IB hab, join_entries hU IA IBC h2,
      join_entries hU IB IC hbc]
    exact or_assoc
  exact ⟨hE, heads_fn_of_set (inv_join hU IAB IC h1) (inv_join hU IA IBC h2) hE⟩

/-- merging a log with itself, or with a log of a different id, changes nothing -/
theorem join_self (s : Sys) (r : Nat) (a : Log) (ha : s.logs r = some a) : s.step (.join r r) = some s := by
  simp [Sys.step, ha]

theorem join_other_id_unchanged (A : Log) (otherId : Bytes) (E H : List Entry) (size : Int)
    (hid : A.id ≠ otherId) : join A otherId E H size = .ok A := join_other_id A otherId E H size _ hid

/-- merging with an empty log changes neither the entries nor the heads -/
theorem join_empty {U : List Entry} (hU : (hashes U).Nodup) {A : Log} (IA : Inv U A) (cid : Bytes) (k : SortKind) :
    (∀ x, x ∈ (joinU A (emptyLog A.id cid k)).entries ↔ x ∈ A.entries) ∧
    (∀ x, x ∈ (joinU A (emptyLog A.id cid k)).heads ↔ x ∈ A.heads) := by
  have IB := inv_emptyLog U A.id cid k
  have hE : ∀ x, x ∈ (joinU A (emptyLog A.id cid k)).entries ↔ x ∈ A.entries := by
    intro x
    rw [join_entries hU IA IB rfl]
    simp [emptyLog]
  exact ⟨hE, heads_fn_of_set (inv_join hU IA IB rfl) IA hE⟩

/-! non-vacuity: a concrete history with a fork and merges in both directions is reachable, and the
two replicas end with the same `know` set -/
def w1 : Bytes := [4, 1]
def w2 : Bytes := [4, 2]
def demoOps : List Op :=
  [.newLog [88] w1 .lww, .newLog [88] w2 .lww, .append 0 0 [1] 0, .append 1 0 [2] 0, .append 0 0 [3] 0,
   .join 0 1, .join 1 0, .append 1 2 [4] 0, .join 0 1]

def demoEntries (r : Nat) : Option (List Hash) :=
  match Sys.init.run demoOps with
  | some s => (s.logs r).map (fun l => (values l).map (·.hash))
  | none => none

example : demoEntries 0 = some [[1], [2], [3], [4]] ∧ demoEntries 1 = some [[1], [2], [3], [4]] := by decide

/-- histories also contain replicas rebuilt from another one — by the constructor from its live entries,
    or by a loader from what a fetch delivered (`Op.rebuild`: the source's entries in any order, heads
    handed over or recomputed): the rebuilt replica has merged what its source had, so `convergence`
    applies to it like to any other replica.  Here: replica 0 rebuilt from its entries in reverse order,
    without heads, then joined by a replica that is behind. -/
def demoRebuilt : Option (List Hash × List Hash × List Hash) :=
  match Sys.init.run demoOps with
  | some s =>
    match s.logs 0 with
    | some l =>
      match s.step (.rebuild 0 [4, 3] l.entries.reverse false) with
      | some s1 =>
        match s1.run [.newLog [88] [4, 4] .lww, .join 3 2] with
        | some s2 => some (((s2.logs 2).map (fun l => hashes (values l))).getD [],
                           ((s2.logs 3).map (fun l => hashes (values l))).getD [],
                           ((s2.logs 2).map (fun l => hashes l.heads)).getD [])
        | none => none
      | none => none
    | none => none
  | none => none

example : demoRebuilt = some ([[1], [2], [3], [4]], [[1], [2], [3], [4]], [[4]]) := by decide

/-- the rebuilt replica equals its source: entries, heads, id, ordering -/
theorem rebuild_equals_source {s s' : Sys} (hr : Reachable s) {src : Nat} {cid : Bytes} {ents : List Entry} {wh : Bool}
    (hstep : s.step (.rebuild src cid ents wh) = some s') :
    ∃ l L, s.logs src = some l ∧ s'.logs s.n = some L ∧ L.id = l.id ∧ L.sortFn = l.sortFn ∧
      (∀ x, x ∈ L.entries ↔ x ∈ l.entries) ∧ (∀ x, x ∈ L.heads ↔ x ∈ l.heads) := by
  obtain ⟨l, hl, hg, rfl⟩ := rebuild_step hstep
  have I := reachable_inv hr
  obtain ⟨_, h2, h3, h4, h5⟩ := rebuild_spec I.uni (I.inv src l hl) cid wh hg
  exact ⟨l, _, hl, upd_same _ _ _, h2, h5, h3, h4⟩

end Model.C01
