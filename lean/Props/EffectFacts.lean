import Generated.Facts
/-!
# C06 / C17 — order of side effects in `Append` and `Join`, from the regenerated facts

`Generated.effectOrder` lists, in source order, the validation calls, the barrier, the block-store
write and the in-memory publications of `Append` and `Join` (`harness/cmd/extract/effects.go`).
The model assumes — and these obligations check on the code as it is:

* `Append`: the block is written (`CreateEntryWithIO`) and the access controller is asked
  (`CanAppend`) before anything is published (`Entries.Set`, `Next.Set`, `heads=`); so the store
  write sequence is the model's universe order (C17) and a denied append publishes nothing (C06).
* `Join`: every validation (`CanAppend`, `Verify`, in the worker goroutines) and the barrier `Wait`
  precede the first publication, and nothing is published from inside a goroutine; so a rejected
  merge leaves the log unchanged (C06).
* neither function removes blocks from the store (C17).
-/
namespace Model.EffectFacts

def effectsOf (f : String) : List String :=
  match Generated.effectOrder.find? (fun p => p.1 == f) with
  | some p => p.2
  | none => []

def isPublication (e : String) : Bool :=
  e == "Entries.Set" || e == "Next.Set" || e == "heads=" || e == "Entries=" || e == "Next=" ||
  e == "go:Entries.Set" || e == "go:Next.Set" || e == "go:heads=" || e == "go:Entries=" || e == "go:Next="

/-- everything before the first publication -/
def beforePublication (l : List String) : List String := l.takeWhile (fun e => !isPublication e)

#eval effectsOf "Append"
#eval effectsOf "Join"

theorem append_writes_and_checks_before_publishing :
    (beforePublication (effectsOf "Append")).contains "CreateEntryWithIO" = true ∧
    (beforePublication (effectsOf "Append")).contains "CanAppend" = true ∧
    (effectsOf "Append").any isPublication = true := by decide

theorem join_validates_before_publishing :
    (beforePublication (effectsOf "Join")).contains "go:CanAppend" = true ∧
    (beforePublication (effectsOf "Join")).contains "go:Verify" = true ∧
    (beforePublication (effectsOf "Join")).contains "Wait" = true ∧
    -- no validation after the first publication, nothing published from a goroutine
    ((effectsOf "Join").dropWhile (fun e => !isPublication e)).all
      (fun e => e != "go:CanAppend" && e != "go:Verify" && e != "CanAppend" && e != "Verify" &&
                !["go:Entries.Set", "go:Next.Set", "go:heads=", "go:Entries=", "go:Next=", "go:Store.Remove"].contains e) = true ∧
    (effectsOf "Join").any isPublication = true := by decide

theorem no_block_removal :
    (effectsOf "Append" ++ effectsOf "Join").all (fun e => e != "Store.Remove" && e != "go:Store.Remove") = true := by decide

end Model.EffectFacts
