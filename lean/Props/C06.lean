import Proofs.Admit
import Model.Sign
/-!
# C06 — merge admits only verified, authorised entries and is all-or-nothing

`join l otherId E H size valid` is the transcription of `Join` after its argument checks;
`valid e` abstracts `AccessController.CanAppend(e) = nil ∧ e.Verify(...) = nil` for a candidate
(the real outcome per candidate is what the harness feeds into `valid`).  The result type has two
outcomes: `.ok l'` or `.err`, the latter carrying no state — in the Go code every validation
(`CanAppend`, `Verify`, `wg.Wait()`) precedes the first write to `Next`/`Entries`/`heads`, which the
correspondence checks on every rejected join by comparing the full observation before and after.
-/
namespace Model.C06

/-- if any candidate is unsigned, mis-signed, lacks a key or is denied, the merge returns an error -/
theorem join_rejects (l : Log) (E H : List Entry) (size : Int) (valid : Entry → Bool)
    (hbad : ∃ e ∈ difference E H l, valid e = false) : join l l.id E H size valid = .err :=
  join_err_of_invalid l l.id E H size valid rfl hbad

/-- a merge adds an entry only if it carries the log's id and passed verification and access control
    (by hash: content addressing identifies the entry) — also for size-bounded merges -/
theorem join_admits (l : Log) (otherId : Bytes) (E H : List Entry) (size : Int) (valid : Entry → Bool)
    (hE : (hashes E).Nodup) (l' : Log) (hj : join l otherId E H size valid = .ok l') :
    ∀ e ∈ l'.entries, has l.entries e.hash = true ∨
      ∃ x ∈ E, x.hash = e.hash ∧ valid x = true ∧ x.logId = l.id :=
  join_admits_only_valid l otherId E H size valid hE l' hj

/-- every head of the merged log is such an entry as well (no head that was not admitted) -/
theorem join_heads_admitted (l : Log) (E H : List Entry) (valid : Entry → Bool) (hE : (hashes E).Nodup)
    (hv : (difference E H l).any (fun e => !valid e) = false) :
    ∀ e ∈ (joinMerge l E H).heads, Admitted l E valid e.hash :=
  (joinMerge_admitted l E H valid hE hv).2

/-- **no foreign object becomes a head** (repair 17): whatever entries and head OBJECTS the other log
    hands over — unverified, under hashes this log already holds, carrying other log ids, consistent or
    not — and whatever the bound, every head of the merged log is one of the entry objects the merged log
    holds (its own, or a candidate that was admitted), not merely an object with the hash of one. -/
theorem join_heads_are_held_entries (l l' : Log) (otherId : Bytes) (E H : List Entry) (size : Int) (valid : Entry → Bool)
    (hdh : ∀ x ∈ l.heads, x ∈ l.entries) (hj : join l otherId E H size valid = .ok l') :
    ∀ x ∈ l'.heads, x ∈ l'.entries := by
  unfold join at hj
  by_cases hid : l.id ≠ otherId
  · rw [if_pos hid] at hj
    cases hj
    exact hdh
  · rw [if_neg hid] at hj
    split at hj
    · cases hj
    · cases hj
      intro x hx
      show x ∈ (joinTrim (joinMerge l E H) size).entries
      have hx' : x ∈ (joinTrim (joinMerge l E H) size).heads := hx
      unfold joinTrim at hx' ⊢
      by_cases hs : size > -1
      · rw [if_pos hs] at hx' ⊢
        exact (mem_findHeads.mp (mem_omFromList hx')).1
      · rw [if_neg hs] at hx' ⊢
        have hm := (List.mem_filter.mp (mem_omFromList hx')).1
        rcases mem_omMerge ((mem_findHeads.mp hm).1) with h | h
        · exact foldl_omSet_subset _ _ _ (hdh x h)
        · obtain ⟨hd, _, hg⟩ := List.mem_filterMap.mp h
          exact (get?_mem hg).1

/-- a log of a different id is never merged -/
theorem join_other_id (l : Log) (otherId : Bytes) (E H : List Entry) (size : Int) (valid : Entry → Bool)
    (hid : l.id ≠ otherId) : join l otherId E H size valid = .ok l :=
  Model.join_other_id l otherId E H size valid hid

/-- an append the controller denies: the clock has advanced (log.go l.331) but entries and heads are
    unchanged -/
def appendDenied (l : Log) (pc : Int) : Log := { l with clock := (appendPlan l pc).clock }

theorem append_denied_unchanged (l : Log) (pc : Int) :
    (appendDenied l pc).entries = l.entries ∧ (appendDenied l pc).heads = l.heads ∧
    (appendDenied l pc).nextIdx = l.nextIdx := ⟨rfl, rfl, rfl⟩

/-! ### every entry produced by `Append` verifies, under every codec configuration

`CreateEntryWithIO` sets the key, runs the codec's `PreSign` (identity for the default codec, absent
for the legacy codec, link encryption otherwise), signs `toBuffer`, then sets signature, identity and
hash.  `Verify` runs the same `PreSign` on the finished entry and checks the signature over
`toBuffer`.  `PreSign` reads only (next, refs, key, payload, clock, log id, version) and writes only
the two additional-data values, so it commutes with setting the signature. -/

open Model.Json in
structure Codec where
  /-- `none`: the codec has no `PreSign` (legacy); `some f`: default (`f = id`) or link-encrypting -/
  preSign : Option (Hashable → Bytes → Hashable)   -- hashable fields and the entry key
  /-- what is signed does not depend on anything `PreSign` does not read -/
  idem : ∀ f, preSign = some f → ∀ h k, f (f h k) k = f h k

open Model.Json Model.Sign in
/-- the signed bytes of an entry with hashable fields `h` and key `k` under a codec -/
def signedBytes (c : Codec) (h : Hashable) (k : Bytes) : Bytes :=
  match c.preSign with
  | none => toBuffer h
  | some f => toBuffer (f h k)

open Model.Json Model.Sign in
/-- creation followed by verification: the entry stored after creation has the pre-signed fields;
    verification pre-signs again and checks the signature made at creation -/
theorem append_verifies (C : Crypto) (c : Codec) (sk : C.SK) (h : Hashable) (k : Bytes) :
    let created : Hashable := match c.preSign with | none => h | some f => f h k
    let sig := C.sign sk (signedBytes c h k)
    C.verify (C.pub sk) (signedBytes c created k) sig = true := by
  intro created sig
  have hb : signedBytes c created k = signedBytes c h k := by
    unfold signedBytes
    cases hp : c.preSign with
    | none => simp [created, hp]
    | some f => simp [created, hp, c.idem f hp h k]
  rw [hb]
  exact (C.verify_iff (C.pub sk) (signedBytes c h k) sig).mpr ⟨sk, rfl, rfl⟩

/-! non-vacuity -/
example : ∃ c : Codec, c.preSign = none := ⟨⟨none, by intro f h; cases h⟩, rfl⟩
example : ∃ c : Codec, ∃ f, c.preSign = some f := ⟨⟨some (fun h _ => h), by intro f h; cases h; intros; rfl⟩, _, rfl⟩

end Model.C06
