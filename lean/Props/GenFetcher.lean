import Generated.GenFetcher
import Props.GenCommon
import Props.C19Gen
/-!
# Props.GenFetcher — the fetcher's `updateClock` and `addNextEntry` (entry/fetcher.go) = `newMax`/`newMin`, `addNext`

`Generated/GenFetcher.lean` is produced on every run by `harness/cmd/extract/translate2.go` from the Go source; the
theorems identify it with the hand-written model the property theorems are about.
-/
namespace Model.SlicesGen
open Model Model.Go Model.Codec

theorem updateClock_eq {Q : Type} (add : Q → Hash → Q) (len : Int) (s : FState) (e : Entry) :
    Generated.Go.updateClock add len s.maxClock s.minClock e s.results.getLast? = (newMax s e, newMin s e) := by
  unfold Generated.Go.updateClock newMin newMax
  cases hl : s.results.getLast? with
  | none =>
    simp only [Option.isSome_none, Bool.false_eq_true, if_false]
    by_cases h : s.maxClock < e.clock.time <;> simp [h] <;> omega
  | some l =>
    simp only [Option.isSome_some, if_true, Option.getD_some]
    by_cases h : s.maxClock < e.clock.time <;> by_cases h2 : l.clock.time < s.minClock <;> simp [h, h2] <;> omega

theorem addHash_fields (cfg : FCfg) (s : FState) (h : Hash) :
    (addHash cfg s h).results = s.results ∧ (addHash cfg s h).minClock = s.minClock := by
  unfold addHash; split <;> exact ⟨rfl, rfl⟩

theorem addHashes_fields (cfg : FCfg) : ∀ (hs : List Hash) (s : FState),
    (addHashes cfg s hs).results = s.results ∧ (addHashes cfg s hs).minClock = s.minClock := by
  intro hs
  induction hs with
  | nil => intro s; exact ⟨rfl, rfl⟩
  | cons h t ih =>
    intro s
    have := ih (addHash cfg s h)
    have h2 := addHash_fields cfg s h
    unfold addHashes at *
    rw [List.foldl_cons]
    exact ⟨this.1.trans h2.1, this.2.trans h2.2⟩

theorem addNextEntry_eq (cfg : FCfg) (s : FState) (e : Entry) :
    Generated.Go.addNextEntry (addHash cfg) cfg.length s.maxClock s.minClock s e s.results = addNext cfg s e := by
  unfold Generated.Go.addNextEntry addNext
  by_cases h0 : cfg.length < 0
  · simp only [h0, decide_true, if_true]; rfl
  · simp only [h0, decide_false, Bool.false_eq_true, if_false]
    unfold queueRefs queueNext
    -- every atom of the two conditions, decided; `simp` then evaluates whatever boolean shape the code uses
    have hr : (List.foldl (addHash cfg) s e.next).results = s.results := (addHashes_fields cfg e.next s).1
    by_cases h1 : (s.results.length : Int) < cfg.length <;>
    by_cases h2 : e.clock.time ≥ s.minClock <;>
    by_cases h3 : (s.results.length : Int) + (e.refs.length : Int) ≤ cfg.length <;>
    simp [h1, h2, h3, hr, addHashes, Bool.or_assoc, gt_or_beq]

/-- the admission test of `processQueue` (with the minimum clock `updateClock` has just computed) is the model's
    `admits`, whatever boolean shape the code gives it -/
theorem admission_eq (cfg : FCfg) (s : FState) (e : Entry) :
    Generated.Go.admission cfg.length (newMin s e) (newMax s e) s.results e.clock.time = admits cfg s e := by
  unfold Generated.Go.admission admits
  by_cases h1 : cfg.length < 0 <;>
  by_cases h2 : (s.results.length : Int) < cfg.length <;>
  by_cases h3 : (s.results.length : Int) ≥ cfg.length <;>
  by_cases h4 : e.clock.time ≥ newMin s e <;>
  simp [h1, h2, h3, h4, gt_or_beq]

end Model.SlicesGen
