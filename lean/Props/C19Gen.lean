import Generated.Sorting
import Model.Sorting
/-!
# C19 / C03 — the comparison code of the library, translated, equals the model

`Generated/Sorting.lean` is produced on every run by `harness/cmd/extract/translate.go` from
`entry/lamportclock.go` (`LamportClock.Compare`), `entry/sorting/sorting.go` (`SortByClocks`,
`SortByClockID`, `First`, `LastWriteWins`, `FirstWriteWins`, `SortByEntryHash`, `NoZeroes`) and `log.go`
(`maxInt`, `minInt`): it is what the code *says*.  The theorems below identify it with the hand-written
`Model.Sorting` that every ordering theorem (C19, and through `before` C01–C05, C09, C10, C15, C16) is
about.  For these functions the tie between model and code is therefore a proof, not a sample: a change
of the code changes the generated definitions and the equalities are re-checked (a change outside the
translatable subset makes the generated file fail to elaborate).
-/
namespace Model.C19Gen
open Model

theorem clockCompare_eq (a b : Clock) : Generated.Go.clockCompare a b = clockCompare a b := rfl

theorem lastWriteWins_eq (a b : Entry) : Generated.Go.lastWriteWins a b = some (cmpLWW a b) := by
  simp only [Generated.Go.lastWriteWins, Generated.Go.sortByClocks, Generated.Go.sortByClockID,
    Generated.Go.first, cmpLWW, clockCompare_eq]
  by_cases h1 : clockCompare a.clock b.clock = 0
  · by_cases h2 : cmpBytes a.clock.id b.clock.id = 0 <;> simp [h1, h2]
  · simp [h1]

theorem firstWriteWins_eq (a b : Entry) : Generated.Go.firstWriteWins a b = some (cmpFWW a b) := by
  simp only [Generated.Go.firstWriteWins, lastWriteWins_eq, cmpFWW]

theorem sortByEntryHash_eq (a b : Entry) : Generated.Go.sortByEntryHash a b = some (cmpHash a b) := by
  simp only [Generated.Go.sortByEntryHash, Generated.Go.sortByClocks, Generated.Go.sortByClockID,
    cmpHash, clockCompare_eq]
  by_cases h1 : clockCompare a.clock b.clock = 0
  · by_cases h2 : cmpBytes a.clock.id b.clock.id = 0 <;> simp [h1, h2]
  · simp [h1]

/-- `NoZeroes`: an error stays an error, 0 becomes one -/
theorem noZeroes_eq (f : Entry → Entry → Option Int) (a b : Entry) :
    Generated.Go.noZeroes f a b = (f a b).bind (fun r => if r ≠ 0 then some r else none) := by
  simp only [Generated.Go.noZeroes]
  cases f a b <;> rfl

/-- the less-function `sorting.Sort(NoZeroes(f), _, true)` builds (`ret > 0`, `false` on an error) is the
    model's `before`, and the ascending one (`ret < 0`) its `beforeAsc`, for the three orderings -/
theorem sort_less_eq (a b : Entry) :
    (decide (((Generated.Go.noZeroes Generated.Go.lastWriteWins a b).getD 0) > 0) = before .lww a b) ∧
    (decide (((Generated.Go.noZeroes Generated.Go.firstWriteWins a b).getD 0) > 0) = before .fww a b) ∧
    (decide (((Generated.Go.noZeroes Generated.Go.sortByEntryHash a b).getD 0) > 0) = before .byHash a b) ∧
    (decide (((Generated.Go.noZeroes Generated.Go.lastWriteWins a b).getD 0) < 0) = beforeAsc .lww a b) ∧
    (decide (((Generated.Go.noZeroes Generated.Go.firstWriteWins a b).getD 0) < 0) = beforeAsc .fww a b) ∧
    (decide (((Generated.Go.noZeroes Generated.Go.sortByEntryHash a b).getD 0) < 0) = beforeAsc .byHash a b) := by
  simp only [noZeroes_eq, lastWriteWins_eq, firstWriteWins_eq, sortByEntryHash_eq, Option.bind_some, before, beforeAsc,
    SortKind.cmp]
  refine ⟨?_, ?_, ?_, ?_, ?_, ?_⟩ <;> (split <;> first | rfl | simp_all)

theorem maxInt_eq (x y : Int) : Generated.Go.maxInt x y = max x y := by
  simp only [Generated.Go.maxInt]; split <;> omega

theorem minInt_eq (x y : Int) : Generated.Go.minInt x y = min x y := by
  simp only [Generated.Go.minInt]; split <;> omega

end Model.C19Gen
