import Generated.GenAppend
import Props.GenCommon
import Proofs.OMap
import Props.GenTraverse
import Props.GenMisc
import Props.GenIterator
/-!
# Props.GenAppend — the plan of `Append` (log.go, from the lock to the creation of the entry) and `getEveryPow2`,
translated, are the model's `appendPlan` / `everyPow2`

The region computes the predecessors (`next`), the references (`refs`) and the new clock.  A three-clause `for`
loop is the initialisation followed by a `for cond` loop whose every iteration ends with the post statement; a
`break` in a `range` loop is a flag carried by the fold; `all.At(uint(i))` is `none` for a negative `i`.
`appendPlan_eq`: with the model's fuel the translated region returns the lists that `Entry.Copy` then
de-duplicates into the model's `appendPlan` (`appendPlan_model`), and the model's clock.  Hypotheses: no entry has
the empty hash; the traversal result is not longer than the log plus its heads (true of every reachable log:
its elements are distinct entries of the log — C03).
-/
namespace Model.SlicesGen
open Model Model.Go

/-- `getEveryPow2`, translated: the same recursion as the model's `everyPow2` (the code accumulates, the model conses) -/
theorem pow2_loop (all : List Entry) (md : Int) : ∀ (fuel : Nat) (acc : List Entry) (i : Int), 1 ≤ i →
    (Generated.Go.getEveryPow2_loop1 all md fuel (acc, i)).1 = acc ++ everyPow2 all md fuel i := by
  intro fuel
  induction fuel with
  | zero => intro acc i _; simp [Generated.Go.getEveryPow2_loop1, everyPow2]
  | succ fuel ih =>
    intro acc i hi
    unfold Generated.Go.getEveryPow2_loop1 everyPow2
    by_cases hc : i ≤ md
    · simp only [hc, decide_true, if_true, C19Gen.minInt_eq, Bool.not_true, Bool.or_false, Bool.and_true]
      -- the index: negative only for an empty map, where position 0 is empty too
      have hidx : (if decide (min ((all.length : Int) - 1) (i - 1) < 0) = true then none
            else all[(min ((all.length : Int) - 1) (i - 1)).toNat]?) = all[(min ((all.length : Int) - 1) (i - 1)).toNat]? := by
        by_cases hneg : min ((all.length : Int) - 1) (i - 1) < 0
        · have hl : all.length = 0 := by omega
          have : all = [] := List.eq_nil_of_length_eq_zero hl
          subst this; simp
        · simp [hneg]
      rw [hidx]
      cases hg : all[(min ((all.length : Int) - 1) (i - 1)).toNat]? with
      -- (the code may test `e == nil || !e.Defined()` and continue, or `e != nil && e.Defined()` and append)
      | none =>
        simp only [Option.isNone_none, Option.isSome_none, Bool.false_eq_true, if_true, if_false]
        exact ih acc (i * 2) (by omega)
      | some e =>
        simp only [Option.isNone_some, Option.isSome_some, Bool.false_eq_true, if_true, if_false, Option.getD_some]
        rw [ih (acc ++ [e]) (i * 2) (by omega)]
        simp
    · simp [hc]

theorem getEveryPow2_eq (fuel : Nat) (all : List Entry) (md : Int) :
    Generated.Go.getEveryPow2 fuel all md = everyPow2 all md fuel 1 := by
  unfold Generated.Go.getEveryPow2
  simp only
  rw [pow2_loop all md fuel [] 1 (by omega)]
  rfl

/-- enough fuel: any two such amounts give the same list -/
theorem everyPow2_fuel (all : List Entry) (md : Int) : ∀ (n : Nat) (f1 f2 : Nat) (i : Int), 1 ≤ i →
    (md + 1 - i).toNat < n → n ≤ f1 → n ≤ f2 → everyPow2 all md f1 i = everyPow2 all md f2 i := by
  intro n
  induction n with
  | zero => intro f1 f2 i _ h; omega
  | succ n ih =>
    intro f1 f2 i hi hm h1 h2
    cases f1 with
    | zero => omega
    | succ f1 =>
      cases f2 with
      | zero => omega
      | succ f2 =>
        unfold everyPow2
        by_cases hc : i ≤ md
        · simp only [hc, if_true]
          have key := ih f1 f2 (i * 2) (by omega) (by omega) (by omega) (by omega)
          rw [key]
        · simp [hc]

/-- the search for a reference among the predecessors (a loop with `break`): membership -/
theorem inNext_fold (r : Hash) : ∀ (next : List Hash) (b x : Bool), (b = true → x = true) →
    (next.foldl (fun (p : Bool × Bool) n => if p.1 = true then (p.1, p.2) else if (r == n) = true then (true, true) else (p.1, p.2)) (b, x)).2 =
      (x || next.contains r) := by
  intro next
  induction next with
  | nil => intro b x _; simp
  | cons n t ih =>
    intro b x hbx
    simp only [List.foldl_cons, List.contains_cons]
    cases hb : b with
    | true =>
      have hx := hbx hb
      simp only [if_true]
      rw [ih true x (fun _ => hx), hx]; simp
    | false =>
      simp only [Bool.false_eq_true, if_false]
      cases hr : (r == n) with
      | true => simp only [if_true]; rw [ih true true (fun _ => rfl)]; simp
      | false => simp only [Bool.false_eq_true, if_false]; rw [ih false x (fun h => by cases h)]; simp

theorem next_fold (heads : List Entry) : ∀ (acc : List Hash),
    heads.foldl (fun next h => [h.hash] ++ next) acc = (heads.map (·.hash)).reverse ++ acc := by
  induction heads with
  | nil => intro acc; rfl
  | cons h t ih => intro acc; simp only [List.foldl_cons, ih]; simp

theorem refs_fold (next : List Hash) : ∀ (refs : List Entry) (acc : List Hash),
    refs.foldl (fun acc r => if (!next.contains r.hash) = true then acc ++ [r.hash] else acc) acc =
      acc ++ (refs.map (·.hash)).filter (fun r => !next.contains r) := by
  intro refs
  induction refs with
  | nil => intro acc; simp
  | cons r t ih =>
    intro acc
    simp only [List.foldl_cons, List.map_cons, List.filter_cons]
    by_cases hc : (!next.contains r.hash) = true
    · simp only [hc, if_true]; rw [ih]; simp
    · simp only [hc, Bool.false_eq_true, if_false]; rw [ih]

theorem last_index (all : List Entry) :
    (if decide ((all.length : Int) - 1 < 0) = true then none else all[((all.length : Int) - 1).toNat]?) = all.getLast? := by
  cases all with
  | nil => rfl
  | cons a t =>
    have h0 : ¬ ((((a :: t).length : Int)) - 1 < 0) := by simp only [List.length_cons]; omega
    have h1 : (((a :: t).length : Int) - 1).toNat = (a :: t).length - 1 := by omega
    rw [if_neg (by simpa using h0), h1, List.getLast?_eq_getElem?]

/-- the predecessors and references `Append` computes before `Entry.Copy` de-duplicates them -/
def planNextRaw (l : Log) : List Hash := ((sortedHeads l).map (·.hash)).reverse

def planRefsRaw (l : Log) (pcOpt : Int) : List Hash :=
  let heads := sortedHeads l
  let pc : Int := if pcOpt ≠ 0 then pcOpt else 1
  let all := traverseG l.entries (before l.sortFn) heads (max pc heads.length) none
  let refs0 := everyPow2 all (min pc all.length) (all.length + 2) 1
  let refs1 := if (all.length : Int) < pc then
      (match all.getLast? with | some r => refs0 ++ [r] | none => refs0) else refs0
  (refs1.map (·.hash)).filter (fun r => !(planNextRaw l).contains r)

theorem appendPlan_model (l : Log) (pcOpt : Int) :
    appendPlan l pcOpt = { next := dedupHashes (planNextRaw l) [], refs := dedupHashes (planRefsRaw l pcOpt) [],
                           clock := { id := l.clock.id, time := max l.clock.time (maxTime (sortedHeads l) 0) + 1 } } := rfl

/-- **the plan of `Append`, translated** (log.go, from the lock to the creation of the entry): with the model's
    fuel it computes the model's predecessors, references and clock -/
theorem appendPlan_eq (l : Log) (pcOpt : Int)
    (hE : ∀ e ∈ l.entries, e.hash ≠ []) (hH : ∀ e ∈ l.heads, e.hash ≠ [])
    (hlen : (traverseG l.entries (before l.sortFn) (sortedHeads l)
              (max (if pcOpt ≠ 0 then pcOpt else 1) (sortedHeads l).length) none).length + 1 ≤
            traverseFuel l.entries (sortedHeads l)) :
    Generated.Go.appendPlan (traverseFuel l.entries (sortedHeads l)) l.entries (before l.sortFn) l.heads
        l.clock.id l.clock.time pcOpt =
      some (planNextRaw l, planRefsRaw l pcOpt, l.clock.id, max l.clock.time (maxTime (sortedHeads l) 0) + 1) := by
  unfold Generated.Go.appendPlan
  have hsh : Generated.Go.sortedHeads l.entries (before l.sortFn) l.heads = sortedHeads l := rfl
  have hSH : ∀ e ∈ sortedHeads l, e.hash ≠ [] := by
    intro e he
    unfold sortedHeads omFromList at he
    rcases foldl_omSet_mem _ [] e he with h | h
    · cases h
    · exact hH e (mem_goSort.mp h)
  have hpc : (if (pcOpt != 0) = true then pcOpt else (1 : Int)) = (if pcOpt ≠ 0 then pcOpt else 1) := by
    by_cases h : pcOpt = 0 <;> simp [h]
  simp only [hsh, hpc, maxClockTimeForEntries_eq, C19Gen.maxInt_eq, C19Gen.minInt_eq, getEveryPow2_eq, last_index]
  generalize hPC : (if pcOpt ≠ 0 then pcOpt else (1 : Int)) = pc at *
  -- the traversal: `""` as end hash is `none`
  have htr := traverse_eq l.entries (before l.sortFn) (sortedHeads l) (max pc ((sortedHeads l).length : Int)) none
    (fun _ => ⟨hE, hSH⟩)
  simp only [Option.getD_none] at htr
  rw [htr]
  simp only
  generalize hall : traverseG l.entries (before l.sortFn) (sortedHeads l) (max pc ((sortedHeads l).length : Int)) none = all at *
  -- enough fuel for the doubling loop
  have hf : everyPow2 all (min pc (all.length : Int)) (traverseFuel l.entries (sortedHeads l)) 1 =
      everyPow2 all (min pc (all.length : Int)) (all.length + 2) 1 :=
    everyPow2_fuel all _ (all.length + 1) _ _ 1 (by omega) (by omega) hlen (by omega)
  rw [hf]
  unfold planRefsRaw planNextRaw
  simp only [hPC, hall]
  have hnext : List.foldl (fun next (h : Entry) => [h.hash] ++ next) [] (sortedHeads l) =
      (List.map (fun x => x.hash) (sortedHeads l)).reverse := by
    rw [next_fold]; simp
  have hin : ∀ (r : Entry) (next : List Hash),
      (List.foldl (fun (x : Bool × Bool) n =>
          if x.fst = true then (x.fst, x.snd) else if (r.hash == n) = true then (true, true) else (x.fst, x.snd))
        (false, false) next).snd = next.contains r.hash := by
    intro r next
    rw [inNext_fold r.hash next false false (fun h => by cases h)]; simp
  have hrefs1 : (if decide ((all.length : Int) < pc) = true then
        if all.getLast?.isSome = true then everyPow2 all (min pc ↑all.length) (all.length + 2) 1 ++ [all.getLast?.getD default]
        else everyPow2 all (min pc ↑all.length) (all.length + 2) 1
      else everyPow2 all (min pc ↑all.length) (all.length + 2) 1) =
      (if (all.length : Int) < pc then
        match all.getLast? with
        | some r => everyPow2 all (min pc ↑all.length) (all.length + 2) 1 ++ [r]
        | none => everyPow2 all (min pc ↑all.length) (all.length + 2) 1
      else everyPow2 all (min pc ↑all.length) (all.length + 2) 1) := by
    by_cases hc : (all.length : Int) < pc
    · simp only [hc, decide_true, if_true]
      cases all.getLast? <;> rfl
    · simp only [hc, decide_false, Bool.false_eq_true, if_false]
  -- (the search among the predecessors may be the loop with `break` or an extracted helper with an early return)
  simp only [gohelper, search_true, List.any_beq, hnext, hin, hrefs1]
  rw [refs_fold]
  simp

/-! ### The tail of `Append`: publication of the created entry -/

theorem dedupHashes_eq_foldl (l : List Hash) : ∀ (acc : List Hash), dedupHashes l acc = l.foldl hsSet acc := by
  induction l with
  | nil => intro acc; rfl
  | cons h t ih =>
    intro acc
    rw [dedupHashes, List.foldl_cons]
    unfold hsSet
    by_cases hc : acc.contains h = true
    · simp only [hc, if_true]; exact ih acc
    · simp only [hc, Bool.false_eq_true, if_false]; exact ih _

theorem hsSet_of_mem {x : List Hash} {h : Hash} (hm : h ∈ x) : hsSet x h = x := by
  show (if x.contains h = true then x else x ++ [h]) = x
  rw [if_pos (List.contains_iff_mem.mpr hm)]

theorem foldl_hsSet_foldl (s : List Hash) (l : List Hash) : ∀ (a : List Hash),
    (l.foldl hsSet a).foldl hsSet s = l.foldl hsSet (a.foldl hsSet s) := by
  induction l with
  | nil => intro a; rfl
  | cons h t ih =>
    intro a
    rw [List.foldl_cons, List.foldl_cons, ih]
    congr 1
    by_cases hc : a.contains h = true
    · have hm : h ∈ a.foldl hsSet s := (mem_foldl_hsSet a s h).mpr (Or.inr (List.contains_iff_mem.mp hc))
      have h1 : hsSet a h = a := hsSet_of_mem (List.contains_iff_mem.mp hc)
      have h2 : hsSet (a.foldl hsSet s) h = a.foldl hsSet s := hsSet_of_mem hm
      rw [h1, h2]
    · have h1 : hsSet a h = a ++ [h] := by unfold hsSet; simp only [hc, Bool.false_eq_true, if_false]
      rw [h1, List.foldl_append]
      rfl

/-- **the tail of `Append`, translated, is the model's `appendApply`** — for the entry `CreateEntryWithIO` returns,
    whose predecessor list is the de-duplicated `next` (`Entry.Copy`, `uniqueCIDs_eq`) -/
theorem appendTail_eq (l : Log) (e : Entry) (next : List Hash) (he : e.next = dedupHashes next []) :
    Generated.Go.appendTail l.entries l.nextIdx l.heads e next =
      some ((appendApply l e).entries, (appendApply l e).nextIdx, (appendApply l e).heads) := by
  unfold Generated.Go.appendTail appendApply
  simp only [setInsert_eq_hsSet', he, dedupHashes_eq_foldl, foldl_hsSet_foldl]
  rfl

end Model.SlicesGen
