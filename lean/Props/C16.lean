import Proofs.Iterator
/-!
# C16 — a size-bounded merge keeps exactly the newest entries of the full merge

`join A B.id B.entries B.heads n` with `n ≥ 0`, for replicas of one log satisfying the invariant
(every reachable replica does).  The result type of `join` has no panic outcome; a panic of the Go
function is an outcome the harness records (`SPEC C16 joinNoPanic`).
-/
namespace Model.C16

/-- the state a bounded join leaves -/
def joinN (A B : Log) (n : Int) : Log := joinClock (joinTrim (joinMerge A B.entries B.heads) n)

theorem join_bounded_eq (A B : Log) (hid : A.id = B.id) (n : Int) :
    join A B.id B.entries B.heads n = .ok (joinN A B n) := by
  unfold join
  simp [hid, joinN]

/-- `values` only looks at entries, heads and the ordering -/
theorem values_congr {l₁ l₂ : Log} (he : l₁.entries = l₂.entries) (hh : l₁.heads = l₂.heads)
    (hs : l₁.sortFn = l₂.sortFn) : values l₁ = values l₂ := by
  unfold values; rw [he, hh, hs]

theorem values_merge_eq (A B : Log) : values (joinMerge A B.entries B.heads) = values (joinU A B) :=
  values_congr rfl rfl rfl

theorem joinN_entries_eq (A B : Log) (n : Int) (hn : n > -1) :
    (joinN A B n).entries = omFromList (keepLast n (values (joinU A B))) := by
  show (joinTrim (joinMerge A B.entries B.heads) n).entries = _
  unfold joinTrim
  simp only [hn, if_true, values_merge_eq]

theorem joinN_heads_eq (A B : Log) (n : Int) (hn : n > -1) :
    (joinN A B n).heads = omFromList (findHeads (joinN A B n).entries) := by
  rw [joinN_entries_eq A B n hn]
  show (joinTrim (joinMerge A B.entries B.heads) n).heads = _
  unfold joinTrim
  simp only [hn, if_true, values_merge_eq]

/-- the kept entries are exactly the last `min n total` values of the unbounded merge's linearisation -/
theorem bounded_entries {U : List Entry} (hU : (hashes U).Nodup) {A B : Log} (IA : Inv U A) (IB : Inv U B)
    (hid : A.id = B.id) (ho : OrderOk A.sortFn (joinU A B).entries) (n : Int) (hn : 0 ≤ n) :
    (joinN A B n).entries = (values (joinU A B)).drop ((values (joinU A B)).length - n.toNat) := by
  have IJ := inv_join hU IA IB hid
  have hvn : (hashes (values (joinU A B))).Nodup := by
    have hp := values_perm IJ ho
    unfold hashes
    exact (hp.map _).nodup_iff.mpr (by simpa [hashes] using IJ.nodup)
  rw [joinN_entries_eq A B n (by omega)]
  unfold keepLast
  split
  · rename_i hlt
    apply omFromList_eq_self
    unfold hashes at *
    exact (List.Sublist.map _ (List.drop_sublist _ _)).nodup hvn
  · rename_i hge
    rw [omFromList_eq_self hvn]
    have : (values (joinU A B)).length - n.toNat = 0 := by omega
    rw [this]; rfl

/-- its heads are the unreferenced entries among the kept ones -/
theorem bounded_heads (A B : Log) (n : Int) (hn : n > -1) (x : Entry) :
    x ∈ (joinN A B n).heads ↔ x ∈ (joinN A B n).entries ∧ ¬ namedBy (joinN A B n).entries x.hash := by
  have hnd : (hashes (findHeads (joinN A B n).entries)).Nodup := by
    apply findHeads_nodup
    rw [joinN_entries_eq A B n hn]
    exact omFromList_nodup _
  rw [joinN_heads_eq A B n hn, mem_omFromList_of_nodup hnd, mem_findHeads]

/-- a bound at least as large as the merged size behaves like the unbounded merge -/
theorem bound_beyond_total {U : List Entry} (hU : (hashes U).Nodup) {A B : Log} (IA : Inv U A) (IB : Inv U B)
    (hid : A.id = B.id) (ho : OrderOk A.sortFn (joinU A B).entries) (n : Int)
    (hn : ((joinU A B).entries.length : Int) ≤ n) (hn0 : 0 ≤ n) :
    (∀ x, x ∈ (joinN A B n).entries ↔ x ∈ (joinU A B).entries) ∧
    (∀ x, x ∈ (joinN A B n).heads ↔ x ∈ (joinU A B).heads) := by
  have IJ := inv_join hU IA IB hid
  have hp := values_perm IJ ho
  have hlen : (values (joinU A B)).length = (joinU A B).entries.length := hp.length_eq
  have hE : ∀ x, x ∈ (joinN A B n).entries ↔ x ∈ (joinU A B).entries := by
    intro x
    rw [bounded_entries hU IA IB hid ho n (by omega)]
    have : (values (joinU A B)).length - n.toNat = 0 := by omega
    rw [this, List.drop_zero]
    exact hp.mem_iff
  refine ⟨hE, ?_⟩
  intro x
  rw [bounded_heads A B n (by omega)]
  have hn' : ∀ h, namedBy (joinN A B n).entries h ↔ namedBy (joinU A B).entries h := by
    intro h
    constructor
    · exact namedBy_mono (fun e he => (hE e).mp he)
    · exact namedBy_mono (fun e he => (hE e).mpr he)
  rw [hE, hn']
  exact ⟨fun ⟨h1, h2⟩ => IJ.headsSpec x h1 h2, fun h => ⟨IJ.headsIn x h, IJ.headsUnref x h⟩⟩

end Model.C16
