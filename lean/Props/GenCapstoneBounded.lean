import Props.GenJoin
import Props.GenJoinTail
import Props.C16
/-!
# Props.GenCapstoneBounded — the C16 statement about the TRANSLATED, size-bounded `Join`

On two replicas of one log that satisfy the structural invariant, for every bound `n ≥ 0` the translated tail of
`Join` (applied to the translated `difference`) returns — without panicking in the slice expression of the cap —
a state whose entries are exactly the last `min n total` values of the unbounded merge's linearisation and whose
heads are exactly the unreferenced entries among those.
-/
namespace Model.Capstone
open Model Model.Go Model.SlicesGen Model.C16

theorem translated_join_bounded {U : List Entry} (hU : (hashes U).Nodup) {A B : Log} (IA : Inv U A) (IB : Inv U B)
    (hid : A.id = B.id) (ho : OrderOk A.sortFn (joinU A B).entries) (n : Int) (hn : 0 ≤ n) :
    ∃ (cands E' : List Entry) (N' : List Hash) (H' : List Entry) (t : Int),
      Generated.Go.logDifference (diffFuel B.entries B.heads) B.entries B.heads A.entries A.id = some cands ∧
      Generated.Go.joinTail (fun E H => values { A with entries := E, heads := H })
        A.entries A.nextIdx A.heads A.clock.id A.clock.time cands B.heads n = some (A.clock.id, t, E', N', H') ∧
      E' = (values (joinU A B)).drop ((values (joinU A B)).length - n.toNat) ∧
      (∀ x, x ∈ H' ↔ x ∈ E' ∧ ¬ namedBy E' x.hash) := by
  refine ⟨difference B.entries B.heads A, (joinN A B n).entries, (joinN A B n).nextIdx, (joinN A B n).heads,
    (joinN A B n).clock.time, logDifference_eq B.entries B.heads A, ?_, bounded_entries hU IA IB hid ho n hn,
    fun x => bounded_heads A B n (by omega) x⟩
  have hcid : (joinN A B n).clock.id = A.clock.id := by
    unfold joinN joinClock joinTrim; split <;> rfl
  rw [joinTail_eq A B.entries B.heads n]
  show some ((joinN A B n).clock.id, _, _, _, _) = _
  rw [hcid]
  rfl

end Model.Capstone
