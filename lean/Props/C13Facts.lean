import Generated.Facts
/-!
# C13 / C14 — the lock discipline of the Go code, from the regenerated facts

`Generated/Facts.lean` is rewritten from the Go AST (`harness/cmd/extract`) before every check.  The
obligations below are what ties the well-bracketedness hypothesis (`Model.Conc.wb`, `Init`) of the
theorems in `Props/C13.lean`, `Props/C14.lean` to the code as it is:

* `lockFacts_guarded` — every access to a mutable field of a log is made holding that log's lock;
  writes (assignments and in-place mutations `Set`, …) hold the write lock.
* `no_acquire_while_holding` — no function calls a locking method of ANY log, or takes a lock, while
  it holds a log lock (C14: no lock-order cycles, hence `cross_join_deadlock_free`).
* `lockFacts_cover` — the table is not empty by accident: the functions the model has programs for
  all occur in it.

A mutation that drops a lock or calls a locked accessor under the lock flips one of them, `decide`
fails and prints the table with the offending row.
-/
namespace Model.C13

/-- reads need the read or the write lock, writes the write lock -/
def guarded (a : String × String × String × String) : Bool :=
  if a.2.2.1 == "write" then a.2.2.2 == "W"
  else a.2.2.1 == "read" && (a.2.2.2 == "R" || a.2.2.2 == "W")

/-- the offending rows (printed by the build; `[]` when the discipline holds) -/
def unguardedRows : List (String × String × String × String) := Generated.lockFacts.filter (fun a => !guarded a)

#eval unguardedRows
#eval Generated.acquireWhileHolding

theorem lockFacts_guarded : Generated.lockFacts.all guarded = true := by decide

theorem no_acquire_while_holding : Generated.acquireWhileHolding = [] := by decide

/-- the functions that have a program in `Model.Conc` -/
def modelled : List String :=
  ["Append", "Join", "SetIdentity", "Values", "Heads", "RawHeads", "Get", "Has", "Len", "ToSnapshot",
   "ToJSONLog", "GetEntries", "Iterator", "ToMultihash"]

/-- every modelled function takes a log lock (itself or through a call) -/
theorem lockingMethods_cover : modelled.all (fun f => Generated.lockingMethods.contains f) = true := by decide

/-- and the mutating ones are seen writing under the lock -/
theorem lockFacts_cover :
    ["Append", "Join", "SetIdentity"].all (fun f =>
      Generated.lockFacts.any (fun a => a.1 == f && a.2.2.1 == "write" && a.2.2.2 == "W")) = true ∧
    ["Entries", "heads", "Next", "Clock", "Identity"].all (fun f => Generated.mutableFields.contains f) = true := by
  decide

/-- the predicate is not vacuous: an unlocked read and a write under the read lock are rejected -/
example : guarded ("toMultihash", "heads", "read", "none") = false := by decide
example : guarded ("Join", "heads", "write", "R") = false := by decide
example : guarded ("Len", "Entries", "read", "R") = true := by decide

end Model.C13
