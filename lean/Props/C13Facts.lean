import Generated.Facts
import Model.Conc
/-!
# C13 / C14 — the lock discipline of the Go code, from the regenerated facts

`Generated/Facts.lean` is rewritten from the Go AST (`harness/cmd/extract`) before every check.  The
obligations below are what ties the well-bracketedness hypothesis (`Model.Conc.wb`, `Init`) of the
theorems in `Props/C13.lean`, `Props/C14.lean` to the code as it is:

* `lockFacts_guarded` — every access to a mutable field of a log is made holding that log's lock;
  writes (assignments and in-place mutations `Set`, …) hold the write lock.
* `no_acquire_while_holding` — no function calls a locking method of ANY log, or takes a lock, while
  it holds a log lock (C14: no lock-order cycles, hence `cross_join_deadlock_free`).
* `lockFacts_cover` — the table is not empty by accident: the functions the model has programs for
  all occur in it.

A mutation that drops a lock or calls a locked accessor under the lock flips one of them, `decide`
fails and prints the table with the offending row.
-/
namespace Model.C13

/-- reads need the read or the write lock, writes the write lock -/
def guarded (a : String × String × String × String) : Bool :=
  if a.2.2.1 == "write" then a.2.2.2 == "W"
  else a.2.2.1 == "read" && (a.2.2.2 == "R" || a.2.2.2 == "W")

/-- the offending rows (printed by the build; `[]` when the discipline holds) -/
def unguardedRows : List (String × String × String × String) := Generated.lockFacts.filter (fun a => !guarded a)

#eval unguardedRows
#eval Generated.acquireWhileHolding

theorem lockFacts_guarded : Generated.lockFacts.all guarded = true := by decide

theorem no_acquire_while_holding : Generated.acquireWhileHolding = [] := by decide

/-- the functions that have a program in `Model.Conc` -/
def modelled : List String :=
  ["Append", "Join", "SetIdentity", "Values", "Heads", "RawHeads", "Get", "Has", "Len", "ToSnapshot",
   "ToJSONLog", "GetEntries", "Iterator", "ToMultihash"]

/-- every modelled function takes a log lock (itself or through a call) -/
theorem lockingMethods_cover : modelled.all (fun f => Generated.lockingMethods.contains f) = true := by decide

/-- and the mutating ones are seen writing under the lock -/
theorem lockFacts_cover :
    ["Append", "Join", "SetIdentity"].all (fun f =>
      Generated.lockFacts.any (fun a => a.1 == f && a.2.2.1 == "write" && a.2.2.2 == "W")) = true ∧
    ["Entries", "heads", "Next", "Clock", "Identity"].all (fun f => Generated.mutableFields.contains f) = true := by
  decide

/-- the predicate is not vacuous: an unlocked read and a write under the read lock are rejected -/
example : guarded ("toMultihash", "heads", "read", "none") = false := by decide
example : guarded ("Join", "heads", "write", "R") = false := by decide
example : guarded ("Len", "Entries", "read", "R") = true := by decide

/-! ## the programs of `Model.Conc` are the lock structure of the code

`Generated.lockShape` is, for every API method, the sequence of lock operations, hook points, channel
sends and closes on the function's main path (the path without early return), with calls to other
locking methods inlined (`harness/cmd/extract/lockshape.go`).  The obligations below are **derived**:
the right-hand sides are computed from the model's programs, not written down.  A change that adds a
second bracket (a torn composite read), reads state through a locking accessor before taking the write
lock, keeps the lock across the channel sends, or moves a read of the other log under the own lock
changes the left-hand side. -/

open Model.Conc in
def hookStr : Hook → String
  | .opStart => "op.start"
  | .appendEnter => "append.enter"
  | .appendLocked => "append.locked"
  | .appendPublish => "append.publish"
  | .joinEnter => "join.enter"
  | .joinHeadsRead => "join.heads-read"
  | .joinEntriesRead => "join.entries-read"
  | .joinLocked => "join.locked"
  | .joinPublish => "join.publish"
  | .iteratorLocked => "iterator.locked"

open Model.Conc in
/-- the event of an instruction as the extractor names it; `self` is the receiver's log.  Data accesses
    and the harness' own start point have no counterpart in the shape. -/
def evOf (self : Lid) : Instr → Option String
  | .rlock l => some (if l = self then "RLock(l)" else "RLock(o)")
  | .runlock l => some (if l = self then "RUnlock(l)" else "RUnlock(o)")
  | .lock l => some (if l = self then "Lock(l)" else "Lock(o)")
  | .unlock l => some (if l = self then "Unlock(l)" else "Unlock(o)")
  | .hook .opStart => none
  | .hook p => some ("hook:" ++ hookStr p)
  | _ => none

open Model.Conc in
def progShape (self : Lid) (p : List Instr) : List String := p.filterMap (evOf self)

def codeShape (m : String) : List String :=
  match Generated.lockShape.find? (·.1 == m) with
  | some p => p.2
  | none => ["<no such method>"]

/-- the same without the channel events (the model's `Iterator` ends when the result is collected) -/
def lockOnly (l : List String) : List String := l.filter (fun e => e != "send" && e != "close")

open Model.Conc in
theorem shape_append : codeShape "Append" = progShape 0 (appendProg 0 1 [] 0) := by decide
open Model.Conc in
theorem shape_join : codeShape "Join" = progShape 0 (joinProg 0 1 [] (-1)) := by decide
open Model.Conc in
theorem shape_setIdentity : codeShape "SetIdentity" = progShape 0 (setIdentityProg 0 []) := by decide
open Model.Conc in
/-- one read bracket each: no composite read is torn -/
theorem shape_readers :
    ["Values", "Get", "Has", "Len", "GetEntries", "ToSnapshot"].all (fun m => codeShape m == progShape 0 (readerProg 0)) = true ∧
    ["Heads", "RawHeads", "ToJSONLog"].all (fun m => codeShape m == progShape 0 (headsProg 0)) = true := by decide
open Model.Conc in
theorem shape_toMultihash : codeShape "ToMultihash" = progShape 0 (toMultihashProg 0) := by decide
open Model.Conc in
theorem shape_iterator : lockOnly (codeShape "Iterator") = progShape 0 (iteratorProg 0) := by decide
/-- `Iterator` sends and closes only after it has released the lock, and takes no lock afterwards -/
theorem iterator_sends_after_unlock :
    ((codeShape "Iterator").takeWhile (· != "RUnlock(l)")).all (fun e => e != "send" && e != "close") = true ∧
    ((codeShape "Iterator").dropWhile (· != "RUnlock(l)")).drop 1 = ["send", "close"] := by decide

end Model.C13
