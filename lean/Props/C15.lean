import Proofs.Iterator
/-!
# C15 — iteration returns the requested causal range, newest first, and always ends

Theorems about `Model.iterator`, the transcription of `IPFSLog.Iterator` (log.go).  The result type has
three outcomes (`ok out closed`, `errLTE`, `errLT`); the Go function has a fourth possible outcome,
a panic, which the harness records and compares (`SPEC C15 noPanic`).  The traversal-free range
specification `Model.iterSpec` is evaluated against every implementation call by the driver.
-/
namespace Model.C15

/-- on success the output channel is always closed — also when the amount is zero or exceeds what is
    available -/
theorem success_closes (l : Log) (o : IterOpts) (out : List Entry) (c : Bool)
    (h : iterator l o = .ok out c) : c = true := by
  unfold iterator at h
  split at h
  · cases h; rfl
  · split at h
    · cases h
    · cases h
    · cases h; rfl

theorem amount_zero (l : Log) (o : IterOpts) (h : o.amount = some 0) : iterator l o = .ok [] true := by
  unfold iterator; simp [h]

/-- an unknown inclusive upper bound is reported as an error (the channel is not touched: the only
    outcome that closes it is `ok`) -/
theorem unknown_lte_is_error (l : Log) (o : IterOpts) (cs : List Hash) (ha : o.amount ≠ some 0)
    (hl : o.lte = some cs) (hu : ∃ c ∈ cs, has l.entries c = false) : iterator l o = .errLTE := by
  unfold iterator iterStart
  simp only [ha, if_false, hl, lookupAll_none hu]

/-- an unknown exclusive upper bound likewise -/
theorem unknown_lt_is_error (l : Log) (o : IterOpts) (c : Hash) (ha : o.amount ≠ some 0)
    (hl : o.lte = none) (hlt : o.lt = some [c]) (hu : has l.entries c = false) : iterator l o = .errLT := by
  unfold iterator iterStart
  have : get? l.entries c = none := get?_none_iff.mpr hu
  simp only [ha, if_false, hl, hlt, ltStart, this]

theorem iterStart_mem {U : List Entry} {l : Log} (I : Inv U l) (o : IterOpts) (start : List Entry)
    (h : iterStart l o = .ok start) : ∀ x ∈ start, x ∈ l.entries := by
  have hheads : ∀ x ∈ sortedHeads l, x ∈ l.entries :=
    fun x hx => I.headsIn x ((mem_sortedHeads I.headsNodup).mp hx)
  unfold iterStart at h
  split at h
  · split at h
    · rename_i s hs; cases h; exact lookupAll_mem hs
    · cases h
  · split at h
    · split at h
      · rename_i s hs; cases h; exact ltStart_mem hheads hs
      · cases h
    · cases h; exact hheads

theorem iterDropGt_subset (o : IterOpts) (ents : List Entry) : ∀ x ∈ iterDropGt o ents, x ∈ ents := by
  intro x hx
  unfold iterDropGt at hx
  split at hx
  · exact List.dropLast_subset _ hx
  · exact hx

theorem iterKeepLast_subset (o : IterOpts) (ents : List Entry) : ∀ x ∈ iterKeepLast o ents, x ∈ ents := by
  intro x hx
  unfold iterKeepLast at hx
  split at hx
  · exact List.mem_of_mem_drop hx
  · exact hx

theorem iterTrim_subset (o : IterOpts) (ents : List Entry) : ∀ x ∈ iterTrim o ents, x ∈ ents :=
  fun x hx => iterDropGt_subset o ents x (iterKeepLast_subset o _ x hx)

/-- everything that is emitted is an entry of the log -/
theorem emits_entries {U : List Entry} {l : Log} (I : Inv U l) (o : IterOpts) (out : List Entry) (c : Bool)
    (h : iterator l o = .ok out c) : ∀ x ∈ out, x ∈ l.entries := by
  unfold iterator at h
  split at h
  · cases h; intro x hx; cases hx
  · split at h
    · cases h
    · cases h
    · rename_i start hstart
      cases h
      intro x hx
      exact traverseG_subset l.entries (before l.sortFn) (omFromList start) _ _
        (fun y hy => iterStart_mem I o start hstart y (mem_omFromList hy)) x (iterTrim_subset o _ x hx)

theorem iterKeepLast_length_le (o : IterOpts) (ents : List Entry) : (iterKeepLast o ents).length ≤ ents.length := by
  unfold iterKeepLast
  split
  · rw [List.length_drop]; omega
  · exact Nat.le_refl _

theorem iterTrim_length_le (o : IterOpts) (ents : List Entry) : (iterTrim o ents).length ≤ ents.length := by
  unfold iterTrim
  refine Nat.le_trans (iterKeepLast_length_le o _) ?_
  unfold iterDropGt
  split
  · simp
  · exact Nat.le_refl _

/-- with an amount at most that many entries are emitted -/
theorem at_most_amount (l : Log) (o : IterOpts) (a : Int) (ha : o.amount = some a) (h0 : 0 ≤ a)
    (out : List Entry) (c : Bool) (h : iterator l o = .ok out c) : out.length ≤ a.toNat := by
  unfold iterator at h
  split at h
  · cases h; simp
  · split at h
    · cases h
    · cases h
    · rename_i start _
      cases h
      have hA : iterAmount o = a := by simp [iterAmount, ha]
      by_cases hlow : iterEnd o = none
      · -- no lower bound: the traversal itself is limited
        have hcnt : iterCount o = a := by simp [iterCount, hlow, ha, hA]
        rw [hcnt, hlow]
        refine Nat.le_trans (iterTrim_length_le o _) ?_
        have := travLoop_length l.entries (before l.sortFn) a none h0
          (traverseFuel l.entries (omFromList start)) (goSort (before l.sortFn) (omFromList start)) [] [] 0 h0
        simpa [traverseG] using this
      · -- a lower bound: the part nearest to it is kept
        have hor : (o.gt.isSome = true ∨ o.gte.isSome = true) := by
          unfold iterEnd at hlow
          cases hg : o.gte with
          | some x => simp
          | none =>
            rw [hg] at hlow
            cases hgt : o.gt with
            | some y => simp
            | none => rw [hgt] at hlow; exact absurd rfl hlow
        unfold iterTrim iterKeepLast
        rw [hA]
        split
        · rw [List.length_drop]; omega
        · rename_i hc
          have : ¬ (a > -1 ∧ a < ((iterDropGt o (traverseG l.entries (before l.sortFn) (omFromList start) (iterCount o) (iterEnd o))).length : Int)) :=
            fun hh => hc ⟨hor, hh.1, hh.2⟩
          omega

/-- the default iteration (no bounds, no amount) is the whole linearisation, newest first -/
theorem default_is_reverse_values {U : List Entry} {l : Log} (I : Inv U l) (ho : OrderOk l.sortFn l.entries) :
    iterator l {} = .ok (values l).reverse true := by
  have hnd := sortedHeads_nodup I.headsNodup
  have hidem : goSort (before l.sortFn) (goSort (before l.sortFn) l.heads) = goSort (before l.sortFn) l.heads := by
    have hsto := orderOk_sto I.nodup ho
    have hin : ∀ x ∈ goSort (before l.sortFn) l.heads, x ∈ l.entries :=
      fun x hx => I.headsIn x (mem_goSort.mp hx)
    have hndl : (goSort (before l.sortFn) l.heads).Nodup :=
      (goSort_perm _ _).nodup_iff.mpr (nodup_of_hashes_nodup I.headsNodup)
    refine sorted_unique ho (goSort_sorted hsto _ hin hndl) ?_ (goSort_perm _ _) ?_
    · exact goSort_sorted hsto _ I.headsIn (nodup_of_hashes_nodup I.headsNodup)
    · intro x hx; exact hin x (mem_goSort.mp hx)
  have hlen : (goSort (before l.sortFn) l.heads).length = l.heads.length := (goSort_perm _ _).length_eq
  have hom : omFromList (goSort (before l.sortFn) l.heads) = goSort (before l.sortFn) l.heads := by
    have := omFromList_eq_self hnd
    rwa [sortedHeads_eq I.headsNodup] at this
  simp [iterator, iterStart, iterTrim, iterDropGt, iterKeepLast, iterCount, iterEnd, iterAmount, values, traverse, traverseG, traverseFuel,
    sortedHeads_eq I.headsNodup, hom, hidem, hlen]

end Model.C15
