import Proofs.Iterator
import Proofs.TraverseG
/-!
# C15 — iteration returns the requested causal range, newest first, and always ends

Theorems about `Model.iterator`, the transcription of `IPFSLog.Iterator` (log.go).  The result type has
three outcomes (`ok out closed`, `errLTE`, `errLT`); the Go function has a fourth possible outcome,
a panic, which the harness records and compares (`SPEC C15 noPanic`).  The traversal-free range
specification `Model.iterSpec` is evaluated against every implementation call by the driver.
-/
namespace Model.C15

/-- on success the output channel is always closed — also when the amount is zero or exceeds what is
    available -/
theorem success_closes (l : Log) (o : IterOpts) (out : List Entry) (c : Bool)
    (h : iterator l o = .ok out c) : c = true := by
  unfold iterator at h
  split at h
  · cases h; rfl
  · split at h
    · cases h
    · cases h
    · cases h; rfl

theorem amount_zero (l : Log) (o : IterOpts) (h : o.amount = some 0) : iterator l o = .ok [] true := by
  unfold iterator; simp [h]

/-- an unknown inclusive upper bound is reported as an error (the channel is not touched: the only
    outcome that closes it is `ok`) -/
theorem unknown_lte_is_error (l : Log) (o : IterOpts) (cs : List Hash) (ha : o.amount ≠ some 0)
    (hl : o.lte = some cs) (hu : ∃ c ∈ cs, has l.entries c = false) : iterator l o = .errLTE := by
  unfold iterator iterStart
  simp only [ha, if_false, hl, lookupAll_none hu]

/-- an unknown exclusive upper bound likewise -/
theorem unknown_lt_is_error (l : Log) (o : IterOpts) (c : Hash) (ha : o.amount ≠ some 0)
    (hl : o.lte = none) (hlt : o.lt = some [c]) (hu : has l.entries c = false) : iterator l o = .errLT := by
  unfold iterator iterStart
  have : get? l.entries c = none := get?_none_iff.mpr hu
  simp only [ha, if_false, hl, hlt, ltStart, this]

theorem iterStart_mem {U : List Entry} {l : Log} (I : Inv U l) (o : IterOpts) (start : List Entry)
    (h : iterStart l o = .ok start) : ∀ x ∈ start, x ∈ l.entries := by
  have hheads : ∀ x ∈ sortedHeads l, x ∈ l.entries :=
    fun x hx => I.headsIn x ((mem_sortedHeads I.headsNodup).mp hx)
  unfold iterStart at h
  split at h
  · split at h
    · rename_i s hs; cases h; exact lookupAll_mem hs
    · cases h
  · split at h
    · split at h
      · rename_i s hs; cases h; exact ltStart_mem hheads hs
      · cases h
    · cases h; exact hheads

theorem iterDropGt_subset (o : IterOpts) (ents : List Entry) : ∀ x ∈ iterDropGt o ents, x ∈ ents := by
  intro x hx
  unfold iterDropGt at hx
  split at hx
  · exact List.dropLast_subset _ hx
  · exact hx

theorem iterKeepLast_subset (o : IterOpts) (ents : List Entry) : ∀ x ∈ iterKeepLast o ents, x ∈ ents := by
  intro x hx
  unfold iterKeepLast at hx
  split at hx
  · exact List.mem_of_mem_drop hx
  · exact hx

theorem iterTrim_subset (o : IterOpts) (ents : List Entry) : ∀ x ∈ iterTrim o ents, x ∈ ents :=
  fun x hx => iterDropGt_subset o ents x (iterKeepLast_subset o _ x hx)

/-- everything that is emitted is an entry of the log -/
theorem emits_entries {U : List Entry} {l : Log} (I : Inv U l) (o : IterOpts) (out : List Entry) (c : Bool)
    (h : iterator l o = .ok out c) : ∀ x ∈ out, x ∈ l.entries := by
  unfold iterator at h
  split at h
  · cases h; intro x hx; cases hx
  · split at h
    · cases h
    · cases h
    · rename_i start hstart
      cases h
      intro x hx
      exact traverseG_subset l.entries (before l.sortFn) (omFromList start) _ _
        (fun y hy => iterStart_mem I o start hstart y (mem_omFromList hy)) x (iterTrim_subset o _ x hx)

theorem iterKeepLast_length_le (o : IterOpts) (ents : List Entry) : (iterKeepLast o ents).length ≤ ents.length := by
  unfold iterKeepLast
  split
  · rw [List.length_drop]; omega
  · exact Nat.le_refl _

theorem iterTrim_length_le (o : IterOpts) (ents : List Entry) : (iterTrim o ents).length ≤ ents.length := by
  unfold iterTrim
  refine Nat.le_trans (iterKeepLast_length_le o _) ?_
  unfold iterDropGt
  split
  · simp
  · exact Nat.le_refl _

/-- with an amount at most that many entries are emitted -/
theorem at_most_amount (l : Log) (o : IterOpts) (a : Int) (ha : o.amount = some a) (h0 : 0 ≤ a)
    (out : List Entry) (c : Bool) (h : iterator l o = .ok out c) : out.length ≤ a.toNat := by
  unfold iterator at h
  split at h
  · cases h; simp
  · split at h
    · cases h
    · cases h
    · rename_i start _
      cases h
      have hA : iterAmount o = a := by simp [iterAmount, ha]
      by_cases hlow : iterEnd o = none
      · -- no lower bound: the traversal itself is limited
        have hcnt : iterCount o = a := by simp [iterCount, hlow, ha, hA]
        rw [hcnt, hlow]
        refine Nat.le_trans (iterTrim_length_le o _) ?_
        have := travLoop_length l.entries (before l.sortFn) a none h0
          (traverseFuel l.entries (omFromList start)) (goSort (before l.sortFn) (omFromList start)) [] [] 0 h0
        simpa [traverseG] using this
      · -- a lower bound: the part nearest to it is kept
        have hor : (o.gt.isSome = true ∨ o.gte.isSome = true) := by
          unfold iterEnd at hlow
          cases hg : o.gte with
          | some x => simp
          | none =>
            rw [hg] at hlow
            cases hgt : o.gt with
            | some y => simp
            | none => rw [hgt] at hlow; exact absurd rfl hlow
        unfold iterTrim iterKeepLast
        rw [hA]
        split
        · rw [List.length_drop]; omega
        · rename_i hc
          have : ¬ (a > -1 ∧ a < ((iterDropGt o (traverseG l.entries (before l.sortFn) (omFromList start) (iterCount o) (iterEnd o))).length : Int)) :=
            fun hh => hc ⟨hor, hh.1, hh.2⟩
          omega

/-- the default iteration (no bounds, no amount) is the whole linearisation, newest first -/
theorem default_is_reverse_values {U : List Entry} {l : Log} (I : Inv U l) (ho : OrderOk l.sortFn l.entries) :
    iterator l {} = .ok (values l).reverse true := by
  have hnd := sortedHeads_nodup I.headsNodup
  have hidem : goSort (before l.sortFn) (goSort (before l.sortFn) l.heads) = goSort (before l.sortFn) l.heads := by
    have hsto := orderOk_sto I.nodup ho
    have hin : ∀ x ∈ goSort (before l.sortFn) l.heads, x ∈ l.entries :=
      fun x hx => I.headsIn x (mem_goSort.mp hx)
    have hndl : (goSort (before l.sortFn) l.heads).Nodup :=
      (goSort_perm _ _).nodup_iff.mpr (nodup_of_hashes_nodup I.headsNodup)
    refine sorted_unique ho (goSort_sorted hsto _ hin hndl) ?_ (goSort_perm _ _) ?_
    · exact goSort_sorted hsto _ I.headsIn (nodup_of_hashes_nodup I.headsNodup)
    · intro x hx; exact hin x (mem_goSort.mp hx)
  have hlen : (goSort (before l.sortFn) l.heads).length = l.heads.length := (goSort_perm _ _).length_eq
  have hom : omFromList (goSort (before l.sortFn) l.heads) = goSort (before l.sortFn) l.heads := by
    have := omFromList_eq_self hnd
    rwa [sortedHeads_eq I.headsNodup] at this
  simp [iterator, iterStart, iterTrim, iterDropGt, iterKeepLast, iterCount, iterEnd, iterAmount, values, traverse, traverseG, traverseFuel,
    sortedHeads_eq I.headsNodup, hom, hidem, hlen]

/-! ## the causal range (general roots: `LTE`/`LT` bounds may be referenced and related)

`iterFull l start` is the unbounded traversal without lower bound from the start entries
(`Proofs/TraverseG.lean`); by `traverse_general` it is the strictly descending, duplicate-free list
of exactly the causal past of the start entries. -/

/-- the traversal behind a successful iteration -/
theorem iterator_ok_eq {l : Log} {o : IterOpts} {out : List Entry} {c : Bool} {start : List Entry}
    (h : iterator l o = .ok out c) (ha : o.amount ≠ some 0) (hs : iterStart l o = .ok start) :
    out = iterTrim o (traverseG l.entries (before l.sortFn) (omFromList start) (iterCount o) (iterEnd o)) := by
  unfold iterator at h
  rw [if_neg ha, hs] at h
  cases h; rfl

/-- the full emission is the causal past of the start entries: strictly descending, duplicate-free,
    and containing exactly the entries reachable from a start entry -/
theorem iter_full_spec {U : List Entry} {l : Log} (I : Inv U l) (ho : OrderOk l.sortFn l.entries)
    (o : IterOpts) (start : List Entry) (hs : iterStart l o = .ok start) :
    (iterFull l start).Pairwise (fun a b => before l.sortFn a b = true) ∧ (iterFull l start).Nodup ∧
    ∀ x, x ∈ iterFull l start ↔ ∃ r ∈ start, Desc l.entries r x := by
  have C := ctxG_of_inv I ho
  have hin := iterStart_mem I o start hs
  have hroots : ∀ r ∈ omFromList start, r ∈ l.entries := fun r hr => hin r (mem_omFromList hr)
  obtain ⟨h1, h2, h3⟩ := traverse_general C hroots
  refine ⟨h1, h2, ?_⟩
  intro x
  rw [iterFull, h3 x]
  constructor
  · rintro ⟨r, hr, hd⟩; exact ⟨r, mem_omFromList hr, hd⟩
  · rintro ⟨r, hr, hd⟩; exact ⟨r, (mem_omFromList_iff C.nodupH hin).mpr hr, hd⟩

theorem iterTrim_infix (o : IterOpts) (T : List Entry) : ∃ s t, T = s ++ iterTrim o T ++ t := by
  have h1 : ∃ t, T = iterDropGt o T ++ t := by
    unfold iterDropGt
    split
    · exact ⟨T.drop (T.length - 1), by rw [List.dropLast_eq_take, List.take_append_drop]⟩
    · exact ⟨[], by simp⟩
  have h2 : ∃ s, iterDropGt o T = s ++ iterKeepLast o (iterDropGt o T) := by
    unfold iterKeepLast
    split
    · exact ⟨(iterDropGt o T).take ((iterDropGt o T).length - (iterAmount o).toNat), by rw [List.take_append_drop]⟩
    · exact ⟨[], by simp⟩
  obtain ⟨t, ht⟩ := h1
  obtain ⟨s, hs⟩ := h2
  refine ⟨s, t, ?_⟩
  unfold iterTrim
  rw [← hs]; exact ht

/-- **Range, soundness — any combination of bounds.**  A successful iteration emits a contiguous
    stretch of the full emission: hence without duplicates, newest first, and only entries of the
    causal past of the upper bound. -/
theorem iter_range_sound {U : List Entry} {l : Log} (I : Inv U l) (ho : OrderOk l.sortFn l.entries)
    (o : IterOpts) (out : List Entry) (c : Bool) (start : List Entry)
    (h : iterator l o = .ok out c) (ha : o.amount ≠ some 0) (hs : iterStart l o = .ok start) :
    (∃ s t, iterFull l start = s ++ out ++ t) ∧ out.Nodup ∧
    out.Pairwise (fun a b => before l.sortFn a b = true) ∧
    ∀ x ∈ out, ∃ r ∈ start, Desc l.entries r x := by
  obtain ⟨hsorted, hnd, hmem⟩ := iter_full_spec I ho o start hs
  have hinfix : ∃ s t, iterFull l start = s ++ out ++ t := by
    rw [iterator_ok_eq h ha hs]
    obtain ⟨t1, ht1⟩ := traverseG_prefix l.entries (before l.sortFn) (omFromList start) (iterCount o) (iterEnd o)
    obtain ⟨s, t2, ht2⟩ := iterTrim_infix o
      (traverseG l.entries (before l.sortFn) (omFromList start) (iterCount o) (iterEnd o))
    refine ⟨s, t2 ++ t1, ?_⟩
    rw [iterFull, ht1]
    conv => lhs; rw [ht2]
    simp [List.append_assoc]
  obtain ⟨s, t, hst⟩ := hinfix
  have hsub : out.Sublist (iterFull l start) := by
    rw [hst]
    exact (List.sublist_append_right s out).trans (List.sublist_append_left _ t)
  exact ⟨⟨s, t, hst⟩, hnd.sublist hsub, hsorted.sublist hsub, fun x hx => (hmem x).mp (hsub.subset hx)⟩

/-- **Range, no amount and no lower bound.**  The iteration emits exactly the causal past of the
    upper bound (the given `LTE` entries inclusively, the predecessors of the `LT` bound, the heads
    by default). -/
theorem iter_range_full {U : List Entry} {l : Log} (I : Inv U l) (ho : OrderOk l.sortFn l.entries)
    (o : IterOpts) (out : List Entry) (c : Bool) (start : List Entry)
    (h : iterator l o = .ok out c) (hs : iterStart l o = .ok start)
    (hamt : o.amount = none) (hgte : o.gte = none) (hgt : o.gt = none) :
    out = iterFull l start ∧ ∀ x, x ∈ out ↔ ∃ r ∈ start, Desc l.entries r x := by
  have ha : o.amount ≠ some 0 := by rw [hamt]; simp
  have hout : out = iterFull l start := by
    rw [iterator_ok_eq h ha hs]
    simp [iterTrim, iterDropGt, iterKeepLast, iterCount, iterEnd, iterAmount, iterFull, hamt, hgte, hgt]
  rw [hout]
  exact ⟨rfl, (iter_full_spec I ho o start hs).2.2⟩

theorem iterKeepLast_none {o : IterOpts} (hamt : o.amount = none) (w : List Entry) : iterKeepLast o w = w := by
  simp [iterKeepLast, iterAmount, hamt]

theorem iterKeepLast_some {o : IterOpts} {a : Int} (hamt : o.amount = some a) (h0 : 0 ≤ a)
    (hlow : o.gt.isSome = true ∨ o.gte.isSome = true) (w : List Entry) :
    iterKeepLast o w = w.drop (w.length - a.toNat) := by
  have hA : iterAmount o = a := by simp [iterAmount, hamt]
  unfold iterKeepLast
  rw [hA]
  split
  · rfl
  · rename_i hc
    have : ¬ a < (w.length : Int) := fun hh => hc ⟨hlow, by omega, hh⟩
    have : w.length - a.toNat = 0 := by omega
    rw [this, List.drop_zero]

/-- **Range with an inclusive lower bound `GTE = g`** inside the causal past: the part of the full
    emission before `g`, then `g` itself; with an amount, the last `amount` of these (those nearest
    the lower bound). -/
theorem iter_range_gte {U : List Entry} {l : Log} (I : Inv U l) (ho : OrderOk l.sortFn l.entries)
    (o : IterOpts) (out : List Entry) (c : Bool) (start : List Entry)
    (h : iterator l o = .ok out c) (ha : o.amount ≠ some 0) (hs : iterStart l o = .ok start)
    (g : Hash) (x : Entry) (hgte : o.gte = some g) (hgt : o.gt = none)
    (hx : x ∈ iterFull l start) (hxg : x.hash = g) :
    let w := (iterFull l start).takeWhile (fun e => e.hash != g) ++ [x]
    (o.amount = none → out = w) ∧
    (∀ a, o.amount = some a → 0 ≤ a → out = w.drop (w.length - a.toNat)) := by
  intro w
  have C := ctxG_of_inv I ho
  have hin := iterStart_mem I o start hs
  have hroots : ∀ r ∈ omFromList start, r ∈ l.entries := fun r hr => hin r (mem_omFromList hr)
  have hend : iterEnd o = some g := by simp [iterEnd, hgte]
  have hcnt : iterCount o = -1 := by simp [iterCount, hend]
  have hT : traverseG l.entries (before l.sortFn) (omFromList start) (iterCount o) (iterEnd o) = w := by
    rw [hcnt, hend]; exact traverse_endHash C hroots hx hxg
  have hout : out = iterKeepLast o w := by
    rw [iterator_ok_eq h ha hs, hT]
    simp [iterTrim, iterDropGt, hgt]
  rw [hout]
  exact ⟨fun hamt => iterKeepLast_none hamt w,
    fun a hamt h0 => iterKeepLast_some hamt h0 (Or.inr (by simp [hgte])) w⟩

/-- **Range with an exclusive lower bound `GT = g`** inside the causal past: the part of the full
    emission strictly before `g`; with an amount, the last `amount` of these. -/
theorem iter_range_gt {U : List Entry} {l : Log} (I : Inv U l) (ho : OrderOk l.sortFn l.entries)
    (o : IterOpts) (out : List Entry) (c : Bool) (start : List Entry)
    (h : iterator l o = .ok out c) (ha : o.amount ≠ some 0) (hs : iterStart l o = .ok start)
    (g : Hash) (x : Entry) (hgte : o.gte = none) (hgt : o.gt = some g)
    (hx : x ∈ iterFull l start) (hxg : x.hash = g) :
    let w := (iterFull l start).takeWhile (fun e => e.hash != g)
    (o.amount = none → out = w) ∧
    (∀ a, o.amount = some a → 0 ≤ a → out = w.drop (w.length - a.toNat)) := by
  intro w
  have C := ctxG_of_inv I ho
  have hin := iterStart_mem I o start hs
  have hroots : ∀ r ∈ omFromList start, r ∈ l.entries := fun r hr => hin r (mem_omFromList hr)
  have hend : iterEnd o = some g := by simp [iterEnd, hgte, hgt]
  have hcnt : iterCount o = -1 := by simp [iterCount, hend]
  have hT : traverseG l.entries (before l.sortFn) (omFromList start) (iterCount o) (iterEnd o) = w ++ [x] := by
    rw [hcnt, hend]; exact traverse_endHash C hroots hx hxg
  have hout : out = iterKeepLast o w := by
    rw [iterator_ok_eq h ha hs, hT]
    simp [iterTrim, iterDropGt, hgt]
  rw [hout]
  exact ⟨fun hamt => iterKeepLast_none hamt w,
    fun a hamt h0 => iterKeepLast_some hamt h0 (Or.inl (by simp [hgt])) w⟩

/-- **Range with an amount and no lower bound**: a prefix (the newest part) of the full emission
    of at most `amount` entries; exactly the `amount` newest when no start entry is a strict
    descendant of a start entry.  (When start entries ARE related the code counts the second visit
    of such an entry against `amount` without emitting anything — see `related_bounds_amount`.) -/
theorem iter_range_amount {U : List Entry} {l : Log} (I : Inv U l) (ho : OrderOk l.sortFn l.entries)
    (o : IterOpts) (out : List Entry) (c : Bool) (start : List Entry)
    (h : iterator l o = .ok out c) (ha : o.amount ≠ some 0) (hs : iterStart l o = .ok start)
    (a : Int) (hamt : o.amount = some a) (h0 : 0 ≤ a) (hgte : o.gte = none) (hgt : o.gt = none) :
    (∃ t, iterFull l start = out ++ t) ∧ out.length ≤ a.toNat ∧
    (RootsIndep l.entries (omFromList start) → out = (iterFull l start).take a.toNat) := by
  have C := ctxG_of_inv I ho
  have hin := iterStart_mem I o start hs
  have hroots : ∀ r ∈ omFromList start, r ∈ l.entries := fun r hr => hin r (mem_omFromList hr)
  have hend : iterEnd o = none := by simp [iterEnd, hgte, hgt]
  have hcnt : iterCount o = a := by simp [iterCount, hend, hamt, iterAmount]
  have hout : out = traverseG l.entries (before l.sortFn) (omFromList start) a none := by
    rw [iterator_ok_eq h ha hs, hcnt, hend]
    simp [iterTrim, iterDropGt, iterKeepLast, hgte, hgt]
  rw [hout]
  obtain ⟨h1, h2⟩ := traverse_amount l.entries (before l.sortFn) (omFromList start) a h0
  refine ⟨h1, h2, ?_⟩
  intro hind
  exact traverse_amount_take C hroots (nodup_of_hashes_nodup (omFromList_nodup start)) hind a h0

/-- the default upper bound (the heads) with an amount: the `amount` newest entries of the log -/
theorem iter_heads_amount {U : List Entry} {l : Log} (I : Inv U l) (ho : OrderOk l.sortFn l.entries)
    (o : IterOpts) (out : List Entry) (c : Bool)
    (h : iterator l o = .ok out c) (hlte : o.lte = none) (hlt : o.lt = none)
    (a : Int) (hamt : o.amount = some a) (h0 : 0 < a) (hgte : o.gte = none) (hgt : o.gt = none) :
    out = (values l).reverse.take a.toNat := by
  have hs : iterStart l o = .ok (sortedHeads l) := by simp [iterStart, hlte, hlt]
  have ha : o.amount ≠ some 0 := by rw [hamt]; intro hh; cases hh; omega
  have hind : RootsIndep l.entries (omFromList (sortedHeads l)) :=
    rootsIndep_of_unref I (fun r hr => (mem_sortedHeads I.headsNodup).mp (mem_omFromList hr))
  have hfull : iterFull l (sortedHeads l) = (values l).reverse := by
    have hd := default_is_reverse_values I ho
    have hs0 : iterStart l {} = .ok (sortedHeads l) := by simp [iterStart]
    have := iterator_ok_eq hd (by simp) hs0
    rw [this]
    simp [iterTrim, iterDropGt, iterKeepLast, iterCount, iterEnd, iterAmount, iterFull]
  rw [← hfull]
  exact (iter_range_amount I ho o out c _ h ha hs a hamt (by omega) hgte hgt).2.2 hind

/-! ## non-vacuity: a forked log, related `LTE` bounds -/

def d1 : Entry := { hash := [1], logId := [7], next := [], refs := [], clock := { id := [1], time := 1 } }
def d2 : Entry := { hash := [2], logId := [7], next := [[1]], refs := [], clock := { id := [1], time := 2 } }
def d3 : Entry := { hash := [3], logId := [7], next := [[1]], refs := [], clock := { id := [2], time := 2 } }
def d4 : Entry := { hash := [4], logId := [7], next := [[2], [3]], refs := [], clock := { id := [1], time := 3 } }
def d5 : Entry := { hash := [5], logId := [7], next := [[3]], refs := [], clock := { id := [2], time := 3 } }

/-- a forked log: `d2` and `d3` both follow `d1`; `d4` merges them; `d5` continues the fork after
    `d3`.  Heads `d4`, `d5`. -/
def demoLog : Log :=
  { id := [7], entries := [d1, d2, d3, d4, d5], heads := [d4, d5], nextIdx := [[1], [2], [3]],
    clock := { id := [1], time := 3 }, sortFn := .lww }

theorem demoLog_inv : Inv demoLog.entries demoLog where
  inU := fun _ h => h
  nodup := by decide
  closed := by decide
  mono := by decide
  headsIn := by decide
  headsNodup := by decide
  headsSpec := by unfold namedBy; decide
  headsUnref := by unfold namedBy; decide
  nextIdx := by
    intro h
    constructor
    · intro hh
      have : ∀ h ∈ demoLog.nextIdx, ∃ e ∈ demoLog.entries, h ∈ e.next := by decide
      exact this h hh
    · rintro ⟨e, he, hc⟩
      have : ∀ e ∈ demoLog.entries, ∀ c ∈ e.next, c ∈ demoLog.nextIdx := by decide
      exact this e he h hc
  logId := by decide

theorem demoLog_order : OrderOk demoLog.sortFn demoLog.entries := by
  show ∀ a ∈ demoLog.entries, ∀ b ∈ demoLog.entries, a ≠ b → keyNe a b
  unfold keyNe
  decide

/-- the bounds `LTE = [d4, d2]` are related: `d2` is a predecessor of `d4`, so these start entries
    are neither unreferenced nor independent -/
example : iterStart demoLog { lte := some [[4], [2]] } = .ok [d4, d2] ∧ Desc demoLog.entries d4 d2 ∧
    ¬ RootsIndep demoLog.entries (omFromList [d4, d2]) := by
  have hd : Desc demoLog.entries d4 d2 :=
    Desc.step (c := [2]) (Desc.refl d4 (by decide)) (by decide) (by decide)
  refine ⟨by decide, hd, ?_⟩
  intro hind
  exact hind d4 (by decide) d4 [2] d2 (Desc.refl d4 (by decide)) (by decide) (by decide) (by decide)

example : iterFull demoLog [d4, d2] = [d4, d3, d2, d1] := by decide
example : iterator demoLog { lte := some [[4], [2]] } = .ok [d4, d3, d2, d1] true := by decide
example : iterator demoLog { lte := some [[4], [2]], gte := some [2] } = .ok [d4, d3, d2] true := by decide
example : iterator demoLog { lte := some [[4], [2]], gt := some [2] } = .ok [d4, d3] true := by decide
example : iterator demoLog { lte := some [[4], [2]], gte := some [2], amount := some 2 } = .ok [d3, d2] true := by decide
example : iterator demoLog { lte := some [[4], [2]], gt := some [2], amount := some 1 } = .ok [d3] true := by decide
example : iterator demoLog { lte := some [[4], [2]], amount := some 2 } = .ok [d4, d3] true := by decide
example : iterator demoLog { lt := some [[4]] } = .ok [d3, d2, d1] true := by decide
example : iterator demoLog { amount := some 2 } = .ok [d5, d4] true := by decide
example : (values demoLog).reverse = [d5, d4, d3, d2, d1] := by decide

/-- the theorems apply to the related bounds: the emission is exactly the causal past of `d4`, `d2` -/
example : ∀ x, x ∈ [d4, d3, d2, d1] ↔ ∃ r ∈ [d4, d2], Desc demoLog.entries r x :=
  (iter_range_full demoLog_inv demoLog_order { lte := some [[4], [2]] } [d4, d3, d2, d1] true [d4, d2]
    (by decide) (by decide) rfl rfl rfl).2

example : [d4, d3, d2] = ([d4, d3, d2, d1].takeWhile (fun e => e.hash != [2]) ++ [d2]) := by
  have h := (iter_range_gte demoLog_inv demoLog_order { lte := some [[4], [2]], gte := some [2] } [d4, d3, d2] true [d4, d2]
    (by decide) (by decide) (by decide) [2] d2 rfl rfl (by decide) rfl).1 rfl
  have hf : iterFull demoLog [d4, d2] = [d4, d3, d2, d1] := by decide
  rw [hf] at h
  exact h

example : [d3] = (([d4, d3, d2, d1].takeWhile (fun e => e.hash != [2])).drop
    (([d4, d3, d2, d1].takeWhile (fun e => e.hash != [2])).length - (1 : Int).toNat)) := by
  have h := (iter_range_gt demoLog_inv demoLog_order { lte := some [[4], [2]], gt := some [2], amount := some 1 } [d3] true [d4, d2]
    (by decide) (by decide) (by decide) [2] d2 rfl rfl (by decide) rfl).2 1 rfl (by decide)
  have hf : iterFull demoLog [d4, d2] = [d4, d3, d2, d1] := by decide
  rw [hf] at h
  exact h

example : [d5, d4] = (values demoLog).reverse.take (2 : Int).toNat :=
  iter_heads_amount demoLog_inv demoLog_order { amount := some 2 } [d5, d4] true (by decide) rfl rfl 2 rfl
    (by decide) rfl rfl

/-- **Observation (the code, not the model).**  With related upper bounds and an amount but no lower
    bound, the second visit of a start entry that is also a predecessor is counted against `amount`
    although nothing is emitted: asking for 4 entries of a causal past that has 4 entries yields 3.
    (`iter_range_amount` therefore only promises a prefix of at most `amount` entries in general.) -/
theorem related_bounds_amount :
    iterator demoLog { lte := some [[4], [2]], amount := some 4 } = .ok [d4, d3, d2] true ∧
    iterFull demoLog [d4, d2] = [d4, d3, d2, d1] := by decide

/-! ## a lower bound that is NOT in the causal past of the upper bound -/

/-- the traversal with an end hash nobody in the past carries is the full emission (pure loop fact) -/
theorem traverse_endHash_outside (l : Log) (start : List Entry) (g : Hash)
    (hout : ∀ x ∈ iterFull l start, x.hash ≠ g) :
    traverseG l.entries (before l.sortFn) (omFromList start) (-1) (some g) = iterFull l start := by
  rw [traverse_endHash_find]
  show (iterFull l start).takeWhile (fun e => e.hash != g) ++
    ((iterFull l start).find? (fun e => e.hash == g)).toList = iterFull l start
  rw [takeWhile_all (fun r hr => by simpa using hout r hr), find?_all_false (fun r hr => by simpa using hout r hr)]
  simp

/-- an inclusive lower bound outside the causal past is ignored: the whole past is emitted -/
theorem iter_range_gte_outside (l : Log) (o : IterOpts) (out : List Entry) (c : Bool) (start : List Entry)
    (h : iterator l o = .ok out c) (hs : iterStart l o = .ok start) (hamt : o.amount = none)
    (g : Hash) (hgte : o.gte = some g) (hgt : o.gt = none)
    (hout : ∀ x ∈ iterFull l start, x.hash ≠ g) : out = iterFull l start := by
  have ha : o.amount ≠ some 0 := by rw [hamt]; simp
  have hend : iterEnd o = some g := by simp [iterEnd, hgte]
  have hcnt : iterCount o = -1 := by simp [iterCount, hend]
  rw [iterator_ok_eq h ha hs, hcnt, hend, traverse_endHash_outside l start g hout]
  simp [iterTrim, iterDropGt, hgt, iterKeepLast_none hamt]

/-- **Observation (the code).**  An exclusive lower bound outside the causal past is not ignored:
    the traversal runs to the end, and then the LAST (oldest) entry of the past is dropped, as if
    it were the bound. -/
theorem iter_range_gt_outside (l : Log) (o : IterOpts) (out : List Entry) (c : Bool) (start : List Entry)
    (h : iterator l o = .ok out c) (hs : iterStart l o = .ok start) (hamt : o.amount = none)
    (g : Hash) (hgte : o.gte = none) (hgt : o.gt = some g)
    (hout : ∀ x ∈ iterFull l start, x.hash ≠ g) : out = (iterFull l start).dropLast := by
  have ha : o.amount ≠ some 0 := by rw [hamt]; simp
  have hend : iterEnd o = some g := by simp [iterEnd, hgte, hgt]
  have hcnt : iterCount o = -1 := by simp [iterCount, hend]
  rw [iterator_ok_eq h ha hs, hcnt, hend, traverse_endHash_outside l start g hout]
  unfold iterTrim
  rw [iterKeepLast_none hamt]
  unfold iterDropGt
  split
  · rfl
  · rename_i hc
    have : (iterFull l start).length = 0 := by
      have : ¬ (iterFull l start).length > 0 := fun hh => hc ⟨by simp [hgt], hh⟩
      omega
    rw [List.length_eq_zero_iff.mp this]; rfl

/-- `d5` is not in the past of `d2`: `GT = d5` drops `d1`, `GTE = d5` does not -/
example : iterator demoLog { lte := some [[2]], gt := some [5] } = .ok [d2] true ∧
    iterator demoLog { lte := some [[2]], gte := some [5] } = .ok [d2, d1] true ∧
    iterFull demoLog [d2] = [d2, d1] := by decide


/-! ## both lower bounds at once (`GTE = g` and `GT = g'`) -/

/-- **Range with both lower bounds given.**  The code takes `GTE` as the end of the traversal
    (log.go: `endHash` prefers `GTE`) and then, because `GT` is non-nil, drops the last entry, which
    is the `GTE` bound itself: the emission is the part of the full emission strictly before `g`,
    whatever `g'` is; with an amount, the last `amount` of these.  The range is therefore still
    inside "down to the lower bound", with `g` treated as exclusive. -/
theorem iter_range_gte_gt {U : List Entry} {l : Log} (I : Inv U l) (ho : OrderOk l.sortFn l.entries)
    (o : IterOpts) (out : List Entry) (c : Bool) (start : List Entry)
    (h : iterator l o = .ok out c) (ha : o.amount ≠ some 0) (hs : iterStart l o = .ok start)
    (g g' : Hash) (x : Entry) (hgte : o.gte = some g) (hgt : o.gt = some g')
    (hx : x ∈ iterFull l start) (hxg : x.hash = g) :
    let w := (iterFull l start).takeWhile (fun e => e.hash != g)
    (o.amount = none → out = w) ∧
    (∀ a, o.amount = some a → 0 ≤ a → out = w.drop (w.length - a.toNat)) := by
  intro w
  have C := ctxG_of_inv I ho
  have hin := iterStart_mem I o start hs
  have hroots : ∀ r ∈ omFromList start, r ∈ l.entries := fun r hr => hin r (mem_omFromList hr)
  have hend : iterEnd o = some g := by simp [iterEnd, hgte]
  have hcnt : iterCount o = -1 := by simp [iterCount, hend]
  have hT : traverseG l.entries (before l.sortFn) (omFromList start) (iterCount o) (iterEnd o) = w ++ [x] := by
    rw [hcnt, hend]; exact traverse_endHash C hroots hx hxg
  have hout : out = iterKeepLast o w := by
    rw [iterator_ok_eq h ha hs, hT]
    simp [iterTrim, iterDropGt, hgt]
  rw [hout]
  exact ⟨fun hamt => iterKeepLast_none hamt w,
    fun a hamt h0 => iterKeepLast_some hamt h0 (Or.inl (by simp [hgt])) w⟩

/-- the premises are met by the demo log: `GTE = d2`, `GT = d1` from `d4` emits `d4, d3` -/
example : iterator demoLog { lte := some [[4]], gte := some [2], gt := some [1] } = .ok [d4, d3] true ∧
    iterFull demoLog [d4] = [d4, d3, d2, d1] := by decide

end Model.C15
