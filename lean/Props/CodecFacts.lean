import Generated.Facts
import Model.Cbor
import Model.Json
/-!
# The signed map and the CBOR schema of the Go code, from the regenerated facts (C07, C08, C12, C18)

`Generated/Facts.lean` is rewritten from the Go AST before every check (`harness/cmd/extract/codecfacts.go`).
Two kinds of obligations, all closed by `decide`:

* **derived** — the serial names of the refmt atlas of `io/cbor`, in source order, are the keys the
  model's encoder writes (`atlas_*_match_model`); the keys of the map `toBuffer` marshals are the keys
  inside the byte constants of `Model.Json.toBuffer` (`signed_keys_match_model`).  Nothing here is
  copied by hand: both sides are computed.
* **expected** — the Go expression that feeds each key / field / step (`signedMap`, `hashableFields`,
  `fieldFlow`) is the one the model was transcribed from.  A change of one of these expressions is a
  change of what is signed or stored; it breaks the obligation and the streams look for an input.
-/
namespace Model.CodecFacts
open Model

def keysOf : Cbor.Item → List Bytes
  | .map l => l.map (·.1)
  | _ => []

def atlas (t : String) : List (List Nat) :=
  match Generated.atlasKeys.find? (·.1 == t) with
  | some p => p.2
  | none => []

/-- an entry with every optional field present -/
def jFull : Cbor.JEntry :=
  { v := 2, next := some [], refs := some [], clock := some { id := [], time := 0 },
    identity := some { id := [], typ := [], publicKey := [], signatures := some { id := [], publicKey := [] } },
    encLinks := [1], encNonce := [1] }

theorem atlas_entry_match_model : atlas "jsonable.Entry" = keysOf (Cbor.entryItem jFull) := by decide
theorem atlas_entryV1_match_model : atlas "jsonable.EntryV1" = keysOf (Cbor.entryItemV1 jFull) := by decide
theorem atlas_clock_match_model : atlas "jsonable.LamportClock" = keysOf (Cbor.clockItem jFull.clock) := by decide
theorem atlas_identity_match_model : atlas "jsonable.Identity" = keysOf (Cbor.identityItem jFull.identity) := by decide
theorem atlas_signature_match_model :
    atlas "jsonable.IdentitySignature" = keysOf (Cbor.sigItem (some { id := [], publicKey := [] })) := by decide
theorem atlas_manifest_match_model : atlas "iface.JSONLog" = keysOf (Cbor.logItem {}) := by decide
/-- the omit-empty flags: exactly the two encrypted-link fields of the entry (and the additional data of
    the hashable) -/
theorem atlas_omitEmpty :
    (Generated.atlasFields.filter (fun a => a.2.2.2 != "false")).map (fun a => (a.1, a.2.2.1)) =
      [("jsonable.Entry", "enc_links"), ("jsonable.Entry", "enc_links_nonce"), ("iface.Hashable", "additional_data")] := by
  decide

/-! ## the signed map -/

def skey (path : String) : List Nat :=
  match Generated.signedKeys.find? (·.1 == path) with
  | some p => p.2
  | none => []

/-- `"k":` -/
def jk (k : List Nat) : List Nat := 34 :: (k ++ [34, 58])

/-- the byte constants of the model's `toBuffer` are built from the keys of the Go map, in the order
    `encoding/json` writes a map (sorted) -/
theorem signed_keys_match_model :
    Json.kAdditional = jk (skey "additional_data") ∧
    Json.kClockId = jk [99, 108, 111, 99, 107] ++ 123 :: jk (skey "clock.id") ∧
    Json.kTime = 44 :: jk (skey "clock.time") ∧
    Json.kHashId = [125, 44] ++ jk (skey "hash") ++ [110, 117, 108, 108, 44] ++ jk (skey "id") ∧
    Json.kNext = 44 :: jk (skey "next") ∧
    Json.kPayload = 44 :: jk (skey "payload") ∧
    Json.kRefs = 44 :: jk (skey "refs") ∧
    Json.kV = 44 :: jk (skey "v") := by decide

/-- there is no other key, and the map itself is what is marshalled -/
theorem signed_map_exact : Generated.signedMap =
    [("hash", "nil"), ("id", "e.ID"), ("payload", "string(e.Payload)"), ("next", "e.Next"), ("refs", "e.Refs"),
     ("v", "e.V"), ("clock.id", "hex.EncodeToString(e.Clock.GetID())"), ("clock.time", "e.Clock.GetTime()"),
     ("additional_data?", "e.AdditionalData"), ("<marshal>", "data")] := by decide

/-- `ToHashable` copies every field from the entry's getters, unconditionally (`<body>`: the statements of the
    function other than local definitions, filling loops, error returns and the return — none) -/
theorem hashable_exact : Generated.hashableFields =
    [("Hash", "nil"), ("ID", "e.GetLogID()"), ("Payload", "e.GetPayload()"), ("Next", "nexts"), ("Refs", "refs"),
     ("V", "e.GetV()"), ("Clock", "e.GetClock()"), ("Key", "e.GetKey()"), ("AdditionalData", "e.GetAdditionalData()"),
     ("<body>", "")] := by decide

/-! ## field flow of the conversions -/

def flow (f : String) : List String :=
  match Generated.fieldFlow.find? (·.1 == f) with
  | some p => p.2
  | none => []

/-- creation: key set, then `PreSign`, then the signed bytes, signature, identity, block -/
theorem create_flow : flow "CreateEntryWithIO" =
    ["call Copy()", "call SetClock(CopyLamportClock(clock))", "call SetClock(NewLamportClock(identity.PublicKey, 0))",
     "call SetV(2)", "call SetKey(identity.PublicKey)", "call PreSign(data)", "call ToHashable(data)",
     "call toBuffer(hashable)", "call Sign(ctx, identity, jsonBytes)", "call SetKey(identity.PublicKey)",
     "call SetSig(signature)", "call SetIdentity(identity.Filtered())",
     "call ToMultihashWithIO(ctx, data, ipfsInstance, opts, io)", "call SetHash(h)"] := by decide

/-- verification recomputes exactly the bytes of creation: `PreSign`, `ToHashable`, `toBuffer` -/
theorem verify_flow : flow "Entry.Verify" =
    ["call PreSign(e)", "call ToHashable(verifiedEntry)", "call toBuffer(hashable)", "call Verify(jsonBytes, e.Sig)"] := by
  decide

/-- `PreSign` seals both link lists, with a nonce derived from the entry -/
theorem presign_flow : flow "IOCbor.PreSign" =
    ["call Copy()", "links.Next = entry.GetNext()", "links.Refs = entry.GetRefs()", "call Marshal(links)",
     "call DeriveNonce(NonceRefForEntry(entry))", "call SealWithNonce(cborPayload, nonce)",
     "call SetAdditionalDataValue(iface.KeyEncryptedLinks, base64.StdEncoding.EncodeToString(encryptedLinks))",
     "call SetAdditionalDataValue(iface.KeyEncryptedLinksNonce, base64.StdEncoding.EncodeToString(nonce))"] := by decide

set_option maxRecDepth 8000 in
/-- the nonce reference covers the predecessors, key, payload, clock, log id and version -/
theorem nonce_ref_flow : flow "NonceRefForEntry" =
    ["call Sprintf('%s,%s,%s,%s,%d,%s,%d', next, entry.GetKey(), entry.GetPayload(), entry.GetClock().GetID(), entry.GetClock().GetTime(), entry.GetLogID(), entry.GetV())"] := by
  decide

/-- reading restores both lists -/
theorem decrypt_flow : flow "IOCbor.DecryptLinks" =
    ["call OpenWithNonce(encryptedLinks, encryptedLinksNonce)", "call Unmarshal(dec, links)",
     "entry.Next = links.Next", "entry.Refs = links.Refs"] := by decide

theorem decode_flow : flow "IOCbor.DecodeRawEntry" =
    ["call DecryptLinks(obj)", "obj.Hash = hash", "call ToPlain(e, p, i.refClock.New)", "call SetHash(hash)",
     "call SetIdentity(i.constantIdentity)", "call SetKey(i.constantIdentity.PublicKey)"] := by decide

/-- the stored form of a V2 entry: every field from its getter; with sealed links both lists are blanked -/
theorem jsonable_v2_flow : (flow "ToJsonableEntry").drop 17 =
    ["EntryV2.V := e.GetV()", "EntryV2.LogID := e.GetLogID()", "EntryV2.Key := hex.EncodeToString(e.GetKey())",
     "EntryV2.Sig := hex.EncodeToString(e.GetSig())", "EntryV2.Hash := nil", "EntryV2.Next := e.GetNext()",
     "EntryV2.Refs := e.GetRefs()", "EntryV2.Clock := ToJsonableLamportClock(e.GetClock())",
     "EntryV2.Payload := string(e.GetPayload())", "EntryV2.Identity := identity",
     "ret.EncryptedLinks = encryptedLinks", "ret.EncryptedLinksNonce = encryptedLinksNonce",
     "ret.Next = []cid.Cid{}", "ret.Refs = []cid.Cid{}"] := by decide

theorem toPlain_flow : flow "Entry.ToPlain" =
    ["call ToPlain(clock)", "call ToPlain(provider)", "call SetV(c.V)", "call SetLogID(c.LogID)", "call SetKey(key)",
     "call SetSig(sig)", "call SetNext(c.Next)", "call SetRefs(c.Refs)", "call SetClock(clock)",
     "call SetPayload([]byte(c.Payload))", "call SetIdentity(identity)"] := by decide

/-- `Copy` keeps every field (links de-duplicated) -/
theorem copy_flow : flow "Entry.Copy" =
    ["Entry.Payload := e.Payload", "Entry.LogID := e.LogID", "Entry.Next := uniqueCIDs(e.Next)",
     "Entry.Refs := uniqueCIDs(e.Refs)", "Entry.V := e.V", "Entry.Key := e.Key", "Entry.Sig := e.Sig",
     "Entry.Identity := e.Identity", "Entry.Hash := e.Hash", "Entry.Clock := clock",
     "Entry.AdditionalData := additionalData", "call uniqueCIDs(e.Next)", "call uniqueCIDs(e.Refs)"] := by decide

end Model.CodecFacts
