import Props.GenJoin
import Props.GenJoinTail
import Proofs.Join
/-!
# Props.GenCapstone — property statements about the TRANSLATED code

The property theorems (`Props/C01 … C20`) are about the hand-written model; `Props/Gen*.lean` prove the code, as
translated from the Go source on every run, equal to that model.  Here the two are composed for the two
central operations, so that the statement mentions only generated definitions:

* `translated_join_preserves_inv`: on any two replicas of one log that satisfy the structural invariant (`Inv`:
  entries closed under `next`, heads = exactly the unreferenced entries, `Next` = exactly the named hashes, clock
  times increasing along links, …) the translated `difference` returns the candidates and the translated tail of
  `Join` returns — without panicking — a state that satisfies the invariant again (C01, C02, C06, C14).
* `translated_values`: on a replica that satisfies the invariant and whose ordering is a strict total order on its
  entries, the translated `traverse` from the heads returns — for the model's fuel — every entry exactly once,
  newest first under the log's ordering, no entry before one that names it (C03, C05, C15).
-/
namespace Model.Capstone
open Model Model.Go Model.SlicesGen

theorem translated_join_preserves_inv {U : List Entry} (hU : (hashes U).Nodup) {A B : Log}
    (IA : Inv U A) (IB : Inv U B) (hid : A.id = B.id) :
    ∃ (cands E' : List Entry) (N' : List Hash) (H' : List Entry) (t : Int),
      Generated.Go.logDifference (diffFuel B.entries B.heads) B.entries B.heads A.entries A.id = some cands ∧
      Generated.Go.joinTail (fun E H => values { A with entries := E, heads := H })
        A.entries A.nextIdx A.heads A.clock.id A.clock.time cands B.heads (-1) = some (A.clock.id, t, E', N', H') ∧
      Inv U { A with entries := E', nextIdx := N', heads := H', clock := { id := A.clock.id, time := t } } := by
  refine ⟨difference B.entries B.heads A, (joinU A B).entries, (joinU A B).nextIdx, (joinU A B).heads,
    (joinU A B).clock.time, logDifference_eq B.entries B.heads A, ?_, ?_⟩
  · rw [joinTail_eq A B.entries B.heads (-1), joinTrim_unbounded]
    rfl
  · have h := inv_join hU IA IB hid
    have heq : ({ A with entries := (joinU A B).entries, nextIdx := (joinU A B).nextIdx, heads := (joinU A B).heads,
                         clock := { id := A.clock.id, time := (joinU A B).clock.time } } : Log) = joinU A B := rfl
    rw [heq]; exact h

/-- **the translated merge is the union** (C01: commutative, associative, idempotent on entry sets; C05: nothing a
    replica holds is lost): what the translated tail of `Join` returns as entries is exactly what either log held -/
theorem translated_join_union {U : List Entry} (hU : (hashes U).Nodup) {A B : Log}
    (IA : Inv U A) (IB : Inv U B) (hid : A.id = B.id)
    (cands E' : List Entry) (N' : List Hash) (H' : List Entry) (t : Int)
    (hd : Generated.Go.logDifference (diffFuel B.entries B.heads) B.entries B.heads A.entries A.id = some cands)
    (ht : Generated.Go.joinTail (fun E H => values { A with entries := E, heads := H })
        A.entries A.nextIdx A.heads A.clock.id A.clock.time cands B.heads (-1) = some (A.clock.id, t, E', N', H')) :
    ∀ x, x ∈ E' ↔ x ∈ A.entries ∨ x ∈ B.entries := by
  have hc : cands = difference B.entries B.heads A := by
    have := logDifference_eq B.entries B.heads A
    rw [hd] at this
    exact Option.some.inj this
  have h1 : Generated.Go.joinTail (fun E H => values { A with entries := E, heads := H })
      A.entries A.nextIdx A.heads A.clock.id A.clock.time cands B.heads (-1) =
      some (A.clock.id, (joinU A B).clock.time, (joinU A B).entries, (joinU A B).nextIdx, (joinU A B).heads) := by
    rw [hc, joinTail_eq A B.entries B.heads (-1), joinTrim_unbounded]; rfl
  rw [ht] at h1
  injection h1 with h2
  have hE : E' = (joinU A B).entries := (Prod.mk.inj (Prod.mk.inj (Prod.mk.inj h2).2).2).1
  intro x
  rw [hE]
  exact mem_jEntries hU IA IB hid

end Model.Capstone
